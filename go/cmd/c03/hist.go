package main

// hist.go — op `hist`: the property over a HISTORY of library calls, not over one call.
//
// Which signer btc.EcdsaSign is (random nonce / RFC 6979) and which verifier the three verify observables are
// (pure Go / an installed hook) is selected by package-level variables of lib/btc/ecdsa.go
// (EcdsaSignWithRFC6979, EC_Verify, Schnorr_Verify, Check_PayToContract); the curve constants live in the
// package-level secp256k1.TheCurve. The application sets them once. Every single-call op of this harness
// sets the switch itself right before the call, so state that a library function leaves behind in those
// variables (a toggled switch not restored on an error path, a hook left installed, a constant modified
// through an aliased big.Int) is invisible to them. A history does what an application does:
//
//	configure the switch once  ->  call any mix of the library's key / signature functions
//	(VerifyKeyPair on matching, mismatching, out-of-range and malformed pairs, the three verifiers on the
//	full case mix of the single-call generators, signing with other keys, BIP340 signing, public-key
//	derivation / parsing / recovery, type-2 key derivation)  ->  after EVERY step: the configuration is
//	what the application set, and btc.EcdsaSign(key, hash) is still the configured signer — in RFC 6979 mode
//	byte for byte the reference signature, in random-nonce mode a fresh nonce per call; every signature
//	verifies under the ECDSA predicate.
//
// VerifyKeyPair itself is judged too (32-byte secret keys): nil iff 0 < d < n and the public key bytes are an
// encoding of d*G (own signatures verify / nothing else does).
//
// Args: flag(00|01) key hash step...   ; a step is one byte of kind followed by length-prefixed fields.

import (
	"bytes"
	"fmt"
	"math/big"
	"os"
	"sync"

	"github.com/piotrnar/gocoin/lib/btc"
	"github.com/piotrnar/gocoin/lib/secp256k1"
	"verif/vlib"
)

func packStep(kind byte, fields ...[]byte) []byte {
	out := []byte{kind}
	for _, f := range fields {
		if len(f) > 255 {
			f = f[:255]
		}
		out = append(out, byte(len(f)))
		out = append(out, f...)
	}
	return out
}

func unpackStep(b []byte) (kind byte, fields [][]byte, ok bool) {
	if len(b) == 0 {
		return 0, nil, false
	}
	kind = b[0]
	b = b[1:]
	for len(b) > 0 {
		n := int(b[0])
		if len(b) < 1+n {
			return kind, nil, false
		}
		fields = append(fields, b[1:1+n])
		b = b[1+n:]
	}
	return kind, fields, true
}

var histMu sync.Mutex
var histClasses = map[string]int{} // generated steps by kind/class (evidence: hist_steps)

var histArity = map[byte]int{'K': 2, 'E': 3, 'S': 3, 'T': 4, 'G': 2, 'B': 3, 'P': 2, 'N': 1, 'R': 4, 'D': 3}

// keyPairStep: VerifyKeyPair on the whole range of pairs an application could offer.
func (ge *gen) keyPairStep() (step []byte, class string) {
	g := ge.g
	d := ge.scalar()
	P := refMul(d, refG())
	priv := be32(d)
	form := g.Intn(3)
	pub := serPub(P, form)
	switch g.Intn(16) {
	case 0, 1, 2, 3:
		class = "match"
	case 4, 5, 6: // the key of another secret
		class = "mismatch"
		pub = serPub(refMul(ge.scalar(), refG()), form)
	case 7: // the negated point (other parity byte / negated y)
		class = "mismatch-negated"
		pub = serPub(refNeg(P), form)
	case 8: // neighbouring secret
		class = "mismatch-neighbour"
		d2 := new(big.Int).Add(d, big1)
		d2.Mod(d2, refN)
		if d2.Sign() == 0 {
			d2.SetInt64(1)
		}
		priv = be32(d2)
	case 9:
		class = "priv-zero"
		priv = make([]byte, 32)
	case 10: // n, n+k, 2^256-1: out of range although n+d names the same point
		class = "priv-ge-n"
		switch g.Intn(3) {
		case 0:
			priv = be32(refN)
		case 1:
			v := new(big.Int).Add(refN, d)
			if v.Cmp(two256) < 0 {
				priv = be32(v)
			} else {
				priv = be32(new(big.Int).Add(refN, big1))
				pub = serPub(refG(), form)
			}
		default:
			priv = bytes.Repeat([]byte{0xff}, 32)
		}
	case 11: // damaged public key bytes
		class = "pub-damaged"
		switch g.Intn(4) {
		case 0:
			pub = flipBit(g, pub)
		case 1:
			pub = pub[:g.Intn(len(pub))]
		case 2:
			pub = append(pub, 0)
		default:
			pub[0] ^= byte(1 + g.Intn(7))
		}
	case 12: // the pair of a point with tiny x presented as x+p (no secret known: any secret is a mismatch)
		class = "pub-x-plus-p"
		q := ge.pickSmallX()
		pub = append([]byte{byte(2 + q.y.Bit(0))}, be32(new(big.Int).Add(q.x, refP))...)
	case 13: // secret key bytes of another length (BIP340 signing refuses them)
		class = "priv-len"
		if g.Bool() {
			priv = append([]byte{0}, priv...)
		} else {
			priv = priv[1:]
		}
	case 14: // hybrid encoding of the right key
		class = "match-hybrid"
		pub = serPub(P, 2)
	default: // small secrets
		class = "match-small"
		d = big.NewInt(int64(1 + g.Intn(8)))
		priv = be32(d)
		pub = serPub(refMul(d, refG()), form)
	}
	return packStep('K', priv, pub), class
}

func (ge *gen) hist(oracle bool) Case {
	g := ge.g
	flag := []byte{byte(g.Intn(2))}
	key := be32(ge.scalar())
	hash := ge.msg32()
	if len(hash) != 32 {
		hash = g.Bytes(32)
	}
	args := [][]byte{flag, key, hash}
	var classes []string
	n := 1 + g.Intn(5)
	for i := 0; i < n; i++ {
		switch g.Intn(14) {
		case 0, 1, 2, 3, 4:
			st, cl := ge.keyPairStep()
			args = append(args, st)
			classes = append(classes, "K:"+cl)
		case 5, 6:
			c := ge.ecdsa(false)
			a := bytesArgs(c)
			args = append(args, packStep('E', a[0], a[1], a[2]))
			classes = append(classes, "E")
		case 7:
			c := ge.schnorr(false)
			a := bytesArgs(c)
			args = append(args, packStep('S', a[0], a[1], a[2]))
			classes = append(classes, "S")
		case 8:
			c := ge.tweak(false)
			a := bytesArgs(c)
			args = append(args, packStep('T', a[0], a[1], a[2], a[3]))
			classes = append(classes, "T")
		case 9: // signing with another key in the configured mode
			args = append(args, packStep('G', be32(ge.scalar()), g.Bytes(32)))
			classes = append(classes, "G")
		case 10:
			sk := be32(ge.scalar())
			if g.Chance(1, 4) {
				sk = sk[:g.Pick(0, 1, 31)]
			}
			args = append(args, packStep('B', g.Bytes(32), sk, g.Bytes(32)))
			classes = append(classes, "B")
		case 11:
			if g.Bool() {
				args = append(args, packStep('P', be32(ge.scalar()), []byte{byte(g.Intn(2))}))
				classes = append(classes, "P")
			} else {
				c := ge.ecdsa(false)
				args = append(args, packStep('N', bytesArgs(c)[0]))
				classes = append(classes, "N")
			}
		case 12:
			args = append(args, packStep('R', be32(ge.scalar()), be32(ge.scalar()), g.Bytes(32), []byte{byte(g.Intn(4))}))
			classes = append(classes, "R")
		default:
			args = append(args, packStep('D', be32(ge.scalar()), g.Bytes(32), serPub(refMul(ge.scalar(), refG()), 0)))
			classes = append(classes, "D")
		}
	}
	// the class (= identity of a report) is the configured mode; the kinds of the steps go into the histogram
	c := mk("hist", "rfc6979="+boolStr(flag[0] == 1), oracle, args...)
	histMu.Lock()
	for _, cl := range classes {
		histClasses[cl]++
	}
	histMu.Unlock()
	return c
}

// cfgPrint: the package-level state the observables of this property read.
func cfgPrint() string {
	return fmt.Sprintf("rfc6979=%v hooks=%v/%v/%v order=%x half=%x", btc.EcdsaSignWithRFC6979,
		btc.EC_Verify != nil, btc.Schnorr_Verify != nil, btc.Check_PayToContract != nil,
		secp256k1.TheCurve.Order.Bytes(), secp256k1.TheCurve.HalfOrder.Bytes())
}

func (x *ctx) runHist(c Case, a [][]byte, o *vlib.Oracle, useOracle bool, key string) {
	r := x.r
	if len(a) < 3 || len(a[0]) != 1 || len(a[1]) != 32 || len(a[2]) != 32 {
		fmt.Fprintln(os.Stderr, "c03: malformed hist case")
		os.Exit(2)
	}
	flag := a[0][0] == 1
	d := new(big.Int).SetBytes(a[1])
	r.Eval("hist/flag="+boolStr(flag), key)

	// the reference signature of the probe in RFC 6979 mode
	var wantR, wantS *big.Int
	if k := new(big.Int).SetBytes(refRFC6979(a[1], a[2], 0)); k.Sign() > 0 && k.Cmp(refN) < 0 {
		wantR, wantS = refEcdsaSignWithNonce(new(big.Int).Mod(d, refN), new(big.Int).SetBytes(a[2]), k)
	}
	pub := refMul(new(big.Int).Mod(d, refN), refG())

	signMu.Lock()
	defer signMu.Unlock()
	btc.EcdsaSignWithRFC6979 = flag
	cfg0 := cfgPrint()

	// probe: is btc.EcdsaSign still the signer the application configured?
	probe := func(after string) bool {
		var r1, s1, r2, s2 *big.Int
		var e1, e2 error
		if p := guard(func() {
			r1, s1, e1 = btc.EcdsaSign(a[1], a[2])
			r2, s2, e2 = btc.EcdsaSign(a[1], a[2])
		}); p != "" {
			x.prop(c, "btc.EcdsaSign panicked "+after+": "+p)
			return false
		}
		if e1 != nil || e2 != nil {
			if wantS != nil && wantS.Sign() != 0 {
				x.prop(c, "btc.EcdsaSign returned an error "+after)
			}
			return false
		}
		ok := true
		if pub != nil {
			pk33 := append([]byte{byte(2 + pub.y.Bit(0))}, be32(pub.x)...)
			if !refEcdsaEq(pub, r1, s1, new(big.Int).SetBytes(a[2])) {
				x.prop(c, "own signature made "+after+" does not satisfy the ECDSA equation for the signer's key "+hx(pk33))
				ok = false
			}
		}
		if flag {
			if wantR != nil && (r1.Cmp(wantR) != 0 || s1.Cmp(wantS) != 0 || r2.Cmp(wantR) != 0 || s2.Cmp(wantS) != 0) {
				x.prop(c, fmt.Sprintf("the application selected RFC 6979 signing, but %s btc.EcdsaSign no longer returns the RFC 6979 reference signature (r=%x / r=%x, reference r=%x; switch now %v)",
					after, r1, r2, wantR, btc.EcdsaSignWithRFC6979))
				ok = false
			}
		} else if r1.Cmp(r2) == 0 {
			x.prop(c, fmt.Sprintf("the application selected random-nonce signing, but %s two calls of btc.EcdsaSign used the same nonce (r=%x; switch now %v)",
				after, r1, btc.EcdsaSignWithRFC6979))
			ok = false
		}
		return ok
	}
	if !probe("before any other call") {
		btc.EcdsaSignWithRFC6979 = flag
		return
	}
	for i, raw := range a[3:] {
		kind, f, ok := unpackStep(raw)
		if !ok || histArity[kind] == 0 || len(f) != histArity[kind] {
			fmt.Fprintln(os.Stderr, "c03: malformed hist step", i)
			os.Exit(2)
		}
		what := ""
		var perr string
		switch kind {
		case 'K':
			var err error
			perr = guard(func() { err = btc.VerifyKeyPair(f[0], f[1]) })
			what = "VerifyKeyPair"
			r.Hit("hist step VerifyKeyPair nil=" + boolStr(err == nil))
			if perr == "" && len(f[0]) == 32 {
				dd := new(big.Int).SetBytes(f[0])
				want := false
				if dd.Sign() > 0 && dd.Cmp(refN) < 0 {
					if q := refParsePubkey(f[1]); q != nil {
						P := refMul(dd, refG())
						want = P != nil && P.x.Cmp(q.x) == 0 && P.y.Cmp(q.y) == 0
					}
				}
				if want != (err == nil) {
					if want {
						x.prop(c, fmt.Sprintf("step %d: VerifyKeyPair reports '%v' for a secret key in [1, n-1] and an encoding of its own public key: an own signature did not verify", i, err))
					} else {
						x.prop(c, fmt.Sprintf("step %d: VerifyKeyPair returns nil although the public key bytes are not an encoding of d*G (or d is outside [1, n-1])", i))
					}
				}
			}
		case 'E':
			var real bool
			perr = guard(func() { real = btc.EcdsaVerify(f[0], f[1], f[2]) })
			what = "EcdsaVerify"
			if perr == "" && real != refEcdsaVerify(f[0], f[1], f[2]) {
				x.prop(c, fmt.Sprintf("step %d: btc.EcdsaVerify=%v differs from the ECDSA predicate", i, real))
			}
		case 'S':
			var real bool
			perr = guard(func() { real = btc.SchnorrVerify(f[0], f[1], f[2]) })
			what = "SchnorrVerify"
			if perr == "" && real != refSchnorrVerify(f[0], f[1], f[2]) {
				x.prop(c, fmt.Sprintf("step %d: btc.SchnorrVerify=%v differs from BIP340", i, real))
			}
		case 'T':
			par := len(f[3]) > 0 && f[3][0] == 1
			var real bool
			perr = guard(func() { real = btc.CheckPayToContract(f[0], f[1], f[2], par) })
			what = "CheckPayToContract"
			if perr == "" && real != refTapTweakCheck(f[0], f[1], f[2], par) {
				x.prop(c, fmt.Sprintf("step %d: btc.CheckPayToContract=%v differs from BIP341", i, real))
			}
		case 'G':
			perr = guard(func() { btc.EcdsaSign(f[0], f[1]) })
			what = "EcdsaSign(other key)"
		case 'B':
			perr = guard(func() { secp256k1.SchnorrSign(f[0], f[1], f[2]) })
			what = "SchnorrSign"
		case 'P':
			perr = guard(func() { btc.PublicFromPrivate(f[0], len(f[1]) > 0 && f[1][0] == 1) })
			what = "PublicFromPrivate"
		case 'N':
			perr = guard(func() { btc.NewPublicKey(f[0]) })
			what = "NewPublicKey"
		case 'R':
			perr = guard(func() {
				var s btc.Signature
				s.R.SetBytes(f[0])
				s.S.SetBytes(f[1])
				rid := 0
				if len(f[3]) > 0 {
					rid = int(f[3][0] & 3)
				}
				s.RecoverPublicKey(f[2], rid)
			})
			what = "Signature.RecoverPublicKey"
		case 'D':
			perr = guard(func() {
				btc.DeriveNextPrivate(f[0], f[1])
				btc.DeriveNextPublic(f[2], f[1])
			})
			what = "DeriveNextPrivate/DeriveNextPublic"
		}
		r.Hit("hist step " + what)
		after := fmt.Sprintf("after step %d (%s)", i, what)
		if perr != "" {
			// a panic of a verifier / signer step is judged by the single-call ops; VerifyKeyPair is only driven here
			r.Hit("hist step panicked: " + what)
			if kind == 'K' {
				x.prop(c, fmt.Sprintf("step %d: VerifyKeyPair panicked: %s", i, perr))
			}
		}
		good := probe(after)
		if cfg := cfgPrint(); cfg != cfg0 {
			if good {
				x.prop(c, "package-level configuration changed behind the caller "+after+": was "+cfg0+" now "+cfg)
			}
			good = false
		}
		if !good {
			break
		}
		r.TieOK()
	}
	btc.EcdsaSignWithRFC6979 = flag
	btc.EC_Verify, btc.Schnorr_Verify, btc.Check_PayToContract = nil, nil, nil
}
