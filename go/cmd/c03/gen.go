package main

// Generators and corpus for the C03 harness. All randomness comes from the one vlib.Rng.

import (
	"bufio"
	"crypto/hmac"
	"crypto/sha256"
	"fmt"
	"math/big"
	"os"
	"strings"

	"github.com/piotrnar/gocoin/lib/secp256k1"
	"verif/vlib"
)

func refHmacImpl(key, data []byte) []byte {
	h := hmac.New(sha256.New, key)
	h.Write(data)
	return h.Sum(nil)
}

type gen struct {
	g      *vlib.Rng
	smallX []*pt // on-curve points with tiny x (so that x+p fits in 32 bytes)
	smallY []*pt // on-curve points with tiny y
	nonRes []int64
	highX  []*pt    // on-curve points with n <= x < p (highx.go)
	twins  [][2]*pt // pairs of on-curve points with x and x+n
	cubeE  *big.Int // exponent computing cube roots mod p (nil when p mod 9 is neither 4 nor 7); wide.go
}

var two256 = new(big.Int).Lsh(big1, 256)

func newGen(g *vlib.Rng) *gen {
	ge := &gen{g: g}
	for x := int64(0); x < 400; x++ {
		if q := refLiftX(big.NewInt(x)); q != nil {
			ge.smallX = append(ge.smallX, q)
		} else {
			ge.nonRes = append(ge.nonRes, x)
		}
	}
	// points with tiny y: x^3 = y^2 - 7; cube root by exponentiation when p mod 9 is 4 or 7
	var e *big.Int
	switch new(big.Int).Mod(refP, big.NewInt(9)).Int64() {
	case 7:
		e = new(big.Int).Div(new(big.Int).Add(refP, big2), big.NewInt(9))
	case 4:
		e = new(big.Int).Div(new(big.Int).Add(new(big.Int).Lsh(refP, 1), big1), big.NewInt(9))
	}
	ge.cubeE = e
	if e != nil {
		for y := int64(1); y < 400 && len(ge.smallY) < 40; y++ {
			c := new(big.Int).Sub(big.NewInt(y*y), big7)
			c.Mod(c, refP)
			x := new(big.Int).Exp(c, e, refP)
			q := &pt{x, big.NewInt(y)}
			if refOnCurve(q) {
				ge.smallY = append(ge.smallY, q)
			}
		}
	}
	ge.highX = highXTable()
	ge.twins = twinTable()
	return ge
}

// with returns a generator sharing the precomputed tables but drawing from its own PRNG.
func (ge *gen) with(g *vlib.Rng) *gen {
	return &gen{g: g, smallX: ge.smallX, smallY: ge.smallY, nonRes: ge.nonRes, highX: ge.highX, twins: ge.twins, cubeE: ge.cubeE}
}

// make draws one case of the given kind.
func (ge *gen) make(kind string, oracle bool) Case {
	switch kind {
	case "ecdsa":
		return ge.ecdsa(oracle)
	case "schnorr":
		return ge.schnorr(oracle)
	case "tweak":
		return ge.tweak(oracle)
	case "sign":
		return ge.sign(oracle)
	case "signrfc":
		return ge.signRfc(oracle)
	case "signrnd":
		return ge.signRnd(oracle)
	case "ssign":
		return ge.ssign(oracle)
	case "pub":
		return ge.pub(oracle)
	case "psig":
		return ge.psig(oracle)
	case "nonce":
		return ge.nonce(oracle)
	case "recov":
		return ge.recov(oracle)
	case "schnorre":
		return ge.schnorrE(oracle)
	case "ecmneg":
		return ge.ecmNeg(oracle)
	case "tweakadd":
		return ge.tweakAdd(oracle)
	case "hist":
		return ge.hist(oracle)
	default:
		return ge.hmac(oracle)
	}
}

func (ge *gen) scalar() *big.Int {
	g := ge.g
	switch g.Intn(10) {
	case 0:
		return big.NewInt(int64(1 + g.Intn(16)))
	case 1:
		return new(big.Int).Sub(refN, big.NewInt(int64(1+g.Intn(16))))
	case 2:
		return new(big.Int).Lsh(big1, uint(g.Intn(256)))
	default:
		for {
			v := new(big.Int).SetBytes(g.Bytes(32))
			if v.Sign() > 0 && v.Cmp(refN) < 0 {
				return v
			}
		}
	}
}

func (ge *gen) msg32() []byte {
	g := ge.g
	switch g.Intn(12) {
	case 0:
		return make([]byte, 32)
	case 1:
		return be32(new(big.Int).Add(refN, big.NewInt(int64(g.Intn(5))))) // hash value >= n
	case 2:
		b := make([]byte, 32)
		for i := range b {
			b[i] = 0xff
		}
		return b
	default:
		return g.Bytes(32)
	}
}

func serPub(q *pt, format int) []byte {
	switch format {
	case 0:
		return append([]byte{byte(2 + q.y.Bit(0))}, be32(q.x)...)
	case 1:
		return append([]byte{4}, append(be32(q.x), be32(q.y)...)...)
	default:
		return append([]byte{byte(6 + q.y.Bit(0))}, append(be32(q.x), be32(q.y)...)...)
	}
}

func derInt(x *big.Int) []byte {
	b := x.Bytes()
	if len(b) == 0 {
		b = []byte{0}
	}
	if b[0] >= 0x80 {
		b = append([]byte{0}, b...)
	}
	return b
}

func derRaw(rb, sb []byte) []byte {
	out := []byte{0x30, byte(4 + len(rb) + len(sb)), 2, byte(len(rb))}
	out = append(out, rb...)
	out = append(out, 2, byte(len(sb)))
	return append(out, sb...)
}

func der(r, s *big.Int) []byte { return derRaw(derInt(r), derInt(s)) }

func (ge *gen) special() *big.Int {
	g := ge.g
	k := big.NewInt(int64(1 + g.Intn(1000)))
	switch g.Intn(9) {
	case 0:
		return big.NewInt(0)
	case 1:
		return new(big.Int).Set(refN)
	case 2:
		return new(big.Int).Add(refN, k)
	case 3:
		return new(big.Int).Set(refP)
	case 4:
		return new(big.Int).Sub(two256, big1)
	case 5:
		return new(big.Int).Sub(refN, big1)
	case 6:
		return big.NewInt(1)
	case 7:
		return new(big.Int).Add(two256, k)
	default:
		return new(big.Int).Add(refP, k)
	}
}

func flipBit(g *vlib.Rng, b []byte) []byte {
	c := append([]byte{}, b...)
	if len(c) == 0 {
		return c
	}
	i := g.Intn(len(c) * 8)
	c[i/8] ^= 1 << uint(i%8)
	return c
}

// forged signature valid for ANY point the arithmetic accepts: R = Q + G, r = x(R) mod n, s = r, m = r
// (u1 = m/s = 1, u2 = r/s = 1). Computed with the reference group (on-curve points).
func forgeRef(q *pt) (sig, msg []byte, ok bool) {
	R := refAdd(q, refG())
	if R == nil {
		return nil, nil, false
	}
	r := new(big.Int).Mod(R.x, refN)
	if r.Sign() == 0 {
		return nil, nil, false
	}
	return der(r, r), be32(r), true
}

// forgeOwn: the same construction with gocoin's OWN arithmetic on an arbitrary (x,y), bypassing the parser.
func forgeOwn(x, y []byte) (sig, msg []byte, ok bool) {
	guard(func() {
		var q secp256k1.XY
		q.X.SetB32(x)
		q.Y.SetB32(y)
		var qj, rj secp256k1.XYZ
		qj.SetXY(&q)
		var one secp256k1.Number
		one.SetInt64(1)
		qj.ECmult(&rj, &one, &one)
		if rj.IsInfinity() {
			return
		}
		var R secp256k1.XY
		R.SetXYZ(&rj)
		R.X.Normalize()
		var xb [32]byte
		R.X.GetB32(xb[:])
		r := new(big.Int).SetBytes(xb[:])
		r.Mod(r, refN)
		if r.Sign() == 0 {
			return
		}
		sig, msg, ok = der(r, r), be32(r), true
	})
	return
}

func (ge *gen) ecdsa(oracle bool) Case {
	g := ge.g
	if g.Intn(7) == 0 { // nonce points with x >= n (highx.go)
		return ge.ecdsaHighX(g.Intn(8), oracle)
	}
	d := ge.scalar()
	Q := refMul(d, refG())
	format := g.Intn(3)
	pk := serPub(Q, format)
	msg := ge.msg32()
	m := new(big.Int).SetBytes(msg)
	k := ge.scalar()
	r, s := refEcdsaSignWithNonce(d, m, k)
	if r.Sign() == 0 || s.Sign() == 0 {
		return mk("ecdsa", "degenerate", oracle, pk, der(r, s), msg)
	}
	sig := der(r, s)
	cls := g.Intn(39)
	switch cls {
	case 0, 1, 2, 3:
		return mk("ecdsa", "valid", oracle, pk, sig, msg)
	case 4:
		return mk("ecdsa", "high-s", oracle, pk, der(r, new(big.Int).Sub(refN, s)), msg)
	case 5:
		return mk("ecdsa", "bitflip-sig", oracle, pk, flipBit(g, sig), msg)
	case 6:
		return mk("ecdsa", "bitflip-pk", oracle, flipBit(g, pk), sig, msg)
	case 7:
		return mk("ecdsa", "bitflip-msg", oracle, pk, sig, flipBit(g, msg))
	case 8:
		return mk("ecdsa", "s-plus-n", oracle, pk, der(r, new(big.Int).Add(s, refN)), msg)
	case 9:
		return mk("ecdsa", "r-plus-n", oracle, pk, der(new(big.Int).Add(r, refN), s), msg)
	case 10:
		return mk("ecdsa", "s-special", oracle, pk, der(r, ge.special()), msg)
	case 11:
		return mk("ecdsa", "r-special", oracle, pk, der(ge.special(), s), msg)
	case 12: // padded integers (33 bytes or more with leading zeros): lax container accepts, value unchanged
		pad := func(b []byte) []byte { return append(make([]byte, 1+g.Intn(3)), b...) }
		return mk("ecdsa", "padded-int", oracle, pk, derRaw(pad(be32(r)), pad(be32(s))), msg)
	case 13:
		return mk("ecdsa", "trailing", oracle, pk, append(append([]byte{}, sig...), g.Bytes(1+g.Intn(3))...), msg)
	case 14: // container damage
		c := append([]byte{}, sig...)
		switch g.Intn(6) {
		case 0:
			c[1]++
		case 1:
			c[3]++
		case 2:
			c = c[:len(c)-1-g.Intn(3)]
		case 3:
			c[0] = 0x31
		case 4:
			c[2] = 0x03
		default:
			c[4+int(c[3])] = 0x03
		}
		return mk("ecdsa", "der-damage", oracle, pk, c, msg)
	case 15: // long-form length / zero-length integers
		switch g.Intn(3) {
		case 0:
			c := append([]byte{0x30, 0x81, sig[1]}, sig[2:]...)
			return mk("ecdsa", "der-longform", oracle, pk, c, msg)
		case 1:
			return mk("ecdsa", "der-zero-len", oracle, pk, derRaw(nil, derInt(s)), msg)
		default:
			return mk("ecdsa", "der-zero-len", oracle, pk, derRaw(derInt(r), nil), msg)
		}
	case 16, 17: // key encodes x+p: forged triple for an on-curve point with tiny x
		q := ge.pickSmallX()
		if g.Bool() {
			q = refNeg(q)
		}
		fs, fm, ok := forgeRef(q)
		if !ok {
			return mk("ecdsa", "valid", oracle, pk, sig, msg)
		}
		xp := be32(new(big.Int).Add(q.x, refP))
		switch g.Intn(4) {
		case 0:
			return mk("ecdsa", "pk-x-plus-p", oracle, append([]byte{byte(2 + q.y.Bit(0))}, xp...), fs, fm)
		case 1:
			return mk("ecdsa", "pk-x-plus-p", oracle, append([]byte{4}, append(xp, be32(q.y)...)...), fs, fm)
		case 2:
			return mk("ecdsa", "pk-x-plus-p", oracle, append([]byte{byte(6 + q.y.Bit(0))}, append(xp, be32(q.y)...)...), fs, fm)
		default: // the canonical encoding of the same point: must verify
			return mk("ecdsa", "forged-small-x", oracle, serPub(q, g.Intn(3)), fs, fm)
		}
	case 18: // key encodes y+p
		if len(ge.smallY) == 0 {
			return mk("ecdsa", "valid", oracle, pk, sig, msg)
		}
		q := ge.pickSmallY()
		fs, fm, ok := forgeRef(q)
		if !ok {
			return mk("ecdsa", "valid", oracle, pk, sig, msg)
		}
		yp := be32(new(big.Int).Add(q.y, refP))
		switch g.Intn(3) {
		case 0:
			return mk("ecdsa", "pk-y-plus-p", oracle, append([]byte{4}, append(be32(q.x), yp...)...), fs, fm)
		case 1: // hybrid whose RAW y+p has the opposite parity of y
			return mk("ecdsa", "pk-y-plus-p", oracle, append([]byte{byte(7 - q.y.Bit(0))}, append(be32(q.x), yp...)...), fs, fm)
		default:
			return mk("ecdsa", "forged-small-y", oracle, serPub(q, g.Intn(3)), fs, fm)
		}
	case 19, 20: // off-curve (x,y), triple built with gocoin's own arithmetic
		xb, yb := g.Bytes(32), g.Bytes(32)
		if g.Chance(1, 3) {
			xb, yb = be32(big.NewInt(int64(g.Intn(50)))), be32(big.NewInt(int64(g.Intn(50))))
		}
		fs, fm, ok := forgeOwn(xb, yb)
		if !ok {
			fs, fm = sig, msg
		}
		return mk("ecdsa", "pk-offcurve", oracle, append([]byte{byte(g.Pick(4, 4, 6, 7))}, append(xb, yb...)...), fs, fm)
	case 21, 22: // compressed key whose x has no square root; triple built with gocoin's own arithmetic
		var xv *big.Int
		if g.Bool() {
			xv = big.NewInt(ge.nonRes[g.Intn(len(ge.nonRes))])
		} else {
			for {
				xv = new(big.Int).SetBytes(g.Bytes(32))
				if xv.Cmp(refP) < 0 && refLiftX(xv) == nil {
					break
				}
			}
		}
		odd := g.Bool()
		var yb [32]byte
		secp256k1.DecompressPoint(be32(xv), odd, yb[:]) // what SetXO computes
		fs, fm, ok := forgeOwn(be32(xv), yb[:])
		if !ok {
			fs, fm = sig, msg
		}
		h := byte(2)
		if odd {
			h = 3
		}
		return mk("ecdsa", "pk-nonresidue", oracle, append([]byte{h}, be32(xv)...), fs, fm)
	case 23: // hybrid with wrong parity byte
		p2 := serPub(Q, 2)
		p2[0] ^= 1
		return mk("ecdsa", "pk-hybrid-wrong-parity", oracle, p2, sig, msg)
	case 24: // compressed with the other parity: a different (valid) key, signature must fail
		p2 := serPub(Q, 0)
		p2[0] ^= 1
		return mk("ecdsa", "pk-other-parity", oracle, p2, sig, msg)
	case 25: // bad prefix / length
		p2 := append([]byte{}, pk...)
		switch g.Intn(4) {
		case 0:
			p2[0] = byte(g.Pick(0, 1, 5, 8, 0x82, 0xff))
		case 1:
			p2 = p2[:len(p2)-1]
		case 2:
			p2 = append(p2, 0)
		default:
			p2 = nil
		}
		return mk("ecdsa", "pk-format", oracle, p2, sig, msg)
	case 26: // result at infinity: m = -r*d  (u1 + u2 d = 0), r = x of an operand of the sum (inf.go)
		return ge.ecdsaInfinity(oracle, d, Q, pk, r, s)
	case 27: // message of another length (SetBytes takes any length)
		l := g.Pick(0, 1, 20, 31, 33, 40, 64)
		mb := g.Bytes(l)
		r2, s2 := refEcdsaSignWithNonce(d, new(big.Int).SetBytes(mb), k)
		if r2.Sign() == 0 || s2.Sign() == 0 {
			return mk("ecdsa", "valid", oracle, pk, sig, msg)
		}
		return mk("ecdsa", "msg-len", oracle, pk, der(r2, s2), mb)
	case 28:
		return mk("ecdsa", "empty-sig", oracle, pk, nil, msg)
	case 29: // r and s swapped / equal
		return mk("ecdsa", "swapped", oracle, pk, der(s, r), msg)
	case 30: // wrong key
		return mk("ecdsa", "wrong-key", oracle, serPub(refMul(ge.scalar(), refG()), format), sig, msg)
	case 31: // s+n together with a padded encoding
		sb := append(make([]byte, g.Intn(2)), new(big.Int).Add(s, refN).Bytes()...)
		return mk("ecdsa", "s-plus-n", oracle, pk, derRaw(derInt(r), sb), msg)
	case 32: // integers with the top bit set and no padding (lax: unsigned)
		return mk("ecdsa", "unsigned-int", oracle, pk, derRaw(be32(r), be32(s)), msg)
	case 34, 35, 36:
		// algebraic triple with a SMALL s (s + n still fits in 256 bits): choose s, solve the message
		// m = s*k - r*d (mod n). (r, s) is valid; (r, s+n) has s in [n, 2^256) and must be refused even by
		// a range guard that only looks at the bit length.
		lim := new(big.Int).Sub(new(big.Int).Lsh(big.NewInt(1), 256), refN) // 2^256 - n
		var ss *big.Int
		switch g.Intn(4) {
		case 0:
			ss = big.NewInt(1 + int64(g.Intn(1000)))
		case 1:
			ss = new(big.Int).Sub(lim, big.NewInt(1+int64(g.Intn(3)))) // s+n = 2^256-1, -2, -3
		default:
			ss = new(big.Int).Mod(new(big.Int).SetBytes(g.Bytes(16)), lim)
			if ss.Sign() == 0 {
				ss.SetInt64(1)
			}
		}
		mm := new(big.Int).Mul(ss, k)
		mm.Sub(mm, new(big.Int).Mul(r, d))
		mm.Mod(mm, refN)
		sn := new(big.Int).Add(ss, refN)
		switch cls {
		case 34:
			return mk("ecdsa", "small-s-valid", oracle, pk, der(r, ss), be32(mm))
		case 35: // canonical DER of s+n (33 bytes with the 00 pad)
			return mk("ecdsa", "small-s-plus-n", oracle, pk, der(r, sn), be32(mm))
		default: // 32 unsigned bytes, no pad
			return mk("ecdsa", "small-s-plus-n", oracle, pk, derRaw(derInt(r), be32(sn)), be32(mm))
		}
	case 37, 38:
		// algebraic triple with a SMALL r: take R = a point with tiny x (discrete log unknown), choose a, b and
		// the key Q = b^-1 (R - aG); then u1 = a, u2 = b, i.e. r = x(R), s = r/b, m = a*s verify for Q.
		// (r, s) is valid; (r+n, s) has r in [n, 2^256) and must be refused.
		R0 := ge.pickSmallX()
		if g.Bool() {
			R0 = refNeg(R0)
		}
		a, b := ge.scalar(), ge.scalar()
		T := refAdd(R0, refNeg(refMul(a, refG())))
		if T == nil || R0.x.Sign() == 0 {
			return mk("ecdsa", "valid", oracle, pk, sig, msg)
		}
		binv := new(big.Int).ModInverse(b, refN)
		Q2 := refMul(binv, T)
		rs := new(big.Int).Set(R0.x)
		s2 := new(big.Int).Mul(rs, binv)
		s2.Mod(s2, refN)
		m2 := new(big.Int).Mul(a, s2)
		m2.Mod(m2, refN)
		if Q2 == nil || s2.Sign() == 0 {
			return mk("ecdsa", "valid", oracle, pk, sig, msg)
		}
		pk2 := serPub(Q2, g.Intn(3))
		if cls == 37 {
			return mk("ecdsa", "small-r-valid", oracle, pk2, der(rs, s2), be32(m2))
		}
		return mk("ecdsa", "small-r-plus-n", oracle, pk2, der(new(big.Int).Add(rs, refN), s2), be32(m2))
	default: // random bytes everywhere
		return mk("ecdsa", "random", oracle, g.Bytes(g.Pick(33, 65)), g.Bytes(8+g.Intn(70)), msg)
	}
}

func (ge *gen) pub(oracle bool) Case {
	c := ge.ecdsa(oracle)
	return Case{Op: "pub", Args: c.Args[:1], Class: c.Class, Oracle: oracle}
}

func (ge *gen) psig(oracle bool) Case {
	g := ge.g
	switch g.Intn(4) {
	case 0: // structured: random lengths and contents around the container
		lr, ls := g.Intn(40), g.Intn(40)
		c := derRaw(g.Bytes(lr), g.Bytes(ls))
		if g.Bool() {
			c = flipBit(g, c)
		}
		if g.Chance(1, 4) {
			c = c[:g.Intn(len(c)+1)]
		}
		if g.Chance(1, 4) {
			c = append(c, g.Bytes(g.Intn(4))...)
		}
		return mk("psig", "structured", oracle, c)
	case 1:
		b := g.Bytes(g.Intn(12))
		if len(b) > 0 && g.Bool() {
			b[0] = 0x30
		}
		return mk("psig", "short-random", oracle, b)
	default:
		c := ge.ecdsa(oracle)
		return Case{Op: "psig", Args: c.Args[1:2], Class: c.Class, Oracle: oracle}
	}
}

func (ge *gen) schnorr(oracle bool) Case {
	g := ge.g
	sk := be32(ge.scalar())
	msg := ge.msg32()
	if g.Chance(1, 10) {
		msg = g.Bytes(g.Pick(0, 1, 31, 33, 64)) // BIP340 allows any message length
	}
	aux := g.Bytes(32)
	sig := refSchnorrSign(msg, sk, aux)
	P := refMul(new(big.Int).SetBytes(sk), refG())
	pk := be32(P.x)
	if sig == nil {
		return mk("schnorr", "sign-failed", oracle, pk, make([]byte, 64), msg)
	}
	rv := new(big.Int).SetBytes(sig[:32])
	sv := new(big.Int).SetBytes(sig[32:])
	switch g.Intn(24) {
	case 0, 1, 2, 3:
		return mk("schnorr", "valid", oracle, pk, sig, msg)
	case 4:
		return mk("schnorr", "bitflip-sig", oracle, pk, flipBit(g, sig), msg)
	case 5:
		return mk("schnorr", "bitflip-pk", oracle, flipBit(g, pk), sig, msg)
	case 6:
		return mk("schnorr", "bitflip-msg", oracle, pk, sig, flipBit(g, msg))
	case 7: // s + n carried in 33 bytes (65-byte signature)
		return mk("schnorr", "s-plus-n", oracle, pk, append(append([]byte{}, sig[:32]...), new(big.Int).Add(sv, refN).Bytes()...), msg)
	case 8:
		return mk("schnorr", "s-special", oracle, pk, append(append([]byte{}, sig[:32]...), be32(ge.special())...), msg)
	case 9:
		return mk("schnorr", "r-special", oracle, pk, append(be32(ge.special()), sig[32:]...), msg)
	case 10: // negated s
		return mk("schnorr", "s-negated", oracle, pk, append(append([]byte{}, sig[:32]...), be32(new(big.Int).Sub(refN, sv))...), msg)
	case 11: // wrong lengths
		switch g.Intn(6) {
		case 0:
			return mk("schnorr", "sig-len", oracle, pk, sig[:63], msg)
		case 1:
			return mk("schnorr", "sig-len", oracle, pk, append(append([]byte{}, sig...), 0), msg)
		case 2:
			return mk("schnorr", "sig-len", oracle, pk, append(append(append([]byte{}, sig[:32]...), 0), sig[32:]...), msg)
		case 3:
			return mk("schnorr", "sig-len", oracle, pk, sig[:g.Intn(33)], msg)
		case 4:
			return mk("schnorr", "pk-len", oracle, pk[:31], sig, msg)
		default:
			return mk("schnorr", "pk-len", oracle, append(append([]byte{}, pk...), byte(g.Intn(2))), sig, msg)
		}
	case 12, 13: // the all-zero family: key x = 0 is not liftable; (0, sqrt-garbage) has order 3 on y^2 = x^3 - 7
		z := make([]byte, 32)
		s := make([]byte, 32)
		if g.Chance(1, 3) {
			s = be32(big.NewInt(int64(g.Intn(3))))
		}
		return mk("schnorr", "pk-zero", oracle, z, append(append([]byte{}, z...), s...), g.Bytes(32))
	case 14: // other non-liftable keys
		xv := big.NewInt(ge.nonRes[g.Intn(len(ge.nonRes))])
		return mk("schnorr", "pk-nonliftable", oracle, be32(xv), sig, msg)
	case 15: // key >= p
		xv := new(big.Int).Add(refP, big.NewInt(int64(g.Intn(1000))))
		return mk("schnorr", "pk-ge-p", oracle, be32(xv), sig, msg)
	case 16: // key x+p of a point with tiny x (cannot be signed for, must be refused at parsing)
		q := ge.pickSmallX()
		return mk("schnorr", "pk-x-plus-p", oracle, be32(new(big.Int).Add(q.x, refP)), sig, msg)
	case 17: // signature for the key with odd y presented with R negated (odd-Y nonce point)
		k2 := new(big.Int).SetBytes(g.Bytes(32))
		k2.Mod(k2, refN)
		if k2.Sign() == 0 {
			k2.SetInt64(1)
		}
		R := refMul(k2, refG())
		if R.y.Bit(0) == 0 {
			k2.Sub(refN, k2) // force ODD y: the resulting signature satisfies the equation but must be refused
		}
		dd := new(big.Int).SetBytes(sk)
		if P.y.Bit(0) == 1 {
			dd.Sub(refN, dd)
		}
		e := new(big.Int).SetBytes(taggedHash("BIP0340/challenge", be32(R.x), pk, msg))
		e.Mod(e, refN)
		s2 := new(big.Int).Mul(e, dd)
		s2.Add(s2, k2)
		s2.Mod(s2, refN)
		return mk("schnorr", "odd-y-nonce", oracle, pk, append(be32(R.x), be32(s2)...), msg)
	case 18: // r + p impossible in 32 bytes unless r tiny: r = p + small
		return mk("schnorr", "r-ge-p", oracle, pk, append(be32(new(big.Int).Add(refP, big.NewInt(int64(g.Intn(1000))))), sig[32:]...), msg)
	case 19: // wrong key
		return mk("schnorr", "wrong-key", oracle, be32(refMul(ge.scalar(), refG()).x), sig, msg)
	case 20: // s = 0 with e*P: R = -e*P, r = its x (valid equation only by luck) — exercises ng = 0
		return mk("schnorr", "s-zero", oracle, pk, append(append([]byte{}, sig[:32]...), make([]byte, 32)...), msg)
	case 21:
		_ = rv
		return mk("schnorr", "swapped", oracle, pk, append(append([]byte{}, sig[32:]...), sig[:32]...), msg)
	case 22: // s·G - e·P = infinity with r = x of an operand (inf.go)
		return ge.schnorrInfinity(oracle, sk, msg)
	default:
		return mk("schnorr", "random", oracle, g.Bytes(32), g.Bytes(64), msg)
	}
}

func (ge *gen) tweak(oracle bool) Case {
	g := ge.g
	d := ge.scalar()
	P0 := refMul(d, refG())
	base := be32(P0.x)
	P := refLiftX(P0.x)
	t := ge.scalar()
	if g.Chance(1, 8) {
		t = big.NewInt(int64(g.Intn(3)))
	}
	Q := refAdd(P, refMul(t, refG()))
	par := []byte{0}
	var qx []byte
	if Q == nil {
		qx = make([]byte, 32)
	} else {
		qx = be32(Q.x)
		par[0] = byte(Q.y.Bit(0))
	}
	hash := be32(t)
	switch g.Intn(20) {
	case 0, 1, 2, 3:
		return mk("tweak", "valid", oracle, qx, base, hash, par)
	case 4:
		return mk("tweak", "parity-flip", oracle, qx, base, hash, []byte{par[0] ^ 1})
	case 5:
		return mk("tweak", "bitflip-qx", oracle, flipBit(g, qx), base, hash, par)
	case 6:
		return mk("tweak", "bitflip-base", oracle, qx, flipBit(g, base), hash, par)
	case 7:
		return mk("tweak", "bitflip-hash", oracle, qx, base, flipBit(g, hash), par)
	case 8, 9: // t + n (only fits for tiny t)
		t2 := big.NewInt(int64(g.Intn(1000)))
		Q2 := refAdd(P, refMul(t2, refG()))
		if Q2 == nil {
			return mk("tweak", "infinity", oracle, make([]byte, 32), base, be32(t2), par)
		}
		return mk("tweak", "t-plus-n", oracle, be32(Q2.x), base, be32(new(big.Int).Add(t2, refN)), []byte{byte(Q2.y.Bit(0))})
	case 10:
		return mk("tweak", "t-special", oracle, qx, base, be32(ge.special()), par)
	case 11: // non-liftable base with tweak 0: the code's garbage point is returned unchanged
		xv := big.NewInt(ge.nonRes[g.Intn(len(ge.nonRes))])
		var yb [32]byte
		secp256k1.DecompressPoint(be32(xv), false, yb[:])
		return mk("tweak", "base-nonliftable", oracle, be32(xv), be32(xv), make([]byte, 32), []byte{yb[31] & 1})
	case 12: // non-liftable base, any tweak, output = what the code's own arithmetic produces
		xv := big.NewInt(ge.nonRes[g.Intn(len(ge.nonRes))])
		var yb [32]byte
		secp256k1.DecompressPoint(be32(xv), false, yb[:])
		ox, op, ok := ownTweak(be32(xv), yb[:], t)
		if !ok {
			return mk("tweak", "valid", oracle, qx, base, hash, par)
		}
		return mk("tweak", "base-nonliftable", oracle, ox, be32(xv), hash, []byte{op})
	case 13: // base x+p
		q := ge.pickSmallX()
		q = refLiftX(q.x)
		Q2 := refAdd(q, refMul(t, refG()))
		if Q2 == nil {
			return mk("tweak", "valid", oracle, qx, base, hash, par)
		}
		return mk("tweak", "base-x-plus-p", oracle, be32(Q2.x), be32(new(big.Int).Add(q.x, refP)), hash, []byte{byte(Q2.y.Bit(0))})
	case 14: // lengths
		switch g.Intn(5) {
		case 0:
			return mk("tweak", "base-len", oracle, qx, base[:31], hash, par)
		case 1:
			return mk("tweak", "base-len", oracle, qx, append(append([]byte{}, base...), 0), hash, par)
		case 2:
			return mk("tweak", "qx-len", oracle, qx[:31], base, hash, par)
		case 3:
			return mk("tweak", "qx-len", oracle, append(append([]byte{}, qx...), 0), base, hash, par)
		default:
			return mk("tweak", "hash-len", oracle, qx, base, hash[:31], par)
		}
	case 15, 16: // P + tG = infinity: t = n - d' where lift_x(P) = d'G; the claim ranges over every
		// coordinate an implementation could have left behind (inf.go)
		return ge.tweakInfinity(oracle, d)
	case 17: // doubling: t = d' (P + P)
		dd := new(big.Int).Set(d)
		if P0.y.Bit(0) == 1 {
			dd.Sub(refN, d)
		}
		Q2 := refAdd(P, P)
		return mk("tweak", "doubling", oracle, be32(Q2.x), base, be32(dd), []byte{byte(Q2.y.Bit(0))})
	case 18:
		return mk("tweak", "wrong-base", oracle, qx, be32(refMul(ge.scalar(), refG()).x), hash, par)
	default:
		return mk("tweak", "random", oracle, g.Bytes(32), g.Bytes(32), g.Bytes(32), []byte{byte(g.Intn(2))})
	}
}

// ownTweak: P + t*G computed by gocoin's own arithmetic on an arbitrary (x,y).
func ownTweak(x, y []byte, t *big.Int) (ox []byte, par byte, ok bool) {
	guard(func() {
		var q secp256k1.XY
		q.X.SetB32(x)
		q.Y.SetB32(y)
		var tw secp256k1.Number
		tw.Set(t)
		if !q.ECPublicTweakAdd(&tw) {
			return
		}
		q.X.Normalize()
		q.Y.Normalize()
		var xb, yb [32]byte
		q.X.GetB32(xb[:])
		q.Y.GetB32(yb[:])
		ox, par, ok = xb[:], yb[31]&1, true
	})
	return
}

func (ge *gen) sign(oracle bool) Case {
	g := ge.g
	sec := be32(ge.scalar())
	if g.Chance(1, 10) {
		sec = g.Bytes(g.Pick(16, 31, 33)) // SetBytes takes any length; reduced mod n by the arithmetic
		if new(big.Int).Mod(new(big.Int).SetBytes(sec), refN).Sign() == 0 {
			sec = []byte{1}
		}
	}
	switch g.Intn(9) {
	case 8:
		// S = 0: message value m = -r*d (mod n) makes k^-1 (m + r d) vanish. Signature.Sign must return 0
		// (no signature), the model `none`. Sibling m+1 gives S = k^-1: an ordinary signature.
		// (Unreachable through btc.EcdsaSign: there the nonce is a hash of the message, so m cannot be
		// solved for after the nonce is known.)
		d := new(big.Int).Mod(new(big.Int).SetBytes(sec), refN)
		k := ge.scalar()
		R := refMul(k, refG())
		rr := new(big.Int).Mod(R.x, refN)
		m := new(big.Int).Mul(rr, d)
		m.Neg(m)
		m.Mod(m, refN)
		if g.Chance(1, 4) {
			m.Add(m, big1)
			m.Mod(m, refN)
			return mk("sign", "s-zero-neighbour", oracle, sec, be32(m), be32(k))
		}
		if mn := new(big.Int).Add(m, refN); mn.BitLen() <= 256 && g.Chance(1, 4) {
			m = mn // the same value unreduced
		}
		return mk("sign", "s-zero", oracle, sec, be32(m), be32(k))
	case 0, 1:
		// S with leading zero bytes whose first significant byte is >= 0x80 (DER needs the 00 pad although
		// the integer is shorter than 32 bytes): choose the target s, solve m = s*k - r*d (mod n).
		d := new(big.Int).Mod(new(big.Int).SetBytes(sec), refN)
		k := ge.scalar()
		R := refMul(k, refG())
		rr := new(big.Int).Mod(R.x, refN)
		sb := g.Bytes(31 - g.Intn(3))
		sb[0] |= 0x80
		ss := new(big.Int).SetBytes(sb)
		m := new(big.Int).Mul(ss, k)
		m.Sub(m, new(big.Int).Mul(rr, d))
		m.Mod(m, refN)
		return mk("sign", "short-s", oracle, sec, be32(m), be32(k))
	case 2:
		// R with a leading zero byte and the next byte >= 0x80: walk k, k+1, … until x(kG) has that shape
		k := ge.scalar()
		R := refMul(k, refG())
		G := refG()
		for i := 0; i < 6000 && R != nil; i++ {
			xb := be32(R.x)
			if xb[0] == 0 && xb[1] >= 0x80 && k.Cmp(refN) < 0 {
				return mk("sign", "short-r", oracle, sec, ge.msg32(), be32(k))
			}
			k = new(big.Int).Add(k, big1)
			R = refAdd(R, G)
		}
	}
	return mk("sign", "nonce", oracle, sec, ge.msg32(), be32(ge.scalar()))
}

func (ge *gen) signRfc(oracle bool) Case {
	return mk("signrfc", "rfc6979", oracle, be32(ge.scalar()), ge.msg32())
}

func (ge *gen) signRnd(oracle bool) Case {
	return mk("signrnd", "random-nonce", oracle, be32(ge.scalar()), ge.msg32())
}

func (ge *gen) ssign(oracle bool) Case {
	g := ge.g
	msg := ge.msg32()
	if g.Chance(1, 6) {
		msg = g.Bytes(g.Pick(0, 1, 17, 33, 100))
	}
	aux := g.Bytes(32)
	if g.Chance(1, 6) {
		aux = g.Bytes(g.Pick(0, 16, 33))
	}
	sk := be32(ge.scalar())
	if g.Chance(1, 12) {
		sk = be32(ge.special()) // 0, n, n+k, p, … : must return nil
	}
	if g.Chance(1, 8) {
		// a secret key that is not a 32-byte array (BIP340 takes 32 bytes): nil expected for every length.
		// The pinned snapshot panicked on short keys with an even-Y public point and signed with a nonce
		// derived from sk[:32] on longer ones.
		v := ge.scalar()
		switch g.Intn(7) {
		case 0:
			sk = nil
		case 1:
			sk = []byte{byte(1 + g.Intn(255))} // one byte: small multiples of G, both Y parities
		case 2:
			sk = big.NewInt(int64(1 + g.Intn(1<<30))).Bytes()
		case 3:
			sk = g.Bytes(31)
			if new(big.Int).SetBytes(sk).Sign() == 0 {
				sk[30] = 1
			}
		case 4:
			sk = append([]byte{0}, be32(v)...) // 33 bytes, value in range
		case 5:
			sk = append(be32(v), 0) // 33 bytes, value >= n mostly
		default:
			sk = append(make([]byte, 1+g.Intn(8)), be32(v)...)
		}
		return mk("ssign", "sk-len", oracle, msg, sk, aux)
	}
	return mk("ssign", "bip340", oracle, msg, sk, aux)
}

func (ge *gen) nonce(oracle bool) Case {
	g := ge.g
	prv, msg := g.Bytes(32), g.Bytes(32)
	cls := "rfc6979"
	if g.Chance(1, 3) {
		msg = ge.msg32() // 0, n+k, ff..ff: hash values >= n pin the unreduced-hash variant of RFC 6979
		cls = "rfc6979-special-hash"
	}
	if g.Chance(1, 6) {
		prv = g.Bytes(g.Pick(0, 16, 31, 33, 40))
		cls = "odd-length"
	}
	if g.Chance(1, 6) {
		msg = g.Bytes(g.Pick(0, 20, 31, 33, 64))
		cls = "odd-length"
	}
	return mk("nonce", cls, oracle, prv, msg, []byte{byte(g.Intn(4))})
}

func (ge *gen) hmac(oracle bool) Case {
	g := ge.g
	kl := g.Pick(0, 1, 20, 32, 32, 63, 64, 65, 100, 131)
	return mk("hmac", "keylen", oracle, g.Bytes(kl), g.Bytes(g.Intn(150)))
}

// corpusArity: number of arguments of every op a corpus line may carry (legacy: of the wrapped op).
var corpusArity = map[string]int{"ecdsa": 3, "pub": 1, "psig": 1, "schnorr": 3, "tweak": 4, "sign": 3, "signrfc": 2,
	"signrnd": 2, "ssign": 3, "nonce": 3, "hmac": 2, "recov": 4, "noncevec": 4, "schnorre": 3, "ecmneg": 3,
	"tweakadd": 2, "legacy": -1}

// corpusMinCases: the corpus only grows; fewer lines than this means a damaged file.
const corpusMinCases = 130

// corpusCases reads corpus/C03/cases.txt: one case per line, "<op> <class> <arg>..." (hex, "-" = empty).
func corpusCases() []Case {
	var out []Case
	f, err := os.Open(vlib.Root() + "/corpus/C03/cases.txt")
	if err != nil {
		fmt.Fprintln(os.Stderr, "c03: the corpus cannot be read:", err)
		os.Exit(2)
	}
	defer f.Close()
	sc := bufio.NewScanner(f)
	sc.Buffer(make([]byte, 1<<20), 1<<20)
	for sc.Scan() {
		l := strings.TrimSpace(sc.Text())
		if l == "" || strings.HasPrefix(l, "#") {
			continue
		}
		fs := strings.Fields(l)
		if len(fs) < 3 || corpusArity[fs[0]] == 0 || (fs[0] != "legacy" && len(fs)-2 != corpusArity[fs[0]]) ||
			(fs[0] == "legacy" && (len(fs) < 4 || corpusArity[fs[2]] == 0 || len(fs)-3 != corpusArity[fs[2]])) {
			fmt.Fprintln(os.Stderr, "c03: malformed corpus line (unknown op or wrong number of arguments):", l)
			os.Exit(2)
		}
		out = append(out, Case{Op: fs[0], Class: fs[1], Args: fs[2:], Oracle: true})
	}
	if err := sc.Err(); err != nil {
		fmt.Fprintln(os.Stderr, "c03: reading the corpus:", err)
		os.Exit(2)
	}
	if len(out) < corpusMinCases {
		fmt.Fprintf(os.Stderr, "c03: corpus/C03/cases.txt has %d cases, at least %d expected (truncated file?)\n", len(out), corpusMinCases)
		os.Exit(2)
	}
	return out
}
