package main

// Sweeps: long runs of VALID inputs built incrementally with the math/big reference (one affine
// addition per case: Q_{i+1} = Q_i + G), each offered to the real code together with its minimal
// invalid sibling (parity bit flipped / un-negated nonce). They exist for defects that show only once
// in 10^4..10^5 inputs (e.g. reading IsOdd() from a field element that was not normalised), which the
// structured generator's few thousand cases cannot be expected to hit. Real code vs property predicate
// only; a disagreement is reported as an ordinary replayable case of the matching op.

import (
	"fmt"
	"math/big"

	"github.com/piotrnar/gocoin/lib/btc"
	"verif/vlib"
)

func (x *ctx) sweep(kind string, n int, g *vlib.Rng, ge *gen) {
	switch kind {
	case "sweep-tweak":
		x.sweepTweak(n, ge)
	case "sweep-ecdsa":
		x.sweepEcdsa(n, g, ge)
	case "sweep-schnorr":
		x.sweepSchnorr(n, g, ge)
	}
}

// internal key P fixed, tweak t0+i: Q_i = P + (t0+i)G. The commitment with the true parity must be
// accepted, the one with the other parity refused.
func (x *ctx) sweepTweak(n int, ge *gen) {
	r := x.r
	d := ge.scalar()
	P := refLiftX(refMul(d, refG()).x)
	base := be32(P.x)
	t := ge.scalar()
	Q := refAdd(P, refMul(t, refG()))
	one := big.NewInt(1)
	G := refG()
	for i := 0; i < n; i++ {
		if Q != nil && t.Cmp(refN) < 0 {
			qx, hash := be32(Q.x), be32(t)
			par := Q.y.Bit(0) == 1
			var ok, bad bool
			p := guard(func() {
				ok = btc.CheckPayToContract(qx, base, hash, par)
				bad = btc.CheckPayToContract(qx, base, hash, !par)
			})
			r.Eval("tweak/sweep", "")
			countShare("tweak", false)
			if p != "" || !ok || bad {
				pb := []byte{0}
				if par {
					pb[0] = 1
				}
				c := mk("tweak", "sweep", true, qx, base, hash, pb)
				if p != "" {
					x.prop(c, "btc.CheckPayToContract panicked: "+p)
				} else if !ok {
					x.prop(c, "btc.CheckPayToContract=false but the BIP341 tweak check is true (valid commitment, true parity)")
				} else {
					c = mk("tweak", "sweep", true, qx, base, hash, []byte{pb[0] ^ 1})
					x.prop(c, "btc.CheckPayToContract=true but the BIP341 tweak check is false (wrong parity bit)")
				}
				if r.Violations() > 8 {
					return
				}
			}
		}
		t = new(big.Int).Add(t, one)
		Q = refAdd(Q, G)
	}
}

// key d0+i, nonce k0+i: Q_i and R_i advance by one addition each; the signature is offered with the
// compressed and the uncompressed key (both must verify), and with the compressed key of the other
// parity (must fail).
func (x *ctx) sweepEcdsa(n int, g *vlib.Rng, ge *gen) {
	r := x.r
	d, k := ge.scalar(), ge.scalar()
	G := refG()
	Q, R := refMul(d, G), refMul(k, G)
	one := big.NewInt(1)
	for i := 0; i < n; i++ {
		if Q != nil && R != nil && d.Cmp(refN) < 0 && k.Cmp(refN) < 0 {
			msg := g.Bytes(32)
			m := new(big.Int).SetBytes(msg)
			rr := new(big.Int).Mod(R.x, refN)
			s := new(big.Int).Mul(rr, d)
			s.Add(s, m)
			s.Mul(s, new(big.Int).ModInverse(k, refN))
			s.Mod(s, refN)
			if rr.Sign() != 0 && s.Sign() != 0 {
				sig := der(rr, s)
				pkc, pku := serPub(Q, 0), serPub(Q, 1)
				other := append([]byte{}, pkc...)
				other[0] ^= 1
				var okc, oku, bad bool
				p := guard(func() {
					okc = btc.EcdsaVerify(pkc, sig, msg)
					oku = btc.EcdsaVerify(pku, sig, msg)
					bad = btc.EcdsaVerify(other, sig, msg)
				})
				r.Eval("ecdsa/sweep", "")
				countShare("ecdsa", false)
				if p != "" || !okc || !oku || bad {
					switch {
					case p != "":
						x.prop(mk("ecdsa", "sweep", true, pkc, sig, msg), "btc.EcdsaVerify panicked: "+p)
					case !okc:
						x.prop(mk("ecdsa", "sweep", true, pkc, sig, msg), "btc.EcdsaVerify=false for a valid triple (compressed key)")
					case !oku:
						x.prop(mk("ecdsa", "sweep", true, pku, sig, msg), "btc.EcdsaVerify=false for a valid triple (uncompressed key)")
					default:
						x.prop(mk("ecdsa", "sweep", true, other, sig, msg), "btc.EcdsaVerify=true for the key with the other y parity")
					}
					if r.Violations() > 8 {
						return
					}
				}
			}
		}
		d = new(big.Int).Add(d, one)
		k = new(big.Int).Add(k, one)
		Q = refAdd(Q, G)
		R = refAdd(R, G)
	}
}

// BIP340: key fixed, nonce k0+i. The signature made with the properly negated nonce must verify; the
// one made with the nonce of the odd-y point (R has odd y) must be refused.
func (x *ctx) sweepSchnorr(n int, g *vlib.Rng, ge *gen) {
	r := x.r
	d0 := ge.scalar()
	G := refG()
	P := refMul(d0, G)
	d := d0
	if P.y.Bit(0) == 1 {
		d = new(big.Int).Sub(refN, d0)
	}
	pk := be32(P.x)
	k := ge.scalar()
	R := refMul(k, G)
	one := big.NewInt(1)
	for i := 0; i < n; i++ {
		if R != nil && k.Cmp(refN) < 0 {
			msg := g.Bytes(32)
			rx := be32(R.x)
			e := new(big.Int).SetBytes(taggedHash("BIP0340/challenge", rx, pk, msg))
			e.Mod(e, refN)
			ed := new(big.Int).Mul(e, d)
			kEven, kOdd := k, new(big.Int).Sub(refN, k) // kEven: the scalar whose point has even y
			if R.y.Bit(0) == 1 {
				kEven, kOdd = kOdd, kEven
			}
			sGood := new(big.Int).Add(ed, kEven)
			sGood.Mod(sGood, refN)
			sBad := new(big.Int).Add(ed, kOdd)
			sBad.Mod(sBad, refN)
			good := append(append([]byte{}, rx...), be32(sGood)...)
			badSig := append(append([]byte{}, rx...), be32(sBad)...)
			var ok, bad bool
			p := guard(func() {
				ok = btc.SchnorrVerify(pk, good, msg)
				bad = btc.SchnorrVerify(pk, badSig, msg)
			})
			r.Eval("schnorr/sweep", "")
			countShare("schnorr", false)
			if p != "" || !ok || bad {
				switch {
				case p != "":
					x.prop(mk("schnorr", "sweep", true, pk, good, msg), "btc.SchnorrVerify panicked: "+p)
				case !ok:
					x.prop(mk("schnorr", "sweep", true, pk, good, msg), "btc.SchnorrVerify=false but BIP340 verification succeeds")
				default:
					x.prop(mk("schnorr", "sweep", true, pk, badSig, msg), fmt.Sprintf("btc.SchnorrVerify=true but BIP340 verification fails (R has odd y)"))
				}
				if r.Violations() > 8 {
					return
				}
			}
		}
		k = new(big.Int).Add(k, one)
		R = refAdd(R, G)
	}
}
