package main

// wide.go — coordinates whose value + p still fits in 32 bytes, drawn from the WHOLE range [0, 2^256-p) =
// [0, 2^32+977), not only from the tiny table (x < 400) of newGen.
//
// Why: "coordinate below p" is a comparison of a 32-byte string with
//     p = FFFFFFFF FFFFFFFF FFFFFFFF FFFFFFFF FFFFFFFF FFFFFFFF FFFFFFFE FFFFFC2F.
// The strings >= p are v+p for v < 2^32+977; for v < 977 they read ...FFFFFFFE (FFFFFC2F+v), for v >= 977
// they read ...FFFFFFFF (v-977). A comparison written limb by limb / byte by byte can be wrong on either
// family and at any byte of the low five, so the aliasing classes (pk-x-plus-p, pk-y-plus-p, base-x-plus-p,
// pk-x-plus-p of BIP340, r-plus-p of the re-assembled steps, small-r) must put values on both sides of
// every such split: uniformly random low words, words with single bytes 00 / FF, and the neighbourhoods of
// 977, 2^32 and 2^32+977.

import "math/big"

var wideTop = new(big.Int).Sub(two256, refP) // 2^32 + 977: v + p < 2^256 iff v < wideTop

// wideValue draws v in [0, 2^32+977).
func (ge *gen) wideValue() *big.Int {
	g := ge.g
	var v int64
	switch g.Intn(10) {
	case 0: // around 977: v+p crosses ...FFFFFFFE FFFFFFFF -> ...FFFFFFFF 00000000
		v = 977 - 24 + int64(g.Intn(48))
	case 1: // top of the range
		v = wideTop.Int64() - 1 - int64(g.Intn(64))
	case 2: // around 2^32: v-977 just below 2^32
		v = (1 << 32) - 32 + int64(g.Intn(64))
	case 3: // 977 + one byte set in the low word of v+p
		v = 977 + int64(1+g.Intn(255))<<uint(8*g.Intn(4))
	case 4: // low word of v+p with one byte forced to 00 or FF
		w := int64(g.U64() & 0xffffffff)
		sh := uint(8 * g.Intn(4))
		if g.Bool() {
			w |= 0xff << sh
		} else {
			w &^= 0xff << sh
		}
		v = 977 + w
	case 5: // 16-bit and 24-bit values
		v = int64(g.U64() & (1<<uint(16+8*g.Intn(2)) - 1))
	case 6: // 977 + 2^k - small / + small
		v = 977 + int64(1)<<uint(g.Intn(32)) - 2 + int64(g.Intn(4))
	default: // uniform over the low word
		v = 977 + int64(g.U64()&0xffffffff)
	}
	if v < 0 {
		v = 0
	}
	r := big.NewInt(v)
	if r.Cmp(wideTop) >= 0 {
		r.Sub(wideTop, big1)
	}
	return r
}

// pickSmallX: an on-curve point (even y) whose x + p fits in 32 bytes.
func (ge *gen) pickSmallX() *pt {
	g := ge.g
	if g.Intn(4) == 0 {
		return ge.smallX[g.Intn(len(ge.smallX))]
	}
	v := ge.wideValue()
	for i := 0; i < 64; i++ {
		if q := refLiftX(v); q != nil {
			return q
		}
		// walk to the next liftable x (half of all x are), staying inside the range
		v = new(big.Int).Add(v, big1)
		if v.Cmp(wideTop) >= 0 {
			v = ge.wideValue()
		}
	}
	return ge.smallX[g.Intn(len(ge.smallX))]
}

// pickSmallY: an on-curve point whose y + p fits in 32 bytes (x = cube root of y^2 - 7; one y in three has one).
func (ge *gen) pickSmallY() *pt {
	g := ge.g
	if ge.cubeE == nil || g.Intn(4) == 0 {
		return ge.smallY[g.Intn(len(ge.smallY))]
	}
	y := ge.wideValue()
	for i := 0; i < 96; i++ {
		if y.Sign() != 0 {
			c := new(big.Int).Mul(y, y)
			c.Sub(c, big7)
			c.Mod(c, refP)
			q := &pt{new(big.Int).Exp(c, ge.cubeE, refP), new(big.Int).Set(y)}
			if refOnCurve(q) {
				return q
			}
		}
		y = new(big.Int).Add(y, big1)
		if y.Cmp(wideTop) >= 0 {
			y = ge.wideValue()
		}
	}
	return ge.smallY[g.Intn(len(ge.smallY))]
}
