package main

// Additions after the independent audit (audit/C03.md):
//   * model_tie_share: how many cases per operation go through the Lean model (oracle_c03) and how many
//     are judged by the math/big reference only (countShare, reported in the evidence).
//   * noncevec: the RFC6979 vectors of /repo/lib/btc/hash_test.go (TestRFC6979_HMAC — these are
//     libsecp256k1's rfc6979_hmac_sha256 test vectors) used as EXTERNAL expectations for
//     btc.RFC6979_Nonce, the Go reference, the Lean model and the Lean spec; hash >= n cases pin the
//     libsecp256k1 variant (hash bytes fed to HMAC unreduced, no bits2octets).
//   * schnorre / ecmneg: SchnorrVerify hands `n - e` (e = unreduced 256-bit challenge) to XYZ.ECmult; for
//     e > n that scalar is a NEGATIVE big.Int. A SHA-256 output >= n cannot be produced (2^-128), and
//     SchnorrsigChallenge is a plain func (no in-process swap), so the real pieces of SchnorrVerify
//     (ParseXOnlyPubkey, Number arithmetic, XYZ.ECmult with the negative scalar, SetXYZ, parity, Equals)
//     are run with an injected challenge and compared with BIP340 (math/big) and with the Lean
//     model/spec evaluated at the constant hash function H = fun _ => e (op schnorre); ecmneg calls
//     XYZ.ECmult directly with a negative `na` against (na mod n)·A + ng·G. The hand-made mirror of
//     SchnorrVerify is itself checked against the real btc.SchnorrVerify on every `schnorr` case
//     (challenge taken from the real, exported secp256k1.SchnorrsigChallenge).

import (
	"bytes"
	"encoding/hex"
	"fmt"
	"math/big"
	"sort"
	"strings"
	"sync"

	"github.com/piotrnar/gocoin/lib/btc"
	"github.com/piotrnar/gocoin/lib/secp256k1"
	"verif/vlib"
)

// ---------------------------------------------------------------- model-tie share

type shareCnt struct{ total, oracle int }

var (
	shareMu sync.Mutex
	shares  = map[string]*shareCnt{}
)

func countShare(op string, oracle bool) {
	shareMu.Lock()
	s := shares[op]
	if s == nil {
		s = &shareCnt{}
		shares[op] = s
	}
	s.total++
	if oracle {
		s.oracle++
	}
	shareMu.Unlock()
}

// shareReport: per op "through oracle_c03 / evaluated", plus the totals.
func shareReport() map[string]interface{} {
	shareMu.Lock()
	defer shareMu.Unlock()
	out := map[string]interface{}{}
	var ops []string
	for k := range shares {
		ops = append(ops, k)
	}
	sort.Strings(ops)
	tot, orc := 0, 0
	for _, k := range ops {
		s := shares[k]
		out[k] = map[string]int{"through_lean_model": s.oracle, "evaluated": s.total}
		tot += s.total
		orc += s.oracle
	}
	out["_all"] = map[string]int{"through_lean_model": orc, "evaluated": tot}
	out["_note"] = "every evaluated case is judged real code vs math/big reference (the property predicate); only the through_lean_model ones are ALSO compared with the Lean model and the Lean spec"
	return out
}

// ---------------------------------------------------------------- RFC 6979 vectors

// runNonceVec: prv msg counter(1 byte) expected — `expected` is an external vector.
func (x *ctx) runNonceVec(c Case, a [][]byte, o *vlib.Oracle, useOracle bool, key string) {
	r := x.r
	cnt := 0
	if len(a[2]) > 0 {
		cnt = int(a[2][0])
	}
	want := a[3]
	var out [32]byte
	p := guard(func() { btc.RFC6979_Nonce(a[0], a[1], nil, nil, cnt, out[:]) })
	r.Eval("noncevec/"+c.Class, key)
	if p != "" {
		x.prop(c, "RFC6979_Nonce panicked: "+p)
		return
	}
	if !bytes.Equal(out[:], want) {
		x.prop(c, "RFC6979_Nonce="+hx(out[:])+" but the libsecp256k1 test vector (lib/btc/hash_test.go) is "+hx(want))
	}
	if ref := refRFC6979(a[0], a[1], cnt); !bytes.Equal(ref, want) {
		x.tie(c, "the Go reference refRFC6979="+hx(ref)+" does not reproduce the external vector "+hx(want))
	}
	r.Hit("noncevec external vector reproduced by real=" + boolStr(bytes.Equal(out[:], want)))
	// the signature EcdsaSign(RFC mode) must be the textbook signature with exactly this nonce (counter 0)
	d := new(big.Int).SetBytes(a[0])
	k := new(big.Int).SetBytes(want)
	if cnt == 0 && d.Sign() > 0 && d.Cmp(refN) < 0 && k.Sign() > 0 && k.Cmp(refN) < 0 {
		var rr, ss *big.Int
		var err error
		signMu.Lock()
		btc.EcdsaSignWithRFC6979 = true
		p := guard(func() { rr, ss, err = btc.EcdsaSign(a[0], a[1]) })
		signMu.Unlock()
		if p != "" || err != nil {
			x.prop(c, "EcdsaSign(RFC6979) failed on a test-vector key: "+p)
		} else {
			er, es := refEcdsaSignWithNonce(d, new(big.Int).SetBytes(a[1]), k)
			if er.Cmp(rr) != 0 || es.Cmp(ss) != 0 {
				x.prop(c, "EcdsaSign(RFC6979) is not the ECDSA signature made with the vector's nonce "+hx(want))
			}
			r.Hit("noncevec EcdsaSign uses the vector nonce")
			if useOracle {
				rep := strings.Fields(o.MustAsk("signrfc " + c.Args[0] + " " + c.Args[1]))
				if len(rep) != 4 || rep[1] != hex.EncodeToString(be32(rr)) || rep[2] != hex.EncodeToString(be32(ss)) || rep[3] != hex.EncodeToString(want) {
					x.tie(c, "model ecdsaSignRfc="+strings.Join(rep, " ")+" real="+hx(be32(rr))+" "+hx(be32(ss))+" vector nonce "+hx(want))
				} else {
					r.TieOK()
				}
			}
		}
	}
	if useOracle {
		rep := strings.Fields(o.MustAsk(fmt.Sprintf("nonce %s %s %d", c.Args[0], c.Args[1], cnt)))
		if len(rep) != 2 || rep[0] != hex.EncodeToString(want) {
			x.tie(c, "model rfc6979Nonce="+strings.Join(rep, " ")+" external vector="+hx(want))
		} else {
			r.TieOK()
		}
		if len(rep) == 2 && rep[1] != hex.EncodeToString(want) {
			x.tie(c, "Spec.Rfc6979.candidate="+rep[1]+" does not reproduce the external vector "+hx(want))
		}
	}
}

// noteHashGeN: called for every nonce / signrfc case — records whether the message hash is >= n and, if
// so, that the code's nonce differs from the one RFC 6979's bits2octets (hash mod n) would give: that
// is what "libsecp256k1 variant" means. No external vector exists for these inputs.
func (x *ctx) noteHashGeN(op string, prv, msg, realNonce []byte) {
	if len(prv) != 32 || len(msg) != 32 {
		return
	}
	h := new(big.Int).SetBytes(msg)
	if h.Cmp(refN) < 0 {
		return
	}
	red := be32(new(big.Int).Mod(h, refN))
	strict := refRFC6979(prv, red, 0)
	if realNonce == nil {
		realNonce = refRFC6979(prv, msg, 0)
	}
	x.r.Hit(op + " hash>=n: nonce equals bits2octets-reduced RFC6979 nonce=" + boolStr(bytes.Equal(strict, realNonce)))
}

// ---------------------------------------------------------------- negative scalar in XYZ.ECmult

// realSchnorrInjected mirrors secp256k1.SchnorrVerify (schnorr.go) statement by statement, built from the
// package's real exported pieces, with the challenge e given instead of hashed.
func realSchnorrInjected(pkey, sig, e32 []byte) bool {
	var rx secp256k1.Field
	var pk, r secp256k1.XY
	var rj, pkj secp256k1.XYZ
	var _s, _e secp256k1.Number
	if len(sig) != 64 {
		return false
	}
	rx.SetB32(sig[:32])
	if !pk.ParseXOnlyPubkey(pkey) {
		return false
	}
	_e.SetBytes(e32)
	_e.Int.Sub(&secp256k1.TheCurve.Order.Int, &_e.Int) // Number.sub: negative when e > n
	_s.SetBytes(sig[32:])
	if _s.Int.Cmp(&secp256k1.TheCurve.Order.Int) >= 0 {
		return false
	}
	pkj.SetXY(&pk)
	pkj.ECmult(&rj, &_e, &_s)
	r.SetXYZ(&rj)
	if r.Infinity {
		return false
	}
	r.Y.Normalize()
	if r.Y.IsOdd() {
		return false
	}
	r.X.Normalize()
	return rx.Equals(&r.X)
}

// refSchnorrVerifyE: BIP340 verification with the challenge integer given (reduced mod n as BIP340 says).
func refSchnorrVerifyE(pk, sig, e32 []byte) bool {
	if len(pk) != 32 || len(sig) != 64 {
		return false
	}
	P := refLiftX(new(big.Int).SetBytes(pk))
	if P == nil {
		return false
	}
	r := new(big.Int).SetBytes(sig[:32])
	s := new(big.Int).SetBytes(sig[32:])
	if r.Cmp(refP) >= 0 || s.Cmp(refN) >= 0 {
		return false
	}
	e := new(big.Int).SetBytes(e32)
	e.Mod(e, refN)
	R := refAdd(refMul(s, refG()), refNeg(refMul(e, P)))
	if R == nil || R.y.Bit(0) == 1 {
		return false
	}
	return R.x.Cmp(r) == 0
}

// mirrorCheck: on an ordinary schnorr case, the mirror fed with the REAL challenge must agree with the
// real btc.SchnorrVerify — otherwise the mirror no longer mirrors schnorr.go.
func (x *ctx) mirrorCheck(c Case, pk, sig, msg []byte, real bool) {
	if len(sig) != 64 || len(pk) != 32 {
		return
	}
	var e secp256k1.Number
	var m bool
	p := guard(func() {
		secp256k1.SchnorrsigChallenge(&e, sig[:32], msg, pk)
		m = realSchnorrInjected(pk, sig, be32(&e.Int))
	})
	if p != "" || m != real {
		x.tie(c, fmt.Sprintf("harness mirror of SchnorrVerify (extra.go realSchnorrInjected) = %v %s but btc.SchnorrVerify = %v: schnorr.go changed shape", m, p, real))
		return
	}
	x.r.Hit("schnorr mirror-with-real-challenge agrees")
}

// runSchnorrE: pk sig e32
func (x *ctx) runSchnorrE(c Case, a [][]byte, o *vlib.Oracle, useOracle bool, key string) {
	r := x.r
	var real bool
	p := guard(func() { real = realSchnorrInjected(a[0], a[1], a[2]) })
	ref := refSchnorrVerifyE(a[0], a[1], a[2])
	r.Eval("schnorre/"+c.Class, key)
	ge := new(big.Int).SetBytes(a[2]).Cmp(refN)
	r.Hit(fmt.Sprintf("schnorre e-cmp-n=%d real=%s ref=%s", ge, boolStr(real), boolStr(ref)))
	if len(a[1]) == 64 && new(big.Int).SetBytes(a[1][:32]).Cmp(refP) >= 0 {
		r.Hit("schnorre r>=p real=" + boolStr(real))
	}
	if p != "" {
		x.tie(c, "SchnorrVerify's steps panicked with an injected challenge: "+p)
		return
	}
	if real != ref {
		// not a PropFail: btc.SchnorrVerify itself cannot be driven to this challenge
		x.tie(c, fmt.Sprintf("SchnorrVerify's own steps (XYZ.ECmult with scalar n-e, e injected) give %v but BIP340 with e mod n gives %v", real, ref))
	}
	if useOracle {
		rep := strings.Fields(o.MustAsk("schnorre " + strings.Join(c.Args, " ")))
		if len(rep) != 3 || rep[0] != boolStr(real) {
			x.tie(c, "model schnorrVerify (H = const e)="+strings.Join(rep, " ")+" real steps="+boolStr(real))
		} else {
			r.TieOK()
		}
		if len(rep) == 3 && rep[0] != rep[1] {
			x.tie(c, "theorem schnorr_accept_iff contradicted at a constant hash: model="+rep[0]+" spec="+rep[1])
		}
		if len(rep) == 3 && rep[1] != rep[2] {
			x.tie(c, "Spec.Bip340.verify="+rep[1]+" but the BIP-text form verifyText="+rep[2]+" at a constant hash (theorem schnorr_accept_text_partial: would exhibit a curve point whose order does not divide n)")
		}
	}
}

// runEcmNeg: A(33 bytes) mag ng — XYZ.ECmult(A, na = -mag, ng) against (na mod n)·A + ng·G
func (x *ctx) runEcmNeg(c Case, a [][]byte, o *vlib.Oracle, useOracle bool, key string) {
	r := x.r
	A := refParsePubkey(a[0])
	r.Eval("ecmneg/"+c.Class, key)
	if A == nil {
		return
	}
	var q secp256k1.XY
	var aj, rj secp256k1.XYZ
	var na, ng secp256k1.Number
	var res secp256k1.XY
	p := guard(func() {
		q.ParsePubkey(a[0])
		aj.SetXY(&q)
		na.SetBytes(a[1])
		na.Int.Neg(&na.Int)
		ng.SetBytes(a[2])
		aj.ECmult(&rj, &na, &ng)
		res.SetXYZ(&rj)
	})
	if p != "" {
		x.tie(c, "XYZ.ECmult panicked with a negative scalar: "+p)
		return
	}
	realS := "inf"
	if !res.Infinity {
		res.X.Normalize()
		res.Y.Normalize()
		var xb, yb [32]byte
		res.X.GetB32(xb[:])
		res.Y.GetB32(yb[:])
		realS = hex.EncodeToString(xb[:]) + " " + hex.EncodeToString(yb[:])
	}
	k := new(big.Int).Neg(new(big.Int).SetBytes(a[1]))
	k.Mod(k, refN) // Euclidean: in [0, n)
	R := refAdd(refMul(k, A), refMul(new(big.Int).Mod(new(big.Int).SetBytes(a[2]), refN), refG()))
	refS := "inf"
	if R != nil {
		refS = hex.EncodeToString(be32(R.x)) + " " + hex.EncodeToString(be32(R.y))
	}
	r.Hit("ecmneg real==ref " + boolStr(realS == refS))
	if realS != refS {
		x.tie(c, "XYZ.ECmult with negative na gives "+realS+" but (na mod n)·A + ng·G = "+refS+" (SchnorrVerify relies on this when its challenge e > n)")
	}
	if useOracle {
		rep := o.MustAsk("ecmult " + c.Args[0] + " 1 " + c.Args[1] + " " + c.Args[2])
		if rep != realS {
			x.tie(c, "model ecmult="+rep+" real XYZ.ECmult="+realS)
		} else {
			r.TieOK()
		}
	}
}

// ---------------------------------------------------------------- generators

// eGeN: a challenge value in [n, 2^256) (boundaries often), as 32 bytes
func (ge *gen) eGeN() *big.Int {
	g := ge.g
	span := new(big.Int).Sub(two256, refN) // ≈ 2^128.3
	switch g.Intn(8) {
	case 0:
		return new(big.Int).Set(refN)
	case 1:
		return new(big.Int).Add(refN, big.NewInt(int64(1+g.Intn(8))))
	case 2:
		return new(big.Int).Sub(two256, big.NewInt(int64(1+g.Intn(8))))
	default:
		v := new(big.Int).SetBytes(g.Bytes(17))
		v.Mod(v, span)
		return v.Add(v, refN)
	}
}

// schnorrERplusP: BIP340 "fail if r >= p". A signature whose first half is x(R) + p (same residue mod p as
// the nonce point's x) must be refused although the equation holds for the reduced value. That needs a
// nonce point with x(R) < 2^256 - p = 2^32 + 977 — nobody knows the logarithm of one, and with the real
// challenge hash the key cannot be solved for (e depends on the key). With an INJECTED challenge it can:
// pick R from the tiny-x table (even y), pick s and e, and put P = e^-1 (s*G - R); then s*G - e*P = R.
// So this class discriminates "rx compared raw" from "rx normalised before Equals" on SchnorrVerify's
// re-assembled steps, on the Lean model and on both Lean specs — NOT on btc.SchnorrVerify itself.
func (ge *gen) schnorrERplusP(oracle bool) (Case, bool) {
	g := ge.g
	for try := 0; try < 8; try++ {
		R := refLiftX(ge.pickSmallX().x) // even y
		e := ge.scalar()
		cls := "e-lt-n"
		if g.Bool() {
			e = ge.eGeN()
			cls = "e-ge-n"
		}
		er := new(big.Int).Mod(e, refN)
		if er.Sign() == 0 {
			continue
		}
		s := ge.scalar()
		T := refAdd(refMul(s, refG()), refNeg(R))
		if T == nil {
			continue
		}
		P := refMul(new(big.Int).ModInverse(er, refN), T)
		if P == nil || P.y.Bit(0) == 1 { // the x-only key lifts to the even-y point: P itself must be it
			continue
		}
		pk := be32(P.x)
		switch g.Intn(3) {
		case 0: // the canonical signature: accepted
			return mk("schnorre", cls+"-small-r-valid", oracle, pk, append(be32(R.x), be32(s)...), be32(e)), true
		default: // r + p in 32 bytes: refused
			return mk("schnorre", cls+"-r-plus-p", oracle, pk, append(be32(new(big.Int).Add(R.x, refP)), be32(s)...), be32(e)), true
		}
	}
	return Case{}, false
}

func (ge *gen) schnorrE(oracle bool) Case {
	g := ge.g
	if g.Intn(6) == 0 {
		if c, ok := ge.schnorrERplusP(oracle); ok {
			return c
		}
	}
	d := ge.scalar()
	P := refMul(d, refG())
	if P.y.Bit(0) == 1 {
		d = new(big.Int).Sub(refN, d)
	}
	k := ge.scalar()
	R := refMul(k, refG())
	if R.y.Bit(0) == 1 {
		k = new(big.Int).Sub(refN, k)
	}
	e := ge.eGeN()
	cls := "e-ge-n"
	if g.Chance(1, 8) {
		e = ge.scalar()
		cls = "e-lt-n"
	}
	s := new(big.Int).Mul(new(big.Int).Mod(e, refN), d)
	s.Add(s, k)
	s.Mod(s, refN)
	pk := be32(P.x)
	sig := append(be32(R.x), be32(s)...)
	eb := be32(e)
	switch g.Intn(8) {
	case 0:
		return mk("schnorre", cls+"-bitflip-sig", oracle, pk, flipBit(g, sig), eb)
	case 1:
		return mk("schnorre", cls+"-bitflip-e", oracle, pk, sig, flipBit(g, eb))
	case 2:
		// the same challenge modulo n: e - n (or e + n when that still fits) must give the same verdict
		e2 := new(big.Int).Sub(e, refN)
		if e2.Sign() < 0 {
			e2.Add(e, refN)
			if e2.Cmp(two256) >= 0 {
				e2.Set(e)
			}
		}
		return mk("schnorre", cls+"-shifted-by-n", oracle, pk, sig, be32(e2))
	case 3:
		// the negated nonce point: s' = (e d - k) — R' = -R has odd y: must be refused
		s2 := new(big.Int).Mul(new(big.Int).Mod(e, refN), d)
		s2.Sub(s2, k)
		s2.Mod(s2, refN)
		return mk("schnorre", cls+"-odd-R", oracle, pk, append(be32(R.x), be32(s2)...), eb)
	default:
		return mk("schnorre", cls+"-valid", oracle, pk, sig, eb)
	}
}

func (ge *gen) ecmNeg(oracle bool) Case {
	g := ge.g
	A := refMul(ge.scalar(), refG())
	var mag *big.Int
	switch g.Intn(6) {
	case 0:
		mag = big.NewInt(int64(1 + g.Intn(16)))
	case 1:
		mag = new(big.Int).Sub(ge.eGeN(), refN) // exactly the range SchnorrVerify can produce: (0, 2^256-n)
	case 2:
		mag = new(big.Int).Set(refN) // -n = 0 mod n
	case 3:
		mag = new(big.Int).Sub(two256, big.NewInt(int64(1+g.Intn(8))))
	default:
		mag = ge.scalar()
	}
	if mag.Sign() == 0 {
		mag = big.NewInt(1)
	}
	ng := ge.scalar()
	if g.Chance(1, 8) {
		ng = big.NewInt(0)
	}
	return mk("ecmneg", "neg-na", oracle, serPub(A, 0), mag.Bytes(), be32(ng))
}
