package main

// Nonce points with x >= n, and public-key recovery on arbitrary (r, s, m, recid).
//
// The ECDSA equation is r == x(R) MOD n. For secp256k1 n < p, so a nonce point R may have n <= x(R) < p
// (about 2^128 of the 2^256 x-coordinates); the signature then carries r = x(R) - n. Signing with a
// known nonce reaches such a point with probability 2^-128, so sign/verify round trips never see the
// reduction. The triples here are ALGEBRAIC: the nonce point R is chosen first (any curve point, its
// discrete logarithm unknown), and the public key is solved for:
//
//	method A   pick a, b:  Q = b^-1 (R - aG),  r = x(R) mod n, s = r/b, m = a*s     (u1 = a, u2 = b)
//	method B   pick s, m:  Q = r^-1 (sR - mG)  (public-key recovery)                (u1 = m/s, u2 = r/s)
//
// Either way u1*G + u2*Q = R, so (Q, r, s, m) satisfies the equation by construction. The judge is the
// math/big reference (refEcdsaVerify / refRecover), never the construction itself.

import (
	"bytes"
	"encoding/hex"
	"fmt"
	"math/big"
	"strings"

	"github.com/piotrnar/gocoin/lib/btc"
	"github.com/piotrnar/gocoin/lib/secp256k1"
	"verif/vlib"
)

var pMinusN = new(big.Int).Sub(refP, refN)

// highXTable: on-curve points with x = n+k (k small) and x = p-k (k small) — the two ends of [n, p).
func highXTable() (out []*pt) {
	for k := int64(0); k < 400; k++ {
		if q := refLiftX(new(big.Int).Add(refN, big.NewInt(k))); q != nil {
			out = append(out, q)
		}
	}
	for k := int64(1); k < 200; k++ {
		if q := refLiftX(new(big.Int).Sub(refP, big.NewInt(k))); q != nil {
			out = append(out, q)
		}
	}
	return
}

// twinTable: small x for which BOTH x and x+n are x-coordinates of curve points: two different nonce
// points that yield the same r.
func twinTable() (out [][2]*pt) {
	for x := int64(1); x < 3000 && len(out) < 200; x++ {
		lo := refLiftX(big.NewInt(x))
		if lo == nil {
			continue
		}
		if hi := refLiftX(new(big.Int).Add(refN, big.NewInt(x))); hi != nil {
			out = append(out, [2]*pt{lo, hi})
		}
	}
	return
}

// highPoint draws a curve point with n <= x < p (either y).
func (ge *gen) highPoint() *pt {
	g := ge.g
	var q *pt
	if g.Intn(3) == 0 {
		for q == nil {
			off := new(big.Int).Mod(new(big.Int).SetBytes(g.Bytes(20)), pMinusN)
			q = refLiftX(off.Add(off, refN))
		}
	} else {
		q = ge.highX[g.Intn(len(ge.highX))]
	}
	if g.Bool() {
		q = refNeg(q)
	}
	return q
}

// anyNoncePoint: a nonce point of any kind (known multiple of G, tiny x, x >= n).
func (ge *gen) anyNoncePoint() *pt {
	g := ge.g
	switch g.Intn(4) {
	case 0:
		return refMul(ge.scalar(), refG())
	case 1:
		q := ge.pickSmallX()
		if g.Bool() {
			q = refNeg(q)
		}
		return q
	default:
		return ge.highPoint()
	}
}

type triple struct {
	Q       *pt
	r, s, m *big.Int
	msg     []byte
}

// solveKey builds a triple valid for the nonce point R (nil when a degenerate value turns up).
func (ge *gen) solveKey(R *pt) *triple {
	g := ge.g
	r := new(big.Int).Mod(R.x, refN)
	if r.Sign() == 0 {
		return nil
	}
	t := &triple{r: r}
	if g.Bool() { // method A
		a, b := ge.scalar(), ge.scalar()
		T := refAdd(R, refNeg(refMul(a, refG())))
		if T == nil {
			return nil
		}
		binv := new(big.Int).ModInverse(b, refN)
		t.Q = refMul(binv, T)
		t.s = new(big.Int).Mul(r, binv)
		t.s.Mod(t.s, refN)
		t.m = new(big.Int).Mul(a, t.s)
		t.m.Mod(t.m, refN)
		t.msg = be32(t.m)
		// the same message value offered unreduced (m + n) when it fits in 32 bytes
		if mn := new(big.Int).Add(t.m, refN); mn.BitLen() <= 256 && g.Chance(1, 4) {
			t.msg = be32(mn)
		}
	} else { // method B
		t.s = ge.scalar()
		t.msg = ge.msg32()
		t.m = new(big.Int).SetBytes(t.msg)
		T := refAdd(refMul(t.s, R), refNeg(refMul(new(big.Int).Mod(t.m, refN), refG())))
		if T == nil {
			return nil
		}
		t.Q = refMul(new(big.Int).ModInverse(r, refN), T)
	}
	if t.Q == nil || t.s.Sign() == 0 {
		return nil
	}
	return t
}

// ecdsaHighX: the ECDSA classes around nonce points with x >= n.
func (ge *gen) ecdsaHighX(sub int, oracle bool) Case {
	g := ge.g
	if sub == 4 && len(ge.twins) > 0 { // two nonce points, one r: the signature must verify under either key
		tw := ge.twins[g.Intn(len(ge.twins))]
		lo, hi := tw[0], tw[1]
		if g.Bool() {
			lo = refNeg(lo)
		}
		if g.Bool() {
			hi = refNeg(hi)
		}
		s, msg := ge.scalar(), ge.msg32()
		m := new(big.Int).Mod(new(big.Int).SetBytes(msg), refN)
		rinv := new(big.Int).ModInverse(lo.x, refN)
		mG := refNeg(refMul(m, refG()))
		R := lo
		cls := "rx-twin-low"
		if g.Bool() {
			R, cls = hi, "rx-twin-high"
		}
		T := refAdd(refMul(s, R), mG)
		if T != nil {
			if Q := refMul(rinv, T); Q != nil {
				return mk("ecdsa", cls, oracle, serPub(Q, g.Intn(3)), der(lo.x, s), msg)
			}
		}
	}
	R := ge.highPoint()
	t := ge.solveKey(R)
	if t == nil { // x(R) = n: r would be 0; neither 0 nor n is an acceptable r
		q := refMul(ge.scalar(), refG())
		rr := big.NewInt(0)
		if g.Bool() {
			rr = new(big.Int).Set(refN)
		}
		return mk("ecdsa", "rx-eq-n", oracle, serPub(q, g.Intn(3)), der(rr, ge.scalar()), ge.msg32())
	}
	pk := serPub(t.Q, g.Intn(3))
	switch sub {
	case 2: // r offered unreduced (= x(R) >= n): out of range
		return mk("ecdsa", "rx-ge-n-unreduced", oracle, pk, der(R.x, t.s), t.msg)
	case 3: // one bit of the message or of the signature changed
		if g.Bool() {
			return mk("ecdsa", "rx-ge-n-bitflip", oracle, pk, der(t.r, t.s), flipBit(g, t.msg))
		}
		return mk("ecdsa", "rx-ge-n-bitflip", oracle, pk, flipBit(g, der(t.r, t.s)), t.msg)
	case 5: // the negated key (compressed form with the other parity)
		return mk("ecdsa", "rx-ge-n-negkey", oracle, serPub(refNeg(t.Q), g.Intn(3)), der(t.r, t.s), t.msg)
	case 6: // high S twin: (r, n-s) is valid too (nonce point -R has the same x)
		return mk("ecdsa", "rx-ge-n-high-s", oracle, pk, der(t.r, new(big.Int).Sub(refN, t.s)), t.msg)
	}
	return mk("ecdsa", "rx-ge-n-valid", oracle, pk, der(t.r, t.s), t.msg)
}

// ---------------------------------------------------------------- public-key recovery on arbitrary input

// refRecover: SEC1 §4.1.6 public-key recovery as libsecp256k1's secp256k1_ecdsa_recover does it.
// recid bit 1: x(R) = r + n (refused when that is not below p); bit 0: parity of y(R).
// ok=false: no key — including the case that the recovered point s*R - m*G is the point at infinity
// (SEC1 4.1.6 yields candidate public keys, and the point at infinity is not a public key;
// secp256k1_ecdsa_sig_recover returns 0), which is reported through atInfinity.
func refRecover(r, s, m *big.Int, recid int) (Q *pt, ok bool) {
	Q, ok, _ = refRecoverInf(r, s, m, recid)
	return
}

func refRecoverInf(r, s, m *big.Int, recid int) (Q *pt, ok bool, atInfinity bool) {
	if r.Sign() <= 0 || s.Sign() <= 0 || r.Cmp(refN) >= 0 || s.Cmp(refN) >= 0 {
		return nil, false, false
	}
	x := new(big.Int).Set(r)
	if recid&2 != 0 {
		x.Add(x, refN)
		if x.Cmp(refP) >= 0 {
			return nil, false, false
		}
	}
	R := refLiftX(x)
	if R == nil {
		return nil, false, false
	}
	if recid&1 != 0 {
		R = refNeg(R)
	}
	T := refAdd(refMul(s, R), refNeg(refMul(new(big.Int).Mod(m, refN), refG())))
	if T == nil {
		return nil, false, true
	}
	return refMul(new(big.Int).ModInverse(r, refN), T), true, false
}

// recov draws a case for the op "recov": r s msg recid(1 byte).
func (ge *gen) recov(oracle bool) Case {
	g := ge.g
	R := ge.anyNoncePoint()
	s := ge.scalar()
	msg := ge.msg32()
	if g.Chance(1, 10) {
		msg = g.Bytes(g.Pick(0, 1, 20, 31, 33, 64))
	}
	if R == nil {
		R = refG()
	}
	r := new(big.Int).Mod(R.x, refN)
	recid := int(R.y.Bit(0))
	if R.x.Cmp(refN) >= 0 {
		recid |= 2
	}
	rb := func(v *big.Int) []byte {
		b := v.Bytes()
		if len(b) == 0 {
			b = []byte{0}
		}
		return b
	}
	if g.Intn(9) == 0 {
		// recovered point AT INFINITY: R = k*G chosen with its logarithm, message value m = s*k, so that
		// s*R - m*G = 0. Nothing is a public key here: nil expected (the pinned snapshot returned a key object
		// with Infinity set and left-over coordinates). Siblings: the other parity (s*(-R) - m*G = -2m*G, a
		// finite key that must verify) and the neighbouring message m+1.
		k := ge.scalar()
		Rk := refMul(k, refG())
		rk := new(big.Int).Mod(Rk.x, refN)
		if rk.Sign() != 0 {
			id := int(Rk.y.Bit(0))
			if Rk.x.Cmp(refN) >= 0 {
				id |= 2
			}
			m := new(big.Int).Mul(s, k)
			m.Mod(m, refN)
			switch g.Intn(4) {
			case 0:
				return mk("recov", "infinity-other-parity", oracle, rb(rk), rb(s), be32(m), []byte{byte(id ^ 1)})
			case 1:
				m.Add(m, big1)
				m.Mod(m, refN)
				return mk("recov", "infinity-neighbour", oracle, rb(rk), rb(s), be32(m), []byte{byte(id)})
			case 2: // the same message value offered unreduced (m + n) when it fits in 32 bytes, else as it is
				if mn := new(big.Int).Add(m, refN); mn.BitLen() <= 256 {
					m = mn
				}
				return mk("recov", "infinity", oracle, rb(rk), rb(s), be32(m), []byte{byte(id)})
			default:
				return mk("recov", "infinity", oracle, rb(rk), rb(s), be32(m), []byte{byte(id)})
			}
		}
	}
	switch g.Intn(10) {
	case 0: // the other x candidate: r+n instead of r (mostly >= p or a different point), or r instead of r+n
		return mk("recov", "other-x", oracle, rb(r), rb(s), msg, []byte{byte(recid ^ 2)})
	case 1: // the other parity: the key of the negated nonce point
		return mk("recov", "other-parity", oracle, rb(r), rb(s), msg, []byte{byte(recid ^ 1)})
	case 2: // r or s out of range
		if g.Bool() {
			return mk("recov", "r-special", oracle, rb(ge.special()), rb(s), msg, []byte{byte(g.Intn(4))})
		}
		return mk("recov", "s-special", oracle, rb(r), rb(ge.special()), msg, []byte{byte(g.Intn(4))})
	case 3: // random r: with bit 1 set r+n >= p almost always; without it half of the x have no point
		return mk("recov", "random-r", oracle, rb(ge.scalar()), rb(s), msg, []byte{byte(g.Intn(4))})
	case 4: // r just below / at / above p-n with bit 1 set: r+n around p
		rr := new(big.Int).Add(pMinusN, big.NewInt(int64(g.Intn(7)-3)))
		return mk("recov", "r-plus-n-near-p", oracle, rb(rr), rb(s), msg, []byte{byte(2 + g.Intn(2))})
	}
	cls := "low-x"
	if recid&2 != 0 {
		cls = "high-x"
	}
	return mk("recov", cls, oracle, rb(r), rb(s), msg, []byte{byte(recid)})
}

func ptStr(q *pt) string {
	return hex.EncodeToString(be32(q.x)) + " " + hex.EncodeToString(be32(q.y))
}

// runRecov: btc.Signature.RecoverPublicKey against the reference; when a key comes out, the triple
// (key, r, s, msg) is valid by construction and must be accepted by btc.EcdsaVerify in every key format.
func (x *ctx) runRecov(c Case, a [][]byte, o *vlib.Oracle, useOracle bool, key string) {
	r := x.r
	recid := 0
	if len(a[3]) > 0 {
		recid = int(a[3][0]) & 3
	}
	var bs btc.Signature
	bs.R.SetBytes(a[0])
	bs.S.SetBytes(a[1])
	var k *btc.PublicKey
	p := guard(func() { k = bs.RecoverPublicKey(a[2], recid) })
	r.Eval("recov/"+c.Class, key)
	if p != "" {
		x.prop(c, "RecoverPublicKey panicked: "+p)
		return
	}
	Q, ok, atInf := refRecoverInf(&bs.R.Int, &bs.S.Int, new(big.Int).SetBytes(a[2]), recid)
	r.Hit(fmt.Sprintf("recov recid=%d real=%s ref=%s", recid, boolStr(k != nil), boolStr(ok)))
	realS := "none"
	if k != nil {
		k.X.Normalize()
		k.Y.Normalize()
		var xb, yb [32]byte
		k.X.GetB32(xb[:])
		k.Y.GetB32(yb[:])
		realS = "ok " + hex.EncodeToString(xb[:]) + " " + hex.EncodeToString(yb[:])
	}
	if atInf {
		// recovered point at infinity (s*R = m*G; constructible by choosing R = k*G, m = s*k — class
		// recov/infinity): there is no key, nil expected. Judged like every other case, below.
		r.Hit("recov result-at-infinity real-nil=" + boolStr(k == nil))
		if k != nil {
			x.prop(c, fmt.Sprintf("RecoverPublicKey returns a key object (Infinity=%v, coordinates %s) although the recovered point s*R - m*G is the point at infinity: no public key exists for this (r, s, hash, recid)", k.Infinity, realS))
			return
		}
	}
	refS := "none"
	if ok {
		refS = "ok " + ptStr(Q)
	}
	if realS != refS {
		x.prop(c, "RecoverPublicKey gives "+realS+" but SEC1 public-key recovery gives "+refS)
	}
	if ok {
		sig := der(&bs.R.Int, &bs.S.Int)
		for f := 0; f < 3; f++ {
			pk := serPub(Q, f)
			if !refEcdsaVerify(pk, sig, a[2]) {
				x.tie(c, "reference inconsistent: recovered key does not satisfy the ECDSA equation")
				break
			}
			var v bool
			pv := guard(func() { v = btc.EcdsaVerify(pk, sig, a[2]) })
			if pv != "" || !v {
				x.prop(c, fmt.Sprintf("signature valid for the recovered key %s (nonce point x = r%s) is refused by btc.EcdsaVerify %s",
					hx(pk), map[bool]string{false: "", true: "+n"}[recid&2 != 0], pv))
				break
			}
		}
		// and with the library's own verifier object (Signature.Verify on the parsed key)
		var xy secp256k1.XY
		if xy.ParsePubkey(serPub(Q, 0)) {
			var mn secp256k1.Number
			mn.SetBytes(a[2])
			var v bool
			guard(func() { v = bs.Signature.Verify(&xy, &mn) })
			if !v {
				x.prop(c, "Signature.Verify refuses the triple made of its own recovered key")
			}
		}
	}
	if useOracle {
		rep := o.MustAsk(fmt.Sprintf("recover %s %s %s %d", numHex(&bs.R.Int), numHex(&bs.S.Int), c.Args[2], recid))
		if rep != realS {
			x.tie(c, "model recoverPublicKey="+rep+" real="+realS)
		} else {
			r.TieOK()
		}
		if ok {
			// the model's verifier on the recovered triple (theorem recover_verifies)
			rep2 := strings.Fields(o.MustAsk(fmt.Sprintf("ecdsam %s %s %s", hx(serPub(Q, 0)), hx(der(&bs.R.Int, &bs.S.Int)), hxOrDash(a[2]))))
			if len(rep2) < 1 || rep2[0] != "1" {
				x.tie(c, "model ecdsaVerify refuses the recovered triple: "+strings.Join(rep2, " "))
			} else {
				r.TieOK()
			}
		}
	}
}

func hxOrDash(b []byte) string {
	if len(b) == 0 {
		return "-"
	}
	return hx(b)
}

var _ = bytes.Equal
