package main

// Results at infinity with the STALE operands offered as the claim.
//
// All three verifiers end in "compute a point, fail if it is the point at infinity, else compare its
// coordinates with what the input claims". An implementation that tests the wrong value for infinity (or
// none) does not crash: its Jacobian/affine result still holds coordinates — those of an operand or of an
// intermediate sum — and the comparison then runs on them. Such a defect only shows when the input's
// claim equals those left-over coordinates, so an infinity case whose claim is "all zero" or an unrelated
// value cannot see it. This file builds, for every verifier, inputs whose result IS the point at infinity
// and whose claim ranges over everything an implementation could have left behind: each operand (P, t·G,
// G, u2·Q), the double of the operand, whatever gocoin's own helper leaves in its receiver (read back
// whatever it returned), both parity bits. The reference refuses all of them.
//
// Op tweakadd ties the helper XY.ECPublicTweakAdd itself (return value and point) to A + t·G of the
// reference and of the Lean model (Sig.ecmult (some A) 1 t), including sums at infinity.

import (
	"encoding/hex"
	"math/big"

	"github.com/piotrnar/gocoin/lib/secp256k1"
	"verif/vlib"
)

// ownResidue: what gocoin's own ECPublicTweakAdd leaves in its receiver for (x,y) + t·G, read back
// whatever the call returned (on the unchanged code: the untouched operand when it returns false).
func ownResidue(x, y []byte, t *big.Int) (ox []byte, par byte, ret bool, ok bool) {
	p := guard(func() {
		var q secp256k1.XY
		q.X.SetB32(x)
		q.Y.SetB32(y)
		var tw secp256k1.Number
		tw.Set(t)
		ret = q.ECPublicTweakAdd(&tw)
		q.X.Normalize()
		q.Y.Normalize()
		var xb, yb [32]byte
		q.X.GetB32(xb[:])
		q.Y.GetB32(yb[:])
		ox, par = xb[:], yb[31]&1
	})
	return ox, par, ret, p == ""
}

// evenLog: the scalar d' with d'·G = lift_x(x(d·G)) (the even-y point), and that point.
func evenLog(d *big.Int) (*big.Int, *pt) {
	P0 := refMul(d, refG())
	dd := new(big.Int).Set(d)
	if P0.y.Bit(0) == 1 {
		dd.Sub(refN, d)
	}
	return dd, refLiftX(P0.x)
}

// tweakInfinity: internal key P = d'·G, tweak t = n - d' (so P + t·G is the point at infinity and BIP341
// says fail), claimed output key and parity drawn from the left-over candidates.
func (ge *gen) tweakInfinity(oracle bool, d *big.Int) Case {
	g := ge.g
	dd, P := evenLog(d)
	base := be32(P.x)
	t := new(big.Int).Sub(refN, dd)
	hash := be32(t)
	anyPar := []byte{byte(g.Intn(2))}
	switch g.Intn(10) {
	case 0:
		return mk("tweak", "infinity", oracle, make([]byte, 32), base, hash, anyPar)
	case 1, 2: // the internal key itself = x(t·G) (t·G = -P): both parities
		return mk("tweak", "infinity-claim-operand", oracle, base, base, hash, anyPar)
	case 3, 4, 5: // what the code's own helper leaves behind, with its parity / the other one
		ox, op, _, ok := ownResidue(be32(P.x), be32(P.y), t)
		if !ok {
			return mk("tweak", "infinity-claim-operand", oracle, base, base, hash, anyPar)
		}
		if g.Chance(1, 3) {
			op ^= 1
		}
		return mk("tweak", "infinity-claim-residue", oracle, ox, base, hash, []byte{op})
	case 6: // the generator
		return mk("tweak", "infinity-claim-G", oracle, be32(refGx), base, hash, anyPar)
	case 7: // the double of the operand (an addition that took the doubling branch)
		Q2 := refAdd(P, P)
		return mk("tweak", "infinity-claim-double", oracle, be32(Q2.x), base, hash, anyPar)
	case 8: // the neighbour's result (P + (t+1)·G = G) claimed with the infinity tweak
		return mk("tweak", "infinity-claim-G", oracle, be32(refGx), base, hash, []byte{byte(refGy.Bit(0))})
	default: // and the valid neighbour itself (t+1 -> Q = G), so the family is not all-refuse
		t1 := new(big.Int).Add(t, big1)
		if t1.Cmp(refN) >= 0 {
			return mk("tweak", "infinity", oracle, make([]byte, 32), base, hash, anyPar)
		}
		return mk("tweak", "infinity-neighbour", oracle, be32(refGx), base, be32(t1), []byte{byte(refGy.Bit(0))})
	}
}

// ecdsaInfinity: u1·G + u2·Q = infinity (m = -r·d) with r = x mod n of an operand of that sum.
func (ge *gen) ecdsaInfinity(oracle bool, d *big.Int, Q *pt, pk []byte, r0, s0 *big.Int) Case {
	g := ge.g
	r, s := new(big.Int).Set(r0), new(big.Int).Set(s0)
	cls := "infinity"
	switch g.Intn(4) {
	case 0: // r of an unrelated nonce (the original case)
	case 1: // r = x(Q)
		r.Mod(Q.x, refN)
		cls = "infinity-claim-key"
	case 2: // r = x(u2·Q) = x(u1·G): choose c, r = x(c·Q), s = r/c so that u2 = r/s = c
		c := ge.scalar()
		R := refMul(c, Q)
		if R != nil {
			r.Mod(R.x, refN)
			if r.Sign() != 0 {
				s.Mul(r, new(big.Int).ModInverse(c, refN))
				s.Mod(s, refN)
			}
		}
		cls = "infinity-claim-operand"
	default: // r = x(G)
		r.Mod(refGx, refN)
		cls = "infinity-claim-G"
	}
	if r.Sign() == 0 || s.Sign() == 0 {
		r, s, cls = r0, s0, "infinity"
	}
	mm := new(big.Int).Mul(r, d)
	mm.Neg(mm)
	mm.Mod(mm, refN)
	return mk("ecdsa", cls, oracle, pk, der(r, s), be32(mm))
}

// schnorrInfinity: s·G - e·P = infinity (s = e·d') with r = x of an operand. e depends on r, so r is
// chosen first.
func (ge *gen) schnorrInfinity(oracle bool, sk []byte, msg []byte) Case {
	g := ge.g
	dd, P := evenLog(new(big.Int).SetBytes(sk))
	pk := be32(P.x)
	var rx []byte
	cls := "infinity"
	switch g.Intn(4) {
	case 0:
		rx, cls = pk, "infinity-claim-key"
	case 1:
		rx, cls = be32(refGx), "infinity-claim-G"
	case 2:
		rx = be32(refMul(ge.scalar(), refG()).x)
	default:
		rx = make([]byte, 32)
	}
	e := new(big.Int).SetBytes(taggedHash("BIP0340/challenge", rx, pk, msg))
	e.Mod(e, refN)
	s := new(big.Int).Mul(e, dd)
	s.Mod(s, refN)
	return mk("schnorr", cls, oracle, pk, append(append([]byte{}, rx...), be32(s)...), msg)
}

// ---------------------------------------------------------------- op tweakadd: A(33|65 bytes) t(32 bytes, < n)

func (ge *gen) tweakAdd(oracle bool) Case {
	g := ge.g
	d := ge.scalar()
	A := refMul(d, refG())
	pk := serPub(A, g.Intn(2))
	switch g.Intn(8) {
	case 0, 1: // sum at infinity
		return mk("tweakadd", "infinity", oracle, pk, be32(new(big.Int).Sub(refN, d)))
	case 2: // doubling
		return mk("tweakadd", "doubling", oracle, pk, be32(d))
	case 3:
		return mk("tweakadd", "zero", oracle, pk, make([]byte, 32))
	case 4: // next to infinity
		t := new(big.Int).Sub(refN, d)
		if g.Bool() {
			t.Add(t, big1)
		} else {
			t.Sub(t, big1)
		}
		t.Mod(t, refN)
		return mk("tweakadd", "near-infinity", oracle, pk, be32(t))
	case 5:
		return mk("tweakadd", "small", oracle, pk, be32(big.NewInt(int64(1+g.Intn(16)))))
	default:
		return mk("tweakadd", "random", oracle, pk, be32(ge.scalar()))
	}
}

func (x *ctx) runTweakAdd(c Case, a [][]byte, o *vlib.Oracle, useOracle bool, key string) {
	r := x.r
	A := refParsePubkey(a[0])
	t := new(big.Int).SetBytes(a[1])
	r.Eval("tweakadd/"+c.Class, key)
	if A == nil || t.Cmp(refN) >= 0 { // the helper's caller guarantees a parsed key and t < n
		return
	}
	var q secp256k1.XY
	var ok bool
	p := guard(func() {
		q.ParsePubkey(a[0])
		var tw secp256k1.Number
		tw.Set(t)
		ok = q.ECPublicTweakAdd(&tw)
	})
	if p != "" {
		x.tie(c, "XY.ECPublicTweakAdd panicked: "+p)
		return
	}
	realS := "inf"
	if ok {
		q.X.Normalize()
		q.Y.Normalize()
		var xb, yb [32]byte
		q.X.GetB32(xb[:])
		q.Y.GetB32(yb[:])
		realS = hex.EncodeToString(xb[:]) + " " + hex.EncodeToString(yb[:])
	}
	R := refAdd(A, refMul(t, refG()))
	refS := "inf"
	if R != nil {
		refS = hex.EncodeToString(be32(R.x)) + " " + hex.EncodeToString(be32(R.y))
	}
	r.Hit("tweakadd real==ref " + boolStr(realS == refS) + " inf=" + boolStr(R == nil))
	if realS != refS {
		// the observable (btc.CheckPayToContract) is judged by op tweak; this is the helper's own contract
		x.tie(c, "XY.ECPublicTweakAdd gives "+realS+" (inf = returned false) but A + t·G = "+refS)
	}
	if useOracle {
		rep := o.MustAsk("ecmult " + c.Args[0] + " 0 01 " + c.Args[1])
		if rep != realS {
			x.tie(c, "model ecmult (some A) 1 t="+rep+" real XY.ECPublicTweakAdd="+realS)
		} else {
			r.TieOK()
		}
	}
}
