package main

// Independent reference for property C03, written against the standards only (SEC1, FIPS 186 ECDSA,
// BIP340, BIP341, RFC 6979) with math/big and crypto/hmac — no gocoin code, no Lean model.

import (
	"bytes"
	"crypto/hmac"
	"crypto/sha256"
	"math/big"
)

var (
	refP, _  = new(big.Int).SetString("FFFFFFFFFFFFFFFFFFFFFFFFFFFFFFFFFFFFFFFFFFFFFFFFFFFFFFFEFFFFFC2F", 16)
	refN, _  = new(big.Int).SetString("FFFFFFFFFFFFFFFFFFFFFFFFFFFFFFFEBAAEDCE6AF48A03BBFD25E8CD0364141", 16)
	refGx, _ = new(big.Int).SetString("79BE667EF9DCBBAC55A06295CE870B07029BFCDB2DCE28D959F2815B16F81798", 16)
	refGy, _ = new(big.Int).SetString("483ADA7726A3C4655DA4FBFC0E1108A8FD17B448A68554199C47D08FFB10D4B8", 16)
	big0     = big.NewInt(0)
	big1     = big.NewInt(1)
	big2     = big.NewInt(2)
	big3     = big.NewInt(3)
	big7     = big.NewInt(7)
)

// pt is an affine point; nil = point at infinity.
type pt struct{ x, y *big.Int }

func refG() *pt { return &pt{new(big.Int).Set(refGx), new(big.Int).Set(refGy)} }

func fmod(a *big.Int) *big.Int { return a.Mod(a, refP) }

func refOnCurve(q *pt) bool {
	if q == nil {
		return true
	}
	if q.x.Sign() < 0 || q.y.Sign() < 0 || q.x.Cmp(refP) >= 0 || q.y.Cmp(refP) >= 0 {
		return false
	}
	l := new(big.Int).Mul(q.y, q.y)
	fmod(l)
	r := new(big.Int).Mul(q.x, q.x)
	r.Mul(r, q.x)
	r.Add(r, big7)
	fmod(r)
	return l.Cmp(r) == 0
}

func refNeg(a *pt) *pt {
	if a == nil {
		return nil
	}
	y := new(big.Int).Sub(refP, a.y)
	fmod(y)
	return &pt{new(big.Int).Set(a.x), y}
}

func refAdd(a, b *pt) *pt {
	if a == nil {
		return b
	}
	if b == nil {
		return a
	}
	var l *big.Int
	if a.x.Cmp(b.x) == 0 {
		if a.y.Cmp(b.y) != 0 || a.y.Sign() == 0 {
			return nil
		}
		num := new(big.Int).Mul(a.x, a.x)
		num.Mul(num, big3)
		den := new(big.Int).Mul(a.y, big2)
		den.ModInverse(fmod(den), refP)
		l = fmod(num.Mul(num, den))
	} else {
		num := new(big.Int).Sub(b.y, a.y)
		den := new(big.Int).Sub(b.x, a.x)
		den.ModInverse(fmod(den), refP)
		l = fmod(num.Mul(num, den))
	}
	x3 := new(big.Int).Mul(l, l)
	x3.Sub(x3, a.x)
	x3.Sub(x3, b.x)
	fmod(x3)
	y3 := new(big.Int).Sub(a.x, x3)
	y3.Mul(y3, l)
	y3.Sub(y3, a.y)
	fmod(y3)
	return &pt{x3, y3}
}

// refMul computes k*q for k >= 0 (plain double-and-add).
func refMul(k *big.Int, q *pt) *pt {
	var acc *pt
	for i := k.BitLen() - 1; i >= 0; i-- {
		acc = refAdd(acc, acc)
		if k.Bit(i) == 1 {
			acc = refAdd(acc, q)
		}
	}
	return acc
}

// refSqrt returns a square root of a mod p, or nil when a is not a quadratic residue.
func refSqrt(a *big.Int) *big.Int {
	r := new(big.Int).ModSqrt(new(big.Int).Mod(a, refP), refP)
	return r
}

// refLiftX: BIP340 lift_x.
func refLiftX(x *big.Int) *pt {
	if x.Cmp(refP) >= 0 {
		return nil
	}
	c := new(big.Int).Mul(x, x)
	c.Mul(c, x)
	c.Add(c, big7)
	fmod(c)
	y := refSqrt(c)
	if y == nil {
		return nil
	}
	if y.Bit(0) == 1 {
		y.Sub(refP, y)
	}
	return &pt{new(big.Int).Set(x), y}
}

// refParsePubkey: SEC1 parsing as libsecp256k1's secp256k1_ec_pubkey_parse does it
// (02/03 compressed, 04 uncompressed, 06/07 hybrid with matching parity; coordinates < p, on curve).
func refParsePubkey(b []byte) *pt {
	if len(b) == 33 && (b[0] == 2 || b[0] == 3) {
		q := refLiftX(new(big.Int).SetBytes(b[1:]))
		if q == nil {
			return nil
		}
		if (q.y.Bit(0) == 1) != (b[0] == 3) {
			q.y.Sub(refP, q.y)
		}
		return q
	}
	if len(b) == 65 && (b[0] == 4 || b[0] == 6 || b[0] == 7) {
		q := &pt{new(big.Int).SetBytes(b[1:33]), new(big.Int).SetBytes(b[33:])}
		if !refOnCurve(q) {
			return nil
		}
		if b[0] == 6 && q.y.Bit(0) == 1 || b[0] == 7 && q.y.Bit(0) == 0 {
			return nil
		}
		return q
	}
	return nil
}

// refParseSigLax: the DER-ish container gocoin documents it accepts:
// 30 L 02 lr R 02 ls S [trailing], single-byte lengths, L = lr+ls+4, lr,ls >= 1, integers unsigned.
// Written independently from the format description, used only to split the bytes into (r, s).
func refParseSigLax(sig []byte) (r, s *big.Int, ok bool) {
	if len(sig) < 5 || sig[0] != 0x30 || sig[2] != 0x02 {
		return
	}
	lr := int(sig[3])
	if lr == 0 || len(sig) <= 4+lr+1 {
		return
	}
	if sig[4+lr] != 0x02 {
		return
	}
	ls := int(sig[4+lr+1])
	if ls == 0 || len(sig) < 4+lr+2+ls || int(sig[1]) != lr+ls+4 {
		return
	}
	return new(big.Int).SetBytes(sig[4 : 4+lr]), new(big.Int).SetBytes(sig[6+lr : 6+lr+ls]), true
}

// refEcdsaEq: the ECDSA verification equation for a point Q, 1<=r,s<n.
func refEcdsaEq(q *pt, r, s, m *big.Int) bool {
	if r.Sign() <= 0 || s.Sign() <= 0 || r.Cmp(refN) >= 0 || s.Cmp(refN) >= 0 {
		return false
	}
	w := new(big.Int).ModInverse(s, refN)
	u1 := new(big.Int).Mul(m, w)
	u1.Mod(u1, refN)
	u2 := new(big.Int).Mul(r, w)
	u2.Mod(u2, refN)
	R := refAdd(refMul(u1, refG()), refMul(u2, q))
	if R == nil {
		return false
	}
	return new(big.Int).Mod(R.x, refN).Cmp(r) == 0
}

// refEcdsaVerify: the property's ECDSA acceptance predicate.
func refEcdsaVerify(pk, sig, msg []byte) bool {
	q := refParsePubkey(pk)
	if q == nil {
		return false
	}
	r, s, ok := refParseSigLax(sig)
	if !ok {
		return false
	}
	return refEcdsaEq(q, r, s, new(big.Int).SetBytes(msg))
}

func taggedHash(tag string, parts ...[]byte) []byte {
	t := sha256.Sum256([]byte(tag))
	h := sha256.New()
	h.Write(t[:])
	h.Write(t[:])
	for _, p := range parts {
		h.Write(p)
	}
	return h.Sum(nil)
}

func be32(x *big.Int) []byte {
	b := x.Bytes()
	if len(b) >= 32 {
		return b[len(b)-32:]
	}
	return append(make([]byte, 32-len(b)), b...)
}

// refSchnorrVerify: BIP340 Verify(pk, m, sig).
func refSchnorrVerify(pk, sig, msg []byte) bool {
	if len(pk) != 32 || len(sig) != 64 {
		return false
	}
	P := refLiftX(new(big.Int).SetBytes(pk))
	if P == nil {
		return false
	}
	r := new(big.Int).SetBytes(sig[:32])
	s := new(big.Int).SetBytes(sig[32:])
	if r.Cmp(refP) >= 0 || s.Cmp(refN) >= 0 {
		return false
	}
	e := new(big.Int).SetBytes(taggedHash("BIP0340/challenge", sig[:32], pk, msg))
	e.Mod(e, refN)
	R := refAdd(refMul(s, refG()), refNeg(refMul(e, P)))
	if R == nil || R.y.Bit(0) == 1 {
		return false
	}
	return R.x.Cmp(r) == 0
}

// refSchnorrSign: BIP340 Sign(sk, m, a); nil when it fails.
func refSchnorrSign(msg, sk, aux []byte) []byte {
	if len(sk) != 32 { // BIP340: "the secret key sk: a 32-byte array"
		return nil
	}
	d0 := new(big.Int).SetBytes(sk)
	if d0.Sign() == 0 || d0.Cmp(refN) >= 0 {
		return nil
	}
	P := refMul(d0, refG())
	d := d0
	if P.y.Bit(0) == 1 {
		d = new(big.Int).Sub(refN, d0)
	}
	t := taggedHash("BIP0340/aux", aux)
	db := be32(d)
	for i := range t {
		t[i] ^= db[i]
	}
	rand := taggedHash("BIP0340/nonce", t, be32(P.x), msg)
	k0 := new(big.Int).SetBytes(rand)
	k0.Mod(k0, refN)
	if k0.Sign() == 0 {
		return nil
	}
	R := refMul(k0, refG())
	k := k0
	if R.y.Bit(0) == 1 {
		k = new(big.Int).Sub(refN, k0)
	}
	e := new(big.Int).SetBytes(taggedHash("BIP0340/challenge", be32(R.x), be32(P.x), msg))
	e.Mod(e, refN)
	s := new(big.Int).Mul(e, d)
	s.Add(s, k)
	s.Mod(s, refN)
	return append(be32(R.x), be32(s)...)
}

// refTapTweakCheck: BIP341 — Q = lift_x(P) + t*G with t < n; compare x(Q) and the parity of y(Q).
func refTapTweakCheck(qx, base, hash []byte, parity bool) bool {
	if len(base) != 32 {
		return false
	}
	P := refLiftX(new(big.Int).SetBytes(base))
	if P == nil {
		return false
	}
	t := new(big.Int).SetBytes(hash)
	if t.Cmp(refN) >= 0 {
		return false
	}
	Q := refAdd(P, refMul(t, refG()))
	if Q == nil {
		return false
	}
	return bytes.Equal(be32(Q.x), qx) && (Q.y.Bit(0) == 1) == parity
}

// refRFC6979: RFC 6979 §3.2 with HMAC-SHA256, qlen = 256, x = prv (32 bytes), h1 = msg (32 bytes)
// taken as bits2octets(h1) = h1 (exact when int(h1) < n; libsecp256k1 and gocoin never reduce it).
// Returns the candidate produced by the (counter+1)-th iteration of step h.
func refRFC6979(prv, msg []byte, counter int) []byte {
	V := bytes.Repeat([]byte{1}, 32)
	K := make([]byte, 32)
	mac := func(k []byte, parts ...[]byte) []byte {
		h := hmac.New(sha256.New, k)
		for _, p := range parts {
			h.Write(p)
		}
		return h.Sum(nil)
	}
	K = mac(K, V, []byte{0}, prv, msg)
	V = mac(K, V)
	K = mac(K, V, []byte{1}, prv, msg)
	V = mac(K, V)
	for i := 0; ; i++ {
		V = mac(K, V)
		if i == counter {
			return V
		}
		K = mac(K, V, []byte{0})
		V = mac(K, V)
	}
}

// refEcdsaSignWithNonce: textbook ECDSA, then the s -> n-s normalisation to low S.
func refEcdsaSignWithNonce(d, m, k *big.Int) (r, s *big.Int) {
	R := refMul(k, refG())
	r = new(big.Int).Mod(R.x, refN)
	s = new(big.Int).Mul(r, d)
	s.Add(s, m)
	s.Mul(s, new(big.Int).ModInverse(k, refN))
	s.Mod(s, refN)
	half := new(big.Int).Rsh(refN, 1)
	if s.Cmp(half) > 0 {
		s.Sub(refN, s)
	}
	return
}

// refIsStrictDER: BIP66 IsValidSignatureEncoding on the signature WITHOUT the hash-type byte.
func refIsStrictDER(sig []byte) bool {
	if len(sig) < 8 || len(sig) > 72 {
		return false
	}
	if sig[0] != 0x30 || int(sig[1]) != len(sig)-2 {
		return false
	}
	lr := int(sig[3])
	if 5+lr >= len(sig) {
		return false
	}
	ls := int(sig[5+lr])
	if lr+ls+6 != len(sig) {
		return false
	}
	if sig[2] != 2 || lr == 0 || sig[4]&0x80 != 0 {
		return false
	}
	if lr > 1 && sig[4] == 0 && sig[5]&0x80 == 0 {
		return false
	}
	if sig[lr+4] != 2 || ls == 0 || sig[lr+6]&0x80 != 0 {
		return false
	}
	if ls > 1 && sig[lr+6] == 0 && sig[lr+7]&0x80 == 0 {
		return false
	}
	return true
}
