// Command c03 — correspondence harness for property C03 (ECDSA / BIP340 / taproot-tweak acceptance is
// exact; own signatures verify, are canonical, match RFC6979/BIP340, and recover the signer's key).
//
// Every case is evaluated by up to four parties:
//   real   the gocoin code in /repo (btc.EcdsaVerify, btc.SchnorrVerify, btc.CheckPayToContract,
//          btc.EcdsaSign, secp256k1.SchnorrSign, Signature.Sign/Bytes, btc.Signature.RecoverPublicKey,
//          btc.RFC6979_Nonce, btc.HMAC_*, XY.ParsePubkey, Signature.ParseBytes)
//   ref    an independent math/big + crypto/hmac reference written from the standards (ref.go)
//   model  the Lean model Model/Sig.lean (through oracle_c03) — the definitions the theorems are about
//   spec   the Lean specs Spec/{Ecdsa,Bip340,TapTweak,Rfc6979}.lean (through oracle_c03)
// real ≠ ref            -> the PROPERTY fails on the real code for that input  (PropFail)
// real ≠ model          -> the model no longer mirrors the code                (TieFail)
// model ≠ spec          -> a proved iff-theorem would be contradicted          (TieFail, "theorem")
package main

import (
	"bytes"
	"encoding/csv"
	"encoding/hex"
	"encoding/json"
	"fmt"
	"math/big"
	"os"
	"strings"
	"sync"

	"github.com/piotrnar/gocoin/lib/btc"
	"github.com/piotrnar/gocoin/lib/secp256k1"
	"verif/vlib"
	"verif/vtrans"
)

// Case is one input; Args are hex strings ("-" = empty) except where noted.
type Case struct {
	Op     string   `json:"op"`
	Args   []string `json:"args"`
	Class  string   `json:"class"`
	Oracle bool     `json:"oracle"`
}

var hx = vlib.Hex
var unhx = vlib.UnHex

func mk(op, class string, oracle bool, args ...[]byte) Case {
	c := Case{Op: op, Class: class, Oracle: oracle}
	for _, a := range args {
		c.Args = append(c.Args, hx(a))
	}
	return c
}

// ---------------------------------------------------------------- real code wrappers (panic = observation)

func guard(f func()) (panicked string) {
	defer func() {
		if e := recover(); e != nil {
			panicked = fmt.Sprint(e)
		}
	}()
	f()
	return ""
}

func boolStr(b bool) string {
	if b {
		return "1"
	}
	return "0"
}

// ---------------------------------------------------------------- the run

type ctx struct {
	r  *vlib.Run
	mu sync.Mutex
}

func (x *ctx) prop(c Case, what string) {
	x.r.PropFail(c.Op+":"+c.Class, what+" input="+strings.Join(c.Args, " "), c)
}
func (x *ctx) tie(c Case, what string) {
	x.r.TieFail(c.Op+":"+c.Class, what+" input="+strings.Join(c.Args, " "), c)
}

func bytesArgs(c Case) [][]byte {
	out := make([][]byte, len(c.Args))
	for i, a := range c.Args {
		out[i] = unhx(a)
	}
	return out
}

// runCase evaluates one case with all parties. o may be nil (real vs ref only).
func (x *ctx) runCase(c Case, o *vlib.Oracle) {
	r := x.r
	a := bytesArgs(c)
	key := c.Op + "|" + strings.Join(c.Args, "|")
	useOracle := c.Oracle && o != nil
	if c.Op != "legacy" {
		countShare(c.Op, useOracle)
	}
	switch c.Op {
	case "ecdsa": // pk sig msg
		var real bool
		p := guard(func() { real = btc.EcdsaVerify(a[0], a[1], a[2]) })
		ref := refEcdsaVerify(a[0], a[1], a[2])
		r.Eval("ecdsa/"+c.Class, key)
		r.Hit("ecdsa real=" + boolStr(real) + " ref=" + boolStr(ref))
		if p != "" {
			x.prop(c, "btc.EcdsaVerify panicked: "+p)
			return
		}
		if real != ref {
			x.prop(c, fmt.Sprintf("btc.EcdsaVerify=%v but the ECDSA acceptance predicate (strict key, r,s in [1,n-1], equation) is %v", real, ref))
		}
		if useOracle {
			rep := strings.Fields(o.MustAsk("ecdsa " + strings.Join(c.Args, " ")))
			if len(rep) != 3 {
				x.tie(c, "oracle reply "+strings.Join(rep, " "))
				return
			}
			code := secpCode(a[0], a[1], a[2])
			if rep[0] != boolStr(real) || (len(a[0]) > 0 && len(a[1]) > 0 && rep[1] != fmt.Sprint(code)) {
				x.tie(c, fmt.Sprintf("model ecdsaVerify=%s code=%s, real=%v code=%d", rep[0], rep[1], real, code))
			} else {
				r.TieOK()
			}
			if rep[0] != rep[2] {
				x.tie(c, "theorem ecdsa_accept_iff contradicted: model="+rep[0]+" spec="+rep[2])
			}
			r.Hit("ecdsa code=" + rep[1])
		}
	case "pub": // pk
		var q secp256k1.XY
		var ok bool
		p := guard(func() { ok = q.ParsePubkey(a[0]) })
		ref := refParsePubkey(a[0])
		r.Eval("pub/"+c.Class, key)
		r.Hit("pub real=" + boolStr(ok) + " ref=" + boolStr(ref != nil))
		if p != "" {
			x.prop(c, "ParsePubkey panicked: "+p)
			return
		}
		realS := "none"
		if ok {
			q.X.Normalize()
			q.Y.Normalize()
			var xb, yb [32]byte
			q.X.GetB32(xb[:])
			q.Y.GetB32(yb[:])
			realS = hex.EncodeToString(xb[:]) + " " + hex.EncodeToString(yb[:])
		}
		refS := "none"
		if ref != nil {
			refS = hex.EncodeToString(be32(ref.x)) + " " + hex.EncodeToString(be32(ref.y))
		}
		if realS != refS {
			x.prop(c, "ParsePubkey gives "+realS+" but strict SEC1 parsing gives "+refS)
		}
		if useOracle {
			rep := o.MustAsk("pub " + c.Args[0])
			want := "m " + realS + " ; s " + refS
			if rep != want {
				parts := strings.Split(rep, " ; ")
				if len(parts) == 2 && parts[0] == "m "+realS {
					x.tie(c, "theorem parsePubkey_eq_spec contradicted: "+rep)
				} else {
					x.tie(c, "model parsePubkey: "+rep+" real: "+realS)
				}
			} else {
				r.TieOK()
			}
		}
	case "psig": // sig
		var s secp256k1.Signature
		var n int
		p := guard(func() { n = s.ParseBytes(a[0]) })
		r.Eval("psig/"+c.Class, key)
		if p != "" {
			x.prop(c, "Signature.ParseBytes panicked: "+p)
			return
		}
		rr, ss, rok := refParseSigLax(a[0])
		if (n >= 0) != rok || (rok && (rr.Cmp(&s.R.Int) != 0 || ss.Cmp(&s.S.Int) != 0)) {
			x.prop(c, fmt.Sprintf("Signature.ParseBytes=%d differs from the documented container format (ok=%v)", n, rok))
		}
		r.Hit("psig ok=" + boolStr(n >= 0))
		if useOracle {
			rep := o.MustAsk("psig " + c.Args[0])
			want := "m none ; s none"
			if n >= 0 {
				want = fmt.Sprintf("m %s %s %d ; s %s %s", numHex(&s.R.Int), numHex(&s.S.Int), n, numHex(&s.R.Int), numHex(&s.S.Int))
			}
			parts := strings.Split(rep, " ; ")
			if len(parts) != 3 || parts[0]+" ; "+parts[1] != want {
				x.tie(c, "model parseBytes: "+rep+" real: "+want)
			} else {
				r.TieOK()
				if (parts[2] == "1") != refIsStrictDER(a[0]) {
					x.tie(c, "Spec.isStrictDER="+parts[2]+" differs from the BIP66 reference")
				}
				if parts[2] == "1" && n < 0 {
					x.prop(c, "a strict-DER (BIP66) signature is refused by ParseBytes")
				}
			}
		}
	case "schnorr": // pk sig msg
		var real bool
		p := guard(func() { real = btc.SchnorrVerify(a[0], a[1], a[2]) })
		ref := refSchnorrVerify(a[0], a[1], a[2])
		r.Eval("schnorr/"+c.Class, key)
		r.Hit("schnorr real=" + boolStr(real) + " ref=" + boolStr(ref))
		if p != "" {
			x.prop(c, "btc.SchnorrVerify panicked: "+p)
			return
		}
		if real != ref {
			x.prop(c, fmt.Sprintf("btc.SchnorrVerify=%v but BIP340 verification is %v", real, ref))
		}
		x.mirrorCheck(c, a[0], a[1], a[2], real)
		if useOracle {
			rep := strings.Fields(o.MustAsk("schnorr " + strings.Join(c.Args, " ")))
			if len(rep) != 3 || rep[0] != boolStr(real) {
				x.tie(c, "model schnorrVerify="+strings.Join(rep, " ")+" real="+boolStr(real))
			} else {
				r.TieOK()
			}
			if len(rep) == 3 && rep[0] != rep[1] {
				x.tie(c, "theorem schnorr_accept_iff contradicted: model="+rep[0]+" spec="+rep[1])
			}
			if len(rep) == 3 && rep[1] != rep[2] {
				x.tie(c, "Spec.Bip340.verify="+rep[1]+" but the BIP-text form verifyText="+rep[2]+" (theorem schnorr_accept_text_partial: would exhibit a curve point whose order does not divide n)")
			}
		}
	case "tweak": // qx base hash parity(00|01)
		par := len(a[3]) > 0 && a[3][0] == 1
		var real bool
		p := guard(func() { real = btc.CheckPayToContract(a[0], a[1], a[2], par) })
		ref := refTapTweakCheck(a[0], a[1], a[2], par)
		r.Eval("tweak/"+c.Class, key)
		r.Hit("tweak real=" + boolStr(real) + " ref=" + boolStr(ref))
		if p != "" {
			x.prop(c, "btc.CheckPayToContract panicked: "+p)
			return
		}
		if real != ref {
			x.prop(c, fmt.Sprintf("btc.CheckPayToContract=%v but the BIP341 tweak check is %v", real, ref))
		}
		if useOracle {
			rep := strings.Fields(o.MustAsk(fmt.Sprintf("tweak %s %s %s %s", c.Args[0], c.Args[1], c.Args[2], boolStr(par))))
			if len(rep) != 2 || rep[0] != boolStr(real) {
				x.tie(c, "model checkPayToContract="+strings.Join(rep, " ")+" real="+boolStr(real))
			} else {
				r.TieOK()
			}
			if len(rep) == 2 && rep[0] != rep[1] {
				x.tie(c, "theorem tweak_accept_iff contradicted: model="+rep[0]+" spec="+rep[1])
			}
		}
	case "sign": // sec msg nonce   (Signature.Sign with an explicit nonce in [1,n-1])
		x.runSign(c, a, o, useOracle, key)
	case "signrfc": // priv hash
		x.runSignRfc(c, a, o, useOracle, key)
	case "signrnd": // priv hash
		x.runSignRnd(c, a, o, useOracle, key)
	case "ssign": // msg sk aux
		var real []byte
		p := guard(func() { real = secp256k1.SchnorrSign(a[0], a[1], a[2]) })
		ref := refSchnorrSign(a[0], a[1], a[2])
		r.Eval("ssign/"+c.Class, key)
		if p != "" {
			x.prop(c, "SchnorrSign panicked: "+p)
			return
		}
		if !bytes.Equal(real, ref) {
			x.prop(c, "SchnorrSign="+hx(real)+" but BIP340 signing gives "+hx(ref))
		}
		if real != nil {
			P := refMul(new(big.Int).SetBytes(a[1]), refG())
			if !refSchnorrVerify(be32(P.x), real, a[0]) {
				x.prop(c, "SchnorrSign output does not verify under BIP340")
			}
			if !btc.SchnorrVerify(be32(P.x), real, a[0]) {
				x.prop(c, "SchnorrSign output is refused by btc.SchnorrVerify")
			}
		}
		r.Hit("ssign nil=" + boolStr(real == nil))
		if len(a[1]) != 32 {
			r.Hit(fmt.Sprintf("ssign key-length-not-32 (%s) nil=%s", lenClass(len(a[1])), boolStr(real == nil)))
		}
		if useOracle {
			rep := strings.Fields(o.MustAsk("ssign " + strings.Join(c.Args, " ")))
			want := "none"
			if real != nil {
				want = hex.EncodeToString(real)
			}
			if len(rep) != 4 || rep[1] != want {
				x.tie(c, "model schnorrSign="+strings.Join(rep, " ")+" real="+want)
			} else {
				r.TieOK()
			}
			// Spec.Bip340.sign reads a key of any length as an integer; the theorem (and BIP340) is for 32 bytes.
			// For every other length the model says nil (theorem schnorr_sign_key_length) = the real code, above.
			if len(rep) == 4 && len(a[1]) == 32 && rep[1] != rep[3] {
				x.tie(c, "theorem bip340_sign_matches contradicted: model="+rep[1]+" spec="+rep[3])
			}
			if len(rep) == 4 && len(a[1]) != 32 && rep[1] != "none" {
				x.tie(c, "theorem schnorr_sign_key_length contradicted: model="+rep[1]+" for a key of "+fmt.Sprint(len(a[1]))+" bytes")
			}
		}
	case "nonce": // prv msg counter(1 byte)
		cnt := 0
		if len(a[2]) > 0 {
			cnt = int(a[2][0])
		}
		var out [32]byte
		p := guard(func() { btc.RFC6979_Nonce(a[0], a[1], nil, nil, cnt, out[:]) })
		r.Eval("nonce/"+c.Class, key)
		if p != "" {
			x.prop(c, "RFC6979_Nonce panicked: "+p)
			return
		}
		if len(a[0]) == 32 && len(a[1]) == 32 {
			ref := refRFC6979(a[0], a[1], cnt)
			if !bytes.Equal(ref, out[:]) {
				x.prop(c, "RFC6979_Nonce="+hx(out[:])+" but RFC 6979 §3.2 (libsecp256k1 variant: h1 = the 32 hash bytes, unreduced) gives "+hx(ref))
			}
			if cnt == 0 {
				x.noteHashGeN("nonce", a[0], a[1], out[:])
			}
		}
		if useOracle {
			rep := strings.Fields(o.MustAsk(fmt.Sprintf("nonce %s %s %d", c.Args[0], c.Args[1], cnt)))
			if len(rep) != 2 || rep[0] != hex.EncodeToString(out[:]) {
				x.tie(c, "model rfc6979Nonce="+strings.Join(rep, " ")+" real="+hx(out[:]))
			} else {
				r.TieOK()
			}
			if len(rep) == 2 && len(a[0]) == 32 && len(a[1]) == 32 && rep[0] != rep[1] {
				x.tie(c, "theorem rfc6979_matches contradicted: model="+rep[0]+" spec="+rep[1])
			}
		}
	case "hmac": // key data
		var out [32]byte
		p := guard(func() {
			h := btc.HMAC_Init(a[0])
			h.Write(a[1])
			h.Finalize(out[:])
		})
		r.Eval("hmac/"+c.Class, key)
		if p != "" {
			x.prop(c, "HMAC panicked: "+p)
			return
		}
		std := refHmac(a[0], a[1])
		if len(a[0]) == 64 {
			// btc.HMAC_Init hashes a key of exactly 64 bytes (RFC 2104 hashes only longer keys).
			// RFC 6979 never uses such a key (K is always 32 bytes); recorded as an observation.
			r.Hit("hmac key64 deviates=" + boolStr(!bytes.Equal(std, out[:])))
		} else if !bytes.Equal(std, out[:]) {
			x.prop(c, "HMAC_SHA256="+hx(out[:])+" but RFC 2104 gives "+hx(std))
		}
		if useOracle {
			rep := strings.Fields(o.MustAsk("hmac " + strings.Join(c.Args, " ")))
			if len(rep) != 2 || rep[0] != hex.EncodeToString(out[:]) {
				x.tie(c, "model hmacGo="+strings.Join(rep, " ")+" real="+hx(out[:]))
			} else {
				r.TieOK()
			}
			if len(rep) == 2 && rep[1] != hex.EncodeToString(std) {
				x.tie(c, "Lean RFC 2104 HMAC differs from crypto/hmac")
			}
		}
	case "recov": // r s msg recid(1 byte)
		x.runRecov(c, a, o, useOracle, key)
	case "noncevec": // prv msg counter(1 byte) expected-nonce   (external vector)
		x.runNonceVec(c, a, o, useOracle, key)
	case "schnorre": // pk sig e32   (SchnorrVerify's steps with an injected challenge)
		x.runSchnorrE(c, a, o, useOracle, key)
	case "ecmneg": // A mag ng   (XYZ.ECmult with na = -mag)
		x.runEcmNeg(c, a, o, useOracle, key)
	case "tweakadd": // A t   (XY.ECPublicTweakAdd against A + t·G, incl. sums at infinity)
		x.runTweakAdd(c, a, o, useOracle, key)
	case "hist": // flag key hash step...   (a history of library calls; hist.go)
		x.runHist(c, a, o, useOracle, key)
	case "legacy": // op-name + args: a witness of a repaired defect; the current code must refuse it
		x.runLegacy(c, o, key)
	default:
		fmt.Fprintln(os.Stderr, "unknown op", c.Op)
		os.Exit(2)
	}
}

func lenClass(n int) string {
	switch {
	case n == 0:
		return "empty"
	case n < 32:
		return "shorter"
	default:
		return "longer"
	}
}

func numHex(v *big.Int) string {
	b := v.Bytes()
	if len(b) == 0 {
		b = []byte{0}
	}
	return hex.EncodeToString(b)
}

// secpCode re-computes the return code of secp256k1.ecdsa_verify from exported pieces.
func secpCode(pk, sig, msg []byte) int {
	var q secp256k1.XY
	var s secp256k1.Signature
	var m secp256k1.Number
	code := 0
	guard(func() {
		m.SetBytes(msg)
		if !q.ParsePubkey(pk) {
			code = -1
			return
		}
		if s.ParseBytes(sig) < 0 {
			code = -2
			return
		}
		if s.Verify(&q, &m) {
			code = 1
		}
	})
	return code
}

// checkOwnSig: the properties every ECDSA signature produced by the library must have.
func (x *ctx) checkOwnSig(c Case, d *big.Int, msg []byte, r, s *big.Int, recid int, haveRecid bool) {
	pub := refMul(new(big.Int).Mod(d, refN), refG())
	if pub == nil {
		// key = 0 mod n: there is no public key to verify against; outside the property's quantifier (the
		// generators never draw it) — recorded, not silently dropped
		x.r.Hit("own-signature checks skipped: secret key = 0 mod n")
		return
	}
	sig := secp256k1.Signature{}
	sig.R.Set(r)
	sig.S.Set(s)
	var der []byte
	if p := guard(func() { der = sig.Bytes() }); p != "" {
		x.prop(c, "Signature.Bytes panicked on the signer's own output: "+p)
		return
	}
	if !refIsStrictDER(der) {
		x.prop(c, "own signature is not canonical DER: "+hx(der))
	}
	half := new(big.Int).Rsh(refN, 1)
	if s.Cmp(half) > 0 {
		x.prop(c, "own signature has high S")
	}
	bs := btc.Signature{Signature: sig}
	if !bs.IsLowS() {
		x.prop(c, "IsLowS false for own signature")
	}
	pk33 := append([]byte{byte(2 + pub.y.Bit(0))}, be32(pub.x)...)
	if !refEcdsaVerify(pk33, der, msg) {
		x.prop(c, "own signature does not verify under the ECDSA predicate")
	}
	if !btc.EcdsaVerify(pk33, der, msg) {
		x.prop(c, "own signature is refused by btc.EcdsaVerify")
	}
	// recovery: with the recid reported by Sign, or (EcdsaSign reports none) with the unique matching one
	found := false
	for id := 0; id < 4; id++ {
		if haveRecid && id != recid {
			continue
		}
		var k *btc.PublicKey
		guard(func() { k = bs.RecoverPublicKey(msg, id) })
		if k == nil {
			continue
		}
		k.X.Normalize()
		k.Y.Normalize()
		var xb, yb [32]byte
		k.X.GetB32(xb[:])
		k.Y.GetB32(yb[:])
		if bytes.Equal(xb[:], be32(pub.x)) && bytes.Equal(yb[:], be32(pub.y)) {
			found = true
		}
	}
	if !found {
		x.prop(c, "public-key recovery does not return the signer's key")
	}
}

func (x *ctx) runSign(c Case, a [][]byte, o *vlib.Oracle, useOracle bool, key string) {
	r := x.r
	var sec, msg, non secp256k1.Number
	sec.SetBytes(a[0])
	msg.SetBytes(a[1])
	non.SetBytes(a[2])
	var sig secp256k1.Signature
	var recid, res int
	p := guard(func() { res = sig.Sign(&sec, &msg, &non, &recid) })
	r.Eval("sign/"+c.Class, key)
	if p != "" {
		x.prop(c, "Signature.Sign panicked: "+p)
		return
	}
	r.Hit(fmt.Sprintf("sign res=%d recid=%d", res, recid))
	{
		// the reference decides whether a signature exists: S = k^-1 (m + r d) mod n is 0 exactly when Sign must
		// return 0 (class sign/s-zero builds such inputs); any other disagreement is a property failure
		d := new(big.Int).Mod(&sec.Int, refN)
		_, rs := refEcdsaSignWithNonce(d, &msg.Int, &non.Int)
		if (rs.Sign() == 0) != (res != 1) {
			x.prop(c, fmt.Sprintf("Signature.Sign returned %d but textbook ECDSA gives S = %s (a signature exists exactly when S != 0)", res, rs.Text(16)))
		}
		if res != 1 {
			r.Hit("sign refused: S = 0")
		}
	}
	if res == 1 {
		x.checkOwnSig(c, &sec.Int, a[1], &sig.R.Int, &sig.S.Int, recid, true)
		rr, rs := refEcdsaSignWithNonce(new(big.Int).Mod(&sec.Int, refN), &msg.Int, &non.Int)
		if rr.Cmp(&sig.R.Int) != 0 || rs.Cmp(&sig.S.Int) != 0 {
			x.prop(c, "Signature.Sign differs from textbook ECDSA with low-S normalisation")
		}
	}
	if useOracle {
		rep := strings.Fields(o.MustAsk("sign " + strings.Join(c.Args, " ")))
		want := "none"
		if res == 1 {
			var der []byte
			guard(func() { der = sig.Bytes() })
			want = fmt.Sprintf("ok %s %s %d %s", hex.EncodeToString(be32(&sig.R.Int)), hex.EncodeToString(be32(&sig.S.Int)), recid, hx(der))
		}
		got := strings.Join(rep, " ")
		if len(rep) >= 5 {
			got = strings.Join(rep[:5], " ")
		}
		if got != want {
			x.tie(c, "model sign="+strings.Join(rep, " ")+" real="+want)
		} else {
			r.TieOK()
			if len(rep) == 7 && (rep[5] != "1" || rep[6] != "1") {
				x.tie(c, "theorem sign_canonical contradicted: strict="+rep[5]+" lowS="+rep[6])
			}
		}
		if res == 1 {
			// recovery in the model
			rep2 := o.MustAsk(fmt.Sprintf("recover %s %s %s %d", numHex(&sig.R.Int), numHex(&sig.S.Int), c.Args[1], recid))
			pub := refMul(new(big.Int).Mod(&sec.Int, refN), refG())
			want2 := "ok " + hex.EncodeToString(be32(pub.x)) + " " + hex.EncodeToString(be32(pub.y))
			if rep2 != want2 {
				x.tie(c, "model recover="+rep2+" expected signer key "+want2)
			} else {
				r.TieOK()
			}
		}
	}
}

var signMu sync.Mutex // btc.EcdsaSignWithRFC6979 is a package-level switch

func (x *ctx) runSignRfc(c Case, a [][]byte, o *vlib.Oracle, useOracle bool, key string) {
	r := x.r
	var rr, ss *big.Int
	var err error
	signMu.Lock()
	btc.EcdsaSignWithRFC6979 = true
	p := guard(func() { rr, ss, err = btc.EcdsaSign(a[0], a[1]) })
	signMu.Unlock()
	r.Eval("signrfc/"+c.Class, key)
	if p != "" {
		x.prop(c, "EcdsaSign(RFC6979) panicked: "+p)
		return
	}
	if err != nil {
		// EcdsaSign's only error is Signature.Sign returning 0 (S = 0). Judge it: the reference must agree that
		// no signature exists for the RFC 6979 nonce, and the model must say `none` as well.
		r.Hit("signrfc error")
		dd := new(big.Int).Mod(new(big.Int).SetBytes(a[0]), refN)
		kk := new(big.Int).SetBytes(refRFC6979(a[0], a[1], 0))
		expect := false
		if len(a[0]) == 32 && len(a[1]) == 32 && kk.Sign() > 0 && kk.Cmp(refN) < 0 {
			_, es := refEcdsaSignWithNonce(dd, new(big.Int).SetBytes(a[1]), kk)
			expect = es.Sign() == 0
		}
		if !expect {
			x.prop(c, "EcdsaSign(RFC6979) returned the error '"+err.Error()+"' although the RFC 6979 reference signature exists")
		}
		if useOracle {
			if rep := o.MustAsk("signrfc " + strings.Join(c.Args, " ")); rep != "none" {
				x.tie(c, "model ecdsaSignRfc="+rep+" but the real EcdsaSign returned an error")
			} else {
				r.TieOK()
			}
		}
		return
	}
	d := new(big.Int).SetBytes(a[0])
	x.checkOwnSig(c, d, a[1], rr, ss, 0, false)
	x.noteHashGeN("signrfc", a[0], a[1], nil)
	if len(a[0]) == 32 && len(a[1]) == 32 {
		k := new(big.Int).SetBytes(refRFC6979(a[0], a[1], 0))
		if k.Sign() > 0 && k.Cmp(refN) < 0 {
			er, es := refEcdsaSignWithNonce(new(big.Int).Mod(d, refN), new(big.Int).SetBytes(a[1]), k)
			if er.Cmp(rr) != 0 || es.Cmp(ss) != 0 {
				x.prop(c, "EcdsaSign(RFC6979) differs from the RFC 6979 reference signature")
			}
		}
	}
	if useOracle {
		rep := strings.Fields(o.MustAsk("signrfc " + strings.Join(c.Args, " ")))
		if len(rep) != 4 || rep[1] != hex.EncodeToString(be32(rr)) || rep[2] != hex.EncodeToString(be32(ss)) {
			x.tie(c, "model ecdsaSignRfc="+strings.Join(rep, " ")+" real="+hx(be32(rr))+" "+hx(be32(ss)))
		} else {
			r.TieOK()
		}
	}
}

func (x *ctx) runSignRnd(c Case, a [][]byte, o *vlib.Oracle, useOracle bool, key string) {
	r := x.r
	var rr, ss *big.Int
	var err error
	signMu.Lock()
	btc.EcdsaSignWithRFC6979 = false
	p := guard(func() { rr, ss, err = btc.EcdsaSign(a[0], a[1]) })
	signMu.Unlock()
	r.Eval("signrnd/"+c.Class, key)
	if p != "" {
		x.prop(c, "EcdsaSign(random nonce) panicked: "+p)
		return
	}
	if err != nil {
		// the nonce is drawn inside the code; an error means S = 0 for that nonce (probability 2^-256 per call):
		// not explainable by any input the generator controls -> the signer failed on an ordinary input
		r.Hit("signrnd error")
		x.prop(c, "EcdsaSign(random nonce) returned the error '"+err.Error()+"' on an ordinary (key, hash)")
		return
	}
	d := new(big.Int).Mod(new(big.Int).SetBytes(a[0]), refN)
	x.checkOwnSig(c, d, a[1], rr, ss, 0, false)
	if useOracle {
		// the nonce is crypto/rand inside the code; derive it from the output: k = ±(m + r d)/s
		m := new(big.Int).SetBytes(a[1])
		k := new(big.Int).Mul(rr, d)
		k.Add(k, m)
		k.Mul(k, new(big.Int).ModInverse(ss, refN))
		k.Mod(k, refN)
		ok := false
		for i := 0; i < 2 && !ok; i++ {
			rep := strings.Fields(o.MustAsk(fmt.Sprintf("sign %s %s %s", c.Args[0], c.Args[1], hx(be32(k)))))
			if len(rep) >= 3 && rep[1] == hex.EncodeToString(be32(rr)) && rep[2] == hex.EncodeToString(be32(ss)) {
				ok = true
			}
			k.Sub(refN, k)
		}
		if !ok {
			x.tie(c, "model sign cannot reproduce EcdsaSign(random) output with the nonce derived from it")
		} else {
			r.TieOK()
		}
	}
}

// runLegacy: Args[0] = ecdsa|schnorr|tweak, then that op's arguments. These are the witnesses of the
// defects repaired by the fix: commits (and used by the Lean counterexample theorems). The current code
// and the reference must refuse them; the LEGACY model's verdict is recorded in the histogram.
func (x *ctx) runLegacy(c Case, o *vlib.Oracle, key string) {
	sub := Case{Op: c.Args[0], Args: c.Args[1:], Class: c.Class, Oracle: c.Oracle}
	x.runCase(sub, o)
	if o != nil && c.Oracle {
		args := append([]string{}, c.Args...)
		if args[0] == "tweak" {
			args[4] = boolStr(args[4] == "01")
		}
		rep := o.MustAsk("legacy " + strings.Join(args, " "))
		x.r.Hit("legacy-model " + c.Class + " -> " + rep)
		if w, ok := legacyExpect[c.Class]; ok && rep != w {
			x.tie(c, "legacy model verdict "+rep+" differs from the one proved in Props/C03.lean ("+w+")")
		}
	}
}

// verdicts of the legacy model that Props/C03.lean proves (counterexample theorems)
var legacyExpect = map[string]string{
	"s-plus-n":          "1",
	"pk-x-plus-p":       "1",
	"tweak-nonliftable": "1",
	"tweak-t-plus-n":    "1",
	"schnorr-s-plus-n":  "1",
	"recov-infinity":    "inf",
	"ssign-short-key":   "panic",
}

func refHmac(key, data []byte) []byte {
	return refHmacImpl(key, data)
}

// ---------------------------------------------------------------- main

func main() {
	r := vlib.NewRun("C03")
	x := &ctx{r: r}
	r.Assume = []string{
		"XYZ.ECmult / ECmultGen / Field.Sqrt / Number.mod_inv are abstracted in the model as the mathematical operations on Base/Secp (limb and Jacobian arithmetic is property C08); the abstraction is exercised by every oracle comparison here",
		"SHA-256 is a parameter of the model and of the theorems (instantiated with the Lean SHA-256 in the oracle)",
		"the reference group Base/Secp is the group the specs are written in; its group law is PROVED (Props.C03.reference_curve_group_law: Secp.add = addition of Mathlib's WeierstrassCurve.Affine.Point over ZMod p, p and n prime by Pratt certificates)",
		"Sign does not refuse R = 0 mod n (needs a nonce k with x(kG) = n: a discrete logarithm); sign_verify / sign_canonical / recover_sign carry the hypothesis R != 0",
		"crypto/rand inside EcdsaSign (random-nonce mode) is not controlled: the nonce is derived from the output",
		"the hooks btc.EC_Verify, btc.Schnorr_Verify, btc.Check_PayToContract (lib/btc/ecdsa.go) are nil: model, theorems and tie are for the pure-Go path; client/speedups/*.go sets them to libsecp256k1 cgo wrappers which then REPLACE all three verify observables — not covered",
		"only the platform's lib/secp256k1 field implementation is run (field_5x52.go on amd64); the field_10x26.go build selected by build tag is not exercised",
		"RFC 6979 means libsecp256k1's variant of §3.2: h1 = the 32 message-hash bytes fed to HMAC unreduced (no bits2octets); external vectors exist only for hash < n (lib/btc/hash_test.go), for hash >= n only code = model = reference-of-the-variant is checked",
		"BIP340 'fail if r >= p' cannot be discriminated by any input on the real btc.SchnorrVerify (a signature with r = x(R)+p needs a nonce point with x(R) < 2^32+977 for a key satisfying a hash equation): it rests on the model theorem schnorr_refuses_r_ge_p, on the source fact regenerated by go/cmd/gen_c03 (the Field loaded from sig[:32] is only ever compared with Equals, never normalised; theorem schnorr_sig_r_compared_raw) and on the re-assembled steps with an injected challenge (class schnorre/*-r-plus-p)",
		"Spec.Bip340.verify writes -e*P as ((n-e) mod n)*P (the code's shape); it equals BIP340's own -(e*P) (Spec.Bip340.verifyText, the form the math/big reference uses) for keys whose lifted point has order dividing n - for all keys only given #E(F_p) = n, which is not proved (schnorr_accept_text_partial); the oracle evaluates both forms on every schnorr / schnorre case",
		"the specs read hash / message arguments of any length as integers, as the code does (CheckPayToContract accepts a 33-byte 00||t as t; callers pass 32-byte tagged hashes)",
		"btc.SchnorrVerify with a challenge e > n (XYZ.ECmult gets the NEGATIVE scalar n-e; probability about 2^-128 per verification) cannot be driven through SchnorrsigChallenge (plain func over SHA-256); it is exercised through SchnorrVerify's own steps with an injected challenge (ops schnorre, ecmneg) and the mirror is checked against btc.SchnorrVerify on every schnorr case; that the real SchnorrVerify composes these steps the same way for e > n is assumed",
	}
	if r.Replay != "" {
		b, err := os.ReadFile(r.Replay)
		if err != nil {
			fmt.Fprintln(os.Stderr, err)
			os.Exit(2)
		}
		var doc struct {
			Replay Case `json:"replay"`
		}
		if json.Unmarshal(b, &doc) != nil || doc.Replay.Op == "" {
			fmt.Fprintln(os.Stderr, "replay file has no case (a proof-level violation has no input to replay)")
			os.Exit(2)
		}
		o, err := vlib.StartOracle("c03")
		if err != nil {
			fmt.Fprintln(os.Stderr, err)
			os.Exit(3)
		}
		doc.Replay.Oracle = true
		x.runCase(doc.Replay, o)
		o.Close()
		r.Finish("replay of one recorded case", "replay")
		return
	}

	var cases []Case
	cases = append(cases, corpusCases()...)
	cases = append(cases, repoVectorCases()...)
	ncorpus := len(cases)
	g := r.Rng
	tables := newGen(g)
	// Work is cut into shards; every shard owns a PRNG forked (in a fixed order) from the one seeded
	// PRNG, generates its cases and runs them, so the run is deterministic and generation is parallel.
	type shard struct {
		kind   string
		oracle bool
		n      int
		rng    *vlib.Rng
	}
	var shards []shard
	add := func(kind string, oracle bool, total, chunk int) {
		for off := 0; off < total; off += chunk {
			n := chunk
			if total-off < n {
				n = total - off
			}
			shards = append(shards, shard{kind, oracle, n, g.Fork()})
		}
	}
	// oracle-checked (expensive: the Lean reference does ≈40 ms per scalar multiplication, so the cost is the
	// Lean EC arithmetic itself — batching requests per line would not help); the share that goes through the
	// Lean model is reported per op in the evidence (model_tie_share)
	add("ecdsa", true, r.N(180, 4000), 10)
	add("schnorr", true, r.N(120, 3000), 10)
	add("tweak", true, r.N(120, 2000), 10)
	add("sign", true, r.N(24, 400), 4)
	add("signrfc", true, r.N(20, 200), 5)
	add("signrnd", true, r.N(6, 100), 3)
	add("ssign", true, r.N(16, 200), 2)
	add("pub", true, r.N(200, 5000), 50)
	add("psig", true, r.N(800, 15000), 200)
	add("nonce", true, r.N(60, 600), 20)
	add("hmac", true, r.N(60, 600), 20)
	add("recov", true, r.N(40, 500), 4)
	add("schnorre", true, r.N(48, 600), 8)
	add("ecmneg", true, r.N(48, 600), 8)
	add("tweakadd", true, r.N(24, 400), 8)
	// real vs reference only (cheap): the property's own predicate on many more inputs
	add("ecdsa", false, r.N(2000, 30000), 250)
	add("schnorr", false, r.N(1200, 20000), 200)
	add("tweak", false, r.N(1200, 20000), 200)
	add("sign", false, r.N(100, 3000), 50)
	add("signrfc", false, r.N(100, 1500), 50)
	add("signrnd", false, r.N(100, 1500), 50)
	add("ssign", false, r.N(100, 1500), 50)
	add("recov", false, r.N(600, 10000), 100)
	add("schnorre", false, r.N(600, 20000), 100)
	add("ecmneg", false, r.N(600, 20000), 100)
	add("tweakadd", false, r.N(600, 10000), 100)
	add("hist", false, r.N(400, 6000), 20)
	// sweeps (sweep.go): long incremental runs of valid inputs + their minimal invalid sibling, for defects
	// that need 10^4..10^5 inputs to show (un-normalised field elements read by IsOdd/Equals)
	add("sweep-tweak", false, r.N(120000, 1500000), 4000)
	add("sweep-ecdsa", false, r.N(40000, 500000), 2000)
	add("sweep-schnorr", false, r.N(60000, 800000), 3000)
	for i := 0; i < 6 && i < len(cases); i++ {
		r.Sample(cases[(i*7)%len(cases)])
	}
	sg := tables.with(g.Fork())
	for _, k := range []string{"ecdsa", "schnorr", "tweak", "sign", "ssign", "psig"} {
		r.Sample(sg.make(k, true))
	}

	workers := 12
	if r.Thorough() {
		workers = 15
	}
	type work struct {
		c  *Case
		sh *shard
	}
	ch := make(chan work, 256)
	var wg sync.WaitGroup
	for w := 0; w < workers; w++ {
		o, err := vlib.StartOracle("c03")
		if err != nil {
			fmt.Fprintln(os.Stderr, "cannot start oracle:", err)
			os.Exit(3)
		}
		wg.Add(1)
		go func(o *vlib.Oracle) {
			defer wg.Done()
			for wk := range ch {
				if wk.c != nil {
					x.runCase(*wk.c, o)
					continue
				}
				ge := tables.with(wk.sh.rng)
				if strings.HasPrefix(wk.sh.kind, "sweep-") {
					x.sweep(wk.sh.kind, wk.sh.n, wk.sh.rng, ge)
					continue
				}
				for i := 0; i < wk.sh.n; i++ {
					x.runCase(ge.make(wk.sh.kind, wk.sh.oracle), o)
				}
			}
			o.Close()
		}(o)
	}
	for i := range cases {
		ch <- work{c: &cases[i]}
	}
	for i := range shards {
		ch <- work{sh: &shards[i]}
	}
	close(ch)
	wg.Wait()
	r.Extra["corpus_cases"] = ncorpus
	r.Extra["oracle_workers"] = workers
	r.Extra["model_tie_share"] = shareReport()
	r.Extra["hist_steps"] = histClasses
	r.Finish(
		"corpus (defect witnesses, boundary scalars, BIP340 CSV rows, RFC6979/HMAC and signature vectors from the repo's tests) then a structured generator: valid triples from random keys in all key formats, then one mutation per case (bit flips, r/s in {0,n,n+k,p,2^256-1,s+n,n-s}, 33-byte and padded integers, DER container damage, x>=p, y>=p, non-residue x, off-curve, hybrid parity, wrong lengths, infinity results, own-arithmetic forgeries, algebraic triples with small s offered as s+n < 2^256, triples solved for a chosen nonce point with n <= x(R) < p (r = x-n) and their unreduced / negated-key / high-S / bit-flipped siblings, twin nonce points x and x+n sharing one r, public-key recovery on arbitrary (r, s, hash, recid) with the recovered triple offered back to the verifier, signing inputs solved for short R / short S with the top bit set, signing inputs solved for S = 0 (message value -r*d: Signature.Sign must return 0) with the neighbour m+1, recovery inputs solved for a result at infinity (R = k*G, m = s*k: nil expected) with the other parity and the neighbouring message, BIP340 signing with secret keys of 0 / 1 / 4 / 31 / 33+ bytes (nil expected), SchnorrVerify's steps on r = x(R)+p for a tiny-x nonce point with the key solved for the injected challenge, RFC6979 nonces for message hashes 0 / n+k / ff..ff, the repository's RFC6979 vectors with their expected outputs (noncevec), SchnorrVerify's steps with an injected challenge e >= n on valid / shifted-by-n / odd-R / bit-flipped signatures (schnorre) and XYZ.ECmult with negative scalars (ecmneg), results at infinity for all three verifiers with the claim ranging over every coordinate an implementation could have left behind (inf.go: operand x, x(G), the double, gocoin's own ECPublicTweakAdd residue, both parities, the finite neighbour) and XY.ECPublicTweakAdd itself against A + t*G incl. sums at infinity (tweakadd), every value+p aliasing class drawing its coordinate from the whole range [0, 2^32+977) (wide.go), histories of library calls after the application configured the nonce scheme once - VerifyKeyPair on matching / mismatching / out-of-range / damaged pairs, verifiers, signers, key functions - with btc.EcdsaSign compared with the configured signer and the package-level configuration compared with its initial value after every step (hist)); then incremental sweeps (sweep.go: valid tweak / ECDSA / BIP340 inputs advanced by one point addition per case, each with its minimal invalid sibling; counted as evaluations with an empty distinct key); distinct = distinct (op, arguments)",
		"real gocoin functions vs an independent math/big reference (property predicate) on every case; a subset also through the Lean model and Lean spec (oracle_c03): real=model is the tie, model=spec is what the iff-theorems state")
}

// repoVectorCases: vectors that ship in the repository's own tests.
func repoVectorCases() []Case {
	var out []Case
	f, err := os.Open(vtrans.RepoRoot() + "/lib/test/bip340_test_vectors.csv")
	if err != nil {
		fmt.Fprintln(os.Stderr, "c03: the repository's BIP340 vectors cannot be read:", err)
		os.Exit(2)
	}
	{
		rows, rerr := csv.NewReader(f).ReadAll()
		f.Close()
		if rerr != nil || len(rows) < 16 {
			fmt.Fprintln(os.Stderr, "c03: lib/test/bip340_test_vectors.csv is damaged or shorter than the 15 BIP340 vectors:", rerr, len(rows))
			os.Exit(2)
		}
		for i, row := range rows {
			if i == 0 {
				continue
			}
			if len(row) < 7 {
				fmt.Fprintln(os.Stderr, "c03: bip340_test_vectors.csv: short row", i)
				os.Exit(2)
			}
			d := func(s string) []byte {
				b, err := hex.DecodeString(s)
				if err != nil {
					fmt.Fprintln(os.Stderr, "c03: bip340_test_vectors.csv: bad hex in row", i)
					os.Exit(2)
				}
				return b
			}
			out = append(out, mk("schnorr", "bip340-csv", true, d(row[2]), d(row[5]), d(row[4])))
			if len(row[1]) == 64 {
				out = append(out, mk("ssign", "bip340-csv", true, d(row[4]), d(row[1]), d(row[3])))
			}
		}
	}
	return out
}
