// Package vtrans is the small Go→Lean translator library behind go/cmd/translate.
// It reads /repo's current sources with go/parser and prints Lean definitions for
//   * integer / string / array constants,
//   * straight-line fixed-width integer code (assignments, +,-,*,&,|,^,<<,>>, conversions,
//     bits.Mul64/Add64) as one `let` per Go assignment.
// It refuses (returns an error for) any statement or expression form it does not know: a
// function it cannot translate is a broken tie, never a silently skipped one.
package vtrans

import (
	"fmt"
	"go/ast"
	"go/parser"
	"go/token"
	"os"
	"strconv"
	"strings"
)

// RepoRoot is the source tree that is translated (VERIF_REPO overrides /repo).
func RepoRoot() string {
	if r := os.Getenv("VERIF_REPO"); r != "" {
		return r
	}
	return "/repo"
}

type File struct {
	Fset *token.FileSet
	AST  *ast.File
	Path string
}

func Parse(rel string) (*File, error) {
	fset := token.NewFileSet()
	p := RepoRoot() + "/" + rel
	f, err := parser.ParseFile(fset, p, nil, parser.ParseComments)
	if err != nil {
		return nil, err
	}
	return &File{fset, f, rel}, nil
}

// Func finds a top-level function (recv == "" for plain functions, else the receiver type name).
func (f *File) Func(recv, name string) (*ast.FuncDecl, error) {
	for _, d := range f.AST.Decls {
		fd, ok := d.(*ast.FuncDecl)
		if !ok || fd.Name.Name != name {
			continue
		}
		r := ""
		if fd.Recv != nil && len(fd.Recv.List) == 1 {
			t := fd.Recv.List[0].Type
			if s, ok := t.(*ast.StarExpr); ok {
				t = s.X
			}
			if id, ok := t.(*ast.Ident); ok {
				r = id.Name
			}
		}
		if r == recv {
			return fd, nil
		}
	}
	return nil, fmt.Errorf("%s: func %s.%s not found", f.Path, recv, name)
}

// ValueSpec finds the initialiser expression of a top-level const or var.
func (f *File) ValueSpec(name string) (ast.Expr, error) {
	for _, d := range f.AST.Decls {
		gd, ok := d.(*ast.GenDecl)
		if !ok {
			continue
		}
		for _, s := range gd.Specs {
			vs, ok := s.(*ast.ValueSpec)
			if !ok {
				continue
			}
			for i, n := range vs.Names {
				if n.Name == name && i < len(vs.Values) {
					return vs.Values[i], nil
				}
			}
		}
	}
	return nil, fmt.Errorf("%s: const/var %s not found", f.Path, name)
}

// IntLit evaluates an integer literal expression (literals, parens, unary minus, and
// + - * << >> | & ^ of such) to a uint64 (wrapping) — enough for the constants of this code base.
func IntLit(e ast.Expr) (uint64, error) {
	switch x := e.(type) {
	case *ast.BasicLit:
		switch x.Kind {
		case token.INT:
			v, err := strconv.ParseUint(strings.ReplaceAll(x.Value, "_", ""), 0, 64)
			return v, err
		case token.CHAR:
			r, _, _, err := strconv.UnquoteChar(x.Value[1:len(x.Value)-1], '\'')
			return uint64(r), err
		}
	case *ast.ParenExpr:
		return IntLit(x.X)
	case *ast.UnaryExpr:
		v, err := IntLit(x.X)
		if err != nil {
			return 0, err
		}
		switch x.Op {
		case token.SUB:
			return -v, nil
		case token.ADD:
			return v, nil
		case token.XOR:
			return ^v, nil
		}
	case *ast.BinaryExpr:
		a, err := IntLit(x.X)
		if err != nil {
			return 0, err
		}
		b, err := IntLit(x.Y)
		if err != nil {
			return 0, err
		}
		switch x.Op {
		case token.ADD:
			return a + b, nil
		case token.SUB:
			return a - b, nil
		case token.MUL:
			return a * b, nil
		case token.QUO:
			if b == 0 {
				return 0, fmt.Errorf("div by zero")
			}
			return a / b, nil
		case token.SHL:
			return a << b, nil
		case token.SHR:
			return a >> b, nil
		case token.OR:
			return a | b, nil
		case token.AND:
			return a & b, nil
		case token.XOR:
			return a ^ b, nil
		}
	case *ast.CallExpr: // conversions like uint32(7)
		if len(x.Args) == 1 {
			if id, ok := x.Fun.(*ast.Ident); ok {
				v, err := IntLit(x.Args[0])
				if err != nil {
					return 0, err
				}
				switch id.Name {
				case "uint64", "int", "int64", "uint":
					return v, nil
				case "uint32", "int32":
					return uint64(uint32(v)), nil
				case "uint16":
					return uint64(uint16(v)), nil
				case "byte", "uint8":
					return uint64(uint8(v)), nil
				}
			}
		}
	}
	return 0, fmt.Errorf("not an integer literal expression: %T", e)
}

// ConstInt returns the value of a top-level integer const/var with a literal initialiser.
func (f *File) ConstInt(name string) (uint64, error) {
	e, err := f.ValueSpec(name)
	if err != nil {
		return 0, err
	}
	return IntLit(e)
}

// ConstString returns a top-level string constant.
func (f *File) ConstString(name string) (string, error) {
	e, err := f.ValueSpec(name)
	if err != nil {
		return "", err
	}
	if c, ok := e.(*ast.CallExpr); ok && len(c.Args) == 1 { // []byte("...")
		e = c.Args[0]
	}
	bl, ok := e.(*ast.BasicLit)
	if !ok || bl.Kind != token.STRING {
		return "", fmt.Errorf("%s: %s is not a string literal", f.Path, name)
	}
	return strconv.Unquote(bl.Value)
}

// ArrayInts returns the elements of a top-level composite literal of integers (flat).
func (f *File) ArrayInts(name string) ([]uint64, error) {
	e, err := f.ValueSpec(name)
	if err != nil {
		return nil, err
	}
	cl, ok := e.(*ast.CompositeLit)
	if !ok {
		return nil, fmt.Errorf("%s: %s is not a composite literal", f.Path, name)
	}
	var out []uint64
	for _, el := range cl.Elts {
		if kv, ok := el.(*ast.KeyValueExpr); ok {
			el = kv.Value
		}
		v, err := IntLit(el)
		if err != nil {
			return nil, err
		}
		out = append(out, v)
	}
	return out, nil
}

// ---------------------------------------------------------------------------------------------
// Straight-line fixed-width integer code → Lean.

// Ty is the fixed-width type of an expression.
type Ty string

const (
	U8  Ty = "UInt8"
	U32 Ty = "UInt32"
	U64 Ty = "UInt64"
)

func tyOf(name string) (Ty, bool) {
	switch name {
	case "uint64":
		return U64, true
	case "uint32":
		return U32, true
	case "byte", "uint8":
		return U8, true
	}
	return "", false
}

// Env maps Go identifiers (and rendered selector/index expressions such as "r.n[0]") to
// (Lean name, type).
type Env struct {
	Vars map[string]Var
	// Ver counts SSA versions of assigned names.
	Ver map[string]int
}

type Var struct {
	Lean string
	Ty   Ty
}

func NewEnv() *Env { return &Env{Vars: map[string]Var{}, Ver: map[string]int{}} }

func (e *Env) Bind(goName, lean string, ty Ty) { e.Vars[goName] = Var{lean, ty} }

// Fresh makes a new SSA version of a Go lvalue and binds it.
func (e *Env) Fresh(goName string, ty Ty) string {
	base := sanitize(goName)
	e.Ver[base]++
	lean := fmt.Sprintf("%s_%d", base, e.Ver[base])
	e.Vars[goName] = Var{lean, ty}
	return lean
}

func sanitize(s string) string {
	r := strings.NewReplacer(".", "_", "[", "", "]", "", "*", "", " ", "")
	return r.Replace(s)
}

// Key renders an lvalue-ish expression (ident, a.b, a[3], a.b[3]) as the Env key.
func Key(x ast.Expr) (string, error) {
	switch v := x.(type) {
	case *ast.Ident:
		return v.Name, nil
	case *ast.SelectorExpr:
		k, err := Key(v.X)
		if err != nil {
			return "", err
		}
		return k + "." + v.Sel.Name, nil
	case *ast.IndexExpr:
		k, err := Key(v.X)
		if err != nil {
			return "", err
		}
		i, err := IntLit(v.Index)
		if err != nil {
			return "", fmt.Errorf("non-constant index")
		}
		return fmt.Sprintf("%s[%d]", k, i), nil
	case *ast.ParenExpr:
		return Key(v.X)
	case *ast.StarExpr:
		return Key(v.X)
	}
	return "", fmt.Errorf("unsupported lvalue %T", x)
}

// Expr translates an expression; want is the type expected by context ("" = infer).
// Untyped constants take the type of the other operand (or want).
func (e *Env) Expr(x ast.Expr, want Ty) (string, Ty, error) {
	switch v := x.(type) {
	case *ast.ParenExpr:
		return e.Expr(v.X, want)
	case *ast.BasicLit:
		n, err := IntLit(v)
		if err != nil {
			return "", "", err
		}
		if want == "" {
			return "", "", fmt.Errorf("untyped constant %s without context", v.Value)
		}
		return fmt.Sprintf("(%d : %s)", n, want), want, nil
	case *ast.Ident, *ast.SelectorExpr, *ast.IndexExpr:
		k, err := Key(v)
		if err != nil {
			return "", "", err
		}
		b, ok := e.Vars[k]
		if !ok {
			return "", "", fmt.Errorf("unknown variable %s", k)
		}
		return b.Lean, b.Ty, nil
	case *ast.UnaryExpr:
		s, t, err := e.Expr(v.X, want)
		if err != nil {
			return "", "", err
		}
		switch v.Op {
		case token.SUB:
			return fmt.Sprintf("(0 - %s)", s), t, nil
		case token.XOR:
			return fmt.Sprintf("(~~~ %s)", s), t, nil
		}
		return "", "", fmt.Errorf("unsupported unary %s", v.Op)
	case *ast.CallExpr:
		if id, ok := v.Fun.(*ast.Ident); ok && len(v.Args) == 1 {
			if to, ok := tyOf(id.Name); ok {
				if _, isLit := stripParen(v.Args[0]).(*ast.BasicLit); isLit {
					return e.Expr(v.Args[0], to)
				}
				s, from, err := e.Expr(v.Args[0], "")
				if err != nil {
					return "", "", err
				}
				if from == to {
					return s, to, nil
				}
				return fmt.Sprintf("(%s.to%s)", s, string(to)), to, nil
			}
			if id.Name == "uint" { // shift counts: keep the operand's own type
				return e.Expr(v.Args[0], want)
			}
		}
		return "", "", fmt.Errorf("unsupported call")
	case *ast.BinaryExpr:
		op := ""
		switch v.Op {
		case token.ADD:
			op = "+"
		case token.SUB:
			op = "-"
		case token.MUL:
			op = "*"
		case token.AND:
			op = "&&&"
		case token.OR:
			op = "|||"
		case token.XOR:
			op = "^^^"
		case token.SHL:
			op = "<<<"
		case token.SHR:
			op = ">>>"
		default:
			return "", "", fmt.Errorf("unsupported binary %s", v.Op)
		}
		if v.Op == token.SHL || v.Op == token.SHR {
			a, t, err := e.Expr(v.X, want)
			if err != nil {
				return "", "", err
			}
			// Go shift counts ≥ width give 0; Lean's <<< reduces the count mod width. Only
			// constant counts below the width are accepted, where both agree.
			n, err := IntLit(v.Y)
			if err != nil {
				return "", "", fmt.Errorf("non-constant shift count")
			}
			w := map[Ty]uint64{U8: 8, U32: 32, U64: 64}[t]
			if n >= w {
				return "", "", fmt.Errorf("shift count %d ≥ width %d", n, w)
			}
			return fmt.Sprintf("(%s %s (%d : %s))", a, op, n, t), t, nil
		}
		_, xLit := stripParen(v.X).(*ast.BasicLit)
		var a, b string
		var ta, tb Ty
		var err error
		if xLit {
			b, tb, err = e.Expr(v.Y, want)
			if err != nil {
				return "", "", err
			}
			a, ta, err = e.Expr(v.X, tb)
		} else {
			a, ta, err = e.Expr(v.X, want)
			if err != nil {
				return "", "", err
			}
			b, tb, err = e.Expr(v.Y, ta)
		}
		if err != nil {
			return "", "", err
		}
		if ta != tb {
			return "", "", fmt.Errorf("type mismatch %s vs %s", ta, tb)
		}
		return fmt.Sprintf("(%s %s %s)", a, op, b), ta, nil
	}
	return "", "", fmt.Errorf("unsupported expression %T", x)
}

func stripParen(x ast.Expr) ast.Expr {
	for {
		p, ok := x.(*ast.ParenExpr)
		if !ok {
			return x
		}
		x = p.X
	}
}

// LeanList prints a list of naturals as a Lean list literal of the given element type.
func LeanList(xs []uint64, ty string, perLine int) string {
	var sb strings.Builder
	sb.WriteString("[")
	for i, x := range xs {
		if i > 0 {
			sb.WriteString(", ")
			if perLine > 0 && i%perLine == 0 {
				sb.WriteString("\n  ")
			}
		}
		fmt.Fprintf(&sb, "%d", x)
	}
	sb.WriteString("]")
	return fmt.Sprintf("(%s : List %s)", sb.String(), ty)
}
