#!/bin/sh
# MANIFEST.setup_cmd — build the framework from files on disk only (offline).
set -e
cd "$(dirname "$0")"
export GOFLAGS=-mod=mod GOPROXY=off GOSUMDB=off GOTOOLCHAIN=local VERIF_ROOT="$(pwd)"
mkdir -p .work/bin .work/gocache evidence replays lean/GocoinV/Gen
export GOCACHE="$(pwd)/.work/gocache"
# 1. translators first (Gen/ is not in git), then the Lean project, then the harnesses
for d in go/cmd/gen_*; do
  [ -d "$d" ] || continue
  n=$(basename "$d")
  (cd go && go build -tags verif -o ../.work/bin/$n ./cmd/$n && ../.work/bin/$n)
done
ids=$(python3 -c "import json;print(' '.join(c['property_id'] for c in json.load(open('MANIFEST.json'))['checks']))")
targets=""
for id in $ids; do
  low=$(echo $id | tr A-Z a-z)
  targets="$targets GocoinV.Props.$id oracle_$low"
  (cd go && go build -tags verif -o ../.work/bin/$low ./cmd/$low)
done
(cd lean && lake build $targets)
echo "setup ok"
