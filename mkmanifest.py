#!/usr/bin/env python3
"""Assemble MANIFEST.json from manifest.d/Cxx.json (one check entry per claimed property) and
manifest.d/na.json (optional: {"Cxx": "reason"} for properties deliberately not claimed)."""
import json, glob, os, subprocess
R = os.path.dirname(os.path.abspath(__file__))
props = [json.loads(l)["id"] for l in open(os.path.join(R, "properties.jsonl"))]
checks = []
# only properties listed in manifest.d/ready.txt (verified by the lead: quick exits 0 on the unchanged tree for
# several seeds, evidence validates) are registered; the others stay under not_applicable until they are.
ready = set()
rp = os.path.join(R, "manifest.d", "ready.txt")
if os.path.exists(rp):
    ready = {l.strip() for l in open(rp) if l.strip() and not l.startswith("#")}
for f in sorted(glob.glob(os.path.join(R, "manifest.d", "C*.json"))):
    c = json.load(open(f))
    if c["property_id"] in ready:
        checks.append(c)
claimed = {c["property_id"] for c in checks}
na_reasons = {}
p = os.path.join(R, "manifest.d", "na.json")
if os.path.exists(p): na_reasons = json.load(open(p))
na = [{"property_id": i, "reason": na_reasons.get(i, "check not built yet in this session (work in progress; DESIGN.md §8 order of work)")}
      for i in props if i not in claimed]
hooks = []
try:
    out = subprocess.run(["git", "-C", "/repo", "log", "--format=%H %s", "8e65205a..HEAD"], capture_output=True, text=True).stdout
    hooks = [l.split()[0] for l in out.splitlines() if " verif hook" in l]
except Exception:
    pass
m = {"version": 1, "setup_cmd": "./setup.sh",
     "hooks": {"guard": "verif",
               "enable": "go build -tags verif (module /verif/go replaces github.com/piotrnar/gocoin by /repo; hook files carry //go:build verif)",
               "baseline_off_cmd": "cd /repo && GOFLAGS=-mod=mod go test -json -vet=off -count=1 -timeout 25m ./...",
               "source_commits": hooks, "add_only": True},
     "engines": [{"name": "lean-proof+correspondence", "path": "/verif/check", "serves_properties": sorted(claimed),
                  "kind_free_text": "Lean 4 model + theorems (lean/), Go→Lean translator (go/cmd/gen_*, go/vtrans) and Go differential harness (go/cmd/c*) driven by ./check"}],
     "checks": checks, "not_applicable": na,
     "notes": "Single entry point ./check <id> quick|thorough [--replay f]. Known findings: known_findings.txt. See DESIGN.md and CONVENTIONS.md."}
json.dump(m, open(os.path.join(R, "MANIFEST.json"), "w"), indent=1)
print("MANIFEST.json: %d checks, %d not_applicable" % (len(checks), len(na)))
