#!/bin/sh
# tools/sweep.sh [tier] [seeds…] — run every registered check on the unchanged tree for several seeds; prints one line per run.
tier="${1:-quick}"; shift
seeds="${*:-1 2 3 7 12345}"
cd "$(dirname "$0")/.."
for s in $seeds; do
  for id in $(cat manifest.d/ready.txt); do
    t0=$(date +%s)
    out=$(VERIF_SEED=$s timeout 3600 ./check $id $tier 2>&1)
    rc=$?
    t1=$(date +%s)
    echo "seed=$s $id rc=$rc $((t1-t0))s :: $(echo "$out" | grep -E '^(OK|VIOLATION)' | head -2 | tr '\n' ' ')"
  done
done
