#!/usr/bin/env python3
"""tools/parsweep.py <workers> <tier> <seed,seed,...> [Cxx ...] — lead's tooling: run ./check on the UNCHANGED /repo for several seeds in
parallel scratch copies of /verif (/tmp/vsweep<k>); prints one line per run; any non-OK line is a false alarm to investigate."""
import os, subprocess, sys, threading, queue, shutil, json, time
R = os.path.dirname(os.path.dirname(os.path.abspath(__file__)))
N = int(sys.argv[1]); tier = sys.argv[2]; seeds = sys.argv[3].split(","); props = sys.argv[4:] or ["C%02d" % i for i in range(1, 21)]
q = queue.Queue()
for s in seeds:
    for p in props: q.put((p, s))
lock = threading.Lock()
def worker(k):
    cp = "/tmp/vsweep%d" % k
    subprocess.run(["rsync", "-a", "--delete", "--exclude", ".work", "--exclude", ".git", "--exclude", "replays", R + "/", cp + "/"], check=True)
    os.makedirs(cp + "/.work", exist_ok=True)
    env = dict(os.environ, GOCACHE=os.path.join(R, ".work", "gocache"))
    while True:
        try: p, s = q.get_nowait()
        except queue.Empty: break
        t = time.time()
        r = subprocess.run([cp + "/check", p, tier], stdout=subprocess.PIPE, stderr=subprocess.STDOUT, text=True, errors="replace", env=dict(env, VERIF_SEED=s))
        last = [l for l in r.stdout.splitlines() if l.startswith(("OK", "VIOLATION", "KNOWN"))]
        with lock:
            print("%s seed=%s rc=%d %.0fs %s" % (p, s, r.returncode, time.time() - t, " | ".join(l[:110] for l in last if not l.startswith("KNOWN"))[:240]), flush=True)
        if r.returncode != 0:
            open(os.path.join(R, ".work", "sweep-%s-%s.log" % (p, s)), "w").write(r.stdout)
    shutil.rmtree(cp, ignore_errors=True)
ts = [threading.Thread(target=worker, args=(k,)) for k in range(N)]
for t in ts: t.start()
for t in ts: t.join()
