#!/bin/sh
# Re-run the pinned test-suite on /repo (guard off) and compare with /root/.vp/BASELINE.json.
cd /repo && GOFLAGS=-mod=mod go test -vet=off -count=1 -json ./... 2>/dev/null | python3 -c "
import sys,json
res={}
for l in sys.stdin:
    try: e=json.loads(l)
    except: continue
    if e.get('Test') and e.get('Action') in('pass','fail'):
        res[e['Package']+'::'+e['Test']]=e['Action']
b=json.load(open('/root/.vp/BASELINE.json'))
tops={k:v for k,v in res.items() if '/' not in k.split('::')[1]}
missing=[t for t in b['stable_pass'] if tops.get(t)!='pass']
print('passed',sum(1 for v in tops.values() if v=='pass'),'failed',sorted(k for k,v in tops.items() if v=='fail'))
print('baseline tests not passing:',missing)
sys.exit(1 if missing else 0)
"
