#!/usr/bin/env python3
"""tools/evalseeded.py [Cxx ...] — run each property's quick check against every confirmed seeded change under
seeded/<Cxx-n>/ (private worktree via tools/seedtest.sh) and record the outcome in its meta.json ("checks")."""
import glob, json, os, re, subprocess, sys
R = os.path.dirname(os.path.dirname(os.path.abspath(__file__)))
want = set(sys.argv[1:])
for d in sorted(glob.glob(os.path.join(R, "seeded", "C*-*"))):
    name = os.path.basename(d); pid = name.split("-")[0]
    if want and pid not in want and not any(name.startswith(w) for w in want): continue
    m = json.load(open(d + "/meta.json"))
    extra = m.get("also_check", [])
    res = []
    for c in [pid] + extra:
        p = subprocess.run([os.path.join(R, "tools", "seedtest.sh"), d + "/patch.diff", c, "quick"], stdout=subprocess.PIPE, stderr=subprocess.STDOUT, text=True, errors='replace')
        out = p.stdout
        v = [l for l in out.splitlines() if l.startswith("VIOLATION")]
        if "patch does not apply" in out: kind = "NOAPPLY"
        elif not v: kind = "MISSED"
        elif any("no-failing-input-found" not in l for l in v): kind = "CAUGHT-replay"
        else: kind = "CAUGHT-no-input"
        keys = re.findall(r"^\s+\((?:prop|tie|proof)\) key=(\S+)", out, re.M)[:3]
        res.append("%s %s%s" % (c, kind, (" [" + ", ".join(keys) + "]") if keys else ""))
        print(name, c, kind, keys, flush=True)
    m["checks"] = res
    json.dump(m, open(d + "/meta.json", "w"), indent=1)
