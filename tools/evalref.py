#!/usr/bin/env python3
"""tools/evalref.py [Cxx ...] — run each property's quick check against the behaviour-preserving refactorings produced by
independent sub-agents (/tmp/ref-out/<Cxx>/<n>/patch.diff, or refactor/<Cxx-n>/ once filed). Expected outcome: exit 0.
A VIOLATION with a concrete replay on a harmless change would be a false alarm of the check; a `no-failing-input-found`
report means a proof obligation / regenerated fact / the tie is sensitive to the rewrite (allowed by the protocol, recorded)."""
import glob, json, os, re, shutil, subprocess, sys
R = os.path.dirname(os.path.dirname(os.path.abspath(__file__)))
SRC = os.environ.get("REFDIR", "/tmp/ref-out")
want = set(sys.argv[1:])
for d in sorted(glob.glob(SRC + "/C*/[0-9]*")):
    pid = d.split("/")[-2]; n = d.split("/")[-1]
    if want and pid not in want: continue
    if not os.path.exists(d + "/patch.diff"): continue
    p = subprocess.run([os.path.join(R, "tools", "seedtest.sh"), d + "/patch.diff", pid, "quick"], stdout=subprocess.PIPE, stderr=subprocess.STDOUT, text=True, errors="replace")
    out = p.stdout
    open(os.path.join(R, ".work", "ref-%s-%s.log" % (pid, n)), "w").write(out)
    v = [l for l in out.splitlines() if l.startswith("VIOLATION")]
    keys = re.findall(r"^\s+\((?:prop|tie|proof|broken)\)\s*(?:key=)?(\S+)", out, re.M)[:3]
    if "patch does not apply" in out: kind = "NOAPPLY"
    elif not v: kind = "OK"
    elif any("no-failing-input-found" not in l for l in v): kind = "FALSE-ALARM-replay"
    else: kind = "SENSITIVE-no-input"
    try: title = json.load(open(d + "/meta.json")).get("title", "")
    except Exception: title = ""
    dst = os.path.join(R, "refactor", "%s-%s" % (pid, n)); os.makedirs(dst, exist_ok=True)
    shutil.copy(d + "/patch.diff", dst)
    meta = {}
    try: meta = json.load(open(d + "/meta.json"))
    except Exception: pass
    meta["check_result"] = kind; meta["check_keys"] = keys
    json.dump(meta, open(dst + "/meta.json", "w"), indent=1)
    print("%s-%s %s %s :: %s" % (pid, n, kind, keys, title[:100]), flush=True)
