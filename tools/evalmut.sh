#!/bin/sh
# tools/evalmut.sh <Cxx> [check-id ...]  — run the property's quick check (and optionally other properties' checks)
# against each seeded patch in /tmp/mut-out/<Cxx>/<n>/patch.diff; writes result.txt next to each patch.
id="$1"; shift
checks="${*:-$id}"
for d in /tmp/mut-out/$id/[0-9]*; do
  [ -f "$d/patch.diff" ] || continue
  n=$(basename $d)
  title=$(python3 -c "import json;print(json.load(open('$d/meta.json')).get('title',''))" 2>/dev/null)
  for c in $checks; do
    out=$(timeout 1200 /verif/tools/seedtest.sh $d/patch.diff $c quick 2>&1)
    v=$(echo "$out" | grep -E "^VIOLATION" | head -1)
    ok=$(echo "$out" | grep -E "^(OK|SEEDTEST)" | head -1)
    kind="MISSED"
    if [ -n "$v" ]; then case "$v" in *no-failing-input-found*) kind="CAUGHT-no-input";; *) kind="CAUGHT-replay";; esac; fi
    case "$out" in *"SEEDTEST: patch does not apply"*) kind="NOAPPLY";; esac
    echo "$id/$n [$c] $kind :: $title"
    echo "$c $kind" >> $d/result.txt
    echo "$out" | grep -E "^(VIOLATION|  \()" | head -4 > $d/result_$c.log
  done
done
