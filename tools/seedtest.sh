#!/bin/sh
# tools/seedtest.sh <patch.diff> <Cxx> [quick|thorough]
# Runs one property's check against a PRIVATE worktree of /repo with a seeded change applied
# (VERIF_REPO), so that /repo itself is never touched. Prints the check's output; exit status = check's.
set -u
patch="$1"; id="$2"; tier="${3:-quick}"
wt=$(mktemp -d /tmp/seedwt.XXXXXX)
rmdir "$wt"
git -C /repo worktree add -q --detach "$wt" HEAD || exit 3
if ! git -C "$wt" apply "$patch" 2>/dev/null && ! git -C "$wt" apply --3way "$patch" 2>/dev/null; then
  echo "SEEDTEST: patch does not apply to current /repo HEAD"; git -C /repo worktree remove --force "$wt"; exit 4
fi
( cd "$(dirname "$0")/.." && VERIF_REPO="$wt" ./check "$id" "$tier" )
rc=$?
# remove this worktree's private build products (suffix = first 8 hex digits of sha1 of its path, see ./check)
suf=$(printf %s "$wt" | sha1sum | cut -c1-8)
w="$(dirname "$0")/../.work"
rm -rf "$w"/bin/*_"$suf" "$w/go_$suf.mod" "$w/go_$suf.sum" "$w/evidence_$suf"
git -C /repo worktree remove --force "$wt"
git -C /repo worktree prune
exit $rc
