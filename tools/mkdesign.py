#!/usr/bin/env python3
"""tools/mkdesign.py — assemble DESIGN.md = Part I (kept as written) + Part II from design.d/*.md; §14 (defects) is generated
from known_findings.txt so that it cannot drift from the file the checks read."""
import os, re, glob
R = os.path.dirname(os.path.dirname(os.path.abspath(__file__)))
d = open(os.path.join(R, "DESIGN.md")).read()
part1 = d[:d.index("# Part II")]
known, fixed = [], []
for l in open(os.path.join(R, "known_findings.txt")):
    m = re.match(r"(known|fixed):\s*property=(C\d+)\s+(.*)", l.strip())
    if m: (known if m.group(1) == "known" else fixed).append((m.group(2), m.group(3)))
def short(s, n=330):
    s = re.sub(r"\s+", " ", s)
    return s if len(s) <= n else s[:n].rsplit(" ", 1)[0] + " …"
sec14 = [open(os.path.join(R, "design.d", "30_sec14_intro.md")).read().rstrip(), ""]
sec14.append("**Repaired (%d `fixed:` entries, one per defect and `fix:` commit; full text with witnesses in `known_findings.txt`):**\n" % len(fixed))
for pid in sorted({p for p, _ in fixed}):
    sec14.append("* **%s**" % pid)
    for p, t in fixed:
        if p == pid: sec14.append("  * `%s` %s" % (t.split()[0], short(" ".join(t.split()[1:]))))
sec14.append("\n**Known findings (%d; not repaired, the check prints `KNOWN-FINDING` for exactly these and still fails on anything else):**\n" % len(known))
for p, t in known:
    sec14.append("* **%s** `%s` — %s" % (p, t.split()[0].replace("key=", ""), short(" ".join(t.split()[1:]), 420)))
sec14.append("")
parts = [part1]
for f in sorted(glob.glob(os.path.join(R, "design.d", "*.md"))):
    if os.path.basename(f).startswith("30_"): parts.append("\n".join(sec14) + "\n")
    else: parts.append(open(f).read().rstrip() + "\n\n")
open(os.path.join(R, "DESIGN.md"), "w").write("".join(parts))
print("DESIGN.md assembled")
