#!/usr/bin/env python3
"""
tools/confirm_seed.py <Cxx> [n ...]
Independently confirms seeded changes produced by the mutation sub-agents (/tmp/mut-out/<Cxx>/<n>/) in a scratch
worktree of /repo's HEAD (outside /repo and /verif), and files the confirmed ones under /verif/seeded/<Cxx>-<n>/:
  1. clean worktree + demo test  -> must PASS
  2. patch applied: build of ./lib/... ./client/... ./wallet/... shows no NEW package errors; demo -> must FAIL
  3. patched tree (without the demo): the pinned baseline tests all still pass
meta.json gets a "confirmation" block with what was run and the results.
"""
import json, os, re, shutil, subprocess, sys, tempfile

MUTDIR = os.environ.get("MUTDIR", "/tmp/mut-out")
TAG = os.environ.get("MUTTAG", "")   # e.g. "r2-" for the second round
ENV = dict(os.environ, GOFLAGS="-mod=mod", GOPROXY="off", GOSUMDB="off", GOTOOLCHAIN="local")
KNOWN_BUILD_FAIL = ("lib/others/cgo/sipadll", "lib/others/cgo/sipasec", "lib/others/qdb/os_membinds", "client/speedups", "lib/others/cgo/ec_bench", "tools/")

def sh(cmd, cwd, timeout=1800):
    p = subprocess.run(cmd, cwd=cwd, env=ENV, shell=True, stdout=subprocess.PIPE, stderr=subprocess.STDOUT, text=True, errors='replace', timeout=timeout)
    return p.returncode, p.stdout

def demo_params(meta, demo_src):
    cmd = meta.get("demo_cmd", "")
    head = open(demo_src, encoding="utf-8", errors="replace").read(1500)
    run = re.search(r"-run\s+'?\"?([\w|^$()]+)", cmd)
    first = re.search(r"-run\s+\S+\s+\./((?:lib|client|wallet)[\w/]*)", cmd)   # the package of the FIRST go test
    pkgs = re.findall(r"(?:^|\s)\./((?:lib|client|wallet)[\w/]*)", cmd)
    pkg = first.group(1).rstrip("/") if first else (pkgs[-1].rstrip("/") if pkgs else None)
    if not pkg:
        m = re.search(r"(?:/mut-C\d+|<repo>)/((?:lib|client|wallet)[\w/]*?)/?(?:\s|&|$)", cmd) or re.search(r"\b((?:lib|client|wallet)(?:/\w+)*)/", head)
        pkg = m.group(1).rstrip("/") if m else None
    tags = "-tags verif " if "-tags verif" in cmd else ""
    race = "-race " if re.search(r"\s-race\b", cmd) else ""
    return (run.group(1) if run else "."), pkg, tags + race

def baseline_ok(wt):
    rc, out = sh("go test -vet=off -count=1 -json ./... 2>/dev/null", wt, 2400)
    res = {}
    for l in out.splitlines():
        try: e = json.loads(l)
        except Exception: continue
        if e.get("Test") and e.get("Action") in ("pass", "fail") and "/" not in e["Test"]:
            res[e["Package"] + "::" + e["Test"]] = e["Action"]
    b = json.load(open("/root/.vp/BASELINE.json"))
    missing = [t for t in b["stable_pass"] if res.get(t) != "pass"]
    return missing

def confirm(pid, n):
    src = "%s/%s/%s" % (MUTDIR, pid, n)
    meta = json.load(open(src + "/meta.json"))
    demos = [f for f in os.listdir(src + "/demo") if f.endswith("_test.go")]
    if not demos:
        return "no demo test file"
    demo = src + "/demo/" + demos[0]
    run, pkg, flags = demo_params(meta, demo)
    if not pkg:
        return "cannot find the demo's package directory"
    wt = tempfile.mkdtemp(prefix="seedconf.", dir="/tmp"); os.rmdir(wt)
    subprocess.run(["git", "-C", "/repo", "worktree", "add", "-q", "--detach", wt, "HEAD"], check=True)
    conf = {"repo_head": subprocess.run(["git", "-C", "/repo", "rev-parse", "--short", "HEAD"], capture_output=True, text=True).stdout.strip(),
            "demo_package": pkg, "demo_run": run}
    try:
        dst = os.path.join(wt, pkg, "zz_demo_test.go")
        copied = []
        for f in sorted(os.listdir(src + "/demo")):          # a demo may consist of several test files
            if f.endswith("_test.go"):
                t = os.path.join(wt, pkg, f if (f != demos[0] or "zz_demo_test.go" in demos) else "zz_demo_test.go")
                shutil.copy(src + "/demo/" + f, t); copied.append(t)
        cmd = "go test %s-vet=off -count=1 -run '%s' ./%s/" % (flags, run, pkg)
        conf["demo_cmd"] = "cp demo/zz_demo_test.go <repo>/%s/ && cd <repo> && %s" % (pkg, cmd)
        rc, out = sh(cmd, wt)
        conf["clean_demo"] = "pass" if rc == 0 else "FAIL"
        if rc != 0:
            conf["clean_demo_log"] = out[-1500:]
            return "demo does not pass on the clean tree", conf
        rc, out = sh("git apply %s/patch.diff" % src, wt)
        if rc != 0:
            rc, out = sh("git apply --3way %s/patch.diff && git reset -q" % src, wt)
            conf["applied_with_3way_merge"] = rc == 0
        if rc != 0:
            return "patch does not apply to current HEAD: " + out[-300:], conf
        rc, out = sh("go build ./lib/... ./client/... ./wallet/... 2>&1 | grep '^#' ", wt)
        bad = [l for l in out.splitlines() if l.startswith("#") and not any(k in l for k in KNOWN_BUILD_FAIL)]
        conf["build_new_errors"] = bad
        if bad:
            return "patched tree does not build: %s" % bad, conf
        rc, out = sh(cmd, wt)
        conf["patched_demo"] = "fail" if rc != 0 else "PASS"
        if rc == 0:
            # timing dependent demos: try a few more times
            for _ in range(4):
                rc, out = sh(cmd, wt)
                if rc != 0: break
            conf["patched_demo"] = "fail" if rc != 0 else "PASS(5 runs)"
            if rc == 0:
                return "demo does not fail on the patched tree", conf
        conf["patched_demo_tail"] = "\n".join(out.splitlines()[-6:])[-800:]
        for t in copied: os.remove(t)
        missing = baseline_ok(wt)
        conf["baseline_tests_not_passing_with_patch"] = missing
        if missing:
            return "pinned tests fail with the patch: %s" % missing[:5], conf
        return None, conf
    finally:
        subprocess.run(["git", "-C", "/repo", "worktree", "remove", "--force", wt])
        subprocess.run(["git", "-C", "/repo", "worktree", "prune"])

def main():
    pid = sys.argv[1]
    ns = sys.argv[2:] or sorted(d for d in os.listdir(MUTDIR + "/" + pid) if d.isdigit())
    for n in ns:
        src = "%s/%s/%s" % (MUTDIR, pid, n)
        if not os.path.exists(src + "/patch.diff"): continue
        r = confirm(pid, n)
        err, conf = (r if isinstance(r, tuple) else (r, {}))
        if err:
            print("%s/%s NOT CONFIRMED: %s" % (pid, n, err));
            json.dump({"error": err, "conf": conf}, open(src + "/confirm_failed.json", "w"), indent=1)
            continue
        dst = "/verif/seeded/%s-%s%s" % (pid, TAG, n)
        if os.path.exists(dst): shutil.rmtree(dst)
        os.makedirs(dst)
        shutil.copy(src + "/patch.diff", dst)
        shutil.copytree(src + "/demo", dst + "/demo")
        meta = json.load(open(src + "/meta.json"))
        meta["confirmation"] = conf
        meta["confirmation"]["ran"] = "tools/confirm_seed.py: clean worktree + demo (pass); patch applied: build, demo (fail), pinned test-suite without the demo (all baseline tests pass)"
        if os.path.exists(src + "/result.txt"):
            meta["checks"] = [l.strip() for l in open(src + "/result.txt")]
        json.dump(meta, open(dst + "/meta.json", "w"), indent=1)
        print("%s/%s confirmed -> %s" % (pid, n, dst))

if __name__ == "__main__":
    main()
