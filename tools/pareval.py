#!/usr/bin/env python3
"""tools/pareval.py <workers> seeded|refactor [name-prefix ...]
Evaluation tooling for the lead (NOT used by any registered check): runs the quick checks against every seeded change
(seeded/<name>/patch.diff -> expected VIOLATION) or every behaviour-preserving sample (refactor/<name>/patch.diff -> expected
exit 0) in PARALLEL. ./check serialises on one lock because the Lean build directory and Gen/ are shared, so each worker gets
its own scratch copy of /verif (sources + lean/.lake, without .work and .git) under /tmp/vcopy<k>; the copies are removed at the
end. Results are written back to the meta.json files of /verif (seeded: "checks"; refactor: "check_result", "check_keys")."""
import glob, json, os, re, shutil, subprocess, sys, threading, queue
R = os.path.dirname(os.path.dirname(os.path.abspath(__file__)))
N = int(sys.argv[1]); mode = sys.argv[2]; want = sys.argv[3:]
base = os.path.join(R, mode)
items = []
for d in sorted(glob.glob(base + "/C*-*")):
    name = os.path.basename(d)
    if want and not any(name.startswith(w) for w in want): continue
    if not os.path.exists(d + "/patch.diff"): continue
    m = json.load(open(d + "/meta.json"))
    for c in [name.split("-")[0]] + (m.get("also_check", []) if mode == "seeded" else []):
        items.append((name, c))
q = queue.Queue()
for it in items: q.put(it)
res = {}; lock = threading.Lock()
env = dict(os.environ, GOCACHE=os.path.join(R, ".work", "gocache"))

def worker(k):
    cp = "/tmp/vcopy%s%d" % (os.environ.get("PAREVAL_TAG", ""), k)
    subprocess.run(["rsync", "-a", "--delete", "--exclude", ".work", "--exclude", ".git", "--exclude", "replays", R + "/", cp + "/"], check=True)
    os.makedirs(cp + "/.work", exist_ok=True)
    while True:
        try: name, c = q.get_nowait()
        except queue.Empty: break
        p = subprocess.run([cp + "/tools/seedtest.sh", os.path.join(base, name, "patch.diff"), c, "quick"], stdout=subprocess.PIPE, stderr=subprocess.STDOUT, text=True, errors="replace", env=env)
        out = p.stdout
        open(os.path.join(R, ".work", "pe-%s-%s-%s.log" % (mode, name, c)), "w").write(out)
        v = [l for l in out.splitlines() if l.startswith("VIOLATION")]
        keys = re.findall(r"^\s+\((?:prop|tie|proof)\) key=(\S+)", out, re.M)[:3]
        if "patch does not apply" in out: kind = "NOAPPLY"
        elif p.returncode not in (0, 1): kind = "ERROR-rc%d" % p.returncode
        elif not v: kind = "MISSED" if mode == "seeded" else "OK"
        elif any("no-failing-input-found" not in l for l in v): kind = "CAUGHT-replay" if mode == "seeded" else "FALSE-ALARM-replay"
        else: kind = "CAUGHT-no-input" if mode == "seeded" else "SENSITIVE-no-input"
        with lock:
            res.setdefault(name, []).append((c, kind, keys))
            print(name, c, kind, keys, flush=True)
    shutil.rmtree(cp, ignore_errors=True)

ts = [threading.Thread(target=worker, args=(k,)) for k in range(N)]
for t in ts: t.start()
for t in ts: t.join()
for name, l in res.items():
    mf = os.path.join(base, name, "meta.json"); m = json.load(open(mf))
    if mode == "seeded":
        order = [name.split("-")[0]] + m.get("also_check", [])
        l.sort(key=lambda x: order.index(x[0]) if x[0] in order else 99)
        m["checks"] = ["%s %s%s" % (c, k, (" [" + ", ".join(ks) + "]") if ks else "") for c, k, ks in l]
    else:
        m["check_result"] = l[0][1]; m["check_keys"] = l[0][2]
    json.dump(m, open(mf, "w"), indent=1)
subprocess.run(["git", "-C", "/repo", "worktree", "prune"])
