/- oracle_c01 — placeholder driver (replaced when the C01 model is added). -/
import GocoinV.Base.Proto
open GocoinV
def main : IO Unit := Proto.serve () (fun _ _ => ((), "bad-op"))
