/-
  oracle_c01 — line-protocol driver for the C01 model (Model/Script*.lean) and spec (Spec/Script.lean).

  CRYPTO SCHEME.  Hash functions (SHA-256, RIPEMD-160, SHA-1, tagged hashes) are computed here in Lean.
  Everything else — the three signature-hash functions, ECDSA / Schnorr verification, the taproot tweak
  check — is resolved ON THE GO SIDE against the real btc functions, lazily:
    * the driver keeps a table  query ↦ answer  (state of the serve loop; `reset` empties it);
    * `verify …` / `eval …` run model and spec with `Oracles` whose Option-valued fields are table look-ups;
      the first look-up that misses aborts the evaluation with `need <query>`;
    * the harness computes the answer with the real gocoin function (Tx.SignatureHash, btc.EcdsaVerify, …),
      sends `def <query> <answer>` and repeats the request.  Each round answers one genuinely needed query,
      so the dialogue terminates; a request never runs against a defaulted answer.
  The SPEC additionally uses an independent Lean reference for the taproot tweak check (Base/Secp.lean:
  lift_x, Q = P + t·G, parity; Base/C01_SecpFast.lean for speed) instead of gocoin's answer, so that "non-liftable internal key accepted"
  shows up as a difference between the implementation and the rules.

  SIGNATURE DIGESTS OF THE REFERENCE.  The MODEL runs with the digests the real Tx.SignatureHash / WitnessSigHash /
  TaprootSigHash returned (table, as above). The SPEC does not: it computes the legacy / BIP143 / BIP341 digest of
  the spending transaction itself (Spec/ScriptSigRef.lean over Spec/SigHash.lean — written from the specifications),
  so that a sighash function of the tree that hashes something else than the rules say shows up as a difference
  between the implementation's verdict and the rules' verdict. The harness hands the whole transaction over with
  `tx …` before `verify` / `eval` / `refsig` (these are refused with `bad-op` when no transaction is set).

  Requests (byte strings hex, "-" = empty; `<opt>` is hex or the word none):
    reset                                                              -> ok     (empties the table, keeps the tx)
    tx <idx> <version> <locktime> <nin> {<prevhash> <vout> <sequence> <spentValue> <spentScript>}×nin
       <nout> {<value> <script>}×nout                                  -> ok     (scriptSigs / witnesses are not part
                                                                                  of any of the three messages)
    refsig sigl <scriptCode> <ht>                                      -> <digest> | undef
    refsig sigw <scriptCode> <ht>                                      -> <digest> | undef
    refsig sigt <annex:opt (the annex itself)> <tapleaf> <codesepPos> <ht> <script:0|1> -> <digest> | -   (- = BIP341
                                                                                  defines no message)
    def sigl <scriptCode> <ht> <digest>                                -> ok
    def sigw <scriptCode> <ht> <digest>                                -> ok
    def sigt <annexHash:opt> <tapleaf> <codesepPos> <ht> <script:0|1> <digest> -> ok
    def ecdsa <pk> <sig> <hash> <0|1>                                  -> ok
    def schnorr <pk> <sig> <msg> <0|1>                                 -> ok
    def tweak <q> <p> <k> <parity:0|1> <0|1>                           -> ok
    verify <flags> <version> <locktime> <sequence> <idx> <nouts> <sigScript> <pkScript> <nwit> <w1> … <wn>
        -> need <query>
         | res model=<ok|fail|panic> spec=<OK|ScriptError> class=<same|cltv-csv-discouraged-nop|
                 taproot-undefined-hashtype|taproot-nonliftable-internal-key|none>
           (class: `same` when the verdicts agree; otherwise the single documented quirk under which the
            spec verdict becomes the model's, or `none`)
    eval <flags> <sv:0|1|3> <version> <locktime> <sequence> <idx> <nouts> <script> <annexHash:opt> <tapleaf>
         <weightLeft> <n> <item1(bottom)> … <itemn(top)>
        -> need <query> | res model=<fail|ok:k:i1,…,ik> spec=<ScriptError|ok:k:i1,…,ik> class=<same|cltv-csv-discouraged-nop|none>
           (items bottom→top; class as for `verify`, at the level success + final stack)
    num <bytes>         -> <bts2int|panic> <isMinimal> <bts2bool> <spec decode> <spec minimal> <spec castToBool>
    pushint <int>       -> <model bytes> <spec bytes>
    getop <bytes>       -> err | <opcode> <push:opt> <n>    and the spec parse:  … | serr | <op> <data> <afterlen>
    delsig <where> <sig> -> <model result> <cnt> <spec result> <cnt>
    sigenc <flags> <sig> -> <model 0|1> <spec OK|err>
    pkenc <flags> <sv> <pk> -> <model 0|1> <spec OK|err>
    minpush <data> <opcode> -> <model 0|1> <spec 0|1>
    sha1 <bytes> | sha256 <bytes> | ripemd160 <bytes>  -> <digest>
-/
import GocoinV.Model.ScriptVerify
import GocoinV.Spec.Script
import GocoinV.Spec.ScriptSigRef
import GocoinV.Base.Sha256
import GocoinV.Base.Ripemd160
import GocoinV.Base.C01_Sha1
import GocoinV.Base.C01_SecpFast
import GocoinV.Base.Proto
open GocoinV GocoinV.Script
open GocoinV.Script.SigRef (FullTx withRefSigHash)

abbrev Table := List (Query × Bytes)

def lookupB (t : Table) (q : Query) : Option Bytes := (t.find? (fun e => e.1 == q)).map (·.2)
def lookupBool (t : Table) (q : Query) : Option Bool := (lookupB t q).map (fun b => b == [1])

def mkOracles (t : Table) : Oracles where
  sha256 := sha256
  ripemd160 := ripemd160
  sha1 := sha1
  hash160 := hash160
  hash256 := sha256d
  sigHashLegacy := fun sc ht => lookupB t (.sigL sc ht)
  sigHashWitV0 := fun sc ht => lookupB t (.sigW sc ht)
  sigHashTap := fun a l c h s => lookupB t (.sigT a l c h s)
  ecdsaVerify := fun pk sg h => lookupBool t (.ecdsa pk sg h)
  schnorrVerify := fun pk sg m => lookupBool t (.schnorr pk sg m)
  tweakCheck := fun q p k par => lookupBool t (.tweak q p k par)

/-- BIP341 tweak check, independent reference: lift_x(p) + int(k)·G = (q, parity) -/
def refTweak (q p k : Bytes) (parity : Bool) : Bool :=
  if q.length != 32 || p.length != 32 || k.length != 32 then false else
  match Secp.liftX (beVal p) with
  | none => false
  | some P =>
    let t := beVal k
    if t ≥ Secp.n then false else
    match SecpFast.addMulG (some P) t with
    | none => false
    | some (x, y) => x == beVal q && (y % 2 == 1) == parity

def withRefTweak (O : Oracles) : Oracles := { O with tweakCheck := fun q p k par => some (refTweak q p k par) }

def optHex : Option Bytes → String
  | some b => Hex.encode b
  | none => "none"
def optDec (s : String) : Option (Option Bytes) :=
  if s == "none" then some none else (Hex.decode s).map some

def b01 (b : Bool) : String := if b then "1" else "0"

def queryStr : Query → String
  | .sigL sc ht => s!"sigl {Hex.encode sc} {ht}"
  | .sigW sc ht => s!"sigw {Hex.encode sc} {ht}"
  | .sigT a l c h s => s!"sigt {optHex a} {Hex.encode l} {c} {h} {b01 s}"
  | .ecdsa pk sg h => s!"ecdsa {Hex.encode pk} {Hex.encode sg} {Hex.encode h}"
  | .schnorr pk sg m => s!"schnorr {Hex.encode pk} {Hex.encode sg} {Hex.encode m}"
  | .tweak q p k par => s!"tweak {Hex.encode q} {Hex.encode p} {Hex.encode k} {b01 par}"

def errName (e : ScriptSpec.ScriptError) : String :=
  match e with
  | .NEED _ => "NEED"
  | e => ((reprStr e).splitOn ".").getLast!

def decodeAll : List String → Option (List Bytes)
  | [] => some []
  | s :: r => do
    let b ← Hex.decode s
    let rest ← decodeAll r
    pure (b :: rest)

def svOf : String → Option SigVersion
  | "0" => some .base | "1" => some .witnessV0 | "2" => some .taproot | "3" => some .tapscript | _ => none

def itemsStr (s : List Bytes) : String :=
  s!"ok:{s.length}:" ++ ",".intercalate (s.reverse.map Hex.encode)

/-- spec verdict as a string, or the query it needs -/
def specRun (O : Oracles) (tx : TxCtx) (pk : Bytes) (flags : Nat) (q : ScriptSpec.Quirks) : Except Query String :=
  match ScriptSpec.verifyScript O tx pk (ScriptSpec.Flags.ofMask flags) q with
  | .ok () => .ok "OK"
  | .error (.NEED qq) => .error qq
  | .error e => .ok (errName e)

def doVerify (t : Table) (F : FullTx) (flags : Nat) (tx : TxCtx) (pk : Bytes) : String :=
  let O := mkOracles t
  match verifyTxScript O tx pk flags with
  | .need q => "need " ++ queryStr q
  | m =>
    let ms := match m with | .ok _ => "ok" | .fail => "fail" | .panic => "panic" | .need _ => "need"
    let Or := withRefSigHash O F tx.witness   -- the reference's own legacy / BIP143 / BIP341 digests
    let Os := withRefTweak Or
    match specRun Os tx pk flags {} with
    | .error q => "need " ++ queryStr q
    | .ok ss =>
      let agree := (ms == "ok") == (ss == "OK") && ms != "panic"
      if agree then s!"res model={ms} spec={ss} class=same" else
      -- classification: under which single documented quirk does the spec give the model's verdict?
      let same (r : Except Query String) : Option Bool :=
        match r with | .ok s2 => some ((ms == "ok") == (s2 == "OK")) | .error _ => none
      match same (specRun Os tx pk flags { discourageCltvCsv := true }) with
      | none => "need " ++ (match specRun Os tx pk flags { discourageCltvCsv := true } with | .error q => queryStr q | _ => "?")
      | some true => s!"res model={ms} spec={ss} class=cltv-csv-discouraged-nop"
      | some false =>
        match specRun Os tx pk flags { tapUndefinedHashType := true } with
        | .error q => "need " ++ queryStr q
        | .ok s2 =>
          if (ms == "ok") == (s2 == "OK") then s!"res model={ms} spec={ss} class=taproot-undefined-hashtype" else
          match specRun Or tx pk flags {} with
          | .error q => "need " ++ queryStr q
          | .ok s3 =>
            if (ms == "ok") == (s3 == "OK") then s!"res model={ms} spec={ss} class=taproot-nonliftable-internal-key"
            else s!"res model={ms} spec={ss} class=none"

def doEval (t : Table) (F : FullTx) (flags : Nat) (sv : SigVersion) (tx : TxCtx) (script : Bytes) (annex : Option Bytes)
    (leaf : Bytes) (weight : Int) (items : List Bytes) : String :=
  let O := mkOracles t
  let stack := items.reverse
  let ed : ExecData := { tapleafHash := leaf, annexHash := annex, weightLeft := weight }
  match evalScript O tx flags script stack sv ed with
  | .need q => "need " ++ queryStr q
  | m =>
    let ms := match m with | .ok s => itemsStr s | _ => "fail"
    let env (q : ScriptSpec.Quirks) : ScriptSpec.Env :=
      ⟨withRefSigHash O F tx.witness, tx, ScriptSpec.Flags.ofMask flags, sv, q, leaf, annex⟩
    -- the spec's result at the level the harness compares: success + final stack, every error is `fail`
    let norm (r : Except ScriptSpec.ScriptError (List Bytes)) : String :=
      match r with | .ok s => itemsStr s | .error _ => "fail"
    match ScriptSpec.evalScript (env {}) script stack weight with
    | .error (.NEED q) => "need " ++ queryStr q
    | r =>
      let ss := match r with | .ok s => itemsStr s | .error e => errName e
      if norm r == ms then s!"res model={ms} spec={ss} class=same" else
      -- classification, as in `verify`: does the single documented quirk turn the spec's result into the model's?
      match ScriptSpec.evalScript (env { discourageCltvCsv := true }) script stack weight with
      | .error (.NEED q) => "need " ++ queryStr q
      | r2 =>
        if norm r2 == ms then s!"res model={ms} spec={ss} class=cltv-csv-discouraged-nop"
        else s!"res model={ms} spec={ss} class=none"

def txOf (ver lt sq idx nouts : String) (sigScr : Bytes) (wit : List Bytes) : Option TxCtx := do
  pure { version := ← ver.toNat?, lockTime := ← lt.toNat?, sequence := ← sq.toNat?, idx := ← idx.toNat?,
         nOuts := ← nouts.toNat?, sigScript := sigScr, witness := wit }

def stepT (F? : Option FullTx) (t : Table) (toks : List String) : Table × String :=
  let bad := (t, "bad-op")
  match toks with
  | ["reset"] => ([], "ok")
  | ["def", "sigl", sc, ht, d] =>
    match Hex.decode sc, ht.toNat?, Hex.decode d with
    | some sc, some ht, some d => ((.sigL sc ht, d) :: t, "ok")
    | _, _, _ => bad
  | ["def", "sigw", sc, ht, d] =>
    match Hex.decode sc, ht.toNat?, Hex.decode d with
    | some sc, some ht, some d => ((.sigW sc ht, d) :: t, "ok")
    | _, _, _ => bad
  | ["def", "sigt", a, l, c, h, s, d] =>
    match optDec a, Hex.decode l, c.toNat?, h.toNat?, Hex.decode d with
    | some a, some l, some c, some h, some d =>
      if s == "0" || s == "1" then ((.sigT a l c h (s == "1"), d) :: t, "ok") else bad
    | _, _, _, _, _ => bad
  | ["def", "ecdsa", pk, sg, h, r] =>
    match Hex.decode pk, Hex.decode sg, Hex.decode h with
    | some pk, some sg, some h => if r == "0" || r == "1" then ((.ecdsa pk sg h, [if r == "1" then 1 else 0]) :: t, "ok") else bad
    | _, _, _ => bad
  | ["def", "schnorr", pk, sg, m, r] =>
    match Hex.decode pk, Hex.decode sg, Hex.decode m with
    | some pk, some sg, some m => if r == "0" || r == "1" then ((.schnorr pk sg m, [if r == "1" then 1 else 0]) :: t, "ok") else bad
    | _, _, _ => bad
  | ["def", "tweak", q, p, k, par, r] =>
    match Hex.decode q, Hex.decode p, Hex.decode k with
    | some q, some p, some k =>
      if (par == "0" || par == "1") && (r == "0" || r == "1") then
        ((.tweak q p k (par == "1"), [if r == "1" then 1 else 0]) :: t, "ok") else bad
    | _, _, _ => bad
  | "verify" :: flags :: ver :: lt :: sq :: idx :: nouts :: sigScr :: pk :: nwit :: ws =>
    match flags.toNat?, Hex.decode sigScr, Hex.decode pk, nwit.toNat?, decodeAll ws with
    | some flags, some sigScr, some pk, some nwit, some ws =>
      if ws.length != nwit then bad else
      match txOf ver lt sq idx nouts sigScr ws, F? with
      | some tx, some F => (t, doVerify t F flags tx pk)
      | _, _ => bad
    | _, _, _, _, _ => bad
  | "eval" :: flags :: sv :: ver :: lt :: sq :: idx :: nouts :: script :: annex :: leaf :: weight :: n :: items =>
    match flags.toNat?, svOf sv, Hex.decode script, optDec annex, Hex.decode leaf, weight.toInt?, n.toNat?, decodeAll items with
    | some flags, some sv, some script, some annex, some leaf, some weight, some n, some items =>
      if items.length != n then bad else
      match txOf ver lt sq idx nouts [] [], F? with
      | some tx, some F => (t, doEval t F flags sv tx script annex leaf weight items)
      | _, _ => bad
    | _, _, _, _, _, _, _, _ => bad
  | ["num", b] =>
    match Hex.decode b with
    | some b =>
      let m := match bts2int b with | .ok v => toString v | _ => "panic"
      (t, s!"{m} {b01 (isMinimal b)} {b01 (bts2bool b)} {ScriptSpec.ScriptNum.decode b} {b01 (ScriptSpec.ScriptNum.minimal b)} {b01 (ScriptSpec.castToBool b)}")
    | none => bad
  | ["pushint", v] =>
    match v.toInt? with
    | some v => (t, s!"{Hex.encode (intBytes v)} {Hex.encode (ScriptSpec.ScriptNum.encode v)}")
    | none => bad
  | ["getop", b] =>
    match Hex.decode b with
    | some b =>
      let m := match getOpcode b with
        | none => "err"
        | some op => s!"{op.opcode} {optHex op.push} {op.n}"
      let s := match ScriptSpec.parseOne b with
        | none => "serr"
        | some i => s!"{i.op} {Hex.encode i.data} {i.after.length}"
      (t, m ++ " | " ++ s)
    | none => bad
  | ["delsig", w, sg] =>
    match Hex.decode w, Hex.decode sg with
    | some w, some sg =>
      let (r, c) := delSig w sg
      let (r2, c2) := ScriptSpec.findAndDelete w (ScriptSpec.pushEncoding sg)
      (t, s!"{Hex.encode r} {c} {Hex.encode r2} {c2}")
    | _, _ => bad
  | ["sigenc", flags, sg] =>
    match flags.toNat?, Hex.decode sg with
    | some flags, some sg =>
      let s := match ScriptSpec.checkSignatureEncoding (ScriptSpec.Flags.ofMask flags) sg with
        | .ok _ => "OK" | .error e => errName e
      (t, s!"{b01 (checkSignatureEncoding sg flags)} {s}")
    | _, _ => bad
  | ["pkenc", flags, sv, pk] =>
    match flags.toNat?, svOf sv, Hex.decode pk with
    | some flags, some sv, some pk =>
      let s := match ScriptSpec.checkPubKeyEncoding (ScriptSpec.Flags.ofMask flags) sv pk with
        | .ok _ => "OK" | .error e => errName e
      (t, s!"{b01 (checkPubKeyEncoding pk flags sv)} {s}")
    | _, _, _ => bad
  | ["minpush", d, op] =>
    match Hex.decode d, op.toNat? with
    | some d, some op => (t, s!"{b01 (checkMinimalPush d op)} {b01 (ScriptSpec.checkMinimalPush d op)}")
    | _, _ => bad
  | ["sha1", b] => match Hex.decode b with | some b => (t, Hex.encode (sha1 b)) | none => bad
  | ["sha256", b] => match Hex.decode b with | some b => (t, Hex.encode (sha256 b)) | none => bad
  | ["ripemd160", b] => match Hex.decode b with | some b => (t, Hex.encode (ripemd160 b)) | none => bad
  | _ => bad

/-! ### the transaction of the case (for the reference's signature digests) -/

def parseIns : Nat → List String → Option (List (Wire.TxIn × Wire.TxOut) × List String)
  | 0, r => some ([], r)
  | n+1, ph :: vo :: sq :: sv :: ss :: r => do
    let ph ← Hex.decode ph
    let ss ← Hex.decode ss
    let i : Wire.TxIn := { prevHash := ph, prevIdx := ← vo.toNat?, scriptSig := [], sequence := ← sq.toNat? }
    let o : Wire.TxOut := { value := ← sv.toNat?, pkScript := ss }
    let (rest, r') ← parseIns n r
    pure ((i, o) :: rest, r')
  | _, _ => none

def parseOuts : Nat → List String → Option (List Wire.TxOut × List String)
  | 0, r => some ([], r)
  | n+1, v :: sc :: r => do
    let sc ← Hex.decode sc
    let (rest, r') ← parseOuts n r
    pure ({ value := ← v.toNat?, pkScript := sc } :: rest, r')
  | _, _ => none

def parseTx : List String → Option FullTx
  | idx :: ver :: lt :: nin :: r => do
    let (ins, r1) ← parseIns (← nin.toNat?) r
    match r1 with
    | nout :: r2 =>
      let (outs, r3) ← parseOuts (← nout.toNat?) r2
      if !r3.isEmpty then none else
      let idx ← idx.toNat?
      if idx ≥ ins.length then none else
      pure { tx := { version := ← ver.toNat?, ins := ins.map (·.1), outs := outs, witness := none, lockTime := ← lt.toNat? },
             spent := ins.map (·.2), idx := idx }
    | [] => none
  | _ => none

structure OSt where
  t : Table := []
  F : Option FullTx := none

def digestStr : Option Bytes → String
  | some d => Hex.encode d
  | none => "undef"

def step (s : OSt) (toks : List String) : OSt × String :=
  match toks with
  | "tx" :: r =>
    match parseTx r with
    | some F => ({ s with F := some F }, "ok")
    | none => (s, "bad-op")
  | ["refsig", "sigl", sc, ht] =>
    match s.F, Hex.decode sc, ht.toNat? with
    | some F, some sc, some ht => (s, digestStr (SigRef.legacyDigest sha256d F sc ht))
    | _, _, _ => (s, "bad-op")
  | ["refsig", "sigw", sc, ht] =>
    match s.F, Hex.decode sc, ht.toNat? with
    | some F, some sc, some ht => (s, digestStr (SigRef.witV0Digest sha256d F sc ht))
    | _, _, _ => (s, "bad-op")
  | ["refsig", "sigt", a, l, c, h, sp] =>
    match s.F, optDec a, Hex.decode l, c.toNat?, h.toNat? with
    | some F, some a, some l, some c, some h =>
      if sp == "0" || sp == "1" then (s, Hex.encode (SigRef.tapDigest sha256 F a l c h (sp == "1"))) else (s, "bad-op")
    | _, _, _, _, _ => (s, "bad-op")
  | _ =>
    let (t', r) := stepT s.F s.t toks
    ({ s with t := t' }, r)

def main : IO Unit := Proto.serve ({} : OSt) step
