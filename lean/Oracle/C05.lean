/-
  oracle_c05 — line-protocol driver for the C05 models (Target, Retarget, BlockCheck).
  Stateful: `node` adds a BlockTreeNode to an in-memory tree, later requests name nodes by index.
  Requests (numbers decimal, byte strings hex, "-" = empty):
    setc <u32>                               -> <int>
    getc <int>                               -> <u32>
    pow <hash32 hex> <bits>                  -> 0|1
    core <u32>                               -> <negative 0|1> <overflow 0|1>
    cons <mainnet|testnet3|testnet4>         -> maxbits maxvalue bip34 bip65 bip66 csv segwit taproot (as regenerated from NewChainExt)
    reset                                    -> ok
    node <parent idx|-1> <height> <ts> <bits> -> <idx>
    gnwr <idx> <ts> <testnet> <testnet4> <maxbits> <maxvalue>   -> ok <u32> | panic
    mtp <idx>                                -> ok <n> | panic
    u2s <n>                                  -> <hex>
    merkle <h,h,…|_>                          -> ok <root> <mutated> | panic
    final <lock> <height> <time> <seq,seq,…|_> -> 0|1
    flags <height> <time> <bip34> <bip65> <bip66> <csv> <segwit> <taproot> -> <n>
    weight <nowit:size,…|_>                  -> <n>
    pre <rawLen> <ver> <hash32> <prevhash32> <bits> <time> <now> <known n | g<entry hash32> | d<entry hash32>> <parent idx|-1>
        <parentIsLast> <lastHeight> <testnet> <testnet4> <maxbits> <maxvalue> <bip34> <bip65> <bip66>
                                             -> <dos> <maybelater> <code> <height> <mtp> | panic
      (known / parent = the BlockIndex ENTRY the caller found under the 8-byte key; the entry's whole hash is given for
       `known`, and taken from the node (`idx`) for the parent; the whole-hash comparisons are the model's)
    post <rawLen> <preParsed> <buildOk> <trusted> <height> <mtp> <time> <merkleroot>
         <bip34> <bip65> <bip66> <csv> <segwit> <taproot> <bl.TxCount on entry> <tx>*
                                             -> <code> <flags> | panic
      tx = txid,wtxid,lock,nowit,size,ins,in0script,outs,segwit,values   (see parseTx)
    idx <hash32> <node idx>                  -> ok        (node.BlockHash = hash; ch.BlockIndex[hash.BIdx()] = node)
    unidx <hash32>                           -> ok        (delete(ch.BlockIndex, hash.BIdx()))
    last <node idx>                          -> ok        (ch.SetLast)
    cb <rawLen> <ver> <hash32> <prevhash32> <bits> <time> <now> <testnet> <testnet4> <maxbits> <maxvalue>
       <bip34> <bip65> <bip66> <csv> <segwit> <taproot> <preParsed> <buildOk> <buildAssigned> <trusted> <merkleroot>
       <bl.TxCount on entry> <count field of Raw> <tx>*
                                             -> <dos> <maybelater> <code> <bl.Height> <bl.MedianPastTime> <bl.VerifyFlags> <len(bl.Txs)|nil>
                                                <#nodes> <len(BlockIndex)> <last> <bl.TxCount>     | panic
       (Chain.CheckBlock with its effects: `BlockCheck.checkBlockM` on the chain state held here)
-/
import GocoinV.Model.BlockCheck
import GocoinV.Base.Sha256
import GocoinV.Base.Proto
open GocoinV GocoinV.Target GocoinV.Retarget GocoinV.BlockCheck

structure St where
  nodes : Array (Node × Int) := #[]
  hashes : Array Nat := #[]
  index : List (Nat × Nat) := []
  last : Nat := 0

def St.chain (s : St) (idx : Int) : List Node := chainOf s.nodes (s.nodes.size + 1) idx

def St.cs (s : St) : ChainSt Unit := { nodes := s.nodes, hashes := s.hashes, index := s.index, last := s.last, unspent := () }

def b01 (s : String) : Option Bool := if s == "1" then some true else if s == "0" then some false else none

def hexItem (s : String) : Option Bytes :=
  if s == "_" || s == "e" || s == "-" then some [] else Hex.decodeChars s.toList

def listOf {α} (s : String) (sep : String) (f : String → Option α) : Option (List α) :=
  if s == "_" then some [] else (s.splitOn sep).mapM f

def parseIn (s : String) : Option TxIn :=
  match s.splitOn ":" with
  | [n, q, l] => do
    let n ← b01 n
    let q ← q.toNat?
    let l ← l.toNat?
    pure { null := n, seq := q, scriptLen := l }
  | _ => none

def parseSegwit (s : String) : Option (Option (List (List Bytes))) :=
  if s == "nil" then some none
  else if s.startsWith "w" then
    let rest := (s.drop 1).toString
    if rest == "" then some (some [])
    else do
      let stacks ← (rest.splitOn ";").mapM (fun st =>
        if st == "" then some [] else (st.splitOn ".").mapM hexItem)
      pure (some stacks)
  else none

def parseOuts (s : String) : Option (List Bytes) :=
  if s.startsWith "#" then ((s.drop 1).toString.toNat?).map (fun n => List.replicate n [])
  else listOf s ";" hexItem

def parseTx (s : String) : Option Tx :=
  match s.splitOn "," with
  | [txid, wtxid, lock, nowit, size, ins, in0, outs, sw, vals] => do
    let txid ← hexItem txid
    let wtxid ← hexItem wtxid
    let lock ← lock.toNat?
    let nowit ← nowit.toNat?
    let size ← size.toNat?
    let ins ← listOf ins ";" parseIn
    let in0 ← hexItem in0
    let outs ← parseOuts outs
    let sw ← parseSegwit sw
    let vals ← listOf vals ";" String.toNat?
    pure { ins := ins, in0Script := in0, outs := outs, segwit := sw, outValues := vals, txid := txid, wtxid := wtxid,
           lockTime := lock, noWitSize := nowit, size := size }
  | _ => none

def parseCons (a b c d e f : String) : Option Consensus := do
  pure { bip34Height := ← a.toNat?, bip65Height := ← b.toNat?, bip66Height := ← c.toNat?,
         enforceCSV := ← d.toNat?, enforceSegwit := ← e.toNat?, enforceTaproot := ← f.toNat? }

def step (s : St) (toks : List String) : St × String :=
  let bad := (s, "bad-op")
  let reply (o : Option String) : St × String := match o with | some r => (s, r) | none => bad
  match toks with
  | ["setc", c] => reply do
      let c ← c.toNat?
      if c ≥ 2^32 then none else pure s!"{setCompact c}"
  | ["getc", b] => reply do
      let b ← b.toInt?
      pure s!"{getCompact b}"
  | ["pow", h, bits] => reply do
      let h ← Hex.decode h
      let bits ← bits.toNat?
      if h.length ≠ 32 then none else pure (Proto.boolStr (checkProofOfWork (leVal h) bits))
  | ["core", c] => reply do
      let c ← c.toNat?
      pure s!"{Proto.boolStr (coreNegative c)} {Proto.boolStr (coreOverflow c)}"
  | ["cons", net] =>
    -- the consensus parameters as the translator read them from NewChainExt (Gen/ConsensusConsts.lean)
    open GocoinV.Gen.ConsensusConsts in
    if net == "mainnet" then (s, s!"{mainnet_MaxPOWBits} {MaxPOWValue} {mainnet_BIP34Height} {mainnet_BIP65Height} {mainnet_BIP66Height} {mainnet_Enforce_CSV} {mainnet_Enforce_SEGWIT} {mainnet_Enforce_Taproot}")
    else if net == "testnet3" then (s, s!"{testnet3_MaxPOWBits} {MaxPOWValue} {testnet3_BIP34Height} {testnet3_BIP65Height} {testnet3_BIP66Height} {testnet3_Enforce_CSV} {testnet3_Enforce_SEGWIT} {testnet3_Enforce_Taproot}")
    else if net == "testnet4" then (s, s!"{testnet4_MaxPOWBits} {MaxPOWValue} {testnet4_BIP34Height} {testnet4_BIP65Height} {testnet4_BIP66Height} {testnet4_Enforce_CSV} {testnet4_Enforce_SEGWIT} {testnet4_Enforce_Taproot}")
    else bad
  | ["reset"] => ({}, "ok")
  | ["node", p, h, t, b] =>
    match p.toInt?, h.toNat?, t.toNat?, b.toNat? with
    | some p, some h, some t, some b =>
      if p ≥ (s.nodes.size : Int) then bad
      else ({ s with nodes := s.nodes.push ({ height := h, ts := t, bits := b }, p), hashes := s.hashes.push 0 }, s!"{s.nodes.size}")
    | _, _, _, _ => bad
  | ["gnwr", idx, ts, tn, tn4, mb, mv] => reply do
      let idx ← idx.toInt?
      let ts ← ts.toNat?
      let p : Params := { maxPowBits := ← mb.toNat?, maxPowValue := ← mv.toInt?, testnet := ← b01 tn, testnet4 := ← b01 tn4 }
      match getNextWorkRequired p (s.chain idx) ts with
      | some r => pure s!"ok {r}"
      | none => pure "panic"
  | ["mtp", idx] => reply do
      let idx ← idx.toInt?
      match getMedianTimePast (s.chain idx) with
      | some r => pure s!"ok {r}"
      | none => pure "panic"
  | ["u2s", n] => reply do
      let n ← n.toNat?
      if n ≥ 2^32 then none else pure (Hex.encode (uintToScript n))
  | ["merkle", l] => reply do
      let l ← listOf l "," hexItem
      match calcMerkle sha256d l with
      | some (r, m) => pure s!"ok {Hex.encode r} {Proto.boolStr m}"
      | none => pure "panic"
  | ["final", lock, height, time, seqs] => reply do
      let seqs ← listOf seqs "," String.toNat?
      pure (Proto.boolStr (isFinal (← lock.toNat?) seqs (← height.toNat?) (← time.toNat?)))
  | ["flags", h, t, a, b, c, d, e, f] => reply do
      let cons ← parseCons a b c d e f
      pure s!"{getBlockFlags cons (← h.toNat?) (← t.toNat?)}"
  | ["weight", l] => reply do
      let l ← listOf l "," (fun x => match x.splitOn ":" with
        | [a, b] => do pure ({ ins := [], in0Script := [], outs := [], outValues := [], segwit := none, txid := [], wtxid := [],
                               lockTime := 0, noWitSize := ← a.toNat?, size := ← b.toNat? } : Tx)
        | _ => none)
      pure s!"{blockWeight l}"
  | ["pre", rawLen, ver, hash, prev, bits, time, now, known, pidx, pil, lastH, tn, tn4, mb, mv, b34, b65, b66] => reply do
      let hash ← Hex.decode hash
      if hash.length ≠ 32 then none
      let prev ← Hex.decode prev
      if prev.length ≠ 32 then none
      let known : Option (Nat × Bool) ←
        (if known == "n" then some none
         else if known.startsWith "g" || known.startsWith "d" then do
           let kh ← Hex.decode (known.drop 1).toString
           if kh.length ≠ 32 then none
           pure (some (leVal kh, known.startsWith "g"))
         else none)
      let pidx ← pidx.toInt?
      let p : Params := { maxPowBits := ← mb.toNat?, maxPowValue := ← mv.toInt?, testnet := ← b01 tn, testnet4 := ← b01 tn4 }
      let cons ← parseCons b34 b65 b66 "0" "0" "0"
      let i : PreIn := { rawLen := ← rawLen.toNat?, ver := ← ver.toNat?, hash := leVal hash, parentHash := leVal prev, bits := ← bits.toNat?,
                         time := ← time.toNat?, now := ← now.toInt?, known := known,
                         parent := if pidx < 0 then none else some (s.cs.hashOf pidx.toNat, s.chain pidx),
                         parentIsLast := ← b01 pil, lastHeight := ← lastH.toNat? }
      match preCheckBlock p cons i with
      | none => pure "panic"
      | some o => pure s!"{Proto.boolStr o.dos} {Proto.boolStr o.maybelater} {o.err.code} {o.height} {o.mtp}"
  | "post" :: rawLen :: pp :: bo :: tr :: height :: mtp :: time :: root :: b34 :: b65 :: b66 :: csv :: sw :: tap :: cnt :: txs => reply do
      let cons ← parseCons b34 b65 b66 csv sw tap
      let txs ← txs.mapM parseTx
      let i : PostIn := { rawLen := ← rawLen.toNat?, preParsed := ← b01 pp, buildOk := ← b01 bo, trusted := ← b01 tr,
                          height := ← height.toNat?, mtp := ← mtp.toNat?, time := ← time.toNat?,
                          merkleRoot := ← Hex.decode root, txs := txs, cntOnEntry := ← cnt.toNat? }
      match postCheckBlock sha256d cons i with
      | none => pure "panic"
      | some (e, f) => pure s!"{e.code} {f}"
  | ["idx", h, i] =>
    match Hex.decode h, i.toNat? with
    | some h, some i =>
      if h.length = 32 ∧ i < s.nodes.size then
        let k := bidx (leVal h)
        ({ s with hashes := s.hashes.setIfInBounds i (leVal h), index := (k, i) :: s.index.filter (·.1 != k) }, "ok")
      else bad
    | _, _ => bad
  | ["unidx", h] =>
    match Hex.decode h with
    | some h => if h.length = 32 then ({ s with index := s.index.filter (·.1 != bidx (leVal h)) }, "ok") else bad
    | none => bad
  | ["last", i] =>
    match i.toNat? with
    | some i => if i < s.nodes.size then ({ s with last := i }, "ok") else bad
    | none => bad
  | "cb" :: rawLen :: ver :: hash :: prev :: bits :: time :: now :: tn :: tn4 :: mb :: mv :: b34 :: b65 :: b66 :: csv :: sw :: tap ::
      pp :: bo :: ba :: tr :: root :: cnt :: rcnt :: roff :: off :: wgt :: tin :: txs => reply do
      let hash ← Hex.decode hash
      if hash.length ≠ 32 then none
      let prev ← Hex.decode prev
      if prev.length ≠ 32 then none
      let p : Params := { maxPowBits := ← mb.toNat?, maxPowValue := ← mv.toInt?, testnet := ← b01 tn, testnet4 := ← b01 tn4 }
      let cons ← parseCons b34 b65 b66 csv sw tap
      let txs ← txs.mapM parseTx
      let pp ← b01 pp
      let bl : BlockObj := { rawLen := ← rawLen.toNat?, ver := ← ver.toNat?, hash := leVal hash, parentHash := leVal prev,
                             bits := ← bits.toNat?, time := ← time.toNat?, merkleRoot := ← Hex.decode root,
                             trusted := ← b01 tr, build := if (← b01 ba) then some txs else none, buildOk := ← b01 bo, height := 0, mtp := 0,
                             txs := if pp then some txs else none, verifyFlags := 0,
                             txCount := ← cnt.toNat?, rawCount := ← rcnt.toNat?, rawOffset := ← roff.toNat?,
                             txOffset := ← off.toNat?, weight := ← wgt.toNat?, totalInputs := ← tin.toNat? }
      match checkBlockM p cons sha256d (← now.toInt?) s.cs bl with
      | none => pure "panic"
      | some (cs, bl, r) =>
        let ntx := match bl.txs with | none => "nil" | some l => toString l.length
        pure s!"{Proto.boolStr r.dos} {Proto.boolStr r.maybelater} {r.code} {bl.height} {bl.mtp} {bl.verifyFlags} {ntx} {cs.nodes.size} {cs.index.length} {cs.last} {bl.txCount} {bl.txOffset} {bl.weight} {bl.totalInputs}"
  | _ => bad

def main : IO Unit := Proto.serve ({} : St) step
