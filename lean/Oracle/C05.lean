/- oracle_c05 — placeholder driver (replaced when the C05 model is added). -/
import GocoinV.Base.Proto
open GocoinV
def main : IO Unit := Proto.serve () (fun _ _ => ((), "bad-op"))
