/-
  oracle_c03 — line-protocol driver for the C03 model (Model/Sig.lean) and specs (Spec/Ecdsa, Bip340,
  TapTweak, Rfc6979). Byte strings in hex ("-" = empty); numbers are big-endian byte strings.
    ecdsa <pk> <sig> <msg>            -> <model 0|1> <code 1|0|-1|-2> <spec 0|1>
    ecdsam <pk> <sig> <msg>           -> <model 0|1> <code>            (model only, cheaper)
    pub <pk>                          -> m <x> <y> | m none ; s <x> <y> | s none   (one line)
    psig <sig>                        -> m <r> <s> <len> | m none ; s <r> <s> | s none
    schnorr <pk> <sig> <msg>          -> <model 0|1> <spec 0|1> <spec-text 0|1>   (Spec.Bip340.verify / verifyText)
    tweak <qx> <base> <hash> <0|1>    -> <model 0|1> <spec 0|1>
    sign <sec> <msg> <nonce>          -> ok <r> <s> <recid> <der|panic> <strict 0|1> <lowS 0|1> | none
    signrfc <priv> <hash>             -> ok <r> <s> <nonce> | none
    nonce <prv> <msg> <counter>       -> <model> <spec candidate>
    hmac <key> <data>                 -> <model hmacGo> <spec hmac>
    recover <r> <s> <h> <recid>       -> ok <x> <y> | inf | none
    ssign <m> <sk> <aux>              -> m <sig|none> s <sig|none>
    legacy ecdsa|schnorr|tweak …      -> the model of the pinned snapshot (before the fix: commits)
    legacy recov <r> <s> <h> <recid hex byte> -> ok <x> <y> | inf | none     (recoverPublicKeyLegacy)
    legacy ssign <m> <sk> <aux>       -> panic | nopanic                    (schnorrSignLegacyPanics)
    schnorre <pk> <sig> <e32>         -> <model 0|1> <spec 0|1> <spec-text 0|1>   SchnorrVerify / BIP340 verify evaluated with the
                                         CONSTANT hash function H = fun _ => e32 (the theorems hold for every H),
                                         i.e. with the challenge bytes injected: the only way to reach e ≥ n
    ecmult <pk33|65> <neg 0|1> <mag> <ng> -> inf | <x> <y>      Sig.ecmult A (±mag) ng  (XYZ.ECmult, na possibly negative)
-/
import GocoinV.Model.Sig
import GocoinV.Spec.Ecdsa
import GocoinV.Spec.Bip340
import GocoinV.Spec.TapTweak
import GocoinV.Spec.Rfc6979
import GocoinV.Base.Sha256
import GocoinV.Base.Proto
open GocoinV GocoinV.Model

def b (x : Bool) : String := Proto.boolStr x
def nat32 (v : Nat) : String := Hex.encode (beBytes 32 v)
def natHex (v : Nat) : String := Hex.encode (match Sig.natBytes v with | [] => [0] | l => l)

def optB : Option Bool → String
  | some x => b x
  | none => "panic"

def step (_ : Unit) (toks : List String) : Unit × String :=
  let bad := ((), "bad-op")
  match toks with
  | ["ecdsa", pk, sg, msg] =>
    match Hex.decode pk, Hex.decode sg, Hex.decode msg with
    | some pk, some sg, some msg =>
      ((), s!"{b (Sig.ecdsaVerify true pk sg msg)} {Sig.ecdsaVerifyCode true pk sg msg} {b (Spec.Ecdsa.verify pk sg msg)}")
    | _, _, _ => bad
  | ["ecdsam", pk, sg, msg] =>
    match Hex.decode pk, Hex.decode sg, Hex.decode msg with
    | some pk, some sg, some msg =>
      ((), s!"{b (Sig.ecdsaVerify true pk sg msg)} {Sig.ecdsaVerifyCode true pk sg msg}")
    | _, _, _ => bad
  | ["pub", pk] =>
    match Hex.decode pk with
    | some pk =>
      let m := match Sig.parsePubkey true pk with
        | some (x, y) => s!"m {nat32 x} {nat32 y}" | none => "m none"
      let s := match Secp.parsePubkey pk with
        | some (x, y) => s!"s {nat32 x} {nat32 y}" | none => "s none"
      ((), s!"{m} ; {s}")
    | _ => bad
  | ["psig", sg] =>
    match Hex.decode sg with
    | some sg =>
      let m := match Sig.parseBytes sg with
        | some (r, s, l) => s!"m {natHex r} {natHex s} {l}" | none => "m none"
      let s := match Spec.Ecdsa.decodeSig sg with
        | some (r, s) => s!"s {natHex r} {natHex s}" | none => "s none"
      ((), s!"{m} ; {s} ; {b (Spec.Ecdsa.isStrictDER sg)}")
    | _ => bad
  | ["schnorr", pk, sg, msg] =>
    match Hex.decode pk, Hex.decode sg, Hex.decode msg with
    | some pk, some sg, some msg =>
      ((), s!"{b (Sig.schnorrVerify sha256 pk sg msg)} {b (Spec.Bip340.verify sha256 pk sg msg)} {b (Spec.Bip340.verifyText sha256 pk sg msg)}")
    | _, _, _ => bad
  | ["tweak", qx, base, h, par] =>
    match Hex.decode qx, Hex.decode base, Hex.decode h with
    | some qx, some base, some h =>
      if par ≠ "0" ∧ par ≠ "1" then bad else
      ((), s!"{b (Sig.checkPayToContract qx base h (par == "1"))} {b (Spec.TapTweak.check qx base h (par == "1"))}")
    | _, _, _ => bad
  | ["sign", sec, msg, k] =>
    match Hex.decode sec, Hex.decode msg, Hex.decode k with
    | some sec, some msg, some k =>
      match Sig.sign (beVal sec) (beVal msg) (beVal k) with
      | none => ((), "none")
      | some (r, s, recid) =>
        match Sig.sigBytes r s with
        | none => ((), s!"ok {nat32 r} {nat32 s} {recid} panic 0 {b (Sig.isLowS s)}")
        | some der => ((), s!"ok {nat32 r} {nat32 s} {recid} {Hex.encode der} {b (Spec.Ecdsa.isStrictDER der)} {b (Sig.isLowS s)}")
    | _, _, _ => bad
  | ["signrfc", priv, h] =>
    match Hex.decode priv, Hex.decode h with
    | some priv, some h =>
      match Sig.ecdsaSignRfc sha256 priv h with
      | none => ((), "none")
      | some (r, s) => ((), s!"ok {nat32 r} {nat32 s} {Hex.encode (Sig.rfc6979Nonce sha256 priv h 0)}")
    | _, _ => bad
  | ["nonce", prv, msg, c] =>
    match Hex.decode prv, Hex.decode msg, c.toNat? with
    | some prv, some msg, some c =>
      if c > 64 then bad else
      ((), s!"{Hex.encode (Sig.rfc6979Nonce sha256 prv msg c)} {Hex.encode (Spec.Rfc6979.candidate sha256 prv msg c)}")
    | _, _, _ => bad
  | ["hmac", key, data] =>
    match Hex.decode key, Hex.decode data with
    | some key, some data =>
      ((), s!"{Hex.encode (Sig.hmacGo sha256 key data)} {Hex.encode (C03.hmac sha256 key data)}")
    | _, _ => bad
  | ["recover", r, s, h, recid] =>
    match Hex.decode r, Hex.decode s, Hex.decode h, recid.toNat? with
    | some r, some s, some h, some recid =>
      if recid > 3 then bad else
      match Sig.recoverPublicKey (beVal r) (beVal s) h recid with
      | none => ((), "none")
      | some none => ((), "inf")
      | some (some (x, y)) => ((), s!"ok {nat32 x} {nat32 y}")
    | _, _, _, _ => bad
  | ["ssign", m, sk, a] =>
    match Hex.decode m, Hex.decode sk, Hex.decode a with
    | some m, some sk, some a =>
      let o := fun (x : Option Bytes) => match x with | some s => Hex.encode s | none => "none"
      ((), s!"m {o (Sig.schnorrSign sha256 m sk a)} s {o (Spec.Bip340.sign sha256 m sk a)}")
    | _, _, _ => bad
  | ["schnorre", pk, sg, e] =>
    match Hex.decode pk, Hex.decode sg, Hex.decode e with
    | some pk, some sg, some e =>
      if e.length ≠ 32 then bad else
      let H : C03.Hash := fun _ => e
      ((), s!"{b (Sig.schnorrVerify H pk sg [])} {b (Spec.Bip340.verify H pk sg [])} {b (Spec.Bip340.verifyText H pk sg [])}")
    | _, _, _ => bad
  | ["ecmult", pk, neg, mag, ng] =>
    match Hex.decode pk, Hex.decode mag, Hex.decode ng with
    | some pk, some mag, some ng =>
      if neg ≠ "0" ∧ neg ≠ "1" then bad else
      match Secp.parsePubkey pk with
      | none => bad
      | some A =>
        let na : Int := if neg == "1" then - ((beVal mag : Nat) : Int) else ((beVal mag : Nat) : Int)
        match Sig.ecmult (some A) na (beVal ng) with
        | none => ((), "inf")
        | some (x, y) => ((), s!"{nat32 x} {nat32 y}")
    | _, _, _ => bad
  | ["legacy", "ecdsa", pk, sg, msg] =>
    match Hex.decode pk, Hex.decode sg, Hex.decode msg with
    | some pk, some sg, some msg => ((), s!"{b (Sig.ecdsaVerify false pk sg msg)}")
    | _, _, _ => bad
  | ["legacy", "schnorr", pk, sg, msg] =>
    match Hex.decode pk, Hex.decode sg, Hex.decode msg with
    | some pk, some sg, some msg => ((), optB (Sig.schnorrVerify? false sha256 pk sg msg))
    | _, _, _ => bad
  | ["legacy", "recov", r, s, h, recid] =>
    match Hex.decode r, Hex.decode s, Hex.decode h, Hex.decode recid with
    | some r, some s, some h, some [rc] =>
      if rc.toNat > 3 then bad else
      match Sig.recoverPublicKeyLegacy (beVal r) (beVal s) h rc.toNat with
      | none => ((), "none")
      | some none => ((), "inf")
      | some (some (x, y)) => ((), s!"ok {nat32 x} {nat32 y}")
    | _, _, _, _ => bad
  | ["legacy", "ssign", m, sk, a] =>
    match Hex.decode m, Hex.decode sk, Hex.decode a with
    | some _, some sk, some _ => ((), if Sig.schnorrSignLegacyPanics sk then "panic" else "nopanic")
    | _, _, _ => bad
  | ["legacy", "tweak", qx, base, h, par] =>
    match Hex.decode qx, Hex.decode base, Hex.decode h with
    | some qx, some base, some h =>
      if par ≠ "0" ∧ par ≠ "1" then bad else
      ((), optB (Sig.checkPayToContract? false qx base h (par == "1")))
    | _, _, _ => bad
  | _ => bad

def main : IO Unit := Proto.serve () step
