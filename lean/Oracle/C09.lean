/-
  oracle_c09 — line-protocol driver for Model.Wire (transaction / block wire format).
  Requests (byte strings hex, "-" = empty):
    tx <raw>      -> none
                   | ok <consumed> <nowitsize(NewTx)> <segwit:0|1> <nin> <nout> <encodeTx> <encodeTxNoWit>
                        <hash> <wtxid> <size> <nowitsize(SetHash)> <weight> <vsize> <txSize> <fields>
                     fields = F<version>/<lock_time>/<in;in;…>/<out;out;…>/<witness item counts n,n,… | ->   (the decoded
                     NUMBERS, not their re-serialisation)   in = <first 4 bytes of prev hash>.<prev index>.<sequence>.<len scriptSig>
                                                              out = <value>.<len pkScript>
                     (ids are those of SetHash(raw[:consumed]) with H = sha256d)
    txsize <raw>  -> <n>
    lax <raw>     -> none | ok <consumed> <encodeTx>        (NewTx as it was before the fix)
    enc <ver> <lock> <segwit:0|1> <nin> {<hash> <idx> <script> <seq>}* <nout> {<value> <script>}*
        [<nstacks> {<nitems> {<item>}*}*]   -> ok <encodeTx> <encodeTxNoWit>
    block <raw>   -> <err:none|tooShort|badCount|txFailed> <txCount> <weight> <ntx> {<hash>:<wtxid>:<size>:<nowitsize>}*
    merkle <raw>  -> <MerkleRootMatch 0|1> <GetMerkle root|none> <mutated 0|1>     (after NewBlock + BuildTxList)
    alloc <sizeof Tx> <sizeof TxIn> <sizeof TxOut> <raw> -> <bytes requested from the allocator by NewTx(raw)>
    txin <raw>    -> none | ok <consumed> <hash4>.<idx>.<seq>.<len> <scriptSig>     (btc.NewTxIn; none = nil OR panic)
    txout <raw>   -> none | ok <consumed> <value>.<len> <pkScript>                   (btc.NewTxOut)
    txinsize <raw> / txoutsize <raw> -> panic | <n>                                   (btc.TxInSize / TxOutSize; 0 = refused)
    vlen <raw>    -> <value as Go int> <size>                                          (btc.VLen, Base.vlen; 0 0 = buffer too short)
    putule <n>    -> <bytes>                                                            (canonical CompactSize, Base.putULe)
    vule <raw>    -> <value> <size>                                                      (btc.VULe, Base.vule: unsigned value; 0 0 = too short)
    vlensize <n>  -> <1|3|5|9>                                                           (btc.VLenSize, Base.vlenSize)
  Model/WireFast.lean is imported for its @[csimp] equations only (txSize in time linear in the input).
    obj <data> {u:<raw> | b0 | b1 | c | d:<raw>}*   one btc.Block object through a history (Model/WireBlockObj.lean):
                  NewBlock(data), then UpdateContent / BuildTxListExt(false|true) / Clean / the client's reset
                  -> none (NewBlock refused: no object)
                   | one segment per call, NewBlock first:
                     <outcome>/<TxCount>/<TxOffset>/<BlockWeight>/<TotalInputs>/<nil | n{,<hash>:<wtxid>:<size>:<nowitsize>}*>
-/
import GocoinV.Model.Wire
import GocoinV.Model.WireFast
import GocoinV.Model.WireAlloc
import GocoinV.Model.WireBlock
import GocoinV.Model.WireBlockObj
import GocoinV.Base.Sha256
import GocoinV.Base.Proto
open GocoinV GocoinV.Wire

/-- the decoded fields as numbers (a decode/encode pair that is wrong in the same way cancels out in every
    re-serialisation and hash; it does not here) -/
def fieldsTok (tx : Tx) : String :=
  let ins := ";".intercalate (tx.ins.map fun i => s!"{Hex.encodeRaw (i.prevHash.take 4)}.{i.prevIdx}.{i.sequence}.{i.scriptSig.length}")
  let outs := ";".intercalate (tx.outs.map fun o => s!"{o.value}.{o.pkScript.length}")
  let w := match tx.witness with
    | none => "-"
    | some st => ",".intercalate (st.map fun (s : List Bytes) => toString s.length)
  s!"F{tx.version}/{tx.lockTime}/{ins}/{outs}/{w}"

def txReply (b : Bytes) : String :=
  match decodeTxFull b with
  | none => "none"
  | some d =>
    let raw := b.take d.consumed
    let ids := setHash sha256d d.tx raw
    let sw := match d.tx.witness with | some _ => "1" | none => "0"
    s!"ok {d.consumed} {d.noWitSize} {sw} {d.tx.ins.length} {d.tx.outs.length} {Hex.encode (encodeTx d.tx)} {Hex.encode (encodeTxNoWit d.tx)} {Hex.encode ids.hash} {Hex.encode ids.wtxid} {ids.size} {ids.noWitSize} {weight ids.noWitSize ids.size} {vsize ids.noWitSize ids.size} {txSize b} {fieldsTok d.tx}"

/-- token-stream parser for `enc` -/
def takeIns : Nat → List String → Option (List TxIn × List String)
  | 0, ts => some ([], ts)
  | n+1, h :: i :: s :: q :: ts => do
    let h ← Hex.decode h
    let i ← i.toNat?
    let s ← Hex.decode s
    let q ← q.toNat?
    let (l, ts) ← takeIns n ts
    pure ({ prevHash := h, prevIdx := i, scriptSig := s, sequence := q } :: l, ts)
  | _, _ => none

def takeOuts : Nat → List String → Option (List TxOut × List String)
  | 0, ts => some ([], ts)
  | n+1, v :: s :: ts => do
    let v ← v.toNat?
    let s ← Hex.decode s
    let (l, ts) ← takeOuts n ts
    pure ({ value := v, pkScript := s } :: l, ts)
  | _, _ => none

def takeItems : Nat → List String → Option (List Bytes × List String)
  | 0, ts => some ([], ts)
  | n+1, x :: ts => do
    let x ← Hex.decode x
    let (l, ts) ← takeItems n ts
    pure (x :: l, ts)
  | _, _ => none

def takeStacks : Nat → List String → Option (List (List Bytes) × List String)
  | 0, ts => some ([], ts)
  | n+1, k :: ts => do
    let k ← k.toNat?
    let (s, ts) ← takeItems k ts
    let (l, ts) ← takeStacks n ts
    pure (s :: l, ts)
  | _, _ => none

def encReply (ts : List String) : Option String :=
  match ts with
  | ver :: lock :: sw :: nin :: ts => do
    let ver ← ver.toNat?
    let lock ← lock.toNat?
    let nin ← nin.toNat?
    let (ins, ts) ← takeIns nin ts
    match ts with
    | nout :: ts =>
      let nout ← nout.toNat?
      let (outs, ts) ← takeOuts nout ts
      let wit ← (if sw == "1" then
          match ts with
          | ns :: ts => do
            let ns ← ns.toNat?
            let (w, ts) ← takeStacks ns ts
            if ts.isEmpty then pure (some w) else none
          | [] => none
        else if sw == "0" ∧ ts.isEmpty then pure none else none : Option (Option (List (List Bytes))))
      let t : Tx := { version := ver, ins := ins, outs := outs, witness := wit, lockTime := lock }
      pure s!"ok {Hex.encode (encodeTx t)} {Hex.encode (encodeTxNoWit t)}"
    | [] => none
  | _ => none

def errStr : Option BlockErr → String
  | none => "none" | some .tooShort => "tooShort" | some .badCount => "badCount" | some .txFailed => "txFailed"

def blockReply (b : Bytes) : String :=
  let r := decodeBlock sha256d b
  let txs := r.txs.map fun t => s!"{Hex.encode t.ids.hash}:{Hex.encode t.ids.wtxid}:{t.ids.size}:{t.ids.noWitSize}"
  s!"{errStr r.err} {r.txCount} {r.weight} {r.txs.length} " ++ " ".intercalate txs

def merkleReply (b : Bytes) : String :=
  let m := if merkleRootMatch sha256d b then "1" else "0"
  match getMerkle sha256d (decodeBlock sha256d b) with
  | none => s!"{m} none 0"
  | some (root, mutated) => s!"{m} {Hex.encode root} {if mutated then "1" else "0"}"

def outcomeStr : Outcome → String
  | .ok => "ok" | .tooShort => "tooShort" | .badCount => "badCount" | .txFailed => "txFailed" | .panic => "panic"

def objSeg (p : BlockObj × Outcome) : String :=
  let txs := match p.1.txs with
    | none => "nil"
    | some l => ",".intercalate (toString l.length ::
        l.map fun (t : BlockTx) => s!"{Hex.encode t.ids.hash}:{Hex.encode t.ids.wtxid}:{t.ids.size}:{t.ids.noWitSize}")
  s!"{outcomeStr p.2}/{p.1.txCount}/{p.1.txOffset}/{p.1.weight}/{p.1.totalInputs}/{txs}"

def parseOp (t : String) : Option Op :=
  if t == "b0" then some (.build false)
  else if t == "b1" then some (.build true)
  else if t == "c" then some .clean
  else if t.startsWith "u:" then (Hex.decode (t.drop 2).toString).map .update
  else if t.startsWith "d:" then (Hex.decode (t.drop 2).toString).map .discard
  else none

def objReply (data : Bytes) (ops : List Op) : String :=
  match newBlock data with
  | none => "none"
  | some p => " ".intercalate ((p :: trace sha256d ops p.1).map objSeg)

def step (_ : Unit) (toks : List String) : Unit × String :=
  let bad := ((), "bad-op")
  match toks with
  | ["tx", b] => match Hex.decode b with
    | some b => ((), txReply b)
    | none => bad
  | ["txsize", b] => match Hex.decode b with
    | some b => ((), toString (txSize b))
    | none => bad
  | ["lax", b] => match Hex.decode b with
    | some b => match decodeTxLax b with
      | some (t, n) => ((), s!"ok {n} {Hex.encode (encodeTx t)}")
      | none => ((), "none")
    | none => bad
  | ["txin", b] => match Hex.decode b with
    | some b => match decodeTxIn b with
      | some (i, rest) => ((), s!"ok {b.length - rest.length} {Hex.encodeRaw (i.prevHash.take 4)}.{i.prevIdx}.{i.sequence}.{i.scriptSig.length} {Hex.encode i.scriptSig}")
      | none => ((), "none")
    | none => bad
  | ["txout", b] => match Hex.decode b with
    | some b => match decodeTxOut b with
      | some (t, rest) => ((), s!"ok {b.length - rest.length} {t.value}.{t.pkScript.length} {Hex.encode t.pkScript}")
      | none => ((), "none")
    | none => bad
  | ["txinsize", b] => match Hex.decode b with
    | some b => ((), match txInSize b with | some n => toString n | none => "panic")
    | none => bad
  | ["txoutsize", b] => match Hex.decode b with
    | some b => ((), match txOutSize b with | some n => toString n | none => "panic")
    | none => bad
  | ["vlen", b] => match Hex.decode b with
    | some b => ((), s!"{(CompactSize.vlen b).1} {(CompactSize.vlen b).2}")
    | none => bad
  | ["putule", n] => match n.toNat? with
    | some n => ((), Hex.encode (CompactSize.putULe n))
    | none => bad
  | ["vule", b] => match Hex.decode b with
    | some b => ((), s!"{(CompactSize.vule b).1} {(CompactSize.vule b).2}")
    | none => bad
  | ["vlensize", n] => match n.toNat? with
    | some n => ((), toString (CompactSize.vlenSize n))
    | none => bad
  | "enc" :: ts => match encReply ts with
    | some r => ((), r)
    | none => bad
  | ["block", b] => match Hex.decode b with
    | some b => ((), blockReply b)
    | none => bad
  | ["merkle", b] => match Hex.decode b with
    | some b => ((), merkleReply b)
    | none => bad
  | "obj" :: d :: ts => match Hex.decode d, ts.mapM parseOp with
    | some d, some ops => ((), objReply d ops)
    | _, _ => bad
  | ["alloc", kt, ki, ko, b] => match kt.toNat?, ki.toNat?, ko.toNat?, Hex.decode b with
    | some kt, some ki, some ko, some b => ((), toString (allocTx { tx := kt, txIn := ki, txOut := ko } b))
    | _, _, _, _ => bad
  | _ => bad

def main : IO Unit := Proto.serve () step
