/-
  oracle_c10 — line-protocol driver for the C10 models (UTXO record codecs, script / amount
  compression, snapshot framing). Byte strings are lower-case hex, "-" = empty.
    camt <n>                         -> <compress n> <compressExact n>
    damt <x>                         -> <decompress x>
    cscr <script>                    -> ok <compressed> | nil
    dscr <data>                      -> ok <script> | nil | panic
    kvalid <key65>                   -> 0|1                 (mathKeys.valid65)
    kexpand <key33>                  -> <key65>             (mathKeys.expand33)
    ser <u|c> <txid> <height> <cb:0|1> <n> <k> (<idx> <value> <script>)*k   -> ok <bytes> <le> | nil
    dec <u|c> <bytes>                -> ok <txid> <height> <cb> <n> <k> (<idx> <value> <script>)*k | panic | hang
    one <u|c> <bytes|=> <vout>       ("=": the bytes of the last `dec` request)
                                     -> ok <value> <script> <height> <voutcount> <cb> | nil | panic | hang
    snapw <c:0|1> <height> <hash> <k> <rec>*k      -> ok <file>
    snapr <file>                     -> ok <c> <height> <hash> <k> <rec>*k | err
    merge <u|c> <undo bytes> <old bytes|nil>   UndoBlockTxs for one undo record: decode both, merge, serialise
                                     -> ok <bytes> | nil | panic
    load <UTXO.db bytes|nil> <UTXO.old bytes|nil> <cfg compressed:0|1>     NewUnspentDb with its retry (Model.UtxoLoad.loadDir
                                     over the retry shape regenerated from the source; nil = no such file)
                                     -> ok <c> <height> <hash> <totalTxs> <dataSize> <k> <rec>*k   (records in insertion order)
    rdvlen <data> <caps|->           btc.ReadVLen on a reader that serves the i-th Read with at most caps[i]+1 bytes
                                     (Model.UtxoShared.readVLenRd over the read shape regenerated from the source;
                                     caps = comma-separated naturals) -> ok <value> <bytes left unread> | err
    rdrecs <n> <data> <caps|->       the record loop of NewUnspentDb on such a reader -> ok <k> <rec>*k | err
-/
import GocoinV.Model.UtxoRec
import GocoinV.Model.UtxoUndo
import GocoinV.Model.UtxoLoad
import GocoinV.Model.UtxoShared
import GocoinV.Gen.UtxoLoaderFacts
import GocoinV.Gen.UtxoSharedFacts
import GocoinV.Base.Proto
open GocoinV GocoinV.UtxoRec

def K : ScriptCompress.KeyOps := ScriptCompress.mathKeys

/-! fast hex codecs (records reach megabytes; `Base.Hex.decodeChars` is not tail recursive) -/
def hexVal (c : UInt8) : Option UInt8 :=
  if 48 ≤ c ∧ c ≤ 57 then some (c - 48)
  else if 97 ≤ c ∧ c ≤ 102 then some (c - 87)
  else none

partial def unhexGo (a : ByteArray) (i : Nat) (acc : Bytes) : Option Bytes :=
  if i = 0 then some acc
  else match hexVal (a.get! (i - 2)), hexVal (a.get! (i - 1)) with
    | some x, some y => unhexGo a (i - 2) ((x * 16 + y) :: acc)
    | _, _ => none

def unhex (s : String) : Option Bytes :=
  if s == "-" then some []
  else
    let a := s.toUTF8
    if a.size % 2 == 1 then none else unhexGo a a.size []

def hexDigit (n : UInt8) : Char := if n < 10 then Char.ofNat (48 + n.toNat) else Char.ofNat (87 + n.toNat)

def hex (b : Bytes) : String :=
  if b.isEmpty then "-"
  else b.foldl (fun s x => (s.push (hexDigit (x / 16))).push (hexDigit (x % 16))) ""

def bit (s : String) : Option Bool := if s == "1" then some true else if s == "0" then some false else none

/-- (idx value script)* -/
partial def parseOuts (toks : List String) (acc : Array (Nat × Nat × Bytes)) : Option (Array (Nat × Nat × Bytes)) :=
  match toks with
  | [] => some acc
  | i :: v :: s :: rest =>
    match i.toNat?, v.toNat?, unhex s with
    | some i, some v, some s => parseOuts rest (acc.push (i, v, s))
    | _, _, _ => none
  | _ => none

def mkOuts (n : Nat) (live : Array (Nat × Nat × Bytes)) : Option (List (Option Out)) := do
  let mut a : Array (Option Out) := Array.replicate n none
  for (i, v, s) in live do
    if i ≥ n then failure
    a := a.set! i (some ⟨v, s⟩)
  return a.toList

def showOuts (outs : List (Option Out)) : String := Id.run do
  let mut s := ""
  let mut k := 0
  let mut i := 0
  for o in outs do
    match o with
    | some o => s := s ++ s!" {i} {o.value} {hex o.pk}"; k := k + 1
    | none => pure ()
    i := i + 1
  return s!"{outs.length} {k}{s}"

def showRes (r : Res Rec) : String :=
  match r with
  | .ok r => s!"ok {hex r.txid} {r.inBlock} {Proto.boolStr r.coinbase} {showOuts r.outs}"
  | .panic => "panic"
  | .hang => "hang"

def showOne (r : Res (Option TxOut)) : String :=
  match r with
  | .ok (some t) => s!"ok {t.value} {hex t.pk} {t.blockHeight} {t.voutCount} {Proto.boolStr t.wasCoinbase}"
  | .ok none => "nil"
  | .panic => "panic"
  | .hang => "hang"

partial def parseRecs (toks : List String) (acc : Array Bytes) : Option (List Bytes) :=
  match toks with
  | [] => some acc.toList
  | r :: rest => match unhex r with
    | some b => parseRecs rest (acc.push b)
    | none => none

def parseCaps (s : String) : Option (List Nat) :=
  if s == "-" then some [] else (s.splitOn ",").mapM String.toNat?

def step (last : Bytes) (toks : List String) : Bytes × String :=
  let bad := (last, "bad-op")
  match toks with
  | ["camt", n] => match n.toNat? with
    | some n => if n < AmountCompress.U64 then (last, s!"{AmountCompress.compress n} {AmountCompress.compressExact n}") else bad
    | none => bad
  | ["damt", x] => match x.toNat? with
    | some x => if x < AmountCompress.U64 then (last, s!"{AmountCompress.decompress x}") else bad
    | none => bad
  | ["cscr", s] => match unhex s with
    | some s => match ScriptCompress.compress K s with
      | some c => (last, s!"ok {hex c}")
      | none => (last, "nil")
    | none => bad
  | ["dscr", d] => match unhex d with
    | some d => match ScriptCompress.decompress K d with
      | .ok s => (last, s!"ok {hex s}")
      | .nil => (last, "nil")
      | .panic => (last, "panic")
    | none => bad
  | ["kvalid", k] => match unhex k with
    | some k => if k.length == 65 then (last, Proto.boolStr (K.valid65 k)) else bad
    | none => bad
  | ["kexpand", k] => match unhex k with
    | some k => if k.length == 33 then (last, hex (K.expand33 k)) else bad
    | none => bad
  | "ser" :: mode :: txid :: h :: cb :: n :: k :: rest =>
    match unhex txid, h.toNat?, bit cb, n.toNat?, k.toNat?, parseOuts rest #[] with
    | some txid, some h, some cb, some n, some k, some live =>
      if live.size ≠ k ∨ txid.length ≠ 32 ∨ (mode ≠ "u" ∧ mode ≠ "c") then bad
      else match mkOuts n live with
        | none => bad
        | some outs =>
          let r : Rec := ⟨txid, h, cb, outs⟩
          let (res, le) := if mode == "u" then (serializeU r, sizeU r) else (serializeC K r, sizeC K r)
          match res with
          | some b => (last, s!"ok {hex b} {le}")
          | none => (last, "nil")
    | _, _, _, _, _, _ => bad
  | ["dec", mode, b] => match unhex b with
    | some b =>
      if mode == "u" then (b, showRes (newRecU b))
      else if mode == "c" then (b, showRes (newRecC K b))
      else bad
    | none => bad
  | ["one", mode, b, v] => match (if b == "=" then some last else unhex b), v.toNat? with
    | some b, some v =>
      if v ≥ 2 ^ 32 then bad
      else if mode == "u" then (last, showOne (oneU b v))
      else if mode == "c" then (last, showOne (oneC K b v))
      else bad
    | _, _ => bad
  | "snapw" :: c :: h :: hash :: k :: rest =>
    match bit c, h.toNat?, unhex hash, k.toNat?, parseRecs rest #[] with
    | some c, some h, some hash, some k, some recs =>
      if recs.length ≠ k then bad else (last, s!"ok {hex (snapEncode ⟨c, h, hash, recs⟩)}")
    | _, _, _, _, _ => bad
  | ["merge", mode, u, old] =>
    if mode ≠ "u" ∧ mode ≠ "c" then bad else
    let dec := fun (b : Bytes) => if mode == "u" then newRecU b else newRecC K b
    let ser := fun (r : Rec) => if mode == "u" then serializeU r else serializeC K r
    match unhex u, (if old == "nil" then some none else (unhex old).map some) with
    | some u, some old =>
      match dec u, (match old with | none => Res.ok none | some b => (dec b).map some) with
      | .ok ur, .ok oldr =>
        match mergeUndo ur oldr with
        | none => (last, "panic")
        | some m => match ser m with
          | some b => (last, s!"ok {hex b}")
          | none => (last, "nil")
      | _, _ => (last, "panic")
    | _, _ => bad
  | ["load", db, old, c] =>
    let file := fun (t : String) => if t == "nil" then some none else (unhex t).map some
    match file db, file old, bit c with
    | some db, some old, some c =>
      let l := loadDir Gen.UtxoLoaderFacts.retryShape db old c
      let rs := l.snap.recs.foldl (fun acc r => acc ++ " " ++ hex r) ""
      (last, s!"ok {Proto.boolStr l.snap.compressed} {l.snap.height} {hex l.snap.hash} {l.totalTxs} {l.dataSize} {l.snap.recs.length}{rs}")
    | _, _, _ => bad
  | ["asks", f] =>
    -- what one pass of the loader over this file asks for: the count the maps are pre-sized for, then the Memory_Malloc arguments
    let file := if f == "nil" then some none else (unhex f).map some
    match file with
    | some file =>
      let a := memAsk Gen.UtxoLoaderFacts.retryShape file
      let m := match a.mapsFor with | some c => toString c | none => "-"
      let rs := a.mallocs.foldl (fun acc r => acc ++ " " ++ toString r) ""
      (last, s!"ok {m} {a.mallocs.length}{rs}")
    | none => bad
  | ["rdvlen", d, caps] => match unhex d, parseCaps caps with
    | some d, some caps => match readVLenRd Gen.UtxoSharedFacts.readShape ⟨d, caps⟩ with
      | some (v, r) => (last, s!"ok {v} {r.data.length}")
      | none => (last, "err")
    | _, _ => bad
  | ["rdrecs", n, d, caps] => match n.toNat?, unhex d, parseCaps caps with
    | some n, some d, some caps => match decRecsRd Gen.UtxoSharedFacts.readShape n ⟨d, caps⟩ with
      | some recs =>
        let rs := recs.foldl (fun acc r => acc ++ " " ++ hex r) ""
        (last, s!"ok {recs.length}{rs}")
      | none => (last, "err")
    | _, _, _ => bad
  | ["snapr", f] => match unhex f with
    | some f => match snapDecode f with
      | some s =>
        let rs := s.recs.foldl (fun acc r => acc ++ " " ++ hex r) ""
        (last, s!"ok {Proto.boolStr s.compressed} {s.height} {hex s.hash} {s.recs.length}{rs}")
      | none => (last, "err")
    | none => bad
  | _ => bad

def main : IO Unit := Proto.serve ([] : Bytes) step
