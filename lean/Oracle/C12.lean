/-
  oracle_c12 — line-protocol driver for Model.Mempool (client/txpool).
  Txids are 64 hex chars in internal byte order; BIDX / UIdx are 16 hex chars (the %016x of the LE uint64).
    cfg <allowMem01> <notFullRBF01> <maxTxWeight> <ringCap>                         -> ok
    tx <id> <nws> <size> <scriptok01> <nin> {<prev> <vout> <seq>}* <nout> {<value>}* -> ok   (register)
    coin <id> <vout> <value> <height> <cb01>                                        -> ok   (confirmed coin)
    net <id> <trusted01> <minfee>      -> <code>      ParseTxNet + HandleNetTx (1000+why when not wanted)
    local <id> <minfee>                -> <code>      usif.LoadRawTx + SubmitLocalTx
    block <height> <minfee> <n> {<id>}*-> ok          the chain connected this block (coinbase left out)
    undo <height> <minfee>             -> ok | none   the chain disconnected its last block
    tip <height>                       -> ok          common.Last.Block moved
    expire <n> {<bidx>}*               -> ok
    evict <n> {<bidx>}*                -> ok | bad-evict
    flag <01>                          -> ok          BlockCommitInProgress
    resort                             -> ok          buildSortedList
    reload                             -> ok          MempoolSave + MempoolLoad
    loadfail <k> <j|->                 -> ok          MempoolLoad returning false (file cut after k pool records; j = rejected
                                                      records read, `-` = the cut is inside the pool section); also InitMempool
    ringorder <n> {<bidx>}*            -> ok | bad    adopt the observed order of the reject ring (must be a permutation)
    setorder <n> {<bidx>}*             -> ok | bad    adopt the observed sorted list (must be a parents-first permutation)
    rbf <npk> {<fee> <weight> <k> {<bidx>}*}*  -> <bidx>* | bad-pkg <i>   GetSortedMempoolRBF's listing for the observed FeePackages
    consts                             -> the constants the model copies from the Go source, for the harness to compare with
                                          the package's own: COINBASE_MATURITY SORT_START_INDEX stepFor(0) stepFor(250000) and
                                          the reject reasons NOT_PENDING TOO_BIG OVERSPEND BAD_INPUT SCRIPT_FAIL NO_TXOU BAD_PARENT
                                          LOW_FEE NOT_MINED CB_INMATURE RBF_LOWFEE RBF_FINAL RBF_100 REPLACED
    dump                               -> P … | S … | R … | W … | X … | L … | T … | E … | G … | K …
                                          (K = `dirty` or the sorted list as <bidx>:<SortRank>; G = the ghost flag rankWrap)
-/
import GocoinV.Model.Mempool
import GocoinV.Model.MempoolResync
import GocoinV.Model.MempoolLoad
import GocoinV.Base.Proto
open GocoinV GocoinV.Mempool

def K := realKeys

structure OSt where
  s : State := {}
  txs : AList Nat Tx := []

def leNat (bs : List UInt8) : Nat := bs.foldr (fun b acc => acc * 256 + b.toNat) 0

def parseId (h : String) : Option Nat :=
  match Hex.decode h with
  | some bs => if bs.length = 32 then some (leNat bs) else none
  | none => none

def parseKey (h : String) : Option Nat :=
  if h.length ≠ 16 then none else
  h.toList.foldlM (fun acc c => (Hex.unnibble c).map (acc * 16 + ·)) 0

def hex16 (n : Nat) : String :=
  String.ofList ((List.range 16).reverse.map fun i => Hex.nibble ((n / 16 ^ i) % 16))

def b01 (b : Bool) : String := if b then "1" else "0"

def sortKV {α : Type} (l : List (Nat × α)) : List (Nat × α) := (l.toArray.qsort (fun a b => a.1 < b.1)).toList

def memStr (m : List Bool) : String := if m.isEmpty then "-" else String.ofList (m.map fun b => if b then '1' else '0')

def dump (s : State) : String :=
  let p := (sortKV s.pool).map fun (b, t) =>
    s!"{hex16 b}:{t.fee}:{t.volume}:{memStr t.mem}:{t.memCnt}:{b01 t.final}:{b01 t.loc}"
  let sp := (sortKV s.spent).map fun (u, b) => s!"{hex16 u}>{hex16 b}"
  let r := s.ring.filterMap fun slot => match slot with
    | none => none
    | some b => match s.rej.get? b with
      | none => some s!"{hex16 b}:?"
      | some r => some s!"{hex16 b}:{r.reason}:{b01 r.tx.isSome}:{match r.waiting4 with | some w => hex16 (K.bidx w) | none => "-"}"
  let w := (sortKV s.waiting).map fun (k, (_, ids)) => s!"{hex16 k}={",".intercalate (ids.map hex16)}"
  let x := (sortKV s.rejSpent).map fun (k, ids) => s!"{hex16 k}={",".intercalate (ids.map hex16)}"
  let l := if s.sortDirty then "dirty" else " ".intercalate (s.sorted.map hex16)
  let k := if s.sortDirty then "dirty" else " ".intercalate (s.sorted.map fun b => s!"{hex16 b}:{rankOf s b}")
  s!"P {" ".intercalate p} | S {" ".intercalate sp} | R {" ".intercalate r} | W {" ".intercalate w} | X {" ".intercalate x} | L {l} | T {s.weightTotal} {s.rej.length} | E {b01 s.panicked} | G {b01 s.rankWrap} | K {k}"

/-- parse n ids/keys from the token list -/
def takeN {α : Type} (f : String → Option α) : Nat → List String → Option (List α × List String)
  | 0, r => some ([], r)
  | n + 1, t :: r => do
    let x ← f t
    let (xs, rest) ← takeN f n r
    pure (x :: xs, rest)
  | _ + 1, [] => none

def parseIns : Nat → List String → Option (List TxIn × List String)
  | 0, r => some ([], r)
  | n + 1, p :: v :: q :: r => do
    let prev ← parseId p
    let vout ← v.toNat?
    let seq ← q.toNat?
    let (xs, rest) ← parseIns n r
    pure (⟨prev, vout, seq⟩ :: xs, rest)
  | _, _ => none

def parsePkgs : Nat → List String → Option (List Pkg × List String)
  | 0, r => some ([], r)
  | n + 1, f :: w :: k :: r => do
    let fee ← f.toNat?
    let weight ← w.toNat?
    let k ← k.toNat?
    let (txs, rest) ← takeN parseKey k r
    let (ps, rest) ← parsePkgs n rest
    pure ({ txs, fee, weight } :: ps, rest)
  | _, _ => none

def firstBad (s : State) : List Pkg → Nat → Option Nat
  | [], _ => none
  | pk :: r, i => if pkgOK K s pk then firstBad s r (i + 1) else some i

-- `isPerm`, `refill`, `parentsFirstKeys`, `ringorder`, `setorder`: GocoinV.Model.MempoolResync (invariant
-- preservation of both resync edits: GocoinV.Proofs.C12Resync)

def step (o : OSt) (toks : List String) : OSt × String :=
  let bad := (o, "bad-op")
  let s := o.s
  match toks with
  | ["cfg", am, nf, mw, rc] =>
    match mw.toNat?, rc.toNat? with
    | some mw, some rc => ({ o with s := { s with cfg := { allowMem := am == "1", notFullRBF := nf == "1", maxTxWeight := mw, ringCap := rc } } }, "ok")
    | _, _ => bad
  | "tx" :: id :: nws :: size :: sok :: nin :: rest =>
    match parseId id, nws.toNat?, size.toNat?, nin.toNat? with
    | some id, some nws, some size, some nin =>
      match parseIns nin rest with
      | some (ins, nout :: rest) =>
        match nout.toNat? with
        | some nout =>
          match takeN String.toNat? nout rest with
          | some (outs, []) =>
            ({ o with txs := o.txs.set id { id, ins, outs, nws, size, scriptOk := sok == "1" } }, "ok")
          | _ => bad
        | none => bad
      | _ => bad
    | _, _, _, _ => bad
  | ["coin", id, v, val, h, cb] =>
    match parseId id, v.toNat?, val.toNat?, h.toNat? with
    | some id, some v, some val, some h => ({ o with s := { s with utxo := s.utxo.set (id, v) ⟨val, h, cb == "1"⟩ } }, "ok")
    | _, _, _, _ => bad
  | ["net", id, tr, mf] =>
    match (parseId id).bind o.txs.get?, mf.toNat? with
    | some t, some mf => let (c, s) := submitNet K mf s t (tr == "1"); ({ o with s }, toString c)
    | _, _ => bad
  | ["local", id, mf] =>
    match (parseId id).bind o.txs.get?, mf.toNat? with
    | some t, some mf => let (c, s) := submitLocal K mf s t; ({ o with s }, toString c)
    | _, _ => bad
  | "block" :: h :: mf :: n :: rest =>
    match h.toNat?, mf.toNat?, n.toNat? with
    | some h, some mf, some n =>
      match takeN (fun x => (parseId x).bind o.txs.get?) n rest with
      | some (txs, []) => ({ o with s := Mempool.step K s (.block h txs mf) }, "ok")
      | _ => bad
    | _, _, _ => bad
  | ["undo", h, mf] =>
    match h.toNat?, mf.toNat? with
    | some h, some mf => if s.undo.isEmpty then (o, "none") else ({ o with s := Mempool.step K s (.undo h mf) }, "ok")
    | _, _ => bad
  | ["tip", h] =>
    match h.toNat? with
    | some h => ({ o with s := Mempool.step K s (.tip h) }, "ok")
    | none => bad
  | "expire" :: n :: rest =>
    match n.toNat?.bind (fun n => takeN parseKey n rest) with
    | some (ks, []) => ({ o with s := Mempool.step K s (.expire ks) }, "ok")
    | _ => bad
  | "evict" :: n :: rest =>
    match n.toNat?.bind (fun n => takeN parseKey n rest) with
    | some (ks, []) =>
      match evict K s ks with
      | some s => ({ o with s }, "ok")
      | none => (o, "bad-evict")
    | _ => bad
  | ["flag", y] => ({ o with s := Mempool.step K s (.commitFlag (y == "1")) }, "ok")
  | ["resort"] => ({ o with s := Mempool.step K s .resort }, "ok")
  | ["reload"] => ({ o with s := Mempool.step K s .reload }, "ok")
  | ["loadfail", k, j] =>
    match k.toNat?, (if j == "-" then some none else j.toNat?.map some) with
    | some k, some j => ({ o with s := loadRefused K s k j }, "ok")
    | _, _ => bad
  | "ringorder" :: n :: rest =>
    match n.toNat?.bind (fun n => takeN parseKey n rest) with
    | some (ks, []) =>
      match ringorder s ks with
      | some s => ({ o with s }, "ok")
      | none => (o, "bad")
    | _ => bad
  | "setorder" :: n :: rest =>
    match n.toNat?.bind (fun n => takeN parseKey n rest) with
    | some (ks, []) =>
      match setorder K s ks with
      | some s => ({ o with s }, "ok")
      | none => (o, "bad")
    | _ => bad
  | "rbf" :: n :: rest =>
    match n.toNat?.bind (fun n => parsePkgs n rest) with
    | some (pks, []) =>
      match firstBad s pks 0 with
      | some i => (o, s!"bad-pkg {i}")
      | none => (o, " ".intercalate ((sortedRBF K s pks).map hex16))
    | _ => bad
  | ["consts"] => (o, " ".intercalate ([COINBASE_MATURITY, SORT_START, stepFor 0, stepFor 250000, R_NOT_PENDING, R_TOO_BIG,
      R_OVERSPEND, R_BAD_INPUT, R_SCRIPT_FAIL, R_NO_TXOU, R_BAD_PARENT, R_LOW_FEE, R_NOT_MINED, R_CB_INMATURE, R_RBF_LOWFEE,
      R_RBF_FINAL, R_RBF_100, R_REPLACED].map toString))
  | ["dump"] => (o, dump s)
  | _ => bad

def main : IO Unit := Proto.serve ({} : OSt) step
