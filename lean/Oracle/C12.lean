/- oracle_c12 — placeholder driver (replaced when the C12 model is added). -/
import GocoinV.Base.Proto
open GocoinV
def main : IO Unit := Proto.serve () (fun _ _ => ((), "bad-op"))
