/-
  oracle_c19 — line-protocol driver for the qdb model (GocoinV.Model.Qdb). Stateful.
  Requests (byte strings hex, "-" = empty; numbers decimal):
    reset                               empty directory, no DB           -> ok
    seed <qdbidx.log|qdbidx.0|qdbidx.1> <bytes>   put a file into the closed directory  -> ok
    open <vol> <load> <dp> <fp> <mp> <mpn>    NewDBExt on the directory  -> ok ; <state>
    put <k> <val> | putext <k> <val> <fl> | del <k> | flags <k> <fl> | sync | nosync | close
                                                                         -> ok ; <state>
    defrag <0|1>                                                         -> ok <0|1> ; <state>
    get <k>                                                              -> some <val> | none ; <state>
    browse <k:fl,k:fl|->               walk returns fl for key k         -> <k=len.hash,…|-> ; <state>
    browseall <k:fl,k:fl|->            BrowseAll, walk returns fl for key k (as browse; NO_BROWSE records too)
    peek                               Count, then BrowseAll (walk returns 0)  -> <n> <k=len.hash,…|-> ; <state>
    count                                                                -> <n>
    crashat <name:size,…|->            the process died inside the last state-changing request: continue (closed) on
                                       the first crash directory of that request with this listing   -> ok <n> | none
    crash                              for the last state-changing request: the directory after every
                                       prefix of its effects, reopened (non-volatile, load, default opts)
                                                                         -> <tag>=<recovered>;<tag>=<recovered>;…
  <state>     = ds=<DataSeq> vs=<VersionSequence> di=<DatfileIndex> ex=<Extra> nd=<Needed> pe=<#pending>
                ns=<0|1> nl=<#records whose data is not in memory> files=<name:size,…>   or   failed=<exit|panic>
  <recovered> = ok:<k=len.hash,…|->  or  fail:<exit|panic>
  hash = FNV-1a 64 of the value.
-/
import GocoinV.Model.Qdb
import GocoinV.Base.Proto
open GocoinV GocoinV.Qdb

structure S where
  fs : FS := {}                 -- the directory while no DB is open
  db : Option DB := none
  fsBefore : FS := {}           -- directory before the last state-changing request
  lastEffs : List (String × Effect) := []

def fnv (b : Bytes) : Nat :=
  (b.foldl (fun (h : UInt64) x => (h ^^^ x.toUInt64) * 0x100000001b3) 0xcbf29ce484222325).toNat

def hex8 (n : Nat) : String := Hex.encodeRaw (beBytes 4 n)

def fileList (fs : FS) : String :=
  let dats := (sortNat (fs.dats.map (·.1))).map fun s =>
    s!"{hex8 s}.dat:{((dlookup s fs.dats).getD []).length}"
  let o (n : String) (f : Option Bytes) : List String := match f with
    | some b => [s!"{n}:{b.length}"] | none => []
  String.intercalate "," (dats ++ o "qdbidx.0" fs.idx0 ++ o "qdbidx.1" fs.idx1 ++ o "qdbidx.log" fs.log)

def stateStr (db : DB) : String :=
  match db.failed with
  | some w => s!"failed={w}"
  | none =>
    s!"ds={db.dataSeq} vs={db.verSeq} di={db.datIdx} ex={db.extra} nd={db.need} pe={db.pending.length} ns={Proto.boolStr db.noSync} nl={(db.index.filter (·.2.data.isNone)).length} files={fileList db.fs}"

def insKV (kv : Key × Bytes) : List (Key × Bytes) → List (Key × Bytes)
  | [] => [kv]
  | h :: t => if kv.1 ≤ h.1 then kv :: h :: t else h :: insKV kv t

def kvStr (l : List (Key × Bytes)) : String :=
  let l := l.foldr insKV []
  if l.isEmpty then "-" else
  String.intercalate "," (l.map fun (k, v) => s!"{k}={v.length}.{fnv v}")

/-- reopen a directory and read every key -/
def recovered (fs : FS) : String :=
  let db := openDB fs false true {}
  match db.failed with
  | some w => s!"fail:{w}"
  | none =>
    let r := db.index.foldl (fun (acc : Option (List (Key × Bytes))) kr =>
      match acc, valueOf db.fs kr.2 with
      | some l, some v => some (l ++ [(kr.1, v)])
      | _, _ => none) (some [])
    match r with
    | some l => s!"ok:{kvStr l}"
    | none => "fail:exit"

def crashStr (s : S) : String :=
  let n := s.lastEffs.length
  let one (k : Nat) : String :=
    let tag := if k = 0 then "before" else match s.lastEffs[k - 1]? with | some (t, _) => t | none => "?"
    s!"{tag}={recovered (s.fsBefore.applyAll ((s.lastEffs.take k).map (·.2)))}"
  String.intercalate ";" ((List.range (n + 1)).map one)

def parseWalk (w : String) : Option (List (Key × Nat)) :=
  if w == "-" then some [] else
  (w.splitOn ",").mapM fun p => match p.splitOn ":" with
    | [k, f] => do let k ← k.toNat?; let f ← f.toNat?; pure (k, f)
    | _ => none

/-- run a state-changing request on the open DB -/
def mutate (s : S) (f : DB → DB × String) : S × String :=
  match s.db with
  | none => (s, "bad-op")
  | some db =>
    let db0 := { db with effs := [] }
    let (db', res) := f db0
    ({ s with db := some db', fs := db'.fs, fsBefore := db.fs, lastEffs := db'.effs }, s!"{res} ; {stateStr db'}")

def b01 (t : String) : Option Bool := if t == "1" then some true else if t == "0" then some false else none

def step (s : S) (toks : List String) : S × String :=
  let bad := (s, "bad-op")
  match toks with
  | ["reset"] => ({}, "ok")
  | ["seed", name, v] =>
    match s.db, Hex.decode v with
    | none, some v =>
      if name == "qdbidx.log" then ({ s with fs := { s.fs with log := some v } }, "ok")
      else if name == "qdbidx.0" then ({ s with fs := { s.fs with idx0 := some v } }, "ok")
      else if name == "qdbidx.1" then ({ s with fs := { s.fs with idx1 := some v } }, "ok")
      else bad
    | _, _ => bad
  | ["open", vol, load, dp, fp, mp, mpn] =>
    match s.db, b01 vol, b01 load, dp.toNat?, fp.toNat?, mp.toNat?, mpn.toNat? with
    | none, some vol, some load, some dp, some fp, some mp, some mpn =>
      let db := openDB s.fs vol load { defragPerc := dp, forcedPerc := fp, maxPending := mp, maxPendingNoSync := mpn }
      ({ s with db := some db, fs := db.fs, fsBefore := s.fs, lastEffs := db.effs }, s!"ok ; {stateStr db}")
    | _, _, _, _, _, _, _ => bad
  | ["put", k, v] =>
    match k.toNat?, Hex.decode v with
    | some k, some v => mutate s fun db => (put db k v, "ok")
    | _, _ => bad
  | ["putext", k, v, f] =>
    match k.toNat?, Hex.decode v, f.toNat? with
    | some k, some v, some f => mutate s fun db => (putExt db k v f, "ok")
    | _, _, _ => bad
  | ["del", k] =>
    match k.toNat? with
    | some k => mutate s fun db => (del db k, "ok")
    | _ => bad
  | ["flags", k, f] =>
    match k.toNat?, f.toNat? with
    | some k, some f => mutate s fun db => (applyFlags db k f, "ok")
    | _, _ => bad
  | ["sync"] => mutate s fun db => (syncOp db, "ok")
  | ["nosync"] => mutate s fun db => (noSyncOp db, "ok")
  | ["defrag", f] =>
    match b01 f with
    | some f => mutate s fun db => let (d, r) := defragOp db f; (d, s!"ok {Proto.boolStr r}")
    | none => bad
  | ["close"] =>
    match s.db with
    | none => bad
    | some db =>
      let db0 := { db with effs := [] }
      let c := close db0
      match c.failed with
      | some w => ({ s with db := some c }, s!"ok ; failed={w}")
      | none => ({ s with db := none, fs := c.fs, fsBefore := db.fs, lastEffs := c.effs }, s!"ok ; files={fileList c.fs}")
  | ["get", k] =>
    match k.toNat? with
    | some k => mutate s fun db =>
        let (d, r) := get db k
        (d, match r with | some v => s!"some {Hex.encode v}" | none => "none")
    | _ => bad
  | ["browse", w] =>
    match parseWalk w with
    | some w => mutate s fun db => let (d, out) := browse db w; (d, kvStr out)
    | none => bad
  | ["browseall", w] =>
    match parseWalk w with
    | some w => mutate s fun db => let (d, out) := browseAll db w; (d, kvStr out)
    | none => bad
  | ["peek"] => mutate s fun db => let (d, out) := browseAll db []; (d, s!"{count d} {kvStr out}")
  | ["count"] =>
    match s.db with
    | some db => (s, s!"{count db}")
    | none => bad
  | ["crash"] => (s, crashStr s)
  | ["crashat", listing] =>
    -- the process dies inside the last state-changing request: continue on the first crash directory
    -- (Model.Qdb.crashDir) whose listing (names and sizes) is `listing`; "-" = empty directory
    let want := if listing == "-" then "" else listing
    let cands := (List.range (s.lastEffs.length + 1)).filterMap fun n =>
      let fs := s.fsBefore.applyAll ((s.lastEffs.take n).map (·.2))
      if fileList fs == want then some (n, fs) else none
    match cands with
    | (n, fs) :: _ => ({ s with db := none, fs := fs, fsBefore := fs, lastEffs := [] }, s!"ok {n}")
    | [] => (s, "none")
  | _ => bad

def main : IO Unit := Proto.serve ({} : S) step
