/-
  oracle_c15 — line-protocol driver for the C15 models (bech32, base58, addresses).
  Requests (all byte strings hex, "-" = empty):
    b32enc <hrp> <data5> <m:0|1>          -> ok <str> | none
    b32src <hrp> <data5> <m:0|1>          -> ok <str> | none   (bech32.Encode with its two hrp loops AS WRITTEN: a range over
                                             the code points of the string, length test on the loop variable: Bech32Str.encodeSrc)
    b32dec <str>                          -> ok <hrp> <data5> <m> | none
    segenc <hrp> <ver> <prog>             -> ok <str> | none
    segdec <hrp> <str>                    -> ok <ver> <prog> | err <code>
    b58enc <bytes>                        -> ok <str>
    b58dec <str>                          -> ok <bytes> | none
    b58src <str>                          -> ok <bytes> | none   (Decodeb58 with the digit loop AS WRITTEN: Base58Str.decodeSrc,
                                             a range over the code points of the string in the variant gen_c15 found)
    runes <str>                           -> ok <pos>:<codepoint> ...   (what `for i, c := range s` yields: Base58Str.runes)
    addr <str>                            -> ok <kind> <ver> <payload> <outscript|panic> <restr> | err <class>
    pk <script> <testnet:0|1>             -> ok <str> <outscript|panic> | none
    wifdec <str>                          -> ok <ver> <key> <compr:0|1> <canonical:0|1> | err b58|short|long|checksum|flag
                                             (flag: 38-byte payload whose byte 33 is not 01 — refused since fix 6903a886)
    wifenc <ver> <key> <compr:0|1>        -> ok <str>
    hist <op> <op> ...                    -> ok <res> ... fin <Enc58str> <Checksum|nil>     (one object, from new(BtcAddr))
         ops: S:<hrp>:<ver>:<prog> | N (SegwitProg=nil) | E:<str> | C:<bytes>|C:nil | V:<n> | H:<bytes> | s (String()) | o (OutScript())
         res: s=<str> | o=<script|panic>
    payout <start> <step> <step> ...      -> ok <out> ...   (Addr.Payout.run: COINBASE_ADDRESS = start, then
         steps: T:<str> (`minadr <str>` in the text UI) | G (template: make_coinbase_tx) | V:<str> (rpc validateaddress)
         outs:  t=<COINBASE_ADDRESS shown> | g=<script|panic> | v=<script|panic|invalid>
    b58sched <i,i,...|-> <bytes> <bytes> ... -> ok <str> <str> ...   (Encodeb58 of every argument when the callers' digit-loop
                                             steps are interleaved as given (then each runs to completion), in the variant the
                                             source has: Base58Sched.results with Gen.C15Shared.encodeRemShared)
-/
import GocoinV.Model.Addr
import GocoinV.Model.AddrWif
import GocoinV.Model.AddrObj
import GocoinV.Model.AddrPayout
import GocoinV.Model.Base58Sched
import GocoinV.Model.Base58Str
import GocoinV.Model.Bech32Str
import GocoinV.Base.Ripemd160
import GocoinV.Base.Proto
open GocoinV

def H : Addr.Hashes := { sha2sum := sha256d, hash160 := hash160 }

/-- only `shaHash` is used by the WIF codec; the other slots are never called by `AddrWif` -/
def CW : WalletCrypto where
  sha256 := fun _ => []
  shaHash := sha256d
  hash160 := hash160
  hmac512 := fun _ _ => []
  pbkdf2 := fun _ _ => []
  scrypt := fun _ _ => none

def wifErr : HD.WifErr → String
  | .b58 => "b58" | .short => "short" | .long => "long" | .checksum => "checksum" | .flag => "flag"

def errClass : Addr.Err → String
  | .short => "short" | .segwit e => s!"segwit{e.code}" | .b58decode => "b58decode"
  | .b58short => "b58short" | .checksum => "checksum" | .payload => "payload"

def optHex : Option Bytes → String
  | some b => Hex.encode b
  | none => "panic"

def parseStep (t : String) : Option Addr.Payout.Step :=
  match t.splitOn ":" with
  | ["T", s] => (Hex.decode s).map .typed
  | ["G"] => some .template
  | ["V", s] => (Hex.decode s).map .validate
  | _ => none

def outStr : Addr.Payout.Out → String
  | .shown c => s!"t={Hex.encode c}"
  | .pays scr => s!"g={optHex scr}"
  | .valid none => "v=invalid"
  | .valid (some scr) => s!"v={optHex scr}"

def parseOp (t : String) : Option Addr.Op :=
  match t.splitOn ":" with
  | ["S", hrp, v, p] =>
    match Hex.decode hrp, v.toNat?, Hex.decode p with
    | some hrp, some v, some p => some (.setSeg (some (hrp, v, p)))
    | _, _, _ => none
  | ["N"] => some (.setSeg none)
  | ["E", e] => (Hex.decode e).map .setEnc
  | ["C", "nil"] => some (.setCksum none)
  | ["C", c] => (Hex.decode c).map fun c => .setCksum (some c)
  | ["V", v] => match v.toNat? with
    | some v => if v < 256 then some (.setVer (UInt8.ofNat v)) else none
    | none => none
  | ["H", h] => (Hex.decode h).map .setHash
  | ["s"] => some .callString
  | ["o"] => some .callOutScript
  | _ => none

def parseOps : List String → Option (List Addr.Op)
  | [] => some []
  | t :: ts => match parseOp t, parseOps ts with
    | some op, some ops => some (op :: ops)
    | _, _ => none

def resStr : Addr.Res → String
  | .str s => s!"s={Hex.encode s}"
  | .script s => s!"o={optHex s}"

def parseSched (t : String) : Option (List Nat) :=
  if t == "-" then some [] else (t.splitOn ",").mapM (·.toNat?)

/-- a boolean token is exactly "0" or "1"; anything else is a malformed request -/
def parseBool (t : String) : Option Bool :=
  if t == "1" then some true else if t == "0" then some false else none

def step (_ : Unit) (toks : List String) : Unit × String :=
  let bad := ((), "bad-op")
  match toks with
  | ["b32enc", hrp, d, m] =>
    match Hex.decode hrp, Hex.decode d, parseBool m with
    | some hrp, some d, some m => match Bech32.encode hrp d m with
      | some s => ((), s!"ok {Hex.encode s}")
      | none => ((), "none")
    | _, _, _ => bad
  | ["b32src", hrp, d, m] =>
    match Hex.decode hrp, Hex.decode d, parseBool m with
    | some hrp, some d, some m => match Bech32Str.encodeSrc hrp d m with
      | some s => ((), s!"ok {Hex.encode s}")
      | none => ((), "none")
    | _, _, _ => bad
  | ["b32dec", s] =>
    match Hex.decode s with
    | some s => match Bech32.decode s with
      | some (hrp, d, m) => ((), s!"ok {Hex.encode hrp} {Hex.encode d} {Proto.boolStr m}")
      | none => ((), "none")
    | _ => bad
  | ["segenc", hrp, v, p] =>
    match Hex.decode hrp, v.toNat?, Hex.decode p with
    | some hrp, some v, some p => match Bech32.segwitEncode hrp v p with
      | some s => ((), s!"ok {Hex.encode s}")
      | none => ((), "none")
    | _, _, _ => bad
  | ["segdec", hrp, s] =>
    match Hex.decode hrp, Hex.decode s with
    | some hrp, some s => match Bech32.segwitDecode hrp s with
      | .ok (v, p) => ((), s!"ok {v} {Hex.encode p}")
      | .error e => ((), s!"err {e.code}")
    | _, _ => bad
  | ["b58enc", b] =>
    match Hex.decode b with
    | some b => ((), s!"ok {Hex.encode (Base58.encode b)}")
    | _ => bad
  | ["b58dec", s] =>
    match Hex.decode s with
    | some s => match Base58.decode s with
      | some b => ((), s!"ok {Hex.encode b}")
      | none => ((), "none")
    | _ => bad
  | ["b58src", s] =>
    match Hex.decode s with
    | some s => match Base58Str.decodeSrc s with
      | some b => ((), s!"ok {Hex.encode b}")
      | none => ((), "none")
    | _ => bad
  | ["runes", s] =>
    match Hex.decode s with
    | some s => ((), " ".intercalate ("ok" :: (Base58Str.runes s).map fun (p, r) => s!"{p}:{r}"))
    | _ => bad
  | ["addr", s] =>
    match Hex.decode s with
    | some s => match Addr.fromString H s with
      | .error e => ((), s!"err {errClass e}")
      | .ok a =>
        -- re-encode from the decoded fields only (drop the cached string)
        let fresh : Addr.Addr := match a with
          | .b58 v h _ => .b58 v h none
          | x => x
        let re := match Addr.toString H fresh with | some r => Hex.encode r | none => "none"
        match a with
        | .segwit _ v p => ((), s!"ok segwit {v} {Hex.encode p} {optHex (Addr.outScript a)} {re}")
        | .b58 v h _ => ((), s!"ok b58 {v.toNat} {Hex.encode h} {optHex (Addr.outScript a)} {re}")
    | _ => bad
  | ["pk", scr, tn] =>
    match Hex.decode scr, parseBool tn with
    | some scr, some tn => match Addr.fromPkScript H scr tn with
      | none => ((), "none")
      | some a =>
        let str := match Addr.toString H a with | some r => Hex.encode r | none => "none"
        ((), s!"ok {str} {optHex (Addr.outScript a)}")
    | _, _ => bad
  | ["wifdec", s] =>
    match Hex.decode s with
    | some s => match AddrWif.decode CW s with
      | .error e => ((), s!"err {wifErr e}")
      | .ok (v, k, c) =>
        let can := match Base58.decode s with | some pkb => AddrWif.canonicalFlag pkb | none => false
        ((), s!"ok {v.toNat} {Hex.encode k} {Proto.boolStr c} {Proto.boolStr can}")
    | _ => bad
  | "hist" :: ops =>
    match parseOps ops with
    | none => bad
    | some ops =>
      let rs := Addr.Obj.trace H ops Addr.Obj.zero
      let fin := Addr.Obj.exec H ops Addr.Obj.zero
      let ck := match fin.cksum with | some c => Hex.encode c | none => "nil"
      ((), " ".intercalate ("ok" :: rs.map resStr ++ ["fin", Hex.encode fin.enc, ck]))
  | "payout" :: start :: steps =>
    match Hex.decode start, steps.mapM parseStep with
    | some c, some st => ((), " ".intercalate ("ok" :: (Addr.Payout.run H st c).map outStr))
    | _, _ => bad
  | "b58sched" :: sc :: args =>
    match parseSched sc, args.mapM Hex.decode with
    | some sched, some as =>
      if as.isEmpty then bad
      else ((), " ".intercalate ("ok" :: (Base58Sched.results as sched).map Hex.encode))
    | _, _ => bad
  | ["wifenc", v, k, c] =>
    match v.toNat?, Hex.decode k with
    | some v, some k =>
      if v < 256 ∧ (c == "0" ∨ c == "1") then ((), s!"ok {Hex.encode (AddrWif.encode CW (UInt8.ofNat v) k (c == "1"))}")
      else bad
    | _, _ => bad
  | _ => bad

def main : IO Unit := Proto.serve () step
