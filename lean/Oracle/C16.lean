/-
  oracle_c16 — line-protocol driver for the C16 models (block store + snappy).
  The driver keeps one BlockDB.State; byte strings are hex ("-" = empty).
    reset                                         -> ok                 (fresh state, empty file system)
    reopen <maxCached> <maxFileSize> <keep> <backup01> <compress01>
                                                  -> walk <hash>,<hdr>,<height>,<blen>,<txs> …   | bad
    add <hash> <height> <txcount> <trusted01> <raw> -> ok | bad
    get <hash>                                    -> data <trusted01> <bytes> | err <kind> <trusted01> | bad
    getnc <hash>                                  -> as `get`: BlockGetInternal(hash, do_not_cache = true), the one-pass read
                                                     (Model.BlockDBNC.blockGetNC); the claim demanded of it is the one of `get`
    len <hash> <decode01>                         -> len <n> | lenerr | bad
    trusted <hash> | invalid <hash> | idle | close -> ok | panic | bad
    files                                         -> files idx:<len>:<fnv> dat<i>:<len>:<fnv> … old<i>:<len>:<fnv> …  (sorted by i)
    file idx | file dat <i> | file old <i>        -> ok <bytes> | none
    pos                                           -> pos <maxidxfilepos> <maxdatfilepos> <maxdatfileidx> <queued> <cached>
    claim                                         -> ok | violated   (did the reply to the last operation satisfy the
                                                     retention-aware durable-map claim `claimR` of Spec/BlockStoreMap.lean?)
    lost                                          -> lost <i> …      (ghost FS.lost, sorted)
    names                                         -> names dat<i> … old<i> …   (data files present, sorted by i)
    claimkind                                     -> nothing | data | len   (what `claimR` demanded of the last operation)
    poke idx <pos> <bytes> | poke dat <i> <pos> <bytes>
                                                  -> ok | bad   (closed store only: somebody else overwrites bytes of a file — legacy
                                                     records, damaged data; outside `step`, so every specification entry is tainted:
                                                     no claim is made afterwards, only model = implementation is compared)
    stash <i>                                     -> ok | bad   (closed store only: somebody moves data file <i> from the main directory
                                                     into oldat/ — what `removeDatFile` with backup does, but to ANY file, e.g. the
                                                     current one; outside `step`; the specification is NOT tainted: `fileOf` still
                                                     resolves the number, and LoadBlockIndex must bring the current file back)
    senc <bytes>                                  -> ok <bytes>
    sdec <bytes>                                  -> ok <bytes> | err
-/
import GocoinV.Model.BlockDB
import GocoinV.Model.BlockDBNC
import GocoinV.Spec.BlockStoreMapNC
import GocoinV.Spec.BlockStoreMap
import GocoinV.Model.Snappy
import GocoinV.Base.Sha256
import GocoinV.Base.Proto
open GocoinV GocoinV.BlockDB

def env : Env :=
  { enc := Snappy.encode
    dec := fun b => match Snappy.decode b with | .ok d => some d | .error _ => none
    hash := sha256d
    advInvalid := Gen.BlockDBFacts.advInvalid }

def fnv (b : Bytes) : UInt64 :=
  b.foldl (fun h x => (h ^^^ x.toUInt64) * 0x100000001b3) 0xcbf29ce484222325

def fileSum (name : String) (b : Bytes) : String := s!"{name}:{b.length}:{(fnv b).toNat}"

def sortFiles (l : List (Nat × Bytes)) : List (Nat × Bytes) :=
  (l.toArray.qsort (fun a b => a.1 < b.1)).toList

def errStr : GetErr → String
  | .notInIndex => "notinindex" | .notWritten => "notwritten" | .purged => "purged" | .noFile => "nofile"
  | .shortRead => "shortread" | .snappy => "snappy" | .gzip => "gzip"

def outStr : Out → String
  | .ok => "ok"
  | .data b t => s!"data {Proto.boolStr t} {Hex.encode b}"
  | .getErr e t => s!"err {errStr e} {Proto.boolStr t}"
  | .len n => s!"len {n}"
  | .lenErr => "lenerr"
  | .walk rs => " ".intercalate ("walk" :: rs.map fun r =>
      s!"{Hex.encode r.hash},{Hex.encode r.hdr},{r.height},{r.blen},{r.txs}")
  | .panic => "panic"
  | .bad => "bad"

def b01 (s : String) : Option Bool := if s == "1" then some true else if s == "0" then some false else none

def parseOp (toks : List String) : Option Op :=
  match toks with
  | ["reopen", mc, mf, k, bk, c] => do
    let mc ← mc.toNat?; let mf ← mf.toNat?; let k ← k.toNat?; let bk ← b01 bk; let c ← b01 c
    pure (.reopen ⟨mc, mf, k, bk, c⟩)
  | ["add", h, ht, tx, tr, raw] => do
    let h ← Hex.decode h; let ht ← ht.toNat?; let tx ← tx.toNat?; let tr ← b01 tr; let raw ← Hex.decode raw
    pure (.add h ht tx tr raw)
  | ["get", h] => do pure (.get (← Hex.decode h))
  | ["len", h, d] => do pure (.length (← Hex.decode h) (← b01 d))
  | ["trusted", h] => do pure (.trusted (← Hex.decode h))
  | ["invalid", h] => do pure (.invalid (← Hex.decode h))
  | ["idle"] => some .idle
  | ["close"] => some .close
  | _ => none

def stepLine0 (s : State) (toks : List String) : State × String :=
  match toks with
  | ["reset"] => (init, "ok")
  | ["files"] =>
    let parts := [fileSum "idx" s.fs.idx]
      ++ (sortFiles s.fs.dats).map (fun (i, b) => fileSum s!"dat{i}" b)
      ++ (sortFiles s.fs.olds).map (fun (i, b) => fileSum s!"old{i}" b)
    (s, " ".intercalate ("files" :: parts))
  | ["file", "idx"] => (s, s!"ok {Hex.encode s.fs.idx}")
  | ["file", "dat", i] =>
    match i.toNat? with
    | some i => (s, match AL.get s.fs.dats i with | some b => s!"ok {Hex.encode b}" | none => "none")
    | none => (s, "bad-op")
  | ["file", "old", i] =>
    match i.toNat? with
    | some i => (s, match AL.get s.fs.olds i with | some b => s!"ok {Hex.encode b}" | none => "none")
    | none => (s, "bad-op")
  | ["names"] =>
    (s, " ".intercalate ("names" :: (sortFiles s.fs.dats).map (fun (i, _) => s!"dat{i}")
      ++ (sortFiles s.fs.olds).map (fun (i, _) => s!"old{i}")))
  | ["pos"] => (s, s!"pos {s.maxidxfilepos} {s.maxdatfilepos} {s.maxdatfileidx} {s.queue.length} {s.cache.length}")
  | ["senc", b] =>
    match Hex.decode b with
    | some b => (s, s!"ok {Hex.encode (Snappy.encode b)}")
    | none => (s, "bad-op")
  | ["sdec", b] =>
    match Hex.decode b with
    | some b => (s, match Snappy.decode b with | .ok d => s!"ok {Hex.encode d}" | .error _ => "err")
    | none => (s, "bad-op")
  | _ =>
    match parseOp toks with
    | none => (s, "bad-op")
    | some op =>
      let (s', o) := step env s op
      (s', outStr o)

/-- the driver also runs the durable-map specification next to the model and evaluates the retention-aware claim
    (`claimR`) on every operation's reply: the conclusion of `store_refines_map` (Props/C16.lean) on this history -/
structure OSt where
  s : State := init
  sp : Spec := {}
  lastOK : Bool := true
  /-- what the retention-aware claim demanded of the last operation: nothing / data / len -/
  lastKind : String := "nothing"

def claimKind : Claim → String
  | .nothing => "nothing"
  | .data _ _ => "data"
  | .len _ => "len"

def holdsB : Claim → Out → Bool
  | .nothing, _ => true
  | .data b t, out => decide (out = .data b t)
  | .len n, out => decide (out = .len n)

def stepLine (st : OSt) (toks : List String) : OSt × String :=
  match toks with
  | ["reset"] => ({}, "ok")
  | ["claim"] => (st, if st.lastOK then "ok" else "violated")
  | ["claimkind"] => (st, st.lastKind)
  | ["poke", "idx", pos, b] =>
    match pos.toNat?, Hex.decode b with
    | some pos, some b =>
      if st.s.isOpen then (st, "bad") else
      ({ st with s := { st.s with fs := { st.s.fs with idx := pwrite st.s.fs.idx pos b } },
                 sp := { st.sp with m := st.sp.m.map (fun (k, e) => (k, { e with tainted := true })) } }, "ok")
    | _, _ => (st, "bad-op")
  | ["poke", "dat", i, pos, b] =>
    match i.toNat?, pos.toNat?, Hex.decode b with
    | some i, some pos, some b =>
      match st.s.isOpen, AL.get st.s.fs.dats i with
      | false, some f =>
        ({ st with s := { st.s with fs := { st.s.fs with dats := AL.set st.s.fs.dats i (pwrite f pos b) } },
                   sp := { st.sp with m := st.sp.m.map (fun (k, e) => (k, { e with tainted := true })) } }, "ok")
      | _, _ => (st, "bad")
    | _, _, _ => (st, "bad-op")
  | ["stash", i] =>
    match i.toNat? with
    | some i =>
      match st.s.isOpen, AL.get st.s.fs.dats i, AL.get st.s.fs.olds i with
      | false, some f, none =>
        ({ st with s := { st.s with fs := { st.s.fs with dats := AL.del st.s.fs.dats i, olds := AL.set st.s.fs.olds i f } } }, "ok")
      | _, _, _ => (st, "bad")
    | none => (st, "bad-op")
  | ["getnc", h] =>
    match Hex.decode h with
    | some h =>
      -- the specification treats the one-pass read as a read: same claim, the durable map is unchanged
      let c := claimRX st.s st.sp (.getNC h)
      let (s', o) := stepX env st.s (.getNC h)
      ({ s := s', sp := specStepX st.s st.sp (.getNC h), lastOK := holdsB c o, lastKind := claimKind c }, outStr o)
    | none => (st, "bad-op")
  | ["lost"] => (st, " ".intercalate ("lost" :: ((st.s.fs.lost.eraseDups.toArray.qsort (· < ·)).toList.map toString)))
  | _ =>
    match parseOp toks with
    | some op =>
      let c := claimR st.s st.sp op
      let (s', o) := step env st.s op
      ({ s := s', sp := specStep st.s st.sp op, lastOK := holdsB c o, lastKind := claimKind c }, outStr o)
    | none =>
      let (s', r) := stepLine0 st.s toks
      ({ st with s := s' }, r)

def main : IO Unit := Proto.serve ({} : OSt) stepLine
