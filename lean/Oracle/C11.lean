/-
  oracle_c11 — line-protocol driver for the C11 models (Model/Conc.lean).
    facts                                  -> ok <allDisciplined:0|1> <protoFacts as expected:0|1> <n functions> <ownership facts:0|1> <failing ownership facts|->
    tfacts                                 -> ok <thread facts:0|1> <operations another goroutine can execute, comma separated|->
    mon <events>                           -> ok <n> | bad <index> <what>      events: one letter each
                                              b save:begin  f save:finito  m mutation begins  e mutation ends
                                              c file created  d file goroutine done  o other
    snap <mprog> <xprog> <cap> <labels>    -> ok <visible> <good:0|1> <check:0|1> <final:0|1> <hasStep:0|1>
                                              mprog letters: c commit i idle a abort h hurry s save x close u undo p purge ("-" empty)
                                              xprog letters: h hurry a abort
                                              labels: m x s (saver step) 1..9 (saver begins with k chunks) A H f E
    fan <cloned:0|1> <txs> <bad> <labels>  -> ok <early|-> <errcnt> <ref-early|-> <ref-errcnt> | run (not finished)
                                              txs: nin.nout.early.a_v_a_v… separated by ','   bad: t_j separated by ',' or '-'
                                              labels: M (main) or worker index digits separated by ','
-/
import GocoinV.Model.Conc
import GocoinV.Model.ConcOwn
import GocoinV.Model.ConcThread
import GocoinV.Base.Proto
open GocoinV GocoinV.Conc

def monEv : Char → Option Mon.MEv
  | 'b' => some .saveBegin | 'f' => some .saveFinito | 'm' => some .mutBegin | 'e' => some .mutEnd
  | 'c' => some .fileCreated | 'd' => some .fileDone | 'o' => some .other | _ => none

def mop : Char → Option Snap.MOp
  | 'c' => some .commit | 'i' => some .idle | 'a' => some .abort | 'h' => some .hurry | 's' => some .save | 'x' => some .close | 'u' => some .undo | 'p' => some .purge | _ => none

def xop : Char → Option Snap.XOp
  | 'h' => some .hurry | 'a' => some .abort | _ => none

def lab : Char → Option Snap.Lab
  | 'm' => some .m | 'x' => some .x | 's' => some .sStep | 'A' => some .sAbort | 'H' => some .sHurry
  | 'f' => some .fStep | 'E' => some .fExit
  | c => if c.isDigit && c != '0' then some (.sBegin (c.toNat - '0'.toNat)) else none

def dash (s : String) : String := if s == "-" then "" else s

def parseNats (s : String) (sep : Char) : Option (List Nat) :=
  if s == "-" || s == "" then some [] else (s.splitOn (String.singleton sep)).mapM (·.toNat?)

def pairs : List Nat → Option (List (Nat × Nat))
  | [] => some []
  | a :: b :: r => (pairs r).map ((a, b) :: ·)
  | _ => none

def parseTx (s : String) : Option Fan.Tx :=
  match s.splitOn "." with
  | [nin, nout, early, sp] => do
      let nin ← nin.toNat?
      let nout ← nout.toNat?
      let e ← early.toNat?
      let l ← parseNats sp '_'
      let ps ← pairs l
      some { nin := nin, nout := nout, early := e == 1, spends := ps }
  | _ => none

def optStr : Option Nat → String
  | some n => toString n | none => "-"

def step (_ : Unit) (toks : List String) : Unit × String :=
  let bad := ((), "bad-op")
  match toks with
  | ["facts"] =>
    let ob := Own.ownFactsBad
    ((), s!"ok {Proto.boolStr allDisciplined} {Proto.boolStr (protoFacts == protoFactsOK)} {policy.length} {Proto.boolStr ob.isEmpty} {if ob.isEmpty then "-" else ",".intercalate ob}")
  | ["tfacts"] =>
    let fo := Thread.foreignOps
    ((), s!"ok {Proto.boolStr (Thread.threadFacts == Thread.threadFactsOK)} {if fo.isEmpty then "-" else ",".intercalate fo}")
  | ["mon", evs] =>
    match (dash evs).toList.mapM monEv with
    | some es =>
      let m := Mon.runM es
      match m.bad with
      | [] => ((), s!"ok {m.n}")
      | (i, w) :: _ => ((), s!"bad {i} {w.replace " " "_"}")
    | none => bad
  | ["snap", mp, xp, cap, ls] =>
    match (dash mp).toList.mapM mop, (dash xp).toList.mapM xop, cap.toNat?, (dash ls).toList.mapM lab with
    | some mp, some xp, some cap, some ls =>
      let st := Snap.run (Snap.init mp xp cap) ls
      ((), s!"ok {st.visible.length} {Proto.boolStr (st.visible.all Snap.Visible.good)} {Proto.boolStr (Snap.check st)} {Proto.boolStr (Snap.final st)} {Proto.boolStr (Snap.hasStep st)}")
    | _, _, _, _ => bad
  | ["fan", cl, txs, badl, ls] =>
    let txl := if txs == "-" then some [] else (txs.splitOn ",").mapM parseTx
    let bl := if badl == "-" then some [] else (badl.splitOn ",").mapM (fun p => match (p.splitOn "_").mapM (·.toNat?) with
      | some [a, b] => some (a, b) | _ => none)
    let labs := if ls == "-" then some [] else (ls.splitOn ",").mapM (fun l => if l == "M" then some Fan.Lab.main else l.toNat?.map Fan.Lab.worker)
    match txl, bl, labs with
    | some txl, some bl, some labs =>
      if cl != "0" && cl != "1" then bad else
      let f : Fan.Verify := fun t j view => !(bl.contains (t, j)) && view.all id
      let st := Fan.run f (Fan.init txl (cl == "1")) labs
      let rf := Fan.reference f txl
      match st.verdict with
      | some (e, n) => ((), s!"ok {optStr e} {n} {optStr rf.1} {rf.2}")
      | none => ((), s!"run {optStr rf.1} {rf.2}")
    | _, _, _ => bad
  | _ => bad

def main : IO Unit := Proto.serve () step
