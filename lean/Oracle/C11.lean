/- oracle_c11 — placeholder driver (replaced when the C11 model is added). -/
import GocoinV.Base.Proto
open GocoinV
def main : IO Unit := Proto.serve () (fun _ _ => ((), "bad-op"))
