/- oracle_c07 — placeholder driver (replaced when the C07 model is added). -/
import GocoinV.Base.Proto
open GocoinV
def main : IO Unit := Proto.serve () (fun _ _ => ((), "bad-op"))
