/-
  oracle_c07 — line-protocol driver for Model.Persist.
    load g:<big coin ids ,> <tok> <tok> …   -> ok <number of labelled effects of the whole workload> | bad-op
        tokens:  b:<id>:<parent>:<height>:<spends ,|->:<creates ,|->   define a block
                 s:<id> submit   i idle   c close   o re-open (recover)   k:<n> skip-save-blocks
                 p:<0|1> writing-time target reached immediately / never   h hurry-up
    trace                                   -> ok <point name> <point name> …     (labels of the effect list)
    crash <k>                               -> ok <tip1> <tip2> <coins2> <tip3> <coins3> <tie 0|1> <foreign 0|1> | panic <what> <foreign 0|1>
    torn <k> <db 0|1> <old 0|1>             -> the same with UTXO.db (db = 1) and/or UTXO.old (old = 1) of that directory unreadable
        (Model/PersistSpec.lean tearDb / restartFrom: a snapshot file cut short by power loss or a full disk)
        foreign = ghost flag: the restart read an undo file naming another block than the one it undid
        disk := first k effects applied; 1 = after NewChainExt, 2 = after the client's recovery loop,
        3 = after feeding every block of the workload + Idle
    final                                   -> ok <tip> <coins> <foreign 0|1> | panic <what>     (uninterrupted run; foreign = its ghost flag,
        the hypothesis `(run bigs ops).foreign = false` of the theorems)
    libopen <k>                             -> ok <tip> <coins> <tie 0|1> | panic <what> <tie 0|1>
        NewChainExt in LIBRARY mode (DoNotRescan = false) on the directory left by the first k effects: Model/PersistLib.lean
        libraryOpen with the guard regenerated from the source (Gen/C07Facts.lean reapplyGuard); tie = equally high leaves
    lock <file 0|1>                         -> ok <0|1>   does LockDatabaseDir of a process that is alone get the lock when
        <datadir>/.lock exists (1) / does not exist (0)? (Model/PersistLib.lean lockStart with the regenerated lockOpenMode)
    pos <a 0|1> <L> <tok> …                 -> ok <data file length> <every record reads back its block 0|1> <id>:<fpos>:<blen> …
        positional block store (Model/PersistPos.lean): the directory holds the index records r:<id>:<fpos>:<blen> … and a data
        file of L bytes (anything beyond the indexed data is an orphaned tail); it is opened (LoadBlockIndex + Seek), then
        w:<id>:<len> = writeOne, m:<id>:<len> = killed between the data write and the index write + restart, o = restart;
        a = 1: the data file handle is in O_APPEND mode (not what the code does)
    roll <b 0|1> <maxSize> <tok> …           -> ok <maxdatfileidx> <maxdatfilepos> <every record reads back its block 0|1> <id>:<file>:<fpos>:<blen> …
        positional block store with data-file roll-over (Model/PersistRoll.lean): the directory holds the index records
        r:<id>:<file>:<fpos>:<blen> … (and exactly their data), it is opened (LoadBlockIndex + Seek), then
        w:<id>:<len> = writeOne, x:<id>:<len> = killed after the roll-over check/create + restart, m:<id>:<len> = killed between
        the data write and the index write + restart, o = restart; b = 1: the else-if variant of LoadBlockIndex (not what the code does)
    idx <tok> …                              -> ok <append position> <flags>:<file> … | <ipos of every record the node holds>
        index file with positions and flag bytes (Model/PersistIdx.lean, facts flagRewriteSource / invalidRecordAdvances of
        Gen/C07Facts.lean): r:<flags>:<file> … = the records of the directory, opened by LoadBlockIndex; then, in order,
        f:<record number>:<bits> = setBlockFlag(bits) on the record the node holds for that record number (no-op when it holds
        none), a:<flags>:<file> = writeOne; the reply is the file after that and what a restart (LoadBlockIndex) computes on it
    closeg <tip> <height> <tok> …            -> ok <tip-before>:<h>:<tip-after>:<h> …   one entry per restart
        what Close leaves in UTXO.db (Model/PersistIdx.lean, fact closeSaveGuard): the node starts clean at <tip>/<height>;
        c:<block> commit, u:<parent> undo, i:<skip> Idle, r = clean shutdown + restart
-/
import GocoinV.Model.Persist
import GocoinV.Model.PersistIdx
import GocoinV.Model.PersistSpec
import GocoinV.Model.PersistPos
import GocoinV.Model.PersistRoll
import GocoinV.Model.PersistLib
import GocoinV.Base.Proto
open GocoinV GocoinV.Persist

structure OState where
  bigs : List Coin := []
  ops : List Op := []
  loaded : Bool := false

def natList (s : String) : Option (List Nat) :=
  if s == "-" || s == "" then some [] else (s.splitOn ",").mapM (·.toNat?)

def coinsStr (l : List Nat) : String :=
  let a := (l.toArray.qsort (· < ·)).toList
  if a.isEmpty then "-" else ",".intercalate (a.map toString)

def parseToks (defs : List Block) (acc : List Op) : List String → Option (List Op)
  | [] => some acc.reverse
  | t :: rest =>
    match t.splitOn ":" with
    | ["b", id, par, h, sp, cr] =>
      match id.toNat?, par.toNat?, h.toNat?, natList sp, natList cr with
      | some id, some par, some h, some sp, some cr =>
        parseToks ({ id := id, parent := par, height := h, spends := sp, creates := cr } :: defs) acc rest
      | _, _, _, _, _ => none
    | ["s", id] =>
      match id.toNat? with
      | some id => match defs.find? (·.id == id) with
        | some b => parseToks defs (Op.submit b :: acc) rest
        | none => none
      | none => none
    | ["i"] => parseToks defs (Op.idle :: acc) rest
    | ["c"] => parseToks defs (Op.close :: acc) rest
    | ["o"] => parseToks defs (Op.reopen :: acc) rest
    | ["h"] => parseToks defs (Op.hurry :: acc) rest
    | ["k", n] => match n.toNat? with
      | some n => parseToks defs (Op.skip n :: acc) rest
      | none => none
    | ["p", n] => match n.toNat? with
      | some n => parseToks defs (Op.pause (n != 0) :: acc) rest
      | none => none
    | _ => none

def parsePos (recs : List PRec) (ops : List POp) : List String → Option (List PRec × List POp)
  | [] => some (recs.reverse, ops.reverse)
  | t :: rest =>
    match t.splitOn ":" with
    | ["r", id, fp, bl] =>
      match id.toNat?, fp.toNat?, bl.toNat? with
      | some id, some fp, some bl => if ops.isEmpty then parsePos ({ id := id, fpos := fp, blen := bl } :: recs) ops rest else none
      | _, _, _ => none
    | ["w", id, l] =>
      match id.toNat?, l.toNat? with
      | some id, some l => parsePos recs (POp.write id l :: ops) rest
      | _, _ => none
    | ["m", id, l] =>
      match id.toNat?, l.toNat? with
      | some id, some l => parsePos recs (POp.crashMid id l :: ops) rest
      | _, _ => none
    | ["o"] => parsePos recs (POp.restart :: ops) rest
    | _ => none

def parseRoll (recs : List RRec) (ops : List ROp) : List String → Option (List RRec × List ROp)
  | [] => some (recs.reverse, ops.reverse)
  | t :: rest =>
    match t.splitOn ":" with
    | ["r", id, f, fp, bl] =>
      match id.toNat?, f.toNat?, fp.toNat?, bl.toNat? with
      | some id, some f, some fp, some bl =>
        if ops.isEmpty then parseRoll ({ id := id, file := f, fpos := fp, blen := bl } :: recs) ops rest else none
      | _, _, _, _ => none
    | ["w", id, l] =>
      match id.toNat?, l.toNat? with
      | some id, some l => parseRoll recs (ROp.write id l :: ops) rest
      | _, _ => none
    | ["x", id, l] =>
      match id.toNat?, l.toNat? with
      | some id, some l => parseRoll recs (ROp.crashRoll id l :: ops) rest
      | _, _ => none
    | ["m", id, l] =>
      match id.toNat?, l.toNat? with
      | some id, some l => parseRoll recs (ROp.crashMid id l :: ops) rest
      | _, _ => none
    | ["o"] => parseRoll recs (ROp.restart :: ops) rest
    | _ => none

def rollQuery (b : Bool) (maxSize : Nat) (recs : List RRec) (ops : List ROp) : String :=
  let fileOf : Nat → DatFile := fun k =>
    let rs := recs.filter (fun r => r.file == k)
    DatFile.mk (rs.map (fun r => (r.fpos, r.id, r.blen))) (rs.foldl (fun m r => max m (r.fpos + r.blen)) 0)
  let d : RDisk := RDisk.mk fileOf recs
  let s := rrun b maxSize (ropen b d) ops
  let rs := s.d.idx.map (fun r => s!"{r.id}:{r.file}:{r.fpos}:{r.blen}")
  s!"ok {s.n.maxidx} {s.n.maxpos} {if rreadsBack s.d then 1 else 0}" ++ (if rs.isEmpty then "" else " " ++ " ".intercalate rs)

def posQuery (a : Bool) (len : Nat) (recs : List PRec) (ops : List POp) : String :=
  let me := maxEnd recs
  let ents := recs.map (fun r => (r.fpos, r.id, r.blen)) ++ (if len > me then [(me, 0, len - me)] else [])
  let d : PDisk := { dat := { ents := ents, len := len }, idx := recs }
  let s := prun a (popen d) ops
  let rs := s.d.idx.map (fun r => s!"{r.id}:{r.fpos}:{r.blen}")
  s!"ok {s.d.dat.len} {if readsBack s.d then 1 else 0}" ++ (if rs.isEmpty then "" else " " ++ " ".intercalate rs)

open GocoinV.Persist.Idx in
def parseIdx (recs : List IRec) (acts : List (String × Nat × Nat)) : List String → Option (List IRec × List (String × Nat × Nat))
  | [] => some (recs.reverse, acts.reverse)
  | t :: rest =>
    match t.splitOn ":" with
    | ["r", f, fi] =>
      match f.toNat?, fi.toNat? with
      | some f, some fi => if acts.isEmpty then parseIdx (⟨f, fi⟩ :: recs) acts rest else none
      | _, _ => none
    | [k, a, b] =>
      match a.toNat?, b.toNat? with
      | some a, some b => if k == "f" || k == "a" then parseIdx recs ((k, a, b) :: acts) rest else none
      | _, _ => none
    | _ => none

open GocoinV.Persist.Idx GocoinV.Gen.C07Facts in
def idxQuery (recs : List IRec) (acts : List (String × Nat × Nat)) : String :=
  let s0 := iopen invalidRecordAdvances recs
  let s := acts.foldl (fun (s : ISt) (a : String × Nat × Nat) =>
    if a.1 == "a" then istep flagRewriteSource invalidRecordAdvances s (.append ⟨a.2.1, a.2.2⟩)
    else
      -- the record the node holds for record number a.2.1
      match s.mems.findIdx? (fun m => m.ipos == a.2.1 * 136) with
      | some i => istep flagRewriteSource invalidRecordAdvances s (.flag i a.2.2)
      | none => s) s0
  let e := iopen invalidRecordAdvances s.disk
  let rs := s.disk.map (fun r => s!"{r.flags}:{r.file}")
  let ps := e.mems.map (fun m => toString m.ipos)
  s!"ok {e.pos}" ++ (if rs.isEmpty then "" else " " ++ " ".intercalate rs) ++ " |" ++ (if ps.isEmpty then "" else " " ++ " ".intercalate ps)

open GocoinV.Persist.Idx in
def parseClose (acc : List COp) : List String → Option (List COp)
  | [] => some acc.reverse
  | "r" :: rest => parseClose (.restart :: acc) rest
  | t :: rest =>
    match t.splitOn ":" with
    | ["c", b] => match b.toNat? with | some b => parseClose (.commit b :: acc) rest | none => none
    | ["u", b] => match b.toNat? with | some b => parseClose (.undo b :: acc) rest | none => none
    | ["i", b] => match b.toNat? with | some b => parseClose (.idle b :: acc) rest | none => none
    | _ => none

def step (st : OState) (toks : List String) : OState × String :=
  match toks with
  | "idx" :: rest =>
    match parseIdx [] [] rest with
    | some (recs, acts) => (st, idxQuery recs acts)
    | none => (st, "bad-op")
  | "closeg" :: t :: h :: rest =>
    match t.toNat?, h.toNat?, parseClose [] rest with
    | some t, some h, some ops =>
      let ps := GocoinV.Persist.Idx.restartPairs GocoinV.Gen.C07Facts.closeSaveGuard GocoinV.Gen.C07Facts.commitSetsDirty GocoinV.Gen.C07Facts.undoSetsDirty { tip := t, height := h, dTip := t, dHeight := h } ops
      (st, "ok" ++ String.join (ps.map (fun p => s!" {p.1.1}:{p.1.2}:{p.2.1}:{p.2.2}")))
    | _, _, _ => (st, "bad-op")
  | "pos" :: a :: len :: rest =>
    match a.toNat?, len.toNat?, parsePos [] [] rest with
    | some a, some len, some (recs, ops) => if a > 1 then (st, "bad-op") else (st, posQuery (a == 1) len recs ops)
    | _, _, _ => (st, "bad-op")
  | "roll" :: b :: ms :: rest =>
    match b.toNat?, ms.toNat?, parseRoll [] [] rest with
    | some b, some ms, some (recs, ops) => if b > 1 then (st, "bad-op") else (st, rollQuery (b == 1) ms recs ops)
    | _, _, _ => (st, "bad-op")
  | "load" :: g :: rest =>
    match g.splitOn ":" with
    | ["g", bl] =>
      match natList bl, parseToks [] [] rest with
      | some bigs, some ops =>
        let w := run bigs ops
        match w.err with
        | some e => ({ bigs := bigs, ops := ops, loaded := true }, s!"panic {e.replace " " "_"}")
        | none => ({ bigs := bigs, ops := ops, loaded := true }, s!"ok {w.es.length}")
      | _, _ => (st, "bad-op")
    | _ => (st, "bad-op")
  | ["trace"] =>
    if !st.loaded then (st, "bad-op") else
    let w := run st.bigs st.ops
    (st, "ok " ++ " ".intercalate (w.es.map (·.2.name)))
  | ["final"] =>
    if !st.loaded then (st, "bad-op") else
    let w := run st.bigs st.ops
    match w.err with
    | some e => (st, s!"panic {e.replace " " "_"}")
    | none => (st, s!"ok {w.n.tip} {coinsStr w.n.utxo} {if w.foreign then 1 else 0}")
  | ["crash", k] =>
    if !st.loaded then (st, "bad-op") else
    match k.toNat? with
    | none => (st, "bad-op")
    | some k =>
      match crashAt st.bigs st.ops k with
      | .error e => (st, s!"panic {e.replace " " "_"} {if crashForeign st.bigs st.ops k then 1 else 0}")
      | .ok (s1, s2, s3) =>
        let tie := (farthest s1.n).2.2
        (st, s!"ok {s1.n.tip} {s2.n.tip} {coinsStr s2.n.utxo} {s3.n.tip} {coinsStr s3.n.utxo} {if tie then 1 else 0} {if s3.foreign then 1 else 0}")
  | ["libopen", k] =>
    if !st.loaded then (st, "bad-op") else
    match k.toNat? with
    | none => (st, "bad-op")
    | some k =>
      let d := applyAll {} ((run st.bigs st.ops).es.take k)
      let tie := match openNode d st.bigs 0 with
        | .ok s1 => (farthest s1.n).2.2
        | .error _ => false
      match libraryOpen GocoinV.Gen.C07Facts.reapplyGuard d st.bigs with
      | .error e => (st, s!"panic {e.replace " " "_"} {if tie then 1 else 0}")
      | .ok s => (st, s!"ok {s.n.tip} {coinsStr s.n.utxo} {if tie then 1 else 0}")
  | ["lock", f] =>
    if f != "0" && f != "1" then (st, "bad-op") else
    (st, s!"ok {if lockStart GocoinV.Gen.C07Facts.lockOpenMode (f == "1") then 1 else 0}")
  | ["torn", k, a, b] =>
    if !st.loaded then (st, "bad-op") else
    match k.toNat?, a.toNat?, b.toNat? with
    | some k, some a, some b =>
      if a > 1 || b > 1 then (st, "bad-op") else
      let d := tearDb (applyAll {} ((run st.bigs st.ops).es.take k)) (a == 1) (b == 1)
      match restartFrom d st.bigs st.ops with
      | .error e => (st, s!"panic {e.replace " " "_"} {if restartForeign d st.bigs st.ops then 1 else 0}")
      | .ok (s1, s2, s3) =>
        let tie := (farthest s1.n).2.2
        (st, s!"ok {s1.n.tip} {s2.n.tip} {coinsStr s2.n.utxo} {s3.n.tip} {coinsStr s3.n.utxo} {if tie then 1 else 0} {if s3.foreign then 1 else 0}")
    | _, _, _ => (st, "bad-op")
  | _ => (st, "bad-op")

def main : IO Unit := Proto.serve ({} : OState) step
