/-
  oracle_c04 — line-protocol driver for Model.Connect (gocoin's block connection, `Cfg.current`) and
  Spec.Connect (sequential ConnectBlock).  The oracle is STATEFUL: it keeps the model's observable chain state
  (`Connect.Chain`: record-level DB, tip, block index) and the spec's coin map; a `block` request runs
  `Connect.acceptBlock Cfg.current` (= `connect` + "apply and advance the head, or unlink the node and leave everything
  alone" — the function theorems `refuse_unchanged` / `accept_advances` are about) and the spec on the same candidate;
  the spec's state advances iff the spec accepted.  Byte strings are hex, "-" = empty.
    reset <genesis hash>                             -> ok          (empty set, tip = genesis, index = {genesis})
    state                                            -> <tip> <size of the index>
    index                                            -> <n> h|h|…   (the block index)
    inject <txid> <height> <cb:0|1> <mtpPrev> <nout> OUT*   -> ok   (files a record with `dbAdd` = do_add, and the same
                                                        coins into the spec's map: states outside the money supply)
    block <hash> <height> <time> <mtp> <p2sh> <wit> <csv> <ntx> TX*      -> m=ok:<sigopscost>|m=err:<E> s=ok|s=err:<E>
       TX  = <txid> <version> <locktime> <nowitsize> <nin> <nout> IN* OUT*
       IN  = <prevhash> <vout> <scriptsig> <sequence> <scriptOk:0|1> <nwit> <witness item>*
       OUT = <value> <script>
    blockv <bits> <hash> … (as `block`)              -> the same with chain.TrustedTxChecker INSTALLED: <bits> = one 0/1 per
                                                        transaction of the block, 1 = the hook answers true for it; the model
                                                        side runs `acceptBlockT` (Model/ConnectTrust.lean), the spec ignores the hook
    dump                                             -> <n> e|e|…   with e = txid:vout,value,height,cb,script   (model DB)
    sdump                                            -> same for the spec's map
    reward <height>                                  -> <GetBlockReward> <spec subsidy>
    sigops <script> <accurate:0|1>                   -> <GetSigOpCount> <spec count (no OP_RETURN stop)>
    p2shsig <scriptSig>                              -> <GetP2SHSigOpCount>
    witsig <scriptSig> <pkscript> <nwit> <item>*     -> <CountWitnessSigOps>
    chktx TX                                         -> ok | err:<E>          (Tx.CheckTransaction)
    final <height> <time> TX                         -> 0 | 1                 (Tx.IsFinal)
-/
import GocoinV.Spec.Connect
import GocoinV.Model.ConnectTrust
import GocoinV.Model.ConnectCache
import GocoinV.Base.Proto
open GocoinV GocoinV.Connect

structure OState where
  ch : Chain := ⟨[], [], []⟩
  su : Spec.Connect.Utxo := []

abbrev P := StateT (List String) Option

def tok : P String := do
  match (← get) with
  | [] => failure
  | t :: r => set r; pure t

def pnat : P Nat := do
  let t ← tok
  match t.toNat? with
  | some n => pure n
  | none => failure

def pbool : P Bool := do
  let t ← tok
  if t == "1" then pure true else if t == "0" then pure false else failure

def phex : P Bytes := do
  match Hex.decode (← tok) with
  | some b => pure b
  | none => failure

def rep {α : Type} (p : P α) : Nat → P (List α)
  | 0 => pure []
  | n+1 => do
    let a ← p
    let r ← rep p n
    pure (a :: r)

def pIn : P TxIn := do
  let h ← phex; let v ← pnat; let ss ← phex; let seq ← pnat; let ok ← pbool
  let nw ← pnat
  let w ← rep phex nw
  pure { prev := ⟨h, v⟩, scriptSig := ss, sequence := seq, witness := w, scriptOk := ok }

def pOut : P TxOut := do
  let v ← pnat; let s ← phex
  pure ⟨v, s⟩

def pTx : P Tx := do
  let id ← phex; let ver ← pnat; let lt ← pnat; let nws ← pnat
  let ni ← pnat; let no ← pnat
  let ins ← rep pIn ni
  let outs ← rep pOut no
  pure { txid := id, version := ver, ins := ins, outs := outs, lockTime := lt, noWitSize := nws }

def pBlock : P Block := do
  let h ← phex; let height ← pnat; let time ← pnat; let mtp ← pnat
  let p2sh ← pbool; let wit ← pbool; let csv ← pbool
  let n ← pnat
  let txs ← rep pTx n
  pure { hash := h, height := height, time := time, mtp := mtp, p2sh := p2sh, witness := wit, csv := csv, txs := txs }

def full {α : Type} (p : P α) (toks : List String) : Option α :=
  match p.run toks with
  | some (a, []) => some a
  | _ => none

def entry (txid : Bytes) (vout value height : Nat) (cb : Bool) (scr : Bytes) : String :=
  s!"{Hex.encodeRaw txid}:{vout},{value},{height},{Proto.boolStr cb},{Hex.encodeRaw scr}"

def idxOuts (outs : List (Option TxOut)) : List (Nat × TxOut) :=
  (outs.zipIdx).filterMap fun (o, i) => o.map fun x => (i, x)

def dumpDB (db : DB) : String :=
  let es := db.flatMap fun (_, r) => (idxOuts r.outs).map fun (i, o) => entry r.txid i o.value r.height r.coinbase o.script
  s!"{es.length} {"|".intercalate es}"

def dumpSpec (u : Spec.Connect.Utxo) : String :=
  let es := u.map fun (p, c) => entry p.hash p.vout c.value c.height c.coinbase c.script
  s!"{es.length} {"|".intercalate es}"

def step (st : OState) (toks : List String) : OState × String :=
  let bad := (st, "bad-op")
  match toks with
  | ["reset", g] =>
    match Hex.decode g with
    | some g => ({ ch := ⟨[], g, [g]⟩, su := [] }, "ok")
    | none => bad
  | "block" :: rest =>
    match full pBlock rest with
    | none => bad
    | some b =>
      let (ch', r) := acceptBlock Cfg.current st.ch b
      let mr := match r with
        | .ok so => s!"m=ok:{so}"
        | .error e => s!"m=err:{reprStr e}"
      let (su', sr) := match Spec.Connect.connectBlock st.su b with
        | .ok u => (u, "s=ok")
        | .error e => (st.su, s!"s=err:{reprStr e}")
      ({ ch := ch', su := su' }, s!"{mr} {sr}")
  | "blockv" :: bits :: rest =>
    match full pBlock rest with
    | none => bad
    | some b =>
      if bits.length ≠ b.txs.length ∨ bits.any (fun c => c ≠ '0' ∧ c ≠ '1') then bad else
      let chk := checkerOfBits b (bits.toList.map (· == '1'))
      let (ch', r) := acceptBlockT Cfg.current chk st.ch b
      let mr := match r with
        | .ok so => s!"m=ok:{so}"
        | .error e => s!"m=err:{reprStr e}"
      let (su', sr) := match Spec.Connect.connectBlock st.su b with
        | .ok u => (u, "s=ok")
        | .error e => (st.su, s!"s=err:{reprStr e}")
      ({ ch := ch', su := su' }, s!"{mr} {sr}")
  -- hook <none|tosend|replaced|rejected> <local 0|1> <txid> <wtxid of the pool's entry> <wtxid of the block's transaction>:
  -- `cacheSays HookCfg.current` (Model/ConnectCache: the function theorem real_pool_hook_is_honest is about) on a pool
  -- that holds at most this one entry for the txid; the harness compares the answer with client/txpool's txChecker
  | ["hook", state, loc, txid, ew, tw] =>
    match Hex.decode txid, Hex.decode ew, Hex.decode tw with
    | some txid, some ew, some tw =>
      if loc ≠ "0" ∧ loc ≠ "1" then bad else
      let mk (s : PoolState) : List CacheEntry := [⟨txid, ew, s, loc == "1"⟩]
      let cache? : Option (List CacheEntry) := match state with
        | "none" => some []
        | "tosend" => some (mk .toSend)
        | "replaced" => some (mk .replaced)
        | "rejected" => some (mk .rejectedOther)
        | _ => none
      match cache? with
      | some cache => (st, Proto.boolStr (cacheSays HookCfg.current cache txid tw))
      | none => bad
    | _, _, _ => bad
  | ["state"] => (st, s!"{Hex.encodeRaw st.ch.tip} {st.ch.index.length}")
  | ["index"] => (st, s!"{st.ch.index.length} {"|".intercalate (st.ch.index.map Hex.encodeRaw)}")
  | "inject" :: rest =>
    let p : P (Bytes × Nat × Bool × Nat × List TxOut) := do
      let id ← phex; let h ← pnat; let cb ← pbool; let mtp ← pnat; let n ← pnat
      let outs ← rep pOut n
      pure (id, h, cb, mtp, outs)
    match full p rest with
    | some (id, h, cb, mtp, outs) =>
      let db' := dbAdd st.ch.db { txid := id, height := h, coinbase := cb, outs := outs.map some }
      let su' := (outs.zipIdx).foldl (fun u (o, i) => aSet u ⟨id, i⟩ ⟨o.value, o.script, h, cb, mtp⟩) st.su
      ({ ch := { st.ch with db := db' }, su := su' }, "ok")
    | none => bad
  | ["dump"] => (st, dumpDB st.ch.db)
  | ["sdump"] => (st, dumpSpec st.su)
  | ["reward", h] =>
    match h.toNat? with
    | some h => (st, s!"{getBlockReward h} {Spec.Connect.subsidy h}")
    | none => bad
  | ["sigops", s, a] =>
    match Hex.decode s with
    | some s => (st, s!"{getSigOpCount s (a == "1")} {Spec.Connect.sigOpCount s (a == "1")}")
    | none => bad
  | ["p2shsig", s] =>
    match Hex.decode s with
    | some s => (st, s!"{getP2SHSigOpCount s}")
    | none => bad
  | "witsig" :: rest =>
    let p : P Nat := do
      let ss ← phex; let pk ← phex; let n ← pnat
      let w ← rep phex n
      pure (countWitnessSigOps { prev := default, scriptSig := ss, sequence := 0, witness := w, scriptOk := true } pk)
    match full p rest with
    | some n => (st, s!"{n}")
    | none => bad
  | "chktx" :: rest =>
    match full pTx rest with
    | some tx => (st, match checkTransaction Cfg.current tx with | .ok _ => "ok" | .error e => s!"err:{reprStr e}")
    | none => bad
  | "final" :: h :: t :: rest =>
    match h.toNat?, t.toNat?, full pTx rest with
    | some h, some t, some tx => (st, Proto.boolStr (isFinal tx h t))
    | _, _, _ => bad
  | _ => bad

def main : IO Unit := Proto.serve ({} : OState) step
