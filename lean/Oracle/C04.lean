/-
  oracle_c04 — line-protocol driver for Model.Connect (gocoin's block connection, `Cfg.current`) and
  Spec.Connect (sequential ConnectBlock).  The oracle is STATEFUL: it keeps the model's record-level DB and the
  spec's coin map; a `block` request runs both on the same candidate and advances each state iff that side
  accepted.  Byte strings are hex, "-" = empty.
    reset                                            -> ok
    block <hash> <height> <time> <mtp> <p2sh> <wit> <csv> <ntx> TX*      -> m=ok:<sigopscost>|m=err:<E> s=ok|s=err:<E>
       TX  = <txid> <version> <locktime> <nowitsize> <nin> <nout> IN* OUT*
       IN  = <prevhash> <vout> <scriptsig> <sequence> <scriptOk:0|1> <nwit> <witness item>*
       OUT = <value> <script>
    dump                                             -> <n> e|e|…   with e = txid:vout,value,height,cb,script   (model DB)
    sdump                                            -> same for the spec's map
    reward <height>                                  -> <GetBlockReward> <spec subsidy>
    sigops <script> <accurate:0|1>                   -> <GetSigOpCount> <spec count (no OP_RETURN stop)>
    p2shsig <scriptSig>                              -> <GetP2SHSigOpCount>
    witsig <scriptSig> <pkscript> <nwit> <item>*     -> <CountWitnessSigOps>
    chktx TX                                         -> ok | err:<E>          (Tx.CheckTransaction)
-/
import GocoinV.Spec.Connect
import GocoinV.Base.Proto
open GocoinV GocoinV.Connect

structure OState where
  db : DB := []
  su : Spec.Connect.Utxo := []

abbrev P := StateT (List String) Option

def tok : P String := do
  match (← get) with
  | [] => failure
  | t :: r => set r; pure t

def pnat : P Nat := do
  let t ← tok
  match t.toNat? with
  | some n => pure n
  | none => failure

def pbool : P Bool := do
  let t ← tok
  if t == "1" then pure true else if t == "0" then pure false else failure

def phex : P Bytes := do
  match Hex.decode (← tok) with
  | some b => pure b
  | none => failure

def rep {α : Type} (p : P α) : Nat → P (List α)
  | 0 => pure []
  | n+1 => do
    let a ← p
    let r ← rep p n
    pure (a :: r)

def pIn : P TxIn := do
  let h ← phex; let v ← pnat; let ss ← phex; let seq ← pnat; let ok ← pbool
  let nw ← pnat
  let w ← rep phex nw
  pure { prev := ⟨h, v⟩, scriptSig := ss, sequence := seq, witness := w, scriptOk := ok }

def pOut : P TxOut := do
  let v ← pnat; let s ← phex
  pure ⟨v, s⟩

def pTx : P Tx := do
  let id ← phex; let ver ← pnat; let lt ← pnat; let nws ← pnat
  let ni ← pnat; let no ← pnat
  let ins ← rep pIn ni
  let outs ← rep pOut no
  pure { txid := id, version := ver, ins := ins, outs := outs, lockTime := lt, noWitSize := nws }

def pBlock : P Block := do
  let h ← phex; let height ← pnat; let time ← pnat; let mtp ← pnat
  let p2sh ← pbool; let wit ← pbool; let csv ← pbool
  let n ← pnat
  let txs ← rep pTx n
  pure { hash := h, height := height, time := time, mtp := mtp, p2sh := p2sh, witness := wit, csv := csv, txs := txs }

def full {α : Type} (p : P α) (toks : List String) : Option α :=
  match p.run toks with
  | some (a, []) => some a
  | _ => none

def entry (txid : Bytes) (vout value height : Nat) (cb : Bool) (scr : Bytes) : String :=
  s!"{Hex.encodeRaw txid}:{vout},{value},{height},{Proto.boolStr cb},{Hex.encodeRaw scr}"

def idxOuts (outs : List (Option TxOut)) : List (Nat × TxOut) :=
  (outs.zipIdx).filterMap fun (o, i) => o.map fun x => (i, x)

def dumpDB (db : DB) : String :=
  let es := db.flatMap fun (_, r) => (idxOuts r.outs).map fun (i, o) => entry r.txid i o.value r.height r.coinbase o.script
  s!"{es.length} {"|".intercalate es}"

def dumpSpec (u : Spec.Connect.Utxo) : String :=
  let es := u.map fun (p, c) => entry p.hash p.vout c.value c.height c.coinbase c.script
  s!"{es.length} {"|".intercalate es}"

def step (st : OState) (toks : List String) : OState × String :=
  let bad := (st, "bad-op")
  match toks with
  | ["reset"] => ({}, "ok")
  | "block" :: rest =>
    match full pBlock rest with
    | none => bad
    | some b =>
      let (db', mr) := match connect Cfg.current st.db b with
        | .ok (d, so) => (d, s!"m=ok:{so}")
        | .error e => (st.db, s!"m=err:{reprStr e}")
      let (su', sr) := match Spec.Connect.connectBlock st.su b with
        | .ok u => (u, "s=ok")
        | .error e => (st.su, s!"s=err:{reprStr e}")
      ({ db := db', su := su' }, s!"{mr} {sr}")
  | ["dump"] => (st, dumpDB st.db)
  | ["sdump"] => (st, dumpSpec st.su)
  | ["reward", h] =>
    match h.toNat? with
    | some h => (st, s!"{getBlockReward h} {Spec.Connect.subsidy h}")
    | none => bad
  | ["sigops", s, a] =>
    match Hex.decode s with
    | some s => (st, s!"{getSigOpCount s (a == "1")} {Spec.Connect.sigOpCount s (a == "1")}")
    | none => bad
  | ["p2shsig", s] =>
    match Hex.decode s with
    | some s => (st, s!"{getP2SHSigOpCount s}")
    | none => bad
  | "witsig" :: rest =>
    let p : P Nat := do
      let ss ← phex; let pk ← phex; let n ← pnat
      let w ← rep phex n
      pure (countWitnessSigOps { prev := default, scriptSig := ss, sequence := 0, witness := w, scriptOk := true } pk)
    match full p rest with
    | some n => (st, s!"{n}")
    | none => bad
  | "chktx" :: rest =>
    match full pTx rest with
    | some tx => (st, match checkTransaction Cfg.current tx with | .ok _ => "ok" | .error e => s!"err:{reprStr e}")
    | none => bad
  | _ => bad

def main : IO Unit := Proto.serve ({} : OState) step
