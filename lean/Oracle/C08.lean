/-
  oracle_c08 — line-protocol driver for the C08 models.
  Numbers are lower-case hex without prefix; a field element is five limbs `n0:n1:n2:n3:n4`;
  signed integers carry a leading `-`. Byte strings are hex (32 bytes for SetB32/GetB32).
    norm <fe>                 -> <fe>            generated Field.Normalize
    add <fe r> <fe a>         -> <fe>            generated Field.SetAdd
    mulint <fe> <k>           -> <fe>
    neg <fe> <m>              -> <fe>
    mul <fe a> <fe b>         -> <fe>
    sqr <fe>                  -> <fe>
    setb32 <hex32>            -> <fe>
    getb32 <fe>               -> <hex32>
    setint <k>                -> <fe>
    iszero|isodd <fe>         -> 0|1
    equals <fe> <fe>          -> 0|1
    inv|sqrt|invvar <fe>      -> <fe>            hand models of the chains over generated mul/sqr
    const <name>              -> <hex>
    tab <pre_g|pre_g_128|prec|fin> <i>  -> <fe x> <fe y> | none
    tablen <name>             -> <n>
    dbl <xyz>                 -> <xyz>           xyz = <fe x> <fe y> <fe z> <inf 0|1>
    add3 <xyz> <xyz>          -> <xyz>
    addxy <xyz> <xy>          -> <xyz>           xy = <fe x> <fe y> <inf>
    negj <xyz>                -> <xyz>
    negxy <xy>                -> <xy>            XY.Neg
    mullam <xyz>              -> <xyz>
    setxyz <xyz>              -> <xy>
    setxo <fe> <odd>          -> <xy>
    isvalid <xy>              -> 0|1
    wnaf <int> <w>            -> ok d,d,… | panic       (digits signed decimal, `-` when empty)
    splitexp <int>            -> <int> <int>
    ecmult <xyz> <int na> <ng> -> <xyz> | panic
    ecmultgen <a>             -> <xyz>
    refmul <k> <x> <y>        -> <x> <y> | inf          reference affine k·(x,y) (Base.Secp)
    precomp <xyz> <w>         -> <xyz> | <xyz> | …      XYZ.precomp(w), 2^(w-2) entries (2 ≤ w ≤ 10)
    split <n> <bits>          -> <lo> <hi>              Number.split of a non-negative number (bits decimal ≤ 4096)
    rshx <int> <bits>         -> <word> <int>           Number.rsh_x: returned word (decimal), receiver afterwards (1 ≤ bits ≤ 62)
    parsekey <hex|->          -> 0 | 1 <xy>             XY.ParsePubkey on ANY byte string (33 / 65 / other lengths)
    getpub <xy> <unc>         -> <hex>                  XY.GetPublicKey into a 33-byte (unc=0) / 65-byte (unc=1) buffer
    apibm <k> <unc>           -> false | true <hex>     BaseMultiply(k, out)        k, pub = byte strings (hex, `-` = empty)
    apibma <pub> <k> <unc>    -> false | true <hex>     BaseMultiplyAdd(pub, k, out)
    apimul <pub> <k> <unc>    -> false | true <hex> | panic   Multiply(pub, k, out)
    setxyzarg <xyz>           -> <xyz>                  what XY.SetXYZ leaves in its ARGUMENT (rescaled in place, Z = 1)
    hist <nJ> <nA> <xyz>*nJ <xy>*nA <op>…  -> <xyz> | … | <xy> | …  | panic     a history of method calls on nJ Jacobian
                                              and nA affine OBJECTS (Model.GroupHist): dbl:i:k add:i:j:k addxy:i:a:k
                                              neg:i:k negxy:a:b setxyz:i:a setxy:a:k gen:s:k lam:i:k mult:i:na:ng:k
                                              (indices decimal, scalars hex); reply = every register afterwards
    invsched <i,i,…|-> <fe>…  -> <fe> …                 InvVar of several callers under an interleaving of their steps
                                              (Model.GroupSched, variant = the regenerated fact invScratchShared)
-/
import GocoinV.Model.Group
import GocoinV.Model.GroupNum
import GocoinV.Model.GroupApi
import GocoinV.Model.GroupHist
import GocoinV.Model.GroupSched
import GocoinV.Base.Proto
open GocoinV GocoinV.C08 GocoinV.Gen.Field5x52 GocoinV.Gen

def hexDigit? (c : Char) : Option Nat :=
  let n := c.toNat
  if 48 ≤ n ∧ n ≤ 57 then some (n - 48)
  else if 97 ≤ n ∧ n ≤ 102 then some (n - 87)
  else none

def hexNat? (s : String) : Option Nat :=
  if s.isEmpty then none
  else s.toList.foldl (fun acc c => do let a ← acc; let d ← hexDigit? c; pure (a * 16 + d)) (some 0)

def hexInt? (s : String) : Option Int :=
  if s.startsWith "-" then (hexNat? (s.drop 1).toString).map fun n => -(n : Int)
  else (hexNat? s).map fun n => (n : Int)

def natHex (n : Nat) : String := String.ofList (Nat.toDigits 16 n)

def intHex (i : Int) : String := if i < 0 then "-" ++ natHex i.natAbs else natHex i.toNat

def fe? (s : String) : Option Fe :=
  match (s.splitOn ":").map hexNat? with
  | [some a, some b, some c, some d, some e] =>
    if a < 2^64 ∧ b < 2^64 ∧ c < 2^64 ∧ d < 2^64 ∧ e < 2^64 then some ⟨a, b, c, d, e⟩ else none
  | _ => none

def feStr (a : Fe) : String := ":".intercalate (a.toList.map natHex)

def bool? (s : String) : Option Bool := if s == "1" then some true else if s == "0" then some false else none

def xyz? : List String → Option XYZ
  | [x, y, z, i] => do pure { x := ← fe? x, y := ← fe? y, z := ← fe? z, inf := ← bool? i }
  | _ => none

def xy? : List String → Option XY
  | [x, y, i] => do pure { x := ← fe? x, y := ← fe? y, inf := ← bool? i }
  | _ => none

def xyzStr (a : XYZ) : String := s!"{feStr a.x} {feStr a.y} {feStr a.z} {Proto.boolStr a.inf}"
def xyStr (a : XY) : String := s!"{feStr a.x} {feStr a.y} {Proto.boolStr a.inf}"

def bytes32? (s : String) : Option (List Nat) :=
  match Hex.decode s with
  | some b => if b.length = 32 then some (b.map (·.toNat)) else none
  | none => none

def bytesAny? (s : String) : Option (List Nat) := (Hex.decode s).map fun b => b.map (·.toNat)

def natBytesHex (l : List Nat) : String := Hex.encode (l.map UInt8.ofNat)

def apiStr : ApiRes → String
  | .panic => "panic"
  | .refused => "false"
  | .ok out => "true " ++ natBytesHex out

/-- n register descriptions of `w` tokens each from the front of the token list -/
def takeRegs {α : Type} (parse : List String → Option α) (w : Nat) : Nat → List String → Option (List α × List String)
  | 0, ts => some ([], ts)
  | n + 1, ts =>
    if ts.length < w then none else
    match parse (ts.take w), takeRegs parse w n (ts.drop w) with
    | some a, some (l, rest) => some (a :: l, rest)
    | _, _ => none

def hop? (s : String) : Option HOp :=
  match s.splitOn ":" with
  | ["dbl", i, k] => do pure (.dbl (← i.toNat?) (← k.toNat?))
  | ["add", i, j, k] => do pure (.add (← i.toNat?) (← j.toNat?) (← k.toNat?))
  | ["addxy", i, a, k] => do pure (.addxy (← i.toNat?) (← a.toNat?) (← k.toNat?))
  | ["neg", i, k] => do pure (.neg (← i.toNat?) (← k.toNat?))
  | ["negxy", a, b] => do pure (.negxy (← a.toNat?) (← b.toNat?))
  | ["setxyz", i, a] => do pure (.setxyz (← i.toNat?) (← a.toNat?))
  | ["setxy", a, k] => do pure (.setxy (← a.toNat?) (← k.toNat?))
  | ["gen", sc, k] => do pure (.gen (← hexNat? sc) (← k.toNat?))
  | ["lam", i, k] => do pure (.lam (← i.toNat?) (← k.toNat?))
  | ["mult", i, na, ng, k] => do pure (.mult (← i.toNat?) (← hexInt? na) (← hexNat? ng) (← k.toNat?))
  | _ => none

def regsStr (r : Regs) : String := " | ".intercalate (r.J.map xyzStr ++ r.A.map xyStr)

def histReply (nj na : Nat) (ts : List String) : Option String := do
  let (js, ts) ← takeRegs xyz? 4 nj ts
  let (as, ts) ← takeRegs xy? 3 na ts
  let ops ← ts.mapM hop?
  -- a register index out of range is a malformed request, an ECmult panic is an observation
  let inRange (o : HOp) : Bool := match o with
    | .dbl i k | .neg i k | .lam i k => i < nj && k < nj
    | .add i j k => i < nj && j < nj && k < nj
    | .addxy i a k => i < nj && a < na && k < nj
    | .negxy a b => a < na && b < na
    | .setxyz i a => i < nj && a < na
    | .setxy a k => a < na && k < nj
    | .gen _ k => k < nj
    | .mult i _ _ k => i < nj && k < nj
  if !ops.all inRange then none else
  match run ops ⟨js, as⟩ with
  | some r => pure (regsStr r)
  | none => pure "panic"

def schedOf? (s : String) : Option (List Nat) :=
  if s == "-" then some [] else (s.splitOn ",").mapM (·.toNat?)

def constByName : String → Option Nat
  | "order" => some CurveConsts.order | "halforder" => some CurveConsts.halfOrder | "p" => some CurveConsts.p
  | "gx" => some CurveConsts.gx | "gy" => some CurveConsts.gy | "lambda" => some CurveConsts.lambda
  | "beta" => some CurveConsts.beta | "a1b2" => some CurveConsts.a1b2 | "b1" => some CurveConsts.b1
  | "a2" => some CurveConsts.a2 | "window_a" => some CurveConsts.windowa | "window_g" => some CurveConsts.windowg
  | _ => none

def tabAt (name : String) (i : Nat) : List Nat :=
  match name with
  | "pre_g" => Tables.preGAt i | "pre_g_128" => Tables.preG128At i | "prec" => Tables.precAt i
  | "fin" => if i = 0 then Tables.fin else []
  | _ => []

def step (_ : Unit) (toks : List String) : Unit × String :=
  let bad := ((), "bad-op")
  let fe1 (f : Fe → Fe) (a : String) := match fe? a with | some a => ((), feStr (f a)) | none => bad
  match toks with
  | ["norm", a] => fe1 normalize a
  | ["sqr", a] => fe1 sqr a
  | ["inv", a] => fe1 inv a
  | ["sqrt", a] => fe1 sqrt a
  | ["invvar", a] => fe1 invVar a
  | ["add", r, a] => match fe? r, fe? a with | some r, some a => ((), feStr (setAdd r a)) | _, _ => bad
  | ["mul", a, b] => match fe? a, fe? b with | some a, some b => ((), feStr (mul a b)) | _, _ => bad
  | ["mulint", r, k] => match fe? r, hexNat? k with
    | some r, some k => if k < 2^64 then ((), feStr (mulInt r k)) else bad
    | _, _ => bad
  | ["neg", a, m] => match fe? a, hexNat? m with
    | some a, some m => if m < 2^64 then ((), feStr (negate a m)) else bad
    | _, _ => bad
  | ["setint", k] => match hexNat? k with
    | some k => if k < 2^64 then ((), feStr (setInt k)) else bad
    | none => bad
  | ["setb32", h] => match bytes32? h with | some b => ((), feStr (setB32L b)) | none => bad
  | ["getb32", a] => match fe? a with
    | some a => ((), Hex.encode ((getB32 a).map UInt8.ofNat))
    | none => bad
  | ["iszero", a] => match fe? a with | some a => ((), Proto.boolStr (isZero a)) | none => bad
  | ["isodd", a] => match fe? a with | some a => ((), Proto.boolStr (isOdd a)) | none => bad
  | ["equals", a, b] => match fe? a, fe? b with | some a, some b => ((), Proto.boolStr (equals a b)) | _, _ => bad
  | ["const", n] => match constByName n with | some v => ((), natHex v) | none => bad
  | ["tablen", n] => match n with
    | "pre_g" => ((), toString Tables.preGLen) | "pre_g_128" => ((), toString Tables.preG128Len)
    | "prec" => ((), toString Tables.precLen) | "fin" => ((), "1") | _ => bad
  | ["tab", n, i] => match i.toNat? with
    | some i => match tabAt n i with
      | [] => ((), "none")
      | l => ((), s!"{feStr (Fe.ofList (l.take 5))} {feStr (Fe.ofList (l.drop 5))}")
    | none => bad
  | ["dbl", x, y, z, i] => match xyz? [x, y, z, i] with | some a => ((), xyzStr (XYZ.double a)) | none => bad
  | ["negj", x, y, z, i] => match xyz? [x, y, z, i] with | some a => ((), xyzStr (XYZ.neg a)) | none => bad
  | ["negxy", x, y, i] => match xy? [x, y, i] with | some a => ((), xyStr (XY.neg a)) | none => bad
  | ["mullam", x, y, z, i] => match xyz? [x, y, z, i] with | some a => ((), xyzStr (XYZ.mulLambda a)) | none => bad
  | ["setxyz", x, y, z, i] => match xyz? [x, y, z, i] with | some a => ((), xyStr (XY.ofXYZ a)) | none => bad
  | ["add3", x, y, z, i, x2, y2, z2, i2] => match xyz? [x, y, z, i], xyz? [x2, y2, z2, i2] with
    | some a, some b => ((), xyzStr (XYZ.add a b)) | _, _ => bad
  | ["addxy", x, y, z, i, x2, y2, i2] => match xyz? [x, y, z, i], xy? [x2, y2, i2] with
    | some a, some b => ((), xyzStr (XYZ.addXY a b)) | _, _ => bad
  | ["setxo", x, o] => match fe? x, bool? o with | some x, some o => ((), xyStr (XY.setXO x o)) | _, _ => bad
  | ["isvalid", x, y, i] => match xy? [x, y, i] with | some a => ((), Proto.boolStr (XY.isValid a)) | none => bad
  | ["wnaf", a, w] => match hexInt? a, w.toNat? with
    | some a, some w =>
      if w < 2 ∨ w > 30 then bad else
      match wnaf a w with
      | some ds => ((), "ok " ++ (if ds.isEmpty then "-" else ",".intercalate (ds.map toString)))
      | none => ((), "panic")
    | _, _ => bad
  | ["splitexp", a] => match hexInt? a with
    | some a => let (r1, r2) := splitExp a; ((), s!"{intHex r1} {intHex r2}")
    | none => bad
  | ["ecmult", x, y, z, i, na, ng] => match xyz? [x, y, z, i], hexInt? na, hexNat? ng with
    | some a, some na, some ng => match ecmult a na ng with
      | some r => ((), xyzStr r) | none => ((), "panic")
    | _, _, _ => bad
  | ["ecmultgen", a] => match hexNat? a with | some a => ((), xyzStr (ecmultGen a)) | none => bad
  | ["refmul", k, x, y] => match hexNat? k, hexNat? x, hexNat? y with
    | some k, some x, some y => match Secp.mul k (some (x, y)) with
      | some (rx, ry) => ((), s!"{natHex rx} {natHex ry}") | none => ((), "inf")
    | _, _, _ => bad
  | ["precomp", x, y, z, i, w] => match xyz? [x, y, z, i], w.toNat? with
    | some a, some w =>
      if w < 2 ∨ w > 10 then bad else ((), " | ".intercalate ((XYZ.precomp a w).map xyzStr))
    | _, _ => bad
  | ["split", n, bits] => match hexNat? n, bits.toNat? with
    | some n, some bits =>
      if bits > 4096 then bad else let (lo, hi) := split n bits; ((), s!"{natHex lo} {natHex hi}")
    | _, _ => bad
  | ["rshx", a, bits] => match hexInt? a, bits.toNat? with
    | some a, some bits =>
      if bits < 1 ∨ bits > 62 then bad else let (word, rest) := rshX a bits; ((), s!"{word} {intHex rest}")
    | _, _ => bad
  | ["parsekey", h] => match bytesAny? h with
    | some b => match XY.parsePubkey b with
      | some pk => ((), "1 " ++ xyStr pk) | none => ((), "0")
    | none => bad
  | ["getpub", x, y, i, u] => match xy? [x, y, i], bool? u with
    | some a, some u => ((), natBytesHex (XY.getPublicKey a u))
    | _, _ => bad
  | ["apibm", k, u] => match bytesAny? k, bool? u with
    | some k, some u => ((), apiStr (baseMultiply (C08.beVal k) u))
    | _, _ => bad
  | ["apibma", p, k, u] => match bytesAny? p, bytesAny? k, bool? u with
    | some p, some k, some u => ((), apiStr (baseMultiplyAdd p (C08.beVal k) u))
    | _, _, _ => bad
  | ["apimul", p, k, u] => match bytesAny? p, bytesAny? k, bool? u with
    | some p, some k, some u => ((), apiStr (multiply p (C08.beVal k) u))
    | _, _, _ => bad
  | ["setxyzarg", x, y, z, i] => match xyz? [x, y, z, i] with | some a => ((), xyzStr (XYZ.afterSetXYZ a)) | none => bad
  | "hist" :: nj :: na :: rest => match nj.toNat?, na.toNat? with
    | some nj, some na =>
      if nj > 16 ∨ na > 16 then bad else
      match histReply nj na rest with | some s => ((), s) | none => bad
    | _, _ => bad
  | "invsched" :: sc :: fes => match schedOf? sc, fes.mapM fe? with
    | some sc, some as =>
      if as.isEmpty ∨ as.length > 16 ∨ !sc.all (· < as.length) then bad
      else ((), " ".intercalate ((InvSched.results as sc).map feStr))
    | _, _ => bad
  | _ => bad

def main : IO Unit := Proto.serve () step
