/-
  oracle_c13 — line-protocol driver for Model.WalletTx.
  Byte strings are hex ("-" = empty); lists are comma separated ("_" = empty list); fields of a list
  element are colon separated; witness stacks use '.' between items and ';' between stacks.
  Stateful requests:
    keys <testnet 0|1> <bech32 0|1> <pub,pub,…>          -> ok <n>
    coins <txid:vout:value:script,…>                      -> ok <n>
    amt <str>                                             -> ok <v> | err | exit
    send <send|none> <batchline,…|none> <fee string> <subfee> <useall> <seq> <lock> <ver> <change|none> <msg>
         <apply2bal> <sig,sig,…>
        -> exit1 | panic | nosend
         | ok <file> <txid> <applied> <change> <nin> <txid:vout,… unspent afterwards>
    raw <ver> <lock> <txid:vout:scriptSig:seq,…> <value:script,…> <none | stack;stack;…>
        <spent: value:script | none ,…> <ms: none | scriptSig:ok ,…> <sig,sig,…>
        -> ok <file> <signed 0|1>
    sel <useall> <need>                                   -> ok <picked idx list> <total>   (selection loop only)
    dig <ver> <lock> <txid:vout:scriptSig:seq,…> <value:script,…> <spent value:script,…> <i> <scriptCode> <amount>
        -> ok <legacy> <bip143> <bip341-keypath>     the digests `c02Crypto` (Spec/WalletTxDigest.lean) computes from the
           SKELETON of the transaction for input i: SIGHASH_ALL legacy and BIP143 digest for the script code / amount,
           SIGHASH_DEFAULT key-path digest ("-" where the model function hands out no digest)
    signrfc <priv32> <digest>                             -> ok <der> | none
           `txSignRfc` (Model/WalletDer.lean): C03's model of btc.EcdsaSign with -rfc6979 (RFC6979 nonce, Signature.Sign)
           followed by the DER assembly of Tx.Sign / Tx.SignWitness — the signature bytes WITHOUT the hash-type byte
-/
import GocoinV.Model.WalletTx
import GocoinV.Spec.WalletTxDigest
import GocoinV.Model.WalletDer
import GocoinV.Base.Ripemd160
import GocoinV.Base.Sha256
import GocoinV.Base.Proto
open GocoinV GocoinV.WalletTx

def H : Addr.Hashes := { sha2sum := sha256d, hash160 := hash160 }

structure St where
  testnet : Bool := false
  bech32 : Bool := false
  ks : List KeyRec := []
  coins : List Coin := []

def listOf {α} (s : String) (f : String → Option α) : Option (List α) :=
  if s == "_" then some [] else (s.splitOn ",").mapM f

def coinOf (s : String) : Option Coin :=
  match s.splitOn ":" with
  | [t, v, a, sc] => do
    let t ← Hex.decode t; let v ← v.toNat?; let a ← a.toNat?; let sc ← Hex.decode sc
    pure { txid := t, vout := v, value := a, script := sc }
  | _ => none

def inOf (s : String) : Option TxIn :=
  match s.splitOn ":" with
  | [t, v, ss, q] => do
    let t ← Hex.decode t; let v ← v.toNat?; let ss ← Hex.decode ss; let q ← q.toNat?
    pure { txid := t, vout := v, scriptSig := ss, sequence := q }
  | _ => none

def outOfS (s : String) : Option TxOut :=
  match s.splitOn ":" with
  | [a, sc] => do
    let a ← a.toNat?; let sc ← Hex.decode sc
    pure { value := a, script := sc }
  | _ => none

def optOutOf (s : String) : Option (Option TxOut) :=
  if s == "none" then some none else (outOfS s).map some

def msOf (s : String) : Option (Option (Bytes × Bool)) :=
  if s == "none" then some none
  else match s.splitOn ":" with
    | [ss, ok] => do
      let ss ← Hex.decode ss
      pure (some (ss, ok == "1"))
    | _ => none

def stackOf (s : String) : Option (List Bytes) :=
  if s == "_" then some [] else (s.splitOn ".").mapM Hex.decode

def witOf (s : String) : Option (Option (List (List Bytes))) :=
  if s == "none" then some none
  else ((s.splitOn ";").mapM stackOf).map some

def optBytes (s : String) : Option (Option Bytes) :=
  if s == "none" then some none else (Hex.decode s).map some

def flag (s : String) : Option Bool :=
  if s == "1" then some true else if s == "0" then some false else none

def sigFn (sigs : List Bytes) : Skeleton → SigFn := fun _ i _ => sigs.getD i []

def showOutpoints (l : List (Bytes × Nat)) : String :=
  if l.isEmpty then "_" else ",".intercalate (l.map fun (t, v) => s!"{Hex.encode t}:{v}")

def step (st : St) (toks : List String) : St × String :=
  let bad := (st, "bad-op")
  match toks with
  | ["keys", tn, b32, pubs] =>
    match flag tn, flag b32, listOf pubs Hex.decode with
    | some tn, some b32, some pubs =>
      ({ st with testnet := tn, bech32 := b32, ks := keyTable H b32 pubs }, s!"ok {pubs.length}")
    | _, _, _ => bad
  | ["coins", cs] =>
    match listOf cs coinOf with
    | some cs => ({ st with coins := cs }, s!"ok {cs.length}")
    | none => bad
  | ["amt", s] =>
    match Hex.decode s with
    | some s =>
      match stringToSatoshis s with
      | .ok v => (st, s!"ok {v}")
      | .err => (st, "err")
      | .exit => (st, "exit")
    | none => bad
  | ["sel", ua, need] =>
    match flag ua, need.toNat? with
    | some ua, some need =>
      let s := select st.ks ua need st.coins 0
      (st, s!"ok {showOutpoints (s.picked.map fun u => (u.txid, u.vout))} {s.total}")
    | _, _ => bad
  | ["send", send, batch, fee, subfee, useall, seq, lock, ver, change, msg, a2b, sigs] =>
    match optBytes send, (if batch == "none" then some none else (listOf batch Hex.decode).map some),
          (Hex.decode fee).map stringToSatoshis, flag subfee, flag useall, seq.toNat?, lock.toNat?, ver.toNat?, optBytes change,
          Hex.decode msg, flag a2b, listOf sigs Hex.decode with
    | some send, some batch, some fee, some subfee, some useall, some seq, some lock, some ver, some change,
      some msg, some a2b, some sigs =>
      match fee with
      | .err | .exit => (st, "exit1")        -- main.go: "Incorrect fee value" / os.Exit(1) inside StringToSatoshis
      | .ok fee =>
      let c : Cfg := { testnet := st.testnet, bech32 := st.bech32, fee := fee, subfee := subfee, useAll := useall,
                       seq := seq, lockTime := lock, version := ver, change := change, msg := msg }
      match runSend H c st.ks a2b st.coins send batch (sigFn sigs) with
      | .error .exit1 => (st, "exit1")
      | .error .panic => (st, "panic")
      | .ok none => (st, "nosend")
      | .ok (some w) =>
        (st, s!"ok {Hex.encode w.file} {Hex.encode w.txid} {Proto.boolStr w.applied} {w.change} {w.tx.ins.length} {showOutpoints w.unspentAfter}")
    | _, _, _, _, _, _, _, _, _, _, _, _ => bad
  | ["raw", ver, lock, ins, outs, wit, spent, ms, sigs] =>
    match ver.toNat?, lock.toNat?, listOf ins inOf, listOf outs outOfS, witOf wit, listOf spent optOutOf,
          listOf ms msOf, listOf sigs Hex.decode with
    | some ver, some lock, some ins, some outs, some wit, some spent, some ms, some sigs =>
      let c : Cfg := { testnet := st.testnet, bech32 := st.bech32, fee := 0, subfee := false, useAll := false,
                       seq := 0, lockTime := 0, version := 0, change := none, msg := [] }
      let t : Tx := { version := ver, ins := ins, outs := outs, wit := wit, lockTime := lock }
      let (t', ok) := runRaw H c st.ks t spent (sigFn sigs) (fun i => (ms.getD i none))
      (st, s!"ok {Hex.encode (fileBytes t')} {Proto.boolStr ok}")
    | _, _, _, _, _, _, _, _ => bad
  | ["dig", ver, lock, ins, outs, spent, i, sc, amount] =>
    match ver.toNat?, lock.toNat?, listOf ins inOf, listOf outs outOfS, listOf spent outOfS, i.toNat?, Hex.decode sc, amount.toNat? with
    | some ver, some lock, some ins, some outs, some spent, some i, some sc, some amount =>
      let t : Tx := { version := ver, ins := ins, outs := outs, wit := none, lockTime := lock }
      let C := c02Crypto sha256 hash160 (fun _ _ _ => false) (fun _ _ _ => false)
      let sk := skeleton t
      (st, s!"ok {Hex.encode (C.legacyDigest sk i sc 1)} {Hex.encode (C.witnessDigest sk i sc amount 1)} {Hex.encode (C.taprootDigest sk spent i 0)}")
    | _, _, _, _, _, _, _, _ => bad
  | ["signrfc", priv, dg] =>
    match Hex.decode priv, Hex.decode dg with
    | some priv, some dg =>
      if priv.length ≠ 32 ∨ dg.length ≠ 32 then bad else
      match txSignRfc sha256 priv dg with
      | some der => (st, s!"ok {Hex.encode der}")
      | none => (st, "none")
    | _, _ => bad
  | _ => bad

def main : IO Unit := Proto.serve ({} : St) step
