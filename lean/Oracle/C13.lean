/- oracle_c13 — placeholder driver (replaced when the C13 model is added). -/
import GocoinV.Base.Proto
open GocoinV
def main : IO Unit := Proto.serve () (fun _ _ => ((), "bad-op"))
