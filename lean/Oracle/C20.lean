/-
  oracle_c20 — line-protocol driver for the allocator model (Model/Alloc.lean), V := Nat (fill tag).
  Requests:
    reset                         -> ok
    m <size>                      -> ok s <pg> <i> <len> <cap> | ok p <id> <len> <cap> | err <e>
    f s <pg> <i> | f p <id>       -> ok | err <e>
    w s <pg> <i> <tag> | w p <id> <tag>  -> ok | err <e>
    (after any `err` reply the model state is reset: the state is consumed linearly so that the maps are
     updated in place)
    d <c>:<pg>,<pg>;<c>:…  | d -  -> ok <n> <oldpg>.<oldi>><newpg>.<newi> …   (relocations, in order per class) | err <e>
    want                          -> classes DefragAllImproved would defragment now: "ok c c c" / "ok -"
    st                            -> ok <allocs> <bytes> <privMmaps> <sharedMmaps> <nlive> <nextPage>
    cls <c>                       -> ok cur=<pg|0> pc=<n> fs=<n> g=<pg.i,…|-> pl=<pg:brk:used:free:evac:i,i…|…>
    live <addr…>                  -> ok <len>:<cap>:<tag|-> (memory of a live allocation; err if not live)
    ptr <c>                       -> the pointer structure of class c read through pointers only (State.heap):
                                     ok L=<slot|0> F=<pg|0> Z=<pg|0> g=<slot:prev:next,…|-> pl=<pg:prev:next:fl;slot:pip:nip,…|…|->
    n new                         -> ok   (node-level wiring model, Model/AllocNode.lean, fresh process)
    n init <0|1> | n reset <0|1> | n other <0|1> | n m | n f <rec> | n d
                                  -> ok rep=<id|-> allocs=<n|-> live=<n> m=<h|id> f=<h|id> next=<n>
                                     (0|1 = CFG.Memory.UseGoHeap at that moment; rep = which allocator common.Memory is,
                                      in creation order; m / f = what Memory_Malloc / Memory_Free are bound to)
-/
import GocoinV.Model.Alloc
import GocoinV.Model.AllocNode
import GocoinV.Base.Proto
open GocoinV GocoinV.Alloc

abbrev St := State Nat

def errStr : Err → String
  | .notLive => "notLive" | .pageReleaseBranch => "pageReleaseBranch" | .dispatchMismatch => "dispatchMismatch"
  | .illegalChoice => "illegalChoice" | .corrupt => "corrupt"

def addrStr : Addr → String
  | .sh p i => s!"{p}.{i}"
  | .pv id => s!"p{id}"

def parseAddr : List String → Option (Addr × List String)
  | "s" :: p :: i :: rest => match p.toNat?, i.toNat? with
    | some p, some i => some (.sh p i, rest)
    | _, _ => none
  | "p" :: id :: rest => match id.toNat? with
    | some id => some (.pv id, rest)
    | none => none
  | _ => none

def parseNats (s : String) : Option (List Nat) :=
  if s = "" then some [] else
  (s.splitOn ",").foldr (fun t acc => match t.toNat?, acc with
    | some n, some l => some (n :: l) | _, _ => none) (some [])

def parseChoice (s : String) : Option (List (Nat × List Nat)) :=
  if s = "-" then some [] else
  (s.splitOn ";").foldr (fun t acc => match t.splitOn ":", acc with
    | [c, l], some r => match c.toNat?, parseNats l with
      | some c, some l => some ((c, l) :: r)
      | _, _ => none
    | _, _ => none) (some [])

def joinWith (sep : String) (l : List String) : String := if l.isEmpty then "-" else sep.intercalate l

def clsDump (s : St) (c : Nat) : String :=
  let k := s.K c
  let cur := match k.cur with | some p => p | none => 0
  let g := joinWith "," (k.glist.map fun (p, i) => s!"{p}.{i}")
  let pl := joinWith "|" (k.plist.map fun p => match s.pages.get? p with
    | none => s!"{p}:unmapped"
    | some h => s!"{p}:{h.brk}:{h.used}:{h.free}:{Proto.boolStr h.evac}:{",".intercalate (h.freeList.map toString)}")
  s!"ok cur={cur} pc={k.pageCount} fs={k.freeSlots} g={g} pl={pl}"

def slotStr : Option Slot → String
  | some (p, i) => s!"{p}.{i}"
  | none => "0"
def pgStr : Option Nat → String
  | some p => toString p
  | none => "0"

/-- everything below is read from `s.heap` by following pointers (walk fuel 2^22, as in the harness) -/
def ptrDump (s : St) (c : Nat) : String :=
  let g := s.heap
  let k := g.C c
  let fuel := 4194304
  let gl := walk (fun x => (g.N x).next) fuel k.lists
  let gs := joinWith "," (gl.map fun x => s!"{slotStr (some x)}:{slotStr (g.N x).prev}:{slotStr (g.N x).next}")
  let pgs := walk (fun p => (g.H p).next) fuel k.first
  let pl := joinWith "|" (pgs.map fun p =>
    let h := g.H p
    let fl := walk (fun x => (g.N x).nextInPage) fuel h.freeList
    s!"{p}:{pgStr h.prev}:{pgStr h.next}:{slotStr h.freeList};" ++
      ",".intercalate (fl.map fun x => s!"{slotStr (some x)}:{slotStr (g.N x).prevInPage}:{slotStr (g.N x).nextInPage}"))
  s!"ok L={slotStr k.lists} F={pgStr k.first} Z={pgStr k.last} g={gs} pl={pl}"

def step (s : St) (toks : List String) : St × String :=
  let bad := (s, "bad-op")
  match toks with
  | ["reset"] => (Alloc.init, "ok")
  | ["m", size] => match size.toNat? with
    | none => bad
    | some size => match malloc s size with
      | .error e => (Alloc.init, s!"err {errStr e}")
      | .ok (s', a) =>
        let (len, cap) := match s'.mem.get? a with | some m => (m.len, m.cap) | none => (0, 0)
        match a with
        | .sh p i => (s', s!"ok s {p} {i} {len} {cap}")
        | .pv id => (s', s!"ok p {id} {len} {cap}")
  | "f" :: rest => match parseAddr rest with
    | some (a, []) => match free s a with
      | .ok s' => (s', "ok")
      | .error e => (Alloc.init, s!"err {errStr e}")
    | _ => bad
  | "w" :: rest => match parseAddr rest with
    | some (a, [tag]) => match tag.toNat? with
      | none => bad
      | some v => match write s a v with
        | .ok s' => (s', "ok")
        | .error e => (Alloc.init, s!"err {errStr e}")
    | _ => bad
  | ["d", ch] => match parseChoice ch with
    | none => bad
    | some ch => match defragAll s ch with
      | .error e => (Alloc.init, s!"err {errStr e}")
      | .ok s' =>
        let rl := s'.relog.reverse
        (s', s!"ok {rl.length} " ++ joinWith " " (rl.map fun (o, n) => s!"{addrStr o}>{addrStr n}"))
  | ["want"] =>
    (s, "ok " ++ joinWith " " (((List.range nClasses).filter (wantsDefrag s)).map toString))
  | ["st"] => (s, s!"ok {s.allocs} {s.bytes} {s.privMmaps} {s.sharedMmaps} {s.live.size} {s.nextPage}")
  | ["cls", c] => match c.toNat? with
    | some c => (s, clsDump s c)
    | none => bad
  | ["ptr", c] => match c.toNat? with
    | some c => (s, ptrDump s c)
    | none => bad
  | "live" :: rest => match parseAddr rest with
    | some (a, []) => match s.live.get? a, s.mem.get? a with
      | some l, some m =>
        let tag := match m.val with | some v => toString v | none => "-"
        let gt := match l.val with | some v => toString v | none => "-"
        let d := match m.data with | some d => addrStr d | none => "-"
        (s, s!"ok {m.len}:{m.cap}:{tag}:{d}:{l.size}:{gt}")
      | _, _ => (s, "err notLive")
    | _ => bad
  | ["consts"] =>
    (s, s!"ok {pageSize} {Gen.MemClasses.headerSize} {Gen.MemClasses.sliceHdrLen} {maxShared} {nClasses} {osPageSize} {minFreePagesFrom} {minFreePagesTo} " ++
        ",".intercalate (slotSizes.map toString))
  | _ => bad

def tgtStr : AllocNode.Target → String
  | .goHeap => "h"
  | .arena id => toString id

def nodeStr (n : AllocNode.Node) : String :=
  let rep := match n.reporting with | some id => toString id | none => "-"
  let al := match AllocNode.reportedAllocs n with | some a => toString a | none => "-"
  s!"ok rep={rep} allocs={al} live={n.live.length} m={tgtStr n.mallocTo} f={tgtStr n.freeTo} next={n.nextRec}"

def flag? : String → Option Bool
  | "0" => some false
  | "1" => some true
  | _ => none

def nodeStep (n : AllocNode.Node) (toks : List String) : AllocNode.Node × String :=
  let f := AllocNode.srcFacts
  let go (op : AllocNode.Op) := let n' := AllocNode.step f n op; (n', nodeStr n')
  match toks with
  | ["new"] => (AllocNode.Node.empty, "ok")
  | ["init", g] => match flag? g with | some g => go (.initConfig g) | none => (n, "bad-op")
  | ["reset", g] => match flag? g with | some g => go (.reset g) | none => (n, "bad-op")
  | ["other", g] => match flag? g with | some g => go (.other g) | none => (n, "bad-op")
  | ["m"] => go .malloc
  | ["f", r] => match r.toNat? with
    | some r => if n.live.any (·.1 == r) then go (.free r) else (n, "err notLive")
    | none => (n, "bad-op")
  | ["d"] => go .defrag
  | _ => (n, "bad-op")

def step2 (s : St × AllocNode.Node) (toks : List String) : (St × AllocNode.Node) × String :=
  match toks with
  | "n" :: rest => let (n', r) := nodeStep s.2 rest; ((s.1, n'), r)
  | _ => let (a', r) := step s.1 toks; ((a', s.2), r)

def main : IO Unit := Proto.serve ((Alloc.init : St), AllocNode.Node.empty) step2
