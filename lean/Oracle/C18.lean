/-
  oracle_c18 — line-protocol driver for the C18 model (Model/NetParse.lean).
  Requests (byte strings hex, "-" = empty):
    h <fixed:0|1> <cmd> <ntx|-1> <authgot:0|1> <authorized:0|1> <trusted:0|1> <pending getdata bytes|-1> <getmp ticket ours:0|1> <payload>
        -> <out> L=<locks> S=<steps>
    f <fixed:0|1> <haskey:0|1> <versionreceived:0|1> <magic> <wire>
        -> <out> L=<locks> S=<steps>
    b <guard:0|1> <raw block> -> ok <number of transactions> | reject <why>   (BuildTxListExt, Model/NetParseState.lean)
    m <n>                    -> ok | panic      (the last index of CalcMerkle on n hashes)
    max <cmd-ascii>          -> ok <maxmsgsize as regenerated from core.go>
    txsize <bytes>           -> ok <n>
    x <now> <mis> <t:w,t:w,..|->  -> ok <mis'> <t:w,..|-> | panic   (expire_misbehave on c.misbehave = mis and
                                c.misbehave_history = the records (t = time & 0xffff, w = points, both decimal
                                0..65535), Model/NetParseExpire.lean; now and mis are signed decimals)
  <out> = ok <tag> <n1,n2,..|-> <blob1,blob2,..|-> | reject <reason> | panic <site with _ for spaces>
-/
import GocoinV.Model.NetParse
import GocoinV.Model.Wire
import GocoinV.Model.NetParseState
import GocoinV.Model.NetParseExpire
import GocoinV.Gen.NetFacts
import GocoinV.Base.Sha256
import GocoinV.Base.Proto
open GocoinV GocoinV.NetParse

def commaList (xs : List String) : String :=
  if xs.isEmpty then "-" else ",".intercalate xs

def lockName : Lock → String
  | .conn => "c.Mutex" | .rcv => "MutexRcv" | .tx => "TxMutex" | .blockIndex => "BlockIndexAccess" | .compact => "CompactBlocksMutex"

def showOut : Out → String
  | .ok t ns bs => s!"ok {t} {commaList (ns.map toString)} {commaList (bs.map Hex.encode)}"
  | .reject r => s!"reject {r}"
  | .panic s => s!"panic {s.replace " " "_"}"

def showRes (r : Res) : String :=
  s!"{showOut r.out} L={commaList (r.locks.map lockName)} S={r.steps}"

def newTxI (b : Bytes) : Option (Nat × Nat) :=
  (Wire.decodeTx b).map fun (t, n) => (t.ins.length, n)

def bit? (s : String) : Option Bool :=
  if s == "1" then some true else if s == "0" then some false else none

/-- `t:w,t:w,..` or `-`; both fields decimal uint16, anything else is malformed -/
def hist? (s : String) : Option Expire.Hist :=
  if s == "-" then some [] else
  (s.splitOn ",").mapM fun rec =>
    match rec.splitOn ":" with
    | [t, w] =>
      match t.toNat?, w.toNat? with
      | some t, some w => if t < 65536 && w < 65536 then some (t, w) else none
      | _, _ => none
    | _ => none

def showHist (h : Expire.Hist) : String :=
  commaList (h.map fun (t, w) => s!"{t}:{w}")

def step (_ : Unit) (toks : List String) : Unit × String :=
  let bad := ((), "bad-op")
  match toks with
  | ["h", fx, cmd, ntx, ag, au, tr, pend, ours, pl] =>
    -- pend: bytes of postponed getdata requests on the connection (c.unfinished_getdata), -1 = none
    -- ours: a getmp request is pending and the global getmp ticket is this connection's
    match Hex.decode pl, ntx.toInt?, bit? fx, bit? ag, bit? au, bit? tr, pend.toInt?, bit? ours with
    | some pl, some ntx, some fixed, some ag, some au, some tr, some pend, some ours =>
      let E : Env := { txSize := Wire.txSize, newTx := newTxI,
                       ntx := if ntx < 0 then none else some ntx.toNat,
                       authGot := ag, authorized := au,
                       pendingGetData := if pend < 0 then none else some pend.toNat, trusted := tr,
                       getmpOurs := ours }
      let r :=
        if fixed then parse E cmd pl
        else if cmd = "version" then handleVersionG false pl
        else if cmd = "inv" then processInvG false pl
        else if cmd = "getblocktxn" then processGetBlockTxnG false E.ntx pl
        else if cmd = "cmpctblock" then processCmpctBlockG false E.txSize pl
        else parse E cmd pl
      ((), showRes r)
    | _, _, _, _, _, _, _, _ => bad
  | ["f", fx, hk, vr, magic, w] =>
    match Hex.decode magic, Hex.decode w with
    | some magic, some w =>
      let E : FetchEnv := { magic := magic, maxMsgSize := fun c => Gen.NetFacts.maxMsgSize (bytesStr c),
                            checksum := fun b => (sha256d b).take 4, hasKey := hk == "1", versionReceived := vr == "1" }
      ((), showRes (fetchMessageG (fx == "1") E w))
    | _, _ => bad
  | ["b", g, raw] =>
    -- BuildTxListExt on a block object made from the header, Raw assigned afterwards (Model/NetParseState.lean)
    match bit? g, Hex.decode raw with
    | some g, some raw =>
      match State.buildTxList g (fun b => (Wire.decodeTx b).map (·.2)) raw with
      | .ok n => ((), s!"ok {n}")
      | .error e => ((), s!"reject {e.replace " " "-"}")
      | .panic e => ((), s!"panic {e.replace " " "_"}")
    | _, _ => bad
  | ["m", n] =>
    match n.toNat? with
    | some n => ((), match State.merkleLast n with | some _ => "ok" | none => "panic")
    | none => bad
  | ["max", cmd] => ((), s!"ok {Gen.NetFacts.maxMsgSize cmd}")
  | ["txsize", b] =>
    match Hex.decode b with
    | some b => ((), s!"ok {Wire.txSize b}")
    | none => bad
  | ["x", now, mis, h] =>
    match now.toInt?, mis.toInt?, hist? h with
    | some now, some mis, some h =>
      ((), match Expire.expire now mis h with
           | some (m, h') => s!"ok {m} {showHist h'}"
           | none => "panic")
    | _, _, _ => bad
  | _ => bad

def main : IO Unit := Proto.serve () step
