/-
  oracle_c06 — line-protocol driver for the C06 models (UtxoOps + ChainTree). State = the model chain.
  Requests (ids / txids are 64-digit hex, scripts hex with "-" for empty):
    init <rootid> <rootbits>                                   -> ok
    deliver <dump:0|1> <id> <parent> <bits> <ntx> <tx>*        -> <outcome> <tip> <#outs> <Σvalue> <dump|->
        <tx> = <txid> <scriptsOk:0|1> <nin> (<txid> <vout>)* <nout> (<value> <script>)*
        outcome = ok | dup | later | toodeep | err:<kind> | movefailed | panic:<what> | index-collision | detached
                  (header and data at once: CheckBlock + AcceptBlock)
    header <dump:0|1> <id> <parent> <bits>                     -> <outcome> <tip> <#outs> <Σvalue> <dump|->
                  (the header alone: PreCheckBlock + AcceptHeader; outcome = ok | dup | later | toodeep | index-collision)
    commit <dump:0|1> <id> <parent> <bits> <ntx> <tx>*         -> <outcome> <tip> <#outs> <Σvalue> <dump|->
                  (the data of a block whose header is known: HasAllParents + CommitBlock(bl, node);
                   outcome = the deliver ones | noheader | notlinking | discarded)
    limbo                                                      -> <n>       (entries of BlockIndex unreachable from the root)
        dump = comma separated  txid:vout:value:height:cb:script  (unsorted)
    idle                                                       -> ok        (Idle/save: no observable change)
    undolast                                                   -> ok <tip> <#outs> <Σvalue> <dump>   (Chain.UndoLastBlock)
    state                                                      -> <tip> <#outs> <Σvalue> <dump>
    work <bits>                                                -> <num> <den>
    morepow <id1> <id2>                                        -> 0|1|none
    farthest                                                   -> <id>      (FindFarthestNode: header-only leaves count)
    farthestdata                                               -> <id>      (findFarthestWithData: the fall-back's target)
    undochk                                                    -> ok <n> | bad <height> | vcbad <n>
                                                                  (undo file of every active height within the window is present;
                                                                   every connected block's changes satisfied `validChangesB`, the
                                                                   executable form of the hypothesis of theorem undo_commit)
-/
import GocoinV.Model.ChainTree
import GocoinV.Base.Proto
open GocoinV GocoinV.UtxoOps GocoinV.ChainTree

def hexNat (s : String) : Option Nat :=
  if s.isEmpty then none else
  s.toList.foldl (fun acc ch => match acc, Hex.unnibble ch with
    | some a, some d => some (a * 16 + d)
    | _, _ => none) (some 0)

def natHexAux : Nat → Nat → List Char → List Char
  | 0, _, acc => acc
  | k + 1, n, acc => natHexAux k (n / 16) (Hex.nibble (n % 16) :: acc)

def natHex64 (n : Nat) : String := String.ofList (natHexAux 64 n [])

def dumpStr (db : DB) : String :=
  let es := (dump db).map fun (t, v, c) =>
    s!"{natHex64 t}:{v}:{c.value}:{c.height}:{if c.coinbase then 1 else 0}:{if c.script.isEmpty then "-" else c.script}"
  if es.isEmpty then "-" else ",".intercalate es

def summary (c : Chain) (withDump : Bool) : String :=
  let d := dump c.utxo
  let sum := (d.map fun (_, _, c) => c.value).sum
  s!"{natHex64 c.tip} {d.length} {sum} {if withDump then dumpStr c.utxo else "-"}"

def takeIns : Nat → List String → Option (List TxIn × List String)
  | 0, r => some ([], r)
  | k + 1, t :: v :: r => do
    let t ← hexNat t
    let v ← v.toNat?
    let (is, r) ← takeIns k r
    pure ({ txid := t, vout := v } :: is, r)
  | _, _ => none

def takeOuts : Nat → List String → Option (List Out × List String)
  | 0, r => some ([], r)
  | k + 1, v :: s :: r => do
    let v ← v.toNat?
    let _ ← Hex.decode s
    let (os, r) ← takeOuts k r
    pure ({ value := v, script := if s == "-" then "" else s } :: os, r)
  | _, _ => none

def takeTxs : Nat → List String → Option (List Tx × List String)
  | 0, r => some ([], r)
  | k + 1, t :: ok :: nin :: r => do
    let t ← hexNat t
    if ok != "0" && ok != "1" then none
    let nin ← nin.toNat?
    let (ins, r) ← takeIns nin r
    match r with
    | nout :: r =>
      let nout ← nout.toNat?
      let (outs, r) ← takeOuts nout r
      let (txs, r) ← takeTxs k r
      pure ({ txid := t, ins := ins, outs := outs, scriptsOk := ok == "1" } :: txs, r)
    | [] => none
  | _, _ => none

def undoChk (c : Chain) : String :=
  let path := activePath c (c.nodes.length + 1) c.tip
  let hs := path.filterMap fun id => (getNode c id).map (·.height)
  let tipH := hs.headD 0
  let need := hs.filter fun h => h > 0 && h + UnwindBufLen > tipH
  match need.find? (fun h => (alookup h c.undoFiles).isNone) with
  | some h => s!"bad {h}"
  | none => if c.vcBad == 0 then s!"ok {need.length}" else s!"vcbad {c.vcBad}"

def step (c : Chain) (toks : List String) : Chain × String :=
  let bad := (c, "bad-op")
  match toks with
  | ["init", r, b] =>
    match hexNat r, b.toNat? with
    | some r, some b => (ChainTree.init r b, "ok")
    | _, _ => bad
  | "deliver" :: d :: id :: par :: bits :: ntx :: rest =>
    if d != "0" && d != "1" then bad else
    match hexNat id, hexNat par, bits.toNat?, ntx.toNat? with
    | some id, some par, some bits, some ntx =>
      match takeTxs ntx rest with
      | some (txs, []) =>
        let (c', o) := stepIdx c (.block { id := id, parent := par, bits := bits, txs := txs })
        (c', s!"{o.name} {summary c' (d == "1")}")
      | _ => bad
    | _, _, _, _ => bad
  | "commit" :: d :: id :: par :: bits :: ntx :: rest =>
    if d != "0" && d != "1" then bad else
    match hexNat id, hexNat par, bits.toNat?, ntx.toNat? with
    | some id, some par, some bits, some ntx =>
      match takeTxs ntx rest with
      | some (txs, []) =>
        let (c', o) := stepIdx c (.commit { id := id, parent := par, bits := bits, txs := txs })
        (c', s!"{o.name} {summary c' (d == "1")}")
      | _ => bad
    | _, _, _, _ => bad
  | ["header", d, id, par, bits] =>
    if d != "0" && d != "1" then bad else
    match hexNat id, hexNat par, bits.toNat? with
    | some id, some par, some bits =>
      let (c', o) := stepIdx c (.header { id := id, parent := par, bits := bits, txs := [] })
      (c', s!"{o.name} {summary c' (d == "1")}")
    | _, _, _ => bad
  | ["limbo"] => (c, toString c.limbo.length)
  | ["idle"] => (c, "ok")
  | ["undolast"] =>
    match undoLast c with
    | .ok c' => (c', s!"ok {summary c' true}")
    | .error e => (c, s!"{e} {summary c true}")
  | ["state"] => (c, summary c true)
  | ["work", b] =>
    match b.toNat? with
    | some b => let q := difficulty b; (c, s!"{q.num} {q.den}")
    | none => bad
  | ["morepow", a, b] =>
    match hexNat a, hexNat b with
    | some a, some b =>
      match getNode c a, getNode c b with
      | some x, some y => (c, if morePOW c x y then "1" else "0")
      | _, _ => (c, "none")
    | _, _ => bad
  | ["farthest"] =>
    match getNode c c.root with
    | some r => (c, natHex64 (farthest c (c.nodes.length + 1) r).1)
    | none => (c, "none")
  | ["farthestdata"] =>
    match getNode c c.root with
    | some r => (c, natHex64 (farthestS c (c.nodes.length + 1) r).1)
    | none => (c, "none")
  | ["undochk"] => (c, undoChk c)
  | _ => bad

def main : IO Unit := Proto.serve (ChainTree.init 0 0) step
