/- oracle_c17 — placeholder driver (replaced when the C17 model is added). -/
import GocoinV.Base.Proto
open GocoinV
def main : IO Unit := Proto.serve () (fun _ _ => ((), "bad-op"))
