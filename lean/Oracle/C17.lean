/-
  oracle_c17 — line-protocol driver for Model.Balances / Spec.Balances (stateful: one node state).
  Byte strings hex ("-" = empty), numbers decimal.
    reset                                                  -> ok
    add     <txid> <height> <cb:0|1> <nouts> {<vout> <value> <script>}*   commit.do_add        -> ok
    undoadd <txid> <height> <cb:0|1> <nouts> {<vout> <value> <script>}*   UndoBlockTxs addback -> ok
    del     <key8> <mask: string of 0/1 | ->               UnspentDB.del from commit           -> ok
    undodel <key8> <n>                                     UndoBlockTxs first loop             -> ok
    enable  <min> <usemapcnt>                              LoadBalancesFromUtxo                -> ok
    disable                                                Disable                             -> ok
    dump        -> on <0|1> {K <idx> <uidx> <value> <ismap> <n> {<key8>:<vout>}*}*   (unsorted)
    utxo        -> {<txid>:<vout>:<value>:<height>:<cb>:<script>}*                     (unsorted)
    getall <idx> <payload>  -> total <value> {<txid>:<vout>:<value>:<height>:<cb>}*    (model GetAllUnspent)
    proj   <idx> <payload>  -> total <sum>   {<txid>:<vout>:<value>:<height>:<cb>}*    (Spec projection)
    sip <bytes>             -> <decimal ourHash>
    s2i <script>            -> none | <idx> <uidx> <payload>
-/
import GocoinV.Spec.Balances
import GocoinV.Base.Proto
open GocoinV GocoinV.Model.Balances GocoinV.Spec.Balances

def H : Bytes → Nat := ourHash

def parseOuts (n : Nat) : List String → Option (List (Option Out))
  | toks =>
    let rec go (acc : List (Option Out)) : List String → Option (List (Option Out))
      | [] => some acc
      | v :: val :: scr :: rest =>
        match v.toNat?, val.toNat?, Hex.decode scr with
        | some v, some val, some scr =>
          if v < acc.length then go (acc.set v (some { value := val, script := scr })) rest else none
        | _, _, _ => none
      | _ => none
    go (List.replicate n none) toks

def parseRec : List String → Option Rec
  | txid :: h :: cb :: n :: rest =>
    match Hex.decode txid, h.toNat?, n.toNat? with
    | some txid, some h, some n =>
      if txid.length ≠ 32 ∨ (cb ≠ "0" ∧ cb ≠ "1") then none else
      match parseOuts n rest with
      | some outs => some { txid := txid, inBlock := h, coinbase := cb == "1", outs := outs }
      | none => none
    | _, _, _ => none
  | _ => none

def parseMask (s : String) : Option (List Bool) :=
  if s == "-" then some [] else
  s.toList.mapM (fun c => if c == '0' then some false else if c == '1' then some true else none)

def unspStr (u : Unspent) : String :=
  s!"{Hex.encode u.txid}:{u.vout}:{u.value}:{u.minedAt}:{Proto.boolStr u.coinbase}"

def dumpBal (s : State) : String :=
  let recs := s.bal.map fun (k, b) =>
    let ents := b.unsp.map fun (key, v) => s!"{Hex.encode key}:{v}"
    " ".intercalate ([s!"K {k.1} {k.2} {b.value} {Proto.boolStr b.isMap} {b.unsp.length}"] ++ ents)
  " ".intercalate ([s!"on {Proto.boolStr s.on}"] ++ recs)

def dumpUtxo (s : State) : String :=
  let rec outs (r : Rec) : List (Option Out) → Nat → List String
    | [], _ => []
    | none :: t, j => outs r t (j + 1)
    | some o :: t, j =>
      s!"{Hex.encode r.txid}:{j}:{o.value}:{r.inBlock}:{Proto.boolStr r.coinbase}:{Hex.encode o.script}" :: outs r t (j + 1)
  let l := s.utxo.flatMap fun p => outs p.2 p.2.outs 0
  if l.isEmpty then "-" else " ".intercalate l

def parseAddr (idx payload : String) : Option Addr :=
  match idx.toNat?, Hex.decode payload with
  | some i, some p =>
    if i < 5 ∧ p.length = (if i < 3 then 20 else 32) then some { idx := i, payload := p } else none
  | _, _ => none

def step' (s : State) (toks : List String) : State × String :=
  let bad := (s, "bad-op")
  match toks with
  | ["reset"] => (State.init, "ok")
  | "add" :: rest =>
    match parseRec rest with
    | some r => (step H s (.add r), "ok")
    | none => bad
  | "undoadd" :: rest =>
    match parseRec rest with
    | some r => (step H s (.undoAdd r), "ok")
    | none => bad
  | ["del", key, mask] =>
    match Hex.decode key, parseMask mask with
    | some key, some mask => if key.length = 8 then (step H s (.del key mask), "ok") else bad
    | _, _ => bad
  | ["undodel", key, n] =>
    match Hex.decode key, n.toNat? with
    | some key, some n => if key.length = 8 then (step H s (.undoDel key n), "ok") else bad
    | _, _ => bad
  | ["enable", mn, um] =>
    match mn.toNat?, um.toNat? with
    | some mn, some um => (step H s (.enable mn um), "ok")
    | _, _ => bad
  | ["disable"] => (step H s .disable, "ok")
  | ["dump"] => (s, dumpBal s)
  | ["utxo"] => (s, dumpUtxo s)
  | ["getall", idx, payload] =>
    match parseAddr idx payload with
    | some a =>
      let l := getAllUnspent H s a
      (s, " ".intercalate ([s!"total {total H s a}"] ++ l.map unspStr))
    | none => bad
  | ["proj", idx, payload] =>
    match parseAddr idx payload with
    | some a =>
      let l := projection s.cfg.min s.utxo a
      (s, " ".intercalate ([s!"total {sumValues l}"] ++ l.map unspStr))
    | none => bad
  | ["sip", b] =>
    match Hex.decode b with
    | some b => (s, s!"{ourHash b}")
    | none => bad
  | ["s2i", scr] =>
    match Hex.decode scr with
    | some scr =>
      match scriptForm scr with
      | some (i, p) => (s, s!"{i} {H p} {Hex.encode p}")
      | none => (s, "none")
    | none => bad
  | _ => bad

def main : IO Unit := Proto.serve State.init step'
