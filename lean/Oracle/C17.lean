/-
  oracle_c17 — line-protocol driver for Model.Balances / Spec.Balances (stateful: one node state).
  Byte strings hex ("-" = empty), numbers decimal.
    reset                                                  -> ok
    add     <txid> <height> <cb:0|1> <nouts> {<vout> <value> <script>}*   commit.do_add        -> ok
    undoadd <txid> <height> <cb:0|1> <nouts> {<vout> <value> <script>}*   UndoBlockTxs addback -> ok
    del     <txid32> <mask: string of 0/1 | ->               UnspentDB.del from commit           -> ok
    undodel <key8> <n>                                     UndoBlockTxs first loop             -> ok
    enable  <min> <usemapcnt>                              LoadBalancesFromUtxo                -> ok
    disable                                                Disable                             -> ok
    dump        -> on <0|1> {K <idx> <uidx> <value> <ismap> <n> {<key8>:<vout>}*}*   (unsorted)
    utxo        -> {<txid>:<vout>:<value>:<height>:<cb>:<script>}*                     (unsorted)
    getall <idx> <payload>  -> total <value> {<txid>:<vout>:<value>:<height>:<cb>}*    (model GetAllUnspent)
    proj   <idx> <payload>  -> total <sum>   {<txid>:<vout>:<value>:<height>:<cb>}*    (Spec projection)
    loadb <u|c> <min> <usemapcnt> <abortAt> {<raw record>}*   LoadBalancesFromUtxo over the stored BYTES in this scan
                            order through the STATIC decoder (Model.BalancesLoad; static buffers persist across requests
                            and across reset, like the package-level variables); abortAt = n > 0: FetchingBalanceTick answers
                            true after the n-th record, 0 = never                         -> ok | aborted | panic
    sdec <u|c> <raw record> -> ok <txid> <height> <cb> <nouts> {<vout> <value> <script>}* | panic   (NewUtxoRecStatic)
    pdec <u|c> <raw record> -> same with the stateless decoder of C10 (NewUtxoRec)
    dsave <idx>             -> <n> {<record hex>}*   wallet/disk.go save_map of the model's map of address type idx, one
                               token per OneAllAddrBal.Save record, entries of a record sorted (Go map order is free)
    dload <usemapcnt> <idx> <file hex>  -> keep | on 1 {K <idx> <uidx> <value> <ismap> <n> {<key8>:<vout>}* | N <idx> <uidx>}*
                               (load_map on the file bytes; N = nil record; keep = allBalances[idx] not assigned)
    qkey    <tn:0|1> <sw|b58> <version> <program | hash160>  -> <OutScript hex | panic> <none | <idx> <payload>>
                               (BtcAddr.OutScript() and the branch GetAllUnspent takes for ANY address value)
    getallq <tn:0|1> <sw|b58> <version> <program | hash160>  -> total <value> {<txid>:<vout>:<value>:<height>:<cb>}*
    loadr <u|c> <min> <usemapcnt> <abortAt> <chgAt> <chgMin> {<raw record>}*   like loadb, with a config change
                               (CFG.AllBalances.MinValue = chgMin; common.Reset()) landing after record chgAt (0 = none)
                                                                -> ok <min in force> | aborted <min in force> | panic
    keepundo <height> <lastKnown> <unwindBufLen>  -> 1 | 0   chain.commitTxs: does a block connected at `height` while the best
                               known header is `lastKnown` keep undo data (Model.BalancesBlock.keepsUndo)
    sip <bytes>             -> <decimal ourHash>
    s2i <script>            -> none | <idx> <uidx> <payload>
-/
import GocoinV.Spec.Balances
import GocoinV.Model.BalancesLoad
import GocoinV.Model.BalancesDisk
import GocoinV.Model.BalancesAddr
import GocoinV.Model.BalancesCfg
import GocoinV.Model.BalancesBlock
import GocoinV.Base.Proto
open GocoinV GocoinV.Model.Balances GocoinV.Spec.Balances GocoinV.Model.BalancesLoad GocoinV.Model.BalancesDisk GocoinV.Model.BalancesCfg

def H : Bytes → Nat := ourHash

def parseOuts (n : Nat) : List String → Option (List (Option Out))
  | toks =>
    let rec go (acc : List (Option Out)) : List String → Option (List (Option Out))
      | [] => some acc
      | v :: val :: scr :: rest =>
        match v.toNat?, val.toNat?, Hex.decode scr with
        | some v, some val, some scr =>
          if v < acc.length then go (acc.set v (some { value := val, script := scr })) rest else none
        | _, _, _ => none
      | _ => none
    go (List.replicate n none) toks

def parseRec : List String → Option Rec
  | txid :: h :: cb :: n :: rest =>
    match Hex.decode txid, h.toNat?, n.toNat? with
    | some txid, some h, some n =>
      if txid.length ≠ 32 ∨ (cb ≠ "0" ∧ cb ≠ "1") then none else
      match parseOuts n rest with
      | some outs => some { txid := txid, inBlock := h, coinbase := cb == "1", outs := outs }
      | none => none
    | _, _, _ => none
  | _ => none

def parseMask (s : String) : Option (List Bool) :=
  if s == "-" then some [] else
  s.toList.mapM (fun c => if c == '0' then some false else if c == '1' then some true else none)

def unspStr (u : Unspent) : String :=
  s!"{Hex.encode u.txid}:{u.vout}:{u.value}:{u.minedAt}:{Proto.boolStr u.coinbase}"

def dumpBal (s : State) : String :=
  let recs := s.bal.map fun (k, b) =>
    let ents := b.unsp.map fun (key, v) => s!"{Hex.encode key}:{v}"
    " ".intercalate ([s!"K {k.1} {k.2} {b.value} {Proto.boolStr b.isMap} {b.unsp.length}"] ++ ents)
  " ".intercalate ([s!"on {Proto.boolStr s.on}"] ++ recs)

def dumpUtxo (s : State) : String :=
  let rec outs (r : Rec) : List (Option Out) → Nat → List String
    | [], _ => []
    | none :: t, j => outs r t (j + 1)
    | some o :: t, j =>
      s!"{Hex.encode r.txid}:{j}:{o.value}:{r.inBlock}:{Proto.boolStr r.coinbase}:{Hex.encode o.script}" :: outs r t (j + 1)
  let l := s.utxo.flatMap fun p => outs p.2 p.2.outs 0
  if l.isEmpty then "-" else " ".intercalate l

def parseAddr (idx payload : String) : Option Addr :=
  match idx.toNat?, Hex.decode payload with
  | some i, some p =>
    if i < 5 ∧ p.length = (if i < 3 then 20 else 32) then some { idx := i, payload := p } else none
  | _, _ => none

/-- any address value; `Hash160` is a [20]byte in Go, so a base58 address needs exactly 20 bytes -/
def parseQAddr (tn kind ver bytes : String) : Option (Bool × QAddr) :=
  match (if tn == "0" then some false else if tn == "1" then some true else none), ver.toNat?, Hex.decode bytes with
  | some tn, some v, some b =>
    if kind == "sw" then some (tn, .segwit v b)
    else if kind == "b58" ∧ b.length = 20 then some (tn, .base58 v b)
    else none
  | _, _, _ => none

def KO : ScriptCompress.KeyOps := ScriptCompress.mathKeys

def parserOf (f : String) : Option Parser :=
  if f == "u" then some entU else if f == "c" then some (entC KO) else none

def urecStr (r : URec) : String :=
  let rec outs : List (Option UOut) → Nat → List String
    | [], _ => []
    | none :: t, j => outs t (j + 1)
    | some o :: t, j => s!"{j} {o.value} {Hex.encode o.pk}" :: outs t (j + 1)
  " ".intercalate ([s!"ok {Hex.encode r.txid} {r.inBlock} {Proto.boolStr r.coinbase} {r.outs.length}"] ++ outs r.outs 0)

/-- one entry `key8hex:vout` -/
def parseInp (t : String) : Option Inp :=
  match t.splitOn ":" with
  | [k, v] =>
    match Hex.decode k, v.toNat? with
    | some k, some v => some (k, v)
    | _, _ => none
  | _ => none

/-- `K idx hash n e1 … en` groups: the order in which each record's entries were in the cache file -/
def parseOrds : Nat → List String → Option (List (AKey × List Inp))
  | _, [] => some []
  | 0, _ => none
  | fuel + 1, "K" :: idx :: h :: n :: rest =>
    match idx.toNat?, h.toNat?, n.toNat? with
    | some idx, some h, some n =>
      if rest.length < n then none else
      match (rest.take n).mapM parseInp, parseOrds fuel (rest.drop n) with
      | some l, some more => some (((idx, h), l) :: more)
      | _, _ => none
    | _, _, _ => none
  | _, _ => none

def step1 (s : State) (toks : List String) : State × String :=
  let bad := (s, "bad-op")
  match toks with
  | ["reset"] => (State.init, "ok")
  | "add" :: rest =>
    match parseRec rest with
    | some r => (step H s (.add r), "ok")
    | none => bad
  | "undoadd" :: rest =>
    match parseRec rest with
    | some r => (step H s (.undoAdd r), "ok")
    | none => bad
  | ["del", key, mask] =>
    match Hex.decode key, parseMask mask with
    | some txid, some mask => if txid.length = 32 then (step H s (.del txid mask), "ok") else bad
    | _, _ => bad
  | ["undodel", key, n] =>
    match Hex.decode key, n.toNat? with
    | some txid, some n => if txid.length = 32 then (step H s (.undoDel txid n), "ok") else bad
    | _, _ => bad
  | ["enable", mn, um] =>
    match mn.toNat?, um.toNat? with
    | some mn, some um => (step H s (.enable mn um), "ok")
    | _, _ => bad
  | ["disable"] => (step H s .disable, "ok")
  | "reload" :: um :: rest =>
    match um.toNat?, parseOrds rest.length rest with
    | some um, some ords => (step H s (.reload um ords), "ok")
    | _, _ => bad
  | ["keepundo", h, lk, u] =>
    match h.toNat?, lk.toNat?, u.toNat? with
    | some h, some lk, some u =>
      (s, Proto.boolStr (GocoinV.Model.BalancesBlock.keepsUndo u { height := h, lastKnown := lk, work := [] }))
    | _, _, _ => bad
  | ["dump"] => (s, dumpBal s)
  | ["utxo"] => (s, dumpUtxo s)
  | ["getall", idx, payload] =>
    match parseAddr idx payload with
    | some a =>
      let l := getAllUnspent H s a
      (s, " ".intercalate ([s!"total {total H s a}"] ++ l.map unspStr))
    | none => bad
  | ["proj", idx, payload] =>
    match parseAddr idx payload with
    | some a =>
      let l := projection s.cfg.min s.utxo a
      (s, " ".intercalate ([s!"total {sumValues l}"] ++ l.map unspStr))
    | none => bad
  | ["qkey", tn, kind, ver, bytes] =>
    match parseQAddr tn kind ver bytes with
    | some (tn, q) =>
      let scr := match q.outScript with
        | some b => Hex.encode b
        | none => "panic"
      let key := match addrKey tn q with
        | some a => s!"{a.idx} {Hex.encode a.payload}"
        | none => "none"
      (s, s!"{scr} {key}")
    | none => bad
  | ["getallq", tn, kind, ver, bytes] =>
    match parseQAddr tn kind ver bytes with
    | some (tn, q) =>
      let l := getAllUnspentQ H tn s q
      (s, " ".intercalate ([s!"total {totalQ H tn s q}"] ++ l.map unspStr))
    | none => bad
  | ["sip", b] =>
    match Hex.decode b with
    | some b => (s, s!"{ourHash b}")
    | none => bad
  | ["s2i", scr] =>
    match Hex.decode scr with
    | some scr =>
      match scriptForm scr with
      | some (i, p) => (s, s!"{i} {H p} {Hex.encode p}")
      | none => (s, "none")
    | none => bad
  | _ => bad

/-- node state + the static decoder buffers (package-level variables: they survive `reset`) -/
def step' (ss : State × Static) (toks : List String) : (State × Static) × String :=
  let (s, st) := ss
  let bad := (ss, "bad-op")
  match toks with
  | "loadb" :: f :: mn :: um :: ab :: raws =>
    match parserOf f, mn.toNat?, um.toNat?, ab.toNat?, raws.mapM Hex.decode with
    | some P, some mn, some um, some ab, some raws =>
      let tick : Nat → Bool := fun n => ab != 0 && n == ab
      match loadFromUtxo P H tick s st raws mn um with
      | none => (ss, "panic")
      | some (s', st') => ((s', st'), if s'.on then "ok" else "aborted")
    | _, _, _, _, _ => bad
  | "loadr" :: f :: mn :: um :: ab :: ca :: cm :: raws =>
    match parserOf f, mn.toNat?, um.toNat?, ab.toNat?, ca.toNat?, cm.toNat?, raws.mapM Hex.decode with
    | some P, some mn, some um, some ab, some ca, some cm, some raws =>
      let tick : Nat → Bool := fun n => ab != 0 && n == ab
      let chg : Nat → Option Nat := fun n => if ca != 0 && n == ca then some cm else none
      match loadFromUtxoR P H tick chg s st raws mn um with
      | none => (ss, "panic")
      | some (s', st') => ((s', st'), (if s'.on then "ok " else "aborted ") ++ toString s'.cfg.min)
    | _, _, _, _, _, _, _ => bad
  | ["dsave", idx] =>
    match idx.toNat? with
    | some i =>
      let recs := s.bal.filter (fun p => p.1.1 == i)
      let one := fun (p : AKey × Bal) =>
        let head := leBytes 8 p.1.2 ++ (writeVarInt (AmountCompress.compress p.2.value) ++
          (if p.2.unsp.isEmpty then [] else writeVarInt p.2.unsp.length))
        let ents := ((p.2.unsp.map (fun e => Hex.encode (encInp e))).toArray.qsort (· < ·)).toList
        Hex.encode head ++ String.join ents
      (ss, " ".intercalate (s!"{recs.length}" :: recs.map one))
    | none => bad
  | ["dload", um, idx, file] =>
    match um.toNat?, idx.toNat?, Hex.decode file with
    | some um, some i, some f =>
      match loadPairs um f with
      | none => (ss, "refuse")
      | some l =>
        let one := fun (p : Nat × Option Bal) => match p.2 with
          | none => s!"N {i} {p.1}"
          | some b =>
            let ents := b.unsp.map fun (key, v) => s!"{Hex.encode key}:{v}"
            " ".intercalate ([s!"K {i} {p.1} {b.value} {Proto.boolStr b.isMap} {b.unsp.length}"] ++ ents)
        (ss, " ".intercalate ("on 1" :: l.map one))
    | _, _, _ => bad
  | ["sdec", f, raw] =>
    match parserOf f, Hex.decode raw with
    | some P, some raw =>
      match staticDec P raw st with
      | .ok (r, st') => ((s, st'), urecStr r)
      | _ => (ss, "panic")
    | _, _ => bad
  | ["pdec", f, raw] =>
    match f, Hex.decode raw with
    | "u", some raw => match UtxoRec.newRecU raw with
      | .ok r => (ss, urecStr r)
      | _ => (ss, "panic")
    | "c", some raw => match UtxoRec.newRecC KO raw with
      | .ok r => (ss, urecStr r)
      | _ => (ss, "panic")
    | _, _ => bad
  | _ =>
    let (s', rep) := step1 s toks
    ((s', st), rep)

def main : IO Unit := Proto.serve (State.init, Static.init 13107) step'
