/-
  oracle_c14 — line-protocol driver for the C14 models (HD wallets, BIP39, wallet key lists).
  Byte strings are hex, "-" = empty. A wallet `W` is six tokens: <pfx> <depth> <checksum> <idx> <chcode> <key>.
    sha512 <b> | hmac512 <key> <msg> | pbkdf2 <pw> <salt> | sha256 <b> | h160 <b>   -> ok <bytes>
    pubpriv <k> <compr>                 -> ok <pub> | nil
    dnpriv <p> <s>                      -> ok <bytes>
    dnpub <pub> <secret>                -> ok <bytes> | outside
    child W <i>                         -> ok W <string> | panic | outside
    pub W                               -> ok W <string> | outside
    ser W                               -> ok <string>
    parse <string>                      -> ok W | err <kind>
    pubaddr W                           -> ok <addr string|-> | outside
    master <seed> <testnet>             -> ok W
    wifenc <key> <ver> <compr>          -> ok <string> <pubkey> <h160> <addrver> | panic | outside
    wifdec <string>                     -> ok <key> <ver> <pubkey> <h160> <addrver> | err <kind> | outside
    mnem <entropy>                      -> ok <mnemonic> | err <kind>
    entropy <mnemonic>                  -> ok <entropy> | err <kind>
    m2b <mnemonic> <raw>                -> ok <bytes> | err <kind>
    seed <mnemonic> <password>          -> ok <seed> | err <kind>
    wallet <type> <hdpath> <bip39> <scrypt> <hdsubs> <keycnt> <testnet> <ltc> <atype> <seed=> <file> <scryptout>
        -> ok <mnemonic> <rootX> <leafX> <nx> <xtra>… <nk> {<priv> <wif> <p2kh> <listed> <listLabel> <label> <lookup>}… | err <kind>
    session <the 12 wallet tokens> <op>…   with <op> = make | msg:<addr> | dump:<addr> | tx:<script>,<script>…
        one process running these operations on its key store (Model/WalletKeysStore.lean; the functions that write
        stored keys are Gen.WalletKeyStoreFacts.keyWritersLive)
        -> ok <number of records at the end> <used>…   one <used> per op: "-" (make) or a comma list of <index>:<key bytes> | none
-/
import GocoinV.Model.WalletKeys
import GocoinV.Model.WalletKeysStore
import GocoinV.Base.Ripemd160
import GocoinV.Base.C14_Sha512
import GocoinV.Base.Proto
open GocoinV HD

def mkC (scryptOut : Option Bytes) : WalletCrypto :=
  { sha256 := sha256, shaHash := sha256d, hash160 := hash160, hmac512 := hmacSha512,
    pbkdf2 := fun pw salt => pbkdf2Sha512 pw salt 2048 64, scrypt := fun _ _ => scryptOut }

def C0 : WalletCrypto := mkC none

def wTok (w : HDWallet) : String :=
  s!"{w.pfx} {w.depth} {Hex.encode w.checksum} {w.idx} {Hex.encode w.chCode} {Hex.encode w.key}"

def wParse (pfx depth cs idx cc key : String) : Option HDWallet :=
  match pfx.toNat?, depth.toNat?, Hex.decode cs, idx.toNat?, Hex.decode cc, Hex.decode key with
  | some p, some d, some c, some i, some cc, some k =>
    some { pfx := p, depth := d, checksum := c, idx := i, chCode := cc, key := k }
  | _, _, _, _, _, _ => none

def failStr : Fail → String | .panic => "panic" | .outside => "outside"
def perrStr : ParseErr → String | .length => "length" | .pfx => "prefix" | .pubkey => "pubkey" | .checksum => "checksum"
def werrStr : WifErr → String | .b58 => "b58" | .short => "short" | .long => "long" | .checksum => "checksum" | .flag => "flag"
def berrStr : Bip39.Err → String
  | .entropyLen => "entropylen" | .invalidMnemonic => "invalid" | .wordNotFound => "notfound" | .checksum => "checksum"

def bool? (s : String) : Option Bool := if s == "1" then some true else if s == "0" then some false else none

def atype? (s : String) : Option WalletKeys.AType :=
  match s with
  | "p2kh" => some .p2kh | "segwit" => some .segwit | "bech32" => some .bech32 | "tap" => some .tap | "pks" => some .pks
  | _ => none

def int? (s : String) : Option Int :=
  if s.startsWith "-" then (s.drop 1).toNat?.map (fun n => -(n : Int)) else s.toNat?.map (fun n => (n : Int))

def optHex : Option Bytes → String | none => "-" | some b => Hex.encode b

def werr : WalletKeys.WErr → String
  | .waltype => "waltype" | .hdpath => "hdpath" | .bip39count => "bip39count" | .emptySeed => "emptyseed"
  | .scryptMnemonic => "scryptmnemonic" | .scrypt => "scrypt" | .bip39 e => "bip39-" ++ berrStr e
  | .hd f => "hd-" ++ failStr f

def opTok (t : String) : Option WalletKeys.Store.Op :=
  if t == "make" then some .makeWallet
  else if t.startsWith "msg:" then (Hex.decode (t.drop 4).toString).map .signMessage
  else if t.startsWith "dump:" then (Hex.decode (t.drop 5).toString).map .dumpPrvkey
  else if t.startsWith "tx:" then (((t.drop 3).toString.splitOn ",").mapM Hex.decode).map .signTx
  else none

def usedStr (us : List WalletKeys.Store.Used) : String :=
  if us.isEmpty then "-" else
  ",".intercalate (us.map fun u => match u with
    | none => "none"
    | some (i, k) => s!"{i}:{Hex.encode k}")

def step (_ : Unit) (toks : List String) : Unit × String :=
  let bad := ((), "bad-op")
  match toks with
  | ["sha512", b] => match Hex.decode b with
    | some b => ((), s!"ok {Hex.encode (sha512 b)}") | _ => bad
  | ["sha256", b] => match Hex.decode b with
    | some b => ((), s!"ok {Hex.encode (sha256 b)}") | _ => bad
  | ["h160", b] => match Hex.decode b with
    | some b => ((), s!"ok {Hex.encode (hash160 b)}") | _ => bad
  | ["hmac512", k, m] => match Hex.decode k, Hex.decode m with
    | some k, some m => ((), s!"ok {Hex.encode (hmacSha512 k m)}") | _, _ => bad
  | ["pbkdf2", p, s] => match Hex.decode p, Hex.decode s with
    | some p, some s => ((), s!"ok {Hex.encode (pbkdf2Sha512 p s 2048 64)}") | _, _ => bad
  | ["pubpriv", k, c] => match Hex.decode k, bool? c with
    | some k, some c => match publicFromPrivate k c with
      | some p => ((), s!"ok {Hex.encode p}") | none => ((), "nil")
    | _, _ => bad
  | ["dnpriv", p, s] => match Hex.decode p, Hex.decode s with
    | some p, some s => ((), s!"ok {Hex.encode (deriveNextPrivate p s)}") | _, _ => bad
  | ["dnpub", p, s] => match Hex.decode p, Hex.decode s with
    | some p, some s => match deriveNextPublic p s with
      | .ok b => ((), s!"ok {Hex.encode b}") | .error e => ((), failStr e)
    | _, _ => bad
  | ["child", a, b, c, d, e, f, i] => match wParse a b c d e f, i.toNat? with
    | some w, some i => match child C0 w i with
      | .ok r => ((), s!"ok {wTok r} {Hex.encode (HD.toString C0 r)}") | .error e => ((), failStr e)
    | _, _ => bad
  | ["pub", a, b, c, d, e, f] => match wParse a b c d e f with
    | some w => match pub w with
      | .ok r => ((), s!"ok {wTok r} {Hex.encode (HD.toString C0 r)}") | .error e => ((), failStr e)
    | _ => bad
  | ["ser", a, b, c, d, e, f] => match wParse a b c d e f with
    | some w => ((), s!"ok {Hex.encode (HD.toString C0 w)}")
    | _ => bad
  | ["parse", s] => match Hex.decode s with
    | some s => match stringWallet C0 s with
      | .ok w => ((), s!"ok {wTok w}") | .error e => ((), s!"err {perrStr e}")
    | _ => bad
  | ["pubaddr", a, b, c, d, e, f] => match wParse a b c d e f with
    | some w => match pubAddr C0 w with
      | .ok ad => ((), s!"ok {Hex.encode (WalletKeys.addrStr C0 ad)}") | .error e => ((), failStr e)
    | _ => bad
  | ["master", s, t] => match Hex.decode s, bool? t with
    | some s, some t => ((), s!"ok {wTok (masterKey C0 s t)}") | _, _ => bad
  | ["wifenc", k, v, c] => match Hex.decode k, v.toNat?, bool? c with
    | some k, some v, some c =>
      if v ≥ 256 then bad else
      match newPrivateAddr C0 k (UInt8.ofNat v) c with
      | .error e => ((), failStr e)
      | .ok pa => match privAddrString C0 pa with
        | .error e => ((), failStr e)
        | .ok s => ((), s!"ok {Hex.encode s} {Hex.encode pa.pubkey} {Hex.encode pa.h160} {pa.addrVersion.toNat}")
    | _, _, _ => bad
  | ["wifdec", s] => match Hex.decode s with
    | some s => match decodePrivateAddr C0 s with
      | .error e => ((), s!"err {werrStr e}")
      | .ok (.error e) => ((), failStr e)
      | .ok (.ok pa) => ((), s!"ok {Hex.encode pa.key} {pa.version.toNat} {Hex.encode pa.pubkey} {Hex.encode pa.h160} {pa.addrVersion.toNat}")
    | _ => bad
  | ["mnem", e] => match Hex.decode e with
    | some e => match Bip39.newMnemonic C0 e with
      | .ok m => ((), s!"ok {Hex.encode m}") | .error x => ((), s!"err {berrStr x}")
    | _ => bad
  | ["entropy", m] => match Hex.decode m with
    | some m => match Bip39.entropyFromMnemonic C0 m with
      | .ok e => ((), s!"ok {Hex.encode e}") | .error x => ((), s!"err {berrStr x}")
    | _ => bad
  | ["m2b", m, r] => match Hex.decode m, bool? r with
    | some m, some r => match Bip39.mnemonicToByteArray C0 m r with
      | .ok e => ((), s!"ok {Hex.encode e}") | .error x => ((), s!"err {berrStr x}")
    | _, _ => bad
  | ["seed", m, p] => match Hex.decode m, Hex.decode p with
    | some m, some p => match Bip39.newSeedWithErrorChecking C0 m p with
      | .ok e => ((), s!"ok {Hex.encode e}") | .error x => ((), s!"err {berrStr x}")
    | _, _ => bad
  | ["typed", ss, first, second, single, gen, askp, save] =>
    match Hex.decode ss, Hex.decode first, Hex.decode second with
    | some ss, some first, some second =>
      match bool? single, bool? gen, bool? askp, bool? save with
      | some single, some gen, some askp, some save =>
        -- only `secretSeed` of the configuration enters `getpassTyped`
        let cfg : WalletKeys.Config := { waltype := 4, hdpath := [], bip39wrds := 0, usescrypt := 0, hdsubs := 1, keycnt := 1, testnet := false, litecoin := false, atype := .p2kh, secretSeed := ss }
        match WalletKeys.getpassTyped cfg { first := first, second := second, singleAsk := single, genMode := gen, ask4pass := askp, save := save } with
        | .error .empty => ((), "err empty")
        | .error .mismatch => ((), "err mismatch")
        | .ok (out, sv) => ((), s!"ok {Hex.encode out} {match sv with | some f => Hex.encode f | none => "none"}")
      | _, _, _, _ => bad
    | _, _, _ => bad
  | ["wallet", ty, hp, b39, scr, subs, cnt, tn, ltc, aty, ss, file, so] =>
    match ty.toNat?, Hex.decode hp, int? b39, scr.toNat?, subs.toNat?, cnt.toNat?, bool? tn, bool? ltc with
    | some ty, some hp, some b39, some scr, some subs, some cnt, some tn, some ltc =>
      match atype? aty, Hex.decode ss, Hex.decode file, Hex.decode so with
      | some aty, some ss, some file, some so =>
        let C := mkC (if so.isEmpty then none else some so)
        let cfg : WalletKeys.Config := { waltype := ty, hdpath := hp, bip39wrds := b39, usescrypt := scr, hdsubs := subs, keycnt := cnt, testnet := tn, litecoin := ltc, atype := aty, secretSeed := ss }
        match WalletKeys.makeWallet C cfg file with
        | .error e => ((), s!"err {werr e}")
        | .ok w =>
          let xs := " ".intercalate (w.xtra.map Hex.encode)
          let ks := w.keys.map fun k =>
            let lk := match WalletKeys.addressToKeyIdx C cfg w.keys k.listed with
              | none => "exit" | some none => "none" | some (some i) => toString i
            s!"{Hex.encode k.priv} {Hex.encode k.wif} {Hex.encode k.p2kh} {Hex.encode k.listed} {Hex.encode k.listLabel} {Hex.encode k.label} {lk}"
          let head := s!"ok {optHex w.mnemonic} {optHex w.rootX} {optHex w.leafX} {w.xtra.length}"
          let mid := if w.xtra.isEmpty then "" else " " ++ xs
          let tail := if w.keys.isEmpty then "" else " " ++ " ".intercalate ks
          ((), s!"{head}{mid} {w.keys.length}{tail}")
      | _, _, _, _ => bad
    | _, _, _, _, _, _, _, _ => bad
  | "session" :: ty :: hp :: b39 :: scr :: subs :: cnt :: tn :: ltc :: aty :: ss :: file :: so :: ops =>
    match ty.toNat?, Hex.decode hp, int? b39, scr.toNat?, subs.toNat?, cnt.toNat?, bool? tn, bool? ltc with
    | some ty, some hp, some b39, some scr, some subs, some cnt, some tn, some ltc =>
      match atype? aty, Hex.decode ss, Hex.decode file, Hex.decode so, ops.mapM opTok with
      | some aty, some ss, some file, some so, some ops =>
        let C := mkC (if so.isEmpty then none else some so)
        let cfg : WalletKeys.Config := { waltype := ty, hdpath := hp, bip39wrds := b39, usescrypt := scr, hdsubs := subs, keycnt := cnt, testnet := tn, litecoin := ltc, atype := aty, secretSeed := ss }
        match WalletKeys.makeWallet C cfg file with
        | .error e => ((), s!"err {werr e}")
        | .ok w =>
          let (fin, us) := WalletKeys.Store.run Gen.WalletKeyStoreFacts.keyWritersLive C cfg w.keys (List.replicate 32 0xee) [] ops
          ((), s!"ok {fin.length} {" ".intercalate (us.map usedStr)}")
      | _, _, _, _, _ => bad
    | _, _, _, _, _, _, _, _ => bad
  | _ => bad

def main : IO Unit := Proto.serve () step
