/-
  oracle_c02 — line-protocol driver for the C02 model (Model.SigHash) and spec (Spec.SigHash).
  The oracle holds ONE transaction object: its fields, its Spent_outputs and the cache (TxVerVars).
  Byte strings hex, "-" = empty; numbers decimal.

    tx <ver> <lock> <nin> <nout> <nspent> {<hash> <vout> <seq>}*nin {<value> <pk>}*nout {<value> <pk>}*nspent
                                           -> ok                (new object, empty cache)
    reset                                  -> ok                (same object, cache emptied = tx.Clean+AllocVerVars)
    leg <sc> <nIn> <ht>                    -> R                 Tx.SignatureHash
    wit <sc> <amount> <nIn> <ht>           -> R                 Tx.WitnessSigHash      (cache threaded)
    tap <annexhash|nil> <leaf> <codesep> <inPos> <ht> <script:0|1> -> R   Tx.TaprootSigHash (cache threaded)
    chk <sig> <pubkey> <tapscript:0|1> <annexhash|nil> <leaf> <codesep> <idx>
                                           -> fail | panic | verify <pubkey> <sig64> <msg>   CheckSchnorrSignature
    annex <annex>                          -> ok <hash>         the M_annex_hash computation of witness.go
    delsig <where> <sig>                   -> ok <res> <cnt>    script.delSig
    cache                                  -> c <p><s><o><t><u> which cache fields are filled (1/0)
    sleg / swit / stap  (same arguments as leg / wit, stap takes <annex|nil> instead of the hash)
                                           -> none | one | msg <preimage>       the Spec
    sdel <where> <sig>                     -> none | ok <res> <cnt>             Spec.findAndDelete
  R = panic | undefined | const <digest> | hashed <preimage> <digest>

  Histories over SEVERAL transaction objects (Model.SigHashLife, `lifeStep freshAlloc` = the code's AllocVerVars / Clean):
    wnew                                   -> ok                no objects
    wobj <ver> <lock> … (as `tx`)          -> ok <id>           a new object (TxVerVars nil); <nspent> outputs are what
                                                                its caller installs after AllocVerVars
    walloc <id> <assign|append>            -> ok                tx.AllocVerVars() + Spent_outputs installed
    wclean <id>                            -> ok                tx.Clean()
    wleg <id> … / wwit <id> … / wtap <id> … (arguments as leg / wit / tap) -> R
    wcache <id>                            -> nil | c <p><s><o><t><u>

  The object of `tx` in the hands of its caller (Model.SigHashCaller: Spent_outputs = make([]*TxOut, n), filled one by one):
    cnew                                   -> ok                nothing stored yet, empty cache
    cstore                                 -> ok <j>            tx.Spent_outputs[j] = the j-th spent output of `tx`
    cleg … / cwit … / ctap … (arguments as leg / wit / tap) -> R   a digest request at this moment (`callerStep`)
-/
import GocoinV.Model.SigHash
import GocoinV.Model.SigHashLife
import GocoinV.Model.SigHashCaller
import GocoinV.Spec.SigHash
import GocoinV.Base.Sha256
import GocoinV.Base.Proto
open GocoinV GocoinV.SigHash GocoinV.Wire

structure St where
  tx : Tx := default
  spent : List TxOut := []
  cache : Cache := {}
  objs : List Obj := []
  world : World Unit := { heap := [], pool := () }
  caller : CallerSt := {}

def showRes : Res → String
  | .panic => "panic"
  | .undefined => "undefined"
  | .const d => s!"const {Hex.encode d}"
  | .hashed p d => s!"hashed {Hex.encode p} {Hex.encode d}"

def parseIns : Nat → List String → Option (List TxIn × List String)
  | 0, r => some ([], r)
  | n+1, h :: v :: s :: r => do
    let h ← Hex.decode h
    let v ← v.toNat?
    let s ← s.toNat?
    let (l, r') ← parseIns n r
    pure ({ prevHash := h, prevIdx := v, scriptSig := [], sequence := s } :: l, r')
  | _, _ => none

def parseOuts : Nat → List String → Option (List TxOut × List String)
  | 0, r => some ([], r)
  | n+1, v :: p :: r => do
    let v ← v.toNat?
    let p ← Hex.decode p
    let (l, r') ← parseOuts n r
    pure ({ value := v, pkScript := p } :: l, r')
  | _, _ => none

def optHex (s : String) : Option (Option Bytes) :=
  if s == "nil" then some none else (Hex.decode s).map some

def parseTxLine (toks : List String) : Option (Tx × List TxOut) :=
  match toks with
  | ver :: lock :: nin :: nout :: nsp :: rest => do
    let ver ← ver.toNat?
    let lock ← lock.toNat?
    let nin ← nin.toNat?
    let nout ← nout.toNat?
    let nsp ← nsp.toNat?
    let (ins, r1) ← parseIns nin rest
    let (outs, r2) ← parseOuts nout r1
    match parseOuts nsp r2 with
    | some (sp, []) => some ({ version := ver, ins := ins, outs := outs, witness := none, lockTime := lock }, sp)
    | _ => none
  | _ => none

/-- the arguments of `leg` / `wit` / `tap` as a `Call` -/
def parseCall (kind : String) (args : List String) : Option Call :=
  match kind, args with
  | "leg", [sc, nIn, ht] => do
    let sc ← Hex.decode sc
    let nIn ← nIn.toNat?
    let ht ← ht.toNat?
    if ht < 2^32 then some (.leg sc nIn ht) else none
  | "wit", [sc, am, nIn, ht] => do
    let sc ← Hex.decode sc
    let am ← am.toNat?
    let nIn ← nIn.toNat?
    let ht ← ht.toNat?
    if ht < 2^32 then some (.wit sc am nIn ht) else none
  | "tap", [ah, leaf, cs, pos, ht, scr] => do
    let ah ← optHex ah
    let leaf ← Hex.decode leaf
    let cs ← cs.toNat?
    let pos ← pos.toNat?
    let ht ← ht.toNat?
    if ht < 256 ∧ (scr == "0" ∨ scr == "1") then
      some (.tap { annexHash := ah, tapleafHash := leaf, codesepPos := cs } pos ht (scr == "1"))
    else none
  | _, _ => none

def H : Bytes → Bytes := sha256
def dsha (b : Bytes) : Bytes := sha256 (sha256 b)

/-- a digest request on object <id> of the history -/
def lifeCall (st : St) (id : String) (kind : String) (args : List String) : St × String :=
  match id.toNat?, parseCall kind args with
  | some id, some k =>
    let r := lifeStep freshAlloc H st.objs st.world (.call id k)
    match r.2 with
    | some res => ({ st with world := r.1 }, showRes res)
    | none => (st, "bad-op")
  | _, _ => (st, "bad-op")

/-- a digest request of the caller history -/
def callerCall (st : St) (kind : String) (args : List String) : St × String :=
  match parseCall kind args with
  | some k =>
    match callerStep H st.tx st.spent st.caller (.req k) with
    | (c, some res) => ({ st with caller := c }, showRes res)
    | _ => (st, "bad-op")
  | none => (st, "bad-op")

def step (st : St) (toks : List String) : St × String :=
  let bad := (st, "bad-op")
  match toks with
  | ["cnew"] => ({ st with caller := {} }, "ok")
  | ["cstore"] =>
    if st.caller.stored < st.spent.length then
      ({ st with caller := (callerStep H st.tx st.spent st.caller .store).1 }, s!"ok {st.caller.stored}")
    else bad
  | "cleg" :: args => callerCall st "leg" args
  | "cwit" :: args => callerCall st "wit" args
  | "ctap" :: args => callerCall st "tap" args
  | "tx" :: ver :: lock :: nin :: nout :: nsp :: rest =>
    match ver.toNat?, lock.toNat?, nin.toNat?, nout.toNat?, nsp.toNat? with
    | some ver, some lock, some nin, some nout, some nsp =>
      match parseIns nin rest with
      | none => bad
      | some (ins, r1) =>
        match parseOuts nout r1 with
        | none => bad
        | some (outs, r2) =>
          match parseOuts nsp r2 with
          | some (sp, []) =>
            ({ tx := { version := ver, ins := ins, outs := outs, witness := none, lockTime := lock },
               spent := sp, cache := {} }, "ok")
          | _ => bad
    | _, _, _, _, _ => bad
  | ["reset"] => ({ st with cache := {} }, "ok")
  | ["wnew"] => ({ st with objs := [], world := { heap := [], pool := () } }, "ok")
  | "wobj" :: rest =>
    match parseTxLine rest with
    | some (tx, sp) =>
      ({ st with objs := st.objs ++ [{ tx := tx, spent := sp }],
                 world := { st.world with heap := st.world.heap ++ [none] } }, s!"ok {st.objs.length}")
    | none => bad
  | ["walloc", id, how] =>
    match id.toNat?, (if how == "assign" then some Install.assign else if how == "append" then some Install.append else none) with
    | some id, some how =>
      if id < st.objs.length then ({ st with world := (lifeStep freshAlloc H st.objs st.world (.alloc id how)).1 }, "ok") else bad
    | _, _ => bad
  | ["wclean", id] =>
    match id.toNat? with
    | some id =>
      if id < st.objs.length then ({ st with world := (lifeStep freshAlloc H st.objs st.world (.clean id)).1 }, "ok") else bad
    | none => bad
  | ["wcache", id] =>
    match id.toNat? with
    | some id =>
      match st.world.heap[id]? with
      | some none => (st, "nil")
      | some (some v) =>
        let b (x : Bool) := if x then "1" else "0"
        let c := v.cache
        (st, s!"c {b c.hashPrevouts.isSome}{b c.hashSequence.isSome}{b c.hashOutputs.isSome}{b c.tapSingle.isSome}{b c.tapOutSingle.isSome}")
      | none => bad
    | none => bad
  | "wleg" :: id :: args => lifeCall st id "leg" args
  | "wwit" :: id :: args => lifeCall st id "wit" args
  | "wtap" :: id :: args => lifeCall st id "tap" args
  | ["cache"] =>
    let b (x : Bool) := if x then "1" else "0"
    let c := st.cache
    (st, s!"c {b c.hashPrevouts.isSome}{b c.hashSequence.isSome}{b c.hashOutputs.isSome}{b c.tapSingle.isSome}{b c.tapOutSingle.isSome}")
  | ["leg", sc, nIn, ht] =>
    match Hex.decode sc, nIn.toNat?, ht.toNat? with
    | some sc, some nIn, some ht =>
      if ht < 2^32 then (st, showRes (signatureHash H st.tx sc nIn ht)) else bad
    | _, _, _ => bad
  | ["wit", sc, am, nIn, ht] =>
    match Hex.decode sc, am.toNat?, nIn.toNat?, ht.toNat? with
    | some sc, some am, some nIn, some ht =>
      if ht < 2^32 then
        let r := witnessSigHash H st.tx st.cache sc am nIn ht
        ({ st with cache := r.2 }, showRes r.1)
      else bad
    | _, _, _, _ => bad
  | ["tap", ah, leaf, cs, pos, ht, scr] =>
    match optHex ah, Hex.decode leaf, cs.toNat?, pos.toNat?, ht.toNat? with
    | some ah, some leaf, some cs, some pos, some ht =>
      if ht < 256 ∧ (scr == "0" ∨ scr == "1") then
        let r := taprootSigHash true H st.tx st.spent st.cache
                  { annexHash := ah, tapleafHash := leaf, codesepPos := cs } pos ht (scr == "1")
        ({ st with cache := r.2 }, showRes r.1)
      else bad
    | _, _, _, _, _ => bad
  | ["chk", sig, pk, scr, ah, leaf, cs, idx] =>
    match Hex.decode sig, Hex.decode pk, optHex ah, Hex.decode leaf, cs.toNat?, idx.toNat? with
    | some sig, some pk, some ah, some leaf, some cs, some idx =>
      if scr == "0" ∨ scr == "1" then
        let r := schnorrPlan true H st.tx st.spent st.cache sig pk (scr == "1")
                  { annexHash := ah, tapleafHash := leaf, codesepPos := cs } idx
        ({ st with cache := r.2 },
          match r.1 with
          | .fail => "fail"
          | .panic => "panic"
          | .verify p s m => s!"verify {Hex.encode p} {Hex.encode s} {Hex.encode m}")
      else bad
    | _, _, _, _, _, _ => bad
  | ["annex", a] =>
    match Hex.decode a with
    | some a => (st, s!"ok {Hex.encode (annexHashOf H a)}")
    | none => bad
  | ["delsig", w, s] =>
    match Hex.decode w, Hex.decode s with
    | some w, some s => let r := delSig w s; (st, s!"ok {Hex.encode r.1} {r.2}")
    | _, _ => bad
  | ["sdel", w, s] =>
    match Hex.decode w, Hex.decode s with
    | some w, some s =>
      match Spec.SigHash.findAndDelete w s with
      | none => (st, "none")
      | some r => (st, s!"ok {Hex.encode r.1} {r.2}")
    | _, _ => bad
  | ["sleg", sc, nIn, ht] =>
    match Hex.decode sc, nIn.toNat?, ht.toNat? with
    | some sc, some nIn, some ht =>
      match Spec.SigHash.legacy st.tx sc nIn ht with
      | none => (st, "none")
      | some .one => (st, "one")
      | some (.msg p) => (st, s!"msg {Hex.encode p}")
    | _, _, _ => bad
  | ["swit", sc, am, nIn, ht] =>
    match Hex.decode sc, am.toNat?, nIn.toNat?, ht.toNat? with
    | some sc, some am, some nIn, some ht =>
      match Spec.SigHash.bip143 dsha st.tx sc am nIn ht with
      | none => (st, "none")
      | some p => (st, s!"msg {Hex.encode p}")
    | _, _, _, _ => bad
  | ["stap", an, leaf, cs, pos, ht, scr] =>
    match optHex an, Hex.decode leaf, cs.toNat?, pos.toNat?, ht.toNat? with
    | some an, some leaf, some cs, some pos, some ht =>
      if scr == "0" ∨ scr == "1" then
        let ext : Option Spec.SigHash.Ext := if scr == "1" then some { tapleafHash := leaf, codesepPos := cs } else none
        match Spec.SigHash.bip341 H st.tx st.spent pos ht an ext with
        | none => (st, "none")
        | some p => (st, s!"msg {Hex.encode p}")
      else bad
    | _, _, _, _, _ => bad
  | _ => bad

def main : IO Unit := Proto.serve ({} : St) step
