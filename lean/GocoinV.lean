import GocoinV.Base.Hex
import GocoinV.Base.Bytes
import GocoinV.Base.Sha256
import GocoinV.Base.Proto
