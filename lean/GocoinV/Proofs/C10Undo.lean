/-
  Proofs.C10Undo — spend / undo on records (Model/UtxoUndo.lean) and the loader's ring of pack buffers.
  Core tactics only.
-/
import GocoinV.Model.UtxoUndo
import GocoinV.Proofs.C10Rec
import GocoinV.Proofs.C10RecC
namespace GocoinV.UtxoRec

theorem spendOuts_length : ∀ (m : List Bool) (o : List (Option Out)), (spendOuts m o).length = o.length
  | [], _ => by cases ‹List (Option Out)› <;> rfl
  | _ :: _, [] => rfl
  | _ :: ms, _ :: os => by simp [spendOuts, spendOuts_length ms os]

theorem mergeOuts_nil_left (o : List (Option Out)) : mergeOuts [] o = some [] := by
  cases o <;> rfl

theorem mergeOuts_none_self : ∀ (o : List (Option Out)), mergeOuts (o.map fun _ => none) o = some o
  | [] => rfl
  | x :: os => by simp [mergeOuts, mergeOuts_none_self os]

/-- the merge of the undo record with what the spend left is the original output list -/
theorem mergeOuts_undo_spend : ∀ (m : List Bool) (o : List (Option Out)),
    mergeOuts (undoOuts m o) (spendOuts m o) = some o
  | [], o => by
    cases o with
    | nil => rfl
    | cons x os => simpa [undoOuts, spendOuts] using mergeOuts_none_self (x :: os)
  | _ :: _, [] => rfl
  | b :: ms, x :: os => by
    cases b <;> cases x <;> simp [undoOuts, spendOuts, mergeOuts, mergeOuts_undo_spend ms os]

theorem undo_restores_rec (mask : List Bool) (r : Rec) :
    mergeUndo (undoOf mask r) (some (spend mask r)) = some r := by
  simp [mergeUndo, undoOf, spend, mergeOuts_undo_spend]

/-- nothing live is left (the record is deleted from the map): the undo record alone is the original -/
theorem undoOuts_of_all_spent : ∀ (m : List Bool) (o : List (Option Out)),
    anyOut (spendOuts m o) = false → undoOuts m o = o
  | [], o => by
    intro h
    have : ∀ l : List (Option Out), anyOut l = false → (l.map fun _ => (none : Option Out)) = l := by
      intro l
      induction l with
      | nil => intro _; rfl
      | cons x t ih =>
        intro hl
        cases x with
        | none => simp [anyOut] at hl ⊢; exact ih (by simpa [anyOut] using hl)
        | some v => simp [anyOut] at hl
    cases o with
    | nil => rfl
    | cons x os => simpa [undoOuts] using this (x :: os) (by simpa [spendOuts] using h)
  | _ :: _, [] => fun _ => rfl
  | b :: ms, x :: os => by
    intro h
    cases b <;> cases x <;> simp [spendOuts, anyOut] at h <;>
      simp [undoOuts, undoOuts_of_all_spent ms os (by simpa [anyOut] using h)]

theorem WFOuts_spend (m : List Bool) : ∀ (o : List (Option Out)), WFOuts o → WFOuts (spendOuts m o) := by
  induction m with
  | nil => intro o h; cases o <;> exact h
  | cons b ms ih =>
    intro o h
    cases o with
    | nil => exact h
    | cons x os =>
      intro y hy v hv
      simp only [spendOuts, List.mem_cons] at hy
      rcases hy with rfl | hy
      · cases b
        · exact h x (List.mem_cons_self) v (by simpa using hv)
        · simp at hv
      · exact ih os (fun z hz => h z (List.mem_cons_of_mem _ hz)) y hy v hv

theorem WFRec_spend (mask : List Bool) (r : Rec) (h : WFRec r) : WFRec (spend mask r) :=
  ⟨h.txid, h.height, by simpa [spend, spendOuts_length] using h.count, WFOuts_spend mask r.outs h.outs⟩

theorem WFOutsC_spend (m : List Bool) : ∀ (o : List (Option Out)), WFOutsC o → WFOutsC (spendOuts m o) := by
  induction m with
  | nil => intro o h; cases o <;> exact h
  | cons b ms ih =>
    intro o h
    cases o with
    | nil => exact h
    | cons x os =>
      intro y hy v hv
      simp only [spendOuts, List.mem_cons] at hy
      rcases hy with rfl | hy
      · cases b
        · exact h x (List.mem_cons_self) v (by simpa using hv)
        · simp at hv
      · exact ih os (fun z hz => h z (List.mem_cons_of_mem _ hz)) y hy v hv

/-! ### ring of pack buffers -/

theorem ring_inv (C : Nat) {s : Ring} (h : RingReach C s) :
    s.done ≤ s.recv ∧ s.recv ≤ s.done + 1 ∧ s.recv ≤ s.sent ∧ s.sent - s.recv ≤ C := by
  induction h with
  | init => exact ⟨Nat.le_refl _, Nat.le_succ _, Nat.le_refl _, Nat.zero_le _⟩
  | step _ st ih =>
    obtain ⟨i1, i2, i3, i4⟩ := ih
    cases st with
    | send h => dsimp only; omega
    | recv h1 h2 => dsimp only; omega
    | finish h => dsimp only; omega

theorem mod_ne_of_lt_gap (B j d : Nat) (h0 : 0 < d) (hB : d < B) : j % B ≠ (j + d) % B := by
  intro e
  have h1 : (j + d - j) % B = 0 := Nat.sub_mod_eq_zero_of_mod_eq e.symm
  have h2 : j + d - j = d := by omega
  rw [h2, Nat.mod_eq_of_lt hB] at h1
  omega

theorem ring_safe_of (B C : Nat) (hBC : C + 2 ≤ B) {s : Ring} (h : RingReach C s) : s.Safe B := by
  obtain ⟨h1, h2, h3, h4⟩ := ring_inv C h
  intro j hj1 hj2
  have e : s.sent = j + (s.sent - j) := by omega
  rw [e]
  exact mod_ne_of_lt_gap B j (s.sent - j) (by omega) (by omega)

end GocoinV.UtxoRec
