/-
  Proofs.C16Files — a data file whose number is in the ghost list `FS.lost` is GONE: it is in neither the main directory nor
  oldat/, and no later operation creates a file with that number again (second audit, item 1a, second half). So a `BlockGet`
  of a key whose record points into a lost file never reads bytes from a data file: it answers from the cache or with an
  error — never with the bytes of another block.
  `FilesOK fs M` (M = the current file number): every file of the main directory has a number ≤ M, every file of oldat/ a
  number < M, lost numbers are in neither directory, and no number is in both. New files are created with the numbers M + 1
  (roll-over) or M' ≥ M (LoadBlockIndex, by `reopen_top`), which are above every lost number (`TopInv.below`).
-/
import GocoinV.Proofs.C16Top
namespace GocoinV.BlockDB

structure FilesOK (fs : FS) (M : Nat) : Prop where
  dats_le : ∀ i f, AL.get fs.dats i = some f → i ≤ M
  olds_lt : ∀ i f, AL.get fs.olds i = some f → i < M
  lost_gone : ∀ i, i ∈ fs.lost → AL.get fs.dats i = none ∧ AL.get fs.olds i = none
  disj : ∀ i f, AL.get fs.dats i = some f → AL.get fs.olds i = none

theorem filesOK_mono (fs : FS) (M M' : Nat) (h : FilesOK fs M) (hm : M ≤ M') : FilesOK fs M' :=
  ⟨fun i f hf => by have := h.dats_le i f hf; omega, fun i f hf => by have := h.olds_lt i f hf; omega, h.lost_gone, h.disj⟩

theorem filesOK_congr (fs fs' : FS) (M : Nat) (h : FilesOK fs M) (h1 : fs'.dats = fs.dats) (h2 : fs'.olds = fs.olds)
    (h3 : fs'.lost = fs.lost) : FilesOK fs' M :=
  ⟨by rw [h1]; exact h.dats_le, by rw [h2]; exact h.olds_lt, by rw [h1, h2, h3]; exact h.lost_gone, by rw [h1, h2]; exact h.disj⟩

theorem removeDatFile_files (o : Opts) (fs : FS) (j M : Nat) (h : FilesOK fs M) (hj : j < M) :
    FilesOK (removeDatFile o fs j) M := by
  unfold removeDatFile
  split
  · exact h
  · rename_i content hc
    have hjl : j ∉ fs.lost := fun hl => by rw [(h.lost_gone j hl).1] at hc; cases hc
    split
    · refine ⟨?_, ?_, ?_, ?_⟩
      · intro i f hf
        simp only [AL.get_del] at hf
        split at hf
        · cases hf
        · exact h.dats_le i f hf
      · intro i f hf
        simp only [AL.get_set] at hf
        split at hf
        · rename_i e; subst e; exact hj
        · exact h.olds_lt i f hf
      · intro i hi
        simp only at hi
        have hne : ¬ j = i := fun e => hjl (e ▸ hi)
        simp only [AL.get_del, AL.get_set, hne, ↓reduceIte]
        exact h.lost_gone i hi
      · intro i f hf
        simp only [AL.get_del] at hf
        split at hf
        · cases hf
        · rename_i hne
          simp only [AL.get_set, hne, ↓reduceIte]
          exact h.disj i f hf
    · refine ⟨?_, h.olds_lt, ?_, ?_⟩
      · intro i f hf
        simp only [AL.get_del] at hf
        split at hf
        · cases hf
        · exact h.dats_le i f hf
      · intro i hi
        simp only [List.mem_cons] at hi
        simp only [AL.get_del]
        rcases hi with e | hi
        · subst e
          simp only [↓reduceIte, true_and]
          exact h.disj i content hc
        · split
          · exact ⟨rfl, (h.lost_gone i hi).2⟩
          · exact h.lost_gone i hi
      · intro i f hf
        simp only [AL.get_del] at hf
        split at hf
        · cases hf
        · exact h.disj i f hf

/-- creating (or rewriting) the file with the current number `M` in the main directory -/
theorem setCur_files (fs : FS) (M : Nat) (c : Bytes) (h : FilesOK fs M) (hb : ∀ i, i ∈ fs.lost → i < M) (idx' : Bytes) :
    FilesOK { fs with dats := AL.set fs.dats M c, idx := idx' } M := by
  have hold : AL.get fs.olds M = none := by
    cases ho : AL.get fs.olds M with
    | none => rfl
    | some f => have := h.olds_lt M f ho; omega
  refine ⟨?_, h.olds_lt, ?_, ?_⟩
  · intro i f hf
    simp only [AL.get_set] at hf
    split at hf
    · rename_i e; subst e; exact Nat.le_refl _
    · exact h.dats_le i f hf
  · intro i hi
    have := hb i hi
    have hne : ¬ M = i := by omega
    simp only [AL.get_set, hne, ↓reduceIte]
    exact h.lost_gone i hi
  · intro i f hf
    simp only [AL.get_set] at hf
    split at hf
    · rename_i e; subst e; exact hold
    · exact h.disj i f hf

theorem rollOver_files (s : State) (h : FilesOK s.fs s.maxdatfileidx) (hb : ∀ i, i ∈ s.fs.lost → i < s.maxdatfileidx) :
    FilesOK (rollOver s).fs (rollOver s).maxdatfileidx := by
  have h1 : FilesOK { s.fs with dats := AL.set s.fs.dats (s.maxdatfileidx + 1) [], idx := s.fs.idx } (s.maxdatfileidx + 1) :=
    setCur_files s.fs _ [] (filesOK_mono _ _ _ h (by omega)) (fun i hi => by have := hb i hi; omega) _
  unfold rollOver
  simp only
  split
  · rename_i hk
    exact removeDatFile_files _ _ _ _ h1 (by omega)
  · exact h1

theorem maybeRoll_files (s : State) (n : Nat) (h : FilesOK s.fs s.maxdatfileidx) (hb : ∀ i, i ∈ s.fs.lost → i < s.maxdatfileidx) :
    FilesOK (maybeRoll s n).fs (maybeRoll s n).maxdatfileidx := by
  unfold maybeRoll
  split
  · exact rollOver_files s h hb
  · exact h

theorem writeOne_files (env : Env) (s s' : State) (h : FilesOK s.fs s.maxdatfileidx) (hb : ∀ i, i ∈ s.fs.lost → i < s.maxdatfileidx)
    (hw : writeOne env s = some s') : FilesOK s'.fs s'.maxdatfileidx := by
  unfold writeOne at hw
  split at hw
  · cases hw
  · rename_i b q hq
    simp only at hw
    split at hw
    · cases hw; exact h
    · rename_i r0 hr0
      split at hw
      · cases hw; exact h
      · simp only [Option.some.injEq] at hw
        subst hw
        generalize (if s.opts.compress = true then env.enc b.data else b.data) = cbts
        have h1 := maybeRoll_files { s with queue := q, datToWrite := s.datToWrite - b.data.length } cbts.length h hb
        have hb1 := below_grows { s with queue := q, datToWrite := s.datToWrite - b.data.length } _ hb
          (maybeRoll_grows { s with queue := q, datToWrite := s.datToWrite - b.data.length } cbts.length)
        generalize maybeRoll { s with queue := q, datToWrite := s.datToWrite - b.data.length } cbts.length = s1 at *
        unfold writeRecord
        exact setCur_files s1.fs _ _ h1 hb1 _

theorem writeAll_files (env : Env) : ∀ (f : Nat) (s : State), FilesOK s.fs s.maxdatfileidx →
    (∀ i, i ∈ s.fs.lost → i < s.maxdatfileidx) → FilesOK (writeAll env f s).fs (writeAll env f s).maxdatfileidx := by
  intro f
  induction f with
  | zero => intro s h _; exact h
  | succ f ih =>
    intro s h hb
    unfold writeAll
    split
    · exact h
    · rename_i s' hw
      exact ih s' (writeOne_files env s s' h hb hw) (below_grows s s' hb (writeOne_grows env s s' hw))

theorem flush_files (env : Env) (s : State) (h : FilesOK s.fs s.maxdatfileidx) (hb : ∀ i, i ∈ s.fs.lost → i < s.maxdatfileidx) :
    FilesOK (flush env s).fs (flush env s).maxdatfileidx := writeAll_files env _ s h hb

theorem addToCache_files (s : State) (k : Key) (d : Bytes) (h : FilesOK s.fs s.maxdatfileidx) :
    FilesOK (addToCache s k d).fs (addToCache s k d).maxdatfileidx := by
  obtain ⟨_, _, g3, _, _, _, _, g8, _⟩ := addToCache_fields s k d
  rw [g3, g8]; exact h

theorem setBlockFlag_files (s : State) (k : Key) (r0 : Rec) (fl : Nat) (h : FilesOK s.fs s.maxdatfileidx) :
    FilesOK (setBlockFlag s k r0 fl).fs (setBlockFlag s k r0 fl).maxdatfileidx := by
  obtain ⟨_, _, _, i3, _, _, _, _, i8⟩ := setBlockFlag_fields s k r0 fl
  rw [i8]; exact filesOK_congr s.fs _ _ h i3.1 i3.2.1 i3.2.2

theorem blockTrusted_files (s : State) (hash : Bytes) (h : FilesOK s.fs s.maxdatfileidx) :
    FilesOK (blockTrusted s hash).fs (blockTrusted s hash).maxdatfileidx := by
  unfold blockTrusted
  simp only
  split
  · exact h
  · split
    · exact h
    · exact setBlockFlag_files s _ _ _ h

theorem blockInvalid_files (s : State) (hash : Bytes) (h : FilesOK s.fs s.maxdatfileidx) :
    FilesOK (blockInvalid s hash).1.fs (blockInvalid s hash).1.maxdatfileidx := by
  unfold blockInvalid
  simp only
  split
  · exact h
  · split
    · exact h
    · split
      · exact h
      · exact setBlockFlag_files s _ _ _ h

theorem blockGet_files (env : Env) (s : State) (hash : Bytes) (h : FilesOK s.fs s.maxdatfileidx) :
    FilesOK (blockGet env s hash).1.fs (blockGet env s hash).1.maxdatfileidx := by
  unfold blockGet
  simp only
  split
  · exact h
  · split
    · exact h
    · split
      · exact h
      · split
        · exact h
        · split
          · exact h
          · split
            · exact h
            · generalize decodeStored env _ _ = ble
              obtain ⟨bl, err⟩ := ble
              simp only
              split <;> exact addToCache_files _ _ _ h

theorem blockLength_files (env : Env) (s : State) (hash : Bytes) (d : Bool) (h : FilesOK s.fs s.maxdatfileidx) :
    FilesOK (blockLength env s hash d).1.fs (blockLength env s hash d).1.maxdatfileidx := by
  unfold blockLength
  simp only
  split
  · exact h
  · split
    · exact h
    · split
      · exact h
      · have := blockGet_files env s hash h
        generalize blockGet env s hash = res at this ⊢
        obtain ⟨s', out⟩ := res
        cases out <;> exact this

theorem blockAdd_files (env : Env) (s : State) (hash : Bytes) (ht tx : Nat) (tr : Bool) (raw : Bytes)
    (h : FilesOK s.fs s.maxdatfileidx) (hb : ∀ i, i ∈ s.fs.lost → i < s.maxdatfileidx) :
    FilesOK (blockAdd env s hash ht tx tr raw).fs (blockAdd env s hash ht tx tr raw).maxdatfileidx := by
  unfold blockAdd
  simp only
  split
  · have h1 := addToCache_files { s with index := AL.set s.index (keyOf hash) { ipos := none, trusted := tr, olen := raw.length, seq := s.nextSeq } } (keyOf hash) raw h
    obtain ⟨_, _, g3, _, _, _, _, g8, _⟩ := addToCache_fields { s with index := AL.set s.index (keyOf hash) { ipos := none, trusted := tr, olen := raw.length, seq := s.nextSeq } } (keyOf hash) raw
    generalize addToCache { s with index := AL.set s.index (keyOf hash) { ipos := none, trusted := tr, olen := raw.length, seq := s.nextSeq } } (keyOf hash) raw = s2 at *
    simp only at g3 g8
    split
    · exact flush_files env _ h1 (by simp only; rw [g3, g8]; exact hb)
    · exact h1
  · split
    · split
      · exact h
      · exact blockTrusted_files s hash h
    · exact h

/-! ### LoadBlockIndex -/

theorem createCur_files (fs : FS) (M m : Nat) (h : FilesOK fs M) (hm : M ≤ m) (hb : ∀ i, i ∈ fs.lost → i < M) :
    FilesOK (createCur fs m) m := by
  have h' := filesOK_mono fs M m h hm
  have hold : AL.get fs.olds m = none := by
    cases ho : AL.get fs.olds m with
    | none => rfl
    | some f => have := h.olds_lt m f ho; omega
  unfold createCur
  split
  · exact h'
  · simp only [hold, ite_self, Option.isSome_none, Bool.false_eq_true, ↓reduceIte]
    have := setCur_files fs m [] h' (fun i hi => by have := hb i hi; omega) fs.idx
    exact filesOK_congr _ _ _ this rfl rfl rfl

theorem cleanupGo_files (o : Opts) (M : Nat) : ∀ (f idx : Nat) (fs : FS), FilesOK fs M → 1 ≤ idx → idx ≤ M →
    FilesOK (cleanupGo o f idx fs) M := by
  intro f
  induction f with
  | zero => intro idx fs h _ _; exact h
  | succ f ih =>
    intro idx fs h h1 h2
    unfold cleanupGo
    simp only
    have hr := removeDatFile_files o fs (idx - 1) M h (by omega)
    split
    · exact hr
    · exact ih (idx - 1) _ hr (by omega) (by omega)

theorem loadCleanup_files (o : Opts) (M : Nat) (fs : FS) (h : FilesOK fs M) : FilesOK (loadCleanup o M fs) M := by
  unfold loadCleanup
  split
  · exact cleanupGo_files o M 3 _ fs h (by omega) (by omega)
  · exact h

theorem reopen_files (env : Env) (s : State) (o : Opts) (h : FilesOK s.fs s.maxdatfileidx)
    (hb : ∀ i, i ∈ s.fs.lost → i < s.maxdatfileidx) (hmono : s.maxdatfileidx ≤ (reopen env s.fs o).1.maxdatfileidx) :
    FilesOK (reopen env s.fs o).1.fs (reopen env s.fs o).1.maxdatfileidx := by
  have e4 := (reopen_state env s.fs o).2.2.2.1
  rw [e4] at hmono ⊢
  rw [reopen_fs]
  exact loadCleanup_files _ _ _ (createCur_files s.fs _ _ h hmono hb)

theorem step_files (env : Env) (hic : Gen.BlockDBFacts.invalidCountsFile = true) (hrb : Gen.BlockDBFacts.restoresBackup = true)
    (s : State) (sp : Spec) (n : Nat) (h : FilesOK s.fs s.maxdatfileidx) (ht : TopInv s) (hC : Core env s sp n) (op : Op)
    (hn : n < 2^31) : FilesOK (step env s op).1.fs (step env s op).1.maxdatfileidx := by
  have hb := ht.below
  unfold step
  cases op with
  | reopen o =>
    simp only
    split
    · exact h
    · exact reopen_files env s o h hb (reopen_top env hic hrb s sp n ht hC.disk hC.inv hn o).2
  | add hash ht' tx tr raw =>
    simp only
    split
    · exact h
    · split
      · exact h
      · exact blockAdd_files env s hash ht' tx tr raw h hb
  | get hash => simp only; split; exact h; exact blockGet_files env s hash h
  | length hash d => simp only; split; exact h; exact blockLength_files env s hash d h
  | trusted hash => simp only; split; exact h; exact blockTrusted_files s hash h
  | invalid hash => simp only; split; exact h; exact blockInvalid_files s hash h
  | idle => simp only; split; exact h; exact flush_files env s h hb
  | close =>
    simp only
    split
    · exact h
    · exact flush_files env s h hb

theorem init_files : FilesOK init.fs init.maxdatfileidx :=
  ⟨fun i f hf => by simp [init, AL.get] at hf, fun i f hf => by simp [init, AL.get] at hf,
   fun i hi => by simp [init] at hi, fun i f hf => by simp [init, AL.get] at hf⟩

theorem run_files (env : Env) (hadv : env.advInvalid = true) (hic : Gen.BlockDBFacts.invalidCountsFile = true)
    (hrb : Gen.BlockDBFacts.restoresBackup = true) : ∀ (ops : List Op) (s : State) (sp : Spec) (n : Nat),
    FilesOK s.fs s.maxdatfileidx → TopInv s → Core env s sp n → (∀ op ∈ ops, Op.wf env op) → n + ops.length < 2^31 →
    FilesOK (run env s ops).1.fs (run env s ops).1.maxdatfileidx := by
  intro ops
  induction ops with
  | nil => intro s sp n h _ _ _ _; exact h
  | cons op ops ih =>
    intro s sp n h ht hC hwf hn
    simp only [List.length_cons] at hn
    have w1 := hwf op (by simp)
    have h1 := step_files env hic hrb s sp n h ht hC op (by omega)
    have t1 := (step_top env hic hrb s sp n ht hC op w1 (by omega)).1
    have hC1 := step_core env hadv s sp n hC op w1 (by omega)
    rw [run_cons_fst]
    exact ih _ _ (n + 1) h1 t1 hC1 (fun op' hop' => hwf op' (by simp [hop'])) (by omega)

/-- `BlockGet` of a key whose record points into a lost data file, in a state where lost files are gone: the answer comes
    from the cache or is an error — no bytes are read from any data file -/
theorem blockGet_lost (env : Env) (s : State) (hash : Bytes) (h : FilesOK s.fs s.maxdatfileidx)
    (hl : keyLost s (keyOf hash) = true) :
    (∃ c r, AL.get s.cache (keyOf hash) = some c ∧ AL.get s.index (keyOf hash) = some r ∧
        (blockGet env s hash).2 = .data c.data r.trusted) ∨
    (AL.get s.cache (keyOf hash) = none ∧ ∃ e t, (blockGet env s hash).2 = .getErr e t ∧ (e = .noFile ∨ e = .purged)) := by
  unfold keyLost at hl
  split at hl
  · rename_i r hr
    simp only [Bool.and_eq_true, List.contains_eq_mem, decide_eq_true_eq] at hl
    obtain ⟨g1, g2⟩ := h.lost_gone _ hl.2
    unfold blockGet
    simp only [hr]
    cases hc : AL.get s.cache (keyOf hash) with
    | some c => exact .inl ⟨c, r, rfl, rfl, rfl⟩
    | none =>
      right
      refine ⟨rfl, ?_⟩
      simp only
      have hn : r.ipos.isNone = false := by cases hh : r.ipos <;> simp [hh] at hl ⊢
      simp only [hn, Bool.false_eq_true, ↓reduceIte]
      by_cases hb : r.blen = 0
      · simp only [hb, ↓reduceIte]; exact ⟨_, _, rfl, .inr rfl⟩
      · simp only [hb, ↓reduceIte, g1, g2, Option.orElse]
        exact ⟨_, _, rfl, .inl rfl⟩
  · cases hl

end GocoinV.BlockDB
