/- C08 table proof chunk (written once by Proofs/mk_c08_tab.py; static). -/
import GocoinV.Proofs.C08_TabDefs
import GocoinV.Gen.TablesPreG05
import GocoinV.Gen.TablesPreG04
namespace GocoinV.C08
open GocoinV.Gen

theorem preG_05 : chainOK (Secp.dbl Secp.G) ((pts Tables.preG04).getLastD none :: pts Tables.preG05) = true := by
  decide +kernel
theorem preG_05_ne : pts Tables.preG05 ≠ [] := by decide +kernel

end GocoinV.C08
