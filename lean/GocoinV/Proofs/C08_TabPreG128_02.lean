/- C08 table proof chunk (written once by Proofs/mk_c08_tab.py; static). -/
import GocoinV.Proofs.C08_TabDefs
import GocoinV.Gen.TablesPreG12802
import GocoinV.Gen.TablesPreG12801
namespace GocoinV.C08
open GocoinV.Gen

theorem preG128_02 : chainOK (Secp.dbl g128) ((pts Tables.preG12801).getLastD none :: pts Tables.preG12802) = true := by
  decide +kernel
theorem preG128_02_ne : pts Tables.preG12802 ≠ [] := by decide +kernel

end GocoinV.C08
