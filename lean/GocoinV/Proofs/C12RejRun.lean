/-
  Proofs.C12RejRun — the reject-list invariant through txAccepted, the entry points, blocks (txMined incl. its
  RejectedSpentOutputs loop, BlockMined, BlockUndone), expiry, eviction, save+reload, and over all operations and
  histories; the readable form `RejInv`; the unreachable panic branches.  Core Lean only.
  (Props/C12, OPEN (d))
-/
import GocoinV.Proofs.C12RejOps
namespace GocoinV.Mempool

theorem Shrink.of_eq {s s' : State} (h1 : s'.cfg = s.cfg) (h2 : s'.rej = s.rej) (h3 : s'.ring = s.ring)
    (h4 : s'.waiting = s.waiting) (h5 : s'.rejSpent = s.rejSpent) (h6 : s'.pool = s.pool) : Shrink s s' :=
  ⟨⟨h1, h2, h3, h4, h5⟩, PoolSub.of_eq h6⟩

/-! ### txAccepted -/

theorem txAcceptedAux_RJ {K : Keys} {W : Tx → Prop} {rank : TxId → Nat} (U : Univ K W rank) (mf : Nat) :
    ∀ (fuel : Nat) (s : State) (recs : List Nat) (d : Nat), InvR K W s → RJ K s →
    RJ K (txAcceptedAux K mf fuel s recs d) := by
  intro fuel
  induction fuel with
  | zero => intro s recs d _ h; exact h.of_shrink (Shrink.of_eq rfl rfl rfl rfl rfl rfl)
  | succ n ih =>
    intro s recs d hI h
    unfold txAcceptedAux
    split
    · exact h
    · split
      · exact ih _ _ _ hI h
      · split
        · exact h.of_shrink (Shrink.of_eq rfl rfl rfl rfl rfl rfl)
        · split
          · exact h.of_shrink (Shrink.of_eq rfl rfl rfl rfl rfl rfl)
          · rename_i txr htxr
            have hk := h.rc.key _ txr htxr
            have h1 := rejDelete_RJ h txr (by rw [hk]; exact htxr)
            have hI1 := InvR_of_frame hI (rejDelete_frame K W s txr)
            dsimp only
            split
            · exact h1.of_shrink (Shrink.of_eq rfl rfl rfl rfl rfl rfl)
            · rename_i t htx
              have ht : W t := hI.rejW _ txr t htxr htx
              have hid : t.id = txr.id := (h.rc.shape _ txr htxr).id t htx
              have hf : (rejDelete K s txr).rej.get? (K.bidx t.id) = none := by
                rw [rejDelete_rej, hid, AList.get?_del_self]
              have hp : (rejDelete K s txr).pool.get? (K.bidx t.id) = none := by
                rw [(rejDelete_core K s txr).1, hid]
                cases hx : s.pool.get? (K.bidx txr.id) with
                | none => rfl
                | some x =>
                  have := h.disj _ x hx
                  rw [hk, htxr] at this
                  cases this
              have h2 := processTx_RJ mf _ t {} hI1 h1 hf hp
              have hI2 := processTx_InvR U mf _ t {} hI1 ht
              obtain ⟨pp1, _⟩ := processTx_pool K mf (rejDelete K s txr) t {}
              apply ih
              · split
                · split
                  · split
                    · exact InvR_of_frame hI2 ((rejDeleteByIdx_frame K W _ _).trans (rejectTx_frame K W _ t _ _ ht))
                    · exact hI2
                  · exact hI2
                · exact hI2
              · split
                · rename_i hres
                  split
                  · split
                    · obtain ⟨q1, q2, _⟩ := rejDeleteByIdx_RJ h2 (K.bidx t.id)
                      refine (rejectTx_RJ q1 t _ _ q2 ?_ (by decide)).1
                      rw [(rejDeleteByIdx_core K _ _).1, pp1 (by rw [hres]; decide), hp]
                    · exact h2
                  · exact h2
                · exact h2

theorem txAccepted_RJ {K : Keys} {W : Tx → Prop} {rank : TxId → Nat} (U : Univ K W rank) (mf : Nat) (s : State)
    (b : Nat) (hI : InvR K W s) (h : RJ K s) : RJ K (txAccepted K mf s b) :=
  txAcceptedAux_RJ U mf _ s _ _ hI h

/-! ### entry points -/

theorem needThisTx_zero (K : Keys) (s : State) (id : TxId) (h : ¬ needThisTx K s id ≠ 0) :
    s.pool.get? (K.bidx id) = none ∧ s.rej.get? (K.bidx id) = none := by
  unfold needThisTx at h
  dsimp only at h
  constructor
  · cases hx : s.pool.get? (K.bidx id) with
    | none => rfl
    | some x => simp [AList.has, hx] at h
  · cases hx : s.rej.get? (K.bidx id) with
    | none => rfl
    | some x =>
      exfalso
      apply h
      split
      · decide
      · simp [AList.has, hx]

theorem submitNet_RJ {K : Keys} {W : Tx → Prop} {rank : TxId → Nat} (U : Univ K W rank) (mf : Nat) (s : State)
    (t : Tx) (tr : Bool) (hI : InvR K W s) (h : RJ K s) (ht : W t) : RJ K (submitNet K mf s t tr).2 := by
  unfold submitNet
  dsimp only
  split
  · exact h
  · rename_i hn
    obtain ⟨hp, hf⟩ := needThisTx_zero K s t.id hn
    have h2 := processTx_RJ mf s t { trusted := tr } hI h hf hp
    have hI2 := processTx_InvR U mf s t { trusted := tr } hI ht
    split
    · exact txAccepted_RJ U mf _ _ hI2 h2
    · exact h2

/-- LoadRawTx's "make as own": the reject side is untouched and no pool key is new -/
theorem markLocal_shrink (K : Keys) (s : State) (id : TxId) : Shrink s (markLocal K s id) := by
  unfold markLocal
  split
  · rename_i r hr
    refine ⟨⟨rfl, rfl, rfl, rfl, rfl⟩, ?_⟩
    intro b x hx
    by_cases e : b = K.bidx id
    · exact ⟨r, by rw [e]; exact hr⟩
    · rw [show ({ s with pool := s.pool.set (K.bidx id) { r with loc := true } } : State).pool =
        s.pool.set (K.bidx id) { r with loc := true } from rfl, AList.get?_set_other _ _ _ _ e] at hx
      exact ⟨x, hx⟩
  · exact ⟨RejSame.refl s, fun b x hx => ⟨x, hx⟩⟩

theorem submitLocal_RJ {K : Keys} {W : Tx → Prop} {rank : TxId → Nat} (U : Univ K W rank) (mf : Nat) (s : State)
    (t : Tx) (hI : InvR K W s) (h : RJ K s) (ht : W t) : RJ K (submitLocal K mf s t).2 := by
  unfold submitLocal
  dsimp only
  obtain ⟨h1, _, _⟩ := rejDeleteByIdx_RJ h (K.bidx t.id)
  have hI1 := InvR_of_frame hI (rejDeleteByIdx_frame K W s (K.bidx t.id))
  split
  · exact h1.of_shrink (markLocal_shrink K _ t.id)
  · rename_i hn
    obtain ⟨hp, hf⟩ := needThisTx_zero K _ t.id hn
    have h2 := processTx_RJ mf _ t { trusted := true, loc := true } hI1 h1 hf hp
    have hI2 := processTx_InvR U mf _ t { trusted := true, loc := true } hI1 ht
    split
    · exact txAccepted_RJ U mf _ _ hI2 h2
    · exact h2

/-! ### MemInputs flags, Delete(with_children) -/

theorem foldl_same {α : Type} (f : State → α → State) (hf : ∀ s a, RejSame s (f s a)) :
    ∀ (l : List α) (s : State), RejSame s (l.foldl f s) := by
  intro l
  induction l with
  | nil => intro s; exact RejSame.refl s
  | cons a r ih => intro s; exact (hf s a).trans (ih _)

theorem minedFlags_shrink (K : Keys) (s : State) (t : T2S) : Shrink s (minedFlags K s t) := by
  refine ⟨?_, PoolSub.of_back (minedFlags_back K s t)⟩
  rw [minedFlags_eq]
  apply foldl_same
  intro s v
  unfold minedStep
  dsimp only
  repeat' split
  all_goals exact ⟨rfl, rfl, rfl, rfl, rfl⟩

theorem unminedFlags_shrink (K : Keys) (s : State) (t : T2S) : Shrink s (unminedFlags K s t) := by
  refine ⟨?_, PoolSub.of_back (unminedFlags_back K s t)⟩
  rw [unminedFlags_eq]
  apply foldl_same
  intro s v
  unfold unminedStep
  dsimp only
  repeat' split
  all_goals exact ⟨rfl, rfl, rfl, rfl, rfl⟩

theorem delWC0_shrink (K : Keys) : ∀ (fuel : Nat) (s : State) (t : T2S), Shrink s (delWithChildren K 0 fuel s t) := by
  intro fuel
  induction fuel with
  | zero => intro s t; exact Shrink.of_eq rfl rfl rfl rfl rfl rfl
  | succ n ih =>
    intro s t
    unfold delWithChildren
    dsimp only
    refine Shrink.trans (foldl_shrink _ ?_ _ _) (delOne0_shrink K _ t)
    intro s v
    split
    · exact Shrink.refl s
    · split
      · exact Shrink.refl s
      · exact ih _ _

/-! ### txMined -/

theorem RC.congr_sp {K : Keys} {e : Option Nat} {rej : AList Nat Rej} {rk : List Nat}
    {wt : AList Nat (TxId × List Nat)} {sp sp' : AList Nat (List Nat)} (h : RC K e rej rk wt sp)
    (hs : ∀ u, sp'.get? u = sp.get? u) : RC K e rej rk wt sp' := by
  have hl : ∀ u, lst sp' u = lst sp u := by intro u; unfold lst; rw [hs]
  refine ⟨h.nodupRej, h.nodupRing, h.ringRej, h.rejRing, h.key, h.shape, ?_, ?_, ?_, h.wKey, h.wSound, h.wCompl⟩
  · intro u l hu; rw [hs] at hu; exact h.spNe u l hu
  · intro u x hx; rw [hl] at hx; exact h.spSound u x hx
  · intro b r t hb hne ht u hu; rw [hl]; exact h.spCompl b r t hb hne ht u hu

/-- the loop of txMined over one RejectedSpentOutputs list: every listed record is gone afterwards -/
theorem rejLoop_spec (K : Keys) (b : Nat) : ∀ (l : List Nat) (acc : Bool × State), RJ K acc.2 →
    RJ K (l.foldl (fun (acc : Bool × State) rb =>
      match acc.2.rej.get? rb with
      | some txr => (acc.1 || rb = b, rejDelete K acc.2 txr)
      | none => (acc.1, acc.2)) acc).2 ∧
    ∀ x r, (l.foldl (fun (acc : Bool × State) rb =>
      match acc.2.rej.get? rb with
      | some txr => (acc.1 || rb = b, rejDelete K acc.2 txr)
      | none => (acc.1, acc.2)) acc).2.rej.get? x = some r → acc.2.rej.get? x = some r ∧ x ∉ l := by
  intro l
  induction l with
  | nil => intro acc h; exact ⟨h, fun x r hx => ⟨hx, by simp⟩⟩
  | cons rb l' ih =>
    intro acc h
    simp only [List.foldl_cons]
    cases hrb : acc.2.rej.get? rb with
    | none =>
      simp only []
      obtain ⟨i1, i2⟩ := ih (acc.1, acc.2) h
      refine ⟨i1, ?_⟩
      intro x r hx
      obtain ⟨j1, j2⟩ := i2 x r hx
      refine ⟨j1, ?_⟩
      simp only [List.mem_cons, not_or]
      refine ⟨?_, j2⟩
      intro e
      rw [e] at j1
      simp only at j1
      rw [hrb] at j1
      cases j1
    | some txr =>
      simp only []
      have hk := h.rc.key rb txr hrb
      have h1 := rejDelete_RJ h txr (by rw [hk]; exact hrb)
      obtain ⟨i1, i2⟩ := ih (acc.1 || decide (rb = b), rejDelete K acc.2 txr) h1
      refine ⟨i1, ?_⟩
      intro x r hx
      obtain ⟨j1, j2⟩ := i2 x r hx
      simp only at j1
      rw [rejDelete_rej, hk, AList.get?_del] at j1
      split at j1
      · cases j1
      · rename_i hne
        exact ⟨j1, by simp only [List.mem_cons, not_or]; exact ⟨hne, j2⟩⟩

theorem txMinedStep_RJ (K : Keys) (b : Nat) (wasIn : Bool) (acc : Bool × State) (i : TxIn) (h : RJ K acc.2) :
    RJ K (txMinedStep K b wasIn acc i).2 := by
  unfold txMinedStep
  dsimp only
  have h1 : RJ K (if wasIn then acc.2 else
      match acc.2.spent.get? (K.uidx i.prev i.vout) with
      | none => acc.2
      | some val => match acc.2.pool.get? val with
        | some r => delWithChildren K 0 (acc.2.pool.length + 1) acc.2 r
        | none => { acc.2 with spent := acc.2.spent.del (K.uidx i.prev i.vout) }) := by
    split
    · exact h
    · split
      · exact h
      · split
        · exact h.of_shrink (delWC0_shrink K _ _ _)
        · exact h.of_shrink (Shrink.of_eq rfl rfl rfl rfl rfl rfl)
  generalize (if wasIn then acc.2 else
      match acc.2.spent.get? (K.uidx i.prev i.vout) with
      | none => acc.2
      | some val => match acc.2.pool.get? val with
        | some r => delWithChildren K 0 (acc.2.pool.length + 1) acc.2 r
        | none => { acc.2 with spent := acc.2.spent.del (K.uidx i.prev i.vout) }) = s1 at h1 ⊢
  split
  · exact h1
  · rename_i l hl
    obtain ⟨q1, q2⟩ := rejLoop_spec K b l (acc.1, s1) h1
    generalize (l.foldl (fun (acc : Bool × State) rb =>
      match acc.2.rej.get? rb with
      | some txr => (acc.1 || rb = b, rejDelete K acc.2 txr)
      | none => (acc.1, acc.2)) (acc.1, s1)) = q at q1 q2 ⊢
    -- nothing is listed under `u` any more
    have hemp : q.2.rejSpent.get? (K.uidx i.prev i.vout) = none := by
      cases hg : q.2.rejSpent.get? (K.uidx i.prev i.vout) with
      | none => rfl
      | some l' =>
        exfalso
        have hne := q1.rc.spNe _ l' hg
        cases l' with
        | nil => exact hne rfl
        | cons x rest =>
          have hx : x ∈ lst q.2.rejSpent (K.uidx i.prev i.vout) := by rw [lst_of_get hg]; exact List.mem_cons_self
          obtain ⟨_, r, t, hr, ht, hu⟩ := q1.rc.spSound _ x hx
          obtain ⟨j1, j2⟩ := q2 x r hr
          have := h1.rc.spCompl x r t j1 (by simp) ht _ hu
          rw [lst_of_get hl] at this
          exact j2 this
    refine ⟨q1.cap, ?_, q1.disj⟩
    show RC K none q.2.rej (ringKeys q.2.ring) q.2.waiting (q.2.rejSpent.del (K.uidx i.prev i.vout))
    apply RC.congr_sp q1.rc
    intro u
    rw [AList.get?_del]
    split
    · rename_i hu; rw [hu, hemp]
    · rfl

theorem txMinedTail_RJ (K : Keys) (t : Tx) (p : Bool × State) (hp : RJ K p.2) :
    RJ K (if ((t.ins.foldl (txMinedStep K (K.bidx t.id) p.1) (false, p.2)).1 || p.1) = true
      then (t.ins.foldl (txMinedStep K (K.bidx t.id) p.1) (false, p.2)).2
      else rejDeleteByIdx K (t.ins.foldl (txMinedStep K (K.bidx t.id) p.1) (false, p.2)).2 (K.bidx t.id)) := by
  have hq := foldl_pair_inv (RJ K) (txMinedStep K (K.bidx t.id) p.1)
    (fun acc i ha => txMinedStep_RJ K _ _ acc i ha) t.ins (false, p.2) hp
  split
  · exact hq
  · exact (rejDeleteByIdx_RJ hq _).1

theorem txMined_RJ (K : Keys) (s : State) (t : Tx) (h : RJ K s) : RJ K (txMined K s t) := by
  rw [txMined_eq]
  unfold txMined'
  dsimp only
  apply txMinedTail_RJ
  split
  · exact h.of_shrink ((minedFlags_shrink K s _).trans (delOne0_shrink K _ _))
  · exact h

theorem blockMined_RJ {K : Keys} {W : Tx → Prop} {rank : TxId → Nat} (U : Univ K W rank) (mf : Nat) (s : State)
    (txs : List Tx) (hI : InvR K W s) (h : RJ K s) : RJ K (blockMined K mf s txs) := by
  unfold blockMined
  split
  · exact h
  · dsimp only
    have h1 : InvR K W (txs.reverse.foldl (txMined K) s) ∧ RJ K (txs.reverse.foldl (txMined K) s) :=
      foldl_inv (fun s => InvR K W s ∧ RJ K s) (txMined K)
        (fun s t hs => ⟨txMined_InvR U s t hs.1, txMined_RJ K s t hs.2⟩) txs.reverse s ⟨hI, h⟩
    exact (foldl_inv (fun s => InvR K W s ∧ RJ K s) (fun s t => txAccepted K mf s (K.bidx t.id))
      (fun s t hs => ⟨txAccepted_InvR U mf s _ hs.1, txAccepted_RJ U mf s _ hs.1 hs.2⟩) txs _ h1).2

/-! ### BlockUndone -/

/-- none of the transactions of the undone block is pooled when BlockUndone reaches it -/
def UndoFresh (K : Keys) (mf : Nat) : State → List Tx → Prop
  | _, [] => True
  | s, t :: r => s.pool.get? (K.bidx t.id) = none ∧ UndoFresh K mf (undoneStep K mf s t) r

theorem undoneStep_RJ {K : Keys} {W : Tx → Prop} (mf : Nat) (s : State) (t : Tx)
    (hI : InvR K W s) (h : RJ K s) (hfresh : s.pool.get? (K.bidx t.id) = none) : RJ K (undoneStep K mf s t) := by
  unfold undoneStep
  dsimp only
  obtain ⟨q1, q2, _⟩ := rejDeleteByIdx_RJ h (K.bidx t.id)
  have hI1 := InvR_of_frame hI (rejDeleteByIdx_frame K W s (K.bidx t.id))
  have hp : (rejDeleteByIdx K s (K.bidx t.id)).pool.get? (K.bidx t.id) = none := by
    rw [(rejDeleteByIdx_core K s _).1]; exact hfresh
  have h2 := processTx_RJ mf _ t { trusted := true, unmined := true } hI1 q1 q2 hp
  split
  · split
    · exact h2.of_shrink (unminedFlags_shrink K _ _)
    · exact h2.of_shrink (Shrink.of_eq rfl rfl rfl rfl rfl rfl)
  · exact h2.of_shrink (Shrink.of_eq rfl rfl rfl rfl rfl rfl)

theorem undoneStep_InvR {K : Keys} {W : Tx → Prop} {rank : TxId → Nat} (U : Univ K W rank) (mf : Nat) (s : State)
    (t : Tx) (hI : InvR K W s) (ht : W t) : InvR K W (undoneStep K mf s t) := by
  unfold undoneStep
  dsimp only
  have h1 := InvR_of_frame hI (rejDeleteByIdx_frame K W s (K.bidx t.id))
  have h2 := processTx_InvR U mf _ t { trusted := true, unmined := true } h1 ht
  split
  · split
    · exact (unminedFlags_spec _ _ h2).1
    · exact InvR_of_frame h2 (Frame.of_eq rfl rfl rfl rfl rfl rfl)
  · exact InvR_of_frame h2 (Frame.of_eq rfl rfl rfl rfl rfl rfl)

theorem blockUndone_RJ {K : Keys} {W : Tx → Prop} {rank : TxId → Nat} (U : Univ K W rank) (mf : Nat) (s : State)
    (txs : List Tx) (hI : InvR K W s) (h : RJ K s) (hW : ∀ t ∈ txs, W t) (hu : UndoFresh K mf s txs) :
    RJ K (blockUndone K mf s txs) := by
  rw [blockUndone_eq]
  split
  · exact h
  · have gen : ∀ (l : List Tx) (s : State), (∀ t ∈ l, W t) → InvR K W s → RJ K s → UndoFresh K mf s l →
        RJ K (l.foldl (undoneStep K mf) s) := by
      intro l
      induction l with
      | nil => intro s _ _ h _; exact h
      | cons t r ih =>
        intro s hl hI h hu
        simp only [List.foldl_cons]
        have ht := hl t List.mem_cons_self
        exact ih _ (fun t' ht' => hl t' (List.mem_cons_of_mem _ ht')) (undoneStep_InvR U mf s t hI ht)
          (undoneStep_RJ mf s t hI h hu.1) hu.2
    exact gen txs s hW hI h hu

/-- the pool keys after one step of BlockUndone -/
theorem undoneStep_pool (K : Keys) (mf : Nat) (s : State) (t : Tx) :
    ∀ x y, (undoneStep K mf s t).pool.get? x = some y → x = K.bidx t.id ∨ ∃ y0, s.pool.get? x = some y0 := by
  unfold undoneStep
  dsimp only
  obtain ⟨_, pp⟩ := processTx_pool K mf (rejDeleteByIdx K s (K.bidx t.id)) t { trusted := true, unmined := true }
  have hc := (rejDeleteByIdx_core K s (K.bidx t.id)).1
  have base : ∀ x y, (processTx K mf (rejDeleteByIdx K s (K.bidx t.id)) t { trusted := true, unmined := true }).2.pool.get? x
      = some y → x = K.bidx t.id ∨ ∃ y0, s.pool.get? x = some y0 := by
    intro x y hx
    rcases pp x y hx with e | ⟨y0, h0⟩
    · exact Or.inl e
    · rw [hc] at h0; exact Or.inr ⟨y0, h0⟩
  split
  · split
    · intro x y hx
      obtain ⟨y1, h1⟩ := (unminedFlags_shrink K _ _).sub x y hx
      exact base x y1 h1
    · exact base
  · exact base

/-- sufficient for `UndoFresh`: the transactions of the undone block have pairwise different BIDX and none of them is
    pooled when the block is undone -/
theorem undoFresh_of_nodup (K : Keys) (mf : Nat) : ∀ (txs : List Tx) (s : State),
    (txs.map fun t => K.bidx t.id).Nodup → (∀ t ∈ txs, s.pool.get? (K.bidx t.id) = none) → UndoFresh K mf s txs := by
  intro txs
  induction txs with
  | nil => intro s _ _; trivial
  | cons t r ih =>
    intro s hn hp
    simp only [List.map_cons, List.nodup_cons] at hn
    refine ⟨hp t List.mem_cons_self, ih _ hn.2 ?_⟩
    intro t' ht'
    cases hx : (undoneStep K mf s t).pool.get? (K.bidx t'.id) with
    | none => rfl
    | some y =>
      exfalso
      rcases undoneStep_pool K mf s t _ y hx with e | ⟨y0, h0⟩
      · exact hn.1 (List.mem_map.mpr ⟨t', ht', e⟩)
      · rw [hp t' (List.mem_cons_of_mem _ ht')] at h0; cases h0

/-! ### expiry, eviction, resort, save + reload -/

theorem expire_shrink (K : Keys) (s : State) (old : List Nat) : Shrink s (expire K s old) := by
  unfold expire
  apply foldl_shrink
  intro s b
  split
  · exact delWC0_shrink K _ _ _
  · exact Shrink.refl s

theorem evict_shrink (K : Keys) : ∀ (l : List Nat) (s s' : State), evict K s l = some s' → Shrink s s' := by
  intro l
  induction l with
  | nil => intro s s' he; simp [evict] at he; rw [← he]; exact Shrink.refl s
  | cons b r ih =>
    intro s s' he
    simp only [evict, List.foldlM_cons] at he
    cases hb : s.pool.get? b with
    | none => simp [hb] at he
    | some t =>
      simp only [hb] at he
      by_cases hc : hasNoChildren K s t = true
      · simp only [hc, if_true, Option.bind_eq_bind, Option.bind_some] at he
        exact (delOne0_shrink K s t).trans (ih _ s' he)
      · simp [hc] at he

theorem buildSorted_shrink (K : Keys) (s : State) : Shrink s (buildSorted K s) := by
  unfold buildSorted
  split
  · exact Shrink.of_eq rfl rfl rfl rfl rfl rfl
  · exact Shrink.refl s

theorem RC_empty (K : Keys) : RC K none [] [] [] [] := by
  refine ⟨by simp, by simp, ?_, ?_, ?_, ?_, ?_, ?_, ?_, ?_, ?_, ?_⟩
  · intro b hb; simp at hb
  · intro b r h; simp [AList.get?] at h
  · intro b r h; simp [AList.get?] at h
  · intro b r h; simp [AList.get?] at h
  · intro u l h; simp [AList.get?] at h
  · intro u x h; simp [lst, AList.get?] at h
  · intro b r t h; simp [AList.get?] at h
  · intro k id ids h; simp [AList.get?] at h
  · intro k x h; simp [wl, AList.get?] at h
  · intro b r w h; simp [AList.get?] at h

theorem reload_RJ {K : Keys} (s : State) (h : RJ K s) : RJ K (reload K s) := by
  rw [reload_eq]
  have base : RJ K (reloadBase K s) := by
    refine ⟨h.cap, ?_, ?_⟩
    · exact RC_empty K
    · intro b x _; rfl
  have bsub : PoolSub s (reloadBase K s) := by
    intro b x hx
    have : (reloadPool K s).get? b = some x := hx
    rw [reloadPool_get] at this
    cases hb : s.pool.get? b with
    | none => rw [hb] at this; cases this
    | some y => exact ⟨y, rfl⟩
  have gen : ∀ (l : List (Option Nat)) (st : State), (ringKeys l).Nodup → (∀ b, b ∈ ringKeys l → ∃ r, s.rej.get? b = some r) →
      RJ K st → (∀ x r, st.rej.get? x = some r → x ∉ ringKeys l) → PoolSub s st →
      RJ K (l.foldl (reloadRej K s) st) := by
    intro l
    induction l with
    | nil => intro st _ _ hst _ _; exact hst
    | cons slot l' ih =>
      intro st hn hall hst hnot hsub
      simp only [List.foldl_cons]
      cases slot with
      | none =>
        have e : ringKeys (none :: l') = ringKeys l' := rfl
        rw [e] at hn hall hnot
        exact ih st hn hall hst hnot hsub
      | some b =>
        have e : ringKeys (some b :: l') = b :: ringKeys l' := rfl
        rw [e] at hn hall hnot
        simp only [List.nodup_cons] at hn
        obtain ⟨r, hr⟩ := hall b List.mem_cons_self
        have hk := h.rc.key b r hr
        have hsh := h.rc.shape b r hr
        have step : reloadRej K s st (some b) = rejAdd K st (if r.tx.isNone then { r with waiting4 := none } else r) := by
          unfold reloadRej
          simp only [hr]
        rw [step]
        generalize hr' : (if r.tx.isNone then { r with waiting4 := none } else r) = r'
        have hid : r'.id = r.id := by rw [← hr']; split <;> rfl
        have hshape : RejShape r' := by
          rw [← hr']
          split
          · rename_i hn'
            have htx : r.tx = none := by simpa using hn'
            refine ⟨fun _ => rfl, fun t ht => hsh.id t ht, hsh.reason, ?_⟩
            have := hsh.w4
            rw [hsh.w htx] at this
            exact this
          · exact hsh
        have hkb : K.bidx r'.id = b := by rw [hid]; exact hk
        have hf : st.rej.get? (K.bidx r'.id) = none := by
          rw [hkb]
          cases hg : st.rej.get? b with
          | none => rfl
          | some x => exact absurd List.mem_cons_self (hnot b x hg)
        have hp : st.pool.get? (K.bidx r'.id) = none := by
          rw [hkb]
          cases hg : st.pool.get? b with
          | none => rfl
          | some x =>
            obtain ⟨x0, h0⟩ := hsub b x hg
            have := h.disj b x0 h0
            rw [hr] at this; cases this
        obtain ⟨a1, a2⟩ := rejAdd_RJ hst r' hf hp hshape
        apply ih _ hn.2 (fun b' hb' => hall b' (List.mem_cons_of_mem _ hb')) a1
        · intro x rx hx
          rcases a2 x rx hx with e1 | e1
          · rw [e1, hkb]; exact hn.1
          · have := hnot x rx e1
            simp only [List.mem_cons, not_or] at this
            exact this.2
        · intro k y hy
          rw [(rejAdd_core K st r').1] at hy
          exact hsub k y hy
  exact gen s.ring _ h.rc.nodupRing h.rc.ringRej base (fun x r hx => by simp [reloadBase, AList.get?] at hx) bsub

/-! ### all operations, all histories -/

/-- what the undo operation needs on top of the invariants: see `UndoFresh` -/
def UndoOK (K : Keys) (s : State) : Op → Prop
  | .undo _ mf => ∀ s' txs, disconnectUtxo s = some (s', txs) → UndoFresh K mf s' txs
  | _ => True

def UndoOKRun (K : Keys) : State → List Op → Prop
  | _, [] => True
  | s, op :: r => UndoOK K s op ∧ UndoOKRun K (step K s op) r

theorem connectUtxo_shrink (s : State) (hh : Nat) (txs : List Tx) : Shrink s (connectUtxo s hh txs) := by
  unfold connectUtxo
  split
  exact Shrink.of_eq rfl rfl rfl rfl rfl rfl

theorem disconnectUtxo_shrink (s s' : State) (txs : List Tx) (hd : disconnectUtxo s = some (s', txs)) : Shrink s s' := by
  unfold disconnectUtxo at hd
  split at hd
  · cases hd
  · simp only [Option.some.injEq, Prod.mk.injEq] at hd
    obtain ⟨rfl, rfl⟩ := hd
    exact Shrink.of_eq rfl rfl rfl rfl rfl rfl

theorem step_RJ {K : Keys} {W : Tx → Prop} {rank : TxId → Nat} (U : Univ K W rank) (s : State) (op : Op)
    (hI : InvR K W s) (h : RJ K s) (hW : ∀ t ∈ op.txs, W t) (hu : UndoOK K s op) : RJ K (step K s op) := by
  cases op with
  | submitNet t tr mf => exact submitNet_RJ U mf s t tr hI h (hW t (by simp [Op.txs]))
  | submitLocal t mf => exact submitLocal_RJ U mf s t hI h (hW t (by simp [Op.txs]))
  | block hh txs mf =>
    exact blockMined_RJ U mf _ txs (connectUtxo_InvR s hh txs hI hW) (h.of_shrink (connectUtxo_shrink s hh txs))
  | undo uh mf =>
    simp only [step]
    cases hd : disconnectUtxo s with
    | none => exact h
    | some p =>
      obtain ⟨s', txs⟩ := p
      obtain ⟨h1, h2⟩ := disconnectUtxo_InvR s s' txs hI hd
      exact (blockUndone_RJ U mf s' txs h1 (h.of_shrink (disconnectUtxo_shrink s s' txs hd)) h2
        (hu s' txs hd)).of_shrink (expire_shrink K _ _)
  | tip hh => exact h.of_shrink (Shrink.of_eq rfl rfl rfl rfl rfl rfl)
  | expire old => exact h.of_shrink (expire_shrink K s old)
  | evict v =>
    simp only [step]
    cases he : evict K s v with
    | none => simpa using h
    | some s' => simpa using h.of_shrink (evict_shrink K v s s' he)
  | resort => exact h.of_shrink (buildSorted_shrink K s)
  | commitFlag y => exact h.of_shrink (Shrink.of_eq rfl rfl rfl rfl rfl rfl)
  | reload => exact reload_RJ s h

theorem run_RJ {K : Keys} {W : Tx → Prop} {rank : TxId → Nat} (U : Univ K W rank) :
    ∀ (ops : List Op) (s : State), InvR K W s → RJ K s → (∀ op ∈ ops, ∀ t ∈ op.txs, W t) → UndoOKRun K s ops →
    RJ K (run K s ops) := by
  intro ops
  induction ops with
  | nil => intro s _ h _ _; exact h
  | cons op r ih =>
    intro s hI h hW hu
    unfold run
    simp only [List.foldl_cons]
    exact ih _ (step_InvR U s op hI (hW op List.mem_cons_self)) (step_RJ U s op hI h (hW op List.mem_cons_self) hu.1)
      (fun o ho => hW o (List.mem_cons_of_mem _ ho)) hu.2

theorem RJ_genesis (K : Keys) (cfg : Cfg) (u0 : UT) (h0 : Nat) (hcap : 2 ≤ cfg.ringCap) : RJ K (genesis cfg u0 h0) :=
  ⟨hcap, RC_empty K, fun _ _ _ => rfl⟩

theorem RJ_init (K : Keys) : RJ K {} := ⟨by decide, RC_empty K, fun _ _ _ => rfl⟩

end GocoinV.Mempool
