/-
  Proofs.C17Load — lemmas about Model.BalancesLoad: the static decoder shows exactly the stateless decoder's
  outputs (no residue), the parser-generic loops are C10's `decOutsU/decOutsC`, the byte-level load equals the
  record-level `loadAll`, the abort path leaves the index empty and off.
-/
import GocoinV.Proofs.C17
import GocoinV.Model.BalancesLoad
import GocoinV.Proofs.C10RecC
namespace GocoinV.Proofs.C17Load
open GocoinV GocoinV.CompactSize GocoinV.Model.Balances GocoinV.Model.BalancesLoad GocoinV.Proofs.C17
open GocoinV.UtxoRec (Res decHeader decScrC maxOuts decOutsU decOutsC newRecU newRecC encOutsU encOutsC WFOuts WFOutsC
  WFRec WFRecC serializeU serializeC)

/-! ### the generic stateless loop is C10's -/

theorem genPure_entU : ∀ (f : Nat) (rest : Bytes) (acc : List (Option UOut)),
    genPure entU f rest acc = decOutsU f rest acc := by
  intro f
  induction f with
  | zero => intro rest acc; simp only [genPure, decOutsU]
  | succ f ih =>
    intro rest acc
    simp only [genPure, decOutsU, entU]
    split
    · rfl
    · by_cases hp : (vlen ((rest.drop (vule rest).2).drop (vule (rest.drop (vule rest).2)).2)).1 < 0 ∨
          shorter (((rest.drop (vule rest).2).drop (vule (rest.drop (vule rest).2)).2).drop
            (vlen ((rest.drop (vule rest).2).drop (vule (rest.drop (vule rest).2)).2)).2)
            (vlen ((rest.drop (vule rest).2).drop (vule (rest.drop (vule rest).2)).2)).1.toNat = true
      · simp only [hp, ↓reduceIte]
        split <;> rfl
      · simp only [hp, ↓reduceIte]
        split
        · rfl
        · exact ih _ _

theorem genPure_entC (K : ScriptCompress.KeyOps) : ∀ (f : Nat) (rest : Bytes) (acc : List (Option UOut)),
    genPure (entC K) f rest acc = decOutsC K f rest acc := by
  intro f
  induction f with
  | zero => intro rest acc; simp only [genPure, decOutsC]
  | succ f ih =>
    intro rest acc
    simp only [genPure, decOutsC, entC]
    split
    · rfl
    · cases hd : decScrC K ((rest.drop (vule rest).2).drop (vule (rest.drop (vule rest).2)).2) with
      | none => simp only []; split <;> rfl
      | some x =>
        obtain ⟨pk, nxt⟩ := x
        simp only []
        split
        · rfl
        · exact ih _ _

theorem genRec_entU (dat : Bytes) : genRec entU dat = newRecU dat := by
  unfold genRec newRecU
  cases decHeader dat with
  | none => rfl
  | some x =>
    obtain ⟨txid, h, c, rest⟩ := x
    simp only [genPure_entU]
    split
    · rfl
    · cases decOutsU rest.length rest (List.replicate (c / 2) none) <;> rfl

theorem genRec_entC (K : ScriptCompress.KeyOps) (dat : Bytes) : genRec (entC K) dat = newRecC K dat := by
  unfold genRec newRecC
  cases decHeader dat with
  | none => rfl
  | some x =>
    obtain ⟨txid, h, c, rest⟩ := x
    simp only [genPure_entC]
    split
    · rfl
    · cases decOutsC K rest.length rest (List.replicate (c / 2) none) <;> rfl

/-! ### static buffers: invariant and simulation -/

/-- the slots the caller can see are nil or point to a pool object already handed out for THIS record -/
def Static.OK (st : Static) : Prop :=
  st.cnt ≤ st.slots.length ∧ ∀ i p, i < st.cnt → st.slots[i]? = some (some p) → p < st.idx

theorem outsList_ok (st : Static) (cnt : Nat) : Static.OK (outsList st cnt) := by
  unfold outsList
  split
  · refine ⟨by simp, ?_⟩
    intro i p hi h
    simp [List.getElem?_replicate] at h
  · rename_i hlen
    refine ⟨by simp, ?_⟩
    intro i p hi h
    simp only at hi
    rw [List.getElem?_append_left (by simpa using hi)] at h
    simp [List.getElem?_replicate] at h

theorem outsList_cnt (st : Static) (cnt : Nat) : (outsList st cnt).cnt = cnt := by
  unfold outsList; split <;> rfl

theorem outsList_view (st : Static) (cnt : Nat) : (outsList st cnt).view = List.replicate cnt none := by
  unfold outsList Static.view
  split
  · simp
  · rename_i hlen
    simp only
    rw [List.take_append_of_le_length (by simp)]
    simp

theorem view_length {st : Static} (h : Static.OK st) : st.view.length = st.cnt := by
  unfold Static.view
  simp only [List.length_map, List.length_take]
  have := h.1
  omega

theorem view_put {st : Static} (h : Static.OK st) (i : Nat) (o : UOut) (hi : i < st.cnt)
    (hp : st.idx < st.pool.length) : (st.put i o).view = st.view.set i (some o) := by
  apply List.ext_getElem?
  intro n
  unfold Static.view Static.put
  simp only [List.getElem?_map, List.getElem?_take, List.getElem?_set]
  by_cases hn : n < st.cnt
  · simp only [hn, ↓reduceIte]
    by_cases hin : i = n
    · subst hin
      have h1 : i < st.slots.length := by have := h.1; omega
      have h2 : i < min st.cnt st.slots.length := by omega
      simp [h1, h2, hp]
    · simp only [hin, ↓reduceIte]
      cases hs : st.slots[n]? with
      | none => simp
      | some x =>
        cases x with
        | none => simp
        | some p =>
          have hlt := h.2 n p hn hs
          have : st.idx ≠ p := by omega
          simp [List.getElem?_set, this]
  · simp only [hn, ↓reduceIte]
    by_cases hin : i = n
    · omega
    · simp [hin]

theorem put_ok {st : Static} (h : Static.OK st) (i : Nat) (o : UOut) : Static.OK (st.put i o) := by
  unfold Static.put
  refine ⟨by simpa using h.1, ?_⟩
  intro n p hn hs
  simp only at hn hs ⊢
  rw [List.getElem?_set] at hs
  split at hs
  · split at hs
    · simp at hs; omega
    · simp at hs
  · have := h.2 n p hn hs
    omega

/-- whatever the static loop returns is what the stateless loop returns on the caller-visible buffer -/
theorem genStatic_sim (P : Parser) : ∀ (f : Nat) (rest : Bytes) (st st' : Static), Static.OK st →
    genStatic P f rest st = .ok st' → genPure P f rest st.view = .ok st'.view ∧ Static.OK st' := by
  intro f
  induction f with
  | zero =>
    intro rest st st' hok h
    simp only [genStatic] at h
    simp only [genPure]
    split at h
    · injection h with h; subst h; simp [*]
    · cases h
  | succ f ih =>
    intro rest st st' hok h
    simp only [genStatic] at h
    simp only [genPure]
    split at h
    · injection h with h; subst h; simp [*]
    · rename_i hne
      simp only [hne, ↓reduceIte]
      cases hP : P rest with
      | none => simp only [hP] at h; cases h
      | some x =>
        obtain ⟨i, o, nxt⟩ := x
        simp only [hP] at h ⊢
        split at h
        · cases h
        · rename_i hc
          split at h
          · cases h
          · rename_i hpool
            have hs : shorter st.view (i + 1) = false :=
              (shorter_false_iff _ _).mpr (by rw [view_length hok]; omega)
            simp only [hs, Bool.false_eq_true, ↓reduceIte]
            have := ih nxt (st.put i o) st' (put_ok hok i o) h
            rw [view_put hok i o (by omega) (by omega)] at this
            exact this

/-- NewUtxoRecStatic returns exactly what NewUtxoRec returns on the same bytes, whatever is in the static buffers -/
theorem staticDec_sound (P : Parser) (dat : Bytes) (st st' : Static) (r : URec)
    (h : staticDec P dat st = .ok (r, st')) : genRec P dat = .ok r := by
  unfold staticDec at h
  unfold genRec
  cases hd : decHeader dat with
  | none => simp only [hd] at h; cases h
  | some x =>
    obtain ⟨txid, hh, c, rest⟩ := x
    simp only [hd] at h ⊢
    split at h
    · cases h
    · rename_i hc
      simp only [hc, ↓reduceIte]
      cases hg : genStatic P rest.length rest (outsList st (c / 2)) with
      | ok s2 =>
        simp only [hg] at h
        injection h with h
        injection h with h1 h2
        subst h2
        have := (genStatic_sim P rest.length rest _ s2 (outsList_ok st (c / 2)) hg).1
        rw [outsList_view] at this
        simp only [this]
        rw [← h1]
      | panic => simp only [hg] at h; cases h
      | hang => simp only [hg] at h; cases h

/-! ### the byte-level load -/

/-- the stored bytes decode (statelessly) to the records of the model's UTXO map, in scan order -/
def Stored (P : Parser) : List Bytes → Utxo → Prop
  | [], [] => True
  | b :: bs, p :: ps => (∃ r, genRec P b = .ok r ∧ toBal r = p.2) ∧ Stored P bs ps
  | _, _ => False

theorem loadLoop_done (P : Parser) (cfg : Cfg) (H : Bytes → Nat) (tick : Nat → Bool) :
    ∀ (raw : List Bytes) (u : Utxo) (n : Nat) (st st' : Static) (bal bal' : BalMap), Stored P raw u →
      loadLoop P cfg H tick raw n st bal = some (bal', st', false) → bal' = loadAll cfg H u bal := by
  intro raw
  induction raw with
  | nil =>
    intro u n st st' bal bal' hs h
    cases u with
    | nil => simp only [loadLoop] at h; injection h with h; injection h with h; simp [loadAll, h]
    | cons _ _ => cases hs
  | cons b bs ih =>
    intro u n st st' bal bal' hs h
    cases u with
    | nil => cases hs
    | cons p ps =>
      obtain ⟨⟨r, hr, hrp⟩, hs'⟩ := hs
      simp only [loadLoop] at h
      cases hd : staticDec P b st with
      | ok x =>
        obtain ⟨r', st1⟩ := x
        simp only [hd] at h
        have hr' := staticDec_sound P b st st1 r' hd
        rw [hr] at hr'
        injection hr' with hr'
        subst hr'
        split at h
        · injection h with h; injection h with _ h; injection h with _ h; cases h
        · simp only [loadAll, ← hrp]
          exact ih ps (n + 1) st1 st' _ bal' hs' h
      | panic => simp only [hd] at h; cases h
      | hang => simp only [hd] at h; cases h

/-- the loop reports `aborted` exactly when the tick fired at one of the records it reached -/
theorem loadLoop_flag (P : Parser) (cfg : Cfg) (H : Bytes → Nat) (tick : Nat → Bool) :
    ∀ (raw : List Bytes) (n : Nat) (st st' : Static) (bal bal' : BalMap) (a : Bool),
      loadLoop P cfg H tick raw n st bal = some (bal', st', a) →
      (a = true ↔ ∃ k, n < k ∧ k ≤ n + raw.length ∧ tick k = true) := by
  intro raw
  induction raw with
  | nil =>
    intro n st st' bal bal' a h
    simp only [loadLoop] at h
    injection h with h; injection h with _ h; injection h with _ h
    subst h
    simp only [Bool.false_eq_true, List.length_nil, Nat.add_zero, false_iff, not_exists]
    intro k hk; omega
  | cons b bs ih =>
    intro n st st' bal bal' a h
    simp only [loadLoop] at h
    cases hd : staticDec P b st with
    | ok x =>
      obtain ⟨r', st1⟩ := x
      simp only [hd] at h
      by_cases ht : tick (n + 1) = true
      · simp only [ht, ↓reduceIte] at h
        injection h with h; injection h with _ h; injection h with _ h
        subst h
        simp only [true_iff]
        exact ⟨n + 1, by omega, by simp, ht⟩
      · simp only [ht, Bool.false_eq_true, ↓reduceIte] at h
        rw [ih (n + 1) st1 st' _ bal' a h]
        constructor
        · rintro ⟨k, h1, h2, h3⟩
          exact ⟨k, by omega, by simp at h2 ⊢; omega, h3⟩
        · rintro ⟨k, h1, h2, h3⟩
          have : k ≠ n + 1 := by intro e; subst e; exact ht h3
          exact ⟨k, by omega, by simp at h2 ⊢; omega, h3⟩
    | panic => simp only [hd] at h; cases h
    | hang => simp only [hd] at h; cases h

/-- a completed byte-level load is the record-level `.enable` step of Model.Balances -/
theorem loadFromUtxo_completed (P : Parser) (H : Bytes → Nat) (tick : Nat → Bool) (s s' : State) (st st' : Static)
    (raw : List Bytes) (mn um : Nat) (hs : Stored P raw s.utxo)
    (hq : ∀ k, 1 ≤ k → k ≤ raw.length → tick k = false)
    (h : loadFromUtxo P H tick s st raw mn um = some (s', st')) : s' = step H s (.enable mn um) := by
  unfold loadFromUtxo at h
  simp only [step]
  split at h
  · rename_i hon
    injection h with h; injection h with h _; rw [← h]; simp [hon]
  · rename_i hon
    simp only [hon, Bool.false_eq_true, ↓reduceIte]
    cases hl : loadLoop P { min := mn, useMapCnt := um } H tick raw 0 st [] with
    | none => simp only [hl] at h; cases h
    | some x =>
      obtain ⟨bal, st1, a⟩ := x
      simp only [hl] at h
      have hf := loadLoop_flag P _ H tick raw 0 st st1 [] bal a hl
      have ha : a = false := by
        cases a with
        | false => rfl
        | true =>
          obtain ⟨k, h1, h2, h3⟩ := hf.mp rfl
          have := hq k (by omega) (by omega)
          rw [this] at h3; cases h3
      subst ha
      simp only [Bool.false_eq_true, ↓reduceIte] at h
      injection h with h; injection h with h _
      rw [← h, loadLoop_done P _ H tick raw s.utxo 0 st st1 [] bal hs hl]

/-- an aborted load: maps empty, index off, UTXO untouched (cfg is re-read but only matters while on) -/
theorem loadFromUtxo_aborted (P : Parser) (H : Bytes → Nat) (tick : Nat → Bool) (s s' : State) (st st' : Static)
    (raw : List Bytes) (mn um : Nat) (hoff : s.on = false)
    (hq : ∃ k, 1 ≤ k ∧ k ≤ raw.length ∧ tick k = true)
    (h : loadFromUtxo P H tick s st raw mn um = some (s', st')) :
    s' = { s with cfg := { min := mn, useMapCnt := um }, bal := [], on := false } := by
  unfold loadFromUtxo at h
  simp only [hoff, Bool.false_eq_true, ↓reduceIte] at h
  cases hl : loadLoop P { min := mn, useMapCnt := um } H tick raw 0 st [] with
  | none => simp only [hl] at h; cases h
  | some x =>
    obtain ⟨bal, st1, a⟩ := x
    simp only [hl] at h
    have hf := loadLoop_flag P _ H tick raw 0 st st1 [] bal a hl
    obtain ⟨k, h1, h2, h3⟩ := hq
    have ha : a = true := hf.mpr ⟨k, by omega, by omega, h3⟩
    subst ha
    simp only [↓reduceIte] at h
    injection h with h; injection h with h _
    rw [← h]

/-! ### sequences of records through the static decoder -/

/-- decode the records one after the other through the same static buffers; `none` = some decode panicked -/
def staticSeq (P : Parser) : List Bytes → Static → Option (List URec)
  | [], _ => some []
  | b :: bs, st =>
    match staticDec P b st with
    | .ok (r, st') => (staticSeq P bs st').map (r :: ·)
    | _ => none

theorem staticSeq_exact (P : Parser) (rs : List URec) : ∀ (bs : List Bytes) (st : Static) (out : List URec),
    bs.map (genRec P) = rs.map Res.ok → staticSeq P bs st = some out → out = rs := by
  induction rs with
  | nil =>
    intro bs st out hb h
    cases bs with
    | nil => simp only [staticSeq] at h; injection h with h; exact h.symm
    | cons _ _ => simp at hb
  | cons r rs ih =>
    intro bs st out hb h
    cases bs with
    | nil => simp at hb
    | cons b bs =>
      simp only [List.map_cons, List.cons.injEq] at hb
      simp only [staticSeq] at h
      cases hd : staticDec P b st with
      | ok x =>
        obtain ⟨r', st1⟩ := x
        simp only [hd] at h
        have hr := staticDec_sound P b st st1 r' hd
        rw [hb.1] at hr
        injection hr with hr
        cases ho : staticSeq P bs st1 with
        | none => simp [ho] at h
        | some o2 =>
          simp only [ho, Option.map_some, Option.some.injEq] at h
          rw [← h, ih bs st1 o2 hb.2 ho, hr]
      | panic => simp only [hd] at h; cases h
      | hang => simp only [hd] at h; cases h

/-! ### totality of the static decoder on serialised well-formed records -/

def Static.Sized (st : Static) : Prop := st.pool.length = st.slots.length

theorem outsList_sized {st : Static} (h : Static.Sized st) (cnt : Nat) : Static.Sized (outsList st cnt) := by
  unfold outsList Static.Sized at *
  split
  · simp
  · simp; omega

theorem put_sized {st : Static} (h : Static.Sized st) (i : Nat) (o : UOut) : Static.Sized (st.put i o) := by
  unfold Static.put Static.Sized at *; simpa using h

theorem genStatic_sized (P : Parser) : ∀ (f : Nat) (rest : Bytes) (st st' : Static), Static.Sized st →
    genStatic P f rest st = .ok st' → Static.Sized st' := by
  intro f
  induction f with
  | zero =>
    intro rest st st' hs h
    simp only [genStatic] at h
    split at h
    · injection h with h; subst h; exact hs
    · cases h
  | succ f ih =>
    intro rest st st' hs h
    simp only [genStatic] at h
    split at h
    · injection h with h; subst h; exact hs
    · cases hP : P rest with
      | none => simp only [hP] at h; cases h
      | some x =>
        obtain ⟨i, o, nxt⟩ := x
        simp only [hP] at h
        split at h
        · cases h
        · split at h
          · cases h
          · exact ih nxt _ st' (put_sized hs i o) h

theorem genStatic_nil (P : Parser) (f : Nat) (st : Static) : genStatic P f [] st = .ok st := by
  cases f <;> simp [genStatic]

theorem entU_enc (i v : Nat) (pk rest : Bytes) (hi : i < 2 ^ 64) (hv : v < 2 ^ 64) (hl : pk.length < 2 ^ 63) :
    entU (putULe i ++ (putULe v ++ (putULe pk.length ++ (pk ++ rest)))) = some (i, ⟨v, pk⟩, rest) := by
  unfold entU
  simp only [vule_putULe i hi, UtxoRec.drop_putULe, vule_putULe v hv, UtxoRec.vlen_putULe pk.length hl]
  have h2 : shorter (pk ++ rest) pk.length = false := UtxoRec.shorter_eq_false _ _ (by simp)
  have h3 : ¬ ((pk.length : Int) < 0) := by omega
  simp [h2, h3]

theorem entC_enc (K : ScriptCompress.KeyOps) (hK : K.Sound) (i : Nat) (o : UOut) (rest : Bytes) (hi : i < 2 ^ 64)
    (ho : UtxoRec.WFOutC o) :
    entC K (putULe i ++ (putULe (AmountCompress.compress o.value) ++ (UtxoRec.encScrC K o.pk ++ rest))) = some (i, o, rest) := by
  obtain ⟨hv, hc, hl⟩ := ho
  obtain ⟨hcv, hrt⟩ := UtxoRec.amount_rt o.value hv hc
  unfold entC
  simp only [vule_putULe i hi, UtxoRec.drop_putULe, vule_putULe _ hcv, UtxoRec.decScrC_enc K hK o.pk rest hl, hrt]

theorem append_isEmpty_false (n : Nat) (t : Bytes) : (putULe n ++ t).isEmpty = false := by
  have := UtxoRec.putULe_ne_nil n
  cases h : putULe n with
  | nil => exact absurd h this
  | cons a t => simp

theorem genStaticU_enc (suf : List (Option UOut)) : ∀ (i fuel : Nat) (st : Static),
    (encOutsU i suf).length ≤ fuel → i + suf.length < 2 ^ 64 → WFOuts suf → Static.OK st → st.idx ≤ i →
    i + suf.length ≤ st.cnt → st.cnt ≤ st.pool.length → ∃ st', genStatic entU fuel (encOutsU i suf) st = .ok st' := by
  induction suf with
  | nil => intro i fuel st _ _ _ _ _ _ _; exact ⟨st, by simp [encOutsU, genStatic_nil]⟩
  | cons o t ih =>
    intro i fuel st hf hlen hwf hok hidx hcnt hpool
    have hwt : WFOuts t := fun o ho x hx => hwf o (List.mem_cons_of_mem _ ho) x hx
    cases o with
    | none =>
      simp only [encOutsU] at hf ⊢
      exact ih (i + 1) fuel st hf (by simp at hlen ⊢; omega) hwt hok (by omega) (by simp at hcnt; omega) hpool
    | some x =>
      obtain ⟨hv, hl⟩ := hwf (some x) (by simp) x rfl
      simp only [encOutsU] at hf ⊢
      cases fuel with
      | zero =>
        have := UtxoRec.vlenSize_pos i
        simp [putULe_length] at hf; omega
      | succ f =>
        simp only [List.length_cons] at hlen hcnt
        simp only [genStatic, append_isEmpty_false, Bool.false_eq_true, ↓reduceIte,
          entU_enc i x.value x.pk _ (by omega) hv hl]
        have h1 : ¬ st.cnt < i + 1 := by omega
        have h2 : ¬ st.pool.length ≤ st.idx := by omega
        simp only [h1, h2, ↓reduceIte]
        exact ih (i + 1) f (st.put i x)
          (by simp [putULe_length] at hf ⊢; have := UtxoRec.vlenSize_pos i; omega)
          (by omega) hwt (put_ok hok i x) (by simp [Static.put]; omega) (by simp [Static.put]; omega)
          (by simp [Static.put]; omega)

theorem genStaticC_enc (K : ScriptCompress.KeyOps) (hK : K.Sound) (suf : List (Option UOut)) : ∀ (i fuel : Nat) (st : Static),
    (encOutsC K i suf).length ≤ fuel → i + suf.length < 2 ^ 64 → WFOutsC suf → Static.OK st → st.idx ≤ i →
    i + suf.length ≤ st.cnt → st.cnt ≤ st.pool.length → ∃ st', genStatic (entC K) fuel (encOutsC K i suf) st = .ok st' := by
  induction suf with
  | nil => intro i fuel st _ _ _ _ _ _ _; exact ⟨st, by simp [encOutsC, genStatic_nil]⟩
  | cons o t ih =>
    intro i fuel st hf hlen hwf hok hidx hcnt hpool
    have hwt : WFOutsC t := fun o ho x hx => hwf o (List.mem_cons_of_mem _ ho) x hx
    cases o with
    | none =>
      simp only [encOutsC] at hf ⊢
      exact ih (i + 1) fuel st hf (by simp at hlen ⊢; omega) hwt hok (by omega) (by simp at hcnt; omega) hpool
    | some x =>
      have hx := hwf (some x) (by simp) x rfl
      simp only [encOutsC] at hf ⊢
      cases fuel with
      | zero =>
        have := UtxoRec.vlenSize_pos i
        simp [putULe_length] at hf; omega
      | succ f =>
        simp only [List.length_cons] at hlen hcnt
        simp only [genStatic, append_isEmpty_false, Bool.false_eq_true, ↓reduceIte,
          entC_enc K hK i x _ (by omega) hx]
        have h1 : ¬ st.cnt < i + 1 := by omega
        have h2 : ¬ st.pool.length ≤ st.idx := by omega
        simp only [h1, h2, ↓reduceIte]
        exact ih (i + 1) f (st.put i x)
          (by simp [putULe_length] at hf ⊢; have := UtxoRec.vlenSize_pos i; omega)
          (by omega) hwt (put_ok hok i x) (by simp [Static.put]; omega) (by simp [Static.put]; omega)
          (by simp [Static.put]; omega)

theorem outsList_pool {st : Static} (h : Static.Sized st) (cnt : Nat) : cnt ≤ (outsList st cnt).pool.length := by
  unfold outsList Static.Sized at *
  split
  · simp
  · simp only; omega

theorem outsList_idx (st : Static) (cnt : Nat) : (outsList st cnt).idx = 0 := by
  unfold outsList; split <;> rfl

theorem staticDecU_total (r : URec) (h : WFRec r) (b : Bytes) (hs : serializeU r = some b) (st : Static)
    (hz : Static.Sized st) : ∃ st', staticDec entU b st = .ok (r, st') ∧ Static.Sized st' := by
  have hrt := UtxoRec.newRecU_serializeU r h b hs
  unfold serializeU at hs
  split at hs
  · injection hs with hs; subst hs
    have hc : ¬ (r.outs.length > maxOuts) := by have := h.count; unfold maxOuts; omega
    obtain ⟨s2, hg⟩ := genStaticU_enc r.outs 0 (encOutsU 0 r.outs).length (outsList st r.outs.length) (Nat.le_refl _)
      (by have := h.count; omega) h.outs (outsList_ok _ _) (by rw [outsList_idx]; exact Nat.le_refl _)
      (by rw [outsList_cnt]; omega) (by rw [outsList_cnt]; exact outsList_pool hz _)
    have hd : ∃ r', staticDec entU (r.txid ++ (putULe r.inBlock ++ (putULe (UtxoRec.outcnt r) ++ encOutsU 0 r.outs))) st
        = .ok (r', s2) := by
      unfold staticDec
      rw [UtxoRec.decHeader_ser r h]
      simp only [UtxoRec.outcnt_div, hc, ↓reduceIte, hg]
      exact ⟨_, rfl⟩
    obtain ⟨r', hd⟩ := hd
    have := staticDec_sound entU _ st s2 r' hd
    rw [genRec_entU, hrt] at this
    injection this with e
    subst e
    exact ⟨s2, hd, genStatic_sized entU _ _ _ s2 (outsList_sized hz _) hg⟩
  · simp at hs

theorem staticDecC_total (K : ScriptCompress.KeyOps) (hK : K.Sound) (r : URec) (h : WFRecC r) (b : Bytes)
    (hs : serializeC K r = some b) (st : Static)
    (hz : Static.Sized st) : ∃ st', staticDec (entC K) b st = .ok (r, st') ∧ Static.Sized st' := by
  have hrt := UtxoRec.newRecC_serializeC K hK r h b hs
  unfold serializeC at hs
  split at hs
  · injection hs with hs; subst hs
    have hc : ¬ (r.outs.length > maxOuts) := by have := h.count; unfold maxOuts; omega
    obtain ⟨s2, hg⟩ := genStaticC_enc K hK r.outs 0 (encOutsC K 0 r.outs).length (outsList st r.outs.length) (Nat.le_refl _)
      (by have := h.count; omega) h.outs (outsList_ok _ _) (by rw [outsList_idx]; exact Nat.le_refl _)
      (by rw [outsList_cnt]; omega) (by rw [outsList_cnt]; exact outsList_pool hz _)
    have hd : ∃ r', staticDec (entC K) (r.txid ++ (putULe r.inBlock ++ (putULe (UtxoRec.outcnt r) ++ encOutsC K 0 r.outs))) st
        = .ok (r', s2) := by
      unfold staticDec
      rw [UtxoRec.decHeader_ser r h.toU]
      simp only [UtxoRec.outcnt_div, hc, ↓reduceIte, hg]
      exact ⟨_, rfl⟩
    obtain ⟨r', hd⟩ := hd
    have := staticDec_sound (entC K) _ st s2 r' hd
    rw [genRec_entC, hrt] at this
    injection this with e
    subst e
    exact ⟨s2, hd, genStatic_sized (entC K) _ _ _ s2 (outsList_sized hz _) hg⟩
  · simp at hs

/-- a sequence of records each of which the static decoder reads back (from any sized buffer state) is read back whole -/
theorem staticSeq_total (P : Parser) (rs : List URec) : ∀ (bs : List Bytes) (st : Static), Static.Sized st →
    (∀ (k : Nat) (r : URec) (b : Bytes), rs[k]? = some r → bs[k]? = some b →
      ∀ st, Static.Sized st → ∃ st', staticDec P b st = .ok (r, st') ∧ Static.Sized st') →
    bs.length = rs.length → staticSeq P bs st = some rs := by
  induction rs with
  | nil => intro bs st _ _ hl; cases bs with
    | nil => rfl
    | cons _ _ => simp at hl
  | cons r rs ih =>
    intro bs st hz hall hl
    cases bs with
    | nil => simp at hl
    | cons b bs =>
      obtain ⟨st1, hd, hz1⟩ := hall 0 r b rfl rfl st hz
      simp only [staticSeq, hd]
      rw [ih bs st1 hz1 (fun k r' b' hr hb => hall (k + 1) r' b' (by simpa using hr) (by simpa using hb)) (by simpa using hl)]
      rfl

theorem static_init_sized (n : Nat) : Static.Sized (Static.init n) := by
  unfold Static.Sized Static.init; simp

/-! ### totality of the byte-level load -/

/-- every stored record is read back by the static decoder from any sized buffer state -/
def Readable (P : Parser) (raw : List Bytes) : Prop :=
  ∀ b ∈ raw, ∀ st, Static.Sized st → ∃ r st', staticDec P b st = .ok (r, st') ∧ Static.Sized st'

theorem loadLoop_total (P : Parser) (cfg : Cfg) (H : Bytes → Nat) (tick : Nat → Bool) :
    ∀ (raw : List Bytes), Readable P raw → ∀ (n : Nat) (st : Static) (bal : BalMap), Static.Sized st →
      ∃ bal' st' a, loadLoop P cfg H tick raw n st bal = some (bal', st', a) ∧ Static.Sized st' := by
  intro raw
  induction raw with
  | nil => intro _ n st bal hz; exact ⟨bal, st, false, rfl, hz⟩
  | cons b bs ih =>
    intro hr n st bal hz
    obtain ⟨r, st1, hd, hz1⟩ := hr b (by simp) st hz
    simp only [loadLoop, hd]
    by_cases ht : tick (n + 1) = true
    · simp only [ht, ↓reduceIte]; exact ⟨_, st1, true, rfl, hz1⟩
    · simp only [ht, Bool.false_eq_true, ↓reduceIte]
      exact ih (fun b' hb' => hr b' (List.mem_cons_of_mem _ hb')) (n + 1) st1 _ hz1

theorem loadFromUtxo_total (P : Parser) (H : Bytes → Nat) (tick : Nat → Bool) (s : State) (st : Static)
    (raw : List Bytes) (mn um : Nat) (hr : Readable P raw) (hz : Static.Sized st) :
    ∃ s' st', loadFromUtxo P H tick s st raw mn um = some (s', st') ∧ Static.Sized st' := by
  unfold loadFromUtxo
  split
  · exact ⟨s, st, rfl, hz⟩
  · obtain ⟨bal, st1, a, hl, hz1⟩ := loadLoop_total P { min := mn, useMapCnt := um } H tick raw hr 0 st [] hz
    simp only [hl]
    cases a
    · exact ⟨_, st1, rfl, hz1⟩
    · exact ⟨_, st1, rfl, hz1⟩

theorem readable_of_serializedU (rs : List URec) (hwf : ∀ r ∈ rs, WFRec r) : ∀ (raw : List Bytes),
    rs.map serializeU = raw.map some → Readable entU raw := by
  induction rs with
  | nil => intro raw h; cases raw with
    | nil => intro b hb; cases hb
    | cons _ _ => simp at h
  | cons r rs ih =>
    intro raw h
    cases raw with
    | nil => simp at h
    | cons b bs =>
      simp only [List.map_cons, List.cons.injEq] at h
      intro b' hb' st hz
      rcases List.mem_cons.mp hb' with e | hm
      · subst e
        obtain ⟨st', hd, hz'⟩ := staticDecU_total r (hwf r (by simp)) b' h.1 st hz
        exact ⟨r, st', hd, hz'⟩
      · exact ih (fun r hr => hwf r (List.mem_cons_of_mem _ hr)) bs h.2 b' hm st hz

theorem readable_of_serializedC (K : ScriptCompress.KeyOps) (hK : K.Sound) (rs : List URec) (hwf : ∀ r ∈ rs, WFRecC r) :
    ∀ (raw : List Bytes), rs.map (serializeC K) = raw.map some → Readable (entC K) raw := by
  induction rs with
  | nil => intro raw h; cases raw with
    | nil => intro b hb; cases hb
    | cons _ _ => simp at h
  | cons r rs ih =>
    intro raw h
    cases raw with
    | nil => simp at h
    | cons b bs =>
      simp only [List.map_cons, List.cons.injEq] at h
      intro b' hb' st hz
      rcases List.mem_cons.mp hb' with e | hm
      · subst e
        obtain ⟨st', hd, hz'⟩ := staticDecC_total K hK r (hwf r (by simp)) b' h.1 st hz
        exact ⟨r, st', hd, hz'⟩
      · exact ih (fun r hr => hwf r (List.mem_cons_of_mem _ hr)) bs h.2 b' hm st hz

/-- serialisations of the records of the unspent set are `Stored` -/
theorem stored_of_decodes (P : Parser) (rs : List URec) : ∀ (raw : List Bytes) (u : Utxo),
    raw.map (genRec P) = rs.map Res.ok → rs.map toBal = u.map Prod.snd → Stored P raw u := by
  induction rs with
  | nil =>
    intro raw u h1 h2
    cases raw with
    | nil => cases u with
      | nil => trivial
      | cons _ _ => simp at h2
    | cons _ _ => simp at h1
  | cons r rs ih =>
    intro raw u h1 h2
    cases raw with
    | nil => simp at h1
    | cons b bs =>
      cases u with
      | nil => simp at h2
      | cons p ps =>
        simp only [List.map_cons, List.cons.injEq] at h1 h2
        exact ⟨⟨r, h1.1, h2.1⟩, ih bs ps h1.2 h2.2⟩

theorem decodes_of_serializedU (rs : List URec) (hwf : ∀ r ∈ rs, WFRec r) : ∀ (raw : List Bytes),
    rs.map serializeU = raw.map some → raw.map (genRec entU) = rs.map Res.ok := by
  induction rs with
  | nil => intro raw h; cases raw <;> simp at h ⊢
  | cons r rs ih =>
    intro raw h
    cases raw with
    | nil => simp at h
    | cons b bs =>
      simp only [List.map_cons, List.cons.injEq] at h ⊢
      exact ⟨by rw [genRec_entU]; exact UtxoRec.newRecU_serializeU r (hwf r (by simp)) b h.1,
        ih (fun r hr => hwf r (List.mem_cons_of_mem _ hr)) bs h.2⟩

theorem decodes_of_serializedC (K : ScriptCompress.KeyOps) (hK : K.Sound) (rs : List URec) (hwf : ∀ r ∈ rs, WFRecC r) :
    ∀ (raw : List Bytes), rs.map (serializeC K) = raw.map some → raw.map (genRec (entC K)) = rs.map Res.ok := by
  induction rs with
  | nil => intro raw h; cases raw <;> simp at h ⊢
  | cons r rs ih =>
    intro raw h
    cases raw with
    | nil => simp at h
    | cons b bs =>
      simp only [List.map_cons, List.cons.injEq] at h ⊢
      exact ⟨by rw [genRec_entC]; exact UtxoRec.newRecC_serializeC K hK r (hwf r (by simp)) b h.1,
        ih (fun r hr => hwf r (List.mem_cons_of_mem _ hr)) bs h.2⟩

end GocoinV.Proofs.C17Load
