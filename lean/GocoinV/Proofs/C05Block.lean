/-
  Proofs.C05Block — helper lemmas for C05: the witness / transaction tail of PostCheckBlock.
-/
import GocoinV.Model.BlockCheck
open GocoinV GocoinV.Target GocoinV.Retarget GocoinV.BlockCheck GocoinV.Gen.ConsensusConsts
namespace GocoinV.Proofs.C05

/-- the weight BuildTxListExt leaves does not depend on the value `bl.TxCount` had on entry: the base weight reads the
    counter after the `TxCount == 0` fallback (regenerated source fact), where it is the number of transactions parsed -/
theorem builtWeight_eq (c : Nat) (txs : List Tx) : builtWeight c txs = blockWeight txs := by
  have e : buildTxListReadsCountAfterFallback = true := by decide
  simp [builtWeight, blockWeight, e]

theorem nonceShapeOk_some (sw : Option (List (List Bytes))) (n : Bytes) (h : nonceShapeOk sw = some n) :
    sw = some [[n]] ∧ n.length = witnessNonceLen := by
  unfold nonceShapeOk at h
  split at h
  · split at h
    · simp at h; subst h; exact ⟨rfl, by assumption⟩
    · simp at h
  · simp at h

theorem postWitnessAndTxs_ok (h : Bytes → Bytes) (flags : Nat) (i : PostIn)
    (hr : postWitnessAndTxs h flags i = some .ok) :
    ∃ cb rest, i.txs = cb :: rest ∧
    (match (if flags &&& VER_WITNESS ≠ 0 then findCommitment cb.outs.reverse else none) with
     | some pk => ∃ nonce root, cb.segwit = some [[nonce]] ∧ nonce.length = witnessNonceLen ∧
         witnessMerkle h i.txs = some root ∧ h (root ++ nonce) = (pk.drop witnessHeader.length).take 32
     | none => i.txs.any (·.segwit.isSome) = false) ∧
    checkTransactions i.txs i.height (if flags &&& VER_CSV ≠ 0 then i.mtp else i.time) = [] := by
  cases htxs : i.txs with
  | nil => simp [postWitnessAndTxs, htxs] at hr
  | cons cb rest =>
  refine ⟨cb, rest, rfl, ?_⟩
  simp only [postWitnessAndTxs, htxs] at hr
  generalize (if flags &&& VER_CSV ≠ 0 then i.mtp else i.time) = cutoff at hr ⊢
  generalize hcm : (if flags &&& VER_WITNESS ≠ 0 then findCommitment cb.outs.reverse else none) = cm at hr ⊢
  cases cm with
  | none =>
    simp only at hr
    by_cases hany : ((cb :: rest).any fun x => x.segwit.isSome) = true
    · simp [hany] at hr
    · simp [hany] at hr
      exact ⟨by simpa using hany, by (split at hr <;> first | assumption | simp at hr)⟩
  | some pk =>
    simp only at hr
    cases hn : nonceShapeOk cb.segwit with
    | none => simp [hn] at hr
    | some nonce =>
      simp only [hn] at hr
      cases hw : witnessMerkle h (cb :: rest) with
      | none => simp [hw] at hr
      | some root =>
        simp only [hw] at hr
        by_cases heq : h (root ++ nonce) = List.take 32 (List.drop witnessHeader.length pk)
        · simp [heq] at hr
          have := nonceShapeOk_some _ _ hn
          exact ⟨⟨nonce, root, this.1, this.2, rfl, heq⟩, by (split at hr <;> first | assumption | simp at hr)⟩
        · simp [heq] at hr


theorem sum_weight (txs : List Tx) :
    (txs.map (fun t => 3 * t.noWitSize + t.size)).sum = 3 * (txs.map (·.noWitSize)).sum + (txs.map (·.size)).sum := by
  induction txs with
  | nil => rfl
  | cons t ts ih => simp only [List.map_cons, List.sum_cons, ih]; omega

/-- `List.find?` on the reversed list returns the LAST element of the list that satisfies the predicate -/
theorem find_reverse_last (p : Bytes → Bool) (l : List Bytes) (x : Bytes) (h : l.reverse.find? p = some x) :
    ∃ pre suf, l = pre ++ x :: suf ∧ p x = true ∧ ∀ y ∈ suf, p y = false := by
  obtain ⟨hp, as, bs, hl, hno⟩ := List.find?_eq_some_iff_append.mp h
  refine ⟨bs.reverse, as.reverse, ?_, hp, ?_⟩
  · have := congrArg List.reverse hl
    simpa using this
  · intro y hy
    have := hno y (List.mem_reverse.mp hy)
    simpa using this

/-- PreCheckBlock keeps the `BlockIndex` entry found under the 8-byte key of the previous-block field only if the
    entry's WHOLE hash is that field (needs the regenerated fact `parentHashCompared = true`) -/
theorem parentOf_some (i : PreIn) (ch : List Node) (h : parentOf i = some ch) :
    i.parent = some (i.parentHash, ch) := by
  unfold parentOf at h
  split at h
  · simp at h
  · rename_i ph ch' hp
    have hc : parentHashCompared = true := by decide
    simp only [hc, Bool.true_and] at h
    split at h
    · simp at h
    · rename_i hne
      simp only [Option.some.injEq] at h
      subst h
      have : ph = i.parentHash := by simpa using hne
      rw [hp, this]

/-- the result code `"ok"` is PreCheckBlock's success only -/
theorem preErr_code_ok {e : PreErr} (h : e.code = "ok") : e = .ok := by
  cases e <;> first | rfl | (exact absurd h (by decide))

/-- the result code `"ok"` is PostCheckBlock's success only -/
theorem postErr_code_ok {e : PostErr} (h : e.code = "ok") : e = .ok := by
  cases e with
  | tx es =>
    exfalso
    simp only [PostErr.code] at h
    have := congrArg String.length h
    rw [String.length_append] at this
    have h3 : ("tx:" : String).length = 3 := by decide
    have h2 : ("ok" : String).length = 2 := by decide
    omega
  | ok => rfl
  | _ => exact absurd h (by decide)

/-- an int32 is at least -2^31 -/
theorem signedVersion_ge (ver : Nat) : signedVersion ver ≥ -2^31 := by
  unfold signedVersion
  dsimp only
  split <;> omega

/-- the version-gating disjunction of PreCheckBlock, as a proposition -/
theorem versionRejected_false_iff (c : Consensus) (ver height : Nat) : versionRejected c ver height = false ↔
    ¬ (signedVersion ver < 2 ∧ height ≥ c.bip34Height) ∧ ¬ (signedVersion ver < 3 ∧ height ≥ c.bip66Height) ∧
    ¬ (signedVersion ver < 4 ∧ height ≥ c.bip65Height) := by
  have e1 : (minVersion_BIP34Height : Int) = 2 := by decide
  have e2 : (minVersion_BIP66Height : Int) = 3 := by decide
  have e3 : (minVersion_BIP65Height : Int) = 4 := by decide
  simp only [versionRejected, Bool.or_eq_false_iff, Bool.and_eq_false_iff, decide_eq_false_iff_not, e1, e2, e3]
  constructor
  · rintro ⟨⟨a, b⟩, d⟩
    exact ⟨fun h => by rcases a with a | a; exact a h.1; exact a h.2, fun h => by rcases b with b | b; exact b h.1; exact b h.2,
           fun h => by rcases d with d | d; exact d h.1; exact d h.2⟩
  · rintro ⟨a, b, d⟩
    refine ⟨⟨?_, ?_⟩, ?_⟩
    · by_cases h : signedVersion ver < 2
      · right; exact fun g => a ⟨h, g⟩
      · left; exact h
    · by_cases h : signedVersion ver < 3
      · right; exact fun g => b ⟨h, g⟩
      · left; exact h
    · by_cases h : signedVersion ver < 4
      · right; exact fun g => d ⟨h, g⟩
      · left; exact h

/-- a node number whose ancestor list is not empty is a node of the tree -/
theorem chain_ne_nil_lt {U : Type} (cs : ChainSt U) (n : Nat) (h : cs.chain n ≠ []) : n < cs.nodes.size := by
  unfold ChainSt.chain chainOf at h
  by_cases hlt : n < cs.nodes.size
  · exact hlt
  · exfalso
    apply h
    have hn : ¬ ((n : Int) < 0) := by omega
    simp only [hn, if_false, Int.toNat_natCast]
    have : cs.nodes[n]? = none := by
      rw [Array.getElem?_eq_none_iff]; omega
    rw [this]

/-- GetBlockFlags over six Booleans (one per rule), for the finite case analysis of `getBlockFlags_spec` -/
def flagsB (b1 b2 b3 b4 b5 b6 : Bool) : Nat :=
  let f := if b1 then VER_P2SH else 0
  let f := if b2 then f ||| VER_DERSIG else f
  let f := if b3 then f ||| VER_CLTV else f
  let f := if b4 then f ||| VER_CSV else f
  let f := if b5 then f ||| (VER_WITNESS ||| VER_NULLDUMMY) else f
  if b6 then f ||| VER_TAPROOT else f

theorem getBlockFlags_eq_flagsB (c : Consensus) (height time : Nat) :
    getBlockFlags c height time =
      flagsB (decide (time = 0 ∨ time ≥ BIP16SwitchTime)) (decide (height ≥ c.bip66Height)) (decide (height ≥ c.bip65Height))
        (decide (c.enforceCSV ≠ 0 ∧ height ≥ c.enforceCSV)) (decide (c.enforceSegwit ≠ 0 ∧ height ≥ c.enforceSegwit))
        (decide (c.enforceTaproot ≠ 0 ∧ height ≥ c.enforceTaproot)) := by
  unfold getBlockFlags flagsB
  simp only [decide_eq_true_eq]

theorem flagsB_spec : ∀ b1 b2 b3 b4 b5 b6 : Bool,
    (flagsB b1 b2 b3 b4 b5 b6 &&& VER_P2SH ≠ 0 ↔ b1 = true) ∧ (flagsB b1 b2 b3 b4 b5 b6 &&& VER_DERSIG ≠ 0 ↔ b2 = true) ∧
    (flagsB b1 b2 b3 b4 b5 b6 &&& VER_CLTV ≠ 0 ↔ b3 = true) ∧ (flagsB b1 b2 b3 b4 b5 b6 &&& VER_CSV ≠ 0 ↔ b4 = true) ∧
    (flagsB b1 b2 b3 b4 b5 b6 &&& VER_WITNESS ≠ 0 ↔ b5 = true) ∧ (flagsB b1 b2 b3 b4 b5 b6 &&& VER_NULLDUMMY ≠ 0 ↔ b5 = true) ∧
    (flagsB b1 b2 b3 b4 b5 b6 &&& VER_TAPROOT ≠ 0 ↔ b6 = true) := by
  decide


end GocoinV.Proofs.C05
