/-
  Proofs.C10RecC — helper lemmas for the compressed record format.
-/
import GocoinV.Proofs.C10Rec
import GocoinV.Proofs.C10Script
import GocoinV.Proofs.C10Amount
namespace GocoinV.UtxoRec
open GocoinV.CompactSize GocoinV.ScriptCompress

theorem vule_small (t : UInt8) (h : t.toNat < 0xfd) (rest : Bytes) : vule (t :: rest) = (t.toNat, 1) := by
  have hne : ∀ k : UInt8, 0xfd ≤ k.toNat → t ≠ k := by
    intro k hk hc; rw [hc] at h; omega
  have a := hne 0xfd (by decide)
  have b := hne 0xfe (by decide)
  have c := hne 0xff (by decide)
  simp only [vule, a, b, c, ↓reduceIte]

theorem vlen_small (t : UInt8) (h : t.toNat < 0xfd) (rest : Bytes) :
    vlen (t :: rest) = ((t.toNat : Int), 1) := by
  unfold vlen
  rw [vule_small t h rest]
  simp [toInt64_small t.toNat (by omega)]

/-- the script field of a compressed record is read back exactly (both the special forms and the
    `6+len` form), whatever follows it -/
theorem decScrC_enc (K : KeyOps) (hK : K.Sound) (pk rest : Bytes) (hl : pk.length + 6 < 2 ^ 63) :
    decScrC K (encScrC K pk ++ rest) = some (pk, rest) := by
  unfold encScrC
  cases hc : compress K pk with
  | some c =>
    obtain ⟨t, tl, rfl, ht, hlen⟩ := compress_shape K pk c hc
    have hdec := decompress_compress K hK pk _ hc
    simp only
    unfold decScrC
    rw [List.cons_append, vlen_small t (by omega)]
    have h1 : ((t.toNat : Int) < 6) := by omega
    have h2 : ¬ ((t.toNat : Int) < 0) := by omega
    simp only [h1, h2, ↓reduceIte, Int.toNat_natCast, ← hlen]
    have h3 : shorter (t :: (tl ++ rest)) (t :: tl).length = false :=
      shorter_eq_false _ _ (by simp)
    have h4 : (t :: (tl ++ rest)).take (t :: tl).length = t :: tl := by
      rw [← List.cons_append]; simp
    have h5 : (t :: (tl ++ rest)).drop (t :: tl).length = rest := by
      rw [← List.cons_append]; simp
    simp only [h3, Bool.false_eq_true, ↓reduceIte, h4, hdec, h5]
  | none =>
    simp only
    unfold decScrC
    rw [List.append_assoc, vlen_putULe (6 + pk.length) (by omega)]
    have h1 : ¬ (((6 + pk.length : Nat) : Int) < 6) := by omega
    have h3 : shorter (pk ++ rest) pk.length = false := shorter_eq_false _ _ (by simp)
    simp only [h1, ↓reduceIte, drop_putULe, Int.toNat_natCast, Nat.add_sub_cancel_left, h3,
      Bool.false_eq_true]
    simp


theorem skipScrC_enc (K : KeyOps) (pk rest : Bytes) (hl : pk.length + 6 < 2 ^ 63) :
    skipScrC (encScrC K pk ++ rest) = some rest := by
  unfold encScrC
  cases hc : compress K pk with
  | some c =>
    obtain ⟨t, tl, rfl, ht, hlen⟩ := compress_shape K pk c hc
    simp only
    unfold skipScrC
    rw [List.cons_append, vlen_small t (by omega)]
    have h1 : ((t.toNat : Int) < 6) := by omega
    have h2 : ¬ ((t.toNat : Int) < 0) := by omega
    simp only [h1, h2, ↓reduceIte, Int.toNat_natCast, ← hlen]
    have h5 : (t :: (tl ++ rest)).drop (t :: tl).length = rest := by
      rw [← List.cons_append]; simp
    rw [h5]
  | none =>
    simp only
    unfold skipScrC
    rw [List.append_assoc, vlen_putULe (6 + pk.length) (by omega)]
    have h1 : ¬ (((6 + pk.length : Nat) : Int) < 6) := by omega
    simp only [h1, ↓reduceIte, drop_putULe, Int.toNat_natCast, Nat.add_sub_cancel_left]
    simp

/-- well-formedness for the compressed format: the amount is one `CompressAmount` does not wrap on -/
def WFOutC (o : Out) : Prop :=
  o.value < 2 ^ 64 ∧ AmountCompress.compressExact o.value < 2 ^ 64 ∧ o.pk.length + 6 < 2 ^ 63

def WFOutsC (outs : List (Option Out)) : Prop := ∀ o ∈ outs, ∀ x, o = some x → WFOutC x

theorem amount_rt (v : Nat) (hv : v < 2 ^ 64) (hc : AmountCompress.compressExact v < 2 ^ 64) :
    AmountCompress.compress v < 2 ^ 64 ∧
      AmountCompress.decompress (AmountCompress.compress v) = v := by
  have e : (2 : Nat) ^ 64 = AmountCompress.U64 := by decide
  rw [e] at hv hc ⊢
  rw [AmountCompress.compress_eq_exact v hc]
  exact ⟨hc, AmountCompress.decompress_compressExact v hv⟩

theorem decOutsC_step (K : KeyOps) (hK : K.Sound) (f i : Nat) (o : Out) (rest : Bytes)
    (acc : List (Option Out)) (hi : i < 2 ^ 64) (ho : WFOutC o) (hacc : i < acc.length) :
    decOutsC K (f + 1)
        (putULe i ++ (putULe (AmountCompress.compress o.value) ++ (encScrC K o.pk ++ rest))) acc
      = decOutsC K f rest (acc.set i (some o)) := by
  obtain ⟨hv, hc, hl⟩ := ho
  obtain ⟨hcv, hrt⟩ := amount_rt o.value hv hc
  rw [decOutsC]
  have hne : (putULe i ++ (putULe (AmountCompress.compress o.value) ++ (encScrC K o.pk ++ rest))).isEmpty = false := by
    have := putULe_ne_nil i
    cases h : putULe i with
    | nil => exact absurd h this
    | cons a t => simp
  simp only [hne, Bool.false_eq_true, ↓reduceIte, vule_putULe i hi, drop_putULe,
    vule_putULe _ hcv, shorter_eq_false acc (i + 1) (by omega), decScrC_enc K hK o.pk rest hl, hrt]

theorem decOutsC_nil (K : KeyOps) (f : Nat) (acc : List (Option Out)) :
    decOutsC K f [] acc = .ok acc := by
  cases f <;> simp [decOutsC]

theorem encScrC_length_pos (K : KeyOps) (pk : Bytes) : 0 < (encScrC K pk).length := by
  unfold encScrC
  cases hc : compress K pk with
  | some c =>
    obtain ⟨t, tl, rfl, _, _⟩ := compress_shape K pk c hc
    simp
  | none => simp [putULe_length]; have := vlenSize_pos (6 + pk.length); omega

theorem decOutsC_enc (K : KeyOps) (hK : K.Sound) (suf : List (Option Out)) :
    ∀ (pre : List (Option Out)) (fuel : Nat),
    (encOutsC K pre.length suf).length ≤ fuel → pre.length + suf.length < 2 ^ 64 → WFOutsC suf →
    decOutsC K fuel (encOutsC K pre.length suf) (pre ++ List.replicate suf.length none)
      = .ok (pre ++ suf) := by
  induction suf with
  | nil => intro pre fuel _ _ _; simp [encOutsC, decOutsC_nil]
  | cons o t ih =>
    intro pre fuel hf hlen hwf
    have hwt : WFOutsC t := fun o ho x hx => hwf o (List.mem_cons_of_mem _ ho) x hx
    cases o with
    | none =>
      have := ih (pre ++ [none]) fuel (by simpa [encOutsC] using hf) (by simp at hlen ⊢; omega) hwt
      simpa [encOutsC, List.replicate_succ] using this
    | some x =>
      have hx := hwf (some x) (by simp) x rfl
      simp only [encOutsC] at hf ⊢
      cases fuel with
      | zero =>
        have := vlenSize_pos pre.length
        simp [putULe_length] at hf; omega
      | succ f =>
        rw [decOutsC_step K hK f pre.length x _ _ (by simp at hlen; omega) hx (by simp)]
        have := ih (pre ++ [some x]) f
          (by simp [putULe_length] at hf ⊢; have := vlenSize_pos pre.length; omega)
          (by simp at hlen ⊢; omega) hwt
        simpa [List.replicate_succ] using this

structure WFRecC (r : Rec) : Prop where
  txid : r.txid.length = 32
  height : r.inBlock < 2 ^ 32
  count : r.outs.length < 2 ^ 32
  outs : WFOutsC r.outs

theorem WFRecC.toU {r : Rec} (h : WFRecC r) : WFRec r :=
  ⟨h.txid, h.height, h.count, fun o ho x hx => by
    obtain ⟨a, _, c⟩ := h.outs o ho x hx
    exact ⟨a, by omega⟩⟩

theorem newRecC_serializeC (K : KeyOps) (hK : K.Sound) (r : Rec) (h : WFRecC r) (b : Bytes)
    (hs : serializeC K r = some b) : newRecC K b = .ok r := by
  unfold serializeC at hs
  split at hs
  · injection hs with hs; subst hs
    unfold newRecC
    rw [decHeader_ser r h.toU]
    have hc : ¬ (r.outs.length > maxOuts) := by have := h.count; unfold maxOuts; omega
    have hmax : r.outs.length + 0 < 2 ^ 64 := by have := h.count; omega
    have := decOutsC_enc K hK r.outs [] (encOutsC K 0 r.outs).length (by simp) (by simpa using hmax) h.outs
    simp only [List.length_nil, List.nil_append] at this
    simp only [outcnt_div, hc, ↓reduceIte, this, outcnt_mod, Nat.mod_eq_of_lt h.height]
  · simp at hs


/-! ### single-output lookup, compressed format -/

theorem scanC_nil (K : KeyOps) (vout f : Nat) : scanC K vout f [] = .nil := by
  cases f <;> simp [scanC]

theorem scanC_step (K : KeyOps) (hK : K.Sound) (vout f i : Nat) (o : Out) (rest : Bytes)
    (hi : i < 2 ^ 32) (ho : WFOutC o) :
    scanC K vout (f + 1)
        (putULe i ++ (putULe (AmountCompress.compress o.value) ++ (encScrC K o.pk ++ rest)))
      = if i > vout then .nil else if i = vout then .found o.value o.pk else scanC K vout f rest := by
  obtain ⟨hv, hc, hl⟩ := ho
  obtain ⟨hcv, hrt⟩ := amount_rt o.value hv hc
  rw [scanC]
  have hne : (putULe i ++ (putULe (AmountCompress.compress o.value) ++ (encScrC K o.pk ++ rest))).isEmpty = false := by
    have := putULe_ne_nil i
    cases h : putULe i with
    | nil => exact absurd h this
    | cons a t => simp
  simp only [hne, Bool.false_eq_true, ↓reduceIte, vule_putULe i (by omega), drop_putULe,
    vule_putULe _ hcv, Nat.mod_eq_of_lt hi, decScrC_enc K hK o.pk rest hl,
    skipScrC_enc K o.pk rest hl, hrt]
  simp

theorem scanC_gt (K : KeyOps) (hK : K.Sound) (suf : List (Option Out)) : ∀ (i vout fuel : Nat),
    (encOutsC K i suf).length ≤ fuel → i + suf.length < 2 ^ 32 → WFOutsC suf → vout < i →
    scanC K vout fuel (encOutsC K i suf) = .nil := by
  induction suf with
  | nil => intro i vout fuel _ _ _ _; simp [encOutsC, scanC_nil]
  | cons o t ih =>
    intro i vout fuel hf hlen hwf hlt
    have hwt : WFOutsC t := fun o ho x hx => hwf o (List.mem_cons_of_mem _ ho) x hx
    cases o with
    | none =>
      simp only [encOutsC] at hf ⊢
      exact ih (i + 1) vout fuel hf (by simp at hlen; omega) hwt (by omega)
    | some x =>
      have hx := hwf (some x) (by simp) x rfl
      simp only [encOutsC] at hf ⊢
      cases fuel with
      | zero => have := vlenSize_pos i; simp [putULe_length] at hf; omega
      | succ f =>
        rw [scanC_step K hK vout f i x _ (by simp at hlen; omega) hx]
        simp [hlt]

theorem scanC_enc (K : KeyOps) (hK : K.Sound) (suf : List (Option Out)) : ∀ (i vout fuel : Nat),
    (encOutsC K i suf).length ≤ fuel → i + suf.length < 2 ^ 32 → WFOutsC suf → i ≤ vout →
    scanC K vout fuel (encOutsC K i suf) =
      match suf.getD (vout - i) none with
      | some o => .found o.value o.pk
      | none => .nil := by
  induction suf with
  | nil => intro i vout fuel _ _ _ _; simp [encOutsC, scanC_nil]
  | cons o t ih =>
    intro i vout fuel hf hlen hwf hle
    have hwt : WFOutsC t := fun o ho x hx => hwf o (List.mem_cons_of_mem _ ho) x hx
    by_cases heq : vout = i
    · subst heq
      cases o with
      | none =>
        simp only [encOutsC] at hf ⊢
        rw [scanC_gt K hK t (vout + 1) vout fuel hf (by simp at hlen; omega) hwt (by omega)]
        simp
      | some x =>
        have hx := hwf (some x) (by simp) x rfl
        simp only [encOutsC] at hf ⊢
        cases fuel with
        | zero => have := vlenSize_pos vout; simp [putULe_length] at hf; omega
        | succ f =>
          rw [scanC_step K hK vout f vout x _ (by simp at hlen; omega) hx]
          simp
    · have hlt : i < vout := by omega
      have hsub : vout - i = (vout - (i + 1)) + 1 := by omega
      cases o with
      | none =>
        simp only [encOutsC] at hf ⊢
        rw [ih (i + 1) vout fuel hf (by simp at hlen; omega) hwt (by omega), hsub]
        simp
      | some x =>
        have hx := hwf (some x) (by simp) x rfl
        simp only [encOutsC] at hf ⊢
        cases fuel with
        | zero => have := vlenSize_pos i; simp [putULe_length] at hf; omega
        | succ f =>
          rw [scanC_step K hK vout f i x _ (by simp at hlen; omega) hx]
          have h1 : ¬ i > vout := by omega
          have h2 : ¬ i = vout := by omega
          simp only [h1, h2, ↓reduceIte]
          rw [ih (i + 1) vout f
            (by simp [putULe_length] at hf ⊢; have := vlenSize_pos i; omega)
            (by simp at hlen; omega) hwt (by omega), hsub]
          simp

theorem oneC_serializeC (K : KeyOps) (hK : K.Sound) (r : Rec) (h : WFRecC r) (b : Bytes)
    (hs : serializeC K r = some b) (vout : Nat) : oneC K b vout = .ok (outOf r vout) := by
  unfold serializeC at hs
  split at hs
  · injection hs with hs; subst hs
    unfold oneC
    rw [decHeader_ser r h.toU]
    have hcnt := h.count
    simp only [outcnt_div, Nat.mod_eq_of_lt hcnt, outcnt_mod, Nat.mod_eq_of_lt h.height]
    by_cases hv : r.outs.length ≤ vout
    · simp only [hv, ↓reduceIte, outOf]
      simp [List.getD, List.getElem?_eq_none hv]
    · simp only [hv, ↓reduceIte]
      rw [scanC_enc K hK r.outs 0 vout _ (Nat.le_refl _) (by omega) h.outs (Nat.zero_le _)]
      simp only [Nat.sub_zero, outOf]
      cases r.outs.getD vout none <;> simp
  · simp at hs

end GocoinV.UtxoRec
