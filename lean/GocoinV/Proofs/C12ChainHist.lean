/-
  Proofs.C12ChainHist — block validity on the model's chain simulation, the connect fold under a valid block, and the
  chain-side history invariant (helper lemmas for Proofs/C12Chain).  Core Lean only.
-/
import GocoinV.Proofs.C12ChainFold
namespace GocoinV.Mempool

/-- a confirmed set, read pointwise -/
abbrev CSet := OutPoint → Option Coin

/-! ### `BlockOK` -/

theorem BlockOK.congr : ∀ (l : List Tx) (a b : OutPoint → Prop), (∀ o, a o ↔ b o) → BlockOK a l → BlockOK b l := by
  intro l
  induction l with
  | nil => intro a b _ _; trivial
  | cons t r ih =>
    intro a b hab h
    obtain ⟨h1, h2, h3⟩ := h
    refine ⟨h1, fun o ho => (hab o).mp (h2 o ho), ?_⟩
    apply ih _ _ _ h3
    intro o
    rw [hab o]

/-- what a valid block body spends was available before the block or is made by the block -/
theorem BlockOK.avail_of_spent : ∀ (l : List Tx) (a : OutPoint → Prop), BlockOK a l → ∀ o, spentBy l o →
    a o ∨ createdBy l o := by
  intro l
  induction l with
  | nil => intro a _ o h; exact absurd h (spentBy_nil o)
  | cons t r ih =>
    intro a h o hs
    obtain ⟨_, h2, h3⟩ := h
    rcases (spentBy_cons t r o).mp hs with h1 | h1
    · exact Or.inl (h2 o h1)
    · rcases ih _ h3 o h1 with (⟨ha, _⟩ | hc) | hc
      · exact Or.inl ha
      · exact Or.inr ((createdBy_cons t r o).mpr (Or.inl hc))
      · exact Or.inr ((createdBy_cons t r o).mpr (Or.inr hc))

theorem BlockOK.nodup : ∀ (l : List Tx) (a : OutPoint → Prop), BlockOK a l → ∀ t ∈ l, t.inOps.Nodup := by
  intro l
  induction l with
  | nil => intro a _ t ht; cases ht
  | cons x r ih =>
    intro a h t ht
    rcases List.mem_cons.mp ht with e | e
    · rw [e]; exact h.1
    · exact ih _ h.2.2 t e

/-! ### the connect fold under a valid block body -/

/-- the result of folding `connTx` over a block body `R` that is input-available (`BlockOK`) on the current set, whose
    txids are pairwise different and have no output in the current set -/
structure ConnPost (h : Nat) (acc r : UT × SC) (R : List Tx) : Prop where
  spent : ∀ o, spentBy R o → r.1.get? o = none
  made : ∀ o, ¬ spentBy R o → createdBy R o →
    ∃ t ∈ R, o.1 = t.id ∧ o.2 < t.outs.length ∧ r.1.get? o = some ⟨t.outs.getD o.2 0, h, false⟩
  kept : ∀ o, ¬ spentBy R o → ¬ createdBy R o → r.1.get? o = acc.1.get? o
  scSound : ∀ p ∈ r.2, p ∈ acc.2 ∨ (spentBy R p.1 ∧ (acc.1.get? p.1 = some p.2 ∨ createdBy R p.1))
  scCompl : ∀ o c, spentBy R o → acc.1.get? o = some c → (o, c) ∈ r.2
  scMono : ∀ p ∈ acc.2, p ∈ r.2

theorem connFold_post (h : Nat) : ∀ (R : List Tx) (acc : UT × SC),
    BlockOK (fun o => (acc.1.get? o).isSome = true) R →
    R.Pairwise (fun a b => a.id ≠ b.id) →
    (∀ t ∈ R, ∀ v, acc.1.get? (t.id, v) = none) →
    ConnPost h acc (R.foldl (connTx h) acc) R := by
  intro R
  induction R with
  | nil =>
    intro acc _ _ _
    exact ⟨fun o hs => absurd hs (spentBy_nil o), fun o _ hc => absurd hc (createdBy_nil o), fun _ _ _ => rfl,
      fun p hp => Or.inl hp, fun o c hs _ => absurd hs (spentBy_nil o), fun p hp => hp⟩
  | cons t r ih =>
    intro acc hok hid hfr
    obtain ⟨_, hav, hok'⟩ := hok
    simp only [List.foldl_cons]
    have hfrt : ∀ v, acc.1.get? (t.id, v) = none := hfr t List.mem_cons_self
    -- the transaction's own outputs are not among its inputs
    have hself : ∀ o, o.1 = t.id ∧ o.2 < t.outs.length → o ∉ t.inOps := by
      intro o ho hin
      have : (acc.1.get? o).isSome = true := hav o hin
      have e : o = (t.id, o.2) := by obtain ⟨x, y⟩ := o; simp only at ho ⊢; rw [ho.1]
      rw [e, hfrt] at this
      cases this
    have hid' := (List.pairwise_cons.mp hid)
    -- the hypotheses for the rest of the block on the set after `t`
    have ihr := ih (connTx h acc t)
      (by
        apply BlockOK.congr r _ _ _ hok'
        intro o
        rw [connTx_get]
        unfold Tx.creates
        by_cases e1 : o.1 = t.id ∧ o.2 < t.outs.length
        · simp [e1]
        · by_cases e2 : o ∈ t.inOps
          · simp [e1, e2]
          · simp [e1, e2])
      hid'.2
      (by
        intro t' ht' v
        rw [connTx_get]
        have hne : ¬ ((t'.id, v).1 = t.id ∧ (t'.id, v).2 < t.outs.length) := fun e => hid'.1 t' ht' e.1.symm
        rw [if_neg hne]
        split
        · rfl
        · exact hfr t' (List.mem_cons_of_mem _ ht') v)
    -- nothing made by the whole block is in the set before the block
    have hnew : ∀ o, createdBy (t :: r) o → acc.1.get? o = none := by
      rintro o ⟨t', ht', e1, _⟩
      have e : o = (t'.id, o.2) := by obtain ⟨x, y⟩ := o; simp only at e1 ⊢; rw [e1]
      rw [e]; exact hfr t' ht' o.2
    refine ⟨?_, ?_, ?_, ?_, ?_, ?_⟩
    · intro o hs
      by_cases hsr : spentBy r o
      · exact ihr.spent o hsr
      · have hin : o ∈ t.inOps := by
          rcases (spentBy_cons t r o).mp hs with h1 | h1
          · exact h1
          · exact absurd h1 hsr
        have hsome : (acc.1.get? o).isSome = true := hav o hin
        have hnc : ¬ createdBy (t :: r) o := by
          intro hc
          rw [hnew o hc] at hsome; cases hsome
        have hncr : ¬ createdBy r o := fun hc => hnc ((createdBy_cons t r o).mpr (Or.inr hc))
        have hnct : ¬ (o.1 = t.id ∧ o.2 < t.outs.length) := fun hc => hnc ((createdBy_cons t r o).mpr (Or.inl hc))
        rw [ihr.kept o hsr hncr, connTx_get, if_neg hnct, if_pos hin]
    · intro o hs hc
      have hsr : ¬ spentBy r o := fun x => hs ((spentBy_cons t r o).mpr (Or.inr x))
      by_cases hcr : createdBy r o
      · obtain ⟨t', ht', x⟩ := ihr.made o hsr hcr
        exact ⟨t', List.mem_cons_of_mem _ ht', x⟩
      · have hct : o.1 = t.id ∧ o.2 < t.outs.length := by
          rcases (createdBy_cons t r o).mp hc with h1 | h1
          · exact h1
          · exact absurd h1 hcr
        refine ⟨t, List.mem_cons_self, hct.1, hct.2, ?_⟩
        rw [ihr.kept o hsr hcr, connTx_get, if_pos hct]
    · intro o hs hc
      have hsr : ¬ spentBy r o := fun x => hs ((spentBy_cons t r o).mpr (Or.inr x))
      have hin : o ∉ t.inOps := fun x => hs ((spentBy_cons t r o).mpr (Or.inl x))
      have hcr : ¬ createdBy r o := fun x => hc ((createdBy_cons t r o).mpr (Or.inr x))
      have hct : ¬ (o.1 = t.id ∧ o.2 < t.outs.length) := fun x => hc ((createdBy_cons t r o).mpr (Or.inl x))
      rw [ihr.kept o hsr hcr, connTx_get, if_neg hct, if_neg hin]
    · intro p hp
      rcases ihr.scSound p hp with h1 | ⟨h1, h2⟩
      · rcases (connTx_mem h acc t p).mp h1 with h3 | ⟨h3, h4⟩
        · exact Or.inl h3
        · exact Or.inr ⟨(spentBy_cons t r p.1).mpr (Or.inl h3), Or.inl h4⟩
      · refine Or.inr ⟨(spentBy_cons t r p.1).mpr (Or.inr h1), ?_⟩
        rcases h2 with h2 | h2
        · rw [connTx_get] at h2
          by_cases hct : p.1.1 = t.id ∧ p.1.2 < t.outs.length
          · exact Or.inr ((createdBy_cons t r p.1).mpr (Or.inl hct))
          · rw [if_neg hct] at h2
            split at h2
            · cases h2
            · exact Or.inl h2
        · exact Or.inr ((createdBy_cons t r p.1).mpr (Or.inr h2))
    · intro o c hs hg
      by_cases hin : o ∈ t.inOps
      · exact ihr.scMono _ ((connTx_mem h acc t (o, c)).mpr (Or.inr ⟨hin, hg⟩))
      · have hsr : spentBy r o := by
          rcases (spentBy_cons t r o).mp hs with h1 | h1
          · exact absurd h1 hin
          · exact h1
        apply ihr.scCompl o c hsr
        have hct : ¬ (o.1 = t.id ∧ o.2 < t.outs.length) := by
          intro x
          rw [hnew o ((createdBy_cons t r o).mpr (Or.inl x))] at hg; cases hg
        rw [connTx_get, if_neg hct, if_neg hin]
        exact hg
    · intro p hp
      exact ihr.scMono p ((connTx_mem h acc t p).mpr (Or.inl hp))

/-! ### block validity and the history invariant -/

/-- block validity against a confirmed set `f` under the stack `st` of connected blocks: going through the body in
    order every input is available — unspent in `f` or made by an earlier transaction of the body — and is consumed by
    its use, no transaction names an outpoint twice (`BlockOK`, the input part of lib/chain commitTxs); the txids of
    the body are new (BIP30/BIP34) and pairwise different -/
def BlockValidF (u0 : UT) (f : CSet) (st : UndoStack) (txs : List Tx) : Prop :=
  BlockOK (fun o => (f o).isSome = true) txs ∧ (∀ t ∈ txs, ¬ Conf u0 st t.id) ∧
  txs.Pairwise (fun a b => a.id ≠ b.id)

/-- block validity in a state of the model: a predicate on the block body, `s.utxo` and `s.undo` only -/
def BlockValid (u0 : UT) (s : State) (txs : List Tx) : Prop :=
  BlockOK (inU s) txs ∧ (∀ t ∈ txs, ¬ Conf u0 s.undo t.id) ∧ txs.Pairwise (fun a b => a.id ≠ b.id)

theorem BlockValid_iff (u0 : UT) (s : State) (txs : List Tx) :
    BlockValid u0 s txs ↔ BlockValidF u0 (fun o => s.utxo.get? o) s.undo txs := Iff.rfl

/-- the confirmed set `g` and the stack entry `(txs, sc)` are what connecting the valid body `txs` on the confirmed set
    `f` (stack `rest`) leaves -/
structure Linked (u0 : UT) (ν : OutPoint → Nat) (f g : CSet) (rest : UndoStack) (txs : List Tx) (sc : SC) : Prop where
  valid : BlockValidF u0 f rest txs
  nu : ∀ t ∈ txs, ∀ v, ν (t.id, v) = t.outs.getD v 0
  spent : ∀ o, spentBy txs o → g o = none
  made : ∀ o, ¬ spentBy txs o → createdBy txs o → ∃ c, g o = some c ∧ c.value = ν o
  kept : ∀ o, ¬ spentBy txs o → ¬ createdBy txs o → g o = f o
  scSound : ∀ p ∈ sc, spentBy txs p.1 ∧ (f p.1 = some p.2 ∨ createdBy txs p.1)
  scCompl : ∀ o c, spentBy txs o → f o = some c → (o, c) ∈ sc

/-- the history invariant of the chain side: the confirmed set is the initial set `u0` after connecting, one after the
    other, the valid bodies on the stack, and every stack entry records exactly the coins its body took from the
    confirmed set before it (and possibly coins the body made itself) -/
def Hist (u0 : UT) (ν : OutPoint → Nat) : UndoStack → CSet → Prop
  | [], g => (∀ o, g o = u0.get? o) ∧ ∀ o c, u0.get? o = some c → c.value = ν o
  | (txs, sc) :: rest, g => ∃ f, Hist u0 ν rest f ∧ Linked u0 ν f g rest txs sc

/-- `ChainOK`, read pointwise -/
structure FOK (u0 : UT) (ν : OutPoint → Nat) (st : UndoStack) (g : CSet) : Prop where
  c1 : ∀ e ∈ st, ∀ X ∈ e.1, ∀ i ∈ X.ins, g (i.prev, i.vout) = none
  c2 : ∀ e ∈ st, ∀ X ∈ e.1, ∀ i ∈ X.ins, Conf u0 st i.prev
  c3 : ∀ o c, g o = some c → Conf u0 st o.1
  val : ∀ o c, g o = some c → c.value = ν o
  nd : ∀ e ∈ st, ∀ X ∈ e.1, X.inOps.Nodup

theorem Conf.push {u0 : UT} {st : UndoStack} {id : TxId} (e : List Tx × SC) (h : Conf u0 st id) :
    Conf u0 (e :: st) id := by
  rcases h with h | ⟨e', he', x⟩
  · exact Or.inl h
  · exact Or.inr ⟨e', List.mem_cons_of_mem _ he', x⟩

theorem Conf.top {u0 : UT} {st : UndoStack} {txs : List Tx} {sc : SC} {X : Tx} (h : X ∈ txs) :
    Conf u0 ((txs, sc) :: st) X.id :=
  Or.inr ⟨(txs, sc), List.mem_cons_self, X, h, rfl⟩

/-- no outpoint under a txid of a valid body is in the confirmed set before it -/
theorem fresh_ids {u0 : UT} {ν : OutPoint → Nat} {rest : UndoStack} {f : CSet} {txs : List Tx}
    (hf : FOK u0 ν rest f) (hv : BlockValidF u0 f rest txs) : ∀ t ∈ txs, ∀ v, f (t.id, v) = none := by
  intro t ht v
  cases hx : f (t.id, v) with
  | none => rfl
  | some c => exact absurd (hf.c3 _ c hx) (hv.2.1 t ht)

/-- nothing a valid body makes is in the confirmed set before it -/
theorem fresh_of_valid {u0 : UT} {ν : OutPoint → Nat} {rest : UndoStack} {f : CSet} {txs : List Tx}
    (hf : FOK u0 ν rest f) (hv : BlockValidF u0 f rest txs) : ∀ o, createdBy txs o → f o = none := by
  rintro o ⟨t, ht, e1, _⟩
  have e : o = (t.id, o.2) := by obtain ⟨x, y⟩ := o; simp only at e1 ⊢; rw [e1]
  rw [e]; exact fresh_ids hf hv t ht o.2

theorem FOK.of_linked {u0 : UT} {ν : OutPoint → Nat} {rest : UndoStack} {f g : CSet} {txs : List Tx} {sc : SC}
    (hf : FOK u0 ν rest f) (l : Linked u0 ν f g rest txs sc) : FOK u0 ν ((txs, sc) :: rest) g := by
  refine ⟨?_, ?_, ?_, ?_, ?_⟩
  · intro e he X hX i hi
    by_cases hs : spentBy txs (i.prev, i.vout)
    · exact l.spent _ hs
    · rcases List.mem_cons.mp he with e1 | e1
      · exact absurd ⟨X, by rw [e1] at hX; exact hX, i, hi, rfl⟩ hs
      · have hc : ¬ createdBy txs (i.prev, i.vout) := by
          rintro ⟨t, ht, e2, _⟩
          have := hf.c2 e e1 X hX i hi
          simp only at e2
          rw [e2] at this
          exact l.valid.2.1 t ht this
        rw [l.kept _ hs hc]
        exact hf.c1 e e1 X hX i hi
  · intro e he X hX i hi
    rcases List.mem_cons.mp he with e1 | e1
    · rw [e1] at hX
      simp only at hX
      rcases l.valid.1.avail_of_spent _ _ (i.prev, i.vout) ⟨X, hX, i, hi, rfl⟩ with ha | ⟨t, ht, e2, _⟩
      · cases hx : f (i.prev, i.vout) with
        | none => rw [hx] at ha; cases ha
        | some c => exact Conf.push _ (hf.c3 _ c hx)
      · simp only at e2
        rw [e2]
        exact Conf.top ht
    · exact Conf.push _ (hf.c2 e e1 X hX i hi)
  · intro o c hg
    by_cases hs : spentBy txs o
    · rw [l.spent o hs] at hg; cases hg
    · by_cases hc : createdBy txs o
      · obtain ⟨t, ht, e2, _⟩ := hc
        rw [e2]; exact Conf.top ht
      · rw [l.kept o hs hc] at hg
        exact Conf.push _ (hf.c3 o c hg)
  · intro o c hg
    by_cases hs : spentBy txs o
    · rw [l.spent o hs] at hg; cases hg
    · by_cases hc : createdBy txs o
      · obtain ⟨c', h1, h2⟩ := l.made o hs hc
        rw [h1] at hg
        cases hg
        exact h2
      · rw [l.kept o hs hc] at hg
        exact hf.val o c hg
  · intro e he X hX
    rcases List.mem_cons.mp he with e1 | e1
    · rw [e1] at hX
      exact l.valid.1.nodup _ _ X hX
    · exact hf.nd e e1 X hX

theorem Hist.fok {u0 : UT} {ν : OutPoint → Nat} : ∀ (st : UndoStack) (g : CSet), Hist u0 ν st g → FOK u0 ν st g := by
  intro st
  induction st with
  | nil =>
    intro g h
    obtain ⟨h1, h2⟩ := h
    refine ⟨fun e he => (by cases he), fun e he => (by cases he), ?_, ?_, fun e he => (by cases he)⟩
    · intro o c hg
      rw [h1] at hg
      exact Or.inl ⟨o.2, c, hg⟩
    · intro o c hg
      rw [h1] at hg
      exact h2 o c hg
  | cons e r ih =>
    intro g h
    obtain ⟨txs, sc⟩ := e
    obtain ⟨f, hf, l⟩ := h
    exact (ih f hf).of_linked l

theorem Hist.congr {u0 : UT} {ν : OutPoint → Nat} {st : UndoStack} {g g' : CSet} (h : Hist u0 ν st g)
    (e : ∀ o, g' o = g o) : Hist u0 ν st g' := by
  have : g' = g := funext e
  rw [this]; exact h

end GocoinV.Mempool
