/-
  Proofs.C10Size — the length `le` computed by the first loop of Serialize equals the number of bytes
  the second loop writes (no slack, no out-of-range write into the allocated buffer).
-/
import GocoinV.Proofs.C10RecC
namespace GocoinV.UtxoRec
open GocoinV.CompactSize GocoinV.ScriptCompress

theorem sizeOutsU_eq (outs : List (Option Out)) : ∀ i, sizeOutsU i outs = (encOutsU i outs).length := by
  induction outs with
  | nil => intro i; rfl
  | cons o t ih =>
    intro i
    cases o with
    | none => simp [sizeOutsU, encOutsU, ih]
    | some x => simp [sizeOutsU, encOutsU, ih, putULe_length]; omega

theorem sizeScrC_eq (K : KeyOps) (pk : Bytes) : sizeScrC K pk = (encScrC K pk).length := by
  unfold sizeScrC encScrC
  cases compress K pk <;> simp [putULe_length]

theorem sizeOutsC_eq (K : KeyOps) (outs : List (Option Out)) :
    ∀ i, sizeOutsC K i outs = (encOutsC K i outs).length := by
  induction outs with
  | nil => intro i; rfl
  | cons o t ih =>
    intro i
    cases o with
    | none => simp [sizeOutsC, encOutsC, ih]
    | some x => simp [sizeOutsC, encOutsC, ih, putULe_length, sizeScrC_eq]; omega

theorem sizeU_eq (r : Rec) (ht : r.txid.length = 32) (b : Bytes) (hs : serializeU r = some b) :
    b.length = sizeU r := by
  unfold serializeU at hs
  split at hs
  · injection hs with hs; subst hs
    simp [sizeU, sizeOutsU_eq, putULe_length, ht]; omega
  · simp at hs

theorem sizeC_eq (K : KeyOps) (r : Rec) (ht : r.txid.length = 32) (b : Bytes)
    (hs : serializeC K r = some b) : b.length = sizeC K r := by
  unfold serializeC at hs
  split at hs
  · injection hs with hs; subst hs
    simp [sizeC, sizeOutsC_eq, putULe_length, ht]; omega
  · simp at hs

end GocoinV.UtxoRec
