/-
  Proofs.C02Caller — the caller's history (Model.SigHashCaller): requests that are safe at the moment they run
  return what a fresh object with all spent outputs returns.
-/
import GocoinV.Model.SigHashCaller
import GocoinV.Proofs.C02Cache
namespace GocoinV.SigHash
open GocoinV.Wire (Tx TxIn TxOut)

/-- a taproot digest with SIGHASH_ANYONECANPAY for an input that is already stored does not see the missing entries -/
theorem taprootSigHash_take_acp (fixed : Bool) (H : Bytes → Bytes) (tx : Tx) (spent : List TxOut) (c : Cache)
    (ed : ExecData) (inPos ht : Nat) (script : Bool) (j : Nat) (hacp : ht &&& 0x80 = 0x80) (hj : inPos < j) :
    taprootSigHash fixed H tx (spent.take j) c ed inPos ht script = taprootSigHash fixed H tx spent c ed inPos ht script := by
  unfold taprootSigHash
  simp only [hacp, ne_eq, not_true_eq_false, if_false]
  unfold taprootTail
  simp only [hacp, if_true, List.getElem?_take, hj]

theorem step_take (H : Bytes → Bytes) (tx : Tx) (spent : List TxOut) (c : Cache) (j : Nat) (k : Call)
    (hk : safeAt spent.length j k = true) :
    step true H tx (spent.take j) c k = step true H tx spent c k := by
  cases k with
  | leg sc nIn ht => rfl
  | wit sc am nIn ht => rfl
  | tap ed p ht s =>
    simp only [safeAt, Bool.or_eq_true, Bool.and_eq_true, decide_eq_true_eq] at hk
    rcases hk with h | ⟨h1, h2⟩
    · rw [List.take_of_length_le h]
    · exact taprootSigHash_take_acp true H tx spent c ed p ht s j h1 h2

theorem runCaller_disciplined (H : Bytes → Bytes) (tx : Tx) (spent : List TxOut) (hs : tx.ins.length ≤ spent.length)
    (evs : List CEv) :
    ∀ s : CallerSt, Cache.OK H tx spent s.cache → disciplined spent.length s.stored evs = true →
      runCaller H tx spent s evs = callerSpec H tx spent evs := by
  induction evs with
  | nil => intro s _ _; rfl
  | cons e es ih =>
    intro s hc hd
    cases e with
    | store =>
      simp only [disciplined] at hd
      simp only [runCaller, callerStep, callerSpec]
      rw [ih { s with stored := s.stored + 1 } hc hd]
    | req k =>
      simp only [disciplined, Bool.and_eq_true] at hd
      have h1 := step_take H tx spent s.cache s.stored k hd.1
      have h2 := step_cache true H tx spent s.cache hs hc k
      simp only [runCaller, callerStep, callerSpec, h1]
      rw [ih { s with cache := (step true H tx spent s.cache k).2 } h2.2 hd.2, h2.1]

theorem disciplined_requests (n j : Nat) (h : n ≤ j) (ks : List Call) : disciplined n j (ks.map .req) = true := by
  induction ks with
  | nil => rfl
  | cons k ks ih =>
    simp only [List.map, disciplined, ih, Bool.and_true]
    cases k <;> simp [safeAt, h]

theorem disciplined_stores (n : Nat) (ks : List Call) : ∀ m j, n ≤ j + m →
    disciplined n j (List.replicate m .store ++ ks.map .req) = true := by
  intro m
  induction m with
  | zero => intro j h; simpa using disciplined_requests n j (by omega) ks
  | succ m ih =>
    intro j h
    simp only [List.replicate_succ, List.cons_append, disciplined]
    exact ih (j + 1) (by omega)

end GocoinV.SigHash
