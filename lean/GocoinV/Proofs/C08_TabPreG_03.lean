/- C08 table proof chunk (written once by Proofs/mk_c08_tab.py; static). -/
import GocoinV.Proofs.C08_TabDefs
import GocoinV.Gen.TablesPreG03
import GocoinV.Gen.TablesPreG02
namespace GocoinV.C08
open GocoinV.Gen

theorem preG_03 : chainOK (Secp.dbl Secp.G) ((pts Tables.preG02).getLastD none :: pts Tables.preG03) = true := by
  decide +kernel
theorem preG_03_ne : pts Tables.preG03 ≠ [] := by decide +kernel

end GocoinV.C08
