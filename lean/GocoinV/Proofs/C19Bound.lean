/-
  Proofs.C19Bound — why the 1 MiB bound on the index snapshot is needed: the bytes of a snapshot cut at a buffer
  boundary can be a complete snapshot of fewer records.
-/
import GocoinV.Proofs.C19Codec
namespace GocoinV.Proofs.C19
open GocoinV GocoinV.Qdb

theorem le64_split (n : Nat) : le64 n = le32 n ++ le32 (n / 2^32) := by
  simp only [le64, le32, leBytes, Nat.div_div_eq_div_mul, List.cons_append, List.nil_append]

theorem le32_ffff (ver : Nat) : le32 (ver * 2^32 + 0xFFFFFFFF) = ffff := by
  simp only [le32, leBytes, Nat.div_div_eq_div_mul, ffff]
  have h0 : (ver * 2^32 + 0xFFFFFFFF) % 256 = 255 := by omega
  have h1 : (ver * 2^32 + 0xFFFFFFFF) / 256 % 256 = 255 := by omega
  have h2 : (ver * 2^32 + 0xFFFFFFFF) / (256 * 256) % 256 = 255 := by omega
  have h3 : (ver * 2^32 + 0xFFFFFFFF) / (256 * 256 * 256) % 256 = 255 := by omega
  rw [h0, h1, h2, h3]
  rfl

theorem le64_trailer (ver : Nat) : le64 (ver * 2^32 + 0xFFFFFFFF) = ffff ++ le32 ver := by
  rw [le64_split, le32_ffff]
  congr 2
  omega

theorem le32_fini : le32 0x494E4946 = fini := by decide

/-- a snapshot cut 12 bytes into a record whose key is (version << 32) | 0xFFFFFFFF and whose datpos spells "FINI"
    IS the complete snapshot of the records before it -/
theorem snapBytes_take (ver : Nat) (pre post : List (Key × Rec)) (r : Rec) (hp : r.pos = 0x494E4946) :
    (snapBytes ver (pre ++ (ver * 2^32 + 0xFFFFFFFF, r) :: post)).take (16 + 24 * pre.length) = snapBytes ver pre := by
  have e : snapBytes ver (pre ++ (ver * 2^32 + 0xFFFFFFFF, r) :: post) =
      snapBytes ver pre ++ (le32 r.len ++ le32 r.seq ++ le32 r.flags ++ (snapBody post ++ (ffff ++ (le32 ver ++ fini)))) := by
    simp only [snapBytes, snapBody, List.flatMap_append, List.flatMap_cons, encRec, le64_trailer, hp, le32_fini,
      List.append_assoc]
  rw [e, ← snapBytes_length ver pre]
  exact List.take_left' rfl
end GocoinV.Proofs.C19
