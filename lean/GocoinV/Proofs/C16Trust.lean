/-
  Proofs.C16Trust — the in-memory trusted flag of a key that was added and never marked invalid is the specification's
  latest trusted flag, along every history and every option combination (restarts: LoadBlockIndex reads the flag bit that
  `Disk` ties to the in-memory flag).
-/
import GocoinV.Proofs.C16Listing
namespace GocoinV.BlockDB

def Trust (s : State) (sp : Spec) : Prop :=
  ∀ k e r, AL.get sp.m k = some e → e.tainted = false → AL.get s.index k = some r → r.trusted = e.trusted

/-- state and specification change at key `k` only -/
theorem trust_change (s s' : State) (sp sp' : Spec) (h : Trust s sp) (k : Key)
    (hidx : ∀ k', k ≠ k' → AL.get s'.index k' = AL.get s.index k')
    (hm : ∀ k', k ≠ k' → AL.get sp'.m k' = AL.get sp.m k')
    (hk : ∀ e' r', AL.get sp'.m k = some e' → e'.tainted = false → AL.get s'.index k = some r' → r'.trusted = e'.trusted) :
    Trust s' sp' := by
  intro k' e r he ht hr
  by_cases hkk : k = k'
  · subst hkk; exact hk e r he ht hr
  · rw [hm k' hkk] at he; rw [hidx k' hkk] at hr; exact h k' e r he ht hr

theorem trust_same (s s' : State) (sp : Spec) (h : Trust s sp) (hi : s'.index = s.index) : Trust s' sp := by
  intro k e r he ht hr; rw [hi] at hr; exact h k e r he ht hr

/-- `writeOne` replaces at most one index record, by one with the same trusted flag -/
theorem writeOne_trust (env : Env) (s s' : State) (sp : Spec) (h : Trust s sp) (hw : writeOne env s = some s') : Trust s' sp := by
  unfold writeOne at hw
  split at hw
  · cases hw
  · rename_i b q hq
    simp only at hw
    split at hw
    · cases hw; exact trust_same s _ sp h rfl
    · rename_i r0 hr0
      split at hw
      · cases hw; exact trust_same s _ sp h rfl
      · simp only [Option.some.injEq] at hw
        subst hw
        obtain ⟨_, m2, _⟩ := maybeRoll_facts { s with queue := q, datToWrite := s.datToWrite - b.data.length }
          (if s.opts.compress = true then env.enc b.data else b.data).length
        refine trust_change s _ sp sp h b.idx ?_ (fun _ _ => rfl) ?_
        · intro k' hne; unfold writeRecord; simp only [m2, AL.get_set, if_neg hne]
        · intro e r' he ht hr'
          unfold writeRecord at hr'
          simp only [m2, AL.get_set, ↓reduceIte, Option.some.injEq] at hr'
          subst hr'
          exact h b.idx e r0 he ht hr0

theorem writeAll_trust (env : Env) (sp : Spec) : ∀ (f : Nat) (s : State), Trust s sp → Trust (writeAll env f s) sp := by
  intro f
  induction f with
  | zero => intro s h; exact h
  | succ f ih =>
    intro s h
    unfold writeAll
    split
    · exact h
    · rename_i s' hw; exact ih s' (writeOne_trust env s s' sp h hw)

theorem setBlockFlag_trust (s : State) (sp sp' : Spec) (h : Trust s sp) (k : Key) (r0 : Rec) (fl : Nat)
    (hr0 : AL.get s.index k = some r0)
    (hm : ∀ k', k ≠ k' → AL.get sp'.m k' = AL.get sp.m k')
    (hk : ∀ e', AL.get sp'.m k = some e' → e'.tainted = false → (r0.trusted || fl == BLOCK_TRUSTED) = e'.trusted) :
    Trust (setBlockFlag s k r0 fl) sp' := by
  obtain ⟨i0, _⟩ := setBlockFlag_fields s k r0 fl
  refine trust_change s _ sp sp' h k (fun k' hne => by rw [i0, if_neg hne]) hm ?_
  intro e' r' he' ht hr'
  rw [i0, if_pos rfl] at hr'
  simp only [Option.some.injEq] at hr'; subst hr'
  exact hk e' he' ht

theorem blockTrusted_trust (s : State) (sp sp' : Spec) (h : Trust s sp) (hash : Bytes)
    (hm : ∀ k', keyOf hash ≠ k' → AL.get sp'.m k' = AL.get sp.m k')
    (hk : ∀ e', AL.get sp'.m (keyOf hash) = some e' → e'.tainted = false → e'.trusted = true) :
    Trust (blockTrusted s hash) sp' := by
  unfold blockTrusted
  simp only
  split
  · rename_i hnone
    refine trust_change s s sp sp' h (keyOf hash) (fun _ _ => rfl) hm ?_
    intro e' r' _ _ hr'; rw [hnone] at hr'; cases hr'
  · rename_i r0 hr0
    split
    · rename_i htr
      refine trust_change s s sp sp' h (keyOf hash) (fun _ _ => rfl) hm ?_
      intro e' r' he' ht hr'
      rw [hr0] at hr'; simp only [Option.some.injEq] at hr'; subst hr'
      rw [hk e' he' ht]; exact htr
    · refine setBlockFlag_trust s sp sp' h _ r0 _ hr0 hm ?_
      intro e' he' ht
      rw [hk e' he' ht]; simp

theorem addToCache_trust (s : State) (sp : Spec) (h : Trust s sp) (k : Key) (d : Bytes) : Trust (addToCache s k d) sp :=
  trust_same s _ sp h (addToCache_fields s k d).1

theorem blockGet_trust (env : Env) (s : State) (sp : Spec) (h : Trust s sp) (hash : Bytes) : Trust (blockGet env s hash).1 sp := by
  unfold blockGet
  simp only
  split
  · exact h
  · rename_i r0 hr0
    split
    · exact trust_same s _ sp h rfl
    · split
      · exact h
      · split
        · exact h
        · split
          · exact h
          · split
            · exact h
            · rename_i file _ _
              generalize decodeStored env r0 (List.take r0.blen (List.drop r0.fpos file)) = ble
              obtain ⟨bl, err⟩ := ble
              simp only
              have h1 : Trust { s with index := AL.set s.index (keyOf hash) (if r0.olen = 0 then ({ r0 with olen := bl.length } : Rec) else r0) } sp := by
                refine trust_change s _ sp sp h (keyOf hash) (fun k' hne => by simp only [AL.get_set, if_neg hne]) (fun _ _ => rfl) ?_
                intro e r' he ht hr'
                simp only [AL.get_set, ↓reduceIte, Option.some.injEq] at hr'
                subst hr'
                have := h _ e r0 he ht hr0
                split <;> exact this
              have h2 := addToCache_trust _ sp h1 (keyOf hash) bl
              split <;> exact h2

theorem blockLength_trust (env : Env) (s : State) (sp : Spec) (h : Trust s sp) (hash : Bytes) (d : Bool) :
    Trust (blockLength env s hash d).1 sp := by
  unfold blockLength
  simp only
  split
  · exact h
  · split
    · exact h
    · split
      · exact h
      · have := blockGet_trust env s sp h hash
        generalize blockGet env s hash = res at this ⊢
        obtain ⟨s', out⟩ := res
        cases out <;> exact this

theorem blockInvalid_trust (s : State) (sp sp' : Spec) (h : Trust s sp) (hash : Bytes)
    (hm : ∀ k', keyOf hash ≠ k' → AL.get sp'.m k' = AL.get sp.m k')
    (hk : ∀ e', AL.get sp'.m (keyOf hash) = some e' → e'.tainted = true) : Trust (blockInvalid s hash).1 sp' := by
  have hv : ∀ (s' : State), (∀ k', keyOf hash ≠ k' → AL.get s'.index k' = AL.get s.index k') → Trust s' sp' := by
    intro s' hidx
    refine trust_change s s' sp sp' h (keyOf hash) hidx hm ?_
    intro e' r' he' ht; rw [hk e' he'] at ht; cases ht
  unfold blockInvalid
  simp only
  split
  · exact hv s (fun _ _ => rfl)
  · rename_i r0 hr0
    split
    · exact hv s (fun _ _ => rfl)
    · split
      · exact hv _ (fun k' hne => by simp only [AL.get_del, if_neg hne])
      · obtain ⟨i0, _⟩ := setBlockFlag_fields s (keyOf hash) r0 BLOCK_INVALID
        exact hv _ (fun k' hne => by rw [i0, if_neg hne])

theorem blockAdd_trust (env : Env) (s : State) (sp sp' : Spec) (h : Trust s sp) (hD : ∀ k e, AL.get sp.m k = some e →
      e.tainted = false → ∃ r, AL.get s.index k = some r) (hI : ∀ k r, AL.get s.index k = some r → ∃ e, AL.get sp.m k = some e)
    (hash : Bytes) (ht tx : Nat) (tr : Bool) (raw : Bytes)
    (hm : ∀ k', keyOf hash ≠ k' → AL.get sp'.m k' = AL.get sp.m k')
    (hnew : AL.get sp.m (keyOf hash) = none → ∀ e', AL.get sp'.m (keyOf hash) = some e' → e'.trusted = tr)
    (hold : ∀ e, AL.get sp.m (keyOf hash) = some e → ∀ e', AL.get sp'.m (keyOf hash) = some e' →
      e'.tainted = e.tainted ∧ e'.trusted = (e.trusted || tr)) :
    Trust (blockAdd env s hash ht tx tr raw) sp' := by
  unfold blockAdd
  simp only
  split
  · rename_i hnone
    have key : ∀ (s2 : State), (∀ k', AL.get s2.index k' = if keyOf hash = k' then
        some { ipos := none, trusted := tr, olen := raw.length, seq := s.nextSeq } else AL.get s.index k') → Trust s2 sp' := by
      intro s2 hix
      refine trust_change s s2 sp sp' h (keyOf hash) (fun k' hne => by rw [hix, if_neg hne]) hm ?_
      intro e' r' he' hte hr'
      rw [hix, if_pos rfl] at hr'
      simp only [Option.some.injEq] at hr'; subst hr'
      simp only
      cases hsp : AL.get sp.m (keyOf hash) with
      | none => exact (hnew hsp e' he').symm
      | some e =>
        obtain ⟨h1, _⟩ := hold e hsp e' he'
        obtain ⟨r, hr⟩ := hD _ e hsp (by rw [← h1]; exact hte)
        rw [hnone] at hr; cases hr
    obtain ⟨g1, _⟩ := addToCache_fields { s with index := AL.set s.index (keyOf hash) { ipos := none, trusted := tr, olen := raw.length, seq := s.nextSeq } } (keyOf hash) raw
    split
    · refine writeAll_trust env sp' _ _ (key _ ?_)
      intro k'; simp only; rw [g1]; simp only [AL.get_set]
    · refine key _ ?_
      intro k'; simp only; rw [g1]; simp only [AL.get_set]
  · rename_i r0 hr0
    split
    · rename_i hc
      simp only [Bool.and_eq_true, Bool.not_eq_eq_eq_not, Bool.not_true] at hc
      have hk : ∀ e', AL.get sp'.m (keyOf hash) = some e' → e'.tainted = false → e'.trusted = true := by
        intro e' he' hte
        cases hsp : AL.get sp.m (keyOf hash) with
        | none => obtain ⟨e, he⟩ := hI _ r0 hr0; rw [hsp] at he; cases he
        | some e => rw [(hold e hsp e' he').2, hc.2]; simp
      split
      · refine trust_change s _ sp sp' h (keyOf hash) (fun k' hne => by simp only [AL.get_set, if_neg hne]) hm ?_
        intro e' r' he' hte hr'
        simp only [AL.get_set, ↓reduceIte, Option.some.injEq] at hr'
        subst hr'
        rw [hk e' he' hte]
      · exact blockTrusted_trust s sp sp' h hash hm hk
    · rename_i hc
      refine trust_change s s sp sp' h (keyOf hash) (fun _ _ => rfl) hm ?_
      intro e' r' he' hte hr'
      rw [hr0] at hr'; simp only [Option.some.injEq] at hr'; subst hr'
      cases hsp : AL.get sp.m (keyOf hash) with
      | none => obtain ⟨e, he⟩ := hI _ r0 hr0; rw [hsp] at he; cases he
      | some e =>
        obtain ⟨h1, h2⟩ := hold e hsp e' he'
        have := h _ e r0 hsp (by rw [← h1]; exact hte) hr0
        rw [h2, ← this]
        cases h5 : r0.trusted <;> cases h6 : tr <;> simp_all

theorem trust_spec_m (s : State) (sp sp' : Spec) (h : Trust s sp) (hm : sp'.m = sp.m) : Trust s sp' := by
  intro k e r he; rw [hm] at he; exact h k e r he

theorem reopen_trust (env : Env) (hadv : env.advInvalid = true) (s : State) (sp sp' : Spec) (n : Nat) (hT : Trust s sp)
    (hD : Disk env s sp n) (hI : IdxInv s) (hn : n < 2^31) (hm : sp'.m = sp.m) (o : Opts) :
    Trust (reopen env s.fs o).1 sp' := by
  have L := load_linv env hadv s sp n hD hI hn
  obtain ⟨e1, _⟩ := reopen_state env s.fs o
  intro k e r he ht hr
  rw [hm] at he; rw [e1] at hr
  obtain ⟨r0, p0, _, a2, a3, _, a5⟩ := L.l1 k r hr
  obtain ⟨_, md⟩ := hD.mem k r0 p0 a2 a3
  subst a5
  rw [(recOf_fields _ r0 p0 md).2.2.2.2.2.1]
  exact hT k e r0 he ht a2

theorem step_trust (env : Env) (hadv : env.advInvalid = true) (s : State) (sp : Spec) (n : Nat) (hC : Core env s sp n)
    (hT : Trust s sp) (op : Op) (hn : n < 2^31) : Trust (step env s op).1 (specStep s sp op) := by
  have hopn := hC.opn
  cases op with
  | reopen o =>
    unfold step specStep
    simp only
    by_cases ho : s.isOpen = true
    · simp only [ho, hopn, ↓reduceIte]; exact hT
    · simp only [ho, hopn, Bool.false_eq_true, ↓reduceIte]
      exact reopen_trust env hadv s sp { sp with isOpen := true } n hT hC.disk hC.inv hn rfl o
  | add hash ht tx tr raw =>
    unfold step specStep
    simp only
    by_cases ho : s.isOpen = true
    · simp only [ho, hopn, Bool.not_true, Bool.false_eq_true, ↓reduceIte]
      by_cases hl : raw.length < 80
      · simp only [hl, ↓reduceIte]; exact hT
      · simp only [hl, ↓reduceIte]
        cases hsp : AL.get sp.m (keyOf hash) with
        | none =>
          simp only
          refine blockAdd_trust env s sp _ hT hC.disk.ent hC.disk.idxspec hash ht tx tr raw
            (fun k' hne => by simp only [AL.get_set, if_neg hne]) ?_ ?_
          · intro _ e' he'
            simp only [AL.get_set, ↓reduceIte, Option.some.injEq] at he'
            subst he'; rfl
          · intro e he; rw [hsp] at he; cases he
        | some e0 =>
          simp only
          refine blockAdd_trust env s sp _ hT hC.disk.ent hC.disk.idxspec hash ht tx tr raw
            (fun k' hne => by simp only [AL.get_set, if_neg hne]) ?_ ?_
          · intro hn0; rw [hsp] at hn0; cases hn0
          · intro e he e' he'
            rw [hsp] at he; simp only [Option.some.injEq] at he; subst he
            simp only [AL.get_set, ↓reduceIte, Option.some.injEq] at he'
            subst he'; exact ⟨rfl, rfl⟩
    · simp only [ho, hopn, Bool.not_false, ↓reduceIte]; exact hT
  | get hash =>
    unfold step specStep
    simp only
    by_cases ho : s.isOpen = true
    · simp only [ho, hopn, Bool.not_true, Bool.false_eq_true, ↓reduceIte]; exact blockGet_trust env s sp hT hash
    · simp only [ho, hopn, Bool.not_false, ↓reduceIte]; exact hT
  | length hash d =>
    unfold step specStep
    simp only
    by_cases ho : s.isOpen = true
    · simp only [ho, hopn, Bool.not_true, Bool.false_eq_true, ↓reduceIte]; exact blockLength_trust env s sp hT hash d
    · simp only [ho, hopn, Bool.not_false, ↓reduceIte]; exact hT
  | trusted hash =>
    unfold step specStep
    simp only
    by_cases ho : s.isOpen = true
    · simp only [ho, hopn, Bool.not_true, Bool.false_eq_true, ↓reduceIte]
      cases hsp : AL.get sp.m (keyOf hash) with
      | none =>
        simp only
        exact blockTrusted_trust s sp sp hT hash (fun _ _ => rfl) (fun e' he' => by rw [hsp] at he'; cases he')
      | some e0 =>
        simp only
        refine blockTrusted_trust s sp _ hT hash (fun k' hne => by simp only [AL.get_set, if_neg hne]) ?_
        intro e' he' _
        simp only [AL.get_set, ↓reduceIte, Option.some.injEq] at he'
        subst he'; rfl
    · simp only [ho, hopn, Bool.not_false, ↓reduceIte]; exact hT
  | invalid hash =>
    unfold step specStep
    simp only
    by_cases ho : s.isOpen = true
    · simp only [ho, hopn, Bool.not_true, Bool.false_eq_true, ↓reduceIte]
      cases hsp : AL.get sp.m (keyOf hash) with
      | none =>
        simp only
        exact blockInvalid_trust s sp sp hT hash (fun _ _ => rfl) (fun e' he' => by rw [hsp] at he'; cases he')
      | some e0 =>
        simp only
        by_cases hpn : panics s (keyOf hash) = true
        · simp only [hpn, ↓reduceIte]
          rw [blockInvalid_panics s hash hpn]; exact hT
        simp only [hpn, Bool.false_eq_true, ↓reduceIte]
        have htaint : Trust (blockInvalid s hash).1 { isOpen := true, m := AL.set sp.m (keyOf hash) { e0 with tainted := true } } := by
          refine blockInvalid_trust s sp _ hT hash (fun k' hne => by simp only [AL.get_set, if_neg hne]) ?_
          intro e' he'
          simp only [AL.get_set, ↓reduceIte, Option.some.injEq] at he'
          subst he'; rfl
        by_cases hf : forgets s (keyOf hash) = true
        · simp only [hf, ↓reduceIte]
          refine trust_change _ _ _ _ htaint (keyOf hash) (fun _ _ => rfl)
            (fun k' hne => by simp only [AL.get_set, AL.get_del, if_neg hne]) ?_
          intro e' r' he'
          simp only [AL.get_del, ↓reduceIte] at he'
          cases he'
        · simp only [hf, Bool.false_eq_true, ↓reduceIte]
          exact htaint
    · simp only [ho, hopn, Bool.not_false, ↓reduceIte]; exact hT
  | idle =>
    unfold step specStep
    simp only
    by_cases ho : s.isOpen = true
    · simp only [ho, hopn, Bool.not_true, Bool.false_eq_true, ↓reduceIte]; exact writeAll_trust env sp _ s hT
    · simp only [ho, hopn, Bool.not_false, ↓reduceIte]; exact hT
  | close =>
    unfold step specStep
    simp only
    by_cases ho : s.isOpen = true
    · simp only [ho, hopn, Bool.not_true, Bool.false_eq_true, ↓reduceIte]
      exact trust_spec_m _ sp _ (trust_same _ _ sp (writeAll_trust env sp _ s hT) rfl) rfl
    · simp only [ho, hopn, Bool.not_false, ↓reduceIte]; exact hT

theorem run_trust (env : Env) (hadv : env.advInvalid = true) : ∀ (ops : List Op) (s : State) (sp : Spec) (n : Nat),
    Core env s sp n → Trust s sp → (∀ op ∈ ops, Op.wf env op) → n + ops.length < 2^31 →
    Trust (run env s ops).1 (specFinal env s sp ops) := by
  intro ops
  induction ops with
  | nil => intro s sp n _ h _ _; exact h
  | cons op ops ih =>
    intro s sp n hC hT hwf hn
    simp only [List.length_cons] at hn
    have h1 := step_core env hadv s sp n hC op (hwf op (by simp)) (by omega)
    have h2 := step_trust env hadv s sp n hC hT op (by omega)
    unfold run specFinal
    exact ih _ _ (n + 1) h1 h2 (fun op' hop' => hwf op' (by simp [hop'])) (by omega)

theorem init_trust : Trust init {} := by
  intro k e r he; simp [AL.get] at he

end GocoinV.BlockDB
