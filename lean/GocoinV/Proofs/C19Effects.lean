/-
  Proofs.C19Effects — the directory of the model state is always the replay of the recorded effect list:
  every function of Model/Qdb changes `fs` only through `emit`. This is what makes "crash = a prefix of
  `effs`" a statement about the directories the model really goes through.
-/
import GocoinV.Model.Qdb
namespace GocoinV.Proofs.C19
open GocoinV GocoinV.Qdb

variable {eg : Bool}

theorem applyAll_append (fs : FS) (a b : List Effect) : fs.applyAll (a ++ b) = (fs.applyAll a).applyAll b := by
  induction a generalizing fs with
  | nil => rfl
  | cons e t ih => simp only [List.cons_append, FS.applyAll, ih]

/-- `a` is `b` plus some emitted effects -/
def Replays (a b : DB) : Prop := ∃ es, a.effs = b.effs ++ es ∧ a.fs = b.fs.applyAll (es.map (·.2))

theorem Replays.refl (a : DB) : Replays a a := ⟨[], by simp, rfl⟩

theorem Replays.of_eq {a b : DB} (h1 : a.effs = b.effs) (h2 : a.fs = b.fs) : Replays a b :=
  ⟨[], by simp [h1], by simp [h2, FS.applyAll]⟩

theorem Replays.trans {a b c : DB} (h1 : Replays a b) (h2 : Replays b c) : Replays a c := by
  obtain ⟨e1, h1a, h1b⟩ := h1
  obtain ⟨e2, h2a, h2b⟩ := h2
  refine ⟨e2 ++ e1, by rw [h1a, h2a, List.append_assoc], ?_⟩
  rw [h1b, h2b, List.map_append, applyAll_append]

theorem replays_emit (db : DB) (t : String) (e : Effect) : Replays (emit db t e) db :=
  ⟨[(t, e)], rfl, rfl⟩

theorem replays_fail (db : DB) (w : String) : Replays (fail db w) db := by
  unfold fail; split <;> exact Replays.refl _

theorem replays_foldl {α : Type} (f : DB → α → DB) (hf : ∀ d a, Replays (f d a) d) (l : List α) (db : DB) :
    Replays (l.foldl f db) db := by
  induction l generalizing db with
  | nil => exact Replays.refl _
  | cons a t ih => exact (ih (f db a)).trans (hf db a)

theorem replays_checkDat (db : DB) : Replays (checkDat db) db := by
  unfold checkDat
  split
  · exact Replays.refl _
  · exact Replays.trans (Replays.of_eq rfl rfl) ((replays_emit _ _ _).trans (replays_emit _ _ _))

theorem replays_checkLog (db : DB) : Replays (checkLog db) db := by
  unfold checkLog
  split
  · exact Replays.refl _
  · exact Replays.trans (Replays.of_eq rfl rfl) ((replays_emit _ _ _).trans (replays_emit _ _ _))

theorem replays_cleanupold (db : DB) (used : List Nat) : Replays (cleanupold db used) db := by
  unfold cleanupold
  apply replays_foldl
  intro d s
  split
  · exact replays_emit _ _ _
  · exact Replays.refl _

def SinkReplays (sink : DB → Bytes → DB) : Prop := ∀ d b, Replays (sink d b) d

theorem replays_bufWrite (sink : DB → Bytes → DB) (hs : SinkReplays sink) (db : DB) (w : BufW) (p : Bytes) :
    Replays (bufWrite sink db w p).1 db := by
  unfold bufWrite
  split
  · exact Replays.refl _
  · split
    · exact hs _ _
    · dsimp only
      split
      · exact (hs _ _).trans (hs _ _)
      · exact hs _ _

theorem replays_bufFlush (sink : DB → Bytes → DB) (hs : SinkReplays sink) (db : DB) (w : BufW) :
    Replays (bufFlush sink db w) db := by
  unfold bufFlush
  split
  · exact Replays.refl _
  · exact hs _ _

theorem replays_bufWriteAll (sink : DB → Bytes → DB) (hs : SinkReplays sink) (ps : List Bytes) (db : DB) (w : BufW) :
    Replays (bufWriteAll sink db w ps).1 db := by
  unfold bufWriteAll
  induction ps generalizing db w with
  | nil => exact Replays.refl _
  | cons p t ih =>
    simp only [List.foldl_cons]
    exact (ih _ _).trans (replays_bufWrite sink hs db w p)

theorem idxSink_replays (i : Nat) : SinkReplays (idxSink i) := fun _ _ => replays_emit _ _ _
theorem defragSink_replays (s : Nat) : SinkReplays (defragSink s) := fun _ _ => replays_emit _ _ _

theorem replays_writedatfile (db : DB) : Replays (writedatfile db) db := by
  unfold writedatfile
  dsimp only
  refine (replays_emit _ _ _).trans ((replays_emit _ _ _).trans ?_)
  refine Replays.trans (b := bufFlush _ _ _) (Replays.of_eq rfl rfl) ?_
  refine (replays_bufFlush _ (idxSink_replays _) _ _).trans ?_
  refine (replays_bufWriteAll _ (idxSink_replays _) _ _ _).trans ?_
  exact (replays_emit _ _ _).trans (Replays.of_eq rfl rfl)

theorem replays_defragRec (sink : DB → Bytes → DB) (hs : SinkReplays sink)
    (st : DB × BufW × List (Key × Rec)) (kr : Key × Rec) : Replays (defragRec sink st kr).1 st.1 := by
  obtain ⟨d, w, acc⟩ := st
  unfold defragRec
  dsimp only
  split
  · exact Replays.refl _
  · split
    · exact replays_fail _ _
    · exact Replays.trans (Replays.of_eq rfl rfl) (replays_bufWrite sink hs d w _)

theorem replays_defragFold (sink : DB → Bytes → DB) (hs : SinkReplays sink) (l : List (Key × Rec))
    (st : DB × BufW × List (Key × Rec)) : Replays (l.foldl (defragRec sink) st).1 st.1 := by
  induction l generalizing st with
  | nil => exact Replays.refl _
  | cons kr t ih => exact (ih _).trans (replays_defragRec sink hs st kr)

theorem replays_defragFinish (seq : Nat) (d : DB) (w : BufW) (recs : List (Key × Rec)) :
    Replays (defragFinish seq d w recs) d := by
  unfold defragFinish
  dsimp only
  refine Replays.trans (Replays.of_eq rfl rfl) ?_
  refine (replays_cleanupold _ _).trans ((replays_writedatfile _).trans ?_)
  exact (replays_bufFlush _ (defragSink_replays seq) _ _).trans (Replays.of_eq rfl rfl)

theorem replays_defrag (db : DB) : Replays (defrag db) db := by
  have h0 : Replays (defragStart db) db := (replays_checkDat _).trans (Replays.of_eq rfl rfl)
  have h1 := (replays_defragFold (defragSink (defragStart db).dataSeq) (defragSink_replays _)
    (defragStart db).index (defragStart db, {}, [])).trans h0
  unfold defrag
  dsimp only
  split
  · exact h1
  · exact (replays_defragFinish _ _ _ _).trans h1

theorem replays_syncKey (st : DB × Bytes) (k : Key) : Replays (syncKey st k).1 st.1 := by
  unfold syncKey
  split
  · exact Replays.refl _
  · split
    · split
      · exact replays_fail _ _
      · unfold syncRec
        exact Replays.trans (Replays.of_eq rfl rfl) (replays_emit _ _ _)
    · exact Replays.refl _

theorem replays_syncFold (ks : List Key) (st : DB × Bytes) : Replays (ks.foldl syncKey st).1 st.1 := by
  induction ks generalizing st with
  | nil => exact Replays.refl _
  | cons k t ih => exact (ih _).trans (replays_syncKey st k)

theorem replays_syncFinish (db : DB) (b : Bytes) : Replays (syncFinish db b) db := by
  have h : Replays { emit (checkLog db) "qdb.sync:log-written" (.appendLog b) with pending := [] } db :=
    Replays.trans (Replays.of_eq rfl rfl) ((replays_emit _ _ _).trans (replays_checkLog db))
  unfold syncFinish
  dsimp only
  split
  · exact (replays_defrag _).trans h
  · exact h

theorem replays_sync (db : DB) : Replays (sync db) db := by
  unfold sync
  split
  · exact Replays.refl _
  · split
    · exact Replays.refl _
    · have h := (replays_syncFold db.pending (checkDat db, [])).trans (replays_checkDat db)
      dsimp only
      split
      · exact h
      · exact (replays_syncFinish _ _).trans h

theorem replays_memput (db : DB) (k : Key) (r : Rec) : Replays (memput db k r) db := by
  unfold memput
  cases ilookup k db.index <;> dsimp only <;> (repeat' split) <;> exact Replays.of_eq rfl rfl

theorem replays_memdel (db : DB) (k : Key) : Replays (memdel db k) db := by
  unfold memdel
  cases ilookup k db.index <;> dsimp only <;> (repeat' split) <;> exact Replays.of_eq rfl rfl

theorem replays_afterChange (db : DB) (k : Key) : Replays (afterChange db k) db := by
  have h : Replays (addPending db k) db := by unfold addPending; split <;> exact Replays.of_eq rfl rfl
  unfold afterChange
  split
  · exact Replays.of_eq rfl rfl
  · split
    · exact (replays_sync _).trans h
    · exact h

theorem replays_browseStep (all : Bool) (w : List (Key × Nat)) (vs : Option (List Key))
    (st : DB × List (Key × Rec) × List (Key × Bytes)) (kr : Key × Rec) :
    Replays (browseStep all w vs st kr).1 st.1 := by
  obtain ⟨d, a, o⟩ := st
  unfold browseStep
  dsimp only
  split
  · exact Replays.refl _
  · split
    · exact Replays.refl _
    · split
      · exact replays_fail _ _
      · exact Replays.refl _

theorem replays_browseGen (all : Bool) (db : DB) (w : List (Key × Nat)) : Replays (browseGen all db w).1 db := by
  have hf : ∀ (vs : Option (List Key)) (l : List (Key × Rec)) (st : DB × List (Key × Rec) × List (Key × Bytes)),
      Replays (l.foldl (browseStep all w vs) st).1 st.1 := by
    intro vs
    intro l
    induction l with
    | nil => intro st; exact Replays.refl _
    | cons kr t ih => intro st; exact (ih _).trans (replays_browseStep all w vs st kr)
  unfold browseGen
  split
  · exact Replays.refl _
  · have := hf (visitSet Rec.flags all db.index w) db.index (db, [], [])
    dsimp only
    split
    · exact this
    · exact Replays.trans (Replays.of_eq rfl rfl) this

theorem replays_get (db : DB) (k : Key) : Replays (Qdb.get db k).1 db := by
  unfold Qdb.get
  split
  · exact Replays.refl _
  · split
    · exact Replays.refl _
    · split
      · exact replays_fail _ _
      · exact Replays.of_eq rfl rfl

theorem replays_close (db : DB) : Replays (close db) db := by
  unfold close
  split
  · exact Replays.refl _
  · have h : Replays (if db.volatile = true then if db.noSync = true then defrag db else db else sync db) db := by
      split
      · split
        · exact replays_defrag db
        · exact Replays.refl _
      · exact replays_sync db
    dsimp only
    split
    · exact h
    · exact Replays.trans (Replays.of_eq rfl rfl) h

theorem replays_memputAll (recs : List (Key × Rec)) (db : DB) : Replays (memputAll db recs) db := by
  unfold memputAll
  exact replays_foldl _ (fun d kr => replays_memput d kr.1 kr.2) recs db

theorem replays_loaddat (db : DB) : Replays (loaddat db).1 db := by
  unfold loaddat
  split
  · exact Replays.refl _
  · exact (replays_memputAll _ _).trans (Replays.trans (Replays.of_eq rfl rfl) (replays_emit db _ _))

theorem replays_applyLog (es : List LogEntry) (db : DB) : Replays (applyLog db es) db := by
  apply replays_foldl
  intro d e
  cases e with
  | put k r => exact replays_memput d k r
  | del k => exact replays_memdel d k

theorem replays_loadlog (db : DB) (used : List Nat) : Replays (loadlog db used).1 db := by
  unfold loadlog
  split
  · exact Replays.refl _
  · split
    · exact replays_emit _ _ _
    · exact Replays.trans (Replays.of_eq rfl rfl) (replays_applyLog _ db)

theorem replays_loadOne (st : DB × List (Key × Rec)) (kr : Key × Rec) : Replays (loadOne st kr).1 st.1 := by
  unfold loadOne
  split
  · exact Replays.refl _
  · split
    · exact Replays.refl _
    · split
      · exact replays_fail _ _
      · split
        · exact replays_fail _ _
        · exact Replays.refl _

theorem replays_loadAll (db : DB) : Replays (loadAll db) db := by
  have hf : ∀ (l : List (Key × Rec)) (st : DB × List (Key × Rec)), Replays (l.foldl loadOne st).1 st.1 := by
    intro l
    induction l with
    | nil => intro st; exact Replays.refl _
    | cons kr t ih => intro st; exact (ih _).trans (replays_loadOne st kr)
  unfold loadAll
  have := hf db.index (db, [])
  dsimp only
  split
  · exact this
  · exact Replays.trans (Replays.of_eq rfl rfl) this

theorem replays_openIndex (db : DB) : Replays (openIndex db) db := by
  unfold openIndex
  exact (replays_cleanupold _ _).trans ((replays_loadlog _ _).trans (replays_loaddat db))

theorem openDB_replays (fs : FS) (vol load : Bool) (opts : Opts) :
    (openDB fs vol load opts eg).fs = fs.applyAll ((openDB fs vol load opts eg).effs.map (·.2)) := by
  have h : Replays (openDB fs vol load opts eg) { fs := fs, volatile := vol, opts := opts, eager := eg } := by
    unfold openDB
    dsimp only
    refine Replays.trans (Replays.of_eq rfl rfl) ?_
    split
    · exact (replays_loadAll _).trans (replays_openIndex _)
    · exact replays_openIndex _
  obtain ⟨es, h1, h2⟩ := h
  simp only [List.nil_append] at h1
  rw [h1, h2]

theorem replays_step (db : DB) (op : Op) : Replays (step db op) db := by
  cases op with
  | put k v =>
    show Replays (putExt db k v 0) db
    unfold putExt; split
    · exact Replays.refl _
    · exact (replays_afterChange _ _).trans (replays_memput _ _ _)
  | putExt k v f =>
    show Replays (putExt db k v f) db
    unfold putExt; split
    · exact Replays.refl _
    · exact (replays_afterChange _ _).trans (replays_memput _ _ _)
  | del k =>
    show Replays (del db k) db
    unfold del; split
    · exact Replays.refl _
    · exact (replays_afterChange _ _).trans (replays_memdel _ _)
  | get k => exact replays_get db k
  | browse w => exact replays_browseGen false db w
  | applyFlags k fl =>
    show Replays (applyFlags db k fl) db
    unfold applyFlags; split
    · exact Replays.refl _
    · split
      · exact Replays.refl _
      · exact Replays.of_eq rfl rfl
  | defrag f =>
    show Replays (defragOp db f).1 db
    unfold defragOp; split
    · exact Replays.refl _
    · split
      · exact Replays.refl _
      · dsimp only
        split
        · exact replays_defrag db
        · exact Replays.refl _
  | sync =>
    show Replays (syncOp db) db
    unfold syncOp; split
    · exact Replays.refl _
    · split
      · exact Replays.refl _
      · exact (replays_sync _).trans (Replays.of_eq rfl rfl)
  | noSync =>
    show Replays (noSyncOp db) db
    unfold noSyncOp; split
    · exact Replays.refl _
    · split
      · exact Replays.refl _
      · exact Replays.of_eq rfl rfl
  | reopen vol load opts =>
    show Replays (match (close db).failed with
      | some _ => close db
      | none => { openDB (close db).fs vol load opts (close db).eager with
                  effs := (close db).effs ++ (openDB (close db).fs vol load opts (close db).eager).effs }) db
    split
    · exact replays_close db
    · refine Replays.trans ?_ (replays_close db)
      exact ⟨(openDB (close db).fs vol load opts (close db).eager).effs, rfl, openDB_replays _ _ _ _⟩

theorem replays_run (ops : List Op) (db : DB) : Replays (run db ops) db := by
  induction ops generalizing db with
  | nil => exact Replays.refl _
  | cons op t ih => exact (ih (step db op)).trans (replays_step db op)

end GocoinV.Proofs.C19
