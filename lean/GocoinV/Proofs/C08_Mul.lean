/-
  Proofs.C08_Mul — `Field.Mul` of the GENERATED limb code (Gen.Field5x52.mul, one `let` per Go assignment):
  every 128-bit accumulator `(hi, lo)` built from bits.Mul64/bits.Add64 pairs stays below 2^128 for inputs of
  magnitude ≤ 8 (interval tracked step by step in `St`), the five result limbs are the values of libsecp256k1's
  ideal computation, and value(r) + K·p = value(a)·value(b) for an explicit K (from 2^256 = p + 0x1000003D1).
  Step lemmas have clean contexts (omega); the chain itself only applies them with `rfl` side conditions.
-/
import GocoinV.Proofs.C08_Bytes
import Mathlib.Tactic.Ring
set_option linter.unusedVariables false
namespace GocoinV.C08
open GocoinV.Gen.Field5x52

/-- a 128-bit accumulator held in two 64-bit words `(hi, lo)` stands for the number `V`, which is at most `B` -/
def St (hi lo V B : Nat) : Prop := hi * 18446744073709551616 + lo = V ∧ V ≤ B ∧ lo < 18446744073709551616

theorem St.init (x lo hi : Nat) {BX : Nat}
    (qhi : hi = x / 18446744073709551616) (qlo : lo = x % 18446744073709551616) (hx : x ≤ BX) :
    St hi lo x BX := by
  unfold St; omega

/-- `hi, lo = bits.Mul64(..)`; `dlo, carry = bits.Add64(dlo, lo, 0)`; `dhi, _ = bits.Add64(dhi, hi, carry)` -/
theorem St.acc {dhi dlo V B : Nat} (h : St dhi dlo V B) (x lo hi dlo' carry dhi' : Nat) {BX : Nat}
    (qhi : hi = x / 18446744073709551616) (qlo : lo = x % 18446744073709551616)
    (q1 : dlo' = (dlo + lo + 0) % 18446744073709551616)
    (q2 : carry = (dlo + lo + 0) / 18446744073709551616)
    (q3 : dhi' = (dhi + hi + carry) % 18446744073709551616)
    (hx : x ≤ BX) (hB : B + BX < 340282366920938463463374607431768211456) :
    St dhi' dlo' (V + x) (B + BX) := by
  obtain ⟨rfl, h2, h3⟩ := h
  refine ⟨?_, Nat.add_le_add h2 hx, ?_⟩ <;> omega

/-- `dlo, carry = bits.Add64(dlo, x, 0)`; `dhi, _ = bits.Add64(dhi, 0, carry)` for a 64-bit `x` -/
theorem St.acc64 {dhi dlo V B : Nat} (h : St dhi dlo V B) (x dlo' carry dhi' : Nat) {BX : Nat}
    (q1 : dlo' = (dlo + x + 0) % 18446744073709551616)
    (q2 : carry = (dlo + x + 0) / 18446744073709551616)
    (q3 : dhi' = (dhi + 0 + carry) % 18446744073709551616)
    (hx : x ≤ BX) (hxw : BX < 18446744073709551616) (hB : B + BX < 340282366920938463463374607431768211456) :
    St dhi' dlo' (V + x) (B + BX) := by
  obtain ⟨rfl, h2, h3⟩ := h
  refine ⟨?_, Nat.add_le_add h2 hx, ?_⟩ <;> omega

/-- `t = dlo & M; dlo = dlo>>52 | dhi<<12; dhi >>= 52` -/
theorem St.shr {dhi dlo V B : Nat} (h : St dhi dlo V B) (dlo' dhi' : Nat)
    (q2 : dlo' = (dlo >>> 52) ||| ((dhi <<< 12) % 18446744073709551616))
    (q3 : dhi' = dhi >>> 52) :
    St dhi' dlo' (V / 4503599627370496) (B / 4503599627370496) := by
  obtain ⟨rfl, h2, h3⟩ := h
  rw [Nat.shiftRight_eq_div_pow, Nat.shiftLeft_eq] at q2
  rw [Nat.shiftRight_eq_div_pow] at q3
  have e : dhi * 2 ^ 12 % 18446744073709551616 = (dhi % 4503599627370496) * 2 ^ 12 := by omega
  rw [e, or_shl _ _ _ (by omega)] at q2
  refine ⟨?_, ?_, ?_⟩ <;> omega

theorem St.lo52 {dhi dlo V B : Nat} (h : St dhi dlo V B) : dlo &&& 4503599627370495 = V % 4503599627370496 := by
  obtain ⟨rfl, h2, h3⟩ := h; rw [and_M52]; omega

theorem St.lo {dhi dlo V B : Nat} (h : St dhi dlo V B) : dlo = V % 18446744073709551616 := by
  obtain ⟨rfl, h2, h3⟩ := h; omega

theorem St.hi {dhi dlo V B : Nat} (h : St dhi dlo V B) :
    dhi = V / 18446744073709551616 ∧ dhi ≤ B / 18446744073709551616 := by
  obtain ⟨rfl, h2, h3⟩ := h; omega

theorem St.small {dhi dlo V B : Nat} (h : St dhi dlo V B) (hB : B < 18446744073709551616) :
    dhi = 0 ∧ dlo = V := by
  obtain ⟨rfl, h2, h3⟩ := h; omega

theorem St.le {dhi dlo V B : Nat} (h : St dhi dlo V B) : V ≤ B := h.2.1

theorem lt_mul_c {x : Nat} (c : Nat) (h : x < 18446744073709551616) : x * c ≤ 18446744073709551615 * c :=
  Nat.mul_le_mul_right c (by omega)

theorem and_M52_le (x : Nat) : x &&& 4503599627370495 ≤ 4503599627370495 := Nat.and_le_right


theorem mag8_bounds (a : Fe) (h : a.mag 8) :
    a.n0 ≤ 72057594037927920 ∧ a.n1 ≤ 72057594037927920 ∧ a.n2 ≤ 72057594037927920 ∧
    a.n3 ≤ 72057594037927920 ∧ a.n4 ≤ 4503599627370480 := by
  unfold Fe.mag at h; omega

theorem u0_3_eq (u0 tx t4 u3 : Nat)
    (q1 : tx = t4 >>> 48) (q2 : u3 = ((u0 <<< 4) % 18446744073709551616) ||| tx)
    (h4 : t4 < 4503599627370496) (hu : u0 < 4503599627370496) :
    u3 = u0 * 16 + tx ∧ u3 ≤ 72057594037927935 ∧ tx = t4 / 281474976710656 := by
  rw [Nat.shiftRight_eq_div_pow] at q1
  rw [Nat.shiftLeft_eq] at q2
  have e : u0 * 2 ^ 4 % 18446744073709551616 = u0 * 2 ^ 4 := by omega
  have htx : tx < 2 ^ 4 := by omega
  rw [e, Nat.or_comm, or_shl _ _ _ htx] at q2
  omega

set_option exponentiation.threshold 600 in
theorem val_mul_expand (a0 a1 a2 a3 a4 b0 b1 b2 b3 b4 : Nat) :
    (a0 + a1 * 2^52 + a2 * 2^104 + a3 * 2^156 + a4 * 2^208) * (b0 + b1 * 2^52 + b2 * 2^104 + b3 * 2^156 + b4 * 2^208)
    = a0 * b0 + (a0 * b1 + a1 * b0) * 2^52 + (a0 * b2 + a1 * b1 + a2 * b0) * 2^104
      + (a0 * b3 + a1 * b2 + a2 * b1 + a3 * b0) * 2^156
      + (a0 * b4 + a1 * b3 + a2 * b2 + a3 * b1 + a4 * b0) * 2^208 + (a1 * b4 + a2 * b3 + a3 * b2 + a4 * b1) * 2^260
      + (a2 * b4 + a3 * b3 + a4 * b2) * 2^312 + (a3 * b4 + a4 * b3) * 2^364 + a4 * b4 * 2^416 := by
  ring

theorem r4_bound (c17 t4f t4 r4 B : Nat) (hc : c17 ≤ B) (hB : B ≤ 281474976710655)
    (ht4 : t4 = t4f &&& 281474976710655) (hr4 : r4 = (c17 + t4) % 18446744073709551616) :
    r4 = c17 + t4f % 281474976710656 ∧ r4 ≤ 2 * 1 * (2^48 - 1) := by
  rw [and_M48] at ht4; omega

theorem mul_algebra (p00 p01 p02 p03 p04 p10 p11 p12 p13 p14 p20 p21 p22 p23 p24 p30 p31 p32 p33 p34 p40 p41 p42 p43 p44 : Nat)
    (chi2 clo2 VD6 t3 VD13 t4f tx t4 VD18 u0 u3 VC4 r0 VD22 v VC8 r1 VD25 dlo25 dhi25 VC13 r2 VC16 r3 c17 r4 : Nat)
    (hC2 : chi2 * 18446744073709551616 + clo2 = p44)
    (hVD6 : VD6 = p03 + p12 + p21 + p30 + clo2 * 68719492368)
    (ht3 : t3 = VD6 % 4503599627370496)
    (hVD13 : VD13 = VD6 / 4503599627370496 + p04 + p13 + p22 + p31 + p40 + 281475040739328 * chi2)
    (ht4f : t4f = VD13 % 4503599627370496)
    (htx : tx = t4f / 281474976710656) (ht4 : t4 = t4f % 281474976710656)
    (hVD18 : VD18 = VD13 / 4503599627370496 + p14 + p23 + p32 + p41)
    (hu0 : u0 = VD18 % 4503599627370496) (hu3 : u3 = u0 * 16 + tx)
    (hVC4 : VC4 = p00 + u3 * 4294968273) (hr0 : r0 = VC4 % 4503599627370496)
    (hVD22 : VD22 = VD18 / 4503599627370496 + p24 + p33 + p42)
    (hv : v = VD22 % 4503599627370496)
    (hVC8 : VC8 = VC4 / 4503599627370496 + p01 + p10 + v * 68719492368)
    (hr1 : r1 = VC8 % 4503599627370496)
    (hVD25 : VD25 = VD22 / 4503599627370496 + p34 + p43)
    (hdlo : dlo25 = VD25 % 18446744073709551616) (hdhi : dhi25 = VD25 / 18446744073709551616)
    (hVC13 : VC13 = VC8 / 4503599627370496 + p02 + p11 + p20 + 68719492368 * dlo25)
    (hr2 : r2 = VC13 % 4503599627370496)
    (hVC16 : VC16 = VC13 / 4503599627370496 + 281475040739328 * dhi25 + t3)
    (hr3 : r3 = VC16 % 4503599627370496)
    (hc17 : c17 = VC16 / 4503599627370496) (hr4 : r4 = c17 + t4) :
    r0 + r1 * 2^52 + r2 * 2^104 + r3 * 2^156 + r4 * 2^208
      + (16 * ((p14 + p23 + p32 + p41) + (p24 + p33 + p42) * 2^52 + (p34 + p43) * 2^104 + p44 * 2^156
          + VD13 / 4503599627370496) + tx)
        * 115792089237316195423570985008687907853269984665640564039457584007908834671663
    = p00 + (p01 + p10) * 2^52 + (p02 + p11 + p20) * 2^104 + (p03 + p12 + p21 + p30) * 2^156
      + (p04 + p13 + p22 + p31 + p40) * 2^208 + (p14 + p23 + p32 + p41) * 2^260
      + (p24 + p33 + p42) * 2^312 + (p34 + p43) * 2^364 + p44 * 2^416 := by
  omega

theorem mag1_of_lt {x : Nat} (h : x < 4503599627370496) : x ≤ 2 * 1 * (2^52 - 1) := by omega

theorem mul_core (a b : Fe) (ha : a.mag 8) (hb : b.mag 8) :
    (∃ K, (mul a b).val + K * P = a.val * b.val) ∧ (mul a b).mag 1 := by
  obtain ⟨ha0, ha1, ha2, ha3, ha4⟩ := mag8_bounds a ha
  obtain ⟨hb0, hb1, hb2, hb3, hb4⟩ := mag8_bounds b hb
  unfold mul
  extract_lets a0_1 a1_1 a2_1 a3_1 a4_1 b0_1 b1_1 b2_1 b3_1 b4_1 c_lo_1 d_hi_2 d_lo_2 hi_2 lo_2 d_lo_3 carry_2 d_hi_3 hi_3 lo_3 d_lo_4 carry_3 d_hi_4 hi_4 lo_4 d_lo_5 carry_4 d_hi_5 c_hi_2 c_lo_2 hi_5 lo_5 d_lo_6 carry_5 d_hi_6 t3_2 d_lo_7 d_hi_7 hi_6 lo_6 d_lo_8 carry_6 d_hi_8 hi_7 lo_7 d_lo_9 carry_7 d_hi_9 hi_8 lo_8 d_lo_10 carry_8 d_hi_10 hi_9 lo_9 d_lo_11 carry_9 d_hi_11 hi_10 lo_10 d_lo_12 carry_10 d_hi_12 hi_11 lo_11 d_lo_13 carry_11 d_hi_13 t4_2 d_lo_14 d_hi_14 tx_2 t4_3 c_hi_3 c_lo_3 hi_12 lo_12 d_lo_15 carry_12 d_hi_15 hi_13 lo_13 d_lo_16 carry_13 d_hi_16 hi_14 lo_14 d_lo_17 carry_14 d_hi_17 hi_15 lo_15 d_lo_18 carry_15 d_hi_18 u0_2 d_lo_19 d_hi_19 u0_3 hi_16 lo_16 c_lo_4 carry_16 c_hi_4 r_n0_1 c_lo_5 c_hi_5 hi_17 lo_17 c_lo_6 carry_17 c_hi_6 hi_18 lo_18 c_lo_7 carry_18 c_hi_7 hi_19 lo_19 d_lo_20 carry_19 d_hi_20 hi_20 lo_20 d_lo_21 carry_20 d_hi_21 hi_21 lo_21 d_lo_22 carry_21 d_hi_22 hi_22 lo_22 c_lo_8 carry_22 c_hi_8 d_lo_23 d_hi_23 r_n1_1 c_lo_9 c_hi_9 hi_23 lo_23 c_lo_10 carry_23 c_hi_10 hi_24 lo_24 c_lo_11 carry_24 c_hi_11 hi_25 lo_25 c_lo_12 carry_25 c_hi_12 hi_26 lo_26 d_lo_24 carry_26 d_hi_24 hi_27 lo_27 d_lo_25 carry_27 d_hi_25 hi_28 lo_28 c_lo_13 carry_28 c_hi_13 d_lo_26 r_n2_1 c_lo_14 c_hi_14 hi_29 lo_29 c_lo_15 carry_29 c_hi_15 c_lo_16 carry_30 c_hi_16 r_n3_1 c_lo_17 c_hi_17 r_n4_1
  have D2 := St.init (a.n0 * b.n3) d_lo_2 d_hi_2 rfl rfl (Nat.mul_le_mul ha0 hb3)
  have D3 := D2.acc (a.n1 * b.n2) lo_2 hi_2 d_lo_3 carry_2 d_hi_3 rfl rfl rfl rfl rfl (Nat.mul_le_mul ha1 hb2) (by decide)
  have D4 := D3.acc (a.n2 * b.n1) lo_3 hi_3 d_lo_4 carry_3 d_hi_4 rfl rfl rfl rfl rfl (Nat.mul_le_mul ha2 hb1) (by decide)
  have D5 := D4.acc (a.n3 * b.n0) lo_4 hi_4 d_lo_5 carry_4 d_hi_5 rfl rfl rfl rfl rfl (Nat.mul_le_mul ha3 hb0) (by decide)
  have C2 := St.init (a.n4 * b.n4) c_lo_2 c_hi_2 rfl rfl (Nat.mul_le_mul ha4 hb4)
  have D6 := D5.acc (c_lo_2 * 68719492368) lo_5 hi_5 d_lo_6 carry_5 d_hi_6 rfl rfl rfl rfl rfl (lt_mul_c _ C2.2.2) (by decide)
  obtain ⟨VD6, hVD6, D6⟩ : ∃ V, V = _ ∧ St d_hi_6 d_lo_6 V _ := ⟨_, rfl, D6⟩
  have ht3 : t3_2 = VD6 % 4503599627370496 := D6.lo52
  have D7 := D6.shr d_lo_7 d_hi_7 rfl rfl
  have D8 := D7.acc (a.n0 * b.n4) lo_6 hi_6 d_lo_8 carry_6 d_hi_8 rfl rfl rfl rfl rfl (Nat.mul_le_mul ha0 hb4) (by decide)
  have D9 := D8.acc (a.n1 * b.n3) lo_7 hi_7 d_lo_9 carry_7 d_hi_9 rfl rfl rfl rfl rfl (Nat.mul_le_mul ha1 hb3) (by decide)
  have D10 := D9.acc (a.n2 * b.n2) lo_8 hi_8 d_lo_10 carry_8 d_hi_10 rfl rfl rfl rfl rfl (Nat.mul_le_mul ha2 hb2) (by decide)
  have D11 := D10.acc (a.n3 * b.n1) lo_9 hi_9 d_lo_11 carry_9 d_hi_11 rfl rfl rfl rfl rfl (Nat.mul_le_mul ha3 hb1) (by decide)
  have D12 := D11.acc (a.n4 * b.n0) lo_10 hi_10 d_lo_12 carry_10 d_hi_12 rfl rfl rfl rfl rfl (Nat.mul_le_mul ha4 hb0) (by decide)
  have D13 := D12.acc (281475040739328 * c_hi_2) lo_11 hi_11 d_lo_13 carry_11 d_hi_13 rfl rfl rfl rfl rfl (Nat.mul_le_mul_left _ C2.hi.2) (by decide)
  obtain ⟨VD13, hVD13, D13⟩ : ∃ V, V = _ ∧ St d_hi_13 d_lo_13 V _ := ⟨_, rfl, D13⟩
  have ht4 : t4_2 = VD13 % 4503599627370496 := D13.lo52
  have D14 := D13.shr d_lo_14 d_hi_14 rfl rfl
  have C3 := St.init (a.n0 * b.n0) c_lo_3 c_hi_3 rfl rfl (Nat.mul_le_mul ha0 hb0)
  have D15 := D14.acc (a.n1 * b.n4) lo_12 hi_12 d_lo_15 carry_12 d_hi_15 rfl rfl rfl rfl rfl (Nat.mul_le_mul ha1 hb4) (by decide)
  have D16 := D15.acc (a.n2 * b.n3) lo_13 hi_13 d_lo_16 carry_13 d_hi_16 rfl rfl rfl rfl rfl (Nat.mul_le_mul ha2 hb3) (by decide)
  have D17 := D16.acc (a.n3 * b.n2) lo_14 hi_14 d_lo_17 carry_14 d_hi_17 rfl rfl rfl rfl rfl (Nat.mul_le_mul ha3 hb2) (by decide)
  have D18 := D17.acc (a.n4 * b.n1) lo_15 hi_15 d_lo_18 carry_15 d_hi_18 rfl rfl rfl rfl rfl (Nat.mul_le_mul ha4 hb1) (by decide)
  obtain ⟨VD18, hVD18, D18⟩ : ∃ V, V = _ ∧ St d_hi_18 d_lo_18 V _ := ⟨_, rfl, D18⟩
  have hu0 : u0_2 = VD18 % 4503599627370496 := D18.lo52
  have D19 := D18.shr d_lo_19 d_hi_19 rfl rfl
  have hu3 := u0_3_eq u0_2 tx_2 t4_2 u0_3 rfl rfl (ht4 ▸ Nat.mod_lt _ (by decide)) (hu0 ▸ Nat.mod_lt _ (by decide))
  have C4 := C3.acc (u0_3 * 4294968273) lo_16 hi_16 c_lo_4 carry_16 c_hi_4 rfl rfl rfl rfl rfl (Nat.mul_le_mul_right _ hu3.2.1) (by decide)
  obtain ⟨VC4, hVC4, C4⟩ : ∃ V, V = _ ∧ St c_hi_4 c_lo_4 V _ := ⟨_, rfl, C4⟩
  have hr0 : r_n0_1 = VC4 % 4503599627370496 := C4.lo52
  have C5 := C4.shr c_lo_5 c_hi_5 rfl rfl
  have C6 := C5.acc (a.n0 * b.n1) lo_17 hi_17 c_lo_6 carry_17 c_hi_6 rfl rfl rfl rfl rfl (Nat.mul_le_mul ha0 hb1) (by decide)
  have C7 := C6.acc (a.n1 * b.n0) lo_18 hi_18 c_lo_7 carry_18 c_hi_7 rfl rfl rfl rfl rfl (Nat.mul_le_mul ha1 hb0) (by decide)
  have D20 := D19.acc (a.n2 * b.n4) lo_19 hi_19 d_lo_20 carry_19 d_hi_20 rfl rfl rfl rfl rfl (Nat.mul_le_mul ha2 hb4) (by decide)
  have D21 := D20.acc (a.n3 * b.n3) lo_20 hi_20 d_lo_21 carry_20 d_hi_21 rfl rfl rfl rfl rfl (Nat.mul_le_mul ha3 hb3) (by decide)
  have D22 := D21.acc (a.n4 * b.n2) lo_21 hi_21 d_lo_22 carry_21 d_hi_22 rfl rfl rfl rfl rfl (Nat.mul_le_mul ha4 hb2) (by decide)
  obtain ⟨VD22, hVD22, D22⟩ : ∃ V, V = _ ∧ St d_hi_22 d_lo_22 V _ := ⟨_, rfl, D22⟩
  have C8 := C7.acc ((d_lo_22 &&& 4503599627370495) * 68719492368) lo_22 hi_22 c_lo_8 carry_22 c_hi_8 rfl rfl rfl rfl rfl (Nat.mul_le_mul_right _ (and_M52_le _)) (by decide)
  have hv : d_lo_22 &&& 4503599627370495 = VD22 % 4503599627370496 := D22.lo52
  have D23 := D22.shr d_lo_23 d_hi_23 rfl rfl
  obtain ⟨VC8, hVC8, C8⟩ : ∃ V, V = _ ∧ St c_hi_8 c_lo_8 V _ := ⟨_, rfl, C8⟩
  have hr1 : r_n1_1 = VC8 % 4503599627370496 := C8.lo52
  have C9 := C8.shr c_lo_9 c_hi_9 rfl rfl
  have C10 := C9.acc (a.n0 * b.n2) lo_23 hi_23 c_lo_10 carry_23 c_hi_10 rfl rfl rfl rfl rfl (Nat.mul_le_mul ha0 hb2) (by decide)
  have C11 := C10.acc (a.n1 * b.n1) lo_24 hi_24 c_lo_11 carry_24 c_hi_11 rfl rfl rfl rfl rfl (Nat.mul_le_mul ha1 hb1) (by decide)
  have C12 := C11.acc (a.n2 * b.n0) lo_25 hi_25 c_lo_12 carry_25 c_hi_12 rfl rfl rfl rfl rfl (Nat.mul_le_mul ha2 hb0) (by decide)
  have D24 := D23.acc (a.n3 * b.n4) lo_26 hi_26 d_lo_24 carry_26 d_hi_24 rfl rfl rfl rfl rfl (Nat.mul_le_mul ha3 hb4) (by decide)
  have D25 := D24.acc (a.n4 * b.n3) lo_27 hi_27 d_lo_25 carry_27 d_hi_25 rfl rfl rfl rfl rfl (Nat.mul_le_mul ha4 hb3) (by decide)
  obtain ⟨VD25, hVD25, D25⟩ : ∃ V, V = _ ∧ St d_hi_25 d_lo_25 V _ := ⟨_, rfl, D25⟩
  have C13 := C12.acc (68719492368 * d_lo_25) lo_28 hi_28 c_lo_13 carry_28 c_hi_13 rfl rfl rfl rfl rfl (Nat.mul_le_mul_left _ (Nat.le_of_lt_succ (Nat.succ_le_of_lt D25.2.2))) (by decide)
  obtain ⟨VC13, hVC13, C13⟩ : ∃ V, V = _ ∧ St c_hi_13 c_lo_13 V _ := ⟨_, rfl, C13⟩
  have hr2 : r_n2_1 = VC13 % 4503599627370496 := C13.lo52
  have C14 := C13.shr c_lo_14 c_hi_14 rfl rfl
  have C15 := C14.acc (281475040739328 * d_lo_26) lo_29 hi_29 c_lo_15 carry_29 c_hi_15 rfl rfl rfl rfl rfl (Nat.mul_le_mul_left _ D25.hi.2) (by decide)
  have C16 := C15.acc64 t3_2 c_lo_16 carry_30 c_hi_16 rfl rfl rfl (Nat.le_of_lt_succ (ht3 ▸ Nat.mod_lt _ (by decide))) (by decide) (by decide)
  obtain ⟨VC16, hVC16, C16⟩ : ∃ V, V = _ ∧ St c_hi_16 c_lo_16 V _ := ⟨_, rfl, C16⟩
  have hr3 : r_n3_1 = VC16 % 4503599627370496 := C16.lo52
  have C17 := C16.shr c_lo_17 c_hi_17 rfl rfl
  have C17s := C17.small (by decide)
  have h4 := r4_bound c_lo_17 t4_2 t4_3 r_n4_1 _ (C17s.2 ▸ C17.le) (by decide) rfl rfl
  have hd26 : d_lo_26 = VD25 / 18446744073709551616 := D25.hi.1
  rw [hv] at hVC8
  have key := mul_algebra (a.n0 * b.n0) (a.n0 * b.n1) (a.n0 * b.n2) (a.n0 * b.n3) (a.n0 * b.n4)
    (a.n1 * b.n0) (a.n1 * b.n1) (a.n1 * b.n2) (a.n1 * b.n3) (a.n1 * b.n4)
    (a.n2 * b.n0) (a.n2 * b.n1) (a.n2 * b.n2) (a.n2 * b.n3) (a.n2 * b.n4)
    (a.n3 * b.n0) (a.n3 * b.n1) (a.n3 * b.n2) (a.n3 * b.n3) (a.n3 * b.n4)
    (a.n4 * b.n0) (a.n4 * b.n1) (a.n4 * b.n2) (a.n4 * b.n3) (a.n4 * b.n4)
    c_hi_2 c_lo_2 VD6 t3_2 VD13 t4_2 tx_2 (t4_2 % 281474976710656) VD18 u0_2 u0_3 VC4 r_n0_1 VD22
    (VD22 % 4503599627370496) VC8 r_n1_1 VD25 d_lo_25 d_lo_26 VC13 r_n2_1 VC16 r_n3_1 c_lo_17 r_n4_1
    C2.1 hVD6 ht3 hVD13 ht4 hu3.2.2 rfl hVD18 hu0 hu3.1 hVC4 hr0 hVD22 rfl hVC8 hr1 hVD25 D25.lo hd26
    hVC13 hr2 hVC16 hr3 C17s.2 h4.1
  refine ⟨⟨(16 * ((a.n1 * b.n4 + a.n2 * b.n3 + a.n3 * b.n2 + a.n4 * b.n1) + (a.n2 * b.n4 + a.n3 * b.n3 + a.n4 * b.n2) * 2^52
      + (a.n3 * b.n4 + a.n4 * b.n3) * 2^104 + a.n4 * b.n4 * 2^156 + VD13 / 4503599627370496) + tx_2), ?_⟩, ?_⟩
  · rw [P_eq]
    show r_n0_1 + r_n1_1 * 2^52 + r_n2_1 * 2^104 + r_n3_1 * 2^156 + r_n4_1 * 2^208 + _ * _ = a.val * b.val
    unfold Fe.val
    rw [val_mul_expand]
    exact key
  · unfold Fe.mag
    have e0 : r_n0_1 < 4503599627370496 := hr0 ▸ Nat.mod_lt _ (by decide)
    have e1 : r_n1_1 < 4503599627370496 := hr1 ▸ Nat.mod_lt _ (by decide)
    have e2 : r_n2_1 < 4503599627370496 := hr2 ▸ Nat.mod_lt _ (by decide)
    have e3 : r_n3_1 < 4503599627370496 := hr3 ▸ Nat.mod_lt _ (by decide)
    exact ⟨mag1_of_lt e0, mag1_of_lt e1, mag1_of_lt e2, mag1_of_lt e3, h4.2⟩

/-- `Field.Mul`: for ALL limb vectors of magnitude ≤ 8 -/
theorem mul_val (a b : Fe) (ha : a.mag 8) (hb : b.mag 8) :
    (mul a b).val % P = a.val * b.val % P ∧ (mul a b).mag 1 := by
  obtain ⟨⟨K, hK⟩, hm⟩ := mul_core a b ha hb
  exact ⟨by rw [← hK, Nat.add_mul_mod_self_right], hm⟩
end GocoinV.C08
