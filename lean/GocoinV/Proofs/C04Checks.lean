/-
  Proofs.C04Checks — the context-free checks of the model agree with the specification's.
-/
import GocoinV.Spec.Connect
namespace GocoinV.Proofs.C04
open GocoinV GocoinV.Connect

theorem isFinal_eq (tx : Tx) (h t : Nat) : isFinal tx h t = Spec.Connect.isFinalTx tx h t := by
  unfold isFinal Spec.Connect.isFinalTx
  have ht : LOCKTIME_THRESHOLD = 500000000 := rfl
  rw [ht]
  by_cases h0 : tx.lockTime = 0
  · simp [h0]
  · by_cases h1 : tx.lockTime < 500000000
    · by_cases h2 : tx.lockTime < h
      · simp [h0, h1, h2]
      · have : ¬ tx.lockTime ≥ 500000000 := by omega
        simp [h0, h1, h2, this]
    · by_cases h2 : tx.lockTime < t
      · have : tx.lockTime ≥ 500000000 := by omega
        simp [h0, h1, h2, this]
      · simp [h0, h1, h2]

theorem checkOut_spec (outs : List TxOut) (tot : Nat) (ht : tot ≤ MAX_MONEY) (h : checkOutValues outs tot = .ok ()) :
    Spec.Connect.outsInRange outs tot = true := by
  induction outs generalizing tot with
  | nil => rfl
  | cons o r ih =>
    unfold checkOutValues at h
    have hm : MAX_MONEY = 2100000000000000 := by decide
    have hs : Spec.Connect.MAX_MONEY = 2100000000000000 := rfl
    by_cases h1 : o.value > MAX_MONEY
    · simp [h1] at h
    · simp only [h1, ↓reduceIte] at h
      have hu : u64 (tot + o.value) = tot + o.value := by unfold u64; omega
      rw [hu] at h
      by_cases h2 : tot + o.value > MAX_MONEY
      · simp [h2] at h
      · simp only [h2, ↓reduceIte] at h
        unfold Spec.Connect.outsInRange Spec.Connect.moneyRange
        rw [ih (tot + o.value) (by omega) h]
        simp [hs]
        omega

end GocoinV.Proofs.C04
