/-
  Proofs.C13Demo — a concrete toy instance (hash = length-based, signatures always verify) used only by the
  non-vacuity `example`s of Props/C13.lean: it shows that the hypotheses of the theorems are jointly satisfiable.
-/
import GocoinV.Proofs.C13Sig
namespace GocoinV.WalletTx.Demo
open GocoinV GocoinV.WalletTx GocoinV.WalletSpec

def H0 : Addr.Hashes := { sha2sum := fun _ => [], hash160 := fun b => List.replicate 20 (UInt8.ofNat b.length) }
def c0 : Cfg :=
  { testnet := false, bech32 := false, fee := 1000, subfee := false, useAll := false, seq := 4294967293,
    lockTime := 0, version := 2, change := none, msg := [] }
def send0 : Bytes := strBytes "bc1qw508d6qejxtdg4y5r3zarvary0c5xw7kv8f3t4=0.5"
def pub0 : Bytes := 2 :: List.replicate 32 7
def ks0 := keyTable H0 false [pub0]
def coin0 : Coin := { txid := List.replicate 32 9, vout := 1, value := 60000000, script := p2pkhScript (List.replicate 20 33) }

def okReq (r : Except Fail Req) : Option Req := match r with | .ok q => some q | _ => none
def isExit1 {α} (r : Except Fail α) : Bool := match r with | .error .exit1 => true | _ => false
def written (r : Except Fail (Option Written)) : Option Written := match r with | .ok (some w) => some w | _ => none

def C0 : Crypto :=
  { hash160 := H0.hash160, ecdsaVerify := fun _ _ _ => true, schnorrVerify := fun _ _ _ => true,
    legacyDigest := fun _ _ _ _ => [], witnessDigest := fun _ _ _ _ _ => [], taprootDigest := fun _ _ _ _ => [] }
def S0 : Signer := { ecdsa := fun _ _ => [0x30], schnorr := fun _ _ => List.replicate 64 0 }
def uo0 : TxOut := { value := 60000000, script := p2pkhScript (List.replicate 20 33) }
def inp0 : TxIn := { txid := List.replicate 32 9, vout := 1, scriptSig := [], sequence := 5 }
def t0 : Tx := { version := 2, ins := [inp0], outs := [{ value := 1, script := [0x6a] }], wit := none, lockTime := 0 }

end GocoinV.WalletTx.Demo
