/-
  Proofs.C01FindDel — gocoin's `delSig` (decode instruction by instruction, drop the instructions that are
  byte-for-byte the push of the signature) against Core's `FindAndDelete` (skip every occurrence of the pattern
  at an instruction boundary, by byte comparison), on scripts without a decode error.  On a script WITH a decode
  error the two differ (delSig drops the undecodable tail) — such a script fails as a whole in both interpreters.
-/
import GocoinV.Proofs.C01Sig
set_option linter.unusedSimpArgs false
namespace GocoinV.Proofs.C01
open GocoinV GocoinV.Script

/-- what the two deletion loops need to know about the pattern `b`, for positions `pc` of length ≤ L:
    "the instruction decoded at `pc` is byte-for-byte `b`" (gocoin) ⇔ "`pc` starts with `b`" (Core) -/
structure PatOk (b : Bytes) (L : Nat) : Prop where
  ne : b ≠ []
  some : ∀ pc op, pc.length ≤ L → getOpcode pc = some op →
    ((pc.take op.n == b) = (decide (pc.length ≥ b.length) && ScriptSpec.startsWith pc b))
  none : ∀ pc, pc.length ≤ L → getOpcode pc = none → (decide (pc.length ≥ b.length) && ScriptSpec.startsWith pc b) = false

theorem skip_fuel (b : Bytes) (hne : b ≠ []) : ∀ k1 k2 X c, X.length ≤ k1 → X.length ≤ k2 →
    ScriptSpec.skipMatches b k1 X c = ScriptSpec.skipMatches b k2 X c := by
  have hbl : b.length ≥ 1 := by cases b with | nil => exact absurd rfl hne | cons _ _ => simp
  intro k1
  induction k1 with
  | zero =>
    intro k2 X c h1 _
    have : X = [] := List.eq_nil_of_length_eq_zero (by omega)
    subst this
    cases k2 with
    | zero => rfl
    | succ k2 =>
      have : ¬ (0 ≥ b.length) := by omega
      simp [ScriptSpec.skipMatches, this]
  | succ k1 ih =>
    intro k2 X c h1 h2
    cases k2 with
    | zero =>
      have : X = [] := List.eq_nil_of_length_eq_zero (by omega)
      subst this
      have : ¬ (0 ≥ b.length) := by omega
      simp [ScriptSpec.skipMatches, this]
    | succ k2 =>
      simp only [ScriptSpec.skipMatches]
      by_cases hm : (decide (X.length ≥ b.length) && ScriptSpec.startsWith X b) = true
      · simp only [hm, ↓reduceIte]
        have hx : X.length ≥ b.length := by simp at hm; exact hm.1
        apply ih <;> simp <;> omega
      · simp [hm]

theorem skip_nomatch (b : Bytes) (k : Nat) (X : Bytes) (c : Nat)
    (h : (decide (X.length ≥ b.length) && ScriptSpec.startsWith X b) = false) :
    ScriptSpec.skipMatches b k X c = (X, c) := by
  cases k with
  | zero => rfl
  | succ k => simp [ScriptSpec.skipMatches, h]

theorem fad_loop (b : Bytes) (L : Nat) (hb : PatOk b L) :
    ∀ f pc res cnt g, pc.length ≤ L → (ScriptSpec.parseAux f pc).2 = false → pc.length + 1 ≤ g →
      ScriptSpec.findAndDeleteAux b g pc res cnt = delSigAux b f pc res cnt := by
  have hbl : b.length ≥ 1 := by cases b with | nil => exact absurd rfl hb.ne | cons _ _ => simp
  intro f
  induction f with
  | zero =>
    intro pc res cnt g hL hw hg
    simp only [ScriptSpec.parseAux] at hw
    have hpc : pc = [] := by cases pc with | nil => rfl | cons _ _ => simp at hw
    subst hpc
    cases g with
    | zero => simp at hg
    | succ g =>
      have : ¬ (0 ≥ b.length) := by omega
      simp [ScriptSpec.findAndDeleteAux, ScriptSpec.skipMatches, ScriptSpec.parseOne, delSigAux]
  | succ f ih =>
    intro pc res cnt g hL hw hg
    cases g with
    | zero => omega
    | succ g =>
    by_cases he : pc.isEmpty
    · have hpc : pc = [] := by simpa using he
      subst hpc
      simp [ScriptSpec.findAndDeleteAux, ScriptSpec.skipMatches, ScriptSpec.parseOne, delSigAux]
    · simp only [ScriptSpec.parseAux, he, Bool.false_eq_true, ↓reduceIte] at hw
      simp only [delSigAux, he, Bool.false_eq_true, ↓reduceIte]
      cases hgo : getOpcode pc with
      | none => simp [parseOne_none_of_getOpcode hgo] at hw
      | some op =>
        obtain ⟨i, hp, _, _, h3, _, hn1, hn2⟩ := parseOne_of_getOpcode hgo
        simp only [hp] at hw
        have hw' : (ScriptSpec.parseAux f i.after).2 = false := hw
        have hm := hb.some pc op hL hgo
        simp only
        by_cases hmatch : (pc.take op.n == b) = true
        · -- the instruction is the pattern: both skip it
          have hne : (pc.take op.n != b) = false := by simp [bne, hmatch]
          simp only [hne, Bool.false_eq_true, ↓reduceIte]
          rw [hmatch] at hm
          have hbn : op.n = b.length := by
            have := congrArg List.length (beq_iff_eq.mp hmatch)
            simp at this; omega
          have hx : pc.length ≥ b.length := by omega
          rw [← ih (pc.drop op.n) res (cnt + 1) (g + 1) (by simp; omega) (by rw [← h3]; exact hw') (by simp; omega)]
          simp only [ScriptSpec.findAndDeleteAux]
          have hpl : pc.length = (pc.length - 1) + 1 := by omega
          have hskip : ScriptSpec.skipMatches b pc.length pc cnt =
              ScriptSpec.skipMatches b (pc.drop op.n).length (pc.drop op.n) (cnt + 1) := by
            rw [hpl]
            simp only [ScriptSpec.skipMatches]
            rw [← hm]
            simp only [↓reduceIte, hbn]
            apply skip_fuel b hb.ne <;> simp <;> omega
          rw [hskip]
        · have hne : (pc.take op.n != b) = true := by simp [bne, hmatch]
          simp only [hne, ↓reduceIte]
          have hmf : (decide (pc.length ≥ b.length) && ScriptSpec.startsWith pc b) = false := by
            rw [← hm]; simpa using hmatch
          simp only [ScriptSpec.findAndDeleteAux, skip_nomatch b _ pc cnt hmf, hp]
          have hlen : pc.length - i.after.length = op.n := by rw [h3]; simp; omega
          rw [hlen, h3]
          exact ih (pc.drop op.n) (res ++ pc.take op.n) cnt g (by simp; omega) (by rw [← h3]; exact hw') (by simp; omega)

theorem delSig_count (b : Bytes) : ∀ f pc res cnt, (ScriptSpec.parseAux f pc).2 = false →
    cnt ≤ (delSigAux b f pc res cnt).2 ∧ ((delSigAux b f pc res cnt).2 = cnt → (delSigAux b f pc res cnt).1 = res ++ pc) := by
  intro f
  induction f with
  | zero =>
    intro pc res cnt hw
    simp only [ScriptSpec.parseAux] at hw
    have hpc : pc = [] := by cases pc with | nil => rfl | cons _ _ => simp at hw
    subst hpc
    simp [delSigAux]
  | succ f ih =>
    intro pc res cnt hw
    by_cases he : pc.isEmpty
    · have hpc : pc = [] := by simpa using he
      subst hpc
      simp [delSigAux]
    · simp only [ScriptSpec.parseAux, he, Bool.false_eq_true, ↓reduceIte] at hw
      simp only [delSigAux, he, Bool.false_eq_true, ↓reduceIte]
      cases hgo : getOpcode pc with
      | none => simp [parseOne_none_of_getOpcode hgo] at hw
      | some op =>
        obtain ⟨i, hp, _, _, h3, _, hn1, hn2⟩ := parseOne_of_getOpcode hgo
        simp only [hp] at hw
        have hw' : (ScriptSpec.parseAux f (pc.drop op.n)).2 = false := by rw [← h3]; exact hw
        simp only
        by_cases hne : (pc.take op.n != b) = true
        · simp only [hne, ↓reduceIte]
          have := ih (pc.drop op.n) (res ++ pc.take op.n) cnt hw'
          refine ⟨this.1, fun h => ?_⟩
          rw [this.2 h, List.append_assoc, List.take_append_drop]
        · simp only [hne, Bool.false_eq_true, ↓reduceIte]
          have := ih (pc.drop op.n) res (cnt + 1) hw'
          refine ⟨by omega, fun h => ?_⟩
          omega

theorem ofNat_mod256 (n : Nat) : UInt8.ofNat (n % 256) = UInt8.ofNat n := by
  apply UInt8.toNat_inj.mp
  simp [UInt8.toNat_ofNat']

theorem sigPushPrefix_eq (sig : Bytes) : sigPushPrefix sig.length ++ sig = ScriptSpec.pushEncoding sig := by
  unfold sigPushPrefix ScriptSpec.pushEncoding
  simp only
  by_cases h1 : sig.length < 0x4c
  · simp [h1]
  · by_cases h2 : sig.length ≤ 0xff
    · simp [h1, h2]
    · by_cases h3 : sig.length ≤ 0xffff
      · simp [h1, h2, h3, leBytes, ofNat_mod256, Nat.shiftRight_eq_div_pow]
      · simp [h1, h2, h3, leBytes, ofNat_mod256, Nat.shiftRight_eq_div_pow, Nat.div_div_eq_div_mul]


theorem u8_ofNat_toNat (n : Nat) (h : n < 256) : (UInt8.ofNat n).toNat = n := by
  simp [UInt8.toNat_ofNat']; omega

theorem pushEncoding_length (sig : Bytes) : sig.length < (ScriptSpec.pushEncoding sig).length := by
  unfold ScriptSpec.pushEncoding
  simp only
  split
  · simp
  · split
    · simp; omega
    · split <;> simp <;> omega

theorem getOpcode_push (sig rest : Bytes) (h : sig.length < 2 ^ 32) :
    ∃ opc, getOpcode (ScriptSpec.pushEncoding sig ++ rest) = some ⟨opc, some sig, (ScriptSpec.pushEncoding sig).length⟩ := by
  unfold ScriptSpec.pushEncoding
  simp only
  by_cases h1 : sig.length < 0x4c
  · refine ⟨sig.length, ?_⟩
    have ht : (UInt8.ofNat sig.length).toNat = sig.length := u8_ofNat_toNat _ (by omega)
    have h2 : sig.length ≤ 0x4e := by omega
    have h3 : ¬ (1 + sig.length > (sig ++ rest).length + 1) := by simp; omega
    simp [h1, getOpcode, ht, h2, h3]
    omega
  · by_cases h2 : sig.length ≤ 0xff
    · refine ⟨0x4c, ?_⟩
      have ht : (UInt8.ofNat sig.length).toNat = sig.length := u8_ofNat_toNat _ (by omega)
      have h3 : ¬ (2 + sig.length > (UInt8.ofNat sig.length :: (sig ++ rest)).length + 1) := by simp; omega
      simp [h1, h2, getOpcode, leVal, ht]
      omega
    · by_cases h3 : sig.length ≤ 0xffff
      · refine ⟨0x4d, ?_⟩
        have hv : leVal (leBytes 2 sig.length) = sig.length := by rw [leVal_leBytes]; omega
        have htk : List.take 2 (leBytes 2 sig.length ++ (sig ++ rest)) = leBytes 2 sig.length := by
          rw [List.take_append_of_le_length (by simp)]; simp [List.take_of_length_le]
        have hdr : List.drop 2 (leBytes 2 sig.length ++ (sig ++ rest)) = sig ++ rest := by
          rw [List.drop_append_of_le_length (by simp)]; simp [List.drop_of_length_le]
        simp only [h1, h2, h3, ↓reduceIte, List.cons_append, List.append_assoc, getOpcode]
        simp [htk, hv, hdr]
        omega
      · refine ⟨0x4e, ?_⟩
        have hv : leVal (leBytes 4 sig.length) = sig.length := by rw [leVal_leBytes]; omega
        have htk : List.take 4 (leBytes 4 sig.length ++ (sig ++ rest)) = leBytes 4 sig.length := by
          rw [List.take_append_of_le_length (by simp)]; simp [List.take_of_length_le]
        have hdr : List.drop 4 (leBytes 4 sig.length ++ (sig ++ rest)) = sig ++ rest := by
          rw [List.drop_append_of_le_length (by simp)]; simp [List.drop_of_length_le]
        simp only [h1, h2, h3, ↓reduceIte, List.cons_append, List.append_assoc, getOpcode]
        simp [htk, hv, hdr]
        omega

theorem patOk_push (sig : Bytes) (L : Nat) (hL : L < 2 ^ 32) : PatOk (ScriptSpec.pushEncoding sig) L := by
  have hlen := pushEncoding_length sig
  have key : ∀ pc, pc.length ≤ L → pc.length ≥ (ScriptSpec.pushEncoding sig).length →
      ScriptSpec.startsWith pc (ScriptSpec.pushEncoding sig) = true →
      ∃ opc, getOpcode pc = some ⟨opc, some sig, (ScriptSpec.pushEncoding sig).length⟩ := by
    intro pc hpl hge hst
    have hs : sig.length < 2 ^ 32 := by omega
    have hpc : pc = ScriptSpec.pushEncoding sig ++ pc.drop (ScriptSpec.pushEncoding sig).length := by
      unfold ScriptSpec.startsWith at hst
      have := beq_iff_eq.mp hst
      conv => lhs; rw [← List.take_append_drop (ScriptSpec.pushEncoding sig).length pc]
      rw [this]
    rw [hpc]
    exact getOpcode_push sig _ hs
  refine ⟨?_, ?_, ?_⟩
  · intro h; rw [h] at hlen; simp at hlen
  · intro pc op hpl hgo
    obtain ⟨i, _, _, _, _, _, hn1, hn2⟩ := parseOne_of_getOpcode hgo
    by_cases hm : (pc.take op.n == ScriptSpec.pushEncoding sig) = true
    · have he := beq_iff_eq.mp hm
      have hbl : (ScriptSpec.pushEncoding sig).length = op.n := by rw [← he]; simp; omega
      have : ScriptSpec.startsWith pc (ScriptSpec.pushEncoding sig) = true := by
        unfold ScriptSpec.startsWith; rw [hbl]; exact hm
      rw [hm, this]
      simp; omega
    · by_cases hs : (decide (pc.length ≥ (ScriptSpec.pushEncoding sig).length) && ScriptSpec.startsWith pc (ScriptSpec.pushEncoding sig)) = true
      · exfalso
        simp only [Bool.and_eq_true, decide_eq_true_eq] at hs
        obtain ⟨opc, hg2⟩ := key pc hpl hs.1 hs.2
        rw [hgo] at hg2
        have hopn : op.n = (ScriptSpec.pushEncoding sig).length := by cases hg2; rfl
        apply hm
        rw [hopn]
        exact hs.2
      · simp only [Bool.not_eq_true] at hm hs
        rw [hm, hs]
  · intro pc hpl hgo
    by_cases hs : (decide (pc.length ≥ (ScriptSpec.pushEncoding sig).length) && ScriptSpec.startsWith pc (ScriptSpec.pushEncoding sig)) = true
    · exfalso
      simp only [Bool.and_eq_true, decide_eq_true_eq] at hs
      obtain ⟨opc, hg2⟩ := key pc hpl hs.1 hs.2
      rw [hgo] at hg2
      cases hg2
    · simpa using hs

/-- `delSig(code, sig)` = `FindAndDelete(code, CScript() << sig)` (new script AND number of deletions) for every
    script that decodes to its end and is shorter than 2^32 bytes -/
theorem delSig_eq (code sig : Bytes) (hw : (ScriptSpec.parse code).2 = false) (hL : code.length < 2 ^ 32) :
    delSig code sig = ScriptSpec.findAndDelete code (ScriptSpec.pushEncoding sig) := by
  unfold delSig ScriptSpec.findAndDelete
  rw [sigPushPrefix_eq]
  have hb := patOk_push sig code.length hL
  have hne : (ScriptSpec.pushEncoding sig).isEmpty = false := by
    cases h : ScriptSpec.pushEncoding sig with
    | nil => exact absurd h hb.ne
    | cons _ _ => rfl
  simp only [hne, Bool.false_eq_true, ↓reduceIte]
  rw [fad_loop _ _ hb code.length code [] 0 (code.length + 1) (Nat.le_refl _) hw (Nat.le_refl _)]
  have hc := delSig_count (ScriptSpec.pushEncoding sig) code.length code [] 0 hw
  generalize delSigAux (ScriptSpec.pushEncoding sig) code.length code [] 0 = rr at hc
  obtain ⟨r, n⟩ := rr
  simp only at hc ⊢
  by_cases hn : n > 0
  · simp [hn]
  · have : n = 0 := by omega
    subst this
    have := hc.2 rfl
    simp at this
    simp [this]

end GocoinV.Proofs.C01
