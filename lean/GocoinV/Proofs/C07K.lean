/-
  Proofs.C07K — what is needed on top of `InvQ` (disk/node coupling) and `J` (provenance + in-memory chain) to show that
  the model never panics on well-formed histories and that the tip is the best stored leaf:
    * chains of tree nodes (`TChain`): every tree node has one; FindFirstFather returns a common ancestor within its
      fuel; FindPathTo succeeds from an ancestor;
    * the undo-file part of the ON-DISK invariant (`UInv`: every snapshot file on disk has the undo files
      undo/1 … undo/<its height>), prefix-wise along the effect list (`UP`), and the frame relation `Fr` that every
      operation satisfies (effect list only grows, only `createTmp` has a side condition).
  Core Lean only.
-/
import GocoinV.Proofs.C07JHist
namespace GocoinV.Proofs.C07
open GocoinV.Persist

variable {bs : List Block} {s : St}

/-! ### chains of tree nodes -/

structure TChain (bs : List Block) (tree : List TNode) (path : List Block) : Prop where
  ok : ChainOK bs path
  inT : ∀ b ∈ path, InT tree b.id

theorem Chain.toT {n : Node} {path : List Block} (h : Chain bs n path) : TChain bs n.tree path := ⟨h.ok, h.inT⟩

theorem TChain.nil (tree : List TNode) : TChain bs tree [] := ⟨trivial, fun _ h => by cases h⟩

theorem twalk_par (hwf : WF bs) (h : JD bs s) {path : List Block} (hc : TChain bs s.n.tree path) (j : Nat) :
    par s.n.tree (headId (path.drop j)) = headId (path.drop (j + 1)) := by
  cases hd : path.drop j with
  | nil =>
    have : path.drop (j + 1) = [] := by rw [← List.drop_drop, hd]; rfl
    rw [this]; exact par_zero hwf h
  | cons b rest =>
    have hbm : b ∈ path := List.mem_of_mem_drop (by rw [hd]; simp)
    rw [show headId (b :: rest) = b.id from rfl, (par_block hwf h (ChainOK.mem hc.ok b hbm) (hc.inT b hbm)).1]
    exact headId_drop_succ hc.ok j b rest hd

theorem twalk_height (hwf : WF bs) (h : JD bs s) {path : List Block} (hc : TChain bs s.n.tree path) (j : Nat) :
    heightOf s.n (headId (path.drop j)) = some (path.length - j) := by
  cases hd : path.drop j with
  | nil =>
    have : path.length ≤ j := by
      have := congrArg List.length hd
      simp at this; omega
    have e : path.length - j = 0 := by omega
    rw [e]; rfl
  | cons b rest =>
    have hbm : b ∈ path := List.mem_of_mem_drop (by rw [hd]; simp)
    rw [show headId (b :: rest) = b.id from rfl, (par_block hwf h (ChainOK.mem hc.ok b hbm) (hc.inT b hbm)).2]
    have h1 := ChainOK.drop j hc.ok
    rw [hd] at h1
    have hl := congrArg List.length hd
    simp at hl
    rw [h1.2.2.1]; congr 1; omega

theorem headId_drop_zero (hwf : WF bs) {path : List Block} (hc : ChainOK bs path) (j : Nat) :
    headId (path.drop j) = 0 ↔ path.length ≤ j := by
  constructor
  · intro h0
    cases hd : path.drop j with
    | nil =>
      have := congrArg List.length hd
      simp at this; omega
    | cons b rest =>
      rw [hd] at h0
      have hbm : b ∈ path := List.mem_of_mem_drop (by rw [hd]; simp)
      exact absurd h0 (hwf.idNZ b (ChainOK.mem hc b hbm))
  · intro hl
    rw [List.drop_of_length_le hl]; rfl

/-- every tree node is the head of a chain of tree nodes of length = its height -/
theorem tchain_exists (hwf : WF bs) (h : JD bs s) : ∀ (n : Nat) (t : TNode), t ∈ s.n.tree → t.height = n →
    ∃ path, TChain bs s.n.tree path ∧ headId path = t.id ∧ path.length = t.height := by
  intro n
  induction n using Nat.strongRecOn with
  | _ n ih =>
    intro t ht hn
    obtain ⟨b, hb, e1, e2, e3⟩ := h.treeB t ht
    rcases h.treeC t ht with h0 | ⟨t', ht', e'⟩
    · have hp0 : b.parent = 0 := e2.trans h0
      have hh : b.height = 1 := by
        rcases hwf.height b hb with ⟨_, h1⟩ | ⟨p, hp, hpi, _⟩
        · exact h1
        · exact absurd (hpi.trans hp0) (hwf.idNZ p hp)
      have e : replay bs 0 = rp [] := replay_eq_rp hwf (path := []) trivial
      have hv : validOn (rp []) b = true := by
        have := hwf.valid b hb
        rwa [hp0, e] at this
      refine ⟨[b], ⟨⟨hb, hp0, by simpa using hh, hv, trivial⟩, ?_⟩, e1, by rw [← e3, hh]; rfl⟩
      intro x hx
      simp only [List.mem_singleton] at hx
      subst hx; exact ⟨t, ht, e1.symm⟩
    · obtain ⟨b', hb', f1, f2, f3⟩ := h.treeB t' ht'
      have hpar : b.parent = b'.id := by rw [e2, ← e', f1]
      have hh : b.height = b'.height + 1 := by
        rcases hwf.height b hb with ⟨h0, _⟩ | ⟨p, hp, hpi, hph⟩
        · exact absurd (hpar.symm.trans h0) (hwf.idNZ b' hb')
        · have : p = b' := hwf.uniq p hp b' hb' (hpi.trans hpar)
          subst this; exact hph
      obtain ⟨path', hc', hd', hl'⟩ := ih t'.height (by rw [← hn, ← e3, hh, f3]; omega) t' ht' rfl
      have hp : b.parent = headId path' := by rw [hd', e', e2]
      have hbh := height_on hwf hc'.ok hb hp
      refine ⟨b :: path', ⟨⟨hb, hp, hbh, valid_on hwf hc'.ok hb hp, hc'.ok⟩, ?_⟩, e1, ?_⟩
      · intro x hx
        rcases List.mem_cons.1 hx with hx | hx
        · subst hx; exact ⟨t, ht, e1.symm⟩
        · exact hc'.inT x hx
      · rw [← e3, hbh]; rfl

theorem tchain_of_inT (hwf : WF bs) (h : JD bs s) {id : BlockId} (hin : InT s.n.tree id) :
    ∃ path, TChain bs s.n.tree path ∧ headId path = id := by
  obtain ⟨t, ht, e⟩ := hin
  obtain ⟨path, hc, hd, _⟩ := tchain_exists hwf h t.height t ht rfl
  exact ⟨path, hc, hd.trans e⟩

theorem tchain_of (hwf : WF bs) (h : JD bs s) {id : BlockId} (hin : id = 0 ∨ InT s.n.tree id) :
    ∃ path, TChain bs s.n.tree path ∧ headId path = id := by
  rcases hin with h0 | hin
  · exact ⟨[], TChain.nil _, h0.symm⟩
  · exact tchain_of_inT hwf h hin

theorem ids_nodup (hwf : WF bs) : ∀ {path : List Block}, ChainOK bs path → (path.map (·.id)).Nodup
  | [], _ => List.nodup_nil
  | x :: rest, h => by
    have hn := ChainOK.nodup h
    rw [List.map_cons, List.nodup_cons]
    refine ⟨?_, ids_nodup hwf h.2.2.2.2⟩
    intro hx
    obtain ⟨y, hy, e⟩ := List.mem_map.1 hx
    have : y = x := hwf.uniq y (ChainOK.mem h.2.2.2.2 y hy) x h.1 e
    subst this
    exact (List.nodup_cons.1 hn).1 hy

/-- a chain of tree nodes is no longer than the tree (pigeonhole on ids) -/
theorem tchain_len (hwf : WF bs) {tree : List TNode} {path : List Block} (hc : TChain bs tree path) :
    path.length ≤ tree.length := by
  have := List.Nodup.length_le_of_subset (ids_nodup hwf hc.ok) (l₂ := tree.map (·.id)) (by
    intro x hx
    obtain ⟨b, hb, e⟩ := List.mem_map.1 hx
    obtain ⟨t, ht, e'⟩ := hc.inT b hb
    exact List.mem_map.2 ⟨t, ht, e'.trans e⟩)
  simpa using this

/-- FindFirstFather of two chain heads returns, within its fuel, a common ancestor (a later element of both chains) -/
theorem firstFather_spec (hwf : WF bs) (h : JD bs s) {pa pb : List Block} (ha : TChain bs s.n.tree pa)
    (hb : TChain bs s.n.tree pb) :
    ∀ (fuel i j : Nat), (pa.length - i) + (pb.length - j) < fuel →
      ∃ i' j', i ≤ i' ∧ j ≤ j' ∧ firstFather s.n fuel (headId (pa.drop i)) (headId (pb.drop j)) = headId (pa.drop i') ∧
        headId (pa.drop i') = headId (pb.drop j')
  | 0, _, _, hf => by omega
  | fuel + 1, i, j, hf => by
    unfold firstFather
    split
    · rename_i heq
      exact ⟨i, j, Nat.le_refl _, Nat.le_refl _, rfl, by simpa using heq⟩
    · rename_i hne
      simp only [twalk_height hwf h ha i, twalk_height hwf h hb j, Option.getD_some, parentOf_eq,
        twalk_par hwf h ha i, twalk_par hwf h hb j]
      split
      · obtain ⟨i', j', h1, h2, h3, h4⟩ := firstFather_spec hwf h ha hb fuel (i + 1) j (by omega)
        exact ⟨i', j', by omega, h2, h3, h4⟩
      · split
        · obtain ⟨i', j', h1, h2, h3, h4⟩ := firstFather_spec hwf h ha hb fuel i (j + 1) (by omega)
          exact ⟨i', j', h1, by omega, h3, h4⟩
        · have hpos : pa.length - i ≠ 0 := by
            intro h0
            have ea : headId (pa.drop i) = 0 := (headId_drop_zero hwf ha.ok i).2 (by omega)
            have eb : headId (pb.drop j) = 0 := (headId_drop_zero hwf hb.ok j).2 (by omega)
            rw [ea, eb] at hne
            simp at hne
          obtain ⟨i', j', h1, h2, h3, h4⟩ := firstFather_spec hwf h ha hb fuel (i + 1) (j + 1) (by omega)
          exact ⟨i', j', by omega, by omega, h3, h4⟩

/-- FindPathTo from an ancestor succeeds within its fuel -/
theorem pathUp_some (hwf : WF bs) (h : JD bs s) {pb : List Block} (hb : TChain bs s.n.tree pb) (j' : Nat) :
    ∀ (fuel j : Nat) (acc : List BlockId), j ≤ j' → (min j' pb.length - j) < fuel →
      ∃ p, pathUp s.n fuel (headId (pb.drop j')) (headId (pb.drop j)) acc = some p
  | 0, _, _, _, hf => by omega
  | fuel + 1, j, acc, hjj, hf => by
    unfold pathUp
    split
    · exact ⟨acc, rfl⟩
    · rename_i hne
      split
      · rename_i h0
        exfalso
        have h0 : headId (pb.drop j) = 0 := by simpa using h0
        have hl := (headId_drop_zero hwf hb.ok j).1 h0
        have ea : headId (pb.drop j') = 0 := (headId_drop_zero hwf hb.ok j').2 (by omega)
        rw [h0, ea] at hne
        simp at hne
      · rename_i hn0
        have hjl : j < pb.length := by
          apply Nat.lt_of_not_le
          intro hl
          exact hn0 (by simp [(headId_drop_zero hwf hb.ok j).2 hl])
        have hjlt : j < j' := by
          apply Nat.lt_of_le_of_ne hjj
          intro e; subst e; simp at hne
        rw [parentOf_eq, twalk_par hwf h hb j]
        exact pathUp_some hwf h hb j' fuel (j + 1) _ (by omega) (by omega)

/-! ### undo files on disk -/

def UndoUpTo (d : Disk) (H : Nat) : Prop := ∀ h, 1 ≤ h → h ≤ H → (getUndo d.undo h).isSome = true

/-- every snapshot file on disk has the undo files of all heights up to its own -/
structure UInv (d : Disk) : Prop where
  db : ∀ sn, d.db = some sn → UndoUpTo d sn.height
  old : ∀ sn, d.old = some sn → UndoUpTo d sn.height
  tmps : ∀ t ∈ d.tmps, UndoUpTo d t.snap.height

theorem UInv.empty : UInv {} := by
  constructor <;> simp

def EffU (d : Disk) : Effect → Prop
  | .createTmp sn => UndoUpTo d sn.height
  | _ => True

theorem apply_undo_mono (d : Disk) (e : Effect) (h : Nat) (hs : (getUndo d.undo h).isSome = true) :
    (getUndo (apply d e).undo h).isSome = true := by
  cases e with
  | renameUndoTmp hh =>
    simp only [apply]
    split
    · exact hs
    · rename_i u _
      by_cases e : h = hh
      · subst e; simp [getUndo_setUndo_same]
      · simp only [getUndo_setUndo_other _ _ _ _ e]; exact hs
  | renameDbOld => simp only [apply]; split <;> exact hs
  | renameTmpDb t => simp only [apply]; split <;> exact hs
  | _ => exact hs

theorem UndoUpTo.apply {d : Disk} {H : Nat} (h : UndoUpTo d H) (e : Effect) : UndoUpTo (apply d e) H :=
  fun x h1 h2 => apply_undo_mono d e x (h x h1 h2)

theorem apply_dat_mono (d : Disk) (e : Effect) (b : Block) (hb : b ∈ d.dat) : b ∈ (apply d e).dat := by
  cases e with
  | appendDat x => simp [apply, hb]
  | renameDbOld => simp only [apply]; split <;> exact hb
  | renameTmpDb t => simp only [apply]; split <;> exact hb
  | renameUndoTmp t => simp only [apply]; split <;> exact hb
  | _ => exact hb

theorem apply_uinv {d : Disk} (h : UInv d) (e : Effect) (ok : EffU d e) : UInv (apply d e) := by
  have mono : ∀ H, UndoUpTo d H → UndoUpTo (apply d e) H := fun H hu => hu.apply e
  cases e with
  | nop => exact h
  | renameDbOld =>
    simp only [apply]
    split
    · exact h
    · rename_i x hx
      exact ⟨by intro sn hsn; simp at hsn, by intro sn hsn; simp at hsn; subst hsn; exact h.db _ hx, h.tmps⟩
  | createTmp x =>
    refine ⟨h.db, h.old, ?_⟩
    intro t ht
    simp only [apply, List.mem_cons, List.mem_filter] at ht
    rcases ht with ht | ht
    · subst ht; exact ok
    · exact h.tmps t ht.1
  | chunkTmp t =>
    refine ⟨h.db, h.old, ?_⟩
    intro x hx
    simp only [apply, List.mem_map] at hx
    obtain ⟨y, hy, rfl⟩ := hx
    have := h.tmps y hy
    split <;> exact this
  | flushTmp t =>
    refine ⟨h.db, h.old, ?_⟩
    intro x hx
    simp only [apply, List.mem_map] at hx
    obtain ⟨y, hy, rfl⟩ := hx
    have := h.tmps y hy
    split <;> exact this
  | removeTmp t =>
    refine ⟨h.db, h.old, ?_⟩
    intro x hx
    simp only [apply, List.mem_filter] at hx
    exact h.tmps x hx.1
  | renameTmpDb t =>
    simp only [apply]
    split
    · exact h
    · rename_i x hx
      have hm := List.mem_of_find?_eq_some hx
      refine ⟨?_, h.old, ?_⟩
      · intro sn hsn; simp at hsn; subst hsn; exact h.tmps x hm
      · intro y hy
        simp only [List.mem_filter] at hy
        exact h.tmps y hy.1
  | writeUndoTmp u => exact ⟨h.db, h.old, h.tmps⟩
  | renameUndoTmp hh =>
    have m := mono
    simp only [apply] at m ⊢
    split
    · exact h
    · rename_i u hu
      simp only [hu] at m
      exact ⟨fun sn hsn => m _ (h.db sn hsn), fun sn hsn => m _ (h.old sn hsn), fun t ht => m _ (h.tmps t ht)⟩
  | removeUndoTmp => exact ⟨h.db, h.old, h.tmps⟩
  | appendDat b => exact ⟨h.db, h.old, h.tmps⟩
  | appendIdx r => exact ⟨h.db, h.old, h.tmps⟩
  | setTrusted id => exact ⟨h.db, h.old, h.tmps⟩

/-- the side conditions hold along an effect list started on `d` -/
def UGoodFrom : Disk → List LEffect → Prop
  | _, [] => True
  | d, e :: r => EffU d e.1 ∧ UGoodFrom (apply d e.1) r

theorem UGoodFrom.append : ∀ {a : List LEffect} {d : Disk} {b : List LEffect}, UGoodFrom d a → UGoodFrom (applyAll d a) b →
    UGoodFrom d (a ++ b)
  | [], _, _, _, hb => hb
  | e :: r, d, b, ha, hb => ⟨ha.1, UGoodFrom.append (a := r) ha.2 (by rwa [applyAll_cons] at hb)⟩

theorem UGoodFrom.uinv : ∀ {es : List LEffect} {d : Disk}, UInv d → UGoodFrom d es → ∀ k, UInv (applyAll d (es.take k))
  | [], _, h, _, k => by rw [List.take_nil]; exact h
  | e :: r, d, h, hg, k => by
    cases k with
    | zero => exact h
    | succ k =>
      rw [List.take_succ_cons, applyAll_cons]
      exact UGoodFrom.uinv (apply_uinv h e.1 hg.1) hg.2 k

theorem applyAll_undo_mono : ∀ (es : List LEffect) (d : Disk) (H : Nat), UndoUpTo d H → UndoUpTo (applyAll d es) H
  | [], _, _, h => h
  | e :: r, d, H, h => by rw [applyAll_cons]; exact applyAll_undo_mono r _ H (h.apply e.1)

theorem applyAll_dat_mono : ∀ (es : List LEffect) (d : Disk) (b : Block), b ∈ d.dat → b ∈ (applyAll d es).dat
  | [], _, _, h => h
  | e :: r, d, b, h => by rw [applyAll_cons]; exact applyAll_dat_mono r _ b (apply_dat_mono d e.1 b h)

/-- `s'` continues the effect list `es0` (which produced `d0`) by effects whose side conditions hold -/
def ExtFrom (d0 : Disk) (es0 : List LEffect) (s' : St) : Prop :=
  ∃ new, s'.es = es0 ++ new ∧ s'.d = applyAll d0 new ∧ UGoodFrom d0 new

abbrev Ext (s s' : St) : Prop := ExtFrom s.d s.es s'

theorem ExtFrom.trans {d0 : Disk} {es0 : List LEffect} {s s' : St} (h1 : ExtFrom d0 es0 s) (h2 : Ext s s') : ExtFrom d0 es0 s' := by
  obtain ⟨n1, a1, b1, c1⟩ := h1
  obtain ⟨n2, a2, b2, c2⟩ := h2
  refine ⟨n1 ++ n2, by rw [a2, a1, List.append_assoc], by rw [b2, b1, applyAll_append], ?_⟩
  exact UGoodFrom.append c1 (by rw [← b1]; exact c2)

theorem ExtFrom.undo {d0 : Disk} {es0 : List LEffect} {s' : St} (h : ExtFrom d0 es0 s') {H : Nat} (hu : UndoUpTo d0 H) : UndoUpTo s'.d H := by
  obtain ⟨n, _, b, _⟩ := h
  rw [b]; exact applyAll_undo_mono n _ H hu

theorem ExtFrom.dat {d0 : Disk} {es0 : List LEffect} {s' : St} (h : ExtFrom d0 es0 s') {b : Block} (hb : b ∈ d0.dat) : b ∈ s'.d.dat := by
  obtain ⟨n, _, e, _⟩ := h
  rw [e]; exact applyAll_dat_mono n _ b hb

/-- prefix-wise: every crash prefix of the effect list leaves a directory satisfying `UInv` -/
structure UP (base : Disk) (s : St) : Prop where
  hist : s.d = applyAll base s.es
  pref : ∀ k, UInv (applyAll base (s.es.take k))

theorem UP.disk {base : Disk} (h : UP base s) : UInv s.d := by
  have := h.pref s.es.length
  rwa [List.take_length, ← h.hist] at this

theorem UP.of_ext {base d0 : Disk} {es0 : List LEffect} {s' : St} (h0 : d0 = applyAll base es0)
    (hp : ∀ k, UInv (applyAll base (es0.take k))) (he : ExtFrom d0 es0 s') : UP base s' := by
  obtain ⟨n, a, b, c⟩ := he
  have hd0 : UInv d0 := by
    have := hp es0.length
    rwa [List.take_length, ← h0] at this
  refine ⟨by rw [b, a, applyAll_append, ← h0], ?_⟩
  intro k
  rw [a, List.take_append, applyAll_append]
  by_cases hk : k ≤ es0.length
  · have : k - es0.length = 0 := by omega
    rw [this, List.take_zero, applyAll_nil]; exact hp k
  · rw [List.take_of_length_le (by omega), ← h0]
    exact UGoodFrom.uinv hd0 c _

theorem UP.ext {base : Disk} {s' : St} (h : UP base s) (he : Ext s s') : UP base s' :=
  UP.of_ext h.hist h.pref he

/-! ### the frame relation every operation satisfies -/

structure Fr (s s' : St) : Prop where
  ext : Ext s s'
  memM : ∀ b ∈ s.n.mem, b ∈ s'.n.mem
  recT : (∀ r ∈ s.n.recs, InT s.n.tree r.id) → ∀ r ∈ s'.n.recs, InT s'.n.tree r.id

theorem Ext.refl (s : St) : Ext s s := ⟨[], by simp, rfl, trivial⟩

theorem Fr.refl (s : St) : Fr s s := ⟨Ext.refl s, fun _ h => h, id⟩

theorem Fr.trans {s s' s'' : St} (h1 : Fr s s') (h2 : Fr s' s'') : Fr s s'' :=
  ⟨h1.ext.trans h2.ext, fun b hb => h2.memM b (h1.memM b hb), fun h => h2.recT (h1.recT h)⟩

theorem Fr.emit (s : St) (e : Effect) (p : Pt) (ok : EffU s.d e) : Fr s (s.emit e p) :=
  ⟨⟨[(e, p)], rfl, rfl, ok, trivial⟩, fun _ h => h, id⟩

theorem Fr.then_emit {s s' : St} (h : Fr s s') (e : Effect) (p : Pt) (ok : EffU s'.d e) : Fr s (s'.emit e p) :=
  h.trans (Fr.emit s' e p ok)

/-- replacing the node by one with the same cache, index and tree -/
theorem Fr.setNode (s : St) (n' : Node) (h1 : n'.mem = s.n.mem) (h2 : n'.recs = s.n.recs) (h3 : n'.tree = s.n.tree) :
    Fr s { s with n := n' } :=
  ⟨⟨[], by simp, rfl, trivial⟩, fun b hb => by rw [h1]; exact hb, fun h r hr => by
    rw [h3]; rw [h2] at hr; exact h r hr⟩

theorem Fr.then_set {s s' : St} (h : Fr s s') (n' : Node) (h1 : n'.mem = s'.n.mem) (h2 : n'.recs = s'.n.recs)
    (h3 : n'.tree = s'.n.tree) : Fr s { s' with n := n' } :=
  h.trans (Fr.setNode s' n' h1 h2 h3)

/-- a state that agrees with `s1` on disk, effect list, cache, index and tree -/
theorem Fr.congr {s s1 s' : St} (h : Fr s s1) (e1 : s'.d = s1.d) (e2 : s'.es = s1.es) (e3 : s'.n.mem = s1.n.mem)
    (e4 : s'.n.recs = s1.n.recs) (e5 : s'.n.tree = s1.n.tree) : Fr s s' := by
  obtain ⟨⟨n, a, b, c⟩, m, r⟩ := h
  exact ⟨⟨n, e2.trans a, e1.trans b, c⟩, fun x hx => e3 ▸ m x hx, fun hh x hx => by rw [e5]; rw [e4] at hx; exact r hh x hx⟩

theorem Fr.fail (s : St) (m : String) : Fr s (s.fail m) := by
  unfold St.fail; split
  · exact Fr.refl s
  · exact ⟨⟨[], by simp, rfl, trivial⟩, fun _ h => h, id⟩

theorem Fr.setForeign (s : St) (f : Bool) : Fr s { s with foreign := f } :=
  ⟨⟨[], by simp, rfl, trivial⟩, fun _ h => h, id⟩

/-- rewriting records in place (trusted / on-disk flag) -/
theorem Fr.mapRecs (s : St) (f : BRec → BRec) (hid : ∀ x, (f x).id = x.id) :
    Fr s { s with n := { s.n with recs := s.n.recs.map f } } :=
  ⟨⟨[], by simp, rfl, trivial⟩, fun _ h => h, fun h r hr => by
    obtain ⟨r0, hr0, rfl⟩ := List.mem_map.1 hr
    rw [hid]; exact h r0 hr0⟩

/-! ### the snapshot writer, BlockTrusted, BlockAdd, writeOne -/

theorem fullChunks_fr (t : BlockId) : ∀ (k : Nat) (s : St), Fr s (fullChunks s t k)
  | 0, s => Fr.refl s
  | k + 1, s => ((Fr.emit s .nop .saveChunk trivial).then_emit (.chunkTmp t) .fileChunk trivial).trans (fullChunks_fr t k _)

theorem finishSave_fr (s : St) (sn : Snap) : Fr s (finishSave s sn) := by
  unfold finishSave
  exact ((((Fr.emit s .nop .saveFinito trivial).then_emit (.chunkTmp sn.tip) .fileChunk trivial).then_emit
    (.flushTmp sn.tip) .fileClosed trivial).then_emit (.renameTmpDb sn.tip) .fileRenamed trivial).then_set _ rfl rfl rfl

theorem startSave_fr (s : St) (hurry : Bool) (hu : UndoUpTo s.d s.n.lastHeight) : Fr s (startSave s hurry) := by
  unfold startSave
  split
  · exact Fr.refl s
  · have h3 : Fr s (((s.emit .nop .saveBegin).emit .renameDbOld .saveRenamedOld).emit
        (.createTmp ⟨s.n.tip, s.n.lastHeight, s.n.utxo⟩) .fileCreated) :=
      ((Fr.emit s .nop .saveBegin trivial).then_emit .renameDbOld .saveRenamedOld trivial).then_emit _ .fileCreated
        (show UndoUpTo (apply (apply s.d .nop) .renameDbOld) s.n.lastHeight from (hu.apply _).apply _)
    simp only []
    split
    · exact ((h3.then_emit .nop .saveChunk trivial).then_emit (.chunkTmp s.n.tip) .fileChunk trivial).then_set _ rfl rfl rfl
    · exact (h3.trans (fullChunks_fr _ _ _)).trans (finishSave_fr _ _)

theorem abortSave_fr (s : St) : Fr s (abortSave s) := by
  unfold abortSave
  split
  · exact Fr.refl s
  · exact (((Fr.emit s .nop .saveFinito trivial).then_emit .nop .fileAbortClosed trivial).then_emit (.removeTmp _) .fileAbortRemoved trivial).then_set
      _ rfl rfl rfl

theorem hurrySave_fr (s : St) : Fr s (hurrySave s) := by
  unfold hurrySave
  split
  · exact Fr.refl s
  · exact (fullChunks_fr _ _ _).trans (finishSave_fr _ _)

theorem blockTrusted_fr (s : St) (id : BlockId) : Fr s (blockTrusted s id) := by
  unfold blockTrusted
  split
  · exact Fr.refl s
  · simp only []
    refine ((Fr.emit s .nop .flagBefore trivial).then_emit _ .flagAfter ?_).trans (Fr.mapRecs _ _ ?_)
    · split
      · split <;> trivial
      · trivial
    · intro x; split <;> rfl

theorem blockAdd_fr (s : St) (b : Block) (t : Bool) (hin : InT s.n.tree b.id) : Fr s { s with n := blockAdd s.n b t } := by
  refine ⟨⟨[], by simp, rfl, trivial⟩, ?_, ?_⟩
  · intro x hx
    show x ∈ (blockAdd s.n b t).mem
    unfold blockAdd
    split
    · simp only []
      split
      · exact hx
      · exact List.mem_append_left _ hx
    · split
      · exact hx
      · exact hx
  · intro h r hr
    have ht : (blockAdd s.n b t).tree = s.n.tree := (blockAdd_frame s.n b t).2.2.2.2.2
    show InT (blockAdd s.n b t).tree r.id
    rw [ht]
    have hr : r ∈ (blockAdd s.n b t).recs := hr
    unfold blockAdd at hr
    split at hr
    · simp only [] at hr
      rcases List.mem_append.1 hr with hr | hr
      · exact h r hr
      · simp only [List.mem_singleton] at hr; subst hr; exact hin
    · split at hr
      · unfold setRecTrusted at hr
        obtain ⟨r0, hr0, rfl⟩ := List.mem_map.1 hr
        have : (if r0.id == b.id then { r0 with trusted := true } else r0).id = r0.id := by split <;> rfl
        rw [this]; exact h r0 hr0
      · exact h r hr

theorem writeOne_fr (s : St) (b : Block) : Fr s (writeOne s b) := by
  unfold writeOne
  split
  · exact Fr.refl s
  · split
    · exact Fr.refl s
    · rename_i r _ _
      exact ((((Fr.emit s .nop .wrBeforeDat trivial).then_emit (.appendDat b) .wrDatWritten trivial).then_emit
        (.appendIdx { id := b.id, parent := b.parent, height := b.height, trusted := r.trusted, invalid := false }) .wrIdxWritten
        trivial).then_emit .nop .wrBeforePublish trivial).trans (Fr.mapRecs _ _ (by intro x; split <;> rfl))

theorem foldl_writeOne_fr : ∀ (q : List Block) (s : St), Fr s (q.foldl writeOne s)
  | [], s => Fr.refl s
  | b :: rest, s => (writeOne_fr s b).trans (foldl_writeOne_fr rest _)

theorem writeAll_fr (s : St) : Fr s (writeAll s) := by
  unfold writeAll
  exact (Fr.setNode s { s.n with queue := [] } rfl rfl rfl).trans (foldl_writeOne_fr _ _)

end GocoinV.Proofs.C07
