/-
  Proofs.C08_EcmultFull — `XYZ.ECmult` (GLV split + four interleaved wNAF expansions over the tables
  pre_a, pre_a_lam, pre_g, pre_g_128) followed through the proved Double/Add/AddXY/Neg in the abelian group of
  curve points (reference law; group axioms from Proofs/C03Curve):
    result = na1·A + na_lam·A' + ng·G   with (na1, na_lam) = split_exp(na), A' = mul_lambda(A).
  With the two consequences of #E(F_p) = n stated as explicit hypotheses (n·A = 0 and A' = λ·A) this is na·A + ng·G.
-/
import GocoinV.Proofs.C08_MultGenFull
import GocoinV.Proofs.C08_Ecmult
import Mathlib.Tactic.Module
import Mathlib.Tactic.Abel

namespace GocoinV.C08
open GocoinV.Gen GocoinV.Gen.Field5x52 GocoinV.Proofs.C03

/-! ### representation of curve points by Jacobian / affine limb triples -/

/-- r is within the contract and stands for the curve point R -/
def Rp (r : XYZ) (R : CurvePt) : Prop := r.ok ∧ r.toPoint = R.1

def RpA (b : XY) (B : CurvePt) : Prop := b.ok ∧ b.toPoint = B.1

theorem dbl_val (P : CurvePt) : Secp.dbl P.1 = (2 • P).1 := by
  rw [dbl_eq_add, ← val_add, two_nsmul]

theorem Rp.double {r : XYZ} {R : CurvePt} (h : Rp r R) : Rp (XYZ.double r) (2 • R) := by
  obtain ⟨h1, h2⟩ := double_ok r h.1
  exact ⟨h1, by rw [h2, h.2, dbl_val]⟩

theorem Rp.add {r s : XYZ} {R S : CurvePt} (hr : Rp r R) (hs : Rp s S) : Rp (XYZ.add r s) (R + S) := by
  obtain ⟨h1, h2⟩ := add_ok r s hr.1 hs.1
  exact ⟨h1, by rw [h2, hr.2, hs.2, val_add]⟩

theorem Rp.addXY {r : XYZ} {b : XY} {R B : CurvePt} (hr : Rp r R) (hb : RpA b B) : Rp (XYZ.addXY r b) (R + B) := by
  obtain ⟨h1, h2⟩ := addXY_ok r b hr.1 hb.1
  exact ⟨h1, by rw [h2, hr.2, hb.2, val_add]⟩

theorem Rp.neg {r : XYZ} {R : CurvePt} (h : Rp r R) : Rp (XYZ.neg r) (-R) := by
  obtain ⟨h1, h2⟩ := neg_ok r h.1
  exact ⟨h1, by rw [h2, h.2, val_neg]⟩

theorem RpA.neg {b : XY} {B : CurvePt} (h : RpA b B) : RpA (XY.neg b) (-B) := by
  obtain ⟨h1, h2⟩ := negXY_ok b h.1
  exact ⟨h1, by rw [h2, h.2, val_neg]⟩

/-- a Jacobian table of odd multiples: entry i stands for (2i+1)·B -/
def TabJ (pre : List XYZ) (B : CurvePt) (m : Nat) : Prop := ∀ i, i < m → Rp (pre.getD i default) ((2 * i + 1) • B)

/-- an affine table of odd multiples -/
def TabA (tab : Nat → XY) (B : CurvePt) (m : Nat) : Prop := ∀ i, i < m → RpA (tab i) ((2 * i + 1) • B)

/-! ### one wNAF digit -/

theorem dig_index (w : Nat) (hw : 2 ≤ w) (d : Int) (hodd : d % 2 = 1) (h0 : 0 < d) (h2 : d < 2 ^ (w - 1)) :
    (d.toNat - 1) / 2 < 2 ^ (w - 2) ∧ ((2 * ((d.toNat - 1) / 2) + 1 : Nat) : Int) = d := by
  have hp : (2 : Int) ^ (w - 1) = ((2 * 2 ^ (w - 2) : Nat) : Int) := by
    obtain ⟨m, rfl⟩ : ∃ m, w = m + 2 := ⟨w - 2, by omega⟩
    simp only [Nat.add_sub_cancel, show m + 2 - 1 = m + 1 by omega, pow_succ]
    push_cast; ring
  rw [hp] at h2
  generalize 2 ^ (w - 2) = M at h2 ⊢
  omega

theorem applyDigitJ_Rp {w : Nat} (hw : 2 ≤ w) {pre : List XYZ} {B : CurvePt} (ht : TabJ pre B (2 ^ (w - 2)))
    {r : XYZ} {R : CurvePt} (hr : Rp r R) {d : Int} (hd : Dig w d) : Rp (applyDigitJ r pre d) (R + d • B) := by
  unfold applyDigitJ
  rcases hd with rfl | ⟨hodd, h1, h2⟩
  · simp only [lt_self_iff_false, if_false, ne_eq, not_true_eq_false, zero_smul, add_zero]; exact hr
  · by_cases hpos : d > 0
    · rw [if_pos hpos]
      obtain ⟨hi, he⟩ := dig_index w hw d hodd hpos h2
      have := hr.add (ht _ hi)
      rw [← natCast_zsmul, he] at this
      exact this
    · have hneg : 0 < -d := by omega
      have hne : d ≠ 0 := by omega
      rw [if_neg hpos, if_pos hne]
      obtain ⟨hi, he⟩ := dig_index w hw (-d) (by omega) hneg (by omega)
      have := hr.add (ht _ hi).neg
      rw [← natCast_zsmul, he, neg_smul, neg_neg] at this
      exact this

theorem applyDigitA_Rp {w : Nat} (hw : 2 ≤ w) {tab : Nat → XY} {B : CurvePt} (ht : TabA tab B (2 ^ (w - 2)))
    {r : XYZ} {R : CurvePt} (hr : Rp r R) {d : Int} (hd : Dig w d) : Rp (applyDigitA r tab d) (R + d • B) := by
  unfold applyDigitA
  rcases hd with rfl | ⟨hodd, h1, h2⟩
  · simp only [lt_self_iff_false, if_false, ne_eq, not_true_eq_false, zero_smul, add_zero]; exact hr
  · by_cases hpos : d > 0
    · rw [if_pos hpos]
      obtain ⟨hi, he⟩ := dig_index w hw d hodd hpos h2
      have := hr.addXY (ht _ hi)
      rw [← natCast_zsmul, he] at this
      exact this
    · have hneg : 0 < -d := by omega
      have hne : d ≠ 0 := by omega
      rw [if_neg hpos, if_pos hne]
      obtain ⟨hi, he⟩ := dig_index w hw (-d) (by omega) hneg (by omega)
      have := hr.addXY (ht _ hi).neg
      rw [← natCast_zsmul, he, neg_smul, neg_neg] at this
      exact this

theorem getD_Dig {w : Nat} {l : List Int} (h : ∀ d ∈ l, Dig w d) (i : Nat) : Dig w (l.getD i 0) := by
  by_cases hi : i < l.length
  · rw [List.getD_eq_getElem?_getD, List.getElem?_eq_getElem hi, Option.getD_some]
    exact h _ (List.getElem_mem hi)
  · rw [List.getD_eq_getElem?_getD, List.getElem?_eq_none (by omega), Option.getD_none]
    exact Or.inl rfl

theorem getD_of_ge {l : List Int} {i : Nat} (h : ¬ i < l.length) : l.getD i 0 = 0 := by
  rw [List.getD_eq_getElem?_getD, List.getElem?_eq_none (by omega), Option.getD_none]

/-- Horner form of the digit value -/
theorem valD_drop (l : List Int) (i : Nat) : valD (l.drop i) = l.getD i 0 + 2 * valD (l.drop (i + 1)) := by
  by_cases hi : i < l.length
  · rw [List.drop_eq_getElem_cons hi, List.getD_eq_getElem?_getD, List.getElem?_eq_getElem hi, Option.getD_some]
    rfl
  · rw [getD_of_ge hi, List.drop_eq_nil_of_le (by omega), List.drop_eq_nil_of_le (by omega)]
    rfl

/-! ### tables -/

/-- `XYZ.precomp`: the odd multiples a, 3a, 5a, … -/
theorem iterList_Rp {d : XYZ} {D : CurvePt} (hd : Rp d D) : ∀ (n : Nat) (p : XYZ) (Pp : CurvePt), Rp p Pp →
    ∀ i, i < n → Rp ((iterList (fun prev => XYZ.add d prev) n p).getD i default) (Pp + (i + 1) • D) := by
  intro n
  induction n with
  | zero => intro p Pp _ i hi; omega
  | succ m ih =>
    intro p Pp hp i hi
    rw [iterList_succ]
    cases i with
    | zero =>
      rw [List.getD_cons_zero]
      have := hd.add hp
      rw [show D + Pp = Pp + (0 + 1) • D by module] at this
      exact this
    | succ j =>
      rw [List.getD_cons_succ]
      have := ih _ _ (hd.add hp) j (by omega)
      rw [show D + Pp + (j + 1) • D = Pp + (j + 1 + 1) • D by module] at this
      exact this

theorem precomp_TabJ {a : XYZ} {A : CurvePt} (ha : Rp a A) (w : Nat) : TabJ (XYZ.precomp a w) A (2 ^ (w - 2)) := by
  intro i hi
  unfold XYZ.precomp
  cases i with
  | zero =>
    rw [List.getD_cons_zero]
    rw [show (2 * 0 + 1) • A = A by module]; exact ha
  | succ j =>
    rw [List.getD_cons_succ]
    have := iterList_Rp ha.double (2 ^ (w - 2) - 1) a A ha j (by omega)
    rw [show A + (j + 1) • (2 • A) = (2 * (j + 1) + 1) • A by module] at this
    exact this

/-- one kernel evaluation per table: length, magnitudes of all 4096 entries, first entry -/
theorem preG_facts : Tables.preGAll.length = 4096 ∧ Tables.preGAll.all entryMagOK = true ∧
    (pts Tables.preGAll).head? = some Secp.G := by decide +kernel
theorem preG128_facts : Tables.preG128All.length = 4096 ∧ Tables.preG128All.all entryMagOK = true ∧
    (pts Tables.preG128All).head? = some g128 := by decide +kernel
theorem preG_mags : Tables.preGAll.all entryMagOK = true := preG_facts.2.1
theorem preG128_mags : Tables.preG128All.all entryMagOK = true := preG128_facts.2.1
theorem preG_len : Tables.preGAll.length = 4096 := preG_facts.1
theorem preG128_len : Tables.preG128All.length = 4096 := preG128_facts.1

theorem all_getD_ok {l : List (List Nat)} (h : l.all entryMagOK = true) (i : Nat) (hi : i < l.length) :
    (XY.ofLimbs (l.getD i [])).ok := by
  apply ofLimbs_ok
  simp only [List.getD_eq_getElem?_getD, List.getElem?_eq_getElem hi, Option.getD_some]
  exact List.all_eq_true.1 h _ (List.getElem_mem hi)

theorem iterDbl_nsmul : ∀ (n : Nat) (Q : CurvePt), iterDbl n Q.1 = ((2 ^ n) • Q).1 := by
  intro n
  induction n with
  | zero => intro Q; rw [pow_zero, one_nsmul]; rfl
  | succ m ih =>
    intro Q
    show iterDbl m (Secp.dbl Q.1) = _
    rw [dbl_val, ih, ← mul_nsmul, pow_succ']

/-- 2^128·G -/
def G128c : CurvePt := (2 ^ 128) • Gc

theorem preG_TabA : TabA preGXY Gc 4096 := by
  intro i hi
  refine ⟨all_getD_ok preG_mags i (by rw [preG_len]; exact hi), ?_⟩
  have hhead := preG_facts.2.2
  have h := chain_spec (Secp.dbl Secp.G) Secp.G (pts Tables.preGAll) preG_chain hhead i
    (by simp [pts, preG_len, hi])
  rw [pts_getD _ _ (by rw [preG_len]; exact hi)] at h
  show (XY.ofLimbs (Tables.preGAt i)).toPoint = _
  rw [ofLimbs_toPoint]
  unfold Tables.preGAt
  rw [h, show Secp.G = Gc.1 from rfl, dbl_val, addSteps_nsmul,
    show Gc + i • (2 • Gc) = (2 * i + 1) • Gc by module]

theorem preG128_TabA : TabA preG128XY G128c 4096 := by
  intro i hi
  refine ⟨all_getD_ok preG128_mags i (by rw [preG128_len]; exact hi), ?_⟩
  have hhead := preG128_facts.2.2
  have h := chain_spec (Secp.dbl g128) g128 (pts Tables.preG128All) preG128_chain hhead i
    (by simp [pts, preG128_len, hi])
  rw [pts_getD _ _ (by rw [preG128_len]; exact hi)] at h
  show (XY.ofLimbs (Tables.preG128At i)).toPoint = _
  rw [ofLimbs_toPoint]
  unfold Tables.preG128At
  have hg : g128 = G128c.1 := by
    unfold g128 G128c
    exact iterDbl_nsmul 128 Gc
  rw [h, hg, dbl_val, addSteps_nsmul,
    show G128c + i • (2 • G128c) = (2 * i + 1) • G128c by module]

/-! ### the main loop -/

theorem ifDigitJ {w : Nat} (hw : 2 ≤ w) {pre : List XYZ} {B : CurvePt} (ht : TabJ pre B (2 ^ (w - 2)))
    {l : List Int} (hl : ∀ d ∈ l, Dig w d) {r : XYZ} {R : CurvePt} (hr : Rp r R) (i : Nat) :
    Rp (if i < l.length then applyDigitJ r pre (l.getD i 0) else r) (R + l.getD i 0 • B) := by
  split
  · exact applyDigitJ_Rp hw ht hr (getD_Dig hl i)
  · rename_i h; rw [getD_of_ge h, zero_smul, add_zero]; exact hr

theorem ifDigitA {w : Nat} (hw : 2 ≤ w) {tab : Nat → XY} {B : CurvePt} (ht : TabA tab B (2 ^ (w - 2)))
    {l : List Int} (hl : ∀ d ∈ l, Dig w d) {r : XYZ} {R : CurvePt} (hr : Rp r R) (i : Nat) :
    Rp (if i < l.length then applyDigitA r tab (l.getD i 0) else r) (R + l.getD i 0 • B) := by
  split
  · exact applyDigitA_Rp hw ht hr (getD_Dig hl i)
  · rename_i h; rw [getD_of_ge h, zero_smul, add_zero]; exact hr

theorem ecmultStep_Rp {pre1 prel : List XYZ} {A A' : CurvePt} {w1 wl wg1 wg128 : List Int}
    (t1 : TabJ pre1 A (2 ^ (CurveConsts.windowa - 2))) (tl : TabJ prel A' (2 ^ (CurveConsts.windowa - 2)))
    (d1 : ∀ d ∈ w1, Dig CurveConsts.windowa d) (dl : ∀ d ∈ wl, Dig CurveConsts.windowa d)
    (dg1 : ∀ d ∈ wg1, Dig CurveConsts.windowg d) (dg128 : ∀ d ∈ wg128, Dig CurveConsts.windowg d)
    {r : XYZ} {R : CurvePt} (hr : Rp r R) (i : Nat) :
    Rp (ecmultStep pre1 prel w1 wl wg1 wg128 r i)
      (2 • R + w1.getD i 0 • A + wl.getD i 0 • A' + wg1.getD i 0 • Gc + wg128.getD i 0 • G128c) :=
  ifDigitA (w := CurveConsts.windowg) (by decide) preG128_TabA dg128
    (ifDigitA (w := CurveConsts.windowg) (by decide) preG_TabA dg1
      (ifDigitJ (w := CurveConsts.windowa) (by decide) tl dl
        (ifDigitJ (w := CurveConsts.windowa) (by decide) t1 d1 hr.double i) i) i) i

/-- a downward loop `for i := n-1; i >= 0; i--` preserves an invariant indexed by the next position -/
theorem down_fold {α : Type} (step : α → Nat → α) (Inv : Nat → α → Prop)
    (hstep : ∀ r i, Inv (i + 1) r → Inv i (step r i)) :
    ∀ (n : Nat) (r : α), Inv n r → Inv 0 ((List.range n).reverse.foldl step r) := by
  intro n
  induction n with
  | zero => intro r h; exact h
  | succ m ih =>
    intro r h
    rw [List.range_succ, List.reverse_append, List.reverse_singleton, List.singleton_append, List.foldl_cons]
    exact ih _ (hstep r m h)

theorem ecmult_loop {pre1 prel : List XYZ} {A A' : CurvePt} {w1 wl wg1 wg128 : List Int}
    (t1 : TabJ pre1 A (2 ^ (CurveConsts.windowa - 2))) (tl : TabJ prel A' (2 ^ (CurveConsts.windowa - 2)))
    (d1 : ∀ d ∈ w1, Dig CurveConsts.windowa d) (dl : ∀ d ∈ wl, Dig CurveConsts.windowa d)
    (dg1 : ∀ d ∈ wg1, Dig CurveConsts.windowg d) (dg128 : ∀ d ∈ wg128, Dig CurveConsts.windowg d)
    (start : XYZ) (hs : Rp start 0) (bits : Nat) (hb1 : w1.length ≤ bits) (hbl : wl.length ≤ bits)
    (hbg1 : wg1.length ≤ bits) (hbg128 : wg128.length ≤ bits) :
    Rp ((List.range bits).reverse.foldl (ecmultStep pre1 prel w1 wl wg1 wg128) start)
      (valD w1 • A + valD wl • A' + valD wg1 • Gc + valD wg128 • G128c) := by
  have h := down_fold (ecmultStep pre1 prel w1 wl wg1 wg128)
    (fun i r => Rp r (valD (w1.drop i) • A + valD (wl.drop i) • A' + valD (wg1.drop i) • Gc
      + valD (wg128.drop i) • G128c))
    (fun r i hr => by
      have := ecmultStep_Rp t1 tl d1 dl dg1 dg128 hr i
      show Rp _ _
      rw [valD_drop w1 i, valD_drop wl i, valD_drop wg1 i, valD_drop wg128 i]
      convert this using 1
      module)
    bits start (by
      show Rp _ _
      rw [List.drop_eq_nil_of_le hb1, List.drop_eq_nil_of_le hbl, List.drop_eq_nil_of_le hbg1,
        List.drop_eq_nil_of_le hbg128]
      convert hs using 1
      simp [valD])
  simpa using h


/-! ### assembly -/

/-- a reference point known to be on the curve, as an element of the group of curve points -/
def mkPt (Q : Secp.Point) (h : OnC Q) : CurvePt := ⟨Q, h⟩

theorem onC_ptF (x y : F) : OnC (ptF x y) ↔ y * y = x ^ 3 + 7 := by
  unfold OnC ptF Secp.onCurve
  simp only [secp_p_eq, Bool.and_eq_true, decide_eq_true_eq, beq_iff_eq, ZMod.val_lt x, ZMod.val_lt y, true_and]
  rw [← ZMod.natCast_eq_natCast_iff']
  simp only [Nat.cast_add, Nat.cast_mul, ZMod.natCast_mod, ZMod.natCast_val, ZMod.cast_id', id_eq, Nat.cast_ofNat]
  constructor <;> intro h <;> rw [h] <;> ring

theorem feBeta_S : FeS feBeta 1 ((CurveConsts.beta : Nat) : F) := by
  have hb : feBeta = ⟨2652195750478318, 2059588628732947, 3435101582848073, 124274446989802, 135142927197564⟩ := by
    unfold feBeta Fe.ofNat setB32L
    rw [show toB32 CurveConsts.beta = [122, 233, 106, 43, 101, 124, 7, 16, 110, 100, 71, 158, 172, 52, 52, 233, 156,
      240, 73, 117, 18, 245, 137, 149, 193, 57, 108, 40, 113, 149, 1, 238] by decide +kernel]
    decide +kernel
  have h : (⟨2652195750478318, 2059588628732947, 3435101582848073, 124274446989802, 135142927197564⟩ : Fe).mag 1 ∧
      (⟨2652195750478318, 2059588628732947, 3435101582848073, 124274446989802, 135142927197564⟩ : Fe).val
        = CurveConsts.beta := by decide +kernel
  rw [hb]
  exact ⟨h.1, by unfold Fe.z; rw [h.2]⟩

theorem beta_cube : ((CurveConsts.beta : Nat) : F) ^ 3 = 1 := by
  have h : CurveConsts.beta ^ 3 % P = 1 % P := by decide +kernel
  have := (ZMod.natCast_eq_natCast_iff' (CurveConsts.beta ^ 3) 1 P).2 h
  push_cast at this
  exact this

theorem mulLambda_x (a : XYZ) : (XYZ.mulLambda a).x = mul a.x feBeta := by cases a; rfl
theorem mulLambda_y (a : XYZ) : (XYZ.mulLambda a).y = a.y := by cases a; rfl
theorem mulLambda_z (a : XYZ) : (XYZ.mulLambda a).z = a.z := by cases a; rfl
theorem mulLambda_inf (a : XYZ) : (XYZ.mulLambda a).inf = a.inf := by cases a; rfl

/-- `XYZ.mul_lambda` maps a curve point to a curve point (x ↦ β·x with β³ = 1) and keeps the contract -/
theorem mulLambda_Rp {a : XYZ} (ha : a.ok) (hA : OnC a.toPoint) :
    ∃ A' : CurvePt, Rp (XYZ.mulLambda a) A' := by
  obtain ⟨hx, hy, hz, hz0⟩ := ha
  have x' := (FeS.self hx).mul feBeta_S (by decide) (by decide)
  have hok : (XYZ.mulLambda a).ok := by
    unfold XYZ.ok
    rw [mulLambda_x, mulLambda_y, mulLambda_z, mulLambda_inf]
    exact ⟨mag_mono x'.1 (by decide), hy, hz, hz0⟩
  cases hi : a.inf with
  | true =>
    refine ⟨0, hok, ?_⟩
    rw [XYZ.toPoint_inf (by rw [mulLambda_inf]; exact hi)]; rfl
  | false =>
    have hz1 := hz0 hi
    rw [XYZ.toPoint_fin hi, onC_ptF] at hA
    have e : (XYZ.mulLambda a).toPoint
        = ptF (((CurveConsts.beta : Nat) : F) * (a.x.z / a.z.z ^ 2)) (a.y.z / a.z.z ^ 3) := by
      rw [XYZ.toPoint_fin (by rw [mulLambda_inf]; exact hi), mulLambda_x, mulLambda_y, mulLambda_z, x'.2]
      congr 1; ring
    have hon : OnC (XYZ.mulLambda a).toPoint := by
      rw [e, onC_ptF, hA, mul_pow, beta_cube, one_mul]
    exact ⟨⟨_, hon⟩, hok, rfl⟩

theorem split_nsmul (ng : Nat) :
    ((ng % 2 ^ 128 : Nat) : Int) • Gc + ((ng / 2 ^ 128 : Nat) : Int) • G128c = ng • Gc := by
  unfold G128c
  rw [natCast_zsmul, natCast_zsmul, ← mul_nsmul, ← add_nsmul, Nat.mod_add_div]

/-- `XYZ.ECmult(a, na, ng)` for EVERY point a within the contract that is on the curve, EVERY integer na and
    every ng < 2^256: no panic, the result is within the contract and stands for
    na1·A + na_lam·A' + ng·G with (na1, na_lam) = split_exp(na) and A' the point `mul_lambda` makes of A. -/
theorem ecmult_sum (a : XYZ) (ha : a.ok) (hA : OnC a.toPoint) (na : Int) (ng : Nat) (hng : ng < 2 ^ 256) :
    ∃ (r : XYZ) (A A' : CurvePt), A.1 = a.toPoint ∧ Rp (XYZ.mulLambda a) A' ∧ ecmult a na ng = some r ∧
      Rp r ((splitExp na).1 • A + (splitExp na).2 • A' + ng • Gc) := by
  obtain ⟨A', hA'⟩ := mulLambda_Rp ha hA
  have hRa : Rp a (mkPt a.toPoint hA) := ⟨ha, rfl⟩
  obtain ⟨b1, b2, b3, b4⟩ := splitExp_bound na
  have e128 : (2 : Int) ^ 128 = 340282366920938463463374607431768211456 := by norm_num
  have hg1 : ng % 2 ^ 128 < 2 ^ 128 := Nat.mod_lt _ (by positivity)
  have hg2 : ng / 2 ^ 128 < 2 ^ 128 := by
    rw [Nat.div_lt_iff_lt_mul (by positivity)]
    calc ng < 2 ^ 256 := hng
      _ = 2 ^ 128 * 2 ^ 128 := by norm_num
  obtain ⟨w1, h1, v1, d1, -⟩ := wnaf_ok (splitExp na).1 CurveConsts.windowa (by decide) (by rw [e128]; omega) (by rw [e128]; omega)
  obtain ⟨wl, h2, v2, d2, -⟩ := wnaf_ok (splitExp na).2 CurveConsts.windowa (by decide) (by rw [e128]; omega) (by rw [e128]; omega)
  obtain ⟨wg1, h3, v3, d3, -⟩ := wnaf_ok ((ng % 2 ^ 128 : Nat) : Int) CurveConsts.windowg (by decide)
    (by have := pow_pos_int 128; omega) (by exact_mod_cast hg1.le)
  obtain ⟨wg128, h4, v4, d4, -⟩ := wnaf_ok ((ng / 2 ^ 128 : Nat) : Int) CurveConsts.windowg (by decide)
    (by have := pow_pos_int 128; omega) (by exact_mod_cast hg2.le)
  have hstart : Rp { a with inf := true } 0 :=
    ⟨⟨ha.1, ha.2.1, ha.2.2.1, fun h => by simp at h⟩, XYZ.toPoint_inf rfl⟩
  have hloop := ecmult_loop (precomp_TabJ hRa CurveConsts.windowa) (precomp_TabJ hA' CurveConsts.windowa)
    d1 d2 d3 d4 _ hstart (max (max w1.length wl.length) (max wg1.length wg128.length))
    (le_trans (le_max_left _ _) (le_max_left _ _)) (le_trans (le_max_right _ _) (le_max_left _ _))
    (le_trans (le_max_left _ _) (le_max_right _ _)) (le_trans (le_max_right _ _) (le_max_right _ _))
  rw [v1, v2, v3, v4, add_assoc, split_nsmul] at hloop
  refine ⟨_, mkPt a.toPoint hA, A', rfl, hA', ?_, hloop⟩
  unfold ecmult split
  simp only [h1, h2, h3, h4, Option.bind_eq_bind, Option.bind_some, Option.pure_def]

/-- … hence na·A + ng·G, given the two facts about A that follow from #E(F_p) = n (not proved here, explicit
    hypotheses): n·A = 0 (Lagrange) and mul_lambda(A) = λ·A (the endomorphism acts on the cyclic group as λ). -/
theorem ecmult_mul (a : XYZ) (ha : a.ok) (hA : OnC a.toPoint) (na : Int) (ng : Nat) (hng : ng < 2 ^ 256)
    (hn : ((CurveConsts.order : Nat) : Int) • mkPt a.toPoint hA = 0)
    (hl : ∀ A' : CurvePt, Rp (XYZ.mulLambda a) A' → A' = ((CurveConsts.lambda : Nat) : Int) • mkPt a.toPoint hA) :
    ∃ r, ecmult a na ng = some r ∧ Rp r (na • mkPt a.toPoint hA + ng • Gc) := by
  obtain ⟨r, A, A', hAe, hA', hr, hR⟩ := ecmult_sum a ha hA na ng hng
  have hAeq : A = mkPt a.toPoint hA := Subtype.ext hAe
  subst hAeq
  refine ⟨r, hr, ?_⟩
  rw [hl A' hA'] at hR
  have hs := splitExp_sound na
  obtain ⟨k, hk⟩ := Int.dvd_of_emod_eq_zero hs
  have e : (splitExp na).1 • mkPt a.toPoint hA
      + (splitExp na).2 • (((CurveConsts.lambda : Nat) : Int) • mkPt a.toPoint hA)
      = na • mkPt a.toPoint hA := by
    rw [← mul_smul, ← add_smul]
    have : (splitExp na).1 + (splitExp na).2 * ((CurveConsts.lambda : Nat) : Int)
        = na + k * ((CurveConsts.order : Nat) : Int) := by linarith
    rw [this, add_smul, mul_smul, hn, smul_zero, add_zero]
  rw [e] at hR
  exact hR
end GocoinV.C08
