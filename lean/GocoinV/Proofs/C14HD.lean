/-
  Proofs.C14HD — helper lemmas for the BIP32 theorems of Props/C14.
-/
import GocoinV.Model.HD
import GocoinV.Spec.Bip32
namespace GocoinV.Proofs.C14
open GocoinV HD Gen.HDConsts

theorem beVal_beBytes (k n : Nat) : beVal (beBytes k n) = n % 256 ^ k := by
  simp [beVal, beBytes, leVal_leBytes]

theorem beBytes_length (k n : Nat) : (beBytes k n).length = k := by simp [beBytes]

theorem hardenedFrom_eq : hardenedFrom = 2 ^ 31 := by decide

def PrivWF (w : HDWallet) (k : Nat) : Prop :=
  isPrivatePfx w.pfx = true ∧ w.key = 0 :: Spec.Bip32.ser256 k ∧ k < 2 ^ 256

theorem child_priv_eq (C : WalletCrypto) (w : HDWallet) (k i : Nat) (P : Nat × Nat)
    (hw : PrivWF w k) (hi : i < 2 ^ 32) (hP : Secp.mul k Secp.G = some P) :
    child C w i =
      .ok { pfx := w.pfx, depth := (w.depth + 1) % 256, checksum := (C.hash160 (Secp.ser33 (some P))).take 4, idx := i,
            chCode := (C.hmac512 w.chCode ((if i ≥ 2 ^ 31 then w.key else Secp.ser33 (some P)) ++ beBytes 4 i)).drop 32,
            key := 0 :: beBytes 32 ((beVal ((C.hmac512 w.chCode ((if i ≥ 2 ^ 31 then w.key else Secp.ser33 (some P)) ++ beBytes 4 i)).take 32) + k) % Secp.n) } := by
  obtain ⟨hp, hk, hlt⟩ := hw
  have hlen : w.key.length = 33 := by simp [hk, Spec.Bip32.ser256, beBytes]
  have hdrop : w.key.drop 1 = beBytes 32 k := by simp [hk, Spec.Bip32.ser256]
  have hval : beVal (beBytes 32 k) = k := by
    rw [beVal_beBytes]; exact Nat.mod_eq_of_lt (by simpa using hlt)
  unfold child
  have c1 : ¬ (w.key.length ≠ 33 ∨ i ≥ 2 ^ 32) := by omega
  simp only [c1, ↓reduceIte, hp, hdrop, publicFromPrivate, hval, hP, serPoint, hardenedFrom_eq, deriveNextPrivate]

theorem ser33_length (P : Nat × Nat) : (Secp.ser33 (some P)).length = 33 := by
  simp [Secp.ser33, beBytes]

theorem ser33_head (P : Nat × Nat) : (Secp.ser33 (some P)).headD 0 = 2 ∨ (Secp.ser33 (some P)).headD 0 = 3 := by
  obtain ⟨x, y⟩ := P
  simp only [Secp.ser33, List.headD_cons]
  split <;> simp

theorem private_publish (p : Nat) (h : isPrivatePfx p = true) :
    isPublicPfx (publishPfx p) = true ∧ isPrivatePfx (publishPfx p) = false := by
  have : p ∈ setIsPrivateHDPrefix := by simpa [isPrivatePfx] using h
  simp only [setIsPrivateHDPrefix, List.mem_cons, List.not_mem_nil, or_false] at this
  rcases this with rfl | rfl | rfl | rfl | rfl | rfl <;> decide


/-- a well-formed public extended key holding the point P -/
def PubWF (w : HDWallet) (P : Nat × Nat) : Prop :=
  isPublicPfx w.pfx = true ∧ isPrivatePfx w.pfx = false ∧ w.key = Secp.ser33 (some P)

theorem child_pub_eq (C : WalletCrypto) (w : HDWallet) (i : Nat) (P Q : Nat × Nat)
    (hw : PubWF w P) (hi : i < 2 ^ 31)
    (hparse : Secp.parsePubkey (Secp.ser33 (some P)) = some P)
    (hQ : Secp.add (Secp.mul (beVal ((C.hmac512 w.chCode (w.key ++ beBytes 4 i)).take 32)) Secp.G) (some P) = some Q) :
    child C w i =
      .ok { pfx := w.pfx, depth := (w.depth + 1) % 256, checksum := (C.hash160 w.key).take 4, idx := i,
            chCode := (C.hmac512 w.chCode (w.key ++ beBytes 4 i)).drop 32, key := Secp.ser33 (some Q) } := by
  obtain ⟨hpub, hnpriv, hk⟩ := hw
  have hlen : w.key.length = 33 := by rw [hk]; exact ser33_length P
  have hhead : ¬ (w.key.headD 0 ≠ 2 ∧ w.key.headD 0 ≠ 3) := by
    rw [hk]; intro ⟨h2, h3⟩; rcases ser33_head P with h | h
    · exact h2 h
    · exact h3 h
  unfold child
  have hi2 : i < 2 ^ 32 := Nat.lt_trans hi (by decide)
  have c1 : ¬ (w.key.length ≠ 33 ∨ i ≥ 2 ^ 32) := by omega
  have c2 : ¬ (i ≥ 2 ^ 31) := by omega
  have c3 : ¬ (i ≥ 2 ^ 32) := by omega
  simp only [↓reduceIte, hnpriv, hpub, hardenedFrom_eq, c2, baseMultiplyAdd, hlen, ne_eq, not_true_eq_false,
    Bool.false_eq_true]
  rw [hk] at hQ ⊢
  simp only [hparse, hQ, serPoint, c3, or_self, ↓reduceIte]

/-- `Child` on a private key whose scalar gives the point at infinity is outside the model -/
theorem child_priv_inf (C : WalletCrypto) (w : HDWallet) (k i : Nat)
    (hw : PrivWF w k) (hi : i < 2 ^ 32) (hP : Secp.mul k Secp.G = none) :
    child C w i = .error .outside := by
  obtain ⟨hp, hk, hlt⟩ := hw
  have hlen : w.key.length = 33 := by simp [hk, Spec.Bip32.ser256, beBytes]
  have hdrop : w.key.drop 1 = beBytes 32 k := by simp [hk, Spec.Bip32.ser256]
  have hval : beVal (beBytes 32 k) = k := by
    rw [beVal_beBytes]; exact Nat.mod_eq_of_lt (by simpa using hlt)
  unfold child
  have c1 : ¬ (w.key.length ≠ 33 ∨ i ≥ 2 ^ 32) := by omega
  simp only [c1, ↓reduceIte, hp, hdrop, publicFromPrivate, hval, hP, serPoint]

/-- `Child` on a public key when I_L·G + P is the point at infinity panics ("Invalid public key":
    `BaseMultiplyAdd` reports false there since the `fix:` commit for api-basemultiplyadd-identity) -/
theorem child_pub_inf (C : WalletCrypto) (w : HDWallet) (i : Nat) (P : Nat × Nat)
    (hw : PubWF w P) (hi : i < 2 ^ 31)
    (hparse : Secp.parsePubkey (Secp.ser33 (some P)) = some P)
    (hQ : Secp.add (Secp.mul (beVal ((C.hmac512 w.chCode (w.key ++ beBytes 4 i)).take 32)) Secp.G) (some P) = none) :
    child C w i = .error .panic := by
  obtain ⟨hpub, hnpriv, hk⟩ := hw
  have hlen : w.key.length = 33 := by rw [hk]; exact ser33_length P
  have hhead : ¬ (w.key.headD 0 ≠ 2 ∧ w.key.headD 0 ≠ 3) := by
    rw [hk]; intro ⟨h2, h3⟩; rcases ser33_head P with h | h
    · exact h2 h
    · exact h3 h
  unfold child
  have hi2 : i < 2 ^ 32 := Nat.lt_trans hi (by decide)
  have c1 : ¬ (w.key.length ≠ 33 ∨ i ≥ 2 ^ 32) := by omega
  have c2 : ¬ (i ≥ 2 ^ 31) := by omega
  have c3 : ¬ (i ≥ 2 ^ 32) := by omega
  simp only [↓reduceIte, hnpriv, hpub, hardenedFrom_eq, c2, baseMultiplyAdd, hlen, ne_eq, not_true_eq_false,
    Bool.false_eq_true]
  rw [hk] at hQ ⊢
  simp only [hparse, hQ, serPoint, c3, or_self, ↓reduceIte]

/-- `Pub` of a well-formed private key -/
theorem pub_priv_eq (w : HDWallet) (k : Nat) (P : Nat × Nat) (hw : PrivWF w k) (hP : Secp.mul k Secp.G = some P) :
    pub w = .ok { w with pfx := publishPfx w.pfx, key := Secp.ser33 (some P) } := by
  obtain ⟨hp, hk, hlt⟩ := hw
  have hnpub : isPublicPfx w.pfx = false := by
    have : w.pfx ∈ setIsPrivateHDPrefix := by simpa [isPrivatePfx] using hp
    simp only [setIsPrivateHDPrefix, List.mem_cons, List.not_mem_nil, or_false] at this
    rcases this with h | h | h | h | h | h <;> rw [h] <;> decide
  have hlen : w.key.length = 33 := by simp [hk, Spec.Bip32.ser256, beBytes]
  have hdrop : w.key.drop 1 = beBytes 32 k := by simp [hk, Spec.Bip32.ser256]
  have hval : beVal (beBytes 32 k) = k := by
    rw [beVal_beBytes]; exact Nat.mod_eq_of_lt (by simpa using hlt)
  unfold pub
  simp only [hnpub, Bool.false_eq_true, ↓reduceIte, hlen, ne_eq, not_true_eq_false, hdrop, publicFromPrivate, hval, hP, serPoint]

theorem ckdPriv_range (hmac : Bytes → Bytes → Bytes) (k : Nat) (c : Bytes) (i k' : Nat) (c' : Bytes)
    (h : Spec.Bip32.ckdPriv hmac k c i = some (k', c')) : 0 < k' ∧ k' < Secp.n := by
  unfold Spec.Bip32.ckdPriv at h
  simp only [] at h
  generalize (if i ≥ 2 ^ 31 then _ else _ : Bytes) = I at h
  split at h
  · simp at h
  · rename_i hc
    simp only [Option.some.injEq, Prod.mk.injEq] at h
    obtain ⟨rfl, _⟩ := h
    have hn : 0 < Secp.n := by decide
    constructor
    · have : ¬ ((Spec.Bip32.parse256 (I.take 32) + k) % Secp.n = 0) := fun e => hc (Or.inr e)
      omega
    · exact Nat.mod_lt _ hn

end GocoinV.Proofs.C14
