/-
  Proofs.C06Order — DeleteBranch keeps the ARRIVAL ORDER of the remaining children.

  `Node.childs` mirrors `BlockTreeNode.Childs` (addChild appends; arrival order). `FindFarthestNode` lets the first child's
  subtree win an equal-work tie, so the order of the list is observable in the tip after a failed reorganisation. The Go
  `delChild` copies every child except the removed one into a new slice, in order; the model's `deleteBranch` filters the
  list. Here: the list of every surviving node after `deleteBranch c nx` is the old list with `nx` taken out and nothing
  else moved (a swap-remove — last child moved into the freed slot — does not satisfy this).
-/
import GocoinV.Proofs.C06Delete
namespace GocoinV.ChainTree
open GocoinV.UtxoOps

theorem filter_ne_eq_self_of_not_mem (l : List Nat) (a : Nat) (h : a ∉ l) : l.filter (· != a) = l := by
  induction l with
  | nil => rfl
  | cons x xs ih =>
    have hx : x ≠ a := fun e => h (e ▸ List.mem_cons_self)
    have hxs : a ∉ xs := fun m => h (List.mem_cons_of_mem _ m)
    simp [hx, ih hxs]

theorem filter_ne_eq_erase_of_nodup (l : List Nat) (a : Nat) (h : l.Nodup) : l.filter (· != a) = l.erase a := by
  induction l with
  | nil => rfl
  | cons x xs ih =>
    have hn := List.nodup_cons.mp h
    by_cases hx : x = a
    · subst hx
      simp [filter_ne_eq_self_of_not_mem xs x hn.1]
    · have hb : (x == a) = false := by simpa using hx
      simp [hx, hb, ih hn.2]

/-- children of every node that survives `deleteBranch c nx`: the old list without `nx`, order kept -/
theorem deleteBranch_childs {U : List Block} {c : Chain} (w : TreeWF U c) {nx : Nat} {nxt : Node}
    (hn : getNode c nx = some nxt) (y : Nat) (p : Node) (hp : getNode c y = some p) (ha : ¬ Desc c nx y) :
    ∃ p', getNode (deleteBranch c nx) y = some p' ∧ p'.childs = p.childs.filter (· != nx) ∧
      (y ≠ nxt.parent → p'.childs = p.childs) := by
  rw [getNode_deleteBranch_alive w hn y ha, hp]
  simp only [Option.map_some]
  have hid : p.id = y := getNode_id hp
  by_cases hq : (p.id == nxt.parent) = true
  · rw [if_pos hq]
    refine ⟨_, rfl, rfl, fun hne => ?_⟩
    exact absurd (by rw [← hid]; simpa using hq) hne
  · rw [if_neg hq]
    have hnot : nx ∉ p.childs := by
      intro hm
      obtain ⟨_, m, h4, h5⟩ := w.childs y p hp nx hm
      rw [hn] at h4; cases h4
      exact hq (by rw [hid, h5]; simp)
    exact ⟨p, rfl, (filter_ne_eq_self_of_not_mem _ _ hnot).symm, fun _ => rfl⟩

/-- the parent of the deleted node survives, and its child list is the old one with `nx` erased -/
theorem deleteBranch_parent_childs {U : List Block} {c : Chain} (w : TreeWF U c) {nx : Nat} {nxt : Node}
    (hn : getNode c nx = some nxt) (hx : nx ≠ c.root) :
    ∃ p p', getNode c nxt.parent = some p ∧ getNode (deleteBranch c nx) nxt.parent = some p' ∧ nx ∈ p.childs ∧
      p'.childs = p.childs.filter (· != nx) := by
  obtain ⟨p, h2, h3, h4⟩ := w.par nx nxt hn hx
  have ha : ¬ Desc c nx nxt.parent := by
    intro hd
    obtain ⟨na, hna, hle, _⟩ := Desc.height w hd p h2
    rw [hn] at hna; cases hna
    omega
  obtain ⟨p', g1, g2, _⟩ := deleteBranch_childs w hn _ p h2 ha
  exact ⟨p, p', h2, g1, h4, g2⟩

end GocoinV.ChainTree
