/-
  Proofs.C15Case — `bech32.Decode` refuses every mixed-case string.
-/
import GocoinV.Proofs.C15Bech32Inv
namespace GocoinV.Bech32

theorem upper_simpl : ∀ c : UInt8, (!isLower c && isUpper c) = isUpper c := forall_uint8 _ (by decide +kernel)

theorem decHrp_flags (H : Bytes) : ∀ (st hs : HrpScan), decHrp? H st = some hs →
    hs.lower = (st.lower || H.any isLower) ∧ hs.upper = (st.upper || H.any isUpper) := by
  induction H with
  | nil => intro st hs h; simp [decHrp?] at h; subst h; simp
  | cons ch t ih =>
    intro st hs h
    unfold decHrp? at h
    by_cases hr : ch.toNat < 33 ∨ ch.toNat > 126
    · simp [hr] at h
    · simp only [hr, ↓reduceIte] at h
      obtain ⟨h1, h2⟩ := ih _ hs h
      simp only [upper_simpl] at h2
      rw [h1, h2]
      simp [Bool.or_assoc]

theorem decData_flags (T : Bytes) : ∀ (st ds : DataScan), decData? T st = some ds →
    ds.lower = (st.lower || T.any isLower) ∧ ds.upper = (st.upper || T.any isUpper) := by
  induction T with
  | nil => intro st ds h; simp [decData?] at h; subst h; simp
  | cons c t ih =>
    intro st ds h
    unfold decData? at h
    by_cases h80 : c &&& 0x80 ≠ 0
    · simp [h80] at h
    · simp only [h80, ↓reduceIte] at h
      by_cases hv : (charsetRev c).toNat > 31
      · simp [hv] at h
      · simp only [hv, ↓reduceIte] at h
        obtain ⟨h1, h2⟩ := ih _ ds h
        rw [h1, h2]
        simp [Bool.or_assoc]

/-- whatever `Decode` accepts does not contain both a lower-case and an upper-case letter -/
theorem decode_not_mixed (s : Bytes) (r : Bytes × Bytes × Bool) (h : decode s = some r) :
    ¬ (s.any isLower = true ∧ s.any isUpper = true) := by
  unfold decode at h
  simp only at h
  split at h; · simp at h
  split at h; · simp at h
  rename_i hn hl
  obtain ⟨H, T, hs, hT⟩ := split_at_sep s (by omega)
  generalize hL : dataLenOf s = L at *
  have hslen : s.length = H.length + 1 + L := by rw [hs]; simp; omega
  have hk : s.length - (1 + L) = H.length := by omega
  rw [hk] at h
  have htake : s.take H.length = H := by rw [hs]; simp
  have hdrop : s.drop (H.length + 1) = T := by
    rw [hs, List.drop_append_of_le_length (by simp)]; simp
  rw [htake, hdrop] at h
  split at h; · simp at h
  rename_i hsc hhs
  split at h; · simp at h
  rename_i ds hds
  split at h; · simp at h
  rename_i hmix
  obtain ⟨f1, f2⟩ := decHrp_flags H _ _ hhs
  obtain ⟨g1, g2⟩ := decData_flags T _ _ hds
  simp only [Bool.false_or] at f1 f2
  simp only [f1, f2] at g1 g2
  rw [g1, g2] at hmix
  intro hc
  apply hmix
  rw [hs] at hc
  have e1 : isLower 49 = false := by decide
  have e2 : isUpper 49 = false := by decide
  simp only [List.any_append, List.any_cons, List.any_nil, e1, e2, Bool.or_false] at hc
  simp only [hc.1, hc.2, Bool.and_self]

end GocoinV.Bech32
