/- C08 table proof chunk (written once by Proofs/mk_c08_tab.py; static). -/
import GocoinV.Proofs.C08_TabDefs
import GocoinV.Gen.TablesPreG09
import GocoinV.Gen.TablesPreG08
namespace GocoinV.C08
open GocoinV.Gen

theorem preG_09 : chainOK (Secp.dbl Secp.G) ((pts Tables.preG08).getLastD none :: pts Tables.preG09) = true := by
  decide +kernel
theorem preG_09_ne : pts Tables.preG09 ≠ [] := by decide +kernel

end GocoinV.C08
