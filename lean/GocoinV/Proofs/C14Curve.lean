/-
  Proofs.C14Curve — the reference-curve facts the BIP32 theorems of Props/C14 used to take as named
  hypotheses, now DERIVED from the theorems of C03 / C08 (imported, not copied):
    * `Proofs.C03.secpGroupLaw`   (Proofs/C03Curve.lean)  — `Secp.add` is Mathlib's Weierstrass group law
    * `Proofs.C03.mul_eq_nsmul`   (Proofs/C03Group.lean)  — double-and-add = k-fold sum
    * `Proofs.C03.order_G`, `mul_G_ne_none` (C03Group / C03Ecdsa) — G has order exactly n (n prime: C08_Primes)
    * `Proofs.C03.parsePubkey_ser33` + `parsePubkey_eq` (C03Ecdsa / C03) — parse ∘ serP = id on curve points
      (square roots for p ≡ 3 mod 4: Proofs/C03Field.lean)
-/
import GocoinV.Proofs.C03Curve
import GocoinV.Proofs.C03Ecdsa
import GocoinV.Proofs.C14HD
namespace GocoinV.Proofs.C14
open GocoinV GocoinV.Secp GocoinV.Proofs.C03

/-- every multiple of G is a point of the curve -/
theorem mul_G_onCurve (k : Nat) : onCurve (Secp.mul k G) = true := by
  rw [mul_G]; exact (k • Gc).2

/-- (a + b)·G = a·G + b·G for the reference double-and-add and the reference affine addition -/
theorem mul_add_G (a b : Nat) : Secp.mul (a + b) G = Secp.add (Secp.mul a G) (Secp.mul b G) := by
  rw [mul_G, mul_G, mul_G, add_nsmul, val_add]

/-- (a mod n)·G = a·G -/
theorem mul_mod_G (a : Nat) : Secp.mul (a % n) G = Secp.mul a G := by
  rw [mul_G, mul_G, nsmul_G_congr (a % n) a (by rw [ZMod.natCast_mod])]

/-- the hypothesis `hadd` of the first version of `pub_commutes` -/
theorem mul_add_mod_G (a k : Nat) :
    Secp.mul ((a + k) % n) G = Secp.add (Secp.mul a G) (Secp.mul k G) := by
  rw [mul_mod_G, mul_add_G]

/-- k·G = ∞ exactly for the multiples of n -/
theorem mul_G_none_iff (k : Nat) : Secp.mul k G = none ↔ k % n = 0 := by
  constructor
  · intro h
    rcases Nat.eq_zero_or_pos (k % n) with h0 | h0
    · exact h0
    · have := mul_G_ne_none (k % n) h0 (Nat.mod_lt _ n_pos)
      rw [mul_mod_G] at this
      exact absurd h this
  · intro h
    rw [← mul_mod_G, h]; rfl

/-- the hypothesis `hfin` of the first version of `derive_is_bip32` -/
theorem mul_G_finite (j : Nat) (h0 : 0 < j) (hn : j < n) : ∃ P, Secp.mul j G = some P := by
  cases h : Secp.mul j G with
  | none => exact absurd h (mul_G_ne_none j h0 hn)
  | some P => exact ⟨P, rfl⟩

/-- k·G is a finite point for every k that is not a multiple of n -/
theorem mul_G_some (k : Nat) (hk : k % n ≠ 0) : ∃ P, Secp.mul k G = some P := by
  cases h : Secp.mul k G with
  | none => exact absurd ((mul_G_none_iff k).mp h) hk
  | some P => exact ⟨P, rfl⟩

/-- the hypothesis `hparse` of the first versions of `pub_commutes` / `ckd_pub_spec`: strict SEC1
    parsing reads the compressed serialisation of a curve point back -/
theorem parse_ser33 (P : Nat × Nat) (h : onCurve (some P) = true) :
    Secp.parsePubkey (ser33 (some P)) = some P := by
  obtain ⟨x, y⟩ := P
  rw [← parsePubkey_eq _ (not_exceptional _)]
  exact parsePubkey_ser33 x y h

/-- the sum of two curve points is a curve point -/
theorem add_onCurve (P Q : Point) (hP : onCurve P = true) (hQ : onCurve Q = true) :
    onCurve (Secp.add P Q) = true :=
  secpGroupLaw.add_closed P Q hP hQ

/-- a·G + k·G = ∞ exactly when a + k is a multiple of n -/
theorem add_mul_G_none_iff (a k : Nat) :
    Secp.add (Secp.mul a G) (Secp.mul k G) = none ↔ (a + k) % n = 0 := by
  rw [← mul_add_G, mul_G_none_iff]

end GocoinV.Proofs.C14
