/-
  Proofs.C16Top — data-file numbers are never reused (second audit, item 1a).
  `TopInv`: every record of the index file — invalid-flagged ones included — carries BLOCK_INDEX / BLOCK_LENGTH and a
  non-zero size; the current file number `maxdatfileidx` is 0 or the file number of some record of the index file; and every
  number in the ghost list `FS.lost` is BELOW `maxdatfileidx`.
  Within a session the number only grows (`Grows`); across close + reopen LoadBlockIndex recomputes it as the maximum over
  ALL records — which needs the invalid-record branch to count (`Gen.BlockDBFacts.invalidCountsFile`, the repair
  72419de0): with the fact `false` the theorems of this file are not provable (the former defect: the store fell back to a
  lower, possibly lost, file number).
-/
import GocoinV.Proofs.C16Restart
import GocoinV.Proofs.C16Window
namespace GocoinV.BlockDB

/-- what every record written by `writeOne` has, and a flag update (OR of TRUSTED / INVALID) keeps -/
def WellRec (c : Bytes) : Prop :=
  hasFlag (flagAt c) BLOCK_INDEX = true ∧ hasFlag (flagAt c) BLOCK_LENGTH = true ∧ 0 < field c 32 36

structure TopInv (s : State) : Prop where
  well : ∀ p, p % 136 = 0 → p + 136 ≤ s.fs.idx.length → WellRec (recAt s.fs.idx p)
  top : s.maxdatfileidx = 0 ∨
    ∃ p, p % 136 = 0 ∧ p + 136 ≤ s.fs.idx.length ∧ field (recAt s.fs.idx p) 28 32 = s.maxdatfileidx
  below : ∀ i, i ∈ s.fs.lost → i < s.maxdatfileidx

theorem top_same (s s' : State) (h : TopInv s) (h1 : s'.fs.idx = s.fs.idx) (h2 : s'.maxdatfileidx = s.maxdatfileidx)
    (h3 : s'.fs.lost = s.fs.lost) : TopInv s' :=
  ⟨by rw [h1]; exact h.well, by rw [h1, h2]; exact h.top, by rw [h2, h3]; exact h.below⟩

theorem below_grows (s s' : State) (h : ∀ i, i ∈ s.fs.lost → i < s.maxdatfileidx) (g : Grows s s') :
    ∀ i, i ∈ s'.fs.lost → i < s'.maxdatfileidx := by
  intro i hi
  rcases g.2.2 i hi with h1 | h1
  · have := h i h1; have := g.2.1; omega
  · have := h1.2.2; omega

theorem wellRec_mkRecord (c t : Bool) (di ol he fp bl tx : Nat) (data : Bytes) (h4 : 0 < ol) (h5 : ol < 2^32) :
    WellRec (mkRecord (flagsOf c t) di ol he fp bl tx data) := by
  obtain ⟨_, f2, _⟩ := field_mk (flagsOf c t) di ol he fp bl tx data
  obtain ⟨b0, b1, b2, _⟩ := flagsOf_bits c t
  have hf : flagAt (mkRecord (flagsOf c t) di ol he fp bl tx data) = flagsOf c t := by
    unfold flagAt
    rw [mkRecord_flag]
    simp [UInt8.toNat_ofNat']; omega
  refine ⟨by rw [hf]; exact b2, by rw [hf]; exact b1, ?_⟩
  rw [f2, Nat.mod_eq_of_lt h5]; exact h4

theorem wellRec_flag (c : Bytes) (fl : Nat) (hfl : fl = BLOCK_TRUSTED ∨ fl = BLOCK_INVALID) (h : WellRec c) :
    WellRec (UInt8.ofNat (flagAt c ||| fl) :: c.drop 1) := by
  have hc : flagAt c < 256 := by unfold flagAt; exact (c.getD 0 0).toNat_lt
  obtain ⟨o1, _, _, _, o5, o6⟩ := or_flag_bits ⟨flagAt c, hc⟩
  simp only at o1 o5 o6
  have hfl' : fl ∈ [BLOCK_TRUSTED, BLOCK_INVALID] := by
    rcases hfl with e | e <;> simp [e]
  have hlt : flagAt c ||| fl < 256 := by rcases hfl with e | e <;> rw [e] <;> assumption
  have hf : flagAt (UInt8.ofNat (flagAt c ||| fl) :: c.drop 1) = flagAt c ||| fl := by
    rw [flagAt_cons, UInt8.toNat_ofNat']; exact Nat.mod_eq_of_lt hlt
  refine ⟨?_, ?_, ?_⟩
  · rw [hf, o1 fl hfl' BLOCK_INDEX (by simp)]; exact h.1
  · rw [hf, o1 fl hfl' BLOCK_LENGTH (by simp)]; exact h.2.1
  · rw [field_cons_drop _ _ _ _ (by decide)]; exact h.2.2

/-- `setBlockFlag`: one flag byte of one whole record changes -/
theorem setBlockFlag_top (s : State) (h : TopInv s) (hi : IdxInv s) (k : Key) (r0 : Rec) (fl : Nat)
    (hr : AL.get s.index k = some r0) (hfl : fl = BLOCK_TRUSTED ∨ fl = BLOCK_INVALID) :
    TopInv (setBlockFlag s k r0 fl) := by
  obtain ⟨_, _, _, i3, _, _, _, _, i8⟩ := setBlockFlag_fields s k r0 fl
  cases hp : r0.ipos with
  | none =>
    have hfs : (setBlockFlag s k r0 fl).fs.idx = s.fs.idx := by
      unfold setBlockFlag; simp only [hp]
    exact top_same s _ h hfs i8 i3.2.2
  | some p =>
    obtain ⟨pl, pm⟩ := hi.ipos k r0 p hr hp
    have plt : p < s.fs.idx.length := by omega
    have hfs : (setBlockFlag s k r0 fl).fs.idx = pwrite s.fs.idx p [UInt8.ofNat ((s.fs.idx.getD p 0).toNat ||| fl)] := by
      unfold setBlockFlag; simp only [hp]
    have hsame : ∀ p', p' % 136 = 0 → p' ≠ p → recAt (setBlockFlag s k r0 fl).fs.idx p' = recAt s.fs.idx p' := by
      intro p' hp' hne
      rw [hfs]
      rcases chunk_apart p p' pm hp' (Ne.symm hne) with c | c
      · exact recAt_pwrite_before _ _ _ _ plt c
      · exact recAt_pwrite_after _ _ _ _ plt c
    have hat : recAt (setBlockFlag s k r0 fl).fs.idx p = UInt8.ofNat (flagAt (recAt s.fs.idx p) ||| fl) :: (recAt s.fs.idx p).drop 1 := by
      rw [hfs, recAt_pwrite_at _ _ _ plt]
      unfold flagAt; rw [recAt_getD _ _ pl]
    have hlen : (setBlockFlag s k r0 fl).fs.idx.length = s.fs.idx.length := by
      rw [hfs]; exact pwrite_length_inside _ _ _ plt
    have hfield : ∀ p', p' % 136 = 0 → p' + 136 ≤ s.fs.idx.length →
        field (recAt (setBlockFlag s k r0 fl).fs.idx p') 28 32 = field (recAt s.fs.idx p') 28 32 := by
      intro p' hp1 _
      by_cases e : p' = p
      · subst e; rw [hat, field_cons_drop _ _ _ _ (by omega)]
      · rw [hsame p' hp1 e]
    refine ⟨?_, ?_, by rw [i8, i3.2.2]; exact h.below⟩
    · intro p' hp1 hp2
      rw [hlen] at hp2
      by_cases e : p' = p
      · subst e; rw [hat]; exact wellRec_flag _ fl hfl (h.well p' hp1 hp2)
      · rw [hsame p' hp1 e]; exact h.well p' hp1 hp2
    · rw [i8, hlen]
      rcases h.top with h0 | ⟨p', a1, a2, a3⟩
      · exact .inl h0
      · exact .inr ⟨p', a1, a2, by rw [hfield p' a1 a2]; exact a3⟩

/-- `writeOne`: nothing, or one record with the (possibly rolled-over) current file number appended; `n` bounds the file
    number plus the queue length (so the 4-byte field of the record is lossless) -/
theorem writeOne_top (env : Env) (s s' : State) (n : Nat) (h : TopInv s) (hi : IdxInv s)
    (hc : s.maxdatfileidx + s.queue.length ≤ n) (hq : ∀ b ∈ s.queue, b.data.length ≤ 0xffffffff)
    (ho : s.isOpen = true) (hn : n < 2^31) (hw : writeOne env s = some s') :
    TopInv s' ∧ s'.maxdatfileidx + s'.queue.length ≤ n ∧ ∀ b ∈ s'.queue, b.data.length ≤ 0xffffffff := by
  have hg := writeOne_grows env s s' hw
  have hbelow := below_grows s s' h.below hg
  unfold writeOne at hw
  split at hw
  · cases hw
  · rename_i b q hq0
    have hbq : b ∈ s.queue := by rw [hq0]; simp
    have hsub : ∀ b' ∈ q, b' ∈ s.queue := fun b' hb' => by rw [hq0]; simp [hb']
    have hlen : s.queue.length = q.length + 1 := by rw [hq0]; simp
    simp only at hw
    split at hw
    · cases hw; exact ⟨⟨h.well, h.top, hbelow⟩, by simp only; omega, fun b' hb' => hq b' (hsub b' hb')⟩
    · rename_i r0 hr0
      split at hw
      · cases hw; exact ⟨⟨h.well, h.top, hbelow⟩, by simp only; omega, fun b' hb' => hq b' (hsub b' hb')⟩
      · simp only [Option.some.injEq] at hw
        subst hw
        generalize hcb : (if s.opts.compress = true then env.enc b.data else b.data) = cbts at *
        have qs1 := hq b hbq
        have hb80 : b.data.length ≥ 80 := hi.queue b hbq
        obtain ⟨f1, _, f3, _, f5⟩ :=
          maybeRoll_facts { s with queue := q, datToWrite := s.datToWrite - b.data.length } cbts.length
        have hroll := maybeRoll_pos { s with queue := q, datToWrite := s.datToWrite - b.data.length } cbts.length
        generalize hs1 : maybeRoll { s with queue := q, datToWrite := s.datToWrite - b.data.length } cbts.length = s1 at *
        simp only at f1 f3 f5 hroll
        have hmdi : s1.maxdatfileidx + q.length ≤ n := by rcases hroll with ⟨a, _⟩ | ⟨a, _⟩ <;> omega
        have hL : s1.maxidxfilepos = s.fs.idx.length := by rw [f5]; exact hi.pos ho
        have hlm := hi.len_mod
        generalize hfl : mkRecord (flagsOf s1.opts.compress r0.trusted) s1.maxdatfileidx b.data.length b.height s1.maxdatfilepos
          cbts.length b.txcount b.data = fl
        have hfll : fl.length = 136 := by rw [← hfl]; exact mkRecord_length _ _ _ _ _ _ _ _ hb80
        have hidx' : (writeRecord s1 b r0 cbts).fs.idx = s.fs.idx ++ fl := by
          unfold writeRecord; simp only [hfl, hL, f1, pwrite_at_end]
        have hmi : (writeRecord s1 b r0 cbts).maxdatfileidx = s1.maxdatfileidx := by unfold writeRecord; simp only
        have hq' : (writeRecord s1 b r0 cbts).queue = q := by unfold writeRecord; simp only [f3]
        have hwell : WellRec fl := by
          rw [← hfl]; exact wellRec_mkRecord _ _ _ _ _ _ _ _ _ (by omega) (by omega)
        have hfield : field fl 28 32 = s1.maxdatfileidx := by
          rw [← hfl, (field_mk _ _ _ _ _ _ _ _).2.2.2.2.2]; exact Nat.mod_eq_of_lt (by omega)
        refine ⟨⟨?_, ?_, hbelow⟩, by rw [hmi, hq']; exact hmdi, by rw [hq']; exact fun b' hb' => hq b' (hsub b' hb')⟩
        · intro p hp1 hp2
          rw [hidx'] at hp2 ⊢
          simp only [List.length_append, hfll] at hp2
          by_cases e : p = s.fs.idx.length
          · subst e; rw [recAt_append_new _ _ hfll]; exact hwell
          · rw [recAt_append_left _ _ _ (by omega)]; exact h.well p hp1 (by omega)
        · right
          refine ⟨s.fs.idx.length, hlm, by rw [hidx']; simp [hfll], ?_⟩
          rw [hidx', recAt_append_new _ _ hfll, hmi]; exact hfield

theorem writeAll_top (env : Env) (n : Nat) (hn : n < 2^31) : ∀ (f : Nat) (s : State), TopInv s → IdxInv s →
    s.maxdatfileidx + s.queue.length ≤ n → (∀ b ∈ s.queue, b.data.length ≤ 0xffffffff) → s.isOpen = true →
    TopInv (writeAll env f s) := by
  intro f
  induction f with
  | zero => intro s h _ _ _ _; exact h
  | succ f ih =>
    intro s h hi hc hq ho
    unfold writeAll
    split
    · exact h
    · rename_i s' hw
      obtain ⟨a, b⟩ := writeOne_inv env s s' hi ho hw
      obtain ⟨t1, t2, t3⟩ := writeOne_top env s s' n h hi hc hq ho hn hw
      exact ih s' t1 a t2 t3 b

theorem flush_top (env : Env) (s : State) (n : Nat) (hn : n < 2^31) (h : TopInv s) (hi : IdxInv s)
    (hc : s.maxdatfileidx + s.queue.length ≤ n) (hq : ∀ b ∈ s.queue, b.data.length ≤ 0xffffffff)
    (ho : s.isOpen = true) : TopInv (flush env s) :=
  writeAll_top env n hn _ s h hi hc hq ho

/-! ### the other operations of a session -/

theorem addToCache_top (s : State) (k : Key) (d : Bytes) (h : TopInv s) : TopInv (addToCache s k d) := by
  obtain ⟨_, _, g3, _, _, _, _, g8, _⟩ := addToCache_fields s k d
  exact top_same s _ h (by rw [g3]) g8 (by rw [g3])

theorem blockTrusted_top (s : State) (hash : Bytes) (h : TopInv s) (hi : IdxInv s) : TopInv (blockTrusted s hash) := by
  unfold blockTrusted
  simp only
  split
  · exact h
  · rename_i r0 hr0
    split
    · exact h
    · exact setBlockFlag_top s h hi _ r0 _ hr0 (.inl rfl)

theorem blockInvalid_top (s : State) (hash : Bytes) (h : TopInv s) (hi : IdxInv s) : TopInv (blockInvalid s hash).1 := by
  unfold blockInvalid
  simp only
  split
  · exact h
  · rename_i r0 hr0
    split
    · exact h
    · split
      · exact top_same s _ h rfl rfl rfl
      · exact setBlockFlag_top s h hi _ r0 _ hr0 (.inr rfl)

theorem blockGet_top (env : Env) (s : State) (hash : Bytes) (h : TopInv s) : TopInv (blockGet env s hash).1 := by
  unfold blockGet
  simp only
  split
  · exact h
  · split
    · exact top_same s _ h rfl rfl rfl
    · split
      · exact h
      · split
        · exact h
        · split
          · exact h
          · split
            · exact h
            · generalize decodeStored env _ _ = ble
              obtain ⟨bl, err⟩ := ble
              simp only
              split <;> exact addToCache_top _ _ _ (top_same s _ h rfl rfl rfl)

theorem blockLength_top (env : Env) (s : State) (hash : Bytes) (d : Bool) (h : TopInv s) :
    TopInv (blockLength env s hash d).1 := by
  unfold blockLength
  simp only
  split
  · exact h
  · split
    · exact h
    · split
      · exact h
      · have := blockGet_top env s hash h
        generalize blockGet env s hash = res at this ⊢
        obtain ⟨s', out⟩ := res
        cases out <;> exact this

theorem blockAdd_top (env : Env) (s : State) (n : Nat) (hn : n + 1 < 2^31) (h : TopInv s) (hi : IdxInv s)
    (hc : s.maxdatfileidx + s.queue.length ≤ n) (hq : ∀ b ∈ s.queue, b.data.length ≤ 0xffffffff) (ho : s.isOpen = true)
    (hash : Bytes) (ht tx : Nat) (tr : Bool) (raw : Bytes) (hraw : raw.length ≥ 80) (hsz : raw.length ≤ 0xffffffff) :
    TopInv (blockAdd env s hash ht tx tr raw) := by
  unfold blockAdd
  simp only
  split
  · generalize hs1 : ({ s with index := AL.set s.index (keyOf hash) { ipos := none, trusted := tr, olen := raw.length, seq := s.nextSeq } } : State) = s1
    have e_q : s1.queue = s.queue := by rw [← hs1]
    have e_fs : s1.fs = s.fs := by rw [← hs1]
    have e_open : s1.isOpen = s.isOpen := by rw [← hs1]
    have e_mi : s1.maxdatfileidx = s.maxdatfileidx := by rw [← hs1]
    have e_mx : s1.maxidxfilepos = s.maxidxfilepos := by rw [← hs1]
    have e_idx : s1.index = AL.set s.index (keyOf hash) { ipos := none, trusted := tr, olen := raw.length, seq := s.nextSeq } := by rw [← hs1]
    have t1 : TopInv s1 := top_same s _ h (by rw [e_fs]) e_mi (by rw [e_fs])
    have i1 : IdxInv s1 := ⟨by rw [e_fs]; exact hi.len_mod, by rw [e_open, e_mx, e_fs]; exact hi.pos, by
      intro k r p; rw [e_idx, e_fs]; simp only [AL.get_set]
      split
      · intro a b; simp only [Option.some.injEq] at a; subst a; cases b
      · exact hi.ipos k r p, by rw [e_q]; exact hi.queue⟩
    obtain ⟨g1, g2, g3, _, g5, _, _, g8, _⟩ := addToCache_fields s1 (keyOf hash) raw
    obtain ⟨c1, _, _, _, _, g9⟩ := addToCache_inv s1 (keyOf hash) raw i1
    have t2 := addToCache_top s1 (keyOf hash) raw t1
    generalize hs2 : addToCache s1 (keyOf hash) raw = s2 at *
    have t3 : TopInv { s2 with datToWrite := s2.datToWrite + raw.length, nextSeq := s2.nextSeq + 1, queue := s2.queue ++ [{ data := raw, idx := keyOf hash, height := ht, txcount := tx % 2^32, seq := s2.nextSeq }] } :=
      top_same s2 _ t2 rfl rfl rfl
    split
    · refine flush_top env _ (n + 1) hn t3 ?_ ?_ ?_ (by simp only; rw [g5, e_open]; exact ho)
      · refine ⟨c1.len_mod, c1.pos, c1.ipos, ?_⟩
        intro b hb
        simp only [List.mem_append, List.mem_singleton] at hb
        rcases hb with hb | hb
        · exact c1.queue b hb
        · subst hb; exact hraw
      · simp only [List.length_append, List.length_singleton]; rw [g8, e_mi, g2, e_q]; omega
      · intro b hb
        simp only [List.mem_append, List.mem_singleton] at hb
        rcases hb with hb | hb
        · rw [g2, e_q] at hb; exact hq b hb
        · subst hb; exact hsz
    · exact t3
  · split
    · split
      · exact top_same s _ h rfl rfl rfl
      · exact blockTrusted_top s hash h hi
    · exact h

/-! ### LoadBlockIndex: the file number it computes is the maximum over ALL records -/

/-- one record of a well-formed index file: the accumulator's file number becomes the maximum of itself and the record's
    number — for a record that is flagged invalid too, PROVIDED the source has the repair (`invalidCountsFile`) -/
theorem loadRecord_mdi (env : Env) (hic : Gen.BlockDBFacts.invalidCountsFile = true) (a : LoadAcc) (c : Bytes)
    (hw : WellRec c) (hx : field c 28 32 ≠ 0xffffffff) :
    (loadRecord env a c).maxdatfileidx = max a.maxdatfileidx (field c 28 32) := by
  obtain ⟨w1, w2, w3⟩ := hw
  have f1 : hasFlag (c.getD 0 0).toNat BLOCK_INDEX = true := w1
  have f2 : hasFlag (c.getD 0 0).toNat BLOCK_LENGTH = true := w2
  unfold loadRecord
  simp only
  split
  · have e : (bumpInvalid a (c.getD 0 0).toNat c).maxdatfileidx = max a.maxdatfileidx (field c 28 32) := by
      unfold bumpInvalid
      simp only [f1, ↓reduceIte, hic, true_and]
      split
      · simp only; omega
      · omega
    split
    · simp only; exact e
    · exact e
  · simp only
    by_cases hb : field c 28 32 > a.maxdatfileidx
    · have : (0 < field c 32 36 ∧ field c 28 32 ≠ 0xffffffff ∧ field c 28 32 > a.maxdatfileidx) := ⟨w3, hx, hb⟩
      simp only [this, ne_eq, not_false_eq_true, and_self, decide_true, ↓reduceIte]
      omega
    · simp only [hb, and_false, decide_false, Bool.false_eq_true, ↓reduceIte]
      omega

/-- the loop invariant: the accumulator's file number is the maximum of the records read so far -/
structure TInv (full : Bytes) (pos : Nat) (a : LoadAcc) : Prop where
  pm : pos % 136 = 0
  ge : ∀ p, p % 136 = 0 → p + 136 ≤ pos → field (recAt full p) 28 32 ≤ a.maxdatfileidx
  top : a.maxdatfileidx = 0 ∨ ∃ p, p % 136 = 0 ∧ p + 136 ≤ pos ∧ field (recAt full p) 28 32 = a.maxdatfileidx

theorem load_tinv (env : Env) (hic : Gen.BlockDBFacts.invalidCountsFile = true) (s : State) (sp : Spec) (n : Nat)
    (h : TopInv s) (hD : Disk env s sp n) (hI : IdxInv s) (hn : n < 2^31) :
    TInv s.fs.idx s.fs.idx.length (loadLoop env (s.fs.idx.length / RECSIZE + 1) s.fs.idx {}) := by
  have h0 : TInv s.fs.idx 0 {} := ⟨rfl, fun p _ hp => by omega, .inl rfl⟩
  have hm := hI.len_mod
  have hstep : ∀ pos a, pos + 136 ≤ s.fs.idx.length → TInv s.fs.idx pos a →
      TInv s.fs.idx (pos + 136) (loadRecord env a (recAt s.fs.idx pos)) := by
    intro pos a hpos t
    have hb := hD.allidx pos t.pm hpos
    have e := loadRecord_mdi env hic a (recAt s.fs.idx pos) (h.well pos t.pm hpos) (by omega)
    refine ⟨by have := t.pm; omega, ?_, ?_⟩
    · intro p hp1 hp2
      rw [e]
      by_cases ep : p = pos
      · subst ep; omega
      · have := t.ge p hp1 (by have := t.pm; omega); omega
    · rw [e]
      by_cases hgt : field (recAt s.fs.idx pos) 28 32 > a.maxdatfileidx
      · right; exact ⟨pos, t.pm, by omega, by omega⟩
      · have e2 : max a.maxdatfileidx (field (recAt s.fs.idx pos) 28 32) = a.maxdatfileidx := by omega
        rw [e2]
        rcases t.top with t0 | ⟨p, a1, a2, a3⟩
        · exact .inl t0
        · exact .inr ⟨p, a1, by omega, a3⟩
  have := loadLoop_ind env s.fs.idx (TInv s.fs.idx) hstep
    (s.fs.idx.length / RECSIZE + 1) 0 {} (by simp only [recsize_eq]; omega) (Nat.zero_le _) (by omega) h0
  simpa using this

/-- close + reopen: the invariant is re-established, and the current file number does NOT go down -/
theorem reopen_top (env : Env) (hic : Gen.BlockDBFacts.invalidCountsFile = true) (hrb : Gen.BlockDBFacts.restoresBackup = true)
    (s : State) (sp : Spec) (n : Nat) (h : TopInv s) (hD : Disk env s sp n) (hI : IdxInv s) (hn : n < 2^31) (o : Opts) :
    TopInv (reopen env s.fs o).1 ∧ s.maxdatfileidx ≤ (reopen env s.fs o).1.maxdatfileidx := by
  have T := load_tinv env hic s sp n h hD hI hn
  obtain ⟨_, _, _, e4, _⟩ := reopen_state env s.fs o
  have e0 := reopen_fs_idx env s.fs o
  have hmono : s.maxdatfileidx ≤ (reopen env s.fs o).1.maxdatfileidx := by
    rw [e4]
    rcases h.top with h0 | ⟨p, a1, a2, a3⟩
    · omega
    · rw [← a3]; exact T.ge p a1 a2
  refine ⟨⟨by rw [e0]; exact h.well, by rw [e0, e4]; exact T.top, ?_⟩, hmono⟩
  intro i hi
  rcases reopen_lost env hrb s.fs o i hi with h1 | h1
  · have := h.below i h1; omega
  · have := h1.2.2; omega

/-! ### every operation, every history -/

theorem step_top (env : Env) (hic : Gen.BlockDBFacts.invalidCountsFile = true)
    (hrb : Gen.BlockDBFacts.restoresBackup = true) (s : State) (sp : Spec) (n : Nat) (h : TopInv s) (hC : Core env s sp n)
    (op : Op) (hwf : Op.wf env op) (hn : n + 1 < 2^31) :
    TopInv (step env s op).1 ∧ s.maxdatfileidx ≤ (step env s op).1.maxdatfileidx := by
  have hD := hC.disk
  have hI := hC.inv
  have hq : ∀ b ∈ s.queue, b.data.length ≤ 0xffffffff := fun b hb => (hD.qsize b hb).1
  have mono : ∀ s', Grows s s' → s.maxdatfileidx ≤ s'.maxdatfileidx := fun s' g => g.2.1
  unfold step
  cases op with
  | reopen o =>
    simp only
    split
    · exact ⟨h, Nat.le_refl _⟩
    · exact reopen_top env hic hrb s sp n h hD hI (by omega) o
  | add hash ht tx tr raw =>
    simp only
    by_cases ho : s.isOpen = true
    · simp only [ho, Bool.not_true, Bool.false_eq_true, ↓reduceIte]
      split
      · exact ⟨h, Nat.le_refl _⟩
      · exact ⟨blockAdd_top env s n hn h hI hD.cnt1 hq ho hash ht tx tr raw (by omega) hwf.2.1,
          mono _ (blockAdd_grows env s hash ht tx tr raw)⟩
    · simp only [ho, Bool.not_false, ↓reduceIte]; exact ⟨h, Nat.le_refl _⟩
  | get hash =>
    simp only
    split
    · exact ⟨h, Nat.le_refl _⟩
    · exact ⟨blockGet_top env s hash h, mono _ (blockGet_grows env s hash)⟩
  | length hash d =>
    simp only
    split
    · exact ⟨h, Nat.le_refl _⟩
    · exact ⟨blockLength_top env s hash d h, mono _ (blockLength_grows env s hash d)⟩
  | trusted hash =>
    simp only
    split
    · exact ⟨h, Nat.le_refl _⟩
    · exact ⟨blockTrusted_top s hash h hI, mono _ (blockTrusted_grows s hash)⟩
  | invalid hash =>
    simp only
    split
    · exact ⟨h, Nat.le_refl _⟩
    · exact ⟨blockInvalid_top s hash h hI, mono _ (blockInvalid_grows s hash)⟩
  | idle =>
    simp only
    by_cases ho : s.isOpen = true
    · simp only [ho, Bool.not_true, Bool.false_eq_true, ↓reduceIte]
      exact ⟨flush_top env s n (by omega) h hI hD.cnt1 hq ho, mono _ (flush_grows env s)⟩
    · simp only [ho, Bool.not_false, ↓reduceIte]; exact ⟨h, Nat.le_refl _⟩
  | close =>
    simp only
    by_cases ho : s.isOpen = true
    · simp only [ho, Bool.not_true, Bool.false_eq_true, ↓reduceIte]
      exact ⟨top_same _ _ (flush_top env s n (by omega) h hI hD.cnt1 hq ho) rfl rfl rfl, mono _ (flush_grows env s)⟩
    · simp only [ho, Bool.not_false, ↓reduceIte]; exact ⟨h, Nat.le_refl _⟩

theorem init_top : TopInv init :=
  ⟨fun p _ hp => by simp [init] at hp, .inl rfl, fun i hi => by simp [init] at hi⟩

theorem run_top (env : Env) (hadv : env.advInvalid = true) (hic : Gen.BlockDBFacts.invalidCountsFile = true)
    (hrb : Gen.BlockDBFacts.restoresBackup = true) : ∀ (ops : List Op) (s : State) (sp : Spec) (n : Nat),
    TopInv s → Core env s sp n → (∀ op ∈ ops, Op.wf env op) → n + ops.length < 2^31 →
    TopInv (run env s ops).1 ∧ s.maxdatfileidx ≤ (run env s ops).1.maxdatfileidx := by
  intro ops
  induction ops with
  | nil => intro s sp n h _ _ _; exact ⟨h, Nat.le_refl _⟩
  | cons op ops ih =>
    intro s sp n h hC hwf hn
    simp only [List.length_cons] at hn
    have w1 := hwf op (by simp)
    obtain ⟨t1, t2⟩ := step_top env hic hrb s sp n h hC op w1 (by omega)
    have hC1 := step_core env hadv s sp n hC op w1 (by omega)
    obtain ⟨u1, u2⟩ := ih _ _ (n + 1) t1 hC1 (fun op' hop' => hwf op' (by simp [hop'])) (by omega)
    rw [run_cons_fst]
    exact ⟨u1, by omega⟩

/-! ### a record that becomes written gets the CURRENT file number (never a lower one) -/

/-- from `s` to `s'`: the current file number does not decrease, and every written record of `s'` either was written in `s`
    with the same data-file number, or carries a number that is at least the current file number of `s` -/
def Fresh (s s' : State) : Prop :=
  s.maxdatfileidx ≤ s'.maxdatfileidx ∧
  ∀ k r', AL.get s'.index k = some r' → r'.ipos.isSome = true →
    (∃ r, AL.get s.index k = some r ∧ r.ipos.isSome = true ∧ r.datfileidx = r'.datfileidx) ∨ s.maxdatfileidx ≤ r'.datfileidx

theorem Fresh.refl (s : State) : Fresh s s := ⟨Nat.le_refl _, fun _ r' h1 h2 => .inl ⟨r', h1, h2, rfl⟩⟩

theorem Fresh.trans {a b c : State} (h1 : Fresh a b) (h2 : Fresh b c) : Fresh a c := by
  refine ⟨Nat.le_trans h1.1 h2.1, ?_⟩
  intro k r'' g1 g2
  rcases h2.2 k r'' g1 g2 with ⟨r', e1, e2, e3⟩ | e
  · rcases h1.2 k r' e1 e2 with ⟨r, d1, d2, d3⟩ | d
    · exact .inl ⟨r, d1, d2, by rw [d3, e3]⟩
    · exact .inr (by omega)
  · exact .inr (by have := h1.1; omega)

theorem fresh_same (s s' : State) (h1 : s'.index = s.index) (h2 : s'.maxdatfileidx = s.maxdatfileidx) : Fresh s s' :=
  ⟨by omega, fun k r' g1 g2 => .inl ⟨r', by rw [← h1]; exact g1, g2, rfl⟩⟩

theorem fresh_update (s s' : State) (k : Key) (r0 r1 : Rec) (hr : AL.get s.index k = some r0)
    (hidx : ∀ k', AL.get s'.index k' = if k = k' then some r1 else AL.get s.index k')
    (h2 : s'.maxdatfileidx = s.maxdatfileidx) (g1 : r1.ipos = r0.ipos) (g2 : r1.datfileidx = r0.datfileidx) : Fresh s s' := by
  refine ⟨by omega, ?_⟩
  intro k' r' e1 e2
  rw [hidx] at e1
  split at e1
  · rename_i e; subst e
    simp only [Option.some.injEq] at e1; subst e1
    exact .inl ⟨r0, hr, by rw [← g1]; exact e2, g2.symm⟩
  · exact .inl ⟨r', e1, e2, rfl⟩

theorem fresh_delete (s : State) (k : Key) (c : List (Key × CacheEnt)) : Fresh s { s with cache := c, index := AL.del s.index k } := by
  refine ⟨Nat.le_refl _, ?_⟩
  intro k' r' e1 e2
  simp only [AL.get_del] at e1
  split at e1
  · cases e1
  · exact .inl ⟨r', e1, e2, rfl⟩

theorem addToCache_fresh (s : State) (k : Key) (d : Bytes) : Fresh s (addToCache s k d) := by
  obtain ⟨g1, _, _, _, _, _, _, g8, _⟩ := addToCache_fields s k d
  exact fresh_same s _ g1 g8

theorem setBlockFlag_fresh (s : State) (k : Key) (r0 : Rec) (fl : Nat) (hr : AL.get s.index k = some r0) :
    Fresh s (setBlockFlag s k r0 fl) := by
  obtain ⟨i0, _, _, _, _, _, _, _, i8⟩ := setBlockFlag_fields s k r0 fl
  exact fresh_update s _ k r0 _ hr i0 i8 rfl rfl

theorem writeOne_fresh (env : Env) (s s' : State) (hw : writeOne env s = some s') : Fresh s s' := by
  unfold writeOne at hw
  split at hw
  · cases hw
  · rename_i b q hq
    simp only at hw
    split at hw
    · cases hw; exact fresh_same s _ rfl rfl
    · rename_i r0 hr0
      split at hw
      · cases hw; exact fresh_same s _ rfl rfl
      · simp only [Option.some.injEq] at hw
        subst hw
        generalize (if s.opts.compress = true then env.enc b.data else b.data) = cbts
        obtain ⟨_, f2, _, _, _⟩ :=
          maybeRoll_facts { s with queue := q, datToWrite := s.datToWrite - b.data.length } cbts.length
        have hroll := maybeRoll_pos { s with queue := q, datToWrite := s.datToWrite - b.data.length } cbts.length
        generalize maybeRoll { s with queue := q, datToWrite := s.datToWrite - b.data.length } cbts.length = s1 at *
        simp only at f2 hroll
        have hge : s.maxdatfileidx ≤ s1.maxdatfileidx := by rcases hroll with ⟨a, _⟩ | ⟨a, _⟩ <;> omega
        refine ⟨by unfold writeRecord; simp only; exact hge, ?_⟩
        intro k' r' e1 e2
        unfold writeRecord at e1
        simp only [f2, AL.get_set] at e1
        split at e1
        · simp only [Option.some.injEq] at e1; subst e1
          exact .inr hge
        · exact .inl ⟨r', e1, e2, rfl⟩

theorem writeAll_fresh (env : Env) : ∀ (f : Nat) (s : State), Fresh s (writeAll env f s) := by
  intro f
  induction f with
  | zero => intro s; exact Fresh.refl s
  | succ f ih =>
    intro s
    unfold writeAll
    split
    · exact Fresh.refl s
    · rename_i s' hw
      exact (writeOne_fresh env s s' hw).trans (ih s')

theorem flush_fresh (env : Env) (s : State) : Fresh s (flush env s) := writeAll_fresh env _ s

theorem blockTrusted_fresh (s : State) (hash : Bytes) : Fresh s (blockTrusted s hash) := by
  unfold blockTrusted
  simp only
  split
  · exact Fresh.refl s
  · rename_i r0 hr0
    split
    · exact Fresh.refl s
    · exact setBlockFlag_fresh s _ r0 _ hr0

theorem blockInvalid_fresh (s : State) (hash : Bytes) : Fresh s (blockInvalid s hash).1 := by
  unfold blockInvalid
  simp only
  split
  · exact Fresh.refl s
  · rename_i r0 hr0
    split
    · exact Fresh.refl s
    · split
      · exact fresh_delete s _ _
      · exact setBlockFlag_fresh s _ r0 _ hr0

theorem blockGet_fresh (env : Env) (s : State) (hash : Bytes) : Fresh s (blockGet env s hash).1 := by
  unfold blockGet
  simp only
  split
  · exact Fresh.refl s
  · rename_i r0 hr0
    split
    · exact fresh_same s _ rfl rfl
    · split
      · exact Fresh.refl s
      · split
        · exact Fresh.refl s
        · split
          · exact Fresh.refl s
          · split
            · exact Fresh.refl s
            · generalize decodeStored env _ _ = ble
              obtain ⟨bl, err⟩ := ble
              simp only
              have h1 : Fresh s { s with index := AL.set s.index (keyOf hash) (if r0.olen = 0 then ({ r0 with olen := bl.length } : Rec) else r0) } :=
                fresh_update s _ (keyOf hash) r0 (if r0.olen = 0 then ({ r0 with olen := bl.length } : Rec) else r0) hr0
                  (fun k' => by simp only [AL.get_set]) rfl (by split <;> rfl) (by split <;> rfl)
              split <;> exact h1.trans (addToCache_fresh _ _ _)

theorem blockLength_fresh (env : Env) (s : State) (hash : Bytes) (d : Bool) : Fresh s (blockLength env s hash d).1 := by
  unfold blockLength
  simp only
  split
  · exact Fresh.refl s
  · split
    · exact Fresh.refl s
    · split
      · exact Fresh.refl s
      · have := blockGet_fresh env s hash
        generalize blockGet env s hash = res at this ⊢
        obtain ⟨s', out⟩ := res
        cases out <;> exact this

theorem blockAdd_fresh (env : Env) (s : State) (hash : Bytes) (ht tx : Nat) (tr : Bool) (raw : Bytes) :
    Fresh s (blockAdd env s hash ht tx tr raw) := by
  unfold blockAdd
  simp only
  split
  · rename_i hnone
    have h0 : Fresh s { s with index := AL.set s.index (keyOf hash) { ipos := none, trusted := tr, olen := raw.length, seq := s.nextSeq } } := by
      refine ⟨Nat.le_refl _, ?_⟩
      intro k' r' e1 e2
      simp only [AL.get_set] at e1
      split at e1
      · simp only [Option.some.injEq] at e1; subst e1; cases e2
      · exact .inl ⟨r', e1, e2, rfl⟩
    have h1 := h0.trans (addToCache_fresh _ (keyOf hash) raw)
    generalize addToCache { s with index := AL.set s.index (keyOf hash) { ipos := none, trusted := tr, olen := raw.length, seq := s.nextSeq } } (keyOf hash) raw = s2 at *
    have h2 : Fresh s { s2 with datToWrite := s2.datToWrite + raw.length, nextSeq := s2.nextSeq + 1, queue := s2.queue ++ [{ data := raw, idx := keyOf hash, height := ht, txcount := tx % 2^32, seq := s2.nextSeq }] } :=
      h1.trans (fresh_same s2 _ rfl rfl)
    split
    · exact h2.trans (flush_fresh env _)
    · exact h2
  · rename_i r0 hr0
    split
    · split
      · exact fresh_update s _ (keyOf hash) r0 { r0 with trusted := true } hr0 (fun k' => by simp only [AL.get_set]) rfl rfl rfl
      · exact blockTrusted_fresh s hash
    · exact Fresh.refl s

/-- close + reopen: every record of the rebuilt index was written before, with the same file number -/
theorem reopen_fresh (env : Env) (hadv : env.advInvalid = true) (s : State) (sp : Spec) (n : Nat) (hD : Disk env s sp n)
    (hI : IdxInv s) (hn : n < 2^31) (o : Opts) (hmono : s.maxdatfileidx ≤ (reopen env s.fs o).1.maxdatfileidx) :
    Fresh s (reopen env s.fs o).1 := by
  have L := load_linv env hadv s sp n hD hI hn
  obtain ⟨e1, _⟩ := reopen_state env s.fs o
  refine ⟨hmono, ?_⟩
  intro k r' g1 _
  rw [e1] at g1
  obtain ⟨r0, p0, _, a2, a3, _, a5⟩ := L.l1 k r' g1
  obtain ⟨_, m2⟩ := hD.mem k r0 p0 a2 a3
  obtain ⟨_, _, q3, _⟩ := recOf_fields _ r0 p0 m2
  exact .inl ⟨r0, a2, by rw [a3]; rfl, by rw [a5, q3]⟩

theorem step_fresh (env : Env) (hadv : env.advInvalid = true) (hic : Gen.BlockDBFacts.invalidCountsFile = true)
    (hrb : Gen.BlockDBFacts.restoresBackup = true) (s : State) (sp : Spec) (n : Nat) (h : TopInv s) (hC : Core env s sp n)
    (op : Op) (hn : n < 2^31) : Fresh s (step env s op).1 := by
  unfold step
  cases op with
  | reopen o =>
    simp only
    split
    · exact Fresh.refl s
    · exact reopen_fresh env hadv s sp n hC.disk hC.inv hn o (reopen_top env hic hrb s sp n h hC.disk hC.inv hn o).2
  | add hash ht tx tr raw =>
    simp only
    split
    · exact Fresh.refl s
    · split
      · exact Fresh.refl s
      · exact blockAdd_fresh env s hash ht tx tr raw
  | get hash => simp only; split; exact Fresh.refl s; exact blockGet_fresh env s hash
  | length hash d => simp only; split; exact Fresh.refl s; exact blockLength_fresh env s hash d
  | trusted hash => simp only; split; exact Fresh.refl s; exact blockTrusted_fresh s hash
  | invalid hash => simp only; split; exact Fresh.refl s; exact blockInvalid_fresh s hash
  | idle => simp only; split; exact Fresh.refl s; exact flush_fresh env s
  | close =>
    simp only
    split
    · exact Fresh.refl s
    · exact (flush_fresh env s).trans (fresh_same _ _ rfl rfl)

end GocoinV.BlockDB
