/-
  Proofs.C16Inv — the index-file append invariant of the block store model, preserved by every operation:
  the index file is a whole number of 136-byte records, the append position of an open store is its end,
  every in-memory `ipos` points at a whole record inside the file, queued blocks have a full header.
-/
import GocoinV.Proofs.C16Load
namespace GocoinV.BlockDB

structure IdxInv (s : State) : Prop where
  len_mod : s.fs.idx.length % 136 = 0
  pos : s.isOpen = true → s.maxidxfilepos = s.fs.idx.length
  ipos : ∀ k r p, AL.get s.index k = some r → r.ipos = some p → p + 136 ≤ s.fs.idx.length ∧ p % 136 = 0
  queue : ∀ b ∈ s.queue, b.data.length ≥ 80

theorem removeDatFile_idx (o : Opts) (fs : FS) (i : Nat) : (removeDatFile o fs i).idx = fs.idx := by
  unfold removeDatFile
  split
  · rfl
  · split <;> rfl

theorem cleanupGo_idx (o : Opts) : ∀ (f i : Nat) (fs : FS), (cleanupGo o f i fs).idx = fs.idx := by
  intro f
  induction f with
  | zero => intro i fs; rfl
  | succ f ih =>
    intro i fs
    unfold cleanupGo
    simp only
    split
    · exact removeDatFile_idx o fs _
    · rw [ih]; exact removeDatFile_idx o fs _

theorem loadCleanup_idx (o : Opts) (m : Nat) (fs : FS) : (loadCleanup o m fs).idx = fs.idx := by
  unfold loadCleanup
  split
  · exact cleanupGo_idx o _ _ fs
  · rfl

theorem addToCache_inv (s : State) (k : Key) (d : Bytes) (h : IdxInv s) :
    IdxInv (addToCache s k d) ∧ (addToCache s k d).isOpen = s.isOpen ∧ (addToCache s k d).queue = s.queue
      ∧ (addToCache s k d).index = s.index ∧ (addToCache s k d).fs = s.fs
      ∧ (addToCache s k d).maxidxfilepos = s.maxidxfilepos := by
  unfold addToCache
  split
  · exact ⟨⟨h.len_mod, h.pos, h.ipos, h.queue⟩, by simp⟩
  · exact ⟨⟨h.len_mod, h.pos, h.ipos, h.queue⟩, by simp⟩

theorem rollOver_facts (s : State) :
    (rollOver s).fs.idx = s.fs.idx ∧ (rollOver s).index = s.index ∧ (rollOver s).queue = s.queue
      ∧ (rollOver s).isOpen = s.isOpen ∧ (rollOver s).maxidxfilepos = s.maxidxfilepos := by
  unfold rollOver
  refine ⟨?_, by simp⟩
  simp only
  split
  · rw [removeDatFile_idx]
  · rfl

theorem maybeRoll_facts (s : State) (n : Nat) :
    (maybeRoll s n).fs.idx = s.fs.idx ∧ (maybeRoll s n).index = s.index ∧ (maybeRoll s n).queue = s.queue
      ∧ (maybeRoll s n).isOpen = s.isOpen ∧ (maybeRoll s n).maxidxfilepos = s.maxidxfilepos := by
  unfold maybeRoll
  split
  · exact rollOver_facts s
  · exact ⟨rfl, rfl, rfl, rfl, rfl⟩

/-- the record write: one whole record appended at the end of the index file -/
theorem writeRecord_inv (s : State) (b2w : B2W) (r0 : Rec) (cbts : Bytes) (h : IdxInv s) (ho : s.isOpen = true)
    (hb : b2w.data.length ≥ 80) :
    IdxInv (writeRecord s b2w r0 cbts) ∧ (writeRecord s b2w r0 cbts).isOpen = true := by
  have hpos := h.pos ho
  have hrl := mkRecord_length (flagsOf s.opts.compress r0.trusted) s.maxdatfileidx b2w.data.length b2w.height
    s.maxdatfilepos cbts.length b2w.txcount b2w.data hb
  unfold writeRecord
  refine ⟨⟨?_, ?_, ?_, ?_⟩, ?_⟩
  · simp only [hpos, pwrite_at_end, List.length_append, hrl]
    have := h.len_mod; omega
  · intro _
    simp only [hpos, pwrite_at_end, List.length_append, hrl, recsize_eq]
  · intro k r p
    simp only [hpos, pwrite_at_end, List.length_append, hrl, AL.get_set]
    split
    · intro h1 h2
      simp only [Option.some.injEq] at h1
      subst h1
      simp only [Option.some.injEq] at h2
      have := h.len_mod; omega
    · intro h1 h2
      have := h.ipos k r p h1 h2
      omega
  · exact h.queue
  · exact ho

/-- `writeOne` appends exactly one whole record at the end of the index file (or writes nothing) -/
theorem writeOne_inv (env : Env) (s s' : State) (h : IdxInv s) (ho : s.isOpen = true)
    (hw : writeOne env s = some s') : IdxInv s' ∧ s'.isOpen = true := by
  unfold writeOne at hw
  split at hw
  · cases hw
  · rename_i b2w q hq
    have hb : b2w.data.length ≥ 80 := h.queue b2w (by rw [hq]; simp)
    have hqq : ∀ b ∈ q, b.data.length ≥ 80 := fun b hb => h.queue b (by rw [hq]; simp [hb])
    have h0 : IdxInv { s with queue := q, datToWrite := s.datToWrite - b2w.data.length } :=
      ⟨h.len_mod, h.pos, h.ipos, hqq⟩
    simp only at hw
    split at hw
    · cases hw; exact ⟨h0, ho⟩
    · rename_i r0 hr0
      split at hw
      · cases hw; exact ⟨h0, ho⟩
      · simp only [Option.some.injEq] at hw
        subst hw
        generalize hn : (if s.opts.compress = true then env.enc b2w.data else b2w.data) = cbts
        obtain ⟨f1, f2, f3, f4, f5⟩ :=
          maybeRoll_facts { s with queue := q, datToWrite := s.datToWrite - b2w.data.length } cbts.length
        have h2 : IdxInv (maybeRoll { s with queue := q, datToWrite := s.datToWrite - b2w.data.length } cbts.length) := by
          refine ⟨?_, ?_, ?_, ?_⟩
          · rw [f1]; exact h0.len_mod
          · intro _; rw [f1, f5]; exact h0.pos ho
          · intro k r p; rw [f1, f2]; exact h0.ipos k r p
          · rw [f3]; exact h0.queue
        exact writeRecord_inv _ b2w r0 cbts h2 (by rw [f4]; exact ho) hb

theorem writeAll_inv (env : Env) : ∀ (f : Nat) (s : State), IdxInv s → s.isOpen = true →
    IdxInv (writeAll env f s) ∧ (writeAll env f s).isOpen = true := by
  intro f
  induction f with
  | zero => intro s h ho; exact ⟨h, ho⟩
  | succ f ih =>
    intro s h ho
    unfold writeAll
    split
    · exact ⟨h, ho⟩
    · rename_i s' hw
      obtain ⟨a, b⟩ := writeOne_inv env s s' h ho hw
      exact ih s' a b

theorem flush_inv (env : Env) (s : State) (h : IdxInv s) (ho : s.isOpen = true) :
    IdxInv (flush env s) ∧ (flush env s).isOpen = true := writeAll_inv env _ s h ho

/-- a flag update rewrites one byte inside the file: its length and all positions are unchanged -/
theorem setBlockFlag_inv (s : State) (k : Key) (r0 : Rec) (fl : Nat) (h : IdxInv s)
    (hr : AL.get s.index k = some r0) :
    IdxInv (setBlockFlag s k r0 fl) ∧ (setBlockFlag s k r0 fl).isOpen = s.isOpen := by
  unfold setBlockFlag
  have hix : ∀ k' r p, AL.get (AL.set s.index k { r0 with trusted := r0.trusted || fl == BLOCK_TRUSTED }) k' = some r → r.ipos = some p →
      p + 136 ≤ s.fs.idx.length ∧ p % 136 = 0 := by
    intro k' r p
    simp only [AL.get_set]
    split
    · intro h1 h2
      simp only [Option.some.injEq] at h1
      subst h1
      exact h.ipos k r0 p hr h2
    · exact h.ipos k' r p
  split
  · exact ⟨⟨h.len_mod, h.pos, hix, h.queue⟩, rfl⟩
  · rename_i p hp
    have hp' := (h.ipos k r0 p hr hp).1
    have hl : (pwrite s.fs.idx p [UInt8.ofNat ((s.fs.idx.getD p 0).toNat ||| fl)]).length = s.fs.idx.length :=
      pwrite_length_inside _ _ _ (by omega)
    refine ⟨⟨?_, ?_, ?_, h.queue⟩, rfl⟩
    · simp only [hl]; exact h.len_mod
    · intro ho; simp only [hl]; exact h.pos ho
    · intro k' r p'; simp only [hl]; exact hix k' r p'

theorem blockTrusted_inv (s : State) (hash : Bytes) (h : IdxInv s) :
    IdxInv (blockTrusted s hash) ∧ (blockTrusted s hash).isOpen = s.isOpen := by
  unfold blockTrusted
  simp only
  split
  · exact ⟨h, rfl⟩
  · rename_i r0 hr
    split
    · exact ⟨h, rfl⟩
    · exact setBlockFlag_inv s _ r0 _ h hr

theorem blockAdd_inv (env : Env) (s : State) (hash : Bytes) (ht tx : Nat) (tr : Bool) (raw : Bytes)
    (h : IdxInv s) (ho : s.isOpen = true) (hraw : raw.length ≥ 80) :
    IdxInv (blockAdd env s hash ht tx tr raw) ∧ (blockAdd env s hash ht tx tr raw).isOpen = true := by
  unfold blockAdd
  simp only
  split
  · -- new block
    have h1 : IdxInv { s with index := AL.set s.index (keyOf hash) ({ ipos := none, trusted := tr, olen := raw.length, seq := s.nextSeq } : Rec) } := by
      refine ⟨h.len_mod, h.pos, ?_, h.queue⟩
      intro k r p
      simp only [AL.get_set]
      split
      · intro e1 e2
        simp only [Option.some.injEq] at e1
        subst e1
        simp at e2
      · exact h.ipos k r p
    obtain ⟨c1, c2, c3, c4, c5, c6⟩ := addToCache_inv _ (keyOf hash) raw h1
    generalize hs1 : addToCache { s with index := AL.set s.index (keyOf hash) ({ ipos := none, trusted := tr, olen := raw.length, seq := s.nextSeq } : Rec) } (keyOf hash) raw = s1 at *
    have h2 : IdxInv { s1 with datToWrite := s1.datToWrite + raw.length, nextSeq := s1.nextSeq + 1, queue := s1.queue ++ [({ data := raw, idx := keyOf hash, height := ht, txcount := tx % 2 ^ 32, seq := s1.nextSeq } : B2W)] } := by
      refine ⟨c1.len_mod, c1.pos, c1.ipos, ?_⟩
      intro b hb
      simp only [List.mem_append, List.mem_singleton] at hb
      rcases hb with hb | hb
      · exact c1.queue b hb
      · subst hb; exact hraw
    have ho2 : s1.isOpen = true := by rw [c2]; exact ho
    split
    · exact flush_inv env _ h2 ho2
    · exact ⟨h2, ho2⟩
  · rename_i r0 hr
    split
    · split
      · refine ⟨⟨h.len_mod, h.pos, ?_, h.queue⟩, ho⟩
        intro k r p
        simp only [AL.get_set]
        split
        · intro e1 e2
          simp only [Option.some.injEq] at e1
          subst e1
          exact h.ipos _ r0 p hr e2
        · exact h.ipos k r p
      · have := blockTrusted_inv s hash h
        exact ⟨this.1, by rw [this.2]; exact ho⟩
    · exact ⟨h, ho⟩

theorem blockInvalid_inv (s : State) (hash : Bytes) (h : IdxInv s) :
    IdxInv (blockInvalid s hash).1 ∧ (blockInvalid s hash).1.isOpen = s.isOpen := by
  unfold blockInvalid
  simp only
  split
  · exact ⟨h, rfl⟩
  · rename_i r0 hr
    split
    · exact ⟨h, rfl⟩
    · split
      · refine ⟨⟨h.len_mod, h.pos, ?_, h.queue⟩, rfl⟩
        intro k r p
        simp only [AL.get_del]
        split
        · intro e; cases e
        · exact h.ipos k r p
      · exact setBlockFlag_inv s _ r0 _ h hr

theorem blockGet_inv (env : Env) (s : State) (hash : Bytes) (h : IdxInv s) :
    IdxInv (blockGet env s hash).1 ∧ (blockGet env s hash).1.isOpen = s.isOpen := by
  unfold blockGet
  simp only
  split
  · exact ⟨h, rfl⟩
  · rename_i r0 hr
    split
    · exact ⟨⟨h.len_mod, h.pos, h.ipos, h.queue⟩, rfl⟩
    · split
      · exact ⟨h, rfl⟩
      · split
        · exact ⟨h, rfl⟩
        · split
          · exact ⟨h, rfl⟩
          · split
            · exact ⟨h, rfl⟩
            · -- disk read: the index entry is rewritten with the same ipos, then cached
              rename_i file _ _
              generalize decodeStored env r0 (List.take r0.blen (List.drop r0.fpos file)) = ble
              obtain ⟨bl, err⟩ := ble
              simp only
              have h1 : IdxInv { s with index := AL.set s.index (keyOf hash) (if r0.olen = 0 then ({ r0 with olen := bl.length } : Rec) else r0) } := by
                refine ⟨h.len_mod, h.pos, ?_, h.queue⟩
                intro k r p
                simp only [AL.get_set]
                split
                · intro e1 e2
                  simp only [Option.some.injEq] at e1
                  subst e1
                  refine h.ipos _ r0 p hr ?_
                  split at e2 <;> exact e2
                · exact h.ipos k r p
              obtain ⟨c1, c2, _, _, _, _⟩ := addToCache_inv _ (keyOf hash) bl h1
              split <;> exact ⟨c1, c2⟩

theorem blockLength_inv (env : Env) (s : State) (hash : Bytes) (d : Bool) (h : IdxInv s) :
    IdxInv (blockLength env s hash d).1 ∧ (blockLength env s hash d).1.isOpen = s.isOpen := by
  unfold blockLength
  simp only
  split
  · exact ⟨h, rfl⟩
  · split
    · exact ⟨h, rfl⟩
    · split
      · exact ⟨h, rfl⟩
      · have := blockGet_inv env s hash h
        generalize blockGet env s hash = res at this ⊢
        obtain ⟨s', out⟩ := res
        cases out <;> exact this

theorem reopen_fs_idx (env : Env) (fs : FS) (o : Opts) : (reopen env fs o).1.fs.idx = fs.idx := by
  unfold reopen
  simp only [loadCleanup_idx]
  unfold createCur
  split
  · rfl
  · split <;> rfl

/-- after NewBlockDBExt + LoadBlockIndex (fixed code) the append position is the end of the index file -/
theorem reopen_inv (env : Env) (hadv : env.advInvalid = true) (fs : FS) (o : Opts) (hm : fs.idx.length % 136 = 0) :
    IdxInv (reopen env fs o).1 ∧ (reopen env fs o).1.isOpen = true := by
  obtain ⟨e1, e2⟩ := loadLoop_inv env hadv (fs.idx.length / 136 + 1) fs.idx {} (by omega)
    (by intro k r p hh; simp [AL.get] at hh) (by rfl)
  have e1' : (loadLoop env (fs.idx.length / 136 + 1) fs.idx {}).maxidxfilepos = fs.idx.length := by
    rw [e1]; show 0 + 136 * (fs.idx.length / 136) = fs.idx.length; omega
  have hix : (reopen env fs o).1.index = (loadLoop env (fs.idx.length / 136 + 1) fs.idx {}).index := by
    unfold reopen; simp only [recsize_eq]
  have hmx : (reopen env fs o).1.maxidxfilepos = (loadLoop env (fs.idx.length / 136 + 1) fs.idx {}).maxidxfilepos := by
    unfold reopen; simp only [recsize_eq]
  have hq : (reopen env fs o).1.queue = [] := by unfold reopen; simp only
  have hop : (reopen env fs o).1.isOpen = true := by unfold reopen; simp only
  refine ⟨⟨?_, ?_, ?_, ?_⟩, hop⟩
  · rw [reopen_fs_idx]; exact hm
  · intro _; rw [reopen_fs_idx, hmx]; exact e1'
  · intro k r p h1 h2
    rw [reopen_fs_idx]
    rw [hix] at h1
    have := e2 k r p h1 h2
    rw [e1'] at this; exact this
  · intro b hb; rw [hq] at hb; simp at hb

theorem init_inv : IdxInv init := by
  refine ⟨by decide, (by intro h; cases h), ?_, ?_⟩
  · intro k r p h; simp [init, AL.get] at h
  · intro b hb; simp [init] at hb

theorem step_inv (env : Env) (hadv : env.advInvalid = true) (s : State) (op : Op) (h : IdxInv s) :
    IdxInv (step env s op).1 := by
  unfold step
  cases op with
  | reopen o =>
    simp only
    split
    · exact h
    · exact (reopen_inv env hadv s.fs o h.len_mod).1
  | add hash ht tx tr raw =>
    simp only
    by_cases ho : s.isOpen = true
    · simp only [ho, Bool.not_true, Bool.false_eq_true, ↓reduceIte]
      split
      · exact h
      · exact (blockAdd_inv env s hash ht tx tr raw h ho (by omega)).1
    · simp only [ho, Bool.not_false, ↓reduceIte]; exact h
  | get hash =>
    simp only
    split
    · exact h
    · exact (blockGet_inv env s hash h).1
  | length hash d =>
    simp only
    split
    · exact h
    · exact (blockLength_inv env s hash d h).1
  | trusted hash =>
    simp only
    split
    · exact h
    · exact (blockTrusted_inv s hash h).1
  | invalid hash =>
    simp only
    split
    · exact h
    · exact (blockInvalid_inv s hash h).1
  | idle =>
    simp only
    by_cases ho : s.isOpen = true
    · simp only [ho, Bool.not_true, Bool.false_eq_true, ↓reduceIte]
      exact (flush_inv env s h ho).1
    · simp only [ho, Bool.not_false, ↓reduceIte]; exact h
  | close =>
    simp only
    by_cases ho : s.isOpen = true
    · simp only [ho, Bool.not_true, Bool.false_eq_true, ↓reduceIte]
      have := (flush_inv env s h ho).1
      exact ⟨this.len_mod, (by intro hh; cases hh), this.ipos, this.queue⟩
    · simp only [ho, Bool.not_false, ↓reduceIte]; exact h

theorem run_inv (env : Env) (hadv : env.advInvalid = true) : ∀ (ops : List Op) (s : State), IdxInv s →
    IdxInv (run env s ops).1 := by
  intro ops
  induction ops with
  | nil => intro s h; exact h
  | cons op ops ih =>
    intro s h
    unfold run
    exact ih _ (step_inv env hadv s op h)

end GocoinV.BlockDB
