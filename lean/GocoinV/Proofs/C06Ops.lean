/-
  Proofs.C06Ops — histories of the three operations `header` / `commit` / `block` (`step`, Model/ChainTree): every
  operation keeps the whole invariant and never panics, hence the invariant — and the completeness of the tree w.r.t. the
  blocks whose DATA was admitted — holds after every history. Side conditions (`OpOK`): the operation's block is a block
  of `U` and not the root; a `block` operation (CheckBlock + AcceptBlock: header and data at once) is applied on top of a
  parent that has its data and not below an entry that is unreachable from the root.
-/
import GocoinV.Proofs.C06Header
import GocoinV.Proofs.C06CommitNode
namespace GocoinV.ChainTree
open GocoinV.UtxoOps

/-- side conditions on one operation in the state `c` -/
def OpOK (U : List Block) (c : Chain) (op : Op) : Prop :=
  op.blk ∈ U ∧ op.blk.id ≠ c.root ∧
  match op with
  | .block b => (∀ p, getNode c b.parent = some p → HasData c b.parent p) ∧ (step c (.block b)).2 ≠ Outcome.detached
  | _ => True

/-- a history all of whose operations satisfy the side conditions when they are applied -/
def ClientLike (U : List Block) : Chain → List Op → Prop
  | _, [] => True
  | c, op :: rest => OpOK U c op ∧ ClientLike U (step c op).1 rest

/-- does the operation hand over block data? (a header alone does not: it is not "admitted", whatever the answer) -/
def Op.hasData : Op → Bool
  | .header _ => false
  | _ => true

/-- one operation, with the GHOST list (no counterpart in the code) of the ids whose DATA was admitted so far -/
def stepG (s : Chain × List Nat) (op : Op) : Chain × List Nat :=
  ((step s.1 op).1, if op.hasData && (step s.1 op).2.admitted then op.blk.id :: s.2 else s.2)

theorem foldl_stepG_fst (ops : List Op) : ∀ (s : Chain × List Nat),
    (ops.foldl stepG s).1 = ops.foldl (fun c op => (step c op).1) s.1 := by
  induction ops with
  | nil => intro s; rfl
  | cons op rest ih => intro s; simp only [List.foldl_cons]; rw [ih]; rfl

theorem step_block_cases (c : Chain) (b : Block) :
    (step c (.block b) = (c, Outcome.dup) ∧ (inLimbo c b.id).isSome = true) ∨
    step c (.block b) = (c, Outcome.detached) ∨
    step c (.block b) = deliver c b := by
  show ((if (inLimbo c b.id).isSome then (c, Outcome.dup)
    else if (getNode c b.id).isNone && (getNode c b.parent).isNone && (inLimbo c b.parent).isSome then (c, Outcome.detached)
    else deliver c b) = _ ∧ _) ∨ (if (inLimbo c b.id).isSome then (c, Outcome.dup)
    else if (getNode c b.id).isNone && (getNode c b.parent).isNone && (inLimbo c b.parent).isSome then (c, Outcome.detached)
    else deliver c b) = _ ∨ (if (inLimbo c b.id).isSome then (c, Outcome.dup)
    else if (getNode c b.id).isNone && (getNode c b.parent).isNone && (inLimbo c b.parent).isSome then (c, Outcome.detached)
    else deliver c b) = _
  by_cases hl : (inLimbo c b.id).isSome = true
  · left; simp only [hl, if_true]; exact ⟨trivial, trivial⟩
  · by_cases hdt : ((getNode c b.id).isNone && (getNode c b.parent).isNone && (inLimbo c b.parent).isSome) = true
    · right; left; simp only [hl, Bool.false_eq_true, if_false, hdt, if_true]
    · right; right; simp only [hl, Bool.false_eq_true, if_false, hdt]

/-- **one operation keeps the whole invariant and does not panic**; nothing but excused nodes is lost; a block whose data
    was admitted is a node afterwards or excused; a header alone moves nothing; the tip moves only to the operation's
    block or in the fall-back of a failed reorganisation -/
theorem step_inv {U : List Block} {c : Chain} (hi : Inv U c) (hU : BlockTree c.root U) (op : Op) (hok : OpOK U c op) :
    Inv U (step c op).1 ∧ (step c op).1.root = c.root ∧ (∀ s, (step c op).2 ≠ Outcome.panic s) ∧
    ((step c op).1.tip = c.tip ∨ (step c op).1.tip = op.blk.id ∨ (step c op).2 = Outcome.moveFailed) ∧
    Lost U c.root c (step c op).1 ∧
    (op.hasData = true → (step c op).2.admitted = true → getNode (step c op).1 op.blk.id = none → Excused U c.root op.blk.id) ∧
    (op.hasData = false → (step c op).1.tip = c.tip ∧ (step c op).1.utxo = c.utxo ∧ (step c op).1.store = c.store ∧
      (step c op).1.undoFiles = c.undoFiles ∧ (step c op).1.lastHeight = c.lastHeight) ∧
    (∀ x n n', getNode c x = some n → getNode (step c op).1 x = some n' → n.txCount ≠ 0 → n'.txCount ≠ 0) ∧
    (op.hasData = true → (step c op).2.admitted = true →
      ∀ n', getNode (step c op).1 op.blk.id = some n' → n'.txCount ≠ 0) := by
  obtain ⟨hbU, hbr, hextra⟩ := hok
  have hlen : op.blk.txs.length ≠ 0 := fun h0 => hU.txs _ hbU (List.eq_nil_of_length_eq_zero h0)
  have keep : ∀ {c' : Chain}, NodesFrom c op.blk c' →
      ∀ x n n', getNode c x = some n → getNode c' x = some n' → n.txCount ≠ 0 → n'.txCount ≠ 0 := by
    intro c' hf x n n' hn hn' hd
    rcases hf x n' hn' with ⟨_, e2⟩ | ⟨m, e1, e2⟩
    · rw [e2]; exact hlen
    · rw [hn] at e1; cases e1; rw [e2]; exact hd
  cases op with
  | header b =>
    obtain ⟨h1, h2, h3, h4, h5, h6, h7, h8, h9, _⟩ := header_inv hi hU b hbU
    refine ⟨h1, h2, h3, Or.inl h4, ?_, (fun h => by cases h), (fun _ => ⟨h4, h5, h6, h7, h8⟩), ?_, (fun h => by cases h)⟩
    rotate_left
    · intro x n n' hn hn' hd
      obtain ⟨m, g1, g2⟩ := h9 x n hn
      have hn'' : getNode (header c b).1 x = some n' := hn'
      rw [g1] at hn''; cases hn''; rw [g2]; exact hd
    intro x hxs hnone
    cases hg : getNode c x with
    | none => rw [hg] at hxs; cases hxs
    | some n =>
      obtain ⟨n', g1, _⟩ := h9 x n hg
      have hnone' : getNode (header c b).1 x = none := hnone
      rw [g1] at hnone'; cases hnone'
  | commit b =>
    obtain ⟨h1, h2, h3, h4, ⟨h5, h6⟩, h7, h8⟩ := commitNode_inv hi hU b hbU hbr
    exact ⟨h1, h2, h3, h4, h5, (fun _ ha hn => h6 ha hn), (fun h => by cases h), keep h7,
      fun _ ha n' hn' => by rw [h8 ha n' hn']; exact hlen⟩
  | block b =>
    obtain ⟨hpd, hnd⟩ := hextra
    have same : Lost U c.root c c := Lost.of_getNode (fun _ => rfl)
    rcases step_block_cases c b with ⟨he, _⟩ | he | he
    · rw [he]
      exact ⟨hi, rfl, (fun s hs => by cases hs), Or.inl rfl, same, (fun _ ha => by cases ha), (fun h => by cases h),
        (fun x n n' hn hn' hd => by rw [hn] at hn'; cases hn'; exact hd), (fun _ ha => by cases ha)⟩
    · rw [he] at hnd; exact absurd rfl hnd
    · rw [he]
      obtain ⟨h1, h2, h3, h4, ⟨h5, h6⟩, h7, h8⟩ := deliver_inv hi hU b hbU hpd
      refine ⟨h1, h2, h3, h4, h5, ?_, (fun h => by cases h), keep h7,
        fun _ ha n' hn' => by rw [h8 ha n' hn']; exact hlen⟩
      intro _ ha hn
      rcases h6 hn with h | h | h
      · rw [h] at ha; cases ha
      · rw [h] at ha; cases ha
      · exact h

/-- one operation keeps the completeness of the tree w.r.t. the ghost list of the blocks whose data was admitted -/
theorem stepG_complete {U : List Block} {c : Chain} (hi : Inv U c) (hU : BlockTree c.root U) (op : Op) (hok : OpOK U c op)
    (E : List Nat) (hc : Complete U c.root E c) :
    Complete U c.root (stepG (c, E) op).2 (stepG (c, E) op).1 := by
  obtain ⟨_, _, _, _, hl, hn, _, _, _⟩ := step_inv hi hU op hok
  have old : ∀ x ∈ E, (getNode (step c op).1 x).isSome = true ∨ Excused U c.root x := by
    intro x hx
    rcases hc x hx with h | h
    · cases hg : getNode (step c op).1 x with
      | some n => exact Or.inl rfl
      | none => exact Or.inr (hl x h hg)
    · exact Or.inr h
  intro x hx
  show (getNode (step c op).1 x).isSome = true ∨ _
  unfold stepG at hx
  simp only at hx
  cases ha : (op.hasData && (step c op).2.admitted) with
  | false => rw [ha] at hx; exact old x hx
  | true =>
    rw [ha] at hx
    simp only [if_true] at hx
    have ha1 : op.hasData = true ∧ (step c op).2.admitted = true := by simpa using ha
    rcases List.mem_cons.mp hx with rfl | h2
    · cases hg : getNode (step c op).1 op.blk.id with
      | some n => exact Or.inl rfl
      | none => exact Or.inr (hn ha1.1 ha1.2 hg)
    · exact old x h2

/-- every block whose data was admitted and that is not excused is a node of the tree AND HAS ITS DATA (a block that was
    removed as invalid and whose header was announced again is a node without data — it is excused) -/
def AdmittedHaveData (U : List Block) (root : Nat) (E : List Nat) (c : Chain) : Prop :=
  ∀ x ∈ E, Excused U root x ∨ ∃ n, getNode c x = some n ∧ n.txCount ≠ 0

theorem stepG_data {U : List Block} {c : Chain} (hi : Inv U c) (hU : BlockTree c.root U) (op : Op) (hok : OpOK U c op)
    (E : List Nat) (hd : AdmittedHaveData U c.root E c) :
    AdmittedHaveData U c.root (stepG (c, E) op).2 (stepG (c, E) op).1 := by
  obtain ⟨_, _, _, _, hl, hn, _, hkeep, hnew⟩ := step_inv hi hU op hok
  have old : ∀ x ∈ E, Excused U c.root x ∨ ∃ n, getNode (step c op).1 x = some n ∧ n.txCount ≠ 0 := by
    intro x hx
    rcases hd x hx with h | ⟨n, h1, h2⟩
    · exact Or.inl h
    · cases hg : getNode (step c op).1 x with
      | some n' => exact Or.inr ⟨n', rfl, hkeep x n n' h1 hg h2⟩
      | none => exact Or.inl (hl x (by rw [h1]; rfl) hg)
  intro x hx
  show Excused U c.root x ∨ ∃ n, getNode (step c op).1 x = some n ∧ n.txCount ≠ 0
  unfold stepG at hx
  simp only at hx
  cases ha : (op.hasData && (step c op).2.admitted) with
  | false => rw [ha] at hx; exact old x hx
  | true =>
    rw [ha] at hx
    simp only [if_true] at hx
    have ha1 : op.hasData = true ∧ (step c op).2.admitted = true := by simpa using ha
    rcases List.mem_cons.mp hx with rfl | h2
    · cases hg : getNode (step c op).1 op.blk.id with
      | some n' => exact Or.inr ⟨n', rfl, hnew ha1.1 ha1.2 n' hg⟩
      | none => exact Or.inl (hn ha1.1 ha1.2 hg)
    · exact old x h2

/-- **after every history of operations: the invariant, and completeness w.r.t. the blocks whose data was admitted** -/
theorem stepG_all {U : List Block} (ops : List Op) : ∀ (s : Chain × List Nat), Inv U s.1 → BlockTree s.1.root U →
    ClientLike U s.1 ops → Complete U s.1.root s.2 s.1 → AdmittedHaveData U s.1.root s.2 s.1 →
    Inv U (ops.foldl stepG s).1 ∧ (ops.foldl stepG s).1.root = s.1.root ∧
      Complete U s.1.root (ops.foldl stepG s).2 (ops.foldl stepG s).1 ∧
      AdmittedHaveData U s.1.root (ops.foldl stepG s).2 (ops.foldl stepG s).1 := by
  induction ops with
  | nil => intro s hi _ _ hc hd; exact ⟨hi, rfl, hc, hd⟩
  | cons op rest ih =>
    intro s hi hU hcl hc hd
    obtain ⟨c, E⟩ := s
    obtain ⟨hok, hcl2⟩ := hcl
    obtain ⟨h1, h2, _⟩ := step_inv hi hU op hok
    have hc1 := stepG_complete hi hU op hok E hc
    have hd1 := stepG_data hi hU op hok E hd
    have hr : (stepG (c, E) op).1.root = c.root := h2
    obtain ⟨h3, h4, h5, h6⟩ := ih (stepG (c, E) op) h1 (by rw [hr]; exact hU) hcl2 (by rw [hr]; exact hc1)
      (by rw [hr]; exact hd1)
    simp only [List.foldl_cons]
    exact ⟨h3, h4.trans hr, by rw [hr] at h5; exact h5, by rw [hr] at h6; exact h6⟩

end GocoinV.ChainTree
