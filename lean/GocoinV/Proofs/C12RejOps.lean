/-
  Proofs.C12RejOps — the reject-list invariant through the pool primitives: rejectTx, Delete (delOne), the
  replacement loop, processTx, txAccepted, the entry points SubmitNet / SubmitLocal.  Core Lean only.
  (helper lemmas for Props/C12, OPEN (d))
-/
import GocoinV.Proofs.C12RejCore
import GocoinV.Proofs.C12Run
namespace GocoinV.Mempool

/-- nothing is both in TransactionsToSend and in TransactionsRejected -/
def Disj (s : State) : Prop := ∀ b x, s.pool.get? b = some x → s.rej.get? b = none

/-- the carried invariant: ring of ≥ 2 slots, consistent indexes, pool and rejected list disjoint -/
structure RJ (K : Keys) (s : State) : Prop where
  cap : 2 ≤ s.cfg.ringCap
  rc : RCs K none s
  disj : Disj s

/-! ### frames -/

/-- the reject side is untouched -/
structure RejSame (s s' : State) : Prop where
  cfg : s'.cfg = s.cfg
  rej : s'.rej = s.rej
  ring : s'.ring = s.ring
  waiting : s'.waiting = s.waiting
  rejSpent : s'.rejSpent = s.rejSpent

/-- no new pool key -/
def PoolSub (s s' : State) : Prop := ∀ b x, s'.pool.get? b = some x → ∃ x0, s.pool.get? b = some x0

structure Shrink (s s' : State) : Prop where
  same : RejSame s s'
  sub : PoolSub s s'

theorem RejSame.refl (s : State) : RejSame s s := ⟨rfl, rfl, rfl, rfl, rfl⟩

theorem RejSame.trans {a b c : State} (h1 : RejSame a b) (h2 : RejSame b c) : RejSame a c :=
  ⟨h2.cfg.trans h1.cfg, h2.rej.trans h1.rej, h2.ring.trans h1.ring, h2.waiting.trans h1.waiting,
   h2.rejSpent.trans h1.rejSpent⟩

theorem PoolSub.refl (s : State) : PoolSub s s := fun _ x h => ⟨x, h⟩

theorem PoolSub.trans {a b c : State} (h1 : PoolSub a b) (h2 : PoolSub b c) : PoolSub a c := by
  intro k x hx
  obtain ⟨x1, hx1⟩ := h2 k x hx
  exact h1 k x1 hx1

theorem PoolSub.of_eq {s s' : State} (h : s'.pool = s.pool) : PoolSub s s' := by
  intro k x hx; rw [h] at hx; exact ⟨x, hx⟩

theorem PoolSub.of_back {s s' : State} (h : TxBack s s') : PoolSub s s' := by
  intro k x hx
  obtain ⟨x0, h0, _⟩ := h k x hx
  exact ⟨x0, h0⟩

theorem Shrink.refl (s : State) : Shrink s s := ⟨RejSame.refl s, PoolSub.refl s⟩

theorem Shrink.trans {a b c : State} (h1 : Shrink a b) (h2 : Shrink b c) : Shrink a c :=
  ⟨h1.same.trans h2.same, h1.sub.trans h2.sub⟩

theorem RCs.of_same {K : Keys} {e : Option Nat} {s s' : State} (h : RCs K e s) (e1 : RejSame s s') : RCs K e s' := by
  unfold RCs at h ⊢
  exact h.congr e1.rej (by rw [e1.ring]) e1.waiting e1.rejSpent

theorem RJ.of_shrink {K : Keys} {s s' : State} (h : RJ K s) (e : Shrink s s') : RJ K s' := by
  refine ⟨by rw [e.same.cfg]; exact h.cap, h.rc.of_same e.same, ?_⟩
  intro b x hx
  rw [e.same.rej]
  obtain ⟨x0, h0⟩ := e.sub b x hx
  exact h.disj b x0 h0

theorem foldl_shrink {α : Type} (f : State → α → State) (hf : ∀ s a, Shrink s (f s a)) :
    ∀ (l : List α) (s : State), Shrink s (l.foldl f s) := by
  intro l
  induction l with
  | nil => intro s; exact Shrink.refl s
  | cons a r ih => intro s; exact (hf s a).trans (ih _)

theorem RejSame.of_sortOnly {s s' : State} (h : SortOnly s s') : RejSame s s' :=
  ⟨h.cfg, h.rej, h.ring, h.waiting, h.rejSpent⟩

theorem delFromSort_same (s : State) (b : Nat) : RejSame s (delFromSort s b) ∧ (delFromSort s b).pool = s.pool := by
  unfold delFromSort
  split
  · exact ⟨RejSame.refl s, rfl⟩
  · split <;> exact ⟨⟨rfl, rfl, rfl, rfl, rfl⟩, rfl⟩

theorem addT2S_same (K : Keys) (s : State) (t : T2S) : RejSame s (addT2S K s t) := by
  unfold addT2S
  simp only
  generalize hs1 : ({ s with spent := t.tx.ins.foldl (fun (m : AList Nat Nat) i => m.set (K.uidx i.prev i.vout) (K.bidx t.tx.id)) s.spent,
                             pool := s.pool.set (K.bidx t.tx.id) t,
                             weightTotal := s.weightTotal + t.tx.weight } : State) = s1
  have c1 := addToSort_sortOnly K s1 (K.bidx t.tx.id) t
  have e1 : RejSame s s1 := by rw [← hs1]; exact ⟨rfl, rfl, rfl, rfl, rfl⟩
  exact e1.trans (RejSame.of_sortOnly c1)

theorem addT2S_RJ {K : Keys} {s : State} (h : RJ K s) (t : T2S) (hf : s.rej.get? (K.bidx t.tx.id) = none) :
    RJ K (addT2S K s t) := by
  have sm := addT2S_same K s t
  refine ⟨by rw [sm.cfg]; exact h.cap, h.rc.of_same sm, ?_⟩
  intro b x hx
  rw [sm.rej]
  rw [(addT2S_pool_spent K s t).1] at hx
  by_cases hb : b = K.bidx t.tx.id
  · rw [hb]; exact hf
  · rw [AList.get?_set_other _ _ _ _ hb] at hx
    exact h.disj b x hx

/-! ### rejectTx / Delete of a rejected record -/

theorem rejAdd_RJ {K : Keys} {s : State} (h : RJ K s) (r : Rej) (hf : s.rej.get? (K.bidx r.id) = none)
    (hp : s.pool.get? (K.bidx r.id) = none) (hs : RejShape r) :
    RJ K (rejAdd K s r) ∧
    (∀ x r', (rejAdd K s r).rej.get? x = some r' → x = K.bidx r.id ∨ s.rej.get? x = some r') := by
  obtain ⟨a1, _, a3, a4⟩ := rejAdd_RCs h.rc h.cap r hf hs
  have hpool := (rejAdd_core K s r).1
  refine ⟨⟨by rw [a3]; exact h.cap, a1, ?_⟩, ?_⟩
  · intro b x hx
    rw [hpool] at hx
    cases hg : (rejAdd K s r).rej.get? b with
    | none => rfl
    | some r' =>
      rcases a4 b r' hg with ⟨e, _⟩ | h2
      · rw [e, hp] at hx; cases hx
      · rw [h.disj b x hx] at h2; cases h2
  · intro x r' hx
    rcases a4 x r' hx with ⟨e, _⟩ | h2
    · exact Or.inl e
    · exact Or.inr h2

theorem rejectTx_shape (t : Tx) (why : Nat) (m : Option TxId) (hm : m.isSome = true ↔ why = R_NO_TXOU) :
    RejShape { id := t.id, reason := why, tx := if why ≥ 200 then some t else none,
               waiting4 := if why ≥ 200 then m else none } := by
  by_cases hw : why ≥ 200
  · refine ⟨?_, ?_, ?_, ?_⟩
    · intro h; simp [hw] at h
    · intro t' h; simp only [hw, if_true, Option.some.injEq] at h; rw [← h]
    · simp [hw]
    · simp only [hw, if_true]; exact hm
  · refine ⟨?_, ?_, ?_, ?_⟩
    · intro _; simp [hw]
    · intro t' h; simp [hw] at h
    · simp [hw]
    · simp only [hw, if_false]
      constructor
      · intro h; cases h
      · intro h; exfalso; apply hw; rw [h]; decide

theorem rejectTx_RJ {K : Keys} {s : State} (h : RJ K s) (t : Tx) (why : Nat) (m : Option TxId)
    (hf : s.rej.get? (K.bidx t.id) = none) (hp : s.pool.get? (K.bidx t.id) = none)
    (hm : m.isSome = true ↔ why = R_NO_TXOU) :
    RJ K (rejectTx K s t why m) ∧
    (∀ x r', (rejectTx K s t why m).rej.get? x = some r' → x = K.bidx t.id ∨ s.rej.get? x = some r') :=
  rejAdd_RJ h _ hf hp (rejectTx_shape t why m hm)

theorem rejDelete_RJ {K : Keys} {s : State} (h : RJ K s) (r : Rej) (hr : s.rej.get? (K.bidx r.id) = some r) :
    RJ K (rejDelete K s r) := by
  refine ⟨by rw [rejDelete_cfg]; exact h.cap, rejDelete_RCs h.rc r hr (by simp), ?_⟩
  intro b x hx
  rw [(rejDelete_core K s r).1] at hx
  rw [rejDelete_rej, AList.get?_del]
  split
  · rfl
  · exact h.disj b x hx

theorem rejDeleteByIdx_RJ {K : Keys} {s : State} (h : RJ K s) (b : Nat) :
    RJ K (rejDeleteByIdx K s b) ∧ (rejDeleteByIdx K s b).rej.get? b = none ∧
    (∀ x r, (rejDeleteByIdx K s b).rej.get? x = some r → s.rej.get? x = some r) := by
  unfold rejDeleteByIdx
  split
  · rename_i r hr
    have hk := h.rc.key b r hr
    refine ⟨rejDelete_RJ h r (by rw [hk]; exact hr), ?_, ?_⟩
    · rw [rejDelete_rej, hk, AList.get?_del_self]
    · intro x r' hx
      rw [rejDelete_rej, AList.get?_del] at hx
      split at hx
      · cases hx
      · exact hx
  · rename_i hr
    exact ⟨h, hr, fun _ _ h => h⟩

/-! ### OneTxToSend.Delete -/

/-- the part of Delete before the optional rejectTx -/
def delPre (K : Keys) (s : State) (t : T2S) : State :=
  let b := K.bidx t.tx.id
  let sp := t.tx.ins.foldl (fun (m : AList Nat Nat) i => m.del (K.uidx i.prev i.vout)) s.spent
  let s := { s with spent := sp, pool := s.pool.del b }
  let s := delFromSort s b
  { s with weightTotal := s.weightTotal - t.tx.weight }

theorem delOne_eq (K : Keys) (s : State) (t : T2S) (reason : Nat) :
    delOne K s t reason = if reason ≠ 0 then rejectTx K (delPre K s t) t.tx reason none else delPre K s t := rfl

theorem delPre_spec (K : Keys) (s : State) (t : T2S) :
    RejSame s (delPre K s t) ∧ (delPre K s t).pool = s.pool.del (K.bidx t.tx.id) := by
  unfold delPre
  dsimp only
  generalize hs1 : ({ s with spent := t.tx.ins.foldl (fun (m : AList Nat Nat) i => m.del (K.uidx i.prev i.vout)) s.spent,
                             pool := s.pool.del (K.bidx t.tx.id) } : State) = s1
  obtain ⟨c1, c2⟩ := delFromSort_same s1 (K.bidx t.tx.id)
  have e1 : RejSame s s1 := by rw [← hs1]; exact ⟨rfl, rfl, rfl, rfl, rfl⟩
  have e2 : s1.pool = s.pool.del (K.bidx t.tx.id) := by rw [← hs1]
  refine ⟨?_, ?_⟩
  · have := e1.trans c1
    exact ⟨this.cfg, this.rej, this.ring, this.waiting, this.rejSpent⟩
  · show (delFromSort s1 (K.bidx t.tx.id)).pool = _
    rw [c2, e2]

theorem delPre_shrink (K : Keys) (s : State) (t : T2S) : Shrink s (delPre K s t) := by
  obtain ⟨c1, c2⟩ := delPre_spec K s t
  refine ⟨c1, ?_⟩
  intro b x hx
  rw [c2, AList.get?_del] at hx
  split at hx
  · cases hx
  · exact ⟨x, hx⟩

theorem delOne0_shrink (K : Keys) (s : State) (t : T2S) : Shrink s (delOne K s t 0) := by
  rw [delOne_eq]
  simp only [ne_eq, not_true_eq_false, if_false]
  exact delPre_shrink K s t

/-- Delete of a pooled record with any reason -/
theorem delOne_RJ {K : Keys} {s : State} (h : RJ K s) (t : T2S) (reason : Nat) (hne : reason ≠ R_NO_TXOU)
    (hin : s.pool.get? (K.bidx t.tx.id) = some t) :
    RJ K (delOne K s t reason) ∧
    (∀ x r', (delOne K s t reason).rej.get? x = some r' → x = K.bidx t.tx.id ∨ s.rej.get? x = some r') := by
  rw [delOne_eq]
  obtain ⟨c1, c2⟩ := delPre_spec K s t
  have h1 := h.of_shrink (delPre_shrink K s t)
  split
  · have hf : (delPre K s t).rej.get? (K.bidx t.tx.id) = none := by rw [c1.rej]; exact h.disj _ t hin
    have hp : (delPre K s t).pool.get? (K.bidx t.tx.id) = none := by rw [c2, AList.get?_del_self]
    obtain ⟨a1, a2⟩ := rejectTx_RJ h1 t.tx reason none hf hp
      ⟨fun h => (by cases h), fun h => absurd h hne⟩
    refine ⟨a1, ?_⟩
    intro x r' hx
    rcases a2 x r' hx with e | e
    · exact Or.inl e
    · rw [c1.rej] at e; exact Or.inr e
  · refine ⟨h1, ?_⟩
    intro x r' hx
    rw [c1.rej] at hx; exact Or.inr hx

/-- the replacement loop: every removed record goes to the rejected list under its own (pooled) key -/
theorem delKeys_RJ {K : Keys} {W : Tx → Prop} (reason : Nat) (hne : reason ≠ R_NO_TXOU) :
    ∀ (l : List Nat) (s : State), InvR K W s → RJ K s →
    RJ K (delKeys K reason s l) ∧ PoolSub s (delKeys K reason s l) ∧
    (∀ x r', (delKeys K reason s l).rej.get? x = some r' → s.rej.get? x = some r' ∨ ∃ y, s.pool.get? x = some y) := by
  intro l
  induction l with
  | nil => intro s _ h; exact ⟨h, PoolSub.refl s, fun _ _ h => Or.inl h⟩
  | cons b r ih =>
    intro s hI h
    rw [delKeys_cons]
    cases hb : s.pool.get? b with
    | none => exact ih s hI h
    | some t =>
      dsimp only
      have hk := hI.str.key b t hb
      have hin : s.pool.get? (K.bidx t.tx.id) = some t := by rw [hk]; exact hb
      have hI1 := delOne_InvR K W s t reason hI hin
      obtain ⟨a1, a2⟩ := delOne_RJ h t reason hne hin
      obtain ⟨i1, i2, i3⟩ := ih _ hI1 a1
      have ps : PoolSub s (delOne K s t reason) := by
        intro k x hx
        rw [(delOne_pool_spent K s t reason).1, AList.get?_del] at hx
        split at hx
        · cases hx
        · exact ⟨x, hx⟩
      refine ⟨i1, ps.trans i2, ?_⟩
      intro x r' hx
      rcases i3 x r' hx with e | ⟨y, hy⟩
      · rcases a2 x r' e with e2 | e2
        · exact Or.inr ⟨t, by rw [e2]; exact hin⟩
        · exact Or.inl e2
      · exact Or.inr (ps x y hy)

/-! ### processTx -/

theorem processTx_pool (K : Keys) (mf : Nat) (s : State) (t : Tx) (fl : Flags) :
    ((processTx K mf s t fl).1 ≠ 0 → (processTx K mf s t fl).2.pool = s.pool) ∧
    (∀ x y, (processTx K mf s t fl).2.pool.get? x = some y → x = K.bidx t.id ∨ ∃ y0, s.pool.get? x = some y0) := by
  have fr : ∀ (c why : Nat) m, ((c, rejectTx K s t why m).1 ≠ 0 → (c, rejectTx K s t why m).2.pool = s.pool) ∧
      (∀ x y, (c, rejectTx K s t why m).2.pool.get? x = some y → x = K.bidx t.id ∨ ∃ y0, s.pool.get? x = some y0) := by
    intro c why m
    have := (rejectTx_core K s t why m).1
    exact ⟨fun _ => this, fun x y hx => Or.inr ⟨y, by rw [← this]; exact hx⟩⟩
  have same : ∀ (c : Nat) (s' : State), s'.pool = s.pool → ((c, s').1 ≠ 0 → (c, s').2.pool = s.pool) ∧
      (∀ x y, (c, s').2.pool.get? x = some y → x = K.bidx t.id ∨ ∃ y0, s.pool.get? x = some y0) := by
    intro c s' this
    exact ⟨fun _ => this, fun x y hx => Or.inr ⟨y, by rw [← this]; exact hx⟩⟩
  unfold processTx
  split
  · exact fr _ _ _
  · split
    · exact fr _ _ _
    · split
      · dsimp only
        split
        · exact fr _ _ _
        · split
          · exact same _ _ rfl
          · exact same _ _ rfl
      · rename_i a ha
        dsimp only
        split
        · exact fr _ _ _
        · split
          · exact fr _ _ _
          · split
            · exact same _ _ rfl
            · split
              · exact fr _ _ _
              · split
                · exact same _ _ rfl
                · refine ⟨fun h => absurd rfl h, ?_⟩
                  intro x y hx
                  rw [(addT2S_pool_spent K _ _).1] at hx
                  by_cases hxb : x = K.bidx t.id
                  · exact Or.inl hxb
                  · rw [AList.get?_set_other _ _ _ _ hxb] at hx
                    have e : deleteRbf K s a.rbf = delKeys K R_REPLACED s a.rbf.reverse := rfl
                    rw [e] at hx
                    have ps : PoolSub s (delKeys K R_REPLACED s a.rbf.reverse) := by
                      have : ∀ (l : List Nat) (s : State), PoolSub s (delKeys K R_REPLACED s l) := by
                        intro l
                        induction l with
                        | nil => intro s; exact PoolSub.refl s
                        | cons b r ih =>
                          intro s
                          rw [delKeys_cons]
                          split
                          · refine PoolSub.trans ?_ (ih _)
                            intro k x hx
                            rw [(delOne_pool_spent K s _ _).1, AList.get?_del] at hx
                            split at hx
                            · cases hx
                            · exact ⟨x, hx⟩
                          · exact ih _
                      exact this _ s
                    exact Or.inr (ps x y hx)

/-! ### the early exits of processTx: a missing parent is reported exactly with NO_TXOU -/

def ExitOK (e : Exit) : Prop := e.reject = true → (e.missing.isSome = true ↔ e.code = R_NO_TXOU)

theorem foldlM_except_err {α β ε : Type} (f : β → α → Except ε β) (P : ε → Prop)
    (hstep : ∀ b a e, f b a = .error e → P e) :
    ∀ (l : List α) (b : β) (e : ε), l.foldlM f b = .error e → P e := by
  intro l
  induction l with
  | nil => intro b e h; simp [List.foldlM, pure, Except.pure] at h
  | cons a l ih =>
    intro b e h
    simp only [List.foldlM_cons, bind, Except.bind] at h
    cases hf : f b a with
    | error e' => rw [hf] at h; cases h; exact hstep b a _ hf
    | ok b' => rw [hf] at h; exact ih b' e h

theorem rbfStep_err (K : Keys) (s : State) (fl : Flags) (so : Nat) (rbf : List Nat) (e : Exit)
    (h : rbfStep K s fl so rbf = .error e) : ExitOK e := by
  unfold rbfStep at h
  split at h
  · cases h; intro hr; cases hr
  · dsimp only at h
    split at h
    · cases h; intro _; decide
    · split at h
      · cases h; intro _; decide
      · refine foldlM_except_err _ ExitOK ?_ _ _ e h
        intro b a e' hf
        split at hf
        · cases hf; intro hr; cases hr
        · split at hf
          · cases hf; intro _; decide
          · split at hf
            · cases hf; intro _; decide
            · cases hf

theorem inputStep_err (K : Keys) (s : State) (fl : Flags) (a : Acc) (i : TxIn) (e : Exit)
    (h : inputStep K s fl a i = .error e) : ExitOK e := by
  unfold inputStep at h
  simp only [bind, Except.bind, pure, Except.pure] at h
  cases hsp : s.spent.get? (K.uidx i.prev i.vout) with
  | none =>
    rw [hsp] at h
    simp only at h
    repeat' split at h
    all_goals (cases h; try (intro hr; first | decide | (exact ⟨fun _ => rfl, fun _ => rfl⟩) | (cases hr)))
  | some so =>
    rw [hsp] at h
    simp only at h
    cases hr : rbfStep K s fl so a.rbf with
    | error e' =>
      rw [hr] at h
      cases h
      exact rbfStep_err K s fl so a.rbf _ hr
    | ok v =>
      rw [hr] at h
      simp only at h
      repeat' split at h
      all_goals (cases h; try (intro hr; first | decide | (exact ⟨fun _ => rfl, fun _ => rfl⟩) | (cases hr)))

theorem inputs_err (K : Keys) (s : State) (fl : Flags) (ins : List TxIn) (a : Acc) (e : Exit)
    (h : ins.foldlM (inputStep K s fl) a = .error e) : ExitOK e :=
  foldlM_except_err _ ExitOK (fun b i e' hf => inputStep_err K s fl b i e' hf) ins a e h

theorem processTx_RJ {K : Keys} {W : Tx → Prop} (mf : Nat) (s : State)
    (t : Tx) (fl : Flags) (hI : InvR K W s) (h : RJ K s)
    (hf : s.rej.get? (K.bidx t.id) = none) (hp : s.pool.get? (K.bidx t.id) = none) :
    RJ K (processTx K mf s t fl).2 := by
  have fr : ∀ (c why : Nat) m, (m.isSome = true ↔ why = R_NO_TXOU) → RJ K (c, rejectTx K s t why m).2 :=
    fun _ why m hm => (rejectTx_RJ h t why m hf hp hm).1
  unfold processTx
  split
  · exact fr _ _ _ (by decide)
  · split
    · exact fr _ _ _ (by decide)
    · split
      · rename_i e he
        dsimp only
        split
        · rename_i hrej
          exact fr 0 _ _ (inputs_err K s fl t.ins _ e he hrej)
        · split
          · exact h.of_shrink ⟨⟨rfl, rfl, rfl, rfl, rfl⟩, PoolSub.refl _⟩
          · exact h
      · rename_i a ha
        dsimp only
        split
        · exact fr _ _ _ (by decide)
        · split
          · exact fr _ _ _ (by decide)
          · split
            · exact h
            · split
              · exact fr _ _ _ (by decide)
              · split
                · exact h
                · show RJ K (addT2S K (deleteRbf K s a.rbf) _)
                  have e : deleteRbf K s a.rbf = delKeys K R_REPLACED s a.rbf.reverse := rfl
                  rw [e]
                  obtain ⟨d1, d2, d3⟩ := delKeys_RJ (W := W) R_REPLACED (by decide) a.rbf.reverse s hI h
                  apply addT2S_RJ d1
                  show (delKeys K R_REPLACED s a.rbf.reverse).rej.get? (K.bidx t.id) = none
                  cases hg : (delKeys K R_REPLACED s a.rbf.reverse).rej.get? (K.bidx t.id) with
                  | none => rfl
                  | some r' =>
                    rcases d3 _ r' hg with e1 | ⟨y, hy⟩
                    · rw [hf] at e1; cases e1
                    · rw [hp] at hy; cases hy

end GocoinV.Mempool
