/-
  Proofs.C11Thread — without a foreign Save the extended system of Model/ConcThread.lean is the snapshot protocol itself.
-/
import GocoinV.Model.ConcThread
namespace GocoinV.Proofs.C11Thread
open GocoinV.Conc GocoinV.Conc.Thread

theorem stepF_none (st : St) (h0 : st.fsaves = 0) (hp : st.fpc = .next) : stepF st = none := by
  unfold stepF
  rw [hp]
  simp [h0]

/-- a foreign goroutine that never calls Save is invisible: the run is the run of `Snap` on the protocol's own labels -/
theorem run_no_foreign (st : St) (ls : List Lab) (h0 : st.fsaves = 0) (hp : st.fpc = .next) :
    (run st ls).base = Snap.run st.base (baseLabs ls) ∧ (run st ls).fsaves = 0 ∧ (run st ls).fpc = .next := by
  induction ls generalizing st with
  | nil => exact ⟨rfl, h0, hp⟩
  | cons l r ih =>
    cases l with
    | foreign =>
      simp only [run, step, stepF_none st h0 hp, Option.getD_none, baseLabs]
      exact ih st h0 hp
    | base b =>
      simp only [run, step, baseLabs, Snap.run]
      cases hb : Snap.step st.base b with
      | none => simpa [hb] using ih st h0 hp
      | some nb =>
        simp only [Option.map_some, Option.getD_some]
        exact ih { st with base := nb } h0 hp

end GocoinV.Proofs.C11Thread
