/-
  Proofs.C09Block — block-level decoding: the transactions BuildTxList builds are the ones serialised one after
  the other behind the count, `Txs[i].Hash` is the txid of the i-th of them, and MerkleRootMatch compares the
  header field with the Merkle root of these txids (C05's `calcMerkle_spec`). Core tactics only.
-/
import GocoinV.Model.WireBlock
import GocoinV.Proofs.C09
import GocoinV.Proofs.C05Merkle
namespace GocoinV.Wire
open GocoinV GocoinV.CompactSize

theorem mkBlockTxs_fields (H : Bytes → Bytes) : ∀ (l : List (Decoded × Bytes)) (f : Bool),
    (mkBlockTxs H f l).map (·.tx) = l.map (·.1.tx) ∧ (mkBlockTxs H f l).map (·.raw) = l.map (·.2) := by
  intro l
  induction l with
  | nil => intro f; simp [mkBlockTxs]
  | cons p l ih =>
    intro f
    obtain ⟨d, raw⟩ := p
    have ⟨i1, i2⟩ := ih false
    simp [mkBlockTxs, i1, i2]

theorem mkBlockTxs_hash (H : Bytes → Bytes) : ∀ (l : List (Decoded × Bytes)) (f : Bool), (∀ p ∈ l, Good p) →
    (mkBlockTxs H f l).map (·.ids.hash) = l.map (fun p => txid H p.1.tx) := by
  intro l
  induction l with
  | nil => intro f _; simp [mkBlockTxs]
  | cons p l ih =>
    intro f g
    obtain ⟨d, raw⟩ := p
    have ⟨g1, _, _⟩ := g (d, raw) (by simp)
    simp only [mkBlockTxs, List.map_cons, ih false (fun q hq => g q (by simp [hq])), List.cons.injEq, and_true]
    unfold blockTxIds txid
    cases hw : d.tx.witness with
    | some w => simp
    | none =>
      simp only at g1
      simp only [g1]
      simp [encodeTx, hw]

theorem mkBlockTxs_wtxid (H : Bytes → Bytes) : ∀ (l : List (Decoded × Bytes)), (∀ p ∈ l, Good p) →
    (mkBlockTxs H false l).map (·.ids.wtxid) = l.map (fun p => wtxid H p.1.tx) := by
  intro l
  induction l with
  | nil => intro _; simp [mkBlockTxs]
  | cons p l ih =>
    intro g
    obtain ⟨d, raw⟩ := p
    have ⟨g1, _, _⟩ := g (d, raw) (by simp)
    simp only [mkBlockTxs, List.map_cons, ih (fun q hq => g q (by simp [hq])), List.cons.injEq, and_true]
    unfold blockTxIds wtxid
    simp only at g1
    cases hw : d.tx.witness with
    | some w => simp [g1]
    | none => simp [g1]

/-- the raw slices of the transactions parsed out of `b` lie one after the other at its start -/
theorem decodeTxs_concat : ∀ (n : Nat) (b : Bytes) (l : List (Decoded × Bytes)) (ok : Bool), decodeTxs n b = (l, ok) →
    ∃ rest, b = (l.map (·.2)).flatten ++ rest := by
  intro n
  induction n with
  | zero =>
    intro b l ok h
    simp only [decodeTxs, Prod.mk.injEq] at h
    obtain ⟨rfl, rfl⟩ := h
    exact ⟨b, by simp⟩
  | succ n ih =>
    intro b l ok h
    simp only [decodeTxs] at h
    split at h
    · simp only [Prod.mk.injEq] at h
      obtain ⟨rfl, rfl⟩ := h
      exact ⟨b, by simp⟩
    · rename_i d hd
      split at h
      · simp only [Prod.mk.injEq] at h
        obtain ⟨rfl, rfl⟩ := h
        exact ⟨b, by simp⟩
      · cases hrec : decodeTxs n (b.drop d.consumed) with
        | mk l' ok' =>
          rw [hrec] at h
          simp only [Prod.mk.injEq] at h
          obtain ⟨rfl, rfl⟩ := h
          obtain ⟨rest, hr⟩ := ih _ _ _ hrec
          refine ⟨rest, ?_⟩
          simp only [List.map_cons, List.flatten_cons, List.append_assoc]
          rw [← hr, List.take_append_drop]

/-- everything known about the transactions `NewBlock + BuildTxList` built from a block below 4 GiB -/
theorem decodeBlock_txs (H : Bytes → Bytes) (raw : Bytes) (hl : raw.length < 2^32) :
    ∃ l : List (Decoded × Bytes), (∀ p ∈ l, Good p) ∧
      (decodeBlock H raw).txs = mkBlockTxs H true l ∧
      ((decodeBlock H raw).err = none → l.length = (decodeBlock H raw).txCount ∧ (decodeBlock H raw).txCount ≠ 0 ∧
        ∃ rest, raw.drop 80 = putULe (decodeBlock H raw).txCount ++ ((l.map (·.2)).flatten ++ rest)) := by
  unfold decodeBlock
  by_cases h80 : raw.length < 80
  · exact ⟨[], by simp, by simp [h80, mkBlockTxs], by simp [h80]⟩
  simp only [h80, ↓reduceIte]
  cases hv : vlenWire (raw.drop 80) with
  | none => exact ⟨[], by simp, by simp [mkBlockTxs], by simp⟩
  | some pr =>
  obtain ⟨cnt, rest⟩ := pr
  simp only
  by_cases hc0 : cnt = 0
  · exact ⟨[], by simp, by simp [hc0, mkBlockTxs], by simp [hc0]⟩
  simp only [hc0, ↓reduceIte]
  obtain ⟨hr, _, _⟩ := vlenWire_spec hv
  have hrl : rest.length ≤ raw.length := by
    have := congrArg List.length hr
    simp only [List.length_drop, List.length_append] at this
    omega
  cases hd : decodeTxs cnt rest with
  | mk l ok =>
    simp only
    obtain ⟨g, _, k⟩ := decodeTxs_spec cnt rest (by omega) l ok hd
    refine ⟨l, g, rfl, ?_⟩
    intro hok
    have hokt : ok = true := by
      cases ok with
      | true => rfl
      | false => simp at hok
    obtain ⟨rest', hcat⟩ := decodeTxs_concat cnt rest l ok hd
    exact ⟨k hokt, hc0, rest', by rw [hr, hcat]⟩

end GocoinV.Wire

namespace GocoinV.Wire
open GocoinV GocoinV.CompactSize

theorem decodeTxs_false_lt : ∀ (n : Nat) (b : Bytes) (l : List (Decoded × Bytes)), decodeTxs n b = (l, false) → l.length < n := by
  intro n
  induction n with
  | zero => intro b l h; simp [decodeTxs] at h
  | succ n ih =>
    intro b l h
    simp only [decodeTxs] at h
    split at h
    · simp only [Prod.mk.injEq] at h; obtain ⟨rfl, _⟩ := h; simp
    · split at h
      · simp only [Prod.mk.injEq] at h; obtain ⟨rfl, _⟩ := h; simp
      · rename_i d hd hc
        cases hrec : decodeTxs n (b.drop d.consumed) with
        | mk l' ok' =>
          rw [hrec] at h
          simp only [Prod.mk.injEq] at h
          obtain ⟨rfl, rfl⟩ := h
          have := ih _ _ hrec
          simp only [List.length_cons]; omega

theorem mkBlockTxs_length (H : Bytes → Bytes) (l : List (Decoded × Bytes)) (f : Bool) :
    (mkBlockTxs H f l).length = l.length := by
  have := congrArg List.length (mkBlockTxs_fields H l f).1
  simpa using this

/-- BuildTxList succeeded ⇔ a non-zero count was read and that many transactions were built -/
theorem decodeBlock_err_none_iff (H : Bytes → Bytes) (raw : Bytes) :
    (decodeBlock H raw).err = none ↔
      (decodeBlock H raw).txCount ≠ 0 ∧ (decodeBlock H raw).txs.length = (decodeBlock H raw).txCount := by
  unfold decodeBlock
  by_cases h80 : raw.length < 80
  · simp [h80]
  simp only [h80, ↓reduceIte]
  cases hv : vlenWire (raw.drop 80) with
  | none => simp
  | some pr =>
  obtain ⟨cnt, rest⟩ := pr
  simp only
  by_cases hc0 : cnt = 0
  · simp [hc0]
  simp only [hc0, ↓reduceIte]
  cases hd : decodeTxs cnt rest with
  | mk l ok =>
    simp only [mkBlockTxs_length]
    cases ok with
    | true =>
      have : l.length = cnt := by
        by_cases h32 : rest.length < 2^32
        · exact (decodeTxs_spec cnt rest h32 l true hd).2.2 rfl
        · -- the length fact does not need the size bound: redo it directly
          clear h32
          have : ∀ (n : Nat) (b : Bytes) (l : List (Decoded × Bytes)), decodeTxs n b = (l, true) → l.length = n := by
            intro n
            induction n with
            | zero => intro b l h; simp only [decodeTxs, Prod.mk.injEq] at h; obtain ⟨rfl, _⟩ := h; rfl
            | succ n ih =>
              intro b l h
              simp only [decodeTxs] at h
              split at h
              · simp at h
              · split at h
                · simp at h
                · rename_i d _ _
                  cases hrec : decodeTxs n (b.drop d.consumed) with
                  | mk l' ok' =>
                    rw [hrec] at h
                    simp only [Prod.mk.injEq] at h
                    obtain ⟨rfl, rfl⟩ := h
                    simp [ih _ _ hrec]
          exact this _ _ _ hd
      simp [hc0, this]
    | false =>
      have := decodeTxs_false_lt cnt rest l hd
      constructor
      · intro h; simp at h
      · rintro ⟨_, h⟩; omega

end GocoinV.Wire
