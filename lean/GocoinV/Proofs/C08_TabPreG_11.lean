/- C08 table proof chunk (written once by Proofs/mk_c08_tab.py; static). -/
import GocoinV.Proofs.C08_TabDefs
import GocoinV.Gen.TablesPreG11
import GocoinV.Gen.TablesPreG10
namespace GocoinV.C08
open GocoinV.Gen

theorem preG_11 : chainOK (Secp.dbl Secp.G) ((pts Tables.preG10).getLastD none :: pts Tables.preG11) = true := by
  decide +kernel
theorem preG_11_ne : pts Tables.preG11 ≠ [] := by decide +kernel

end GocoinV.C08
