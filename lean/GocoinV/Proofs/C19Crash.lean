/-
  Proofs.C19Crash — crash states inside sync(): every prefix of the effects of sync() before its last one (the
  single Write to qdbidx.log) leaves a directory that reopens to exactly the old disk content.
-/
import GocoinV.Proofs.C19Run
namespace GocoinV.Proofs.C19
open GocoinV GocoinV.Qdb GocoinV.QdbSpec

/-- every record `NewDBidx` would rebuild from the directory can be loaded -/
def DirReadable (F : FS) : Prop :=
  ∀ kr ∈ diskIndex F, hasFlag kr.2.flags NO_CACHE = false ∧
    ∃ f v, dlookup kr.2.seq F.dats = some f ∧ ReadsBack f kr.2 v

/-- the value a reopen finds for key `k` in directory `F` -/
def diskValue (F : FS) (k : Key) : Option Bytes :=
  (ilookup k (diskIndex F)).map fun r => (((dlookup r.seq F.dats).getD []).drop r.pos).take r.len

/-- opening (LoadData) a readable directory never fails and gives every key its disk value -/
theorem open_readable (F : FS) (h : DirReadable F) (vol : Bool) (opts : Opts) :
    (openDB F vol true opts).failed = none ∧
    ∀ k, (ilookup k (openDB F vol true opts).index).map valOf = diskValue F k := by
  obtain ⟨dbB, used, hoi, hidx, hdats, hfl, hused⟩ := openIndex_used F vol opts
  have hfr := frame_cleanupold dbB used
  have hXi : (cleanupold dbB used).index = diskIndex F := hfr.index.trans hidx
  have hXf : (cleanupold dbB used).failed = none := hfr.failed.trans hfl
  have hXd : ∀ kr ∈ diskIndex F, dlookup kr.2.seq (cleanupold dbB used).fs.dats = dlookup kr.2.seq F.dats := by
    intro kr hkr
    have hck := cleanupold_keeps dbB used kr.2.seq (Or.inr (hused kr hkr))
    unfold cleanKeeps at hck
    simp only [Prod.mk.injEq] at hck
    rw [hck.2.2.2.1, hdats]
  have hfold := loadFold_general (diskIndex F) (cleanupold dbB used) hXf (by
    intro kr hkr
    obtain ⟨h1, f, v, h3, h4⟩ := h kr hkr
    exact ⟨h1, f, v, by rw [hXd kr hkr]; exact h3, h4⟩) []
  have hopen : openDB F vol true opts = { loadAll (cleanupold dbB used) with
      dataSeq := u32 ((loadAll (cleanupold dbB used)).maxSeq + 1) } := by
    unfold openDB
    simp only [↓reduceIte]
    rw [hoi]
  have hload : (loadAll (cleanupold dbB used)).failed = none ∧
      (loadAll (cleanupold dbB used)).index = mapV (loadedRec (cleanupold dbB used).fs) (diskIndex F) := by
    unfold loadAll
    rw [hXi, hfold]
    simp only [hXf, List.nil_append]
    exact ⟨trivial, trivial⟩
  rw [hopen]
  refine ⟨hload.1, ?_⟩
  intro k
  show (ilookup k (loadAll (cleanupold dbB used)).index).map valOf = _
  rw [hload.2, ilookup_mapV]
  unfold diskValue
  cases hD : ilookup k (diskIndex F) with
  | none => rfl
  | some rd =>
    have hkmem := ilookup_key_pair k rd (diskIndex F) hD
    simp only [Option.map_some, Option.some.injEq]
    unfold valOf loadedRec
    simp only [Option.getD_some]
    rw [hXd (k, rd) hkmem]

/-- the files `NewDBidx` reads are the same and every data file that existed has only grown -/
structure Grown (F0 F : FS) (keep : Nat → Prop) : Prop where
  idx0 : F.idx0 = F0.idx0
  idx1 : F.idx1 = F0.idx1
  logs : logEntries F = logEntries F0
  dats : ∀ t f, keep t → dlookup t F0.dats = some f → ∃ g, dlookup t F.dats = some (f ++ g)

theorem Grown.sameIndex {F0 F : FS} {keep : Nat → Prop} (h : Grown F0 F keep) : diskIndex F = diskIndex F0 := by
  have hp : pickIdx F = pickIdx F0 := by unfold pickIdx; rw [h.idx0, h.idx1]
  unfold diskIndex snapBase
  rw [h.logs, hp]

/-- a grown directory is as readable as the old one and every key has the same disk value -/
theorem Grown.readable {F0 F : FS} {keep : Nat → Prop} (h : Grown F0 F keep) (h0 : DirReadable F0)
    (hk : ∀ kr ∈ diskIndex F0, keep kr.2.seq) :
    DirReadable F ∧ ∀ k, diskValue F k = diskValue F0 k := by
  have hD := h.sameIndex
  constructor
  · intro kr hkr
    rw [hD] at hkr
    obtain ⟨h1, f, v, h3, h4⟩ := h0 kr hkr
    obtain ⟨g, hg⟩ := h.dats kr.2.seq f (hk kr hkr) h3
    exact ⟨h1, f ++ g, v, hg, h4.append g⟩
  · intro k
    unfold diskValue
    rw [hD]
    cases hl : ilookup k (diskIndex F0) with
    | none => rfl
    | some rd =>
      have hkmem := ilookup_key_pair k rd (diskIndex F0) hl
      obtain ⟨_, f, v, h3, h4⟩ := h0 (k, rd) hkmem
      obtain ⟨g, hg⟩ := h.dats rd.seq f (hk (k, rd) hkmem) h3
      simp only [Option.map_some, Option.some.injEq]
      rw [hg, h3]
      simp only [Option.getD_some]
      obtain ⟨a, _, _⟩ := h4
      have a' : rd.pos + rd.len ≤ f.length := a
      rw [List.drop_append_of_le_length (by omega),
        List.take_append_of_le_length (by simp only [List.length_drop]; omega)]

end GocoinV.Proofs.C19
