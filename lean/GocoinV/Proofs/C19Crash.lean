/-
  Proofs.C19Crash — crash states inside sync(): every prefix of the effects of sync() before its last one (the
  single Write to qdbidx.log) leaves a directory that reopens to exactly the old disk content.
-/
import GocoinV.Proofs.C19Run
import GocoinV.Proofs.C19Effects
namespace GocoinV.Proofs.C19
open GocoinV GocoinV.Qdb GocoinV.QdbSpec

variable {eg : Bool}

/-- every record `NewDBidx` would rebuild from the directory can be loaded -/
def DirReadable (eg : Bool) (F : FS) : Prop :=
  ∀ kr ∈ diskIndex F, hasFlag kr.2.flags (ncOf eg) = false ∧
    ∃ f v, dlookup kr.2.seq F.dats = some f ∧ ReadsBack f kr.2 v

/-- the value a reopen finds for key `k` in directory `F` -/
def diskValue (F : FS) (k : Key) : Option Bytes :=
  (ilookup k (diskIndex F)).map fun r => (((dlookup r.seq F.dats).getD []).drop r.pos).take r.len

/-- the log of `F` exists but `loadlog` will discard (remove) it: its header cannot be read or carries another
    snapshot version -/
def LogDiscarded (F : FS) : Prop := ∃ f, F.log = some f ∧ logBody f (snapVer F) = none

/-- what `NewDBExt` needs from a directory to come up with the invariants: the log is absent, canonical for the
    snapshot's version, or will be discarded; the version fits; every record can be read back -/
structure OpenOK (eg : Bool) (F : FS) : Prop where
  log : (∃ E, (∀ e ∈ E, EntryFits e) ∧ LogState F (snapVer F) E) ∨ LogDiscarded F
  ver : snapVer F < 2^32
  readable : DirReadable eg F

/-- the log of `F` is the one of `F0`, or `F0` had none and `F` holds a freshly created one (empty, or header only) -/
def LogRel (F0 F : FS) : Prop :=
  F.log = F0.log ∨ (F0.log = none ∧ (F.log = some [] ∨ F.log = some (le32 (snapVer F0))))

theorem LogRel.refl (F : FS) : LogRel F F := Or.inl rfl

/-- opening (LoadData) a readable directory never fails and gives every key its disk value -/
theorem open_readable (F : FS) (h : DirReadable eg F) (vol : Bool) (opts : Opts) :
    (openDB F vol true opts eg).failed = none ∧
    ∀ k, (ilookup k (openDB F vol true opts eg).index).map valOf = diskValue F k := by
  obtain ⟨dbB, used, hoi, hidx, hdats, hfl, hused⟩ := openIndex_used (eg := eg) F vol opts
  have hfr := frame_cleanupold dbB used
  have hXi : (cleanupold dbB used).index = diskIndex F := hfr.index.trans hidx
  have hXf : (cleanupold dbB used).failed = none := hfr.failed.trans hfl
  have hXe : (cleanupold dbB used).eager = eg := by rw [← hoi]; exact openIndex_eager F vol opts
  have hXd : ∀ kr ∈ diskIndex F, dlookup kr.2.seq (cleanupold dbB used).fs.dats = dlookup kr.2.seq F.dats := by
    intro kr hkr
    have hck := cleanupold_keeps dbB used kr.2.seq (Or.inr (hused kr hkr))
    unfold cleanKeeps at hck
    simp only [Prod.mk.injEq] at hck
    rw [hck.2.2.2.1, hdats]
  have hfold := loadFold_general (diskIndex F) (cleanupold dbB used) hXf hXe (by
    intro kr hkr
    obtain ⟨h1, f, v, h3, h4⟩ := h kr hkr
    exact ⟨h1, f, v, by rw [hXd kr hkr]; exact h3, h4⟩) []
  have hopen : openDB F vol true opts eg = { loadAll (cleanupold dbB used) with
      dataSeq := u32 ((loadAll (cleanupold dbB used)).maxSeq + 1) } := by
    unfold openDB
    simp only [↓reduceIte]
    rw [hoi]
  have hload : (loadAll (cleanupold dbB used)).failed = none ∧
      (loadAll (cleanupold dbB used)).index = mapV (loadedRec (cleanupold dbB used).fs) (diskIndex F) := by
    unfold loadAll
    rw [hXi, hfold]
    simp only [hXf, List.nil_append]
    exact ⟨trivial, trivial⟩
  rw [hopen]
  refine ⟨hload.1, ?_⟩
  intro k
  show (ilookup k (loadAll (cleanupold dbB used)).index).map valOf = _
  rw [hload.2, ilookup_mapV]
  unfold diskValue
  cases hD : ilookup k (diskIndex F) with
  | none => rfl
  | some rd =>
    have hkmem := ilookup_key_pair k rd (diskIndex F) hD
    simp only [Option.map_some, Option.some.injEq]
    unfold valOf loadedRec
    simp only [Option.getD_some]
    rw [hXd (k, rd) hkmem]

/-- the files `NewDBidx` reads are the same and every data file that existed has only grown -/
structure Grown (F0 F : FS) (keep : Nat → Prop) : Prop where
  idx0 : F.idx0 = F0.idx0
  idx1 : F.idx1 = F0.idx1
  logs : logEntries F = logEntries F0
  dats : ∀ t f, keep t → dlookup t F0.dats = some f → ∃ g, dlookup t F.dats = some (f ++ g)

theorem Grown.sameIndex {F0 F : FS} {keep : Nat → Prop} (h : Grown F0 F keep) : diskIndex F = diskIndex F0 := by
  have hp : pickIdx F = pickIdx F0 := by unfold pickIdx; rw [h.idx0, h.idx1]
  unfold diskIndex snapBase
  rw [h.logs, hp]

/-- a grown directory is as readable as the old one and every key has the same disk value -/
theorem Grown.readable {F0 F : FS} {keep : Nat → Prop} (h : Grown F0 F keep) (h0 : DirReadable eg F0)
    (hk : ∀ kr ∈ diskIndex F0, keep kr.2.seq) :
    DirReadable eg F ∧ ∀ k, diskValue F k = diskValue F0 k := by
  have hD := h.sameIndex
  constructor
  · intro kr hkr
    rw [hD] at hkr
    obtain ⟨h1, f, v, h3, h4⟩ := h0 kr hkr
    obtain ⟨g, hg⟩ := h.dats kr.2.seq f (hk kr hkr) h3
    exact ⟨h1, f ++ g, v, hg, h4.append g⟩
  · intro k
    unfold diskValue
    rw [hD]
    cases hl : ilookup k (diskIndex F0) with
    | none => rfl
    | some rd =>
      have hkmem := ilookup_key_pair k rd (diskIndex F0) hl
      obtain ⟨_, f, v, h3, h4⟩ := h0 (k, rd) hkmem
      obtain ⟨g, hg⟩ := h.dats rd.seq f (hk (k, rd) hkmem) h3
      simp only [Option.map_some, Option.some.injEq]
      rw [hg, h3]
      simp only [Option.getD_some]
      obtain ⟨a, _, _⟩ := h4
      have a' : rd.pos + rd.len ≤ f.length := a
      rw [List.drop_append_of_le_length (by omega),
        List.take_append_of_le_length (by simp only [List.length_drop]; omega)]

theorem Grown.refl (F : FS) (keep : Nat → Prop) : Grown F F keep :=
  ⟨rfl, rfl, rfl, fun _ f _ h => ⟨[], by simp [h]⟩⟩

theorem Grown.trans {F0 F1 F2 : FS} {keep : Nat → Prop} (h1 : Grown F0 F1 keep) (h2 : Grown F1 F2 keep) :
    Grown F0 F2 keep := by
  refine ⟨h2.idx0.trans h1.idx0, h2.idx1.trans h1.idx1, h2.logs.trans h1.logs, ?_⟩
  intro t f hk hf
  obtain ⟨g, hg⟩ := h1.dats t f hk hf
  obtain ⟨g', hg'⟩ := h2.dats t (f ++ g) hk hg
  exact ⟨g ++ g', by rw [hg']; simp [List.append_assoc]⟩

theorem logEntries_congr (F0 F : FS) (h0 : F.idx0 = F0.idx0) (h1 : F.idx1 = F0.idx1) (hl : F.log = F0.log) :
    logEntries F = logEntries F0 := by
  have hp : pickIdx F = pickIdx F0 := by unfold pickIdx; rw [h0, h1]
  unfold logEntries snapVer
  rw [hl, hp]

/-! ### phase 2: the data writes of the loop are appends to the current data file -/

theorem writes_prefix (ds : Nat) (ks : List Key) (idx : List (Key × Rec)) (F : FS) (f : Bytes)
    (hf : dlookup ds F.dats = some f) (n : Nat) :
    Grown F (F.applyAll ((planW ds idx ks f.length).take n)) (fun _ => True) ∧
    (F.applyAll ((planW ds idx ks f.length).take n)).log = F.log := by
  induction ks generalizing idx F f n with
  | nil => simp only [planW, List.take_nil, FS.applyAll]; exact ⟨Grown.refl _ _, trivial⟩
  | cons k t ih =>
    cases hl : ilookup k idx with
    | none => simp only [planW, hl]; exact ih idx F f hf n
    | some rc =>
      simp only [planW, hl]
      cases n with
      | zero => simp only [List.take_zero, FS.applyAll]; exact ⟨Grown.refl _ _, trivial⟩
      | succ m =>
        simp only [List.take_succ_cons, FS.applyAll]
        -- the first write appends rc's data
        have hF1 : F.apply (.writeDat ds f.length (rc.data.getD [])) =
            { F with dats := dset ds (f ++ rc.data.getD []) F.dats } := by
          unfold FS.apply
          simp only [hf, writeAt_end]
        have hstep : Grown F (F.apply (.writeDat ds f.length (rc.data.getD []))) (fun _ => True) := by
          rw [hF1]
          refine ⟨rfl, rfl, logEntries_congr _ _ rfl rfl rfl, ?_⟩
          intro t' f' _ hf'
          by_cases ht : t' = ds
          · subst ht
            rw [hf] at hf'
            cases hf'
            exact ⟨rc.data.getD [], dlookup_dset_same _ _ _⟩
          · exact ⟨[], by simp only [List.append_nil]; rw [dlookup_dset_other _ _ _ _ ht]; exact hf'⟩
        have hf1 : dlookup ds (F.apply (.writeDat ds f.length (rc.data.getD []))).dats = some (f ++ rc.data.getD []) := by
          rw [hF1]; exact dlookup_dset_same _ _ _
        have hlog1 : (F.apply (.writeDat ds f.length (rc.data.getD []))).log = F.log := by rw [hF1]
        have hlen : f.length + (rc.data.getD []).length = (f ++ rc.data.getD []).length := by simp
        rw [hlen]
        obtain ⟨a, b⟩ := ih _ _ _ hf1 m
        exact ⟨hstep.trans a, b.trans hlog1⟩

theorem Grown.mono {F0 F : FS} {k1 k2 : Nat → Prop} (h : Grown F0 F k1) (hk : ∀ t, k2 t → k1 t) : Grown F0 F k2 :=
  ⟨h.idx0, h.idx1, h.logs, fun t f ht hf => h.dats t f (hk t ht) hf⟩

/-! ### phase 1: creating the data file -/

theorem create_prefix (F : FS) (ds : Nat) (n : Nat) :
    Grown F (F.applyAll (([Effect.createDat ds, .writeDat ds 0 (le32 ds)] : List Effect).take n)) (fun t => t ≠ ds) ∧
    (F.applyAll (([Effect.createDat ds, .writeDat ds 0 (le32 ds)] : List Effect).take n)).log = F.log ∧
    (2 ≤ n → dlookup ds (F.applyAll (([Effect.createDat ds, .writeDat ds 0 (le32 ds)] : List Effect).take n)).dats
      = some (le32 ds)) := by
  have h1 : F.apply (.createDat ds) = { F with dats := dset ds [] F.dats } := rfl
  have h2 : (F.apply (.createDat ds)).apply (.writeDat ds 0 (le32 ds)) =
      { F with dats := dset ds (le32 ds) (dset ds [] F.dats) } := by
    unfold FS.apply
    simp [dlookup_dset_same, writeAt]
  have hg : ∀ (D : List (Nat × Bytes)), (∀ t, t ≠ ds → dlookup t D = dlookup t F.dats) →
      Grown F { F with dats := D } (fun t => t ≠ ds) := by
    intro D hD
    refine ⟨rfl, rfl, logEntries_congr _ _ rfl rfl rfl, ?_⟩
    intro t f ht hf
    exact ⟨[], by simp only [List.append_nil]; rw [hD t ht]; exact hf⟩
  match n with
  | 0 => exact ⟨Grown.refl _ _, rfl, fun h => by omega⟩
  | 1 =>
    simp only [List.take_succ_cons, List.take_zero, FS.applyAll, h1]
    exact ⟨hg _ (fun t ht => dlookup_dset_other _ _ _ _ ht), trivial, fun h => by omega⟩
  | m + 2 =>
    simp only [List.take_succ_cons, List.take_nil, FS.applyAll, h2]
    refine ⟨hg _ (fun t ht => ?_), trivial, fun _ => dlookup_dset_same _ _ _⟩
    rw [dlookup_dset_other _ _ _ _ ht, dlookup_dset_other _ _ _ _ ht]

/-! ### phase 3: creating the index log -/

theorem logcreate_prefix (F : FS) (ver : Nat) (hv : ver < 2^32) (hver : snapVer F = ver) (hl : F.log = none) (n : Nat) :
    Grown F (F.applyAll (([Effect.createLog, .appendLog (le32 ver)] : List Effect).take n)) (fun _ => True) := by
  have hle0 : logEntries F = [] := by unfold logEntries; rw [hl]
  have hg : ∀ (L : Option Bytes), logEntries { F with log := L } = [] → Grown F { F with log := L } (fun _ => True) := by
    intro L hL
    exact ⟨rfl, rfl, hL.trans hle0.symm, fun t f _ hf => ⟨[], by simpa using hf⟩⟩
  have hsv : ∀ L, snapVer { F with log := L } = ver := by
    intro L; unfold snapVer pickIdx at hver ⊢; exact hver
  match n with
  | 0 => exact Grown.refl _ _
  | 1 =>
    simp only [List.take_succ_cons, List.take_zero, FS.applyAll]
    show Grown F { F with log := some [] } _
    apply hg
    unfold logEntries
    simp [logBody]
  | m + 2 =>
    simp only [List.take_succ_cons, List.take_nil, FS.applyAll]
    have : (F.apply .createLog).apply (.appendLog (le32 ver)) = { F with log := some (le32 ver) } := by
      unfold FS.apply; simp
    rw [this]
    apply hg
    unfold logEntries
    simp only [hsv]
    have := logBody_ok ver hv []
    simp only [List.append_nil] at this
    rw [this]
    rfl

/-! ### all crash points of sync() before its last effect -/

theorem snapVer_congr (F0 F : FS) (h0 : F.idx0 = F0.idx0) (h1 : F.idx1 = F0.idx1) : snapVer F = snapVer F0 := by
  unfold snapVer pickIdx; rw [h0, h1]

theorem logcreate_log (F : FS) (ver : Nat) (hl : F.log = none) (n : Nat) :
    (F.applyAll (([Effect.createLog, .appendLog (le32 ver)] : List Effect).take n)).log = F.log ∨
    (F.applyAll (([Effect.createLog, .appendLog (le32 ver)] : List Effect).take n)).log = some [] ∨
    (F.applyAll (([Effect.createLog, .appendLog (le32 ver)] : List Effect).take n)).log = some (le32 ver) := by
  match n with
  | 0 => exact Or.inl rfl
  | 1 => exact Or.inr (Or.inl rfl)
  | m + 2 =>
    refine Or.inr (Or.inr ?_)
    simp only [List.take_succ_cons, List.take_nil, FS.applyAll]
    unfold FS.apply
    simp

/-- a directory that grew out of an openable one (same index files, same or freshly created log, data files only
    longer) is openable -/
theorem openOK_of_grown {F0 F : FS} {keep : Nat → Prop} (h : Grown F0 F keep) (hl : LogRel F0 F) (h0 : OpenOK eg F0)
    (hlog0 : ∃ E, (∀ e ∈ E, EntryFits e) ∧ LogState F0 (snapVer F0) E)
    (hk : ∀ kr ∈ diskIndex F0, keep kr.2.seq) : OpenOK eg F := by
  have hsv : snapVer F = snapVer F0 := snapVer_congr F0 F h.idx0 h.idx1
  refine ⟨?_, by rw [hsv]; exact h0.ver, (h.readable h0.readable hk).1⟩
  rw [hsv]
  obtain ⟨E, hE, hs⟩ := hlog0
  rcases hl with hl | ⟨hn, hl | hl⟩
  · refine Or.inl ⟨E, hE, ?_⟩
    unfold LogState at hs ⊢
    rw [hl]; exact hs
  · refine Or.inr ⟨[], hl, ?_⟩
    unfold logBody; simp
  · refine Or.inl ⟨[], (fun e he => by cases he), Or.inr ?_⟩
    rw [hl]; simp [encLog]

/-- Every directory that exists strictly inside sync() — after any number of its file operations except the
    last one (the Write of the collected entries to qdbidx.log) — reopens without failure and gives every key
    exactly the value the directory held before sync() started. -/
theorem sync_prefix_grown (db : DB) (inv : DiskInv db) (n : Nat) (hn : n < (syncEffs db).length) :
    Grown db.fs (db.fs.applyAll ((syncEffs db).take n)) (fun t => db.datOpen = true ∨ t ≠ db.dataSeq) ∧
    LogRel db.fs (db.fs.applyAll ((syncEffs db).take n)) := by
  let keep : Nat → Prop := fun t => db.datOpen = true ∨ t ≠ db.dataSeq
  -- split the prefix along the three phases
  obtain ⟨c_open, c_same, c_new, _⟩ := checkDat_post db
  let cd := cdEffs db
  let ws := planW db.dataSeq db.index db.pending (checkDat db).lastPos
  let cl := clEffs db
  let last : Effect := .appendLog (encLog (syncPlan db.dataSeq db.index db.pending (checkDat db).lastPos).2.1)
  have hse : syncEffs db = cd ++ (ws ++ (cl ++ [last])) := rfl
  have hlen : (syncEffs db).length = cd.length + ws.length + cl.length + 1 := by
    rw [hse]; simp only [List.length_append, List.length_cons, List.length_nil]; omega
  rw [hlen] at hn
  have htake : (syncEffs db).take n =
      cd.take n ++ (ws.take (n - cd.length) ++ cl.take (n - cd.length - ws.length)) := by
    rw [hse, List.take_append, List.take_append, List.take_append]
    have : n - cd.length - ws.length - cl.length = 0 := by omega
    rw [this]; simp
  rw [htake, applyAll_append, applyAll_append]
  -- phase 1
  have hA : Grown db.fs (db.fs.applyAll (cd.take n)) keep ∧ (db.fs.applyAll (cd.take n)).log = db.fs.log ∧
      (cd.length ≤ n → ∃ f, dlookup db.dataSeq (db.fs.applyAll (cd.take n)).dats = some f ∧
        f.length = (checkDat db).lastPos) := by
    cases ho : db.datOpen with
    | true =>
      have hcd : cd = [] := by show cdEffs db = []; unfold cdEffs; simp [ho]
      rw [hcd]
      simp only [List.take_nil, FS.applyAll]
      obtain ⟨f, h1, h2, _⟩ := inv.dat1 ho
      exact ⟨Grown.refl _ _, trivial, fun _ => ⟨f, h1, by rw [c_same ho]; exact h2.symm⟩⟩
    | false =>
      have hcd : cd = [.createDat db.dataSeq, .writeDat db.dataSeq 0 (le32 db.dataSeq)] := by
        show cdEffs db = _; unfold cdEffs; simp [ho]
      rw [hcd]
      obtain ⟨g1, g2, g3⟩ := create_prefix db.fs db.dataSeq n
      refine ⟨g1.mono (fun t ht => ?_), g2, fun hle => ⟨le32 db.dataSeq, g3 (by simpa using hle), ?_⟩⟩
      · rcases ht with h | h
        · rw [ho] at h; cases h
        · exact h
      · rw [(c_new ho).2.1]; simp
  obtain ⟨gA, lA, fA⟩ := hA
  -- phase 2
  have hB : Grown (db.fs.applyAll (cd.take n)) ((db.fs.applyAll (cd.take n)).applyAll (ws.take (n - cd.length))) keep ∧
      ((db.fs.applyAll (cd.take n)).applyAll (ws.take (n - cd.length))).log = db.fs.log := by
    by_cases hle : cd.length ≤ n
    · obtain ⟨f, hf1, hf2⟩ := fA hle
      have := writes_prefix db.dataSeq db.pending db.index (db.fs.applyAll (cd.take n)) f hf1 (n - cd.length)
      rw [hf2] at this
      exact ⟨this.1.mono (fun _ _ => trivial), this.2.trans lA⟩
    · have : n - cd.length = 0 := by omega
      rw [this]
      simp only [List.take_zero, FS.applyAll]
      exact ⟨Grown.refl _ _, lA⟩
  obtain ⟨gB, lB⟩ := hB
  -- phase 3
  have hC : Grown ((db.fs.applyAll (cd.take n)).applyAll (ws.take (n - cd.length)))
      (((db.fs.applyAll (cd.take n)).applyAll (ws.take (n - cd.length))).applyAll (cl.take (n - cd.length - ws.length))) keep ∧
      LogRel db.fs
      (((db.fs.applyAll (cd.take n)).applyAll (ws.take (n - cd.length))).applyAll (cl.take (n - cd.length - ws.length))) := by
    cases hlo : db.logOpen with
    | true =>
      have hcl : cl = [] := by show clEffs db = []; unfold clEffs; simp [hlo]
      rw [hcl]
      simp only [List.take_nil, FS.applyAll]
      exact ⟨Grown.refl _ _, Or.inl lB⟩
    | false =>
      have hcl : cl = [.createLog, .appendLog (le32 db.verSeq)] := by
        show clEffs db = _; unfold clEffs; simp [hlo]
      rw [hcl]
      have hAB := gA.trans gB
      have hsv : snapVer ((db.fs.applyAll (cd.take n)).applyAll (ws.take (n - cd.length))) = db.verSeq :=
        (snapVer_congr _ _ hAB.idx0 hAB.idx1).trans inv.ver
      refine ⟨(logcreate_prefix _ db.verSeq inv.verlt hsv (lB.trans (inv.log1 hlo)) _).mono (fun _ _ => trivial), ?_⟩
      have hnone := inv.log1 hlo
      rcases logcreate_log _ db.verSeq (lB.trans hnone) (n - cd.length - ws.length) with h | h | h
      · exact Or.inl (h.trans lB)
      · exact Or.inr ⟨hnone, Or.inl h⟩
      · exact Or.inr ⟨hnone, Or.inr (by rw [inv.ver]; exact h)⟩
  exact ⟨(gA.trans gB).trans hC.1, hC.2⟩

/-- a reachable state's directory is openable -/
theorem openOK_of_inv (db : DB) (inv : DiskInv db) : OpenOK db.eager db.fs :=
  ⟨Or.inl (by obtain ⟨E, hE, hs⟩ := inv.logst; exact ⟨E, hE, by rw [inv.ver]; exact hs⟩),
   by rw [inv.ver]; exact inv.verlt, fun kr hkr => ⟨inv.dflags kr hkr, inv.dreads kr hkr⟩⟩

theorem sync_keep (db : DB) (inv : DiskInv db) :
    ∀ kr ∈ diskIndex db.fs, (fun t => db.datOpen = true ∨ t ≠ db.dataSeq) kr.2.seq := by
  intro kr hkr
  cases ho : db.datOpen with
  | true => exact Or.inl rfl
  | false => exact Or.inr (inv.dat2 ho kr hkr)

theorem sync_prefix (db : DB) (inv : DiskInv db) (n : Nat) (hn : n < (syncEffs db).length) :
    DirReadable db.eager (db.fs.applyAll ((syncEffs db).take n)) ∧
    ∀ k, diskValue (db.fs.applyAll ((syncEffs db).take n)) k = diskValue db.fs k :=
  (sync_prefix_grown db inv n hn).1.readable (openOK_of_inv db inv).readable (sync_keep db inv)

/-- every directory strictly inside sync() is openable (so that the invariants hold again after NewDBExt) -/
theorem sync_prefix_ok (db : DB) (inv : DiskInv db) (n : Nat) (hn : n < (syncEffs db).length) :
    OpenOK db.eager (db.fs.applyAll ((syncEffs db).take n)) := by
  obtain ⟨g, l⟩ := sync_prefix_grown db inv n hn
  exact openOK_of_grown g l (openOK_of_inv db inv)
    (by obtain ⟨E, hE, hs⟩ := inv.logst; exact ⟨E, hE, by rw [inv.ver]; exact hs⟩) (sync_keep db inv)

end GocoinV.Proofs.C19
