/-
  Proofs.C13Script — the four output templates the wallet owns, run through the REAL script rules
  (`ScriptSpec.verifyScript`, Spec/Script.lean — the reference semantics C01's `script_equiv` ties gocoin's
  `VerifyTxScript` to). For every oracle instance `O` and every flag set satisfying Core's flag dependencies:
    verifyScript_p2pkh, verifyScript_p2wpkh, verifyScript_p2sh_p2wpkh, verifyScript_p2tr
  state exactly which scriptSig / witness is accepted and which cryptographic facts that needs. Core only.
-/
import GocoinV.Spec.Script
namespace GocoinV.Proofs.C13S
open GocoinV GocoinV.ScriptSpec
open GocoinV.Script (Oracles TxCtx SigVersion)

/-! ### parsing -/

theorem ofNat_toNat_small (n : Nat) (h : n < 256) : (UInt8.ofNat n).toNat = n := by
  simp [UInt8.toNat_ofNat']; omega

/-- a direct push (opcodes 0x01..0x4b) decodes to its data -/
theorem parseOne_direct (b rest : Bytes) (h1 : b.length ≤ 75) :
    parseOne (UInt8.ofNat b.length :: (b ++ rest)) = some ⟨b.length, b, rest⟩ := by
  have e : (UInt8.ofNat b.length).toNat = b.length := ofNat_toNat_small _ (by omega)
  simp only [parseOne, e]
  have c1 : b.length ≤ 0x4e := by omega
  have c2 : b.length < 0x4c := by omega
  simp [c1, c2]

theorem parseAux_nil (f : Nat) : parseAux f [] = ([], false) := by
  cases f <;> simp [parseAux]

theorem parseAux_step (f : Nat) (s : Bytes) (i : Instr) (hs : s ≠ []) (hp : parseOne s = some i) :
    parseAux (f + 1) s = (i :: (parseAux f i.after).1, (parseAux f i.after).2) := by
  have : s.isEmpty = false := by cases s <;> simp_all
  simp [parseAux, this, hp]


theorem minimalPush_direct (b : Bytes) (h2 : 2 ≤ b.length) (h75 : b.length ≤ 75) :
    checkMinimalPush b b.length = true := by
  match b, h2 with
  | x :: y :: r, _ =>
    simp only [checkMinimalPush]
    simp at h75 ⊢
    omega

/-- an executed data push of 2..75 bytes with its direct opcode -/
theorem execInstr_push (e : Env) (st : State) (b after : Bytes) (pos : Nat)
    (h2 : 2 ≤ b.length) (h75 : b.length ≤ 75) (hexec : st.cond.allTrue = true)
    (hsz : st.stack.length + 1 + st.alt.length ≤ 1000) :
    execInstr e st ⟨b.length, b, after⟩ pos = .ok (push st b) := by
  have hm := minimalPush_direct b h2 h75
  have c1 : ¬ (b.length > MAX_SCRIPT_ELEMENT_SIZE) := by unfold MAX_SCRIPT_ELEMENT_SIZE; omega
  have c2 : ¬ (b.length > 0x60) := by omega
  have c3 : isDisabledOpcode b.length = false := by
    unfold isDisabledOpcode
    simp
    omega
  have c4 : (b.length == 0xab) = false := by simp; omega
  have c5 : b.length ≤ 0x4e := by omega
  have c6 : ¬ ((push st b).stack.length + (push st b).alt.length > MAX_STACK_SIZE) := by
    simp [push, MAX_STACK_SIZE]; omega
  simp only [execInstr, c1, c2, c3, c4, c5, hexec, hm, bind, Except.bind, pure, Except.pure,
    ↓reduceIte, decide_false, decide_true, Bool.and_false, Bool.false_and, Bool.not_true, Bool.and_true, Bool.true_and,
    Bool.false_eq_true, c6]


/-- frame of an executed non-push opcode under base / witness-v0 rules -/
theorem execInstr_op (e : Env) (st : State) (op : Nat) (after : Bytes) (pos : Nat)
    (hsv : e.sv = .base ∨ e.sv = .witnessV0) (hop : op > 0x60) (hdis : isDisabledOpcode op = false)
    (hab : op ≠ 0xab) (hexec : st.cond.allTrue = true) (hcnt : st.opCount + 1 ≤ MAX_OPS_PER_SCRIPT)
    (st' : State)
    (hrun : execOpcode e { st with opCount := st.opCount + 1 } ⟨op, [], after⟩ true pos = .ok st')
    (hsz : st'.stack.length + st'.alt.length ≤ MAX_STACK_SIZE) :
    execInstr e st ⟨op, [], after⟩ pos = .ok st' := by
  have c1 : ¬ (([] : Bytes).length > MAX_SCRIPT_ELEMENT_SIZE) := by simp
  have c2 : ((e.sv == SigVersion.base || e.sv == SigVersion.witnessV0) && decide (op > 0x60)) = true := by
    rcases hsv with h | h <;> simp [h, hop]
  have c3 : ¬ (st.opCount + 1 > MAX_OPS_PER_SCRIPT) := by omega
  have c4 : (op == 0xab) = false := by simp [hab]
  have c5 : ¬ (op ≤ 0x4e) := by omega
  have c6 : ¬ (st'.stack.length + st'.alt.length > MAX_STACK_SIZE) := by omega
  have hexec' : ({ st with opCount := st.opCount + 1 } : State).cond.allTrue = true := hexec
  simp only [execInstr, c1, c2, c3, c4, c5, hdis, hexec, hexec', bind, Except.bind, pure, Except.pure,
    ↓reduceIte, decide_false, Bool.and_false, Bool.false_and, Bool.false_eq_true, Bool.true_and, Bool.true_or, hrun, c6]

theorem execOpcode_dup (e : Env) (st : State) (x : Bytes) (r : List Bytes) (after : Bytes) (pos : Nat)
    (hs : st.stack = x :: r) :
    execOpcode e st ⟨0x76, [], after⟩ true pos = .ok { st with stack := x :: x :: r } := by
  simp [execOpcode, isShuffle, shuffle, hs, pure, Except.pure]

theorem execOpcode_hash160 (e : Env) (st : State) (x : Bytes) (r : List Bytes) (after : Bytes) (pos : Nat)
    (hs : st.stack = x :: r) :
    execOpcode e st ⟨0xa9, [], after⟩ true pos = .ok { st with stack := e.O.hash160 x :: r } := by
  simp [execOpcode, isShuffle, isUnaryNum, isBinaryNum, opHash, pop1, hs, push, bind, Except.bind, pure, Except.pure]

theorem execOpcode_equalverify (e : Env) (st : State) (x : Bytes) (r : List Bytes) (after : Bytes) (pos : Nat)
    (hs : st.stack = x :: x :: r) :
    execOpcode e st ⟨0x88, [], after⟩ true pos = .ok { st with stack := r } := by
  simp [execOpcode, isShuffle, opEqual, hs, pure, Except.pure]

theorem execOpcode_equal (e : Env) (st : State) (x : Bytes) (r : List Bytes) (after : Bytes) (pos : Nat)
    (hs : st.stack = x :: x :: r) :
    execOpcode e st ⟨0x87, [], after⟩ true pos = .ok { st with stack := vchTrue :: r } := by
  simp [execOpcode, isShuffle, opEqual, hs, pure, Except.pure, ofBool]


theorem checkSignatureEncoding_ok (f : Flags) (sig : Bytes) (hv : isValidSignatureEncoding sig = true)
    (hlow : derS sig ≤ secpHalfOrder) (hht : isDefinedHashtypeSignature sig = true) :
    checkSignatureEncoding f sig = .ok () := by
  have hne : sig.isEmpty = false := by
    cases sig with
    | nil => simp [isDefinedHashtypeSignature] at hht
    | cons _ _ => rfl
  unfold checkSignatureEncoding isLowDERSignature
  cases f.dersig <;> cases f.lowS <;> cases f.strictenc <;>
    simp [hne, hv, hlow, hht, bind, Except.bind, pure, Except.pure]

theorem compressed_is_key (pk : Bytes) (h : isCompressedPubKey pk = true) :
    isCompressedOrUncompressedPubKey pk = true := by
  cases pk with
  | nil => simp [isCompressedPubKey] at h
  | cons a t =>
    simp only [isCompressedPubKey, Bool.and_eq_true, beq_iff_eq, Bool.or_eq_true] at h
    obtain ⟨hl, ha⟩ := h
    simp only [isCompressedOrUncompressedPubKey, hl]
    rcases ha with rfl | rfl <;> simp

theorem checkPubKeyEncoding_ok (f : Flags) (sv : SigVersion) (pk : Bytes) (h : isCompressedPubKey pk = true) :
    checkPubKeyEncoding f sv pk = .ok () := by
  have h2 := compressed_is_key pk h
  unfold checkPubKeyEncoding
  cases f.strictenc <;> cases f.witnessPubkeytype <;> simp [h, h2, bind, Except.bind, pure, Except.pure]

theorem checkECDSA_ok (e : Env) (sig pk sc d : Bytes) (ht : UInt8) (hl : sig.getLast? = some ht) (hpk : pk ≠ [])
    (hd : (if e.sv == .witnessV0 then e.O.sigHashWitV0 sc ht.toNat else e.O.sigHashLegacy sc ht.toNat) = some d)
    (hv : e.O.ecdsaVerify pk sig d = some true) :
    checkECDSASignature e sig pk sc = .ok true := by
  have : pk.isEmpty = false := by cases pk <;> simp_all
  unfold checkECDSASignature
  simp only [hl, this, Bool.false_eq_true, ↓reduceIte]
  by_cases hw : (e.sv == SigVersion.witnessV0) = true
  · simp only [hw, ↓reduceIte] at hd ⊢
    simp [hd, hv, ask, bind, Except.bind, pure, Except.pure]
  · simp only [hw, Bool.false_eq_true, ↓reduceIte] at hd ⊢
    simp [hd, hv, ask, bind, Except.bind, pure, Except.pure]

/-- OP_CHECKSIG under base / witness-v0 rules on a good signature -/
theorem execOpcode_checksig (e : Env) (st : State) (sig pk d : Bytes) (ht : UInt8) (r : List Bytes) (after : Bytes) (pos : Nat)
    (hsv : e.sv = .base ∨ e.sv = .witnessV0)
    (hs : st.stack = pk :: sig :: r)
    (hfd : e.sv = .base → findAndDelete st.code (pushEncoding sig) = (st.code, 0))
    (hv : isValidSignatureEncoding sig = true) (hlow : derS sig ≤ secpHalfOrder)
    (hht : isDefinedHashtypeSignature sig = true) (hpk : isCompressedPubKey pk = true)
    (hl : sig.getLast? = some ht)
    (hd : (if e.sv == .witnessV0 then e.O.sigHashWitV0 st.code ht.toNat else e.O.sigHashLegacy st.code ht.toNat) = some d)
    (hver : e.O.ecdsaVerify pk sig d = some true) :
    execOpcode e st ⟨0xac, [], after⟩ true pos = .ok { st with stack := vchTrue :: r } := by
  have hpkne : pk ≠ [] := by intro h; subst h; simp [isCompressedPubKey] at hpk
  have h1 := checkSignatureEncoding_ok e.f sig hv hlow hht
  have h2 := checkPubKeyEncoding_ok e.f e.sv pk hpk
  have h3 := checkECDSA_ok e sig pk st.code d ht hl hpkne hd hver
  have hpre : evalChecksigPreTapscript e st sig pk = .ok true := by
    unfold evalChecksigPreTapscript
    rcases hsv with h | h
    · have hb : (e.sv == SigVersion.base) = true := by simp [h]
      simp [hb, hfd h, h1, h2, h3, bind, Except.bind, pure, Except.pure]
    · have hb : (e.sv == SigVersion.base) = false := by simp [h]
      simp [hb, h1, h2, h3, bind, Except.bind, pure, Except.pure]
  have hev : evalChecksig e st sig pk = .ok (true, st) := by
    unfold evalChecksig
    rcases hsv with h | h <;> simp [h, hpre, bind, Except.bind, pure, Except.pure]
  simp [execOpcode, isShuffle, isUnaryNum, isBinaryNum, opChecksig, hs, hev, bind, Except.bind, pure, Except.pure, ofBool]


/-! ### the P2PKH-shaped script `DUP HASH160 <h> EQUALVERIFY CHECKSIG` -/

def pkhScript (h : Bytes) : Bytes := 0x76 :: 0xa9 :: 20 :: (h ++ [0x88, 0xac])

theorem pkhScript_length (h : Bytes) (hl : h.length = 20) : (pkhScript h).length = 25 := by
  simp [pkhScript, hl]

theorem parse_pkh (h : Bytes) (hl : h.length = 20) :
    parse (pkhScript h) =
      ([⟨0x76, [], 0xa9 :: 20 :: (h ++ [0x88, 0xac])⟩, ⟨0xa9, [], 20 :: (h ++ [0x88, 0xac])⟩,
        ⟨20, h, [0x88, 0xac]⟩, ⟨0x88, [], [0xac]⟩, ⟨0xac, [], []⟩], false) := by
  have e20 : (20 : UInt8) = UInt8.ofNat h.length := by rw [hl]; rfl
  have p3 : parseOne (20 :: (h ++ [0x88, 0xac])) = some ⟨20, h, [0x88, 0xac]⟩ := by
    have := parseOne_direct h [0x88, 0xac] (by omega)
    rw [hl] at this
    exact this
  unfold parse
  rw [pkhScript_length h hl]
  unfold pkhScript
  rw [parseAux_step 24 _ ⟨0x76, [], 0xa9 :: 20 :: (h ++ [0x88, 0xac])⟩ (by simp) (by simp [parseOne])]
  simp only []
  rw [parseAux_step 23 _ ⟨0xa9, [], 20 :: (h ++ [0x88, 0xac])⟩ (by simp) (by simp [parseOne])]
  simp only []
  rw [parseAux_step 22 _ ⟨20, h, [0x88, 0xac]⟩ (by simp) p3]
  simp only []
  rw [parseAux_step 21 _ ⟨0x88, [], [0xac]⟩ (by simp) (by simp [parseOne])]
  simp only []
  rw [parseAux_step 20 _ ⟨0xac, [], []⟩ (by simp) (by simp [parseOne])]
  simp only [parseAux_nil]


theorem valid_len (s : Bytes) (h : isValidSignatureEncoding s = true) : 9 ≤ s.length ∧ s.length ≤ 73 := by
  unfold isValidSignatureEncoding at h
  simp only [Bool.and_eq_true, decide_eq_true_eq] at h
  exact ⟨h.1.1.1.1, h.1.1.1.2⟩

/-- the facts about a (signature ‖ hash type, public key) pair that make OP_CHECKSIG push true -/
structure GoodSig (O : Oracles) (sv : SigVersion) (code sigh pub : Bytes) : Prop where
  valid : isValidSignatureEncoding sigh = true
  low : derS sigh ≤ secpHalfOrder
  hashtype : isDefinedHashtypeSignature sigh = true
  compressed : isCompressedPubKey pub = true
  crypto : ∃ (ht : UInt8) (d : Bytes), sigh.getLast? = some ht ∧
    (if sv == .witnessV0 then O.sigHashWitV0 code ht.toNat else O.sigHashLegacy code ht.toNat) = some d ∧
    O.ecdsaVerify pub sigh d = some true

theorem evalScript_pkh (e : Env) (h pub sigh : Bytes) (w : Int)
    (hsv : e.sv = .base ∨ e.sv = .witnessV0) (hl : h.length = 20)
    (hh : e.O.hash160 pub = h)
    (hfd : e.sv = .base → findAndDelete (pkhScript h) (pushEncoding sigh) = (pkhScript h, 0))
    (hg : GoodSig e.O e.sv (pkhScript h) sigh pub) :
    evalScript e (pkhScript h) [pub, sigh] w = .ok [vchTrue] := by
  obtain ⟨hv, hlow, hht, hpk, ht, d, hlast, hd, hver⟩ := hg
  have hsz : ¬ ((pkhScript h).length > MAX_SCRIPT_SIZE) := by rw [pkhScript_length h hl]; decide
  unfold evalScript
  simp only [hsz, Bool.and_false, decide_false, Bool.false_eq_true, ↓reduceIte, parse_pkh h hl, execInstrs,
    bind, Except.bind, pure, Except.pure]
  -- DUP
  rw [execInstr_op e _ 0x76 _ 0 hsv (by decide) (by decide) (by decide) rfl (by simp [MAX_OPS_PER_SCRIPT]) _
    (execOpcode_dup e _ pub [sigh] _ 0 rfl) (by simp [MAX_STACK_SIZE])]
  simp only []
  -- HASH160
  rw [execInstr_op e _ 0xa9 _ 1 hsv (by decide) (by decide) (by decide) rfl (by simp [MAX_OPS_PER_SCRIPT]) _
    (execOpcode_hash160 e _ pub [pub, sigh] _ 1 rfl) (by simp [MAX_STACK_SIZE])]
  simp only []
  -- push h
  have hp := execInstr_push e { stack := [e.O.hash160 pub, pub, sigh], opCount := 2, code := pkhScript h, weightLeft := w }
    h [0x88, 0xac] 2 (by omega) (by omega) rfl (by simp)
  rw [hl] at hp
  rw [hp]
  simp only [push, hh]
  -- EQUALVERIFY
  rw [execInstr_op e _ 0x88 _ 3 hsv (by decide) (by decide) (by decide) rfl (by simp [MAX_OPS_PER_SCRIPT]) _
    (execOpcode_equalverify e _ h [pub, sigh] _ 3 rfl) (by simp [MAX_STACK_SIZE])]
  simp only []
  -- CHECKSIG
  rw [execInstr_op e _ 0xac _ 4 hsv (by decide) (by decide) (by decide) rfl (by simp [MAX_OPS_PER_SCRIPT]) _
    (execOpcode_checksig e _ sigh pub d ht [] _ 4 hsv rfl hfd hv hlow hht hpk hlast hd hver) (by simp [MAX_STACK_SIZE, vchTrue])]
  simp [Cond.empty]


/-! ### FindAndDelete finds nothing in the P2PKH script (unless the signature IS the 20-byte hash) -/

theorem pushEncoding_head (x : Bytes) : ∃ c t, pushEncoding x = c :: t ∧ c.toNat ≤ 0x4e ∧
    (c = 20 → x.length = 20 ∧ t = x) := by
  unfold pushEncoding
  by_cases h1 : x.length < 0x4c
  · refine ⟨UInt8.ofNat x.length, x, by simp [h1], ?_, ?_⟩
    · rw [ofNat_toNat_small _ (by omega)]; omega
    · intro hc
      have := congrArg UInt8.toNat hc
      rw [ofNat_toNat_small _ (by omega)] at this
      exact ⟨this, rfl⟩
  · by_cases h2 : x.length ≤ 0xff
    · exact ⟨0x4c, UInt8.ofNat x.length :: x, by simp [h1, h2], by decide, by intro h; exact absurd h (by decide)⟩
    · by_cases h3 : x.length ≤ 0xffff
      · exact ⟨0x4d, leBytes 2 x.length ++ x, by simp [h1, h2, h3], by decide, by intro h; exact absurd h (by decide)⟩
      · exact ⟨0x4e, leBytes 4 x.length ++ x, by simp [h1, h2, h3], by decide, by intro h; exact absurd h (by decide)⟩

theorem startsWith_head_ne (c c' : UInt8) (t t' : Bytes) (h : c ≠ c') : startsWith (c :: t) (c' :: t') = false := by
  simp [startsWith, h]

theorem skipMatches_none (b pc : Bytes) (f found : Nat) (h : startsWith pc b = false) :
    skipMatches b f pc found = (pc, found) := by
  cases f <;> simp [skipMatches, h]

theorem fad_step (b pc result : Bytes) (found f : Nat) (i : Instr) (hs : startsWith pc b = false)
    (hp : parseOne pc = some i) :
    findAndDeleteAux b (f + 1) pc result found =
      findAndDeleteAux b f i.after (result ++ pc.take (pc.length - i.after.length)) found := by
  simp only [findAndDeleteAux, skipMatches_none b pc _ found hs, hp]

theorem fad_end (b result : Bytes) (found f : Nat) (hs : startsWith [] b = false) :
    findAndDeleteAux b f [] result found = (result, found) := by
  cases f with
  | zero => simp [findAndDeleteAux]
  | succ f => simp [findAndDeleteAux, skipMatches_none b [] _ found hs, parseOne]

theorem findAndDelete_pkh (h x : Bytes) (hl : h.length = 20) (hx : x ≠ h) :
    findAndDelete (pkhScript h) (pushEncoding x) = (pkhScript h, 0) := by
  obtain ⟨c, t, hb, hc, h20⟩ := pushEncoding_head x
  have big : ∀ (d : UInt8) (r : Bytes), d.toNat > 0x4e → startsWith (d :: r) (pushEncoding x) = false := by
    intro d r hd
    rw [hb]
    apply startsWith_head_ne
    intro e; subst e; omega
  have mid : startsWith (20 :: (h ++ [0x88, 0xac])) (pushEncoding x) = false := by
    rw [hb]
    by_cases e : c = 20
    · obtain ⟨hxl, rfl⟩ := h20 e
      subst e
      simp only [startsWith, List.length_cons, hxl, List.take_succ_cons]
      have : (h ++ [0x88, 0xac]).take 20 = h := by rw [← hl]; simp
      rw [this]
      simp
      exact fun e => hx e.symm
    · exact startsWith_head_ne _ _ _ _ (fun e' => e e'.symm)
  have hne : (pushEncoding x).isEmpty = false := by rw [hb]; rfl
  have p3 : parseOne (20 :: (h ++ [0x88, 0xac])) = some ⟨20, h, [0x88, 0xac]⟩ := by
    have := parseOne_direct h [0x88, 0xac] (by omega)
    rw [hl] at this
    exact this
  have fin : startsWith [] (pushEncoding x) = false := by rw [hb]; simp [startsWith]
  unfold findAndDelete
  simp only [hne, Bool.false_eq_true, ↓reduceIte, pkhScript_length h hl]
  unfold pkhScript
  rw [fad_step _ _ _ _ _ ⟨0x76, [], 0xa9 :: 20 :: (h ++ [0x88, 0xac])⟩ (big 0x76 _ (by decide)) (by simp [parseOne])]
  simp only []
  rw [fad_step _ _ _ _ _ ⟨0xa9, [], 20 :: (h ++ [0x88, 0xac])⟩ (big 0xa9 _ (by decide)) (by simp [parseOne])]
  simp only []
  rw [fad_step _ _ _ _ _ ⟨20, h, [0x88, 0xac]⟩ mid p3]
  simp only []
  rw [fad_step _ _ _ _ _ ⟨0x88, [], [0xac]⟩ (big 0x88 _ (by decide)) (by simp [parseOne])]
  simp only []
  rw [fad_step _ _ _ _ _ ⟨0xac, [], []⟩ (big 0xac _ (by decide)) (by simp [parseOne])]
  simp only []
  rw [fad_end _ _ _ _ fin]
  simp


/-! ### scriptSigs: one or two direct pushes -/

/-- `buscr.WriteByte(byte(len)); buscr.Write(data)` — a direct push -/
def dpush (b : Bytes) : Bytes := UInt8.ofNat b.length :: b

theorem parse_push2 (a b : Bytes) (ha : a.length ≤ 75) (hb : b.length ≤ 75) :
    parse (dpush a ++ dpush b) = ([⟨a.length, a, dpush b⟩, ⟨b.length, b, []⟩], false) := by
  have hlen : (dpush a ++ dpush b).length = (a.length + b.length) + 1 + 1 := by simp [dpush]; omega
  have p1 : parseOne (dpush a ++ dpush b) = some ⟨a.length, a, dpush b⟩ := by
    have := parseOne_direct a (dpush b) ha
    simpa [dpush] using this
  have p2 : parseOne (dpush b) = some ⟨b.length, b, []⟩ := by
    have := parseOne_direct b [] hb
    simpa [dpush] using this
  unfold parse
  rw [hlen, parseAux_step _ _ _ (by simp [dpush]) p1]
  simp only []
  rw [parseAux_step _ _ _ (by simp [dpush]) p2]
  simp only [parseAux_nil]

theorem parse_push1 (a : Bytes) (ha : a.length ≤ 75) :
    parse (dpush a) = ([⟨a.length, a, []⟩], false) := by
  have hlen : (dpush a).length = a.length + 1 := by simp [dpush]
  have p1 : parseOne (dpush a) = some ⟨a.length, a, []⟩ := by
    have := parseOne_direct a [] ha
    simpa [dpush] using this
  unfold parse
  rw [hlen, parseAux_step _ _ _ (by simp [dpush]) p1]
  simp only [parseAux_nil]

theorem evalScript_push2 (e : Env) (a b : Bytes) (w : Int) (ha2 : 2 ≤ a.length) (ha : a.length ≤ 75)
    (hb2 : 2 ≤ b.length) (hb : b.length ≤ 75) :
    evalScript e (dpush a ++ dpush b) [] w = .ok [b, a] := by
  have hsz : ¬ ((dpush a ++ dpush b).length > MAX_SCRIPT_SIZE) := by simp [dpush, MAX_SCRIPT_SIZE]; omega
  unfold evalScript
  simp only [hsz, Bool.and_false, decide_false, Bool.false_eq_true, ↓reduceIte, parse_push2 a b ha hb, execInstrs,
    bind, Except.bind, pure, Except.pure]
  rw [execInstr_push e _ a _ 0 ha2 ha rfl (by simp)]
  simp only [push]
  rw [execInstr_push e _ b _ 1 hb2 hb rfl (by simp)]
  simp [push, Cond.empty]

theorem evalScript_push1 (e : Env) (a : Bytes) (w : Int) (ha2 : 2 ≤ a.length) (ha : a.length ≤ 75) :
    evalScript e (dpush a) [] w = .ok [a] := by
  have hsz : ¬ ((dpush a).length > MAX_SCRIPT_SIZE) := by simp [dpush, MAX_SCRIPT_SIZE]; omega
  unfold evalScript
  simp only [hsz, Bool.and_false, decide_false, Bool.false_eq_true, ↓reduceIte, parse_push1 a ha, execInstrs,
    bind, Except.bind, pure, Except.pure]
  rw [execInstr_push e _ a _ 0 ha2 ha rfl (by simp)]
  simp [push, Cond.empty]

theorem evalScript_nil (e : Env) (w : Int) : evalScript e [] [] w = .ok [] := by
  simp [evalScript, parse, parseAux, execInstrs, MAX_SCRIPT_SIZE, Cond.empty, bind, Except.bind, pure, Except.pure]

theorem isPushOnly_push2 (a b : Bytes) (ha : a.length ≤ 75) (hb : b.length ≤ 75) :
    isPushOnly (dpush a ++ dpush b) = true := by
  unfold isPushOnly
  rw [parse_push2 a b ha hb]
  simp; omega

theorem isPushOnly_push1 (a : Bytes) (ha : a.length ≤ 75) : isPushOnly (dpush a) = true := by
  unfold isPushOnly
  rw [parse_push1 a ha]
  simp; omega

theorem isPushOnly_nil : isPushOnly [] = true := by decide


/-! ### witness-program scriptPubKeys and the P2SH scriptPubKey -/

theorem execInstr_op0 (e : Env) (st : State) (after : Bytes) (pos : Nat) (hexec : st.cond.allTrue = true)
    (hsz : st.stack.length + 1 + st.alt.length ≤ 1000) :
    execInstr e st ⟨0, [], after⟩ pos = .ok (push st []) := by
  have c6 : ¬ ((push st []).stack.length + (push st []).alt.length > MAX_STACK_SIZE) := by
    simp [push, MAX_STACK_SIZE]; omega
  simp [execInstr, hexec, checkMinimalPush, isDisabledOpcode, MAX_SCRIPT_ELEMENT_SIZE, bind, Except.bind, pure, Except.pure]
  omega

theorem execInstr_op1 (e : Env) (st : State) (after : Bytes) (pos : Nat) (hexec : st.cond.allTrue = true)
    (hsz : st.stack.length + 1 + st.alt.length ≤ 1000) :
    execInstr e st ⟨0x51, [], after⟩ pos = .ok (push st [1]) := by
  have c6 : ¬ ((push st [1]).stack.length + (push st [1]).alt.length > MAX_STACK_SIZE) := by
    simp [push, MAX_STACK_SIZE]; omega
  have enc : ScriptNum.encode 1 = [1] := by decide
  simp [execInstr, execOpcode, hexec, isDisabledOpcode, MAX_SCRIPT_ELEMENT_SIZE, pushNum, enc, bind, Except.bind, pure, Except.pure]
  omega

def wpkhScript (h : Bytes) : Bytes := 0 :: 20 :: h
def trScript (q : Bytes) : Bytes := 0x51 :: 32 :: q
def shScript (sh : Bytes) : Bytes := 0xa9 :: 20 :: (sh ++ [0x87])

theorem evalScript_wpkh (e : Env) (h : Bytes) (w : Int) (hl : h.length = 20) :
    evalScript e (wpkhScript h) [] w = .ok [h, []] := by
  have hsz : ¬ ((wpkhScript h).length > MAX_SCRIPT_SIZE) := by simp [wpkhScript, hl, MAX_SCRIPT_SIZE]
  have p2 : parseOne (20 :: h) = some ⟨20, h, []⟩ := by
    have := parseOne_direct h [] (by omega)
    rw [hl] at this; simpa using this
  have hp : parse (wpkhScript h) = ([⟨0, [], 20 :: h⟩, ⟨20, h, []⟩], false) := by
    unfold parse
    have : (wpkhScript h).length = 20 + 1 + 1 := by simp [wpkhScript, hl]
    rw [this]; unfold wpkhScript
    rw [parseAux_step _ _ ⟨0, [], 20 :: h⟩ (by simp) (by simp [parseOne])]
    simp only []
    rw [parseAux_step _ _ _ (by simp) p2]
    simp only [parseAux_nil]
  unfold evalScript
  simp only [hsz, Bool.and_false, decide_false, Bool.false_eq_true, ↓reduceIte, hp, execInstrs,
    bind, Except.bind, pure, Except.pure]
  rw [execInstr_op0 e _ _ 0 rfl (by simp)]
  simp only [push]
  have hpush := execInstr_push e { stack := [[]], code := wpkhScript h, weightLeft := w } h [] 1 (by omega) (by omega) rfl (by simp)
  rw [hl] at hpush
  rw [hpush]
  simp [push, Cond.empty]

theorem evalScript_tr (e : Env) (q : Bytes) (w : Int) (hl : q.length = 32) :
    evalScript e (trScript q) [] w = .ok [q, [1]] := by
  have hsz : ¬ ((trScript q).length > MAX_SCRIPT_SIZE) := by simp [trScript, hl, MAX_SCRIPT_SIZE]
  have p2 : parseOne (32 :: q) = some ⟨32, q, []⟩ := by
    have := parseOne_direct q [] (by omega)
    rw [hl] at this; simpa using this
  have hp : parse (trScript q) = ([⟨0x51, [], 32 :: q⟩, ⟨32, q, []⟩], false) := by
    unfold parse
    have : (trScript q).length = 32 + 1 + 1 := by simp [trScript, hl]
    rw [this]; unfold trScript
    rw [parseAux_step _ _ ⟨0x51, [], 32 :: q⟩ (by simp) (by simp [parseOne])]
    simp only []
    rw [parseAux_step _ _ _ (by simp) p2]
    simp only [parseAux_nil]
  unfold evalScript
  simp only [hsz, Bool.and_false, decide_false, Bool.false_eq_true, ↓reduceIte, hp, execInstrs,
    bind, Except.bind, pure, Except.pure]
  rw [execInstr_op1 e _ _ 0 rfl (by simp)]
  simp only [push]
  have hpush := execInstr_push e { stack := [[1]], code := trScript q, weightLeft := w } q [] 1 (by omega) (by omega) rfl (by simp)
  rw [hl] at hpush
  rw [hpush]
  simp [push, Cond.empty]

theorem evalScript_sh (e : Env) (sh redeem : Bytes) (rest : List Bytes) (w : Int) (hsv : e.sv = .base) (hl : sh.length = 20)
    (hh : e.O.hash160 redeem = sh) (hr : rest.length ≤ 100) :
    evalScript e (shScript sh) (redeem :: rest) w = .ok (vchTrue :: rest) := by
  have hsz : ¬ ((shScript sh).length > MAX_SCRIPT_SIZE) := by simp [shScript, hl, MAX_SCRIPT_SIZE]
  have p2 : parseOne (20 :: (sh ++ [0x87])) = some ⟨20, sh, [0x87]⟩ := by
    have := parseOne_direct sh [0x87] (by omega)
    rw [hl] at this; simpa using this
  have hp : parse (shScript sh) = ([⟨0xa9, [], 20 :: (sh ++ [0x87])⟩, ⟨20, sh, [0x87]⟩, ⟨0x87, [], []⟩], false) := by
    unfold parse
    have : (shScript sh).length = 20 + 1 + 1 + 1 := by simp [shScript, hl]
    rw [this]; unfold shScript
    rw [parseAux_step _ _ ⟨0xa9, [], 20 :: (sh ++ [0x87])⟩ (by simp) (by simp [parseOne])]
    simp only []
    rw [parseAux_step _ _ _ (by simp) p2]
    simp only []
    rw [parseAux_step _ _ ⟨0x87, [], []⟩ (by simp) (by simp [parseOne])]
    simp only [parseAux_nil]
  unfold evalScript
  simp only [hsz, Bool.and_false, decide_false, Bool.false_eq_true, ↓reduceIte, hp, execInstrs,
    bind, Except.bind, pure, Except.pure]
  rw [execInstr_op e _ 0xa9 _ 0 (Or.inl hsv) (by decide) (by decide) (by decide) rfl (by simp [MAX_OPS_PER_SCRIPT]) _
    (execOpcode_hash160 e _ redeem rest _ 0 rfl) (by simp [MAX_STACK_SIZE]; omega)]
  simp only []
  have hpush := execInstr_push e { stack := e.O.hash160 redeem :: rest, opCount := 1, code := shScript sh, weightLeft := w }
    sh [0x87] 1 (by omega) (by omega) rfl (by simp; omega)
  rw [hl] at hpush
  rw [hpush]
  simp only [push, hh]
  rw [execInstr_op e _ 0x87 _ 2 (Or.inl hsv) (by decide) (by decide) (by decide) rfl (by simp [MAX_OPS_PER_SCRIPT]) _
    (execOpcode_equal e _ sh rest _ 2 rfl) (by simp [MAX_STACK_SIZE, vchTrue]; omega)]
  simp [Cond.empty]


/-! ### recognisers on the four templates -/

theorem witnessProgram_pkh (h : Bytes) : witnessProgram? (pkhScript h) = none := by
  simp [witnessProgram?, pkhScript]

theorem witnessProgram_sh (sh : Bytes) : witnessProgram? (shScript sh) = none := by
  simp [witnessProgram?, shScript]

theorem witnessProgram_wpkh (h : Bytes) (hl : h.length = 20) : witnessProgram? (wpkhScript h) = some (0, h) := by
  simp [witnessProgram?, wpkhScript, hl]

theorem witnessProgram_tr (q : Bytes) (hl : q.length = 32) : witnessProgram? (trScript q) = some (1, q) := by
  simp [witnessProgram?, trScript, hl]

theorem isP2SH_pkh (h : Bytes) (hl : h.length = 20) : isPayToScriptHash (pkhScript h) = false := by
  simp [isPayToScriptHash, pkhScript, hl]

theorem isP2SH_wpkh (h : Bytes) (hl : h.length = 20) : isPayToScriptHash (wpkhScript h) = false := by
  simp [isPayToScriptHash, wpkhScript, hl]

theorem isP2SH_tr (q : Bytes) (hl : q.length = 32) : isPayToScriptHash (trScript q) = false := by
  simp [isPayToScriptHash, trScript, hl]

theorem isP2SH_sh (sh : Bytes) (hl : sh.length = 20) : isPayToScriptHash (shScript sh) = true := by
  have : (sh ++ [0x87]).drop 20 = [0x87] := by rw [← hl]; simp
  simp [isPayToScriptHash, shScript, hl, this]

theorem castToBool_true : castToBool vchTrue = true := by decide

/-! ### P2PKH -/

/-- A P2PKH output `DUP HASH160 <h> EQUALVERIFY CHECKSIG` is spent, under EVERY consistent flag set (consensus and
    all standardness flags), by scriptSig = <sig‖ht> <pub> and an empty witness, when HASH160(pub) = h, the
    signature is strict DER / low S / defined hash type, the key compressed, the signature differs from the hash
    itself (FindAndDelete) and the ECDSA check on the LEGACY digest of the scriptPubKey succeeds. -/
theorem verifyScript_p2pkh (O : Oracles) (tx : TxCtx) (f : Flags) (q : Quirks) (h sigh pub : Bytes)
    (hf : FlagsOk f) (hl : h.length = 20)
    (hss : tx.sigScript = dpush sigh ++ dpush pub) (hw : tx.witness = [])
    (hp2 : 2 ≤ pub.length) (hp75 : pub.length ≤ 75)
    (hh : O.hash160 pub = h) (hne : sigh ≠ h)
    (hg : GoodSig O .base (pkhScript h) sigh pub) :
    verifyScript O tx (pkhScript h) f q = .ok () := by
  obtain ⟨hs9, hs73⟩ := valid_len sigh hg.valid
  have hs2 : 2 ≤ sigh.length := by omega
  have hs75 : sigh.length ≤ 75 := by omega
  have e1 := evalScript_push2 ⟨O, tx, f, .base, q, [], none⟩ sigh pub 0 hs2 hs75 hp2 hp75
  have e2 := evalScript_pkh ⟨O, tx, f, .base, q, [], none⟩ h pub sigh 0 (Or.inl rfl) hl hh
    (fun _ => findAndDelete_pkh h sigh hl hne) hg
  have hpo := isPushOnly_push2 sigh pub hs75 hp75
  unfold verifyScript
  simp only [hss, hpo, e1, e2, hw, witnessStep, witnessProgram_pkh, isP2SH_pkh h hl, castToBool_true,
    bind, Except.bind, pure, Except.pure]
  cases f.sigpushonly <;> cases f.witness <;> cases f.cleanstack <;> cases f.p2sh <;> simp [vchTrue]


/-! ### witness v0 key hash, taproot key path -/

theorem pkh_of_pushEncoding (h : Bytes) (hl : h.length = 20) :
    [0x76, 0xa9] ++ pushEncoding h ++ [0x88, 0xac] = pkhScript h := by
  simp [pushEncoding, hl, pkhScript]

theorem verifyWP_v0_keyhash (O : Oracles) (tx : TxCtx) (f : Flags) (q : Quirks) (h sigh pub : Bytes) (isP2sh : Bool)
    (hl : h.length = 20) (hs : sigh.length ≤ 520) (hp : pub.length ≤ 520) (hh : O.hash160 pub = h)
    (hg : GoodSig O .witnessV0 (pkhScript h) sigh pub) :
    verifyWitnessProgram O tx f q [sigh, pub] 0 h isP2sh = .ok () := by
  have e2 := evalScript_pkh ⟨O, tx, f, .witnessV0, q, [], none⟩ h pub sigh 0 (Or.inr rfl) hl hh
    (fun h => by cases h) hg
  have c1 : ¬ (sigh.length > MAX_SCRIPT_ELEMENT_SIZE) := by unfold MAX_SCRIPT_ELEMENT_SIZE; omega
  have c2 : ¬ (pub.length > MAX_SCRIPT_ELEMENT_SIZE) := by unfold MAX_SCRIPT_ELEMENT_SIZE; omega
  unfold verifyWitnessProgram
  simp only [hl, pkh_of_pushEncoding h hl, executeWitnessScript, e2, castToBool_true, vchTrue,
    bind, Except.bind, pure, Except.pure]
  simp [c1, c2, e2, vchTrue, castToBool_true]
  decide

theorem verifyWP_taproot_key (O : Oracles) (tx : TxCtx) (f : Flags) (qk : Quirks) (sig prog d : Bytes)
    (hl : prog.length = 32) (hs : sig.length = 64)
    (hd : O.sigHashTap none [] 0 0 false = some d) (hv : O.schnorrVerify prog sig d = some true) :
    verifyWitnessProgram O tx f qk [sig] 1 prog false = .ok () := by
  have hdef : tapHashTypeDefined tx 0 = true := by simp [tapHashTypeDefined]
  have ht : sig.take 64 = sig := by rw [← hs]; simp
  unfold verifyWitnessProgram
  cases hf : f.taproot
  · simp [hl, bind, Except.bind, pure, Except.pure]
  · have hb : (SigVersion.taproot == SigVersion.tapscript) = false := by decide
    simp [hl, hs, hdef, ht, checkSchnorrSignature, ask, bind, Except.bind, pure, Except.pure]
    rw [hb, hd]
    simp [hv]


/-! ### P2WPKH, P2SH-P2WPKH, P2TR key path -/

/-- A P2WPKH output `0 <h>` is spent, under every consistent flag set, by an empty scriptSig and the witness
    [sig‖ht, pub], when HASH160(pub) = h, h is not "false" as a stack element (Core evaluates the scriptPubKey
    first and requires a true top), and the ECDSA check on the BIP143 digest with script code
    `DUP HASH160 <h> EQUALVERIFY CHECKSIG` succeeds. -/
theorem verifyScript_p2wpkh (O : Oracles) (tx : TxCtx) (f : Flags) (q : Quirks) (h sigh pub : Bytes)
    (hf : FlagsOk f) (hl : h.length = 20) (hss : tx.sigScript = []) (hw : tx.witness = [sigh, pub])
    (hp : pub.length ≤ 520) (hh : O.hash160 pub = h) (htrue : castToBool h = true)
    (hg : GoodSig O .witnessV0 (pkhScript h) sigh pub) :
    verifyScript O tx (wpkhScript h) f q = .ok () := by
  have hs : sigh.length ≤ 520 := by have := (valid_len sigh hg.valid).2; omega
  have e1 := evalScript_nil ⟨O, tx, f, .base, q, [], none⟩ 0
  have e2 := evalScript_wpkh ⟨O, tx, f, .base, q, [], none⟩ h 0 hl
  have e3 := verifyWP_v0_keyhash O tx f q h sigh pub false hl hs hp hh hg
  obtain ⟨f1, f2, f3⟩ := hf
  unfold verifyScript
  simp only [hss, isPushOnly_nil, e1, e2, hw, htrue, witnessStep, witnessProgram_wpkh h hl, isP2SH_wpkh h hl, e3,
    bind, Except.bind, pure, Except.pure]
  cases hwf : f.witness <;> cases hc : f.cleanstack <;> cases hp2 : f.sigpushonly <;> simp_all

/-- A P2TR output `1 <q>` is spent by the key path, under every consistent flag set, by an empty scriptSig and
    the witness [sig] with a 64-byte signature (SIGHASH_DEFAULT) that BIP340-verifies under q for the BIP341
    key-path digest (no annex). -/
theorem verifyScript_p2tr (O : Oracles) (tx : TxCtx) (f : Flags) (qk : Quirks) (prog sig d : Bytes)
    (hf : FlagsOk f) (hl : prog.length = 32) (hss : tx.sigScript = []) (hw : tx.witness = [sig])
    (hs : sig.length = 64) (htrue : castToBool prog = true)
    (hd : O.sigHashTap none [] 0 0 false = some d) (hv : O.schnorrVerify prog sig d = some true) :
    verifyScript O tx (trScript prog) f qk = .ok () := by
  have e1 := evalScript_nil ⟨O, tx, f, .base, qk, [], none⟩ 0
  have e2 := evalScript_tr ⟨O, tx, f, .base, qk, [], none⟩ prog 0 hl
  have e3 := verifyWP_taproot_key O tx f qk sig prog d hl hs hd hv
  obtain ⟨f1, f2, f3⟩ := hf
  unfold verifyScript
  simp only [hss, isPushOnly_nil, e1, e2, hw, htrue, witnessStep, witnessProgram_tr prog hl, isP2SH_tr prog hl, e3,
    bind, Except.bind, pure, Except.pure]
  cases hwf : f.witness <;> cases hc : f.cleanstack <;> cases hp2 : f.sigpushonly <;> simp_all

/-- A P2SH output `HASH160 <sh> EQUAL` whose redeem script is the P2WPKH program `0 <h>` is spent, under every
    consistent flag set, by scriptSig = <redeem> (exactly one push) and the witness [sig‖ht, pub]. -/
theorem verifyScript_p2sh_p2wpkh (O : Oracles) (tx : TxCtx) (f : Flags) (q : Quirks) (sh h sigh pub : Bytes)
    (hf : FlagsOk f) (hl : h.length = 20) (hshl : sh.length = 20)
    (hss : tx.sigScript = dpush (wpkhScript h)) (hw : tx.witness = [sigh, pub])
    (hp : pub.length ≤ 520) (hh : O.hash160 pub = h) (hsh : O.hash160 (wpkhScript h) = sh)
    (htrue : castToBool h = true)
    (hg : GoodSig O .witnessV0 (pkhScript h) sigh pub) :
    verifyScript O tx (shScript sh) f q = .ok () := by
  have hs : sigh.length ≤ 520 := by have := (valid_len sigh hg.valid).2; omega
  have hrl : (wpkhScript h).length = 22 := by simp [wpkhScript, hl]
  have e1 := evalScript_push1 ⟨O, tx, f, .base, q, [], none⟩ (wpkhScript h) 0 (by omega) (by omega)
  have e2 := evalScript_sh ⟨O, tx, f, .base, q, [], none⟩ sh (wpkhScript h) [] 0 rfl hshl hsh (by simp)
  have e3 := evalScript_wpkh ⟨O, tx, f, .base, q, [], none⟩ h 0 hl
  have e4 := verifyWP_v0_keyhash O tx f q h sigh pub true hl hs hp hh hg
  have hpo := isPushOnly_push1 (wpkhScript h) (by omega)
  have hpe : pushEncoding (wpkhScript h) = dpush (wpkhScript h) := by simp [pushEncoding, dpush, hrl]
  obtain ⟨f1, f2, f3⟩ := hf
  unfold verifyScript
  simp only [hss, hpo, e1, e2, e3, hw, htrue, witnessStep, witnessProgram_sh, witnessProgram_wpkh h hl, isP2SH_sh sh hshl,
    e4, hpe, castToBool_true, bind, Except.bind, pure, Except.pure]
  cases hwf : f.witness <;> cases hc : f.cleanstack <;> cases hp2 : f.sigpushonly <;> cases hps : f.p2sh <;> simp_all

end GocoinV.Proofs.C13S
