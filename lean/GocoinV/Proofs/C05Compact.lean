/-
  Proofs.C05Compact — helper lemmas for C05: byte length of a number, GetCompact over Nat, the compact round trip.
-/
import GocoinV.Model.Target
open GocoinV GocoinV.Target
namespace GocoinV.Proofs.C05

theorem byteLenAux_fuel (f1 : Nat) : ∀ (f2 n : Nat), n ≤ f1 → n ≤ f2 → byteLenAux f1 n = byteLenAux f2 n := by
  induction f1 with
  | zero =>
    intro f2 n h1 _
    have : n = 0 := by omega
    subst this
    cases f2 <;> simp [byteLenAux]
  | succ f1 ih =>
    intro f2 n h1 h2
    by_cases hn : n = 0
    · subst hn; cases f2 <;> simp [byteLenAux]
    · cases f2 with
      | zero => omega
      | succ f2 =>
        simp only [byteLenAux, hn, ↓reduceIte]
        rw [ih f2 (n / 256) (by omega) (by omega)]

theorem byteLen_zero : byteLen 0 = 0 := rfl

theorem byteLen_pos (n : Nat) (h : 0 < n) : byteLen n = 1 + byteLen (n / 256) := by
  unfold byteLen
  cases n with
  | zero => omega
  | succ k =>
    simp only [byteLenAux, Nat.succ_ne_zero, ↓reduceIte]
    rw [byteLenAux_fuel k ((k+1)/256) ((k+1)/256) (by omega) (Nat.le_refl _)]

theorem byteLen_eq (k : Nat) : ∀ n, 256 ^ k ≤ n → n < 256 ^ (k + 1) → byteLen n = k + 1 := by
  induction k with
  | zero =>
    intro n h1 h2
    rw [byteLen_pos n (by simp at h1; omega)]
    have : n / 256 = 0 := by simp at h2; omega
    rw [this, byteLen_zero]
  | succ k ih =>
    intro n h1 h2
    have hpos : 0 < n := Nat.lt_of_lt_of_le (Nat.pow_pos (by decide)) h1
    rw [byteLen_pos n hpos]
    have a : 256 ^ k ≤ n / 256 := by
      rw [Nat.le_div_iff_mul_le (by decide)]; rw [Nat.pow_succ] at h1; exact h1
    have b : n / 256 < 256 ^ (k + 1) := by
      rw [Nat.div_lt_iff_lt_mul (by decide)]; rw [Nat.pow_succ] at h2; exact h2
    rw [ih _ a b]; omega

/-- `GetCompact` on a non-negative number, over `Nat` only -/
def getCompactNat (n : Nat) : Nat :=
  let size := byteLen n
  let c0 : Nat := if size ≤ 3 then (n * 2^(8*(3-size))) % 2^32 else (n / 2^(8*(size-3))) % 2^32
  let hi := (c0 / 2^23) % 2 = 1
  let c1 := if hi then c0 / 2^8 else c0
  let size1 := if hi then size + 1 else size
  c1 ||| ((size1 * 2^24) % 2^32)

theorem toU32_natCast (a : Nat) : toU32 (a : Int) = a % 2^32 := by
  unfold toU32
  omega

theorem getCompact_natCast (n : Nat) : getCompact (n : Int) = getCompactNat n := by
  unfold getCompact getCompactNat
  simp only [Int.natAbs_natCast]
  have e1 : ∀ k : Nat, toU32 ((n : Int) * (2 ^ k : Int)) = (n * 2 ^ k) % 2^32 := by
    intro k; rw [← toU32_natCast]; congr 1
  have e2 : ∀ k : Nat, ((n : Int) / (2 ^ k : Int)) = ((n / 2 ^ k : Nat) : Int) := by intro k; push_cast; rfl
  by_cases hs : byteLen n ≤ 3
  · simp only [hs, ↓reduceIte, e1]
    have : ¬ ((n : Int) < 0) := by omega
    simp only [this, ↓reduceIte]
  · simp only [hs, ↓reduceIte]
    rw [e2, toU32_natCast]
    have : ¬ (((n / 2 ^ (8 * (byteLen n - 3)) : Nat) : Int) < 0) := Int.not_lt.mpr (Int.natCast_nonneg _)
    simp only [this, ↓reduceIte]

theorem or_shift (m s : Nat) (h : m < 2^24) : m ||| (s * 2^24) = m + s * 2^24 := by
  have := Nat.shiftLeft_add_eq_or_of_lt h s
  rw [Nat.shiftLeft_eq] at this
  rw [Nat.or_comm, ← this, Nat.add_comm]

theorem getCompactNat_of (n size mant : Nat) (hs : byteLen n = size) (hsz : size < 256)
    (hm : mant = if size ≤ 3 then n * 2^(8*(3-size)) else n / 2^(8*(size-3))) (hlt : mant < 2^23) :
    getCompactNat n = mant + size * 2^24 := by
  unfold getCompactNat
  simp only [hs]
  have hc0 : (if size ≤ 3 then (n * 2^(8*(3-size))) % 2^32 else (n / 2^(8*(size-3))) % 2^32) = mant := by
    rw [hm]; split <;> (rw [Nat.mod_eq_of_lt]; rw [hm] at hlt; simp_all; omega)
  rw [hc0]
  have h1 : ¬ (mant / 2^23 % 2 = 1) := by
    have : mant / 2^23 = 0 := Nat.div_eq_of_lt hlt
    omega
  simp only [h1, ↓reduceIte]
  have h2 : size * 2^24 % 2^32 = size * 2^24 := Nat.mod_eq_of_lt (by omega)
  rw [h2, or_shift _ _ (by omega)]

theorem getCompactNat_of_hi (n size mant : Nat) (hs : byteLen n = size) (hsz : size + 1 < 256)
    (hm : mant = if size ≤ 3 then n * 2^(8*(3-size)) else n / 2^(8*(size-3))) (hge : 2^23 ≤ mant) (hlt : mant < 2^24) :
    getCompactNat n = mant / 2^8 + (size + 1) * 2^24 := by
  unfold getCompactNat
  simp only [hs]
  have hc0 : (if size ≤ 3 then (n * 2^(8*(3-size))) % 2^32 else (n / 2^(8*(size-3))) % 2^32) = mant := by
    rw [hm]; split <;> (rw [Nat.mod_eq_of_lt]; rw [hm] at hlt; simp_all; omega)
  rw [hc0]
  have h1 : mant / 2^23 % 2 = 1 := by omega
  simp only [h1, ↓reduceIte]
  have h2 : (size + 1) * 2^24 % 2^32 = (size + 1) * 2^24 := Nat.mod_eq_of_lt (by omega)
  rw [h2, or_shift _ _ (by omega)]

theorem pow8 (k : Nat) : 2^(8*k) = 256^k := by rw [Nat.pow_mul]

theorem byteLen_mul_pow (m j k : Nat) (h1 : 256^j ≤ m) (h2 : m < 256^(j+1)) : byteLen (m * 256^k) = j + k + 1 := by
  apply byteLen_eq (j + k)
  · rw [Nat.pow_add]; exact Nat.mul_le_mul_right _ h1
  · calc m * 256^k < 256^(j+1) * 256^k := Nat.mul_lt_mul_of_pos_right h2 (Nat.pow_pos (by decide))
      _ = 256^(j+k+1) := by rw [← Nat.pow_add]; congr 1; omega

/-- the two symbolic cases: a mantissa `m` shifted left by `k+1` bytes -/
theorem getCompactNat_shift_big (m k : Nat) (h1 : 2^16 ≤ m) (h2 : m < 2^23) (hk : k + 4 < 256) :
    getCompactNat (m * 256^(k+1)) = m + (k + 4) * 2^24 := by
  have hbl : byteLen (m * 256^(k+1)) = k + 4 := by
    rw [byteLen_mul_pow m 2 (k+1) (by omega) (by omega)]; omega
  refine getCompactNat_of _ (k+4) m hbl hk ?_ h2
  have : ¬ (k + 4 ≤ 3) := by omega
  have e3 : k + 4 - 3 = k + 1 := by omega
  simp only [this, ↓reduceIte, e3, pow8]
  rw [Nat.mul_div_cancel _ (Nat.pow_pos (by decide))]

theorem getCompactNat_shift_small (m k : Nat) (h1 : 2^15 ≤ m) (h2 : m < 2^16) (hk : k + 5 < 256) :
    getCompactNat (m * 256^(k+2)) = m + (k + 5) * 2^24 := by
  have hbl : byteLen (m * 256^(k+2)) = k + 4 := by
    rw [byteLen_mul_pow m 1 (k+2) (by omega) (by omega)]; omega
  have hmant : m * 256 = (if k + 4 ≤ 3 then m * 256^(k+2) * 2^(8*(3-(k+4))) else m * 256^(k+2) / 2^(8*(k+4-3))) := by
    have : ¬ (k + 4 ≤ 3) := by omega
    have e3 : k + 4 - 3 = k + 1 := by omega
    simp only [this, ↓reduceIte, e3, pow8]
    have : m * 256^(k+2) = (m * 256) * 256^(k+1) := by
      rw [Nat.pow_succ 256 (k+1), Nat.mul_assoc, Nat.mul_comm (256^(k+1)) 256]
    rw [this, Nat.mul_div_cancel _ (Nat.pow_pos (by decide))]
  rw [getCompactNat_of_hi _ (k+4) (m * 256) hbl (by omega) hmant (by omega) (by omega)]
  omega

/-- `GetCompact(SetCompact(c)) = c` for every canonical `c`. -/
theorem compact_roundtrip_aux (c : Nat) (hc : Canonical c) : getCompact (setCompact c) = c := by
  obtain ⟨hlt, hsign, h0, h1, h16, h8⟩ := hc
  have hmod : c % 2^32 = c := Nat.mod_eq_of_lt hlt
  unfold setCompact
  simp only [hmod, hsign]
  have hnn : ¬ ((0:Nat) = 1) := by decide
  simp only [hnn, ↓reduceIte]
  rw [getCompact_natCast]
  by_cases hs0 : c / 2^24 = 0
  · have : c = 0 := by have := h0 hs0; omega
    subst this; decide
  have hm := h1 (by omega)
  have hmlt : c % 2^23 < 2^23 := Nat.mod_lt _ (by decide)
  have hsz : c / 2^24 < 256 := by omega
  have hc : c = c % 2^23 + (c / 2^24) * 2^24 := by omega
  generalize hsd : c / 2^24 = s at *
  generalize hmd : c % 2^23 = m at *
  rw [hc]
  by_cases hbig : 2^16 ≤ m
  · -- the mantissa has three significant bytes
    by_cases hs3 : s ≤ 3
    · simp only [hs3, ↓reduceIte]
      have hcases : s = 1 ∨ s = 2 ∨ s = 3 := by omega
      rcases hcases with e | e | e
      · subst e; have := h16 rfl
        exact getCompactNat_of _ 1 m (byteLen_eq 0 _ (by simp; omega) (by simp; omega)) (by omega) (by simp; omega) hmlt
      · subst e; have := h8 rfl
        exact getCompactNat_of _ 2 m (byteLen_eq 1 _ (by simp; omega) (by simp; omega)) (by omega) (by simp; omega) hmlt
      · subst e
        exact getCompactNat_of _ 3 m (byteLen_eq 2 _ (by simp; omega) (by simp; omega)) (by omega) (by simp) hmlt
    · simp only [hs3, ↓reduceIte]
      obtain ⟨k, rfl⟩ : ∃ k, s = k + 4 := ⟨s - 4, by omega⟩
      have e3 : k + 4 - 3 = k + 1 := by omega
      rw [e3, pow8]
      exact getCompactNat_shift_big m k hbig hmlt hsz
  · -- 0x8000 ≤ m < 0x10000: the number has one byte less and GetCompact renormalises
    have hcases : s = 1 ∨ s = 2 ∨ s = 3 ∨ s = 4 ∨ 5 ≤ s := by omega
    rcases hcases with e | e | e | e | e
    · subst e; have := h16 rfl; omega
    · subst e; have := h8 rfl
      simp only [show (2:Nat) ≤ 3 by decide, ↓reduceIte]
      rw [getCompactNat_of_hi _ 1 (m * 256) (byteLen_eq 0 _ (by simp; omega) (by simp; omega)) (by omega) (by simp; omega) (by omega) (by omega)]
      omega
    · subst e
      simp only [show (3:Nat) ≤ 3 by decide, ↓reduceIte]
      rw [getCompactNat_of_hi _ 2 (m * 256) (byteLen_eq 1 _ (by simp; omega) (by simp; omega)) (by omega) (by simp) (by omega) (by omega)]
      omega
    · subst e
      simp only [show ¬ ((4:Nat) ≤ 3) by decide, ↓reduceIte]
      rw [getCompactNat_of_hi _ 3 (m * 256) (byteLen_eq 2 _ (by simp; omega) (by simp; omega)) (by omega) (by simp) (by omega) (by omega)]
      omega
    · have hs3 : ¬ (s ≤ 3) := by omega
      simp only [hs3, ↓reduceIte]
      obtain ⟨k, rfl⟩ : ∃ k, s = k + 5 := ⟨s - 5, by omega⟩
      have e3 : k + 5 - 3 = k + 2 := by omega
      rw [e3, pow8]
      exact getCompactNat_shift_small m k hm (by omega) hsz
theorem byteLen_bounds (t : Nat) : 0 < t → 1 ≤ byteLen t ∧ 256^(byteLen t - 1) ≤ t ∧ t < 256^(byteLen t) := by
  induction t using Nat.strongRecOn with
  | _ t ih =>
    intro ht
    rw [byteLen_pos t ht]
    by_cases h0 : t / 256 = 0
    · rw [h0, byteLen_zero]; simp; omega
    · have := ih (t / 256) (by omega) (by omega)
      obtain ⟨b1, b2, b3⟩ := this
      generalize byteLen (t / 256) = b at *
      obtain ⟨j, rfl⟩ : ∃ j, b = j + 1 := ⟨b - 1, by omega⟩
      refine ⟨by omega, ?_, ?_⟩
      · have e : 1 + (j + 1) - 1 = j + 1 := by omega
        rw [e, Nat.pow_succ]
        simp only [Nat.add_sub_cancel] at b2
        exact (Nat.le_div_iff_mul_le (by decide)).mp b2
      · have e : 1 + (j + 1) = (j + 1) + 1 := by omega
        rw [e, Nat.pow_succ 256 (j+1)]
        exact (Nat.div_lt_iff_lt_mul (by decide)).mp b3

theorem byteLen_le_32 (t : Nat) (ht : 0 < t) (hlt : t < 2^256) : byteLen t ≤ 32 := by
  obtain ⟨b1, b2, _⟩ := byteLen_bounds t ht
  have h : 256^(byteLen t - 1) < 256^32 := Nat.lt_of_le_of_lt b2 (by simpa using hlt)
  have := (Nat.pow_lt_pow_iff_right (by decide : 1 < 256)).mp h
  omega

/-- the mantissa GetCompact extracts before normalising the sign bit -/
def rawMant (t size : Nat) : Nat := if size ≤ 3 then t * 2^(8*(3-size)) else t / 2^(8*(size-3))

theorem rawMant_bounds (t : Nat) (ht : 0 < t) : 2^16 ≤ rawMant t (byteLen t) ∧ rawMant t (byteLen t) < 2^24 := by
  obtain ⟨b1, b2, b3⟩ := byteLen_bounds t ht
  unfold rawMant
  generalize byteLen t = s at *
  by_cases hs : s ≤ 3
  · simp only [hs, ↓reduceIte]
    have : s = 1 ∨ s = 2 ∨ s = 3 := by omega
    rcases this with e | e | e <;> subst e <;> simp at b2 b3 ⊢ <;> omega
  · simp only [hs, ↓reduceIte]
    obtain ⟨k, rfl⟩ : ∃ k, s = k + 4 := ⟨s - 4, by omega⟩
    have e3 : k + 4 - 3 = k + 1 := by omega
    have e1 : k + 4 - 1 = k + 3 := by omega
    rw [e3, pow8]; rw [e1] at b2
    constructor
    · rw [Nat.le_div_iff_mul_le (Nat.pow_pos (by decide))]
      calc 2^16 * 256^(k+1) = 256^(k+3) := by
              rw [show (2:Nat)^16 = 256^2 by decide, ← Nat.pow_add]; congr 1; omega
        _ ≤ t := b2
    · rw [Nat.div_lt_iff_lt_mul (Nat.pow_pos (by decide))]
      calc t < 256^(k+4) := b3
        _ = 2^24 * 256^(k+1) := by
              rw [show (2:Nat)^24 = 256^3 by decide, ← Nat.pow_add]; congr 1; omega

/-- GetCompact of a positive number below 2^256, in closed form -/
theorem getCompactNat_spec (t : Nat) (ht : 0 < t) (hlt : t < 2^256) :
    getCompactNat t = (if rawMant t (byteLen t) < 2^23 then rawMant t (byteLen t) + byteLen t * 2^24
                       else rawMant t (byteLen t) / 2^8 + (byteLen t + 1) * 2^24) := by
  have hb := rawMant_bounds t ht
  have h32 := byteLen_le_32 t ht hlt
  split
  · rename_i h
    exact getCompactNat_of t _ _ rfl (by omega) rfl h
  · rename_i h
    exact getCompactNat_of_hi t _ _ rfl (by omega) rfl (by omega) hb.2


theorem setCompact_of (m s : Nat) (hm : m < 2^23) (hs : s < 256) :
    setCompact (m + s * 2^24) = ((if s ≤ 3 then m / 2^(8*(3-s)) else m * 2^(8*(s-3)) : Nat) : Int) := by
  unfold setCompact
  have e0 : (m + s * 2^24) % 2^32 = m + s * 2^24 := Nat.mod_eq_of_lt (by omega)
  have e1 : (m + s * 2^24) / 2^24 = s := by omega
  have e2 : ¬ ((m + s * 2^24) / 2^23 % 2 = 1) := by omega
  have e3 : (m + s * 2^24) % 2^23 = m := by omega
  simp only [e0, e1, e2, e3, ↓reduceIte]

theorem not_edge_of (m s : Nat) (hm : m < 2^23) (hs : s ≤ 33) (h33 : s = 33 → m < 2^16) :
    m + s * 2^24 < 2^32 ∧ coreNegative (m + s * 2^24) = false ∧ coreOverflow (m + s * 2^24) = false := by
  refine ⟨by omega, ?_, ?_⟩
  · simp only [coreNegative]
    apply decide_eq_false
    rintro ⟨_, q⟩
    omega
  · simp only [coreOverflow]
    apply decide_eq_false
    rintro ⟨_, q⟩
    omega

/-- required bits are never an edge encoding: GetCompact of 0 < t < 2^256 is below 2^32, not negative and
    not overflowing in the reference client's reading -/
theorem getCompactNat_not_edge (t : Nat) (ht : 0 < t) (hlt : t < 2^256) :
    getCompactNat t < 2^32 ∧ coreNegative (getCompactNat t) = false ∧ coreOverflow (getCompactNat t) = false := by
  have hb := rawMant_bounds t ht
  have h32 := byteLen_le_32 t ht hlt
  rw [getCompactNat_spec t ht hlt]
  split
  · exact not_edge_of _ _ (by omega) (by omega) (by omega)
  · exact not_edge_of _ _ (by omega) (by omega) (by omega)

/-- SetCompact(GetCompact(t)) truncates: it is positive and never above t -/
theorem setCompact_getCompactNat_le (t : Nat) (ht : 0 < t) (hlt : t < 2^256) :
    0 < setCompact (getCompactNat t) ∧ setCompact (getCompactNat t) ≤ (t : Int) := by
  have hb := rawMant_bounds t ht
  have h32 := byteLen_le_32 t ht hlt
  obtain ⟨h1, b2, b3⟩ := byteLen_bounds t ht
  rw [getCompactNat_spec t ht hlt]
  unfold rawMant at *
  generalize byteLen t = s at *
  by_cases hs : s ≤ 3
  · simp only [hs, ↓reduceIte] at hb ⊢
    generalize hmant : t * 2 ^ (8 * (3 - s)) = mant at *
    have hcases : s = 1 ∨ s = 2 ∨ s = 3 := by omega
    split
    · rw [setCompact_of _ _ (by omega) (by omega)]
      rcases hcases with e | e | e <;> subst e <;> simp at hmant ⊢ <;> omega
    · rw [setCompact_of _ _ (by omega) (by omega)]
      rcases hcases with e | e | e <;> subst e <;> simp at hmant ⊢ <;> omega
  · simp only [hs, ↓reduceIte] at hb ⊢
    obtain ⟨k, rfl⟩ : ∃ k, s = k + 4 := ⟨s - 4, by omega⟩
    have e3 : k + 4 - 3 = k + 1 := by omega
    rw [e3, pow8] at hb ⊢
    have hP : 0 < 256^(k+1) := Nat.pow_pos (by decide)
    generalize hq : t / 256^(k+1) = q at *
    have hqt : q * 256^(k+1) ≤ t := by rw [← hq]; exact Nat.div_mul_le_self t _
    split
    · rw [setCompact_of _ _ (by omega) (by omega)]
      have : ¬ (k + 4 ≤ 3) := by omega
      simp only [this, ↓reduceIte, e3, pow8]
      constructor
      · have : 0 < q * 256^(k+1) := Nat.mul_pos (by omega) hP
        omega
      · exact_mod_cast hqt
    · rw [setCompact_of _ _ (by omega) (by omega)]
      have : ¬ (k + 4 + 1 ≤ 3) := by omega
      have e4 : k + 4 + 1 - 3 = k + 2 := by omega
      simp only [this, ↓reduceIte, e4, pow8]
      have hle : q / 2^8 * 256^(k+2) ≤ q * 256^(k+1) := by
        rw [Nat.pow_succ 256 (k+1), Nat.mul_comm (256^(k+1)) 256, ← Nat.mul_assoc]
        exact Nat.mul_le_mul_right _ (Nat.div_mul_le_self q 256)
      constructor
      · have : 0 < q / 2^8 * 256^(k+2) := Nat.mul_pos (by omega) (Nat.pow_pos (by decide))
        omega
      · have := Nat.le_trans hle hqt
        exact_mod_cast this

theorem setCompact_neg_of_coreNegative (c : Nat) (h : coreNegative c = true) : setCompact c < 0 := by
  unfold coreNegative at h
  unfold setCompact
  simp only [decide_eq_true_eq] at h
  obtain ⟨hw, hn⟩ := h
  simp only [hn, ↓reduceIte]
  by_cases hs : c % 2^32 / 2^24 ≤ 3
  · simp only [hs, ↓reduceIte] at hw ⊢
    generalize c % 2^32 % 2^23 / 2^(8 * (3 - c % 2^32 / 2^24)) = w at hw ⊢
    omega
  · simp only [hs, ↓reduceIte] at hw ⊢
    have : 0 < c % 2^32 % 2^23 * 2^(8 * (c % 2^32 / 2^24 - 3)) := Nat.mul_pos (by omega) (Nat.pow_pos (by decide))
    generalize c % 2^32 % 2^23 * 2^(8 * (c % 2^32 / 2^24 - 3)) = w at this ⊢
    omega

theorem getCompactNat_canonical (t : Nat) (ht : 0 < t) (hlt : t < 2^256) : Canonical (getCompactNat t) := by
  have hb := rawMant_bounds t ht
  have h32 := byteLen_le_32 t ht hlt
  have h1 := (byteLen_bounds t ht).1
  rw [getCompactNat_spec t ht hlt]
  have hm1 : byteLen t = 1 → rawMant t (byteLen t) = t * 2^16 := by intro e; rw [e]; simp [rawMant]
  have hm2 : byteLen t = 2 → rawMant t (byteLen t) = t * 2^8 := by intro e; rw [e]; simp [rawMant]
  generalize rawMant t (byteLen t) = mant at *
  generalize byteLen t = s at *
  unfold Canonical
  split
  · refine ⟨by omega, by omega, by omega, by omega, ?_, ?_⟩
    · intro e; have : s = 1 := by omega
      have := hm1 this; omega
    · intro e; have : s = 2 := by omega
      have := hm2 this; omega
  · refine ⟨by omega, by omega, by omega, by omega, ?_, ?_⟩
    · intro e; omega
    · intro e; have : s = 1 := by omega
      have := hm1 this; omega

/-- GetCompact over Int for a positive number below 2^256 -/
theorem getCompact_pos (t : Int) (h0 : 0 < t) (hlt : t < 2^256) :
    getCompact t = getCompactNat t.toNat ∧ 0 < t.toNat ∧ t.toNat < 2^256 ∧ (t.toNat : Int) = t := by
  have e : (t.toNat : Int) = t := Int.toNat_of_nonneg (by omega)
  refine ⟨by rw [← getCompact_natCast, e], by omega, ?_, e⟩
  have : ((t.toNat : Nat) : Int) < ((2^256 : Nat) : Int) := by rw [e]; exact_mod_cast hlt
  exact_mod_cast this

end GocoinV.Proofs.C05
