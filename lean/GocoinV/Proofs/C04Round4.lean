/-
  Proofs.C04Round4 — lemmas about the models added after the fourth round of seeded changes: the real pool's
  verification cache (Model/ConnectCache), ownership of record bytes in UndoBlockTxs (Model/ConnectOwn), the coinbase
  mark of a block object's transaction list (Model/ConnectEntry).
-/
import GocoinV.Model.ConnectCache
import GocoinV.Model.ConnectOwn
import GocoinV.Model.ConnectEntry
import GocoinV.Proofs.C04Config
namespace GocoinV.Proofs.C04
open GocoinV GocoinV.Connect

/-! ### the pool's cache -/

theorem cacheFind_mem (cache : List CacheEntry) (txid : Bytes) (e : CacheEntry) (h : cacheFind cache txid = some e) :
    e ∈ cache ∧ e.txid = txid := by
  unfold cacheFind at h
  refine ⟨List.mem_of_find?_eq_some h, ?_⟩
  have := List.find?_some h
  simpa using this

/-- with the witness comparison, a `true` answer names a pooled, non-local entry with exactly this wtxid -/
theorem cacheSays_true (cache : List CacheEntry) (txid wtxid : Bytes) (h : cacheSays ⟨true⟩ cache txid wtxid = true) :
    ∃ e ∈ cache, e.txid = txid ∧ e.state = .toSend ∧ e.localTx = false ∧ e.wtxid = wtxid := by
  unfold cacheSays at h
  cases hf : cacheFind cache txid with
  | none => rw [hf] at h; simp at h
  | some e =>
    rw [hf] at h
    obtain ⟨hm, ht⟩ := cacheFind_mem cache txid e hf
    simp only [↓reduceIte] at h
    cases hs : e.state with
    | toSend =>
      rw [hs] at h
      simp only [Bool.and_eq_true, Bool.not_eq_true', beq_iff_eq] at h
      exact ⟨e, hm, ht, hs, h.1, h.2⟩
    | replaced => rw [hs] at h; simp at h
    | rejectedOther => rw [hs] at h; simp at h

/-! ### ownership -/

theorem addBackOwn_live (junk : Junk) (db : DB) (r : Rec) : addBackOwn ⟨true⟩ junk db r = addBack db r := by
  unfold addBackOwn addBack
  cases aGet db (key8 r.txid) <;> simp

theorem foldl_addBackOwn_live (junk : Junk) (recs : List Rec) (db : DB) :
    recs.foldl (addBackOwn ⟨true⟩ junk) db = recs.foldl addBack db := by
  induction recs generalizing db with
  | nil => rfl
  | cons r rs ih => simp only [List.foldl_cons, addBackOwn_live, ih]

end GocoinV.Proofs.C04
