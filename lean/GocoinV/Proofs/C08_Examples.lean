/-
  Proofs.C08_Examples — concrete (kernel-checked) instances behind the non-vacuity examples of Props/C08:
  the generator in the limb representation of the embedded table (`gJ` = SetXY(pre_g[0])), 3·G (`g3J` =
  SetXY(pre_g[1])), −G, ∞; the two hypotheses of `ecmult_correct_partial` DISCHARGED at A = G:
    n·G = ∞            — C03's `generator_order` / `order_G` (kernel evaluation of the reference double-and-add),
    mul_lambda(G) = λ·G — `Secp.mul λ G = (β·Gx mod p, Gy)` by ONE kernel evaluation (256 doublings, ≤ 256 additions),
  hence `ECmult(G, na, ng) = na·G + ng·G` for EVERY integer na and every ng < 2^256, without hypotheses.
-/
import GocoinV.Proofs.C08_EcmultFull
import GocoinV.Model.GroupNum

namespace GocoinV.C08
open GocoinV.Gen GocoinV.Gen.Field5x52 GocoinV.Proofs.C03

/-- G as the Go code holds it: `XYZ.SetXY(&pre_g[0])` (limbs of the embedded table, Z = 1) -/
def gJ : XYZ := XYZ.ofXY (preGXY 0)
/-- 3·G: `XYZ.SetXY(&pre_g[1])` -/
def g3J : XYZ := XYZ.ofXY (preGXY 1)
/-- ∞ (Infinity flag set; the coordinates are whatever was there) -/
def infJ : XYZ := { gJ with inf := true }

theorem preGXY0_RpA : RpA (preGXY 0) Gc := by
  have h := preG_TabA 0 (by decide)
  rwa [show (2 * 0 + 1) • Gc = Gc from one_nsmul Gc] at h

theorem preGXY1_RpA : RpA (preGXY 1) (3 • Gc) := preG_TabA 1 (by decide)

theorem Rp.ofXY {b : XY} {B : CurvePt} (h : RpA b B) : Rp (XYZ.ofXY b) B := by
  obtain ⟨h1, h2⟩ := ofXY_ok b h.1
  exact ⟨h1, h2.trans h.2⟩

theorem gJ_Rp : Rp gJ Gc := Rp.ofXY preGXY0_RpA
theorem g3J_Rp : Rp g3J (3 • Gc) := Rp.ofXY preGXY1_RpA
theorem infJ_Rp : Rp infJ 0 :=
  ⟨⟨gJ_Rp.1.1, gJ_Rp.1.2.1, gJ_Rp.1.2.2.1, fun h => by simp [infJ] at h⟩, XYZ.toPoint_inf rfl⟩

theorem gJ_toPoint : gJ.toPoint = Secp.G := gJ_Rp.2
theorem gJ_onC : OnC gJ.toPoint := by rw [gJ_toPoint]; exact Gc.2
theorem gJ_mkPt : mkPt gJ.toPoint gJ_onC = Gc := Subtype.ext gJ_toPoint

/-- hypothesis 1 of `ecmult_correct_partial` at A = G: n·G = ∞ (C03 `order_G`, i.e. `generator_order`.1) -/
theorem gJ_order : ((CurveConsts.order : Nat) : Int) • mkPt gJ.toPoint gJ_onC = 0 := by
  rw [gJ_mkPt, natCast_zsmul]
  exact order_G

/-- the reference multiple λ·G is (β·Gx mod p, Gy): one kernel evaluation of the reference double-and-add -/
theorem mul_lambda_G :
    Secp.mul CurveConsts.lambda Secp.G = some (CurveConsts.beta * Secp.Gx % Secp.p, Secp.Gy) := by decide +kernel

/-- what `mul_lambda` makes of a finite point (x, y): (β·x mod p, y) -/
theorem mulLambda_toPoint {a : XYZ} (ha : a.ok) (hi : a.inf = false) {x y : Nat} (h : a.toPoint = some (x, y)) :
    (XYZ.mulLambda a).toPoint = some (CurveConsts.beta * x % Secp.p, y) := by
  obtain ⟨hx, -, -, -⟩ := ha
  have x' := (FeS.self hx).mul feBeta_S (by decide) (by decide)
  have e : (XYZ.mulLambda a).toPoint
      = ptF (((CurveConsts.beta : Nat) : F) * (a.x.z / a.z.z ^ 2)) (a.y.z / a.z.z ^ 3) := by
    rw [XYZ.toPoint_fin (by rw [mulLambda_inf]; exact hi), mulLambda_x, mulLambda_y, mulLambda_z, x'.2]
    congr 1; ring
  rw [XYZ.toPoint_fin hi] at h
  unfold ptF at h e
  simp only [Option.some.injEq, Prod.mk.injEq] at h
  rw [e, ZMod.val_mul, ZMod.val_natCast, h.1, h.2, secp_p_eq, Nat.mod_mul_mod]

/-- hypothesis 2 of `ecmult_correct_partial` at A = G: the point `mul_lambda` makes of G is λ·G -/
theorem gJ_lambda (A' : CurvePt) (h : Rp (XYZ.mulLambda gJ) A') :
    A' = ((CurveConsts.lambda : Nat) : Int) • mkPt gJ.toPoint gJ_onC := by
  rw [gJ_mkPt, natCast_zsmul]
  apply Subtype.ext
  rw [← h.2, ← mul_eq_nsmul, mulLambda_toPoint gJ_Rp.1 rfl gJ_toPoint]
  exact mul_lambda_G.symm

/-- `ECmult(G, na, ng) = na·G + ng·G` for EVERY integer na (0, n, above n, negative) and every ng < 2^256 — no
    hypothesis left: both consequences of #E = n that `ecmult_correct_partial` assumes are facts about G. -/
theorem ecmult_G (na : Int) (ng : Nat) (hng : ng < 2 ^ 256) :
    ∃ r, ecmult gJ na ng = some r ∧ Rp r (na • Gc + ng • Gc) := by
  have h := ecmult_mul gJ gJ_Rp.1 gJ_onC na ng hng gJ_order gJ_lambda
  rwa [gJ_mkPt] at h

/-! ### reference values used by the finite examples (each one kernel evaluation of the Nat reference law) -/

theorem ref_G_add_3G : Secp.add Secp.G (Secp.mul 3 Secp.G) = Secp.mul 4 Secp.G ∧ Secp.mul 4 Secp.G ≠ none ∧
    Secp.mul 3 Secp.G ≠ Secp.G := by decide +kernel
theorem ref_G_add_G : Secp.add Secp.G Secp.G = Secp.dbl Secp.G ∧ Secp.dbl Secp.G = Secp.mul 2 Secp.G ∧
    Secp.mul 2 Secp.G ≠ none := by decide +kernel
theorem ref_G_add_negG : Secp.add Secp.G (Secp.neg Secp.G) = none ∧ Secp.neg Secp.G ≠ Secp.G := by decide +kernel

theorem g3J_toPoint : g3J.toPoint = Secp.mul 3 Secp.G := by
  rw [g3J_Rp.2, ← mul_G]

/-- `Number.rsh_x` (the definition the oracle's `rshx` op runs against the real function): for EVERY integer, either
    sign, the returned word and the shifted receiver recompose the number, x = rest·2^bits + word, 0 ≤ word < 2^bits
    (two's-complement low bits and arithmetic shift = Euclidean division by 2^bits). -/
theorem rshX_spec (x : Int) (bits : Nat) :
    x = (rshX x bits).2 * 2 ^ bits + (rshX x bits).1 ∧ 0 ≤ (rshX x bits).1 ∧ (rshX x bits).1 < 2 ^ bits := by
  have hp : (0 : Int) < 2 ^ bits := by positivity
  unfold rshX
  simp only [Int.shiftRight_eq_div_pow]
  refine ⟨?_, Int.emod_nonneg _ (ne_of_gt hp), Int.emod_lt_of_pos _ hp⟩
  have := Int.emod_add_mul_ediv x (2 ^ bits)
  push_cast at this ⊢
  linarith [mul_comm (x / 2 ^ bits) ((2 : Int) ^ bits)]

/-- the model's `split` (= `Number.split` on non-negative numbers) recomposes: a = lo + hi·2^bits, lo < 2^bits -/
theorem split_spec (a bits : Nat) : a = (split a bits).1 + (split a bits).2 * 2 ^ bits ∧ (split a bits).1 < 2 ^ bits := by
  unfold split
  exact ⟨by rw [Nat.mul_comm]; exact (Nat.mod_add_div a (2 ^ bits)).symm, Nat.mod_lt _ (by positivity)⟩

end GocoinV.C08
