/-
  Proofs.C04Equiv — the three Lean models that mention CheckTransaction / IsFinal / commitTxs say the same thing.
    * Model/Connect.lean     (C04, this property): checkTransaction, isFinal, commitTxs with everything in it;
    * Model/BlockCheck.lean  (C05): checkTransaction / isFinal over a parsed-transaction record that keeps only what
                              CheckBlock reads (null flags, script lengths, values) and whose constants are REGENERATED
                              from /repo by gen_c05 (Gen/ConsensusConsts.lean);
    * Model/UtxoOps.lean     (C06): a reduced commitTxs over a map keyed by the whole txid (a number), exact sums,
                              no sigops, no MoneyRange tests, no coinbase-script-length test, plus undo data.
  Here: C05's two functions ARE C04's on the projected transaction (`c05_checkTransaction_eq`, `c05_isFinal_eq`,
  `c05_checkOneTx_eq`), and C06's commitTxs is the projection of C04's: whenever C04's `connect` accepts a block, C06's
  commitTxs accepts the projected block on the projected map and returns the projected delete list and add list
  (`c06_commitTxs_projection`); at the level of one input the two coin look-ups agree in BOTH directions, error kind by
  error kind (`c06_procInput_projection`).
-/
import GocoinV.Proofs.C04Final
import GocoinV.Model.BlockCheck
import GocoinV.Model.UtxoOps
namespace GocoinV.Proofs.C04
open GocoinV GocoinV.Connect

/-! ## C05: CheckTransaction / IsFinal -/

/-- what C05's parsed-transaction record keeps of a transaction -/
def toBC (tx : Tx) : BlockCheck.Tx :=
  { ins := tx.ins.map fun i => ⟨i.prev.isNull, i.sequence, i.scriptSig.length⟩
    in0Script := (tx.ins.headD default).scriptSig
    outs := tx.outs.map (·.script)
    outValues := tx.outs.map (·.value)
    segwit := none, txid := tx.txid, wtxid := tx.txid
    lockTime := tx.lockTime, noWitSize := tx.noWitSize, size := tx.noWitSize }

/-- C05's error names in C04's vocabulary -/
def ofBCErr : BlockCheck.TxErr → Err
  | .vinEmpty => .vinEmpty | .voutEmpty => .voutEmpty | .oversize => .oversize | .voutTooLarge => .voutTooLarge
  | .totalTooLarge => .txoutTotal | .cbLength => .cbLength | .prevoutNull => .prevoutNull | .nonFinal => .nonFinal

def errOf {α : Type} : Except Err α → Option Err
  | .ok _ => none
  | .error e => some e

theorem c05_constants :
    Gen.ConsensusConsts.MAX_MONEY = MAX_MONEY ∧ Gen.ConsensusConsts.txMaxWeight = MAX_BLOCK_WEIGHT
    ∧ Gen.ConsensusConsts.cbScriptMin = 2 ∧ Gen.ConsensusConsts.cbScriptMax = 100
    ∧ Gen.ConsensusConsts.LOCKTIME_THRESHOLD = LOCKTIME_THRESHOLD := by decide

theorem c05_isCoinBase (tx : Tx) : (toBC tx).isCoinBase = tx.isCoinBase := by
  unfold BlockCheck.Tx.isCoinBase Tx.isCoinBase toBC
  cases tx.ins with
  | nil => rfl
  | cons i r => cases r <;> rfl

theorem c05_checkOutValues (outs : List TxOut) (tot : Nat) :
    (BlockCheck.checkOutValues (outs.map (·.value)) tot).map ofBCErr = errOf (checkOutValues outs tot) := by
  induction outs generalizing tot with
  | nil => rfl
  | cons o r ih =>
    simp only [List.map_cons, BlockCheck.checkOutValues, checkOutValues, c05_constants.1, u64]
    by_cases h1 : o.value > MAX_MONEY
    · simp [h1, errOf, ofBCErr]
    · simp only [h1, ↓reduceIte]
      by_cases h2 : (tot + o.value) % 2 ^ 64 > MAX_MONEY
      · simp [h2, errOf, ofBCErr]
      · simp only [h2, ↓reduceIte]; exact ih _

/-- **C05's `checkTransaction` is C04's** (Cfg.current) on the projected transaction: same verdict, same error. -/
theorem c05_checkTransaction_eq (tx : Tx) :
    (BlockCheck.checkTransaction (toBC tx)).map ofBCErr = errOf (checkTransaction Cfg.current tx) := by
  have hc := c05_constants
  have hcb := c05_isCoinBase tx
  have hov := c05_checkOutValues tx.outs 0
  unfold BlockCheck.checkTransaction checkTransaction
  simp only [hcb]
  simp only [toBC, List.length_map, hc.2.1, hc.2.2.1, hc.2.2.2.1, u32, bind, Except.bind, pure, Except.pure,
    throw, throwThe, MonadExceptOf.throw, List.isEmpty_iff, List.length_eq_zero_iff] at hov ⊢
  by_cases h1 : tx.ins = []
  · simp [h1, errOf, ofBCErr]
  · by_cases h2 : tx.outs = []
    · simp [h1, h2, errOf, ofBCErr]
    · by_cases h3 : tx.noWitSize * 4 % 2 ^ 32 > MAX_BLOCK_WEIGHT
      · simp [h1, h2, h3, errOf, ofBCErr]
      · have hmr : Cfg.current.moneyRange = true := rfl
        simp only [h1, h2, h3, hmr, ↓reduceIte]
        cases hco : checkOutValues tx.outs 0 with
        | error e =>
          rw [hco] at hov
          cases hb : BlockCheck.checkOutValues (List.map (fun x => x.value) tx.outs) 0 with
          | none => simp [hb, errOf] at hov
          | some e' =>
            simp only [hb, Option.map_some, errOf, Option.some.injEq] at hov
            subst hov
            simp [errOf]
        | ok u =>
          rw [hco] at hov
          cases hb : BlockCheck.checkOutValues (List.map (fun x => x.value) tx.outs) 0 with
          | some e' => simp [hb, errOf] at hov
          | none =>
            simp only []
            cases hcbx : tx.isCoinBase with
            | true =>
              obtain ⟨i, r, hi⟩ := List.exists_cons_of_ne_nil h1
              simp only [hi, List.map_cons, List.headD_cons, ↓reduceIte]
              by_cases hl : i.scriptSig.length < 2 ∨ i.scriptSig.length > 100
              · simp [hl, errOf, ofBCErr]
              · simp [hl, errOf]
            | false =>
              simp only [Bool.false_eq_true, ↓reduceIte, List.any_map]
              by_cases hn : (tx.ins.any fun x => x.prev.isNull) = true
              · have : (tx.ins.any ((fun x => x.null) ∘ fun i => (⟨i.prev.isNull, i.sequence, i.scriptSig.length⟩ : BlockCheck.TxIn))) = true := hn
                simp [this, hn, errOf, ofBCErr]
              · have : ¬ (tx.ins.any ((fun x => x.null) ∘ fun i => (⟨i.prev.isNull, i.sequence, i.scriptSig.length⟩ : BlockCheck.TxIn))) = true := hn
                simp [this, hn, errOf]

/-- **C05's `isFinal` is C04's**. -/
theorem c05_isFinal_eq (tx : Tx) (height time : Nat) :
    BlockCheck.isFinal (toBC tx).lockTime ((toBC tx).ins.map (·.seq)) height time = isFinal tx height time := by
  unfold BlockCheck.isFinal isFinal toBC
  simp only [c05_constants.2.2.2.2, List.map_map, List.all_map]
  by_cases h0 : tx.lockTime = 0
  · simp [h0]
  · by_cases h1 : tx.lockTime < LOCKTIME_THRESHOLD
    · by_cases h2 : tx.lockTime < height
      · simp [h0, h1, h2]
      · have : ¬ tx.lockTime ≥ LOCKTIME_THRESHOLD := by omega
        simp [h0, h1, h2, this]; rfl
    · by_cases h2 : tx.lockTime < time
      · have : tx.lockTime ≥ LOCKTIME_THRESHOLD := by omega
        simp [h0, h1, h2, this]
      · simp [h0, h1, h2]; rfl

/-- what one goroutine of CheckTransactions reports (C05: `checkOneTx`) is what one step of C04's `checkBlockTxs` loop
    throws -/
theorem c05_checkOneTx_eq (tx : Tx) (height time : Nat) :
    (BlockCheck.checkOneTx (toBC tx) height time).map ofBCErr
      = errOf (do checkTransaction Cfg.current tx; if !isFinal tx height time then throw Err.nonFinal : Except Err Unit) := by
  unfold BlockCheck.checkOneTx
  have h1 := c05_checkTransaction_eq tx
  have h2 := c05_isFinal_eq tx height time
  cases hc : checkTransaction Cfg.current tx with
  | error e =>
    rw [hc] at h1
    cases hb : BlockCheck.checkTransaction (toBC tx) with
    | none => simp [hb, errOf] at h1
    | some e' =>
      simp only [hb, Option.map_some, errOf, Option.some.injEq] at h1
      simp [errOf, h1, bind, Except.bind]
  | ok u =>
    rw [hc] at h1
    cases hb : BlockCheck.checkTransaction (toBC tx) with
    | some e' => simp [hb, errOf] at h1
    | none =>
      simp only [h2, bind, Except.bind]
      cases isFinal tx height time <;> simp [errOf, ofBCErr, throw, throwThe, MonadExceptOf.throw, pure, Except.pure]

/-! ## C06: commitTxs

  `enc` turns a txid into the number C06's model uses as a key (any injective coding), `encS` a script into C06's opaque
  script text (any function: C06 never looks inside a script). -/

section C06
variable (enc : Bytes → Nat) (encS : Bytes → String)

def pOut (o : TxOut) : UtxoOps.Out := ⟨o.value, encS o.script⟩
def pOuts (l : List (Option TxOut)) : List (Option UtxoOps.Out) := l.map (Option.map (pOut encS))
def pRec (r : Rec) : UtxoOps.Rec := ⟨enc r.txid, r.height, r.coinbase, pOuts encS r.outs⟩
def pDB (db : DB) : UtxoOps.DB := db.map fun kr => pRec enc encS kr.2
def pIn (i : TxIn) : UtxoOps.TxIn := ⟨enc i.prev.hash, i.prev.vout⟩
def pTx (tx : Tx) : UtxoOps.Tx := ⟨enc tx.txid, tx.ins.map (pIn enc), tx.outs.map (pOut encS), tx.ins.all (·.scriptOk)⟩
def pDeled (d : List (Bytes × List Bool)) : List (Nat × List Bool) := d.map fun p => (enc p.1, p.2)
def pBl (l : List (Bytes × (Bool × List (Option TxOut)))) : List (Nat × (List (Option UtxoOps.Out) × Bool)) :=
  l.map fun p => (enc p.1, (pOuts encS p.2.2, p.2.1))

/-- the error kinds the two models share (C06 has no name for C04's sigop / MoneyRange / script-length errors) -/
def pErr : Err → UtxoOps.Err
  | .voutTooBig => .spentVoutTooBig | .doubleSpend => .doubleSpend | .unknownInput => .unknownInput
  | .voutTooBig2 => .voutTooBig | .alreadySpent => .voutAlreadySpent | .ownCoinbase => .ownCoinbase
  | .immature => .immature | .moreSpent => .moreSpent | .scripts => .scripts | .cbTooMuch => .outGtIn
  | _ => .noCoinbase

/-- the part of commitTxs' locals the two models share -/
def RelC06 (s : St) (c : UtxoOps.CState) : Prop :=
  c.deled = pDeled enc s.deled ∧ c.blUnsp = pBl enc encS s.blUnsp

variable {enc} {encS}

theorem alookup_map {β γ : Type} (henc : ∀ a b, enc a = enc b → a = b) (f : β → γ) (l : List (Bytes × β)) (h : Bytes) :
    UtxoOps.alookup (enc h) (l.map fun p => (enc p.1, f p.2)) = (aGet l h).map f := by
  induction l with
  | nil => rfl
  | cons p r ih =>
    obtain ⟨a, x⟩ := p
    simp only [List.map_cons, UtxoOps.alookup, aGet, beq_iff_eq]
    by_cases hk : a = h
    · simp [hk]
    · have : enc a ≠ enc h := fun e => hk (henc _ _ e)
      simp [hk, this, ih]

theorem aset_map {β γ : Type} (henc : ∀ a b, enc a = enc b → a = b) (f : β → γ) (l : List (Bytes × β)) (h : Bytes) (v : β) :
    UtxoOps.aset (enc h) (f v) (l.map fun p => (enc p.1, f p.2)) = (aSet l h v).map fun p => (enc p.1, f p.2) := by
  induction l with
  | nil => rfl
  | cons p r ih =>
    obtain ⟨a, x⟩ := p
    simp only [List.map_cons, UtxoOps.aset, aSet, beq_iff_eq]
    by_cases hk : a = h
    · simp [hk]
    · have : enc a ≠ enc h := fun e => hk (henc _ _ e)
      simp [hk, this, ih]

theorem pDB_get (henc : ∀ a b, enc a = enc b → a = b) (db : DB) (hwf : WF db) (h : Bytes) :
    UtxoOps.DB.get (pDB enc encS db) (enc h) =
      match aGet db (key8 h) with
      | some r => if r.txid = h then some (pRec enc encS r) else none
      | none => none := by
  obtain ⟨hf, hn⟩ := hwf
  induction db with
  | nil => rfl
  | cons p rest ih =>
    obtain ⟨k, r⟩ := p
    have hk : k = key8 r.txid := hf (k, r) (by simp)
    have hn' : k ∉ keys rest ∧ (keys rest).Nodup := by simpa [keys] using hn
    have ih' := ih (fun kr hkr => hf kr (by simp [hkr])) hn'.2
    simp only [pDB, List.map_cons, UtxoOps.DB.get, List.find?_cons, aGet] at ih' ⊢
    by_cases ht : r.txid = h
    · subst ht
      simp [pRec, hk]
    · have hne : enc r.txid ≠ enc h := fun e => ht (henc _ _ e)
      have hb : ((pRec enc encS r).txid == enc h) = false := by simp [pRec, hne]
      rw [hb]
      simp only []
      by_cases hkk : k = key8 h
      · have hnone : aGet rest (key8 h) = none := (aGet_none_iff rest _).mpr (hkk ▸ hn'.1)
        rw [hnone] at ih'
        simp [hkk, ht, ih']
      · simp [hkk, ih']

theorem sub32_maturity (bh rh : Nat) (h1 : rh ≤ bh) (h2 : bh < 2 ^ 32) :
    (sub32 bh rh < COINBASE_MATURITY) = (bh - rh < UtxoOps.COINBASE_MATURITY) := by
  unfold sub32 COINBASE_MATURITY UtxoOps.COINBASE_MATURITY
  apply propext
  constructor <;> intro h <;> omega

theorem pOuts_getD (l : List (Option TxOut)) (v : Nat) :
    (pOuts encS l)[v]? = (l[v]?).map (Option.map (pOut encS)) := by
  simp [pOuts]

/-! C06's `procInput` (written with `do`) in the shape of C04's `resolve`: three plain functions -/

def uEarly (spent : Option (List Bool)) (v : Nat) : Option UtxoOps.Err :=
  match spent with
  | some m => if v ≥ m.length then some .spentVoutTooBig else if m.getD v false then some .doubleSpend else none
  | none => none

def uFromBlock (st : UtxoOps.CState) (i : UtxoOps.TxIn) : Except UtxoOps.Err (UtxoOps.CState × Nat) :=
  match UtxoOps.alookup i.txid st.blUnsp with
  | none => .error .unknownInput
  | some (t, wasCb) =>
    if i.vout ≥ t.length then .error .voutTooBig
    else match t.getD i.vout none with
      | none => .error .voutAlreadySpent
      | some o =>
        if wasCb then .error .ownCoinbase
        else .ok ({ st with blUnsp := UtxoOps.aset i.txid (t.set i.vout none, wasCb) st.blUnsp }, o.value)

def uFromDb (height : Nat) (st : UtxoOps.CState) (i : UtxoOps.TxIn) (r : UtxoOps.Rec) (o : UtxoOps.Out) :
    Except UtxoOps.Err (UtxoOps.CState × Nat) :=
  if r.coinbase && height - r.height < UtxoOps.COINBASE_MATURITY then .error .immature
  else
    let m := ((UtxoOps.alookup i.txid st.deled).getD (List.replicate r.outs.length false)).set i.vout true
    let undo := UtxoOps.recSet i.txid (fun u => { u with outs := u.outs.set i.vout (some o) })
      (fun _ => { txid := i.txid, height := r.height, coinbase := r.coinbase, outs := List.replicate r.outs.length none })
      st.undo
    .ok ({ st with deled := UtxoOps.aset i.txid m st.deled, undo := undo }, o.value)

theorem uProcInput_eq (db : UtxoOps.DB) (height : Nat) (st : UtxoOps.CState) (i : UtxoOps.TxIn) :
    UtxoOps.procInput db height st i =
      match uEarly (UtxoOps.alookup i.txid st.deled) i.vout with
      | some e => .error e
      | none =>
        match UtxoOps.unspentGet db i.txid i.vout with
        | none => uFromBlock st i
        | some (r, o) => uFromDb height st i r o := by
  unfold UtxoOps.procInput uEarly uFromBlock uFromDb
  cases hl : UtxoOps.alookup i.txid st.deled with
  | none =>
    simp only [bind, Except.bind, pure, Except.pure, throw, throwThe, MonadExceptOf.throw]
    cases hu : UtxoOps.unspentGet db i.txid i.vout with
    | none =>
      simp only []
      cases hb : UtxoOps.alookup i.txid st.blUnsp with
      | none => rfl
      | some p =>
        obtain ⟨t, wasCb⟩ := p
        simp only []
        by_cases h1 : i.vout ≥ t.length
        · simp [h1]
        · simp only [h1, ↓reduceIte]
          cases t.getD i.vout none with
          | none => rfl
          | some o => cases wasCb <;> simp
    | some p =>
      obtain ⟨r, o⟩ := p
      rfl
  | some m =>
    simp only [bind, Except.bind, pure, Except.pure, throw, throwThe, MonadExceptOf.throw]
    by_cases h0 : i.vout ≥ m.length
    · simp [h0]
    · simp only [h0, ↓reduceIte]
      cases h00 : m.getD i.vout false with
      | true => rfl
      | false =>
        simp only [Bool.false_eq_true, ↓reduceIte]
        cases hu : UtxoOps.unspentGet db i.txid i.vout with
        | none =>
          simp only []
          cases hb : UtxoOps.alookup i.txid st.blUnsp with
          | none => rfl
          | some p =>
            obtain ⟨t, wasCb⟩ := p
            simp only []
            by_cases h1 : i.vout ≥ t.length
            · simp [h1]
            · simp only [h1, ↓reduceIte]
              cases t.getD i.vout none with
              | none => rfl
              | some o => cases wasCb <;> simp
        | some p =>
          obtain ⟨r, o⟩ := p
          rfl

theorem pOuts_set (l : List (Option TxOut)) (v : Nat) : pOuts encS (l.set v none) = (pOuts encS l).set v none := by
  simp [pOuts, List.map_set]

theorem fromBlock_proj (henc : ∀ a b, enc a = enc b → a = b) (s : St) (c : UtxoOps.CState) (hR : RelC06 enc encS s c)
    (h : Bytes) (v : Nat) :
    match fromBlock s h v with
    | .error e => uFromBlock c ⟨enc h, v⟩ = .error (pErr e)
    | .ok (s1, val, _) => ∃ c1, uFromBlock c ⟨enc h, v⟩ = .ok (c1, val) ∧ RelC06 enc encS s1 c1 := by
  obtain ⟨hd, hbl⟩ := hR
  have hlb : UtxoOps.alookup (enc h) c.blUnsp = (aGet s.blUnsp h).map (fun p => (pOuts encS p.2, p.1)) := by
    rw [hbl]; unfold pBl
    exact alookup_map (enc := enc) henc (fun (p : Bool × List (Option TxOut)) => (pOuts encS p.2, p.1)) s.blUnsp h
  unfold fromBlock uFromBlock
  simp only [hlb]
  cases hg : aGet s.blUnsp h with
  | none => simp [pErr]
  | some p =>
    obtain ⟨cb, t⟩ := p
    simp only [Option.map_some]
    have hlen : (pOuts encS t).length = t.length := by simp [pOuts]
    rw [hlen]
    by_cases h1 : v ≥ t.length
    · simp [h1, pErr]
    · simp only [h1, ↓reduceIte]
      have hgd : (pOuts encS t).getD v none = (t.getD v none).map (pOut encS) := by
        simp [pOuts, List.getD_eq_getElem?_getD]
        cases t[v]? <;> simp
      rw [hgd]
      cases ho : t.getD v none with
      | none => simp [pErr]
      | some o =>
        simp only [Option.map_some]
        cases cb with
        | true => simp [pErr]
        | false =>
          simp only [Bool.false_eq_true, ↓reduceIte]
          refine ⟨_, rfl, ?_, ?_⟩
          · exact hd
          · simp only [hbl]
            rw [← pOuts_set]
            exact aset_map (enc := enc) henc (fun (p : Bool × List (Option TxOut)) => (pOuts encS p.2, p.1)) s.blUnsp h (false, t.set v none)

theorem fromDb_proj (henc : ∀ a b, enc a = enc b → a = b) (b : Block) (s : St) (c : UtxoOps.CState)
    (hR : RelC06 enc encS s c) (h : Bytes) (v : Nat) (r : Rec) (o : TxOut) (hrh : r.height ≤ b.height) (hb : b.height < 2 ^ 32) :
    match fromDb b s h v ⟨o.value, o.script, r.height, r.outs.length, r.coinbase⟩ with
    | .error e => uFromDb b.height c ⟨enc h, v⟩ (pRec enc encS r) (pOut encS o) = .error (pErr e)
    | .ok (s1, val, _) => ∃ c1, uFromDb b.height c ⟨enc h, v⟩ (pRec enc encS r) (pOut encS o) = .ok (c1, val) ∧ RelC06 enc encS s1 c1 := by
  obtain ⟨hd, hbl⟩ := hR
  have hlk : UtxoOps.alookup (enc h) c.deled = aGet s.deled h := by
    rw [hd]; unfold pDeled
    have := alookup_map (enc := enc) henc (fun (x : List Bool) => x) s.deled h
    simpa using this
  unfold fromDb uFromDb
  have hmat := sub32_maturity b.height r.height hrh hb
  simp only [pRec, pOut, hlk]
  have hlen : (pOuts encS r.outs).length = r.outs.length := by simp [pOuts]
  rw [hlen]
  by_cases hi : r.coinbase = true ∧ sub32 b.height r.height < COINBASE_MATURITY
  · simp only [hi, and_self, ↓reduceIte]
    split
    · rfl
    · rename_i hc
      rw [hmat] at hi
      simp [hi.2] at hc
  · simp only [hi, ↓reduceIte]
    split
    · rename_i hc
      rw [hmat] at hi
      simp only [Bool.and_eq_true] at hc
      exact absurd ⟨hc.1, of_decide_eq_true hc.2⟩ hi
    refine ⟨_, rfl, ?_, ?_⟩
    · simp only [hd]
      have hm : (aGet s.deled h).getD (List.replicate r.outs.length false)
          = (match aGet s.deled h with | some m => m | none => List.replicate r.outs.length false) := by
        cases aGet s.deled h <;> rfl
      rw [hm]
      unfold pDeled
      exact aset_map (enc := enc) henc (fun (x : List Bool) => x) s.deled h _
    · exact hbl

/-- **one input**: C06's `procInput` on the projected map and locals does what C04's coin look-up `resolve` does —
    same error kind when it fails, same value and corresponding locals when it succeeds. -/
theorem c06_procInput_projection (henc : ∀ a b, enc a = enc b → a = b) (db : DB) (hwf : WF db) (b : Block)
    (hh : ∀ k r, aGet db k = some r → r.height ≤ b.height) (hb : b.height < 2 ^ 32)
    (inp : TxIn) (s : St) (c : UtxoOps.CState) (hR : RelC06 enc encS s c) :
    match resolve Cfg.current db b inp s with
    | .error e => UtxoOps.procInput (pDB enc encS db) b.height c (pIn enc inp) = .error (pErr e)
    | .ok (s1, v, _) => ∃ c1, UtxoOps.procInput (pDB enc encS db) b.height c (pIn enc inp) = .ok (c1, v) ∧ RelC06 enc encS s1 c1 := by
  obtain ⟨hd, hbl⟩ := hR
  have hlk : UtxoOps.alookup (enc inp.prev.hash) c.deled = aGet s.deled inp.prev.hash := by
    rw [hd]; unfold pDeled
    have := alookup_map (enc := enc) henc (fun (x : List Bool) => x) s.deled inp.prev.hash
    simpa using this
  have hlb : UtxoOps.alookup (enc inp.prev.hash) c.blUnsp
      = (aGet s.blUnsp inp.prev.hash).map (fun p => (pOuts encS p.2, p.1)) := by
    rw [hbl]; unfold pBl
    exact alookup_map (enc := enc) henc (fun (p : Bool × List (Option TxOut)) => (pOuts encS p.2, p.1)) s.blUnsp inp.prev.hash
  have hget := pDB_get (enc := enc) (encS := encS) henc db hwf inp.prev.hash
  rw [uProcInput_eq]
  unfold resolve
  simp only [pIn, hlk]
  -- the early test on DeledTxs
  have he : uEarly (aGet s.deled inp.prev.hash) inp.prev.vout = (earlyCheck (aGet s.deled inp.prev.hash) inp.prev.vout).map pErr := by
    unfold uEarly earlyCheck
    cases aGet s.deled inp.prev.hash with
    | none => rfl
    | some m =>
      simp only []
      by_cases h1 : inp.prev.vout ≥ m.length
      · simp [h1, pErr]
      · by_cases h2 : m.getD inp.prev.vout false = true
        · simp only [h1, h2, ↓reduceIte]; rfl
        · simp only [h1, h2, ↓reduceIte, Bool.false_eq_true]; rfl
  rw [he]
  cases hearly : earlyCheck (aGet s.deled inp.prev.hash) inp.prev.vout with
  | some e => simp
  | none =>
    simp only [Option.map_none]
    -- the look-up in the set
    unfold UtxoOps.unspentGet unspentGet
    rw [hget]
    have hfull : Cfg.current.fullTxid = true := rfl
    cases hdb : aGet db (key8 inp.prev.hash) with
    | none =>
      simp only []
      exact fromBlock_proj henc s c ⟨hd, hbl⟩ inp.prev.hash inp.prev.vout
    | some r =>
      simp only [hfull, true_and]
      by_cases ht : r.txid = inp.prev.hash
      · simp only [ht, ne_eq, not_true_eq_false, ↓reduceIte]
        have hidx : (pRec enc encS r).outs[inp.prev.vout]? = (r.outs[inp.prev.vout]?).map (Option.map (pOut encS)) :=
          pOuts_getD r.outs inp.prev.vout
        rw [hidx, List.getD_eq_getElem?_getD]
        cases ho : r.outs[inp.prev.vout]? with
        | none =>
          simp only [Option.getD_none, Option.map_none]
          exact fromBlock_proj henc s c ⟨hd, hbl⟩ inp.prev.hash inp.prev.vout
        | some oo =>
          cases oo with
          | none =>
            simp only [Option.getD_some, Option.map_some, Option.map_none]
            exact fromBlock_proj henc s c ⟨hd, hbl⟩ inp.prev.hash inp.prev.vout
          | some o =>
            simp only [Option.getD_some, Option.map_some]
            exact fromDb_proj henc b s c ⟨hd, hbl⟩ inp.prev.hash inp.prev.vout r o (hh _ r hdb) hb
      · simp only [ht, ne_eq, not_false_eq_true, ↓reduceIte]
        exact fromBlock_proj henc s c ⟨hd, hbl⟩ inp.prev.hash inp.prev.vout

/-- `procInput` = `resolve` + sigop counters + the MoneyRange test: the locals C06 shares are those of `resolve` -/
theorem procInput_resolve (db : DB) (b : Block) (inp : TxIn) (s s' : St) (a a' : Nat) (ha : a ≤ MAX_MONEY)
    (h : procInput Cfg.current db b inp s a = .ok (s', a')) :
    ∃ s1 v pk, resolve Cfg.current db b inp s = .ok (s1, v, pk) ∧ a' = a + v ∧ a' ≤ MAX_MONEY
      ∧ s'.deled = s1.deled ∧ s'.blUnsp = s1.blUnsp := by
  obtain ⟨s1, v, pk, hr, h1, h2⟩ := procInput_sum db b inp s s' a a' ha h
  refine ⟨s1, v, pk, hr, h1, h2, ?_⟩
  unfold procInput at h
  simp only [hr] at h
  split at h
  · simp at h
  · simp only [Except.ok.injEq, Prod.mk.injEq] at h
    obtain ⟨e, _⟩ := h
    subst e
    exact ⟨rfl, rfl⟩

theorem c06_procInputs_projection (henc : ∀ a b, enc a = enc b → a = b) (db : DB) (hwf : WF db) (b : Block)
    (hh : ∀ k r, aGet db k = some r → r.height ≤ b.height) (hb : b.height < 2 ^ 32)
    (ins : List TxIn) (s s' : St) (c : UtxoOps.CState) (a a' : Nat) (hR : RelC06 enc encS s c) (ha : a ≤ MAX_MONEY)
    (h : procInputs Cfg.current db b ins s a = .ok (s', a')) :
    ∃ c' sv, UtxoOps.procInputs (pDB enc encS db) b.height c (ins.map (pIn enc)) = .ok (c', sv)
      ∧ a' = a + sv ∧ a' ≤ MAX_MONEY ∧ RelC06 enc encS s' c' := by
  induction ins generalizing s c a with
  | nil =>
    simp only [procInputs, Except.ok.injEq, Prod.mk.injEq] at h
    obtain ⟨e1, e2⟩ := h
    subst e1; subst e2
    exact ⟨c, 0, rfl, rfl, ha, hR⟩
  | cons i r ih =>
    unfold procInputs at h
    cases hp : procInput Cfg.current db b i s a with
    | error e => simp [hp] at h
    | ok q =>
      obtain ⟨s1, a1⟩ := q
      simp only [hp] at h
      obtain ⟨s1', v, pk, hr, hav, hle, hd1, hb1⟩ := procInput_resolve db b i s s1 a a1 ha hp
      have hproj := c06_procInput_projection (encS := encS) henc db hwf b hh hb i s c hR
      rw [hr] at hproj
      obtain ⟨c1, hc1, hR1⟩ := hproj
      have hR1' : RelC06 enc encS s1 c1 := ⟨by rw [hd1]; exact hR1.1, by rw [hb1]; exact hR1.2⟩
      obtain ⟨c', sv, hcs, has, hles, hR'⟩ := ih s1 c1 a1 hR1' hle h
      refine ⟨c', v + sv, ?_, by omega, hles, hR'⟩
      simp only [List.map_cons, UtxoOps.procInputs, hc1, hcs, bind, Except.bind, pure, Except.pure]

theorem any_not_scriptOk (ins : List TxIn) : (ins.any fun i => !i.scriptOk) = !(ins.all fun i => i.scriptOk) := by
  induction ins with
  | nil => rfl
  | cons i r ih => simp only [List.any_cons, List.all_cons, ih]; cases i.scriptOk <;> simp

theorem uSumOuts (outs : List TxOut) : UtxoOps.sumOuts (outs.map (pOut encS)) = exactOut outs := by
  unfold UtxoOps.sumOuts exactOut
  simp [pOut, List.map_map, Function.comp_def]

theorem pBl_aSet (henc : ∀ a b, enc a = enc b → a = b) (bl : List (Bytes × (Bool × List (Option TxOut)))) (tx : Tx) (isCb : Bool) :
    UtxoOps.aset (enc tx.txid) ((tx.outs.map (pOut encS)).map some, isCb) (pBl enc encS bl)
      = pBl enc encS (aSet bl tx.txid (isCb, tx.outs.map some)) := by
  unfold pBl
  have := aset_map (enc := enc) henc (fun (p : Bool × List (Option TxOut)) => (pOuts encS p.2, p.1)) bl tx.txid (isCb, tx.outs.map some)
  simp only [pOuts, List.map_map] at this ⊢
  exact this

/-- the transaction loop, for the transactions after the coinbase -/
theorem c06_procTxs_rest (henc : ∀ a b, enc a = enc b → a = b) (db : DB) (hwf : WF db) (b : Block)
    (hh : ∀ k r, aGet db k = some r → r.height ≤ b.height) (hb : b.height < 2 ^ 32)
    (txs : List Tx) (s s' : St) (c : UtxoOps.CState) (hR : RelC06 enc encS s c) (hf : s.fees ≤ MAX_MONEY)
    (hex : ∀ tx ∈ txs, sumOuts tx.outs = exactOut tx.outs)
    (h : procTxs Cfg.current db b false txs s = .ok s') :
    ∃ c' sin sout ok, UtxoOps.procTxs (pDB enc encS db) b.height false c (txs.map (pTx enc encS)) = .ok (c', sin, sout, ok)
      ∧ RelC06 enc encS s' c' ∧ s'.scriptBad = (s.scriptBad || !ok)
      ∧ s'.fees + sout = s.fees + sin ∧ s'.sumOut = s.sumOut := by
  induction txs generalizing s c with
  | nil =>
    simp only [procTxs, Except.ok.injEq] at h
    subst h
    exact ⟨c, 0, 0, true, rfl, hR, by simp, rfl, rfl⟩
  | cons tx r ih =>
    unfold procTxs at h
    cases hp : procTx Cfg.current db b false tx s with
    | error e => simp [hp] at h
    | ok s2 =>
      simp only [hp] at h
      obtain ⟨_, hf2, _⟩ := procTx_current db b false tx s s2 hf hp
      -- open procTx
      unfold procTx at hp
      cases hti : txInputs Cfg.current db b false tx s with
      | error e => simp [hti] at hp
      | ok q =>
        obtain ⟨s1, tin⟩ := q
        simp only [hti] at hp
        obtain ⟨htin, hf1, _, hso1⟩ := txInputs_sum db b false tx s s1 tin hti
        cases hst : settle Cfg.current false s1 tin (sumOuts tx.outs) with
        | error e => simp [hst] at hp
        | ok s1b =>
          simp only [hst, Except.ok.injEq] at hp
          obtain ⟨_, _, _, g4⟩ := settle_current false s1 s1b tin _ htin (by omega) hst
          obtain ⟨hle, hfee, hso⟩ := g4 rfl
          -- the inputs
          unfold txInputs at hti
          simp only [Bool.false_eq_true, ↓reduceIte] at hti
          cases hpi : procInputs Cfg.current db b tx.ins
              { s with sigops := u32 (s.sigops + u32 (WITNESS_SCALE_FACTOR * legacySigOps tx)) } 0 with
          | error e => simp [hpi] at hti
          | ok q2 =>
            obtain ⟨s0', a0⟩ := q2
            simp only [hpi, Except.ok.injEq, Prod.mk.injEq] at hti
            obtain ⟨e1, e2⟩ := hti
            subst e2
            have hR0 : RelC06 enc encS { s with sigops := u32 (s.sigops + u32 (WITNESS_SCALE_FACTOR * legacySigOps tx)) } c := hR
            obtain ⟨c1, sv, hc1, hsv, _, hR1⟩ :=
              c06_procInputs_projection (encS := encS) henc db hwf b hh hb tx.ins _ s0' c 0 a0 hR0 (by omega) hpi
            have hsv' : a0 = sv := by omega
            subst hsv'
            -- relation after the outputs are added
            have hR2 : RelC06 enc encS s2
                { c1 with blUnsp := UtxoOps.aset (enc tx.txid) ((tx.outs.map (pOut encS)).map some, false) c1.blUnsp } := by
              subst hp; subst e1
              refine ⟨?_, ?_⟩
              · have : s1b.deled = s0'.deled := by
                  unfold settle at hst
                  simp only [show Cfg.current.moneyRange = true from rfl, ↓reduceIte, Bool.false_eq_true] at hst
                  split at hst
                  · simp at hst
                  · split at hst
                    · simp at hst
                    · simp only [Except.ok.injEq] at hst; subst hst; rfl
                simp only [this]; exact hR1.1
              · have : s1b.blUnsp = s0'.blUnsp := by
                  unfold settle at hst
                  simp only [show Cfg.current.moneyRange = true from rfl, ↓reduceIte, Bool.false_eq_true] at hst
                  split at hst
                  · simp at hst
                  · split at hst
                    · simp at hst
                    · simp only [Except.ok.injEq] at hst; subst hst; rfl
                simp only [this, hR1.2]
                exact pBl_aSet henc _ tx false
            obtain ⟨c', sin, sout, ok, hrest, hR', hsb, hfees, hsum⟩ :=
              ih s2 _ hR2 hf2 (fun t ht => hex t (List.mem_cons_of_mem _ ht)) h
            have hexo : sumOuts tx.outs = exactOut tx.outs := hex tx (List.mem_cons_self ..)
            refine ⟨c', a0 + sin, exactOut tx.outs + sout, (tx.ins.all (·.scriptOk)) && ok, ?_, hR', ?_, ?_, ?_⟩
            · simp only [List.map_cons, UtxoOps.procTxs, pTx, hc1, uSumOuts, bind, Except.bind, pure, Except.pure,
                Bool.false_eq_true, ↓reduceIte, Bool.not_false, Bool.true_and, Bool.false_or]
              have : ¬ exactOut tx.outs > a0 := by rw [← hexo]; omega
              simp only [decide_eq_true_eq, this, ↓reduceIte, hrest]
            · have h1 : s2.scriptBad = s1b.scriptBad := by rw [← hp]
              have h2 : s1b.scriptBad = s1.scriptBad := by
                unfold settle at hst
                simp only [show Cfg.current.moneyRange = true from rfl, ↓reduceIte, Bool.false_eq_true] at hst
                split at hst
                · simp at hst
                · split at hst
                  · simp at hst
                  · simp only [Except.ok.injEq] at hst; subst hst; rfl
              have h3 : s1.scriptBad = (s0'.scriptBad || tx.ins.any (fun i => !i.scriptOk)) := by rw [← e1]
              have h4 : s0'.scriptBad = s.scriptBad := procInputs_scriptBad _ db b tx.ins { s with sigops := u32 (s.sigops + u32 (WITNESS_SCALE_FACTOR * legacySigOps tx)) } s0' 0 a0 hpi
              rw [hsb, h1, h2, h3, h4, any_not_scriptOk]
              cases s.scriptBad <;> cases (tx.ins.all fun i => i.scriptOk) <;> cases ok <;> rfl
            · have h1 : s2.fees = s1b.fees := by rw [← hp]
              rw [h1, hfee, hf1] at hfees
              rw [hexo] at hfee hle
              omega
            · have h1 : s2.sumOut = s1b.sumOut := by rw [← hp]
              rw [hsum, h1, hso, hso1]

theorem addList_proj (b : Block) (bl : List (Bytes × (Bool × List (Option TxOut)))) :
    UtxoOps.addListOf b.height (pBl enc encS bl)
      = (bl.filterMap fun (k, (cb, outs)) =>
          if outs.any Option.isSome then some ({ txid := k, height := b.height, coinbase := cb, outs := outs } : Rec) else none).map
        (pRec enc encS) := by
  unfold UtxoOps.addListOf pBl
  induction bl with
  | nil => rfl
  | cons p r ih =>
    obtain ⟨k, cb, outs⟩ := p
    have hany : (pOuts encS outs).any Option.isSome = outs.any Option.isSome := by
      unfold pOuts
      rw [List.any_map]
      congr 1; funext o; cases o <;> rfl
    simp only [List.map_cons, List.filterMap_cons, hany]
    cases outs.any Option.isSome with
    | true => simp only [↓reduceIte, List.map_cons, ih]; rfl
    | false => simp only [Bool.false_eq_true, ↓reduceIte, ih]

/-- **C06's reduced `commitTxs` is the projection of C04's.**  Whenever the current code's block connection as C04 models
    it (`connect Cfg.current`: CheckTransactions + commitTxs with sigop cost, MoneyRange tests, uint64 / uint32 arithmetic,
    8-byte keys with the whole-txid comparison) accepts a block on a well-formed record map, C06's `commitTxs` (whole txid
    as key, exact sums, no sigops, no MoneyRange, no coinbase-script-length test; `trusted = false`) accepts the projected
    block on the projected map, and the delete list and the add list it hands to the database are the projections of
    C04's `DeledTxs` and `AddList`.  What C06 leaves out can therefore only make C04 refuse MORE blocks, never connect a
    block differently.  `enc` is any injective coding of txids as numbers, `encS` any coding of scripts. -/
theorem c06_commitTxs_projection (henc : ∀ a b, enc a = enc b → a = b) (db : DB) (hwf : WF db) (b : Block)
    (hheights : ∀ kr ∈ db, kr.2.height ≤ b.height) (hb : b.height < 2 ^ 32) (db' : DB) (so : Nat)
    (h : connect Cfg.current db b = .ok (db', so)) :
    ∃ s ch, commitTxs Cfg.current db b = .ok s ∧ db' = applyChanges Cfg.current db b s
      ∧ UtxoOps.commitTxs (pDB enc encS db) b.height (getBlockReward b.height) false (b.txs.map (pTx enc encS)) = .ok ch
      ∧ ch.deled = pDeled enc s.deled ∧ ch.addList = (addList b s).map (pRec enc encS) := by
  have hh : ∀ k r, aGet db k = some r → r.height ≤ b.height := fun k r hg => hheights (k, r) (aGet_mem db k r hg)
  unfold connect at h
  cases hc : checkBlockTxs Cfg.current b with
  | error e => simp [hc, bind, Except.bind] at h
  | ok _ =>
    cases hs : commitTxs Cfg.current db b with
    | error e => simp [hc, hs, bind, Except.bind] at h
    | ok s =>
      simp only [hc, hs, bind, Except.bind, pure, Except.pure, Except.ok.injEq, Prod.mk.injEq] at h
      obtain ⟨cb, rest, ht, _, _, hall⟩ := checkBlockTxs_ok b hc
      have hex : ∀ tx ∈ b.txs, sumOuts tx.outs = exactOut tx.outs := by
        intro tx htx
        obtain ⟨_, _, _, h4, _⟩ := checkTransaction_ok tx (hall tx htx).1
        have := checkOutValues_exact tx.outs 0 (by decide) h4
        simp only [Nat.zero_add] at this
        exact this.2
      obtain ⟨hsi, hsf, _, hso⟩ := commitTxs_sums db b s hs
      suffices main : ∃ ch, UtxoOps.commitTxs (pDB enc encS db) b.height (getBlockReward b.height) false (b.txs.map (pTx enc encS)) = .ok ch
          ∧ ch.deled = pDeled enc s.deled ∧ ch.addList = (addList b s).map (pRec enc encS) by
        obtain ⟨ch, hC, hD, hE⟩ := main
        exact ⟨s, ch, rfl, h.1.symm, hC, hD, hE⟩
      -- open commitTxs on the C04 side
      have hs' := hs
      unfold commitTxs at hs'
      cases hp : procTxs Cfg.current db b true b.txs (St.init b) with
      | error e => simp [hp] at hs'
      | ok s0 =>
        simp only [hp] at hs'
        obtain ⟨e0, _, _⟩ := finalChecks_ok _ s0 s hs'
        subst e0
        have hnb : s.scriptBad = false := by
          unfold finalChecks at hs'
          cases hsb : s.scriptBad with
          | false => rfl
          | true => simp [hsb] at hs'
        -- the coinbase step
        rw [ht] at hp
        unfold procTxs at hp
        cases hp1 : procTx Cfg.current db b true cb (St.init b) with
        | error e => simp [hp1] at hp
        | ok s1 =>
          simp only [hp1] at hp
          obtain ⟨_, hf1, _⟩ := procTx_current db b true cb (St.init b) s1 (by simp [St.init]) hp1
          unfold procTx at hp1
          cases hti : txInputs Cfg.current db b true cb (St.init b) with
          | error e => simp [hti] at hp1
          | ok q =>
            obtain ⟨sa, tin⟩ := q
            simp only [hti] at hp1
            cases hst : settle Cfg.current true sa tin (sumOuts cb.outs) with
            | error e => simp [hst] at hp1
            | ok sb =>
              simp only [hst, Except.ok.injEq] at hp1
              -- facts about the coinbase step
              have hsa : sa.deled = [] ∧ sa.blUnsp = [] ∧ sa.fees = 0 ∧ sa.scriptBad = false := by
                unfold txInputs at hti
                simp only [↓reduceIte] at hti
                split at hti
                · simp at hti
                · simp only [Except.ok.injEq, Prod.mk.injEq] at hti
                  obtain ⟨e, _⟩ := hti
                  subst e
                  simp [St.init]
              have hsb : sb.deled = sa.deled ∧ sb.blUnsp = sa.blUnsp ∧ sb.fees = sa.fees ∧ sb.scriptBad = sa.scriptBad
                  ∧ sb.sumOut = sumOuts cb.outs := by
                unfold settle at hst
                simp only [show Cfg.current.moneyRange = true from rfl, ↓reduceIte, Except.ok.injEq] at hst
                subst hst
                simp
              have hR1 : RelC06 enc encS s1
                  { deled := [], undo := [], blUnsp := UtxoOps.aset (enc cb.txid) ((cb.outs.map (pOut encS)).map some, true) [] } := by
                subst hp1
                refine ⟨?_, ?_⟩
                · simp [hsb.1, hsa.1, pDeled]
                · simp only [hsb.2.1, hsa.2.1]
                  exact pBl_aSet henc [] cb true
              obtain ⟨c', sin, sout, ok, hrest, hR', hbad, hfees, hsum⟩ :=
                c06_procTxs_rest (encS := encS) henc db hwf b hh hb rest s1 s _ hR1 hf1
                  (fun t htt => hex t (by rw [ht]; exact List.mem_cons_of_mem _ htt)) hp
              have hs1f : s1.fees = 0 := by rw [← hp1]; simp [hsb.2.2.1, hsa.2.2.1]
              have hs1b : s1.scriptBad = false := by rw [← hp1]; simp [hsb.2.2.2.1, hsa.2.2.2]
              have hs1o : s1.sumOut = exactOut cb.outs := by
                rw [← hp1]; simp only [hsb.2.2.2.2]; exact hex cb (by rw [ht]; exact List.mem_cons_self ..)
              have hok : ok = true := by
                rw [hnb, hs1b] at hbad
                cases ok <;> simp at hbad ⊢
              subst hok
              refine ⟨⟨c'.deled, c'.undo, UtxoOps.addListOf b.height c'.blUnsp⟩, ?_, hR'.1, ?_⟩
              · unfold UtxoOps.commitTxs
                have hne : (List.map (pTx enc encS) b.txs).isEmpty = false := by rw [ht]; rfl
                rw [ht] at hne ⊢
                simp only [hne, List.map_cons, UtxoOps.procTxs, pTx, uSumOuts, hrest, bind, Except.bind, pure, Except.pure,
                  Bool.false_eq_true, ↓reduceIte, Bool.not_true, Bool.false_and, Bool.true_or, Bool.true_and, Bool.not_false]
                have : exactOut cb.outs + sout ≤ getBlockReward b.height + sin := by omega
                simp [this]
              · show UtxoOps.addListOf b.height c'.blUnsp = (addList b s).map (pRec enc encS)
                rw [hR'.2]
                exact addList_proj b s.blUnsp

end C06

/-! ## an injective coding of txids (so that the projection theorems are not vacuous in `enc`) -/

/-- bijective base-257 numeration: digits 1..256, most significant digit last -/
def encBytes : Bytes → Nat
  | [] => 0
  | x :: r => encBytes r * 257 + x.toNat + 1

theorem encBytes_inj : ∀ a b : Bytes, encBytes a = encBytes b → a = b
  | [], [], _ => rfl
  | [], y :: s, h => by simp only [encBytes] at h; omega
  | x :: r, [], h => by simp only [encBytes] at h; omega
  | x :: r, y :: s, h => by
    simp only [encBytes] at h
    have hx := x.toNat_lt
    have hy := y.toNat_lt
    have h1 : x.toNat = y.toNat := by omega
    have h2 : encBytes r = encBytes s := by omega
    rw [UInt8.toNat_inj.mp h1, encBytes_inj r s h2]

/-! ## the coinbase-script-length test of commitTxs is subsumed by CheckTransaction's -/

/-- `Err.cbScriptLen` ("Coinbase script has a wrong length", the test at the top of commitTxs' coinbase branch) is thrown
    by `txInputs` with `isCb = true` and nowhere else in the model; once `CheckTransaction` has passed the coinbase (which
    `connect` asks first, as CheckBlock does) that test cannot fail: on the CheckBlock + AcceptBlock path the statement is
    dead code, which is why the correspondence run reaches `cbLength` but never `cbScriptLen`. -/
theorem cbScriptLen_subsumed (db : DB) (b : Block) (cb : Tx) (s : St)
    (hc : checkTransaction Cfg.current cb = .ok ()) (hcb : cb.isCoinBase = true) :
    ∃ s1, txInputs Cfg.current db b true cb s = .ok (s1, 0) := by
  obtain ⟨_, _, _, _, h5, _⟩ := checkTransaction_ok cb hc
  obtain ⟨q1, q2⟩ := h5 hcb
  unfold txInputs
  have : ¬ ((cb.ins.headD default).scriptSig.length < 2 ∨ (cb.ins.headD default).scriptSig.length > 100) := by omega
  simp only [↓reduceIte, this]
  exact ⟨_, rfl⟩

end GocoinV.Proofs.C04
