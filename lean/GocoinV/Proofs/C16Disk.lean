/-
  Proofs.C16Disk — the index-file half of the block store invariant.
  `Disk env s sp n`: every in-memory record that is written is described by the 136 bytes at its `ipos` (data file
  number, offset, stored length, compression / trusted flag bits; key of the header), every record of the index file
  that is not flagged invalid is the in-memory record of its key at that position (so no two of them share a key), and —
  against the durable-map specification — the record of a key that was added and never marked invalid carries the
  block's own size / height / transaction count / header. Part 1: definitions and byte-level lemmas.
-/
import GocoinV.Proofs.C16Live
import GocoinV.Proofs.C16Walk
namespace GocoinV.BlockDB

/-- the 136 bytes at offset `p` of the index file -/
def recAt (idx : Bytes) (p : Nat) : Bytes := (idx.drop p).take 136

def flagAt (c : Bytes) : Nat := (c.getD 0 0).toNat

/-- the key LoadBlockIndex files a record under: first 8 bytes of the hash of the stored header -/
def keyOfRec (env : Env) (c : Bytes) : Key := keyOf (env.hash ((c.drop 56).take 80))

/-- the `oneBl` LoadBlockIndex builds from a (non-invalid) record read at position `p` -/
def recOf (b : Bytes) (p : Nat) : Rec :=
  { trusted := hasFlag (flagAt b) BLOCK_TRUSTED, compressed := hasFlag (flagAt b) BLOCK_COMPRSD,
    snappied := hasFlag (flagAt b) BLOCK_SNAPPED, fpos := field b 40 48, blen := field b 48 52,
    olen := if hasFlag (flagAt b) BLOCK_LENGTH then field b 32 36 else 0,
    datfileidx := if hasFlag (flagAt b) BLOCK_INDEX then field b 28 32 else 0, ipos := some p }

/-- the on-disk record `c` describes the in-memory record `r` (everything LoadBlockIndex recovers, except olen) -/
structure Desc (c : Bytes) (r : Rec) : Prop where
  fpos : field c 40 48 = r.fpos
  blen : field c 48 52 = r.blen
  dfi : field c 28 32 = r.datfileidx
  fl_len : hasFlag (flagAt c) BLOCK_LENGTH = true
  fl_idx : hasFlag (flagAt c) BLOCK_INDEX = true
  fl_c : hasFlag (flagAt c) BLOCK_COMPRSD = r.compressed
  fl_s : hasFlag (flagAt c) BLOCK_SNAPPED = r.snappied
  fl_t : hasFlag (flagAt c) BLOCK_TRUSTED = r.trusted
  olen : 0 < field c 32 36

/-- the record carries the block's own size / height / transaction count / header, and is not flagged invalid -/
structure Meta (c : Bytes) (e : SEnt) : Prop where
  olen : field c 32 36 = e.raw.length
  height : field c 36 40 = e.height
  txs : field c 52 56 = e.txcount
  hdr : (c.drop 56).take 80 = e.raw.take 80
  valid : isInvalidRec c = false

theorem isInvalidRec_eq (c : Bytes) : isInvalidRec c = hasFlag (flagAt c) BLOCK_INVALID := rfl

theorem desc_recOf (c : Bytes) (r : Rec) (p : Nat) (h : Desc c r) : Desc c (recOf c p) := by
  refine ⟨rfl, rfl, ?_, h.fl_len, h.fl_idx, rfl, rfl, rfl, h.olen⟩
  simp [recOf, h.fl_idx]

theorem recOf_fields (c : Bytes) (r : Rec) (p : Nat) (h : Desc c r) :
    (recOf c p).fpos = r.fpos ∧ (recOf c p).blen = r.blen ∧ (recOf c p).datfileidx = r.datfileidx ∧
    (recOf c p).compressed = r.compressed ∧ (recOf c p).snappied = r.snappied ∧ (recOf c p).trusted = r.trusted ∧
    (recOf c p).olen = field c 32 36 ∧ (recOf c p).ipos = some p := by
  refine ⟨h.fpos, h.blen, ?_, h.fl_c, h.fl_s, h.fl_t, ?_, rfl⟩
  · simp [recOf, h.fl_idx, h.dfi]
  · simp [recOf, h.fl_len]

/-! ### chunks of the index file -/

theorem recAt_length (f : Bytes) (p : Nat) (h : p + 136 ≤ f.length) : (recAt f p).length = 136 := by
  simp [recAt]; omega

theorem recAt_append_left (f d : Bytes) (p : Nat) (h : p + 136 ≤ f.length) : recAt (f ++ d) p = recAt f p :=
  take_drop_append_left f d p 136 h

theorem recAt_append_new (f d : Bytes) (hd : d.length = 136) : recAt (f ++ d) f.length = d := by
  simp [recAt, ← hd]

theorem pwrite_byte (f : Bytes) (p : Nat) (x : UInt8) (h : p < f.length) :
    pwrite f p [x] = f.take p ++ x :: f.drop (p + 1) := by
  unfold pwrite
  rw [List.take_append_of_le_length (by omega)]
  simp

/-- a one-byte write does not touch a chunk that lies before it -/
theorem recAt_pwrite_before (f : Bytes) (p p' : Nat) (x : UInt8) (h : p < f.length) (h1 : p' + 136 ≤ p) :
    recAt (pwrite f p [x]) p' = recAt f p' :=
  pwrite_keep f p [x] p' 136 h1 (by omega)

/-- … nor one that lies behind it -/
theorem recAt_pwrite_after (f : Bytes) (p p' : Nat) (x : UInt8) (h : p < f.length) (h1 : p + 1 ≤ p') :
    recAt (pwrite f p [x]) p' = recAt f p' := by
  rw [pwrite_byte f p x h]
  unfold recAt
  congr 1
  have hl : (f.take p).length = p := by simp; omega
  have : List.drop p' (List.take p f) = [] := List.drop_eq_nil_of_le (by omega)
  rw [List.drop_append, this, List.nil_append, hl]
  obtain ⟨d, rfl⟩ : ∃ d, p' = p + 1 + d := ⟨p' - p - 1, by omega⟩
  have e : p + 1 + d - p = d + 1 := by omega
  rw [e, List.drop_succ_cons, List.drop_drop]

/-- the chunk that contains the byte: only its first byte changes -/
theorem recAt_pwrite_at (f : Bytes) (p : Nat) (x : UInt8) (h : p < f.length) :
    recAt (pwrite f p [x]) p = x :: (recAt f p).drop 1 := by
  rw [pwrite_byte f p x h]
  unfold recAt
  have hl : (f.take p).length = p := by simp; omega
  have : List.drop p (List.take p f) = [] := List.drop_eq_nil_of_le (by omega)
  rw [List.drop_append, this, List.nil_append, hl, Nat.sub_self, List.drop_zero]
  simp only [List.take_succ_cons, List.cons.injEq, true_and]
  rw [List.drop_take, List.drop_drop]

theorem recAt_getD (f : Bytes) (p : Nat) (h : p + 136 ≤ f.length) : (recAt f p).getD 0 0 = f.getD p 0 := by
  unfold recAt
  simp [List.getD, List.getElem?_take, List.getElem?_drop]

/-! ### the fields of a chunk whose first byte was replaced -/

theorem field_cons_drop (x : UInt8) (c : Bytes) (a b : Nat) (ha : 1 ≤ a) : field (x :: c.drop 1) a b = field c a b := by
  unfold field
  obtain ⟨a', rfl⟩ : ∃ a', a = a' + 1 := ⟨a - 1, by omega⟩
  simp [List.drop_drop, Nat.add_comm]

theorem hdr_cons_drop (x : UInt8) (c : Bytes) : ((x :: c.drop 1).drop 56).take 80 = (c.drop 56).take 80 := by
  simp [List.drop_drop]

theorem flagAt_cons (x : UInt8) (t : Bytes) : flagAt (x :: t) = x.toNat := rfl

set_option maxRecDepth 1000000 in
/-- OR-ing BLOCK_TRUSTED / BLOCK_INVALID into a flags byte: what happens to each flag bit -/
theorem or_flag_bits : ∀ c : Fin 256,
    (∀ fl ∈ [BLOCK_TRUSTED, BLOCK_INVALID], ∀ X ∈ [BLOCK_COMPRSD, BLOCK_SNAPPED, BLOCK_LENGTH, BLOCK_INDEX],
      hasFlag (c.val ||| fl) X = hasFlag c.val X) ∧
    hasFlag (c.val ||| BLOCK_TRUSTED) BLOCK_TRUSTED = true ∧
    hasFlag (c.val ||| BLOCK_TRUSTED) BLOCK_INVALID = hasFlag c.val BLOCK_INVALID ∧
    hasFlag (c.val ||| BLOCK_INVALID) BLOCK_TRUSTED = hasFlag c.val BLOCK_TRUSTED ∧
    c.val ||| BLOCK_TRUSTED < 256 ∧ c.val ||| BLOCK_INVALID < 256 := by decide

theorem flagsOf_bits (c t : Bool) :
    flagsOf c t < 256 ∧
    hasFlag (flagsOf c t) BLOCK_LENGTH = true ∧ hasFlag (flagsOf c t) BLOCK_INDEX = true ∧
    hasFlag (flagsOf c t) BLOCK_COMPRSD = c ∧ hasFlag (flagsOf c t) BLOCK_SNAPPED = c ∧
    hasFlag (flagsOf c t) BLOCK_TRUSTED = t ∧ hasFlag (flagsOf c t) BLOCK_INVALID = false := by
  cases c <;> cases t <;> decide

/-- the record `writeOne` writes describes the record it publishes -/
theorem desc_mkRecord (c t : Bool) (di ol he fp bl tx : Nat) (data : Bytes) (r : Rec)
    (h1 : di < 2^32) (h2 : fp < 2^64) (h3 : bl < 2^32) (h4 : 0 < ol) (h5 : ol < 2^32)
    (e1 : r.fpos = fp) (e2 : r.blen = bl) (e3 : r.datfileidx = di) (e4 : r.compressed = c) (e5 : r.snappied = c)
    (e6 : r.trusted = t) :
    Desc (mkRecord (flagsOf c t) di ol he fp bl tx data) r := by
  obtain ⟨_, f2, _, f4, f5, f6⟩ := field_mk (flagsOf c t) di ol he fp bl tx data
  obtain ⟨b0, b1, b2, b3, b4, b5, _⟩ := flagsOf_bits c t
  have hf : flagAt (mkRecord (flagsOf c t) di ol he fp bl tx data) = flagsOf c t := by
    unfold flagAt
    rw [mkRecord_flag]
    simp [UInt8.toNat_ofNat']; omega
  refine ⟨?_, ?_, ?_, ?_, ?_, ?_, ?_, ?_, ?_⟩
  · rw [f5, e1]; exact Nat.mod_eq_of_lt h2
  · rw [f4, e2]; exact Nat.mod_eq_of_lt h3
  · rw [f6, e3]; exact Nat.mod_eq_of_lt h1
  · rw [hf]; exact b1
  · rw [hf]; exact b2
  · rw [hf, e4]; exact b3
  · rw [hf, e5]; exact b4
  · rw [hf, e6]; exact b5
  · rw [f2, Nat.mod_eq_of_lt h5]; exact h4

theorem meta_mkRecord (c t : Bool) (di ol he fp bl tx : Nat) (data : Bytes) (e : SEnt)
    (hd : data.length ≥ 80) (h1 : he < 2^32) (h2 : ol < 2^32) (h3 : tx < 2^32)
    (e1 : ol = e.raw.length) (e2 : he = e.height) (e3 : tx = e.txcount) (e4 : data = e.raw) :
    Meta (mkRecord (flagsOf c t) di ol he fp bl tx data) e := by
  obtain ⟨f1, f2, f3, _, _, _⟩ := field_mk (flagsOf c t) di ol he fp bl tx data
  obtain ⟨w1, _⟩ := walkOf_mkRecord ⟨id, some, id, true⟩ c t di ol he fp bl tx data hd h1 h2 h3
  refine ⟨?_, ?_, ?_, ?_, w1⟩
  · rw [f2, Nat.mod_eq_of_lt h2, e1]
  · rw [f1, Nat.mod_eq_of_lt h1, e2]
  · rw [f3, Nat.mod_eq_of_lt h3, e3]
  · rw [mkRecord_hdr _ _ _ _ _ _ _ _ hd, e4]

/-- a flag update (OR of BLOCK_TRUSTED or BLOCK_INVALID into the first byte) keeps the description, with the trusted bit
    raised for BLOCK_TRUSTED -/
theorem desc_flag (c : Bytes) (r : Rec) (fl : Nat) (hfl : fl = BLOCK_TRUSTED ∨ fl = BLOCK_INVALID) (h : Desc c r) :
    Desc (UInt8.ofNat (flagAt c ||| fl) :: c.drop 1) { r with trusted := r.trusted || fl == BLOCK_TRUSTED } := by
  have hc : flagAt c < 256 := by unfold flagAt; exact (c.getD 0 0).toNat_lt
  obtain ⟨o1, o2, o3, o4, o5, o6⟩ := or_flag_bits ⟨flagAt c, hc⟩
  simp only at o1 o2 o3 o4 o5 o6
  have hfl' : fl ∈ [BLOCK_TRUSTED, BLOCK_INVALID] := by
    rcases hfl with e | e <;> simp [e]
  have hlt : flagAt c ||| fl < 256 := by rcases hfl with e | e <;> rw [e] <;> assumption
  have hf : flagAt (UInt8.ofNat (flagAt c ||| fl) :: c.drop 1) = flagAt c ||| fl := by
    rw [flagAt_cons, UInt8.toNat_ofNat']; exact Nat.mod_eq_of_lt hlt
  refine ⟨?_, ?_, ?_, ?_, ?_, ?_, ?_, ?_, ?_⟩
  · rw [field_cons_drop _ _ _ _ (by decide)]; exact h.fpos
  · rw [field_cons_drop _ _ _ _ (by decide)]; exact h.blen
  · rw [field_cons_drop _ _ _ _ (by decide)]; exact h.dfi
  · rw [hf, o1 fl hfl' BLOCK_LENGTH (by simp)]; exact h.fl_len
  · rw [hf, o1 fl hfl' BLOCK_INDEX (by simp)]; exact h.fl_idx
  · rw [hf, o1 fl hfl' BLOCK_COMPRSD (by simp)]; exact h.fl_c
  · rw [hf, o1 fl hfl' BLOCK_SNAPPED (by simp)]; exact h.fl_s
  · rw [hf]
    rcases hfl with e | e
    · subst e; rw [o2]; simp
    · subst e; rw [o4, h.fl_t]
      have : (BLOCK_INVALID == BLOCK_TRUSTED) = false := by decide
      simp [this]
  · rw [field_cons_drop _ _ _ _ (by decide)]; exact h.olen

/-- raising the trusted bit keeps the block's own fields and the record valid -/
theorem meta_flag_trusted (c : Bytes) (e e' : SEnt) (h : Meta c e)
    (h1 : e'.raw = e.raw) (h2 : e'.height = e.height) (h3 : e'.txcount = e.txcount) :
    Meta (UInt8.ofNat (flagAt c ||| BLOCK_TRUSTED) :: c.drop 1) e' := by
  have hc : flagAt c < 256 := by unfold flagAt; exact (c.getD 0 0).toNat_lt
  obtain ⟨_, _, o3, _, o5, _⟩ := or_flag_bits ⟨flagAt c, hc⟩
  simp only at o3 o5
  refine ⟨?_, ?_, ?_, ?_, ?_⟩
  · rw [field_cons_drop _ _ _ _ (by decide), h1]; exact h.olen
  · rw [field_cons_drop _ _ _ _ (by decide), h2]; exact h.height
  · rw [field_cons_drop _ _ _ _ (by decide), h3]; exact h.txs
  · rw [hdr_cons_drop, h1]; exact h.hdr
  · rw [isInvalidRec_eq, flagAt_cons]
    have : (UInt8.ofNat (flagAt c ||| BLOCK_TRUSTED)).toNat = flagAt c ||| BLOCK_TRUSTED := by
      rw [UInt8.toNat_ofNat']; exact Nat.mod_eq_of_lt o5
    rw [this, o3, ← isInvalidRec_eq]; exact h.valid

theorem keyOfRec_cons_drop (env : Env) (x : UInt8) (c : Bytes) : keyOfRec env (x :: c.drop 1) = keyOfRec env c := by
  unfold keyOfRec; rw [hdr_cons_drop]

theorem keyOfRec_mkRecord (env : Env) (fl di ol he fp bl tx : Nat) (data : Bytes) (hd : data.length ≥ 80) :
    keyOfRec env (mkRecord fl di ol he fp bl tx data) = keyOf (env.hash (data.take 80)) := by
  unfold keyOfRec; rw [mkRecord_hdr _ _ _ _ _ _ _ _ hd]

end GocoinV.BlockDB
