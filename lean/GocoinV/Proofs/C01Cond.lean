/-
  Proofs.C01Cond — the condition stack: gocoin's `exestack` (a stack of pushed Booleans, all-true test by scanning)
  against Core's `ConditionStack` (size + position of the first false), the form the spec uses.
  `condOf exe` is the counter form of the vector `exe` (head = top).
-/
import GocoinV.Model.ScriptVerify
import GocoinV.Spec.Script
namespace GocoinV.Proofs.C01
open GocoinV GocoinV.Script GocoinV.ScriptSpec

/-- Core's counter form of a vector of pushed conditions (head = top of the stack) -/
def condOf : List Bool → Cond
  | [] => {}
  | b :: r => (condOf r).push b

theorem condOf_inv (l : List Bool) :
    (condOf l).size = l.length ∧
    (match (condOf l).firstFalse with
     | none => l.all id = true
     | some p => p < l.length ∧ l.all id = false) := by
  induction l with
  | nil => simp [condOf]
  | cons b r ih =>
    obtain ⟨hs, hf⟩ := ih
    refine ⟨by simp [condOf, Cond.push, hs], ?_⟩
    simp only [condOf, Cond.push]
    cases hff : (condOf r).firstFalse with
    | none =>
      rw [hff] at hf
      cases b <;> simp_all
    | some p =>
      rw [hff] at hf
      simp only [Option.isNone_some, Bool.false_and, Bool.false_eq_true, ↓reduceIte, List.length_cons, List.all_cons]
      exact ⟨by omega, by simp [hf.2]⟩

theorem condOf_size (l : List Bool) : (condOf l).size = l.length := (condOf_inv l).1

theorem condOf_allTrue (l : List Bool) : (condOf l).allTrue = l.all id := by
  have := (condOf_inv l).2
  unfold Cond.allTrue
  cases h : (condOf l).firstFalse with
  | none => rw [h] at this; simp [this]
  | some p => rw [h] at this; simp [this.2]

theorem condOf_empty (l : List Bool) : (condOf l).empty = l.isEmpty := by
  unfold Cond.empty
  rw [condOf_size]
  cases l <;> simp

theorem condOf_pop (b : Bool) (r : List Bool) : (condOf (b :: r)).pop = condOf r := by
  have hi := condOf_inv r
  obtain ⟨hs, hf⟩ := hi
  simp only [condOf, Cond.push, Cond.pop, hs]
  cases hff : (condOf r).firstFalse with
  | none =>
    have : condOf r = { size := r.length, firstFalse := none } := by
      cases hc : condOf r with
      | mk sz ff => rw [hc] at hs hff; simp at hs hff; simp [hs, hff]
    cases b <;> simp [this]
  | some p =>
    rw [hff] at hf
    have : condOf r = { size := r.length, firstFalse := some p } := by
      cases hc : condOf r with
      | mk sz ff => rw [hc] at hs hff; simp at hs hff; simp [hs, hff]
    have hne : ¬ p = r.length := by omega
    simp [this, hne]

theorem condOf_toggle (b : Bool) (r : List Bool) : (condOf (b :: r)).toggleTop = condOf ((!b) :: r) := by
  have hi := condOf_inv r
  obtain ⟨hs, hf⟩ := hi
  simp only [condOf, Cond.push, Cond.toggleTop, hs]
  cases hff : (condOf r).firstFalse with
  | none => cases b <;> simp
  | some p =>
    rw [hff] at hf
    have hne : ¬ p = r.length := by omega
    simp [hne]

end GocoinV.Proofs.C01
