/-
  Proofs.C01Num — lib/script/stack.go's number helpers (`bts2int`/`bts2int_ext` via `numOfBytes`, `is_minimal`,
  `bts2bool`, `pushInt` via `intBytes`) against the spec's `ScriptNum` (Core's CScriptNum) and `CastToBool`.
-/
import GocoinV.Model.ScriptVerify
import GocoinV.Spec.Script
namespace GocoinV.Proofs.C01
open GocoinV GocoinV.Script GocoinV.ScriptSpec

/-- finite facts about one byte, checked by enumeration in the kernel -/
theorem u8_and7f (l : UInt8) : (l &&& 0x7f).toNat = l.toNat % 128 := by
  have : ∀ n : Fin 256, ((UInt8.ofNat n.val) &&& 0x7f).toNat = (UInt8.ofNat n.val).toNat % 128 := by decide +kernel
  have h := this ⟨l.toNat, l.toNat_lt⟩
  simpa using h
theorem u8_and80 (l : UInt8) : ((l &&& 0x80) != 0) = decide (l.toNat ≥ 0x80) := by
  have : ∀ n : Fin 256, (((UInt8.ofNat n.val) &&& 0x80) != 0) = decide ((UInt8.ofNat n.val).toNat ≥ 0x80) := by decide +kernel
  have h := this ⟨l.toNat, l.toNat_lt⟩
  simpa using h
theorem u8_and7f_zero (l : UInt8) : ((l &&& 0x7f) == 0) = decide (l.toNat % 128 = 0) := by
  have : ∀ n : Fin 256, (((UInt8.ofNat n.val) &&& 0x7f) == 0) = decide ((UInt8.ofNat n.val).toNat % 128 = 0) := by decide +kernel
  have h := this ⟨l.toNat, l.toNat_lt⟩
  simpa using h
theorem u8_ne0 (l : UInt8) : (l != 0) = decide (l.toNat ≠ 0) := by
  have : ∀ n : Fin 256, ((UInt8.ofNat n.val) != 0) = decide ((UInt8.ofNat n.val).toNat ≠ 0) := by decide +kernel
  have h := this ⟨l.toNat, l.toNat_lt⟩
  simpa using h

theorem leVal_append (a b : Bytes) : leVal (a ++ b) = leVal a + 256 ^ a.length * leVal b := by
  induction a with
  | nil => simp [leVal]
  | cons x a ih => simp only [List.cons_append, leVal, ih, List.length_cons, Nat.pow_succ]; rw [Nat.mul_add]; simp [Nat.mul_assoc, Nat.mul_comm, Nat.mul_left_comm, Nat.add_assoc]

theorem leVal_single (x : UInt8) : leVal [x] = x.toNat := by simp [leVal]

theorem dropLast_append_getLast {d : Bytes} {l : UInt8} (h : d.getLast? = some l) : d = d.dropLast ++ [l] := by
  have hne : d ≠ [] := by intro h0; simp [h0] at h
  have := List.dropLast_concat_getLast hne
  rw [List.getLast?_eq_some_getLast hne] at h
  simp at h
  rw [← h]; exact this.symm

/-- `bts2int`'s value (mask the sign bit out of the last byte, negate) is `CScriptNum::set_vch`'s value -/
theorem numOfBytes_eq_decode (d : Bytes) : numOfBytes d = ScriptNum.decode d := by
  unfold numOfBytes ScriptNum.decode
  cases h : d.getLast? with
  | none => rfl
  | some l =>
    simp only
    have hd := dropLast_append_getLast h
    have hlen : d.length - 1 = d.dropLast.length := by simp
    rw [u8_and80]
    have e1 : leVal (d.dropLast ++ [l &&& 0x7f]) = leVal d.dropLast + 256 ^ d.dropLast.length * (l.toNat % 128) := by
      rw [leVal_append, leVal_single, u8_and7f]
    have e2 : leVal d = leVal d.dropLast + 256 ^ d.dropLast.length * l.toNat := by
      conv => lhs; rw [hd]
      rw [leVal_append, leVal_single]
    rw [e1, e2, hlen]
    by_cases hl : l.toNat ≥ 0x80
    · simp only [hl, decide_true, ↓reduceIte]
      have : l.toNat % 128 = l.toNat - 128 := by have := l.toNat_lt; omega
      rw [this]
      generalize 256 ^ d.dropLast.length = P
      have hmul : P * l.toNat = P * (l.toNat - 128) + 0x80 * P := by
        have : l.toNat = (l.toNat - 128) + 128 := by omega
        conv => lhs; rw [this]
        rw [Nat.mul_add, Nat.mul_comm P 128]
      have : leVal d.dropLast + P * l.toNat - 0x80 * P = leVal d.dropLast + P * (l.toNat - 128) := by omega
      rw [this]
    · simp only [hl, decide_false, Bool.false_eq_true, ↓reduceIte]
      have : l.toNat % 128 = l.toNat := by omega
      rw [this]

/-- `is_minimal` is the minimal-encoding rule of `CScriptNum` -/
theorem isMinimal_eq (d : Bytes) : isMinimal d = ScriptNum.minimal d := by
  unfold isMinimal ScriptNum.minimal
  cases h : d.getLast? with
  | none =>
    have : d = [] := by cases d with | nil => rfl | cons a b => simp at h
    simp [this]
  | some l =>
    have hd := dropLast_append_getLast h
    have hrev : d.reverse = l :: d.dropLast.reverse := by
      conv => lhs; rw [hd]
      simp
    rw [hrev]
    simp only
    rw [u8_and7f_zero]
    by_cases hz : l.toNat % 128 = 0
    · simp only [hz, decide_true, ↓reduceIte]
      cases hr : d.dropLast.reverse with
      | nil =>
        have : d.dropLast = [] := by simpa using hr
        have : d.length = 1 := by rw [hd, this]; simp
        simp [this]
      | cons l2 r =>
        have hdl : d.dropLast = r.reverse ++ [l2] := by
          have := congrArg List.reverse hr; simpa using this
        have hlen : d.length = r.length + 2 := by rw [hd, hdl]; simp
        have hget : d.getD (d.length - 2) 0 = l2 := by
          rw [hd, hdl]
          simp [List.getD_eq_getElem?_getD]
        simp only
        rw [hget, u8_and80, hlen]
        simp
    · simp [hz]

/-- `bts2bool` is `CastToBool` -/
theorem bts2bool_eq (d : Bytes) : bts2bool d = castToBool d := by
  unfold bts2bool castToBool
  cases h : d.getLast? with
  | none =>
    have : d = [] := by cases d with | nil => rfl | cons a b => simp at h
    simp [this]
  | some l =>
    have hd := dropLast_append_getLast h
    have hrev : d.reverse = l :: d.dropLast.reverse := by
      conv => lhs; rw [hd]
      simp
    rw [hrev]
    simp only [List.any_reverse]
    congr 1
    have : ∀ n : Fin 256, (((UInt8.ofNat n.val) &&& 0x7f) != 0) = ((UInt8.ofNat n.val) != 0 && (UInt8.ofNat n.val) != 0x80) := by decide +kernel
    have h2 := this ⟨l.toNat, l.toNat_lt⟩
    simpa using h2

theorem absBytes_zero (g : Nat) : ScriptNum.absBytes g 0 = [] := by cases g <;> simp [ScriptNum.absBytes]

theorem natLEAux_eq_absBytes (f : Nat) : ∀ g n, n < 256 ^ f → n < 256 ^ g → natLEAux f n = ScriptNum.absBytes g n := by
  induction f with
  | zero => intro g n h _; have : n = 0 := by simpa using h
            subst this; simp [natLEAux, absBytes_zero]
  | succ f ih =>
    intro g n hf hg
    by_cases hn : n = 0
    · subst hn; simp [natLEAux, absBytes_zero]
    · cases g with
      | zero => simp at hg; omega
      | succ g =>
        simp only [natLEAux, ScriptNum.absBytes, hn, ↓reduceIte]
        congr 1
        apply ih
        · rw [Nat.pow_succ] at hf; omega
        · rw [Nat.pow_succ] at hg; omega

theorem leVal_absBytes (g : Nat) : ∀ n, n < 256 ^ g → leVal (ScriptNum.absBytes g n) = n := by
  induction g with
  | zero => intro n h; have : n = 0 := by simpa using h
            subst this; simp [ScriptNum.absBytes, leVal]
  | succ g ih =>
    intro n h
    by_cases hn : n = 0
    · subst hn; simp [ScriptNum.absBytes, leVal]
    · simp only [ScriptNum.absBytes, hn, ↓reduceIte, leVal]
      rw [ih _ (by rw [Nat.pow_succ] at h; omega)]
      have : (UInt8.ofNat (n % 256)).toNat = n % 256 := by simp [UInt8.toNat_ofNat']
      rw [this]; omega

/-- the last byte of the minimal little-endian form is not zero -/
theorem absBytes_getLast (g : Nat) : ∀ n l, n < 256 ^ g → (ScriptNum.absBytes g n).getLast? = some l → l.toNat ≠ 0 := by
  induction g with
  | zero => intro n l _ h; simp [ScriptNum.absBytes] at h
  | succ g ih =>
    intro n l hb h
    by_cases hn : n = 0
    · subst hn; simp [ScriptNum.absBytes] at h
    · simp only [ScriptNum.absBytes, hn, ↓reduceIte] at h
      by_cases hq : n / 256 = 0
      · rw [hq, absBytes_zero] at h
        simp at h
        rw [← h]
        have : (UInt8.ofNat (n % 256)).toNat = n % 256 := by simp [UInt8.toNat_ofNat']
        rw [this]; omega
      · have hne : ScriptNum.absBytes g (n / 256) ≠ [] := by
          cases g with
          | zero => rw [Nat.pow_succ] at hb; simp at hb; omega
          | succ g => simp [ScriptNum.absBytes, hq]
        rw [List.getLast?_cons_of_ne_nil hne] at h  
        exact ih _ _ (by rw [Nat.pow_succ] at hb; omega) h

theorem u8_or80 (l : UInt8) (h : l.toNat < 0x80) : (l ||| 0x80) = UInt8.ofNat (l.toNat + 0x80) := by
  have : ∀ n : Fin 256, n.val < 0x80 → ((UInt8.ofNat n.val) ||| 0x80) = UInt8.ofNat ((UInt8.ofNat n.val).toNat + 0x80) := by decide +kernel
  have h2 := this ⟨l.toNat, l.toNat_lt⟩ h
  simpa using h2

/-- `pushInt` pushes `CScriptNum::serialize` (for every magnitude an int64 can hold) -/
theorem intBytes_eq_encode (v : Int) : intBytes v = ScriptNum.encode v := by
  unfold intBytes ScriptNum.encode natLE
  by_cases h0 : v = 0
  · simp [h0]
  · simp only [h0, ↓reduceIte]
    rw [natLEAux_eq_absBytes v.natAbs v.natAbs v.natAbs (Nat.lt_pow_self (by decide)) (Nat.lt_pow_self (by decide))]
    cases hl : (ScriptNum.absBytes v.natAbs v.natAbs).getLast? with
    | none => rfl
    | some l =>
      simp only
      rw [u8_and80]
      by_cases hneg : v < 0
      · by_cases h80 : l.toNat ≥ 0x80
        · simp [hneg, h80]
        · simp only [hneg, ↓reduceIte, h80, decide_false, Bool.false_eq_true]
          rw [u8_or80 l (by omega)]
      · by_cases h80 : l.toNat ≥ 0x80
        · simp [hneg, h80]
        · simp [hneg, h80]

theorem getLast?_append_single (a : Bytes) (x : UInt8) : (a ++ [x]).getLast? = some x := by simp

/-- `CScriptNum` round trip: decoding the serialisation of any integer gives the integer back -/
theorem decode_encode (v : Int) : ScriptNum.decode (ScriptNum.encode v) = v := by
  unfold ScriptNum.encode
  by_cases h0 : v = 0
  · simp [h0, ScriptNum.decode]
  · simp only [h0, ↓reduceIte]
    have hb : v.natAbs < 256 ^ v.natAbs := Nat.lt_pow_self (by decide)
    have hval := leVal_absBytes v.natAbs v.natAbs hb
    cases hl : (ScriptNum.absBytes v.natAbs v.natAbs).getLast? with
    | none =>
      exfalso
      have : ScriptNum.absBytes v.natAbs v.natAbs = [] := by
        cases hh : ScriptNum.absBytes v.natAbs v.natAbs with
        | nil => rfl
        | cons a b => rw [hh] at hl; simp at hl
      rw [this] at hval; simp [leVal] at hval; omega
    | some l =>
      simp only
      have hd := dropLast_append_getLast hl
      generalize hr : ScriptNum.absBytes v.natAbs v.natAbs = r at *
      have e2 : leVal r = leVal r.dropLast + 256 ^ r.dropLast.length * l.toNat := by
        conv => lhs; rw [hd]
        rw [leVal_append, leVal_single]
      by_cases h80 : l.toNat ≥ 0x80
      · simp only [h80, ↓reduceIte]
        unfold ScriptNum.decode
        rw [getLast?_append_single]
        simp only [leVal_append, leVal_single, List.length_append, List.length_cons, List.length_nil, Nat.add_sub_cancel]
        by_cases hneg : v < 0
        · simp only [hneg, ↓reduceIte]
          have : (0x80 : UInt8).toNat ≥ 0x80 := by decide
          simp only [this, ↓reduceIte]
          have e : (0x80 : UInt8).toNat = 0x80 := by decide
          rw [e, Nat.mul_comm (256 ^ r.length) 0x80, Nat.add_sub_cancel, hval]
          omega
        · simp only [hneg, ↓reduceIte]
          have : ¬ (0x00 : UInt8).toNat ≥ 0x80 := by decide
          simp only [this, ↓reduceIte]
          have e : (0x00 : UInt8).toNat = 0 := by decide
          rw [e, Nat.mul_zero, Nat.add_zero, hval]
          omega
      · simp only [h80, ↓reduceIte]
        by_cases hneg : v < 0
        · simp only [hneg, ↓reduceIte]
          unfold ScriptNum.decode
          rw [getLast?_append_single]
          have hl2 : (UInt8.ofNat (l.toNat + 0x80)).toNat = l.toNat + 0x80 := by
            simp [UInt8.toNat_ofNat']; omega
          simp only [hl2, leVal_append, leVal_single, List.length_append, List.length_cons, List.length_nil, Nat.add_sub_cancel]
          have : l.toNat + 0x80 ≥ 0x80 := by omega
          simp only [this, ↓reduceIte]
          generalize 256 ^ r.dropLast.length = P at *
          have : leVal r.dropLast + P * (l.toNat + 0x80) - 0x80 * P = leVal r := by
            rw [e2, Nat.mul_add, Nat.mul_comm P 0x80]; omega
          rw [this, hval]; omega
        · simp only [hneg, ↓reduceIte]
          unfold ScriptNum.decode
          rw [hl]
          simp only [h80, ↓reduceIte, hval]
          omega

end GocoinV.Proofs.C01
