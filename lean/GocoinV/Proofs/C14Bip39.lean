/-
  Proofs.C14Bip39 — helper lemmas for the BIP39 round-trip theorems of Props/C14.
-/
import GocoinV.Proofs.C14Words
namespace GocoinV.Proofs.C14
open GocoinV Bip39

theorem beVal_snoc (xs : Bytes) (b : UInt8) : beVal (xs ++ [b]) = 256 * beVal xs + b.toNat := by
  simp [beVal, leVal]; omega

theorem leVal_snoc (l : Bytes) (b : UInt8) : leVal (l ++ [b]) = leVal l + 256 ^ l.length * b.toNat := by
  induction l with
  | nil => simp [leVal]
  | cons a l ih =>
    simp only [List.cons_append, leVal, ih, List.length_cons, Nat.pow_succ]
    grind

theorem beVal_cons (b : UInt8) (xs : Bytes) : beVal (b :: xs) = b.toNat * 256 ^ xs.length + beVal xs := by
  simp only [beVal, List.reverse_cons, leVal_snoc, List.length_reverse]
  grind

theorem beVal_nil : beVal ([] : Bytes) = 0 := rfl

theorem beVal_lt (xs : Bytes) : beVal xs < 256 ^ xs.length := by
  have := leVal_lt xs.reverse
  simpa [beVal] using this

theorem beVal_natBytes (n : Nat) : beVal (Base58.natBytes n) = n := by
  induction n using Nat.strongRecOn with
  | _ n ih =>
    rw [Base58.natBytes]
    split
    · subst_vars; rfl
    · rename_i h
      rw [beVal_snoc, ih (n / 256) (by omega)]
      have : (UInt8.ofNat (n % 256)).toNat = n % 256 := by simp [UInt8.toNat_ofNat']
      omega

/-- natBytes of the value of (zeros ++ rest) -/
theorem natBytes_snoc (n : Nat) (h : n ≠ 0) :
    Base58.natBytes n = Base58.natBytes (n / 256) ++ [UInt8.ofNat (n % 256)] := by
  rw [Base58.natBytes]; simp [h]

theorem natBytes_zero : Base58.natBytes 0 = [] := by rw [Base58.natBytes]; simp

theorem natBytes_length_le (n k : Nat) (h : n < 256 ^ k) : (Base58.natBytes n).length ≤ k := by
  induction k generalizing n with
  | zero => have : n = 0 := by simpa using h
            subst this; simp [natBytes_zero]
  | succ k ih =>
    by_cases hn : n = 0
    · subst hn; simp [natBytes_zero]
    · rw [natBytes_snoc n hn]
      have := ih (n / 256) (by rw [Nat.pow_succ] at h; omega)
      simp; omega

/-- digits of n in base 256, exactly k of them, most significant first -/
theorem pad_natBytes (k n : Nat) (h : n < 256 ^ k) :
    List.replicate (k - (Base58.natBytes n).length) (0 : UInt8) ++ Base58.natBytes n = beBytes k n := by
  induction k generalizing n with
  | zero => have : n = 0 := by simpa using h
            subst this; simp [natBytes_zero, beBytes, leBytes]
  | succ k ih =>
    by_cases hn : n = 0
    · subst hn
      simp only [natBytes_zero, List.length_nil, Nat.sub_zero, List.append_nil]
      have := ih 0 (Nat.pow_pos (by decide))
      simp only [natBytes_zero, List.length_nil, Nat.sub_zero, List.append_nil] at this
      simp only [beBytes, leBytes, List.reverse_cons] at *
      rw [← this]; simp [List.replicate_succ']
    · have h2 : n / 256 < 256 ^ k := by rw [Nat.pow_succ] at h; omega
      have hl := natBytes_length_le (n / 256) k h2
      rw [natBytes_snoc n hn]
      simp only [List.length_append, List.length_cons, List.length_nil]
      have e : k + 1 - ((Base58.natBytes (n / 256)).length + (0 + 1)) = k - (Base58.natBytes (n / 256)).length := by omega
      rw [e, ← List.append_assoc, ih (n / 256) h2]
      simp [beBytes, leBytes]

theorem beBytes_beVal (bs : Bytes) : beBytes bs.length (beVal bs) = bs := by
  have := leBytes_leVal bs.reverse
  simp only [List.length_reverse] at this
  simp [beBytes, beVal, this]

theorem digits11_length (k n : Nat) : (digits11 k n).length = k := by
  induction k generalizing n with
  | zero => rfl
  | succ k ih => simp [digits11, ih]

theorem digits11_lt (k n : Nat) : ∀ d ∈ digits11 k n, d < 2048 := by
  induction k generalizing n with
  | zero => simp [digits11]
  | succ k ih =>
    intro d hd
    simp only [digits11, List.mem_append, List.mem_singleton] at hd
    rcases hd with hd | rfl
    · exact ih _ d hd
    · omega

/-- folding the digits back -/
def undigits (b : Nat) : List Nat → Nat
  | [] => b
  | d :: t => undigits (b * 2048 + d) t

theorem undigits_append (b : Nat) (l1 l2 : List Nat) : undigits b (l1 ++ l2) = undigits (undigits b l1) l2 := by
  induction l1 generalizing b with
  | nil => rfl
  | cons d t ih => simp [undigits, ih]

theorem undigits_digits11 (k n b : Nat) : undigits b (digits11 k n) = b * 2048 ^ k + n % 2048 ^ k := by
  induction k generalizing n with
  | zero => simp [digits11, undigits, Nat.mod_one]
  | succ k ih =>
    simp only [digits11, undigits_append, ih, undigits, Nat.pow_succ]
    have : n % (2048 ^ k * 2048) = n % 2048 + 2048 * (n / 2048 % 2048 ^ k) := by
      rw [Nat.mul_comm, Nat.mod_mul]
    rw [this]; grind

theorem wordList_nodup : wordList.Nodup := nodup_of_key_inc wordKey _ keys_inc

theorem wordList_length : wordList.length = 2048 := by decide +kernel

theorem findIdx_getElem_of_nodup {α : Type} [BEq α] [LawfulBEq α] : ∀ (l : List α), l.Nodup → ∀ (i : Nat) (h : i < l.length),
    l.findIdx (· == l[i]) = i
  | [], _, i, h => by simp at h
  | a :: l, hn, 0, _ => by simp [List.findIdx_cons]
  | a :: l, hn, i+1, h => by
    have hn' := List.nodup_cons.mp hn
    have hne : a ≠ l[i]'(by simpa using h) := by
      intro e; exact hn'.1 (e ▸ List.getElem_mem _)
    simp only [List.getElem_cons_succ, List.findIdx_cons]
    have : (a == l[i]'(by simpa using h)) = false := by simpa using hne
    rw [this]
    simp [findIdx_getElem_of_nodup l hn'.2 i (by simpa using h)]

theorem wordIndex_word (d : Nat) (h : d < 2048) : wordIndex (wordList.getD d []) = some d := by
  have hl := wordList_length
  have hd : d < wordList.length := by omega
  have e : wordList.getD d [] = wordList[d] := by simp [List.getD, hd]
  have f := findIdx_getElem_of_nodup wordList wordList_nodup d hd
  unfold wordIndex
  rw [e]
  show (if List.findIdx (fun x => x == wordList[d]) wordList < wordList.length then some (List.findIdx (fun x => x == wordList[d]) wordList) else none) = some d
  rw [f, if_pos hd]

/-- the word of an 11-bit digit (`wordList[idx]`) -/
def wordOf (d : Nat) : Bytes := wordList.getD d []

theorem decodeWords_words : ∀ (ds : List Nat), (∀ d ∈ ds, d < 2048) → ∀ (b : Nat),
    decodeWords (ds.map wordOf) b = some (undigits b ds)
  | [], _, _ => by rw [List.map_nil, decodeWords, undigits]
  | d :: t, hds, b => by
    have hd := hds d List.mem_cons_self
    have ht : ∀ x ∈ t, x < 2048 := fun x hx => hds x (List.mem_cons_of_mem _ hx)
    have hw : wordIndex (wordOf d) = some d := wordIndex_word d hd
    rw [List.map_cons, decodeWords, hw]
    show decodeWords _ (b * 2048 + d % 65536) = _
    rw [Nat.mod_eq_of_lt (by omega), undigits]
    exact decodeWords_words t ht _

def noSpace (w : Bytes) : Prop := w ≠ [] ∧ ∀ c ∈ w, isSpace c = false

theorem fieldsAux_word (w rest cur : Bytes) (h : ∀ c ∈ w, isSpace c = false) :
    fieldsAux (w ++ rest) cur = fieldsAux rest (w.reverse ++ cur) := by
  induction w generalizing cur with
  | nil => rfl
  | cons c t ih =>
    have hc := h c List.mem_cons_self
    rw [List.cons_append, fieldsAux, hc]
    simp only [Bool.false_eq_true, ↓reduceIte]
    rw [ih _ (fun x hx => h x (List.mem_cons_of_mem _ hx))]
    simp

theorem fields_joinSp : ∀ (ws : List Bytes), (∀ w ∈ ws, noSpace w) → fields (joinSp ws) = ws
  | [], _ => rfl
  | [w], h => by
    have hw := h w List.mem_cons_self
    have := fieldsAux_word w [] [] hw.2
    simp only [List.append_nil] at this
    rw [fields, joinSp, this, fieldsAux]
    have : w.reverse.isEmpty = false := by simpa using hw.1
    simp [this]
  | w :: w' :: ws, h => by
    have hw := h w List.mem_cons_self
    have ih := fields_joinSp (w' :: ws) (fun x hx => h x (List.mem_cons_of_mem _ hx))
    have ej : joinSp (w :: w' :: ws) = w ++ 32 :: joinSp (w' :: ws) := rfl
    rw [fields, ej, fieldsAux_word w _ [] hw.2, fieldsAux]
    have : (w.reverse ++ []).isEmpty = false := by simpa using hw.1
    have sp : isSpace 32 = true := by decide
    rw [sp]
    simp only [↓reduceIte, this, Bool.false_eq_true]
    rw [fields] at ih
    rw [ih]; simp

theorem splitAux_word (w rest cur : Bytes) (h : ∀ c ∈ w, isSpace c = false) :
    splitAux (w ++ rest) cur = splitAux rest (w.reverse ++ cur) := by
  induction w generalizing cur with
  | nil => rfl
  | cons c t ih =>
    have hc := h c List.mem_cons_self
    have hne : c ≠ 32 := by
      intro e; subst e; exact absurd hc (by decide)
    rw [List.cons_append, splitAux]
    simp only [hne, ↓reduceIte]
    rw [ih _ (fun x hx => h x (List.mem_cons_of_mem _ hx))]
    simp

/-- `strings.Split(m, " ")` and `strings.Fields(m)` agree on single-space-joined sentences -/
theorem splitSp_joinSp : ∀ (ws : List Bytes), ws ≠ [] → (∀ w ∈ ws, noSpace w) → splitSp (joinSp ws) = ws
  | [], h, _ => absurd rfl h
  | [w], _, h => by
    have hw := h w List.mem_cons_self
    have := splitAux_word w [] [] hw.2
    simp only [List.append_nil] at this
    rw [splitSp, joinSp, this, splitAux]
    simp
  | w :: w' :: ws, _, h => by
    have hw := h w List.mem_cons_self
    have ih := splitSp_joinSp (w' :: ws) (by simp) (fun x hx => h x (List.mem_cons_of_mem _ hx))
    have ej : joinSp (w :: w' :: ws) = w ++ 32 :: joinSp (w' :: ws) := rfl
    rw [splitSp, ej, splitAux_word w _ [] hw.2, splitAux]
    simp only [↓reduceIte]
    rw [splitSp] at ih
    rw [ih]; simp

theorem wordOf_noSpace (d : Nat) (h : d < 2048) : noSpace (wordOf d) := by
  have hl := wordList_length
  have hd : d < wordList.length := by omega
  have e : wordOf d = wordList[d] := by simp [wordOf, List.getD, hd]
  have hm : wordList[d] ∈ wordList := List.getElem_mem _
  have := List.all_eq_true.mp words_shape _ hm
  rw [e]
  simp only [Bool.and_eq_true, decide_eq_true_eq, List.all_eq_true] at this
  constructor
  · intro h0; rw [h0] at this; simp at this
  · intro c hc
    have := this.2 c hc
    unfold isSpace
    have h1 : c.toNat ≠ 32 ∧ c.toNat ≠ 9 ∧ c.toNat ≠ 10 ∧ c.toNat ≠ 11 ∧ c.toNat ≠ 12 ∧ c.toNat ≠ 13 := by omega
    have ne : ∀ k : UInt8, c.toNat ≠ k.toNat → c ≠ k := fun k hk e => hk (by rw [e])
    simp [ne 32 h1.1, ne 9 h1.2.1, ne 10 h1.2.2.1, ne 11 h1.2.2.2.1, ne 12 h1.2.2.2.2.1, ne 13 h1.2.2.2.2.2]

/-- the bits shifted in do not depend on the accumulator -/
theorem addChecksumLoop_linear (first : UInt8) (k i n : Nat) :
    addChecksumLoop first k i n = n * 2 ^ k + addChecksumLoop first k i 0 := by
  induction k generalizing i n with
  | zero => simp [addChecksumLoop]
  | succ k ih =>
    rw [addChecksumLoop, ih, addChecksumLoop, ih (i + 1) (0 * 2 + _)]
    simp only [Nat.pow_succ]; grind

theorem addChecksumLoop_val (first : UInt8) (k : Nat) (hk : k = 4 ∨ k = 5 ∨ k = 6 ∨ k = 7 ∨ k = 8) :
    addChecksumLoop first k 0 0 = first.toNat / 2 ^ (8 - k) := by
  have key : ∀ f : Fin 256, ∀ k : Fin 9, addChecksumLoop (UInt8.ofNat f.val) k.val 0 0 = f.val / 2 ^ (8 - k.val) := by
    decide +kernel
  have hf : first = UInt8.ofNat first.toNat := by simp
  have := key ⟨first.toNat, first.toNat_lt⟩ ⟨k, by omega⟩
  rw [hf]; simpa using this


theorem pad_natBytes_beVal (e : Bytes) : padByteSlice (Base58.natBytes (beVal e)) e.length = e := by
  have h := pad_natBytes e.length (beVal e) (beVal_lt e)
  rw [beBytes_beVal] at h
  have hl := natBytes_length_le (beVal e) e.length (beVal_lt e)
  unfold padByteSlice
  split
  · rename_i hle
    have : e.length - (Base58.natBytes (beVal e)).length = 0 := by omega
    rw [this] at h; simpa using h
  · exact h

set_option hygiene false in
local macro "bip39case" P:num Q:num : tactic => `(tactic| (
  simp only [Nat.reduceMul, Nat.reducePow, Nat.reduceMod, Nat.reduceLT, Nat.reduceGT, Nat.reduceSub] at *
  simp only [ne_eq, not_true_eq_false, or_self, ↓reduceIte, hdec, checksumMask, checksumShift, List.length_map,
    digits11_length, Nat.reduceEqDiff, Nat.reduceAdd, Nat.reduceDiv, Nat.reduceMul, Nat.zero_add, not_false_eq_true]
  have h1 : (beVal e * $P + chk) % $Q = beVal e * $P + chk := Nat.mod_eq_of_lt (by omega)
  have h2 : (beVal e * $P + chk) % $P = chk := by omega
  have h3 : (beVal e * $P + chk) / $P = beVal e := by omega
  rw [hl] at hpad
  rw [h1, h2, h3, hpad]
  try simp only [Nat.div_one]))

/-- decoding the sentence made of the 3·cs digits of `beVal e · 2^cs + chk` gives back `e` exactly when
    `chk` is the checksum prefix -/
theorem entropy_of_digits (C : WalletCrypto) (e : Bytes) (cs chk : Nat) (hl : e.length = 4 * cs)
    (hcs : cs = 4 ∨ cs = 5 ∨ cs = 6 ∨ cs = 7 ∨ cs = 8) (hchk : chk < 2 ^ cs) :
    entropyFromMnemonic C (joinSp ((digits11 (3 * cs) (beVal e * 2 ^ cs + chk)).map wordOf)) =
      if chk ≠ ((C.sha256 e).headD 0).toNat / 2 ^ (8 - cs) then .error .checksum else .ok e := by
  have hf : fields (joinSp ((digits11 (3 * cs) (beVal e * 2 ^ cs + chk)).map wordOf)) =
      (digits11 (3 * cs) (beVal e * 2 ^ cs + chk)).map wordOf := by
    apply fields_joinSp
    intro w hw
    obtain ⟨d, hd, rfl⟩ := List.mem_map.mp hw
    exact wordOf_noSpace d (digits11_lt _ _ d hd)
  have hdec := decodeWords_words (digits11 (3 * cs) (beVal e * 2 ^ cs + chk)) (digits11_lt _ _) 0
  rw [undigits_digits11] at hdec
  have hb := beVal_lt e
  rw [hl] at hb
  unfold entropyFromMnemonic splitMnemonicWords
  rw [hf]
  simp only [List.length_map, digits11_length]
  have hpad := pad_natBytes_beVal e
  rcases hcs with rfl | rfl | rfl | rfl | rfl
  · bip39case 16 5444517870735015415413993718908291383296
  · bip39case 32 46768052394588893382517914646921056628989841375232
  · bip39case 64 401734511064747568885490523085290650630550748445698208825344
  · bip39case 128 3450873173395281893717377931138512726225554486085193277581262111899648
  · bip39case 256 29642774844752946028434172162224104410437116074403984394101141506025761187823616


theorem addChecksumNat_eq (C : WalletCrypto) (e : Bytes) (cs : Nat) (hl : e.length = 4 * cs) (h4 : 4 ≤ cs) (h8 : cs ≤ 8) :
    addChecksumNat C e = beVal e * 2 ^ cs + ((C.sha256 e).headD 0).toNat / 2 ^ (8 - cs) := by
  unfold addChecksumNat
  have : e.length / 4 = cs := by omega
  rw [this, addChecksumLoop_linear, addChecksumLoop_val _ cs (by omega)]

theorem newMnemonic_eq (C : WalletCrypto) (e : Bytes) (cs : Nat) (hl : e.length = 4 * cs) (h4 : 4 ≤ cs) (h8 : cs ≤ 8) :
    newMnemonic C e = .ok (joinSp ((digits11 (3 * cs) (addChecksumNat C e)).map wordOf)) := by
  unfold newMnemonic
  have c1 : ¬ (e.length * 8 % 32 ≠ 0 ∨ e.length * 8 < 128 ∨ e.length * 8 > 256) := by omega
  have c2 : (e.length * 8 + e.length * 8 / 32) / 11 = 3 * cs := by omega
  simp only [c1, ↓reduceIte, c2, beVal_natBytes]
  rfl


/-- the sentence whose 11-bit groups spell `entropy ‖ chk` (chk = the last `cs` bits) -/
def sentence (e : Bytes) (cs chk : Nat) : Bytes :=
  joinSp ((digits11 (3 * cs) (beVal e * 2 ^ cs + chk)).map wordOf)

/-- BIP39 checksum: the first `cs` bits of SHA-256(entropy) -/
def checksumBits (C : WalletCrypto) (e : Bytes) (cs : Nat) : Nat := ((C.sha256 e).headD 0).toNat / 2 ^ (8 - cs)

theorem checksumBits_lt (C : WalletCrypto) (e : Bytes) (cs : Nat) (h4 : 4 ≤ cs) (h8 : cs ≤ 8) : checksumBits C e cs < 2 ^ cs := by
  unfold checksumBits
  have := ((C.sha256 e).headD 0).toNat_lt
  have hcs : cs = 4 ∨ cs = 5 ∨ cs = 6 ∨ cs = 7 ∨ cs = 8 := by omega
  rcases hcs with rfl | rfl | rfl | rfl | rfl <;> simp only [Nat.reduceSub, Nat.reducePow] <;> omega

theorem newMnemonic_sentence (C : WalletCrypto) (e : Bytes) (cs : Nat) (hl : e.length = 4 * cs) (h4 : 4 ≤ cs) (h8 : cs ≤ 8) :
    newMnemonic C e = .ok (sentence e cs (checksumBits C e cs)) := by
  rw [newMnemonic_eq C e cs hl h4 h8, addChecksumNat_eq C e cs hl h4 h8]
  rfl

end GocoinV.Proofs.C14
