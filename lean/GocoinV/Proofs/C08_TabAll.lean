/- C08 table proof chunk (written once by Proofs/mk_c08_tab.py; static). -/
import GocoinV.Gen.Tables
import GocoinV.Proofs.C08_TabPreG_00
import GocoinV.Proofs.C08_TabPreG_01
import GocoinV.Proofs.C08_TabPreG_02
import GocoinV.Proofs.C08_TabPreG_03
import GocoinV.Proofs.C08_TabPreG_04
import GocoinV.Proofs.C08_TabPreG_05
import GocoinV.Proofs.C08_TabPreG_06
import GocoinV.Proofs.C08_TabPreG_07
import GocoinV.Proofs.C08_TabPreG_08
import GocoinV.Proofs.C08_TabPreG_09
import GocoinV.Proofs.C08_TabPreG_10
import GocoinV.Proofs.C08_TabPreG_11
import GocoinV.Proofs.C08_TabPreG_12
import GocoinV.Proofs.C08_TabPreG_13
import GocoinV.Proofs.C08_TabPreG_14
import GocoinV.Proofs.C08_TabPreG_15
import GocoinV.Proofs.C08_TabPreG128_00
import GocoinV.Proofs.C08_TabPreG128_01
import GocoinV.Proofs.C08_TabPreG128_02
import GocoinV.Proofs.C08_TabPreG128_03
import GocoinV.Proofs.C08_TabPreG128_04
import GocoinV.Proofs.C08_TabPreG128_05
import GocoinV.Proofs.C08_TabPreG128_06
import GocoinV.Proofs.C08_TabPreG128_07
import GocoinV.Proofs.C08_TabPreG128_08
import GocoinV.Proofs.C08_TabPreG128_09
import GocoinV.Proofs.C08_TabPreG128_10
import GocoinV.Proofs.C08_TabPreG128_11
import GocoinV.Proofs.C08_TabPreG128_12
import GocoinV.Proofs.C08_TabPreG128_13
import GocoinV.Proofs.C08_TabPreG128_14
import GocoinV.Proofs.C08_TabPreG128_15
import GocoinV.Proofs.C08_TabPrec
namespace GocoinV.C08
open GocoinV.Gen

theorem getLastD_append_ne {α : Type} (l1 l2 : List α) (d : α) (h : l2 ≠ []) :
    (l1 ++ l2).getLastD d = l2.getLastD d := by
  cases l2 with
  | nil => exact absurd rfl h
  | cons b t =>
    cases hl : (b :: t).getLast? with
    | none => exact absurd (List.getLast?_eq_none_iff.mp hl) (by simp)
    | some x => simp [List.getLastD_eq_getLast?, List.getLast?_append, hl]

theorem pts_append (a b : List (List Nat)) : pts (a ++ b) = pts a ++ pts b := List.map_append

theorem pts_getD (l : List (List Nat)) (i : Nat) (hi : i < l.length) :
    (pts l).getD i none = ptOfLimbs (l.getD i []) := by
  simp [pts, List.getD_eq_getElem?_getD, hi]

theorem preG_chain : chainOK (Secp.dbl Secp.G) (pts Tables.preGAll) = true := by
  unfold Tables.preGAll
  have h0 := preG_00
  have h1 : chainOK (Secp.dbl Secp.G) (pts (Tables.preG00 ++ Tables.preG01)) = true := by
    rw [pts_append]
    refine chainOK_glue _ _ _ h0 ?_ ?_
    · exact preG_01
    · exact preG_00_ne
  have h2 : chainOK (Secp.dbl Secp.G) (pts (Tables.preG00 ++ Tables.preG01 ++ Tables.preG02)) = true := by
    rw [pts_append]
    refine chainOK_glue _ _ _ h1 ?_ ?_
    · rw [pts_append, getLastD_append_ne _ _ _ preG_01_ne]; exact preG_02
    · rw [pts_append]; intro h; exact preG_01_ne (List.append_eq_nil_iff.mp h).2
  have h3 : chainOK (Secp.dbl Secp.G) (pts (Tables.preG00 ++ Tables.preG01 ++ Tables.preG02 ++ Tables.preG03)) = true := by
    rw [pts_append]
    refine chainOK_glue _ _ _ h2 ?_ ?_
    · rw [pts_append, getLastD_append_ne _ _ _ preG_02_ne]; exact preG_03
    · rw [pts_append]; intro h; exact preG_02_ne (List.append_eq_nil_iff.mp h).2
  have h4 : chainOK (Secp.dbl Secp.G) (pts (Tables.preG00 ++ Tables.preG01 ++ Tables.preG02 ++ Tables.preG03 ++ Tables.preG04)) = true := by
    rw [pts_append]
    refine chainOK_glue _ _ _ h3 ?_ ?_
    · rw [pts_append, getLastD_append_ne _ _ _ preG_03_ne]; exact preG_04
    · rw [pts_append]; intro h; exact preG_03_ne (List.append_eq_nil_iff.mp h).2
  have h5 : chainOK (Secp.dbl Secp.G) (pts (Tables.preG00 ++ Tables.preG01 ++ Tables.preG02 ++ Tables.preG03 ++ Tables.preG04 ++ Tables.preG05)) = true := by
    rw [pts_append]
    refine chainOK_glue _ _ _ h4 ?_ ?_
    · rw [pts_append, getLastD_append_ne _ _ _ preG_04_ne]; exact preG_05
    · rw [pts_append]; intro h; exact preG_04_ne (List.append_eq_nil_iff.mp h).2
  have h6 : chainOK (Secp.dbl Secp.G) (pts (Tables.preG00 ++ Tables.preG01 ++ Tables.preG02 ++ Tables.preG03 ++ Tables.preG04 ++ Tables.preG05 ++ Tables.preG06)) = true := by
    rw [pts_append]
    refine chainOK_glue _ _ _ h5 ?_ ?_
    · rw [pts_append, getLastD_append_ne _ _ _ preG_05_ne]; exact preG_06
    · rw [pts_append]; intro h; exact preG_05_ne (List.append_eq_nil_iff.mp h).2
  have h7 : chainOK (Secp.dbl Secp.G) (pts (Tables.preG00 ++ Tables.preG01 ++ Tables.preG02 ++ Tables.preG03 ++ Tables.preG04 ++ Tables.preG05 ++ Tables.preG06 ++ Tables.preG07)) = true := by
    rw [pts_append]
    refine chainOK_glue _ _ _ h6 ?_ ?_
    · rw [pts_append, getLastD_append_ne _ _ _ preG_06_ne]; exact preG_07
    · rw [pts_append]; intro h; exact preG_06_ne (List.append_eq_nil_iff.mp h).2
  have h8 : chainOK (Secp.dbl Secp.G) (pts (Tables.preG00 ++ Tables.preG01 ++ Tables.preG02 ++ Tables.preG03 ++ Tables.preG04 ++ Tables.preG05 ++ Tables.preG06 ++ Tables.preG07 ++ Tables.preG08)) = true := by
    rw [pts_append]
    refine chainOK_glue _ _ _ h7 ?_ ?_
    · rw [pts_append, getLastD_append_ne _ _ _ preG_07_ne]; exact preG_08
    · rw [pts_append]; intro h; exact preG_07_ne (List.append_eq_nil_iff.mp h).2
  have h9 : chainOK (Secp.dbl Secp.G) (pts (Tables.preG00 ++ Tables.preG01 ++ Tables.preG02 ++ Tables.preG03 ++ Tables.preG04 ++ Tables.preG05 ++ Tables.preG06 ++ Tables.preG07 ++ Tables.preG08 ++ Tables.preG09)) = true := by
    rw [pts_append]
    refine chainOK_glue _ _ _ h8 ?_ ?_
    · rw [pts_append, getLastD_append_ne _ _ _ preG_08_ne]; exact preG_09
    · rw [pts_append]; intro h; exact preG_08_ne (List.append_eq_nil_iff.mp h).2
  have h10 : chainOK (Secp.dbl Secp.G) (pts (Tables.preG00 ++ Tables.preG01 ++ Tables.preG02 ++ Tables.preG03 ++ Tables.preG04 ++ Tables.preG05 ++ Tables.preG06 ++ Tables.preG07 ++ Tables.preG08 ++ Tables.preG09 ++ Tables.preG10)) = true := by
    rw [pts_append]
    refine chainOK_glue _ _ _ h9 ?_ ?_
    · rw [pts_append, getLastD_append_ne _ _ _ preG_09_ne]; exact preG_10
    · rw [pts_append]; intro h; exact preG_09_ne (List.append_eq_nil_iff.mp h).2
  have h11 : chainOK (Secp.dbl Secp.G) (pts (Tables.preG00 ++ Tables.preG01 ++ Tables.preG02 ++ Tables.preG03 ++ Tables.preG04 ++ Tables.preG05 ++ Tables.preG06 ++ Tables.preG07 ++ Tables.preG08 ++ Tables.preG09 ++ Tables.preG10 ++ Tables.preG11)) = true := by
    rw [pts_append]
    refine chainOK_glue _ _ _ h10 ?_ ?_
    · rw [pts_append, getLastD_append_ne _ _ _ preG_10_ne]; exact preG_11
    · rw [pts_append]; intro h; exact preG_10_ne (List.append_eq_nil_iff.mp h).2
  have h12 : chainOK (Secp.dbl Secp.G) (pts (Tables.preG00 ++ Tables.preG01 ++ Tables.preG02 ++ Tables.preG03 ++ Tables.preG04 ++ Tables.preG05 ++ Tables.preG06 ++ Tables.preG07 ++ Tables.preG08 ++ Tables.preG09 ++ Tables.preG10 ++ Tables.preG11 ++ Tables.preG12)) = true := by
    rw [pts_append]
    refine chainOK_glue _ _ _ h11 ?_ ?_
    · rw [pts_append, getLastD_append_ne _ _ _ preG_11_ne]; exact preG_12
    · rw [pts_append]; intro h; exact preG_11_ne (List.append_eq_nil_iff.mp h).2
  have h13 : chainOK (Secp.dbl Secp.G) (pts (Tables.preG00 ++ Tables.preG01 ++ Tables.preG02 ++ Tables.preG03 ++ Tables.preG04 ++ Tables.preG05 ++ Tables.preG06 ++ Tables.preG07 ++ Tables.preG08 ++ Tables.preG09 ++ Tables.preG10 ++ Tables.preG11 ++ Tables.preG12 ++ Tables.preG13)) = true := by
    rw [pts_append]
    refine chainOK_glue _ _ _ h12 ?_ ?_
    · rw [pts_append, getLastD_append_ne _ _ _ preG_12_ne]; exact preG_13
    · rw [pts_append]; intro h; exact preG_12_ne (List.append_eq_nil_iff.mp h).2
  have h14 : chainOK (Secp.dbl Secp.G) (pts (Tables.preG00 ++ Tables.preG01 ++ Tables.preG02 ++ Tables.preG03 ++ Tables.preG04 ++ Tables.preG05 ++ Tables.preG06 ++ Tables.preG07 ++ Tables.preG08 ++ Tables.preG09 ++ Tables.preG10 ++ Tables.preG11 ++ Tables.preG12 ++ Tables.preG13 ++ Tables.preG14)) = true := by
    rw [pts_append]
    refine chainOK_glue _ _ _ h13 ?_ ?_
    · rw [pts_append, getLastD_append_ne _ _ _ preG_13_ne]; exact preG_14
    · rw [pts_append]; intro h; exact preG_13_ne (List.append_eq_nil_iff.mp h).2
  have h15 : chainOK (Secp.dbl Secp.G) (pts (Tables.preG00 ++ Tables.preG01 ++ Tables.preG02 ++ Tables.preG03 ++ Tables.preG04 ++ Tables.preG05 ++ Tables.preG06 ++ Tables.preG07 ++ Tables.preG08 ++ Tables.preG09 ++ Tables.preG10 ++ Tables.preG11 ++ Tables.preG12 ++ Tables.preG13 ++ Tables.preG14 ++ Tables.preG15)) = true := by
    rw [pts_append]
    refine chainOK_glue _ _ _ h14 ?_ ?_
    · rw [pts_append, getLastD_append_ne _ _ _ preG_14_ne]; exact preG_15
    · rw [pts_append]; intro h; exact preG_14_ne (List.append_eq_nil_iff.mp h).2
  exact h15

theorem preG128_chain : chainOK (Secp.dbl g128) (pts Tables.preG128All) = true := by
  unfold Tables.preG128All
  have h0 := preG128_00
  have h1 : chainOK (Secp.dbl g128) (pts (Tables.preG12800 ++ Tables.preG12801)) = true := by
    rw [pts_append]
    refine chainOK_glue _ _ _ h0 ?_ ?_
    · exact preG128_01
    · exact preG128_00_ne
  have h2 : chainOK (Secp.dbl g128) (pts (Tables.preG12800 ++ Tables.preG12801 ++ Tables.preG12802)) = true := by
    rw [pts_append]
    refine chainOK_glue _ _ _ h1 ?_ ?_
    · rw [pts_append, getLastD_append_ne _ _ _ preG128_01_ne]; exact preG128_02
    · rw [pts_append]; intro h; exact preG128_01_ne (List.append_eq_nil_iff.mp h).2
  have h3 : chainOK (Secp.dbl g128) (pts (Tables.preG12800 ++ Tables.preG12801 ++ Tables.preG12802 ++ Tables.preG12803)) = true := by
    rw [pts_append]
    refine chainOK_glue _ _ _ h2 ?_ ?_
    · rw [pts_append, getLastD_append_ne _ _ _ preG128_02_ne]; exact preG128_03
    · rw [pts_append]; intro h; exact preG128_02_ne (List.append_eq_nil_iff.mp h).2
  have h4 : chainOK (Secp.dbl g128) (pts (Tables.preG12800 ++ Tables.preG12801 ++ Tables.preG12802 ++ Tables.preG12803 ++ Tables.preG12804)) = true := by
    rw [pts_append]
    refine chainOK_glue _ _ _ h3 ?_ ?_
    · rw [pts_append, getLastD_append_ne _ _ _ preG128_03_ne]; exact preG128_04
    · rw [pts_append]; intro h; exact preG128_03_ne (List.append_eq_nil_iff.mp h).2
  have h5 : chainOK (Secp.dbl g128) (pts (Tables.preG12800 ++ Tables.preG12801 ++ Tables.preG12802 ++ Tables.preG12803 ++ Tables.preG12804 ++ Tables.preG12805)) = true := by
    rw [pts_append]
    refine chainOK_glue _ _ _ h4 ?_ ?_
    · rw [pts_append, getLastD_append_ne _ _ _ preG128_04_ne]; exact preG128_05
    · rw [pts_append]; intro h; exact preG128_04_ne (List.append_eq_nil_iff.mp h).2
  have h6 : chainOK (Secp.dbl g128) (pts (Tables.preG12800 ++ Tables.preG12801 ++ Tables.preG12802 ++ Tables.preG12803 ++ Tables.preG12804 ++ Tables.preG12805 ++ Tables.preG12806)) = true := by
    rw [pts_append]
    refine chainOK_glue _ _ _ h5 ?_ ?_
    · rw [pts_append, getLastD_append_ne _ _ _ preG128_05_ne]; exact preG128_06
    · rw [pts_append]; intro h; exact preG128_05_ne (List.append_eq_nil_iff.mp h).2
  have h7 : chainOK (Secp.dbl g128) (pts (Tables.preG12800 ++ Tables.preG12801 ++ Tables.preG12802 ++ Tables.preG12803 ++ Tables.preG12804 ++ Tables.preG12805 ++ Tables.preG12806 ++ Tables.preG12807)) = true := by
    rw [pts_append]
    refine chainOK_glue _ _ _ h6 ?_ ?_
    · rw [pts_append, getLastD_append_ne _ _ _ preG128_06_ne]; exact preG128_07
    · rw [pts_append]; intro h; exact preG128_06_ne (List.append_eq_nil_iff.mp h).2
  have h8 : chainOK (Secp.dbl g128) (pts (Tables.preG12800 ++ Tables.preG12801 ++ Tables.preG12802 ++ Tables.preG12803 ++ Tables.preG12804 ++ Tables.preG12805 ++ Tables.preG12806 ++ Tables.preG12807 ++ Tables.preG12808)) = true := by
    rw [pts_append]
    refine chainOK_glue _ _ _ h7 ?_ ?_
    · rw [pts_append, getLastD_append_ne _ _ _ preG128_07_ne]; exact preG128_08
    · rw [pts_append]; intro h; exact preG128_07_ne (List.append_eq_nil_iff.mp h).2
  have h9 : chainOK (Secp.dbl g128) (pts (Tables.preG12800 ++ Tables.preG12801 ++ Tables.preG12802 ++ Tables.preG12803 ++ Tables.preG12804 ++ Tables.preG12805 ++ Tables.preG12806 ++ Tables.preG12807 ++ Tables.preG12808 ++ Tables.preG12809)) = true := by
    rw [pts_append]
    refine chainOK_glue _ _ _ h8 ?_ ?_
    · rw [pts_append, getLastD_append_ne _ _ _ preG128_08_ne]; exact preG128_09
    · rw [pts_append]; intro h; exact preG128_08_ne (List.append_eq_nil_iff.mp h).2
  have h10 : chainOK (Secp.dbl g128) (pts (Tables.preG12800 ++ Tables.preG12801 ++ Tables.preG12802 ++ Tables.preG12803 ++ Tables.preG12804 ++ Tables.preG12805 ++ Tables.preG12806 ++ Tables.preG12807 ++ Tables.preG12808 ++ Tables.preG12809 ++ Tables.preG12810)) = true := by
    rw [pts_append]
    refine chainOK_glue _ _ _ h9 ?_ ?_
    · rw [pts_append, getLastD_append_ne _ _ _ preG128_09_ne]; exact preG128_10
    · rw [pts_append]; intro h; exact preG128_09_ne (List.append_eq_nil_iff.mp h).2
  have h11 : chainOK (Secp.dbl g128) (pts (Tables.preG12800 ++ Tables.preG12801 ++ Tables.preG12802 ++ Tables.preG12803 ++ Tables.preG12804 ++ Tables.preG12805 ++ Tables.preG12806 ++ Tables.preG12807 ++ Tables.preG12808 ++ Tables.preG12809 ++ Tables.preG12810 ++ Tables.preG12811)) = true := by
    rw [pts_append]
    refine chainOK_glue _ _ _ h10 ?_ ?_
    · rw [pts_append, getLastD_append_ne _ _ _ preG128_10_ne]; exact preG128_11
    · rw [pts_append]; intro h; exact preG128_10_ne (List.append_eq_nil_iff.mp h).2
  have h12 : chainOK (Secp.dbl g128) (pts (Tables.preG12800 ++ Tables.preG12801 ++ Tables.preG12802 ++ Tables.preG12803 ++ Tables.preG12804 ++ Tables.preG12805 ++ Tables.preG12806 ++ Tables.preG12807 ++ Tables.preG12808 ++ Tables.preG12809 ++ Tables.preG12810 ++ Tables.preG12811 ++ Tables.preG12812)) = true := by
    rw [pts_append]
    refine chainOK_glue _ _ _ h11 ?_ ?_
    · rw [pts_append, getLastD_append_ne _ _ _ preG128_11_ne]; exact preG128_12
    · rw [pts_append]; intro h; exact preG128_11_ne (List.append_eq_nil_iff.mp h).2
  have h13 : chainOK (Secp.dbl g128) (pts (Tables.preG12800 ++ Tables.preG12801 ++ Tables.preG12802 ++ Tables.preG12803 ++ Tables.preG12804 ++ Tables.preG12805 ++ Tables.preG12806 ++ Tables.preG12807 ++ Tables.preG12808 ++ Tables.preG12809 ++ Tables.preG12810 ++ Tables.preG12811 ++ Tables.preG12812 ++ Tables.preG12813)) = true := by
    rw [pts_append]
    refine chainOK_glue _ _ _ h12 ?_ ?_
    · rw [pts_append, getLastD_append_ne _ _ _ preG128_12_ne]; exact preG128_13
    · rw [pts_append]; intro h; exact preG128_12_ne (List.append_eq_nil_iff.mp h).2
  have h14 : chainOK (Secp.dbl g128) (pts (Tables.preG12800 ++ Tables.preG12801 ++ Tables.preG12802 ++ Tables.preG12803 ++ Tables.preG12804 ++ Tables.preG12805 ++ Tables.preG12806 ++ Tables.preG12807 ++ Tables.preG12808 ++ Tables.preG12809 ++ Tables.preG12810 ++ Tables.preG12811 ++ Tables.preG12812 ++ Tables.preG12813 ++ Tables.preG12814)) = true := by
    rw [pts_append]
    refine chainOK_glue _ _ _ h13 ?_ ?_
    · rw [pts_append, getLastD_append_ne _ _ _ preG128_13_ne]; exact preG128_14
    · rw [pts_append]; intro h; exact preG128_13_ne (List.append_eq_nil_iff.mp h).2
  have h15 : chainOK (Secp.dbl g128) (pts (Tables.preG12800 ++ Tables.preG12801 ++ Tables.preG12802 ++ Tables.preG12803 ++ Tables.preG12804 ++ Tables.preG12805 ++ Tables.preG12806 ++ Tables.preG12807 ++ Tables.preG12808 ++ Tables.preG12809 ++ Tables.preG12810 ++ Tables.preG12811 ++ Tables.preG12812 ++ Tables.preG12813 ++ Tables.preG12814 ++ Tables.preG12815)) = true := by
    rw [pts_append]
    refine chainOK_glue _ _ _ h14 ?_ ?_
    · rw [pts_append, getLastD_append_ne _ _ _ preG128_14_ne]; exact preG128_15
    · rw [pts_append]; intro h; exact preG128_14_ne (List.append_eq_nil_iff.mp h).2
  exact h15

end GocoinV.C08
