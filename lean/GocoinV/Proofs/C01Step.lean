/-
  Proofs.C01Step — simulation between one iteration of the model's interpreter loop (`Script.stepAt`) and one
  instruction of the spec (`ScriptSpec.execInstr`), for the opcodes in `provedOp`, and its lifting to whole
  scripts (`evalLoop` vs `execInstrs ∘ parse`).  Conditional-free fragment: the relation keeps both condition
  stacks empty (IF/NOTIF/ELSE/ENDIF are not in `provedOp`).
-/
import GocoinV.Proofs.C01Decode
import GocoinV.Proofs.C01Num
namespace GocoinV.Proofs.C01
open GocoinV GocoinV.Script

theorem has_testBit (f k : Nat) : has f (1 <<< k) = f.testBit k := by
  unfold has
  rw [Nat.one_shiftLeft]
  cases h : f.testBit k
  · have : f &&& 2 ^ k = 0 := by
      apply Nat.eq_of_testBit_eq
      intro i
      simp only [Nat.testBit_and, Nat.testBit_two_pow, Nat.zero_testBit]
      by_cases hi : k = i
      · subst hi; simp [h]
      · simp [hi]
    simp [this]
  · have : (f &&& 2 ^ k).testBit k = true := by simp [Nat.testBit_and, h]
    have hne : f &&& 2 ^ k ≠ 0 := by intro h0; rw [h0] at this; simp at this
    simp [hne]

theorem isDisabled_eq (op : Nat) : isDisabled op = ScriptSpec.isDisabledOpcode op := by
  by_cases h : op < 256
  · have all : ∀ n, n < 256 → isDisabled n = ScriptSpec.isDisabledOpcode n := by decide +kernel
    exact all op h
  · unfold isDisabled ScriptSpec.isDisabledOpcode
    have e : ∀ k, k < 256 → (op == k) = false := by intro k hk; simp; omega
    have l : ∀ k, k < 256 → decide (op ≤ k) = false := by intro k hk; simp; omega
    simp [e, l]

theorem checkMinimalPush_eq (d : Bytes) (op : Nat) : checkMinimalPush d op = ScriptSpec.checkMinimalPush d op := by
  unfold checkMinimalPush ScriptSpec.checkMinimalPush at'
  match d with
  | [] => simp
  | [b] =>
    simp only [List.length_cons, List.length_nil, List.getD_cons_zero]
    have c1 : decide (b ≥ 1) = decide (1 ≤ b.toNat) := by
      have : (b ≥ 1) ↔ (1 ≤ b.toNat) := by show (1 : UInt8) ≤ b ↔ _; rw [UInt8.le_iff_toNat_le]; rfl
      simp [this]
    have c2 : decide (b ≤ 16) = decide (b.toNat ≤ 16) := by
      have : (b ≤ 16) ↔ (b.toNat ≤ 16) := by rw [UInt8.le_iff_toNat_le]; rfl
      simp [this]
    rw [c1, c2]
    by_cases h1 : (1 ≤ b.toNat ∧ b.toNat ≤ 16)
    · have : 0x51 + b.toNat - 1 = 0x50 + b.toNat := by omega
      simp [h1, this]
    · have h1' : (decide (1 ≤ b.toNat) && decide (b.toNat ≤ 16)) = false := by simpa using h1
      simp [h1']
  | a :: b :: r =>
    simp only [List.length_cons]
    have : ¬ (r.length + 1 + 1 = 0) := by omega
    have h1 : ¬ (r.length + 1 + 1 = 1) := by omega
    simp [h1]

end GocoinV.Proofs.C01
