/-
  Proofs.C01Step — simulation between one iteration of the model's interpreter loop (`Script.stepAt`) and one
  instruction of the spec (`ScriptSpec.execInstr`): the simulation relation `Rel` (with the condition-stack
  correspondence vector form ↔ counter form, `condOf`) and the frame of one loop iteration (`stepAt_frame`).
-/
import GocoinV.Proofs.C01Decode
import GocoinV.Proofs.C01Num
import GocoinV.Proofs.C01Cond
namespace GocoinV.Proofs.C01
open GocoinV GocoinV.Script

theorem has_testBit (f k : Nat) : has f (1 <<< k) = f.testBit k := by
  unfold has
  rw [Nat.one_shiftLeft]
  cases h : f.testBit k
  · have : f &&& 2 ^ k = 0 := by
      apply Nat.eq_of_testBit_eq
      intro i
      simp only [Nat.testBit_and, Nat.testBit_two_pow, Nat.zero_testBit]
      by_cases hi : k = i
      · subst hi; simp [h]
      · simp [hi]
    simp [this]
  · have : (f &&& 2 ^ k).testBit k = true := by simp [Nat.testBit_and, h]
    have hne : f &&& 2 ^ k ≠ 0 := by intro h0; rw [h0] at this; simp at this
    simp [hne]

theorem isDisabled_eq (op : Nat) : isDisabled op = ScriptSpec.isDisabledOpcode op := by
  by_cases h : op < 256
  · have all : ∀ n, n < 256 → isDisabled n = ScriptSpec.isDisabledOpcode n := by decide +kernel
    exact all op h
  · unfold isDisabled ScriptSpec.isDisabledOpcode
    have e : ∀ k, k < 256 → (op == k) = false := by intro k hk; simp; omega
    have l : ∀ k, k < 256 → decide (op ≤ k) = false := by intro k hk; simp; omega
    simp [e, l]

theorem checkMinimalPush_eq (d : Bytes) (op : Nat) : checkMinimalPush d op = ScriptSpec.checkMinimalPush d op := by
  unfold checkMinimalPush ScriptSpec.checkMinimalPush at'
  match d with
  | [] => simp
  | [b] =>
    simp only [List.length_cons, List.length_nil, List.getD_cons_zero]
    have c1 : decide (b ≥ 1) = decide (1 ≤ b.toNat) := by
      have : (b ≥ 1) ↔ (1 ≤ b.toNat) := by show (1 : UInt8) ≤ b ↔ _; rw [UInt8.le_iff_toNat_le]; rfl
      simp [this]
    have c2 : decide (b ≤ 16) = decide (b.toNat ≤ 16) := by
      have : (b ≤ 16) ↔ (b.toNat ≤ 16) := by rw [UInt8.le_iff_toNat_le]; rfl
      simp [this]
    rw [c1, c2]
    by_cases h1 : (1 ≤ b.toNat ∧ b.toNat ≤ 16)
    · have : 0x51 + b.toNat - 1 = 0x50 + b.toNat := by omega
      simp [h1, this]
    · have h1' : (decide (1 ≤ b.toNat) && decide (b.toNat ≤ 16)) = false := by simpa using h1
      simp [h1']
  | a :: b :: r =>
    simp only [List.length_cons]
    have : ¬ (r.length + 1 + 1 = 0) := by omega
    have h1 : ¬ (r.length + 1 + 1 = 1) := by omega
    simp [h1]

/-- the spec environment that corresponds to a model context (total oracles, no quirks) -/
def envOf (T : TotalOracles) (c : Ctx) (leaf : Bytes) (annex : Option Bytes) : ScriptSpec.Env :=
  ⟨T.toOracles, c.tx, ScriptSpec.Flags.ofMask c.flags, c.sv, {}, leaf, annex⟩

/-- simulation relation between the loop variables of the model and the spec's interpreter state -/
structure Rel (c : Ctx) (leaf : Bytes) (annex : Option Bytes) (st : St) (s : ScriptSpec.State) : Prop where
  stack : st.stack = s.stack
  alt : st.alt = s.alt
  cond : s.cond = condOf st.exe
  opcnt : st.opcnt = s.opCount
  code : c.p.drop st.pbegin = s.code
  csp : st.ed.codesepPos = s.codesepPos
  weight : st.ed.weightLeft = s.weightLeft
  leaf : st.ed.tapleafHash = leaf
  annex : st.ed.annexHash = annex
  /-- legacy scripts without a decode error: the script code decodes to its end (it is a suffix of the script at
      an instruction boundary) and is short -/
  wf : c.sv = .base → (ScriptSpec.parse c.p).2 = false → (ScriptSpec.parse s.code).2 = false ∧ s.code.length < 2 ^ 32

/-- outcomes agree: both succeed in related states, or both fail (a model panic inside the loop is a failure
    of evalScript; the spec names the error) -/
inductive Agree (c : Ctx) (leaf : Bytes) (annex : Option Bytes) : Res St → ScriptSpec.E ScriptSpec.State → Prop
  | ok {a b} : Rel c leaf annex a b → Agree c leaf annex (.ok a) (.ok b)
  | fail {e} : Agree c leaf annex .fail (.error e)
  | panic {e} : Agree c leaf annex .panic (.error e)

theorem agree_ok (c : Ctx) (leaf : Bytes) (annex : Option Bytes) (a : St) (b : ScriptSpec.State) : Agree c leaf annex (.ok a) (Except.ok b) ↔ Rel c leaf annex a b :=
  ⟨fun h => by cases h; assumption, Agree.ok⟩
theorem agree_fail (c : Ctx) (leaf : Bytes) (annex : Option Bytes) (e : ScriptSpec.ScriptError) : Agree c leaf annex .fail (Except.error e) ↔ True := ⟨fun _ => trivial, fun _ => Agree.fail⟩
theorem agree_panic (c : Ctx) (leaf : Bytes) (annex : Option Bytes) (e : ScriptSpec.ScriptError) : Agree c leaf annex .panic (Except.error e) ↔ True := ⟨fun _ => trivial, fun _ => Agree.panic⟩

theorem envOf_f (T : TotalOracles) (c : Ctx) (l : Bytes) (a : Option Bytes) : (envOf T c l a).f = ScriptSpec.Flags.ofMask c.flags := rfl
theorem envOf_sv (T : TotalOracles) (c : Ctx) (l : Bytes) (a : Option Bytes) : (envOf T c l a).sv = c.sv := rfl
theorem envOf_O (T : TotalOracles) (c : Ctx) (l : Bytes) (a : Option Bytes) : (envOf T c l a).O = T.toOracles := rfl
theorem envOf_tx (T : TotalOracles) (c : Ctx) (l : Bytes) (a : Option Bytes) : (envOf T c l a).tx = c.tx := rfl
theorem envOf_q (T : TotalOracles) (c : Ctx) (l : Bytes) (a : Option Bytes) : (envOf T c l a).q = {} := rfl

theorem flag_mindata (f : Nat) : has f VER_MINDATA = (ScriptSpec.Flags.ofMask f).minimaldata := by
  unfold VER_MINDATA; rw [has_testBit]; rfl
theorem flag_const (f : Nat) : has f VER_CONST_SCRIPTCODE = (ScriptSpec.Flags.ofMask f).constScriptcode := by
  unfold VER_CONST_SCRIPTCODE; rw [has_testBit]; rfl
theorem flag_nops (f : Nat) : has f VER_BLOCK_OPS = (ScriptSpec.Flags.ofMask f).discourageNops := by
  unfold VER_BLOCK_OPS; rw [has_testBit]; rfl

theorem tail_agree (c : Ctx) (leaf : Bytes) (annex : Option Bytes) (X : Res St) (Y : ScriptSpec.E ScriptSpec.State) (h : Agree c leaf annex X Y) :
    Agree c leaf annex (X >>= fun st' => if st'.stack.length + st'.alt.length > 1000 then Res.fail else pure st')
      (Y >>= fun st => if st.stack.length + st.alt.length > 1000 then (do throw ScriptSpec.ScriptError.STACK_SIZE; pure st) else pure st) := by
  cases h with
  | fail => exact Agree.fail
  | panic => exact Agree.panic
  | ok h =>
    rename_i a b
    simp only [bind, Except.bind, Res.bind]
    rw [h.stack, h.alt]
    by_cases hs : b.stack.length + b.alt.length > 1000
    · simp [hs, agree_fail, throw, throwThe, MonadExceptOf.throw]
    · simp [hs, agree_ok, pure, Except.pure]; exact h


/-- The frame of one loop iteration: size / count / disabled / CONST_SCRIPTCODE checks, pushes, the
    executed / not executed decision (vector form vs counter form of the condition stack) and the final
    1000-element check agree, provided the opcode-specific parts (`execOp` vs `execOpcode`) agree. -/
theorem stepAt_frame (T : TotalOracles) (c : Ctx) (hO : c.O = T.toOracles) (leaf : Bytes) (annex : Option Bytes)
    (st : St) (s : ScriptSpec.State) (op : Op) (i : ScriptSpec.Instr) (idx pos : Nat)
    (hop : i.op = op.opcode) (hdata : i.data = op.push.getD [])
    (hR : Rel c leaf annex st s)
    (H : op.opcode > 0x4e → ∀ st1 s1, Rel c leaf annex st1 s1 →
        (st1.exe.all id = true ∨ (0x63 ≤ op.opcode ∧ op.opcode ≤ 0x68)) →
        Agree c leaf annex (execOp c st1 op.opcode idx pos (st1.exe.all id))
          (ScriptSpec.execOpcode (envOf T c leaf annex) s1 i (st1.exe.all id) pos)) :
    Agree c leaf annex (stepAt c st op idx pos) (ScriptSpec.execInstr (envOf T c leaf annex) s i pos) := by
  obtain ⟨h1, h2, h3, h5, h6, h7, h8, h9, h10, h11⟩ := hR
  obtain ⟨sstack, salt, scond, sop, scode, scsp, sw⟩ := s
  simp only at h1 h2 h3 h5 h6 h7 h8 h9 h10 h11
  subst h3 h5
  unfold stepAt ScriptSpec.execInstr
  simp only [hop, hdata, condOf_allTrue, envOf_f, envOf_sv,
    MAX_SCRIPT_ELEMENT_SIZE, ScriptSpec.MAX_SCRIPT_ELEMENT_SIZE, MAX_OPS, ScriptSpec.MAX_OPS_PER_SCRIPT,
    ScriptSpec.MAX_STACK_SIZE, ← isDisabled_eq, ← flag_const, ← flag_mindata, ← checkMinimalPush_eq]
  by_cases hp : (op.push.getD []).length > 520
  · simp [hp, agree_fail, agree_panic, bind, Except.bind, throw, throwThe, MonadExceptOf.throw]
  by_cases hd : isDisabled op.opcode = true
  · by_cases hcnt : ((c.sv == SigVersion.base || c.sv == SigVersion.witnessV0) && decide (op.opcode > 96)) = true
    · by_cases h201 : st.opcnt + 1 > 201 <;>
        simp [hp, hd, hcnt, h201, agree_fail, agree_panic, bind, Except.bind, throw, throwThe, MonadExceptOf.throw, pure, Except.pure]
    · simp [hp, hd, hcnt, agree_fail, agree_panic, bind, Except.bind, throw, throwThe, MonadExceptOf.throw, pure, Except.pure]
  by_cases hcs : (op.opcode == 171 && c.sv == SigVersion.base && has c.flags VER_CONST_SCRIPTCODE) = true
  · by_cases hcnt : ((c.sv == SigVersion.base || c.sv == SigVersion.witnessV0) && decide (op.opcode > 96)) = true
    · by_cases h201 : st.opcnt + 1 > 201 <;>
        simp [hp, hd, hcs, hcnt, h201, agree_fail, agree_panic, bind, Except.bind, throw, throwThe, MonadExceptOf.throw, pure, Except.pure]
    · simp [hp, hd, hcs, hcnt, agree_fail, agree_panic, bind, Except.bind, throw, throwThe, MonadExceptOf.throw, pure, Except.pure]
  have main : ∀ n, Agree c leaf annex
      ((if (st.exe.all id && decide (op.opcode ≤ 78)) = true then
            if (has c.flags VER_MINDATA && !checkMinimalPush (op.push.getD []) op.opcode) = true then Res.fail
            else Res.ok (({ stack := st.stack, alt := st.alt, exe := st.exe, pbegin := st.pbegin, opcnt := n, ed := st.ed } : St).push (op.push.getD []))
          else if (st.exe.all id || decide (99 ≤ op.opcode) && decide (op.opcode ≤ 104)) = true then
            execOp c { stack := st.stack, alt := st.alt, exe := st.exe, pbegin := st.pbegin, opcnt := n, ed := st.ed } op.opcode idx pos (st.exe.all id)
          else Res.ok { stack := st.stack, alt := st.alt, exe := st.exe, pbegin := st.pbegin, opcnt := n, ed := st.ed }) >>=
        fun st' => if List.length st'.stack + List.length st'.alt > 1000 then Res.fail else pure st')
      ((if (st.exe.all id && decide (op.opcode ≤ 78)) = true then
          if (has c.flags VER_MINDATA && !checkMinimalPush (op.push.getD []) op.opcode) = true then
            throw ScriptSpec.ScriptError.MINIMALDATA
          else pure (ScriptSpec.push ({ stack := sstack, alt := salt, cond := condOf st.exe, opCount := n, code := scode, codesepPos := scsp, weightLeft := sw } : ScriptSpec.State) (op.push.getD []))
        else if (st.exe.all id || decide (99 ≤ op.opcode) && decide (op.opcode ≤ 104)) = true then
          ScriptSpec.execOpcode (envOf T c leaf annex) ({ stack := sstack, alt := salt, cond := condOf st.exe, opCount := n, code := scode, codesepPos := scsp, weightLeft := sw } : ScriptSpec.State) i (st.exe.all id) pos
        else pure ({ stack := sstack, alt := salt, cond := condOf st.exe, opCount := n, code := scode, codesepPos := scsp, weightLeft := sw } : ScriptSpec.State) : ScriptSpec.E ScriptSpec.State) >>=
        fun st => if st.stack.length + st.alt.length > 1000 then (do throw ScriptSpec.ScriptError.STACK_SIZE; pure st) else pure st) := by
    intro n
    apply tail_agree
    have hR1 : Rel c leaf annex { stack := st.stack, alt := st.alt, exe := st.exe, pbegin := st.pbegin, opcnt := n, ed := st.ed } ({ stack := sstack, alt := salt, cond := condOf st.exe, opCount := n, code := scode, codesepPos := scsp, weightLeft := sw } : ScriptSpec.State) :=
      ⟨h1, h2, rfl, rfl, h6, h7, h8, h9, h10, h11⟩
    by_cases hpush : (st.exe.all id && decide (op.opcode ≤ 78)) = true
    · simp only [hpush, ↓reduceIte]
      by_cases hm : (has c.flags VER_MINDATA && !checkMinimalPush (op.push.getD []) op.opcode) = true
      · simp [hm, agree_fail, throw, throwThe, MonadExceptOf.throw]
      · simp only [hm, Bool.false_eq_true, ↓reduceIte, agree_ok, St.push, ScriptSpec.push, pure, Except.pure]
        exact ⟨by simp [h1], h2, rfl, rfl, h6, h7, h8, h9, h10, h11⟩
    · simp only [hpush, Bool.false_eq_true, ↓reduceIte]
      by_cases hex : (st.exe.all id || decide (99 ≤ op.opcode) && decide (op.opcode ≤ 104)) = true
      · simp only [hex, ↓reduceIte]
        have hgt : op.opcode > 78 := by
          simp only [Bool.and_eq_true, decide_eq_true_eq, not_and] at hpush
          simp only [Bool.or_eq_true, Bool.and_eq_true, decide_eq_true_eq] at hex
          rcases hex with h | h
          · have := hpush h; omega
          · omega
        have hor : (st.exe.all id = true ∨ (0x63 ≤ op.opcode ∧ op.opcode ≤ 0x68)) := by
          simpa only [Bool.or_eq_true, Bool.and_eq_true, decide_eq_true_eq] using hex
        exact H hgt _ _ hR1 hor
      · simp only [hex, Bool.false_eq_true, ↓reduceIte, agree_ok, pure, Except.pure]
        exact hR1
  by_cases hcnt : ((c.sv == SigVersion.base || c.sv == SigVersion.witnessV0) && decide (op.opcode > 96)) = true
  · by_cases h201 : st.opcnt + 1 > 201
    · simp [hp, hcnt, h201, agree_fail, bind, Except.bind, throw, throwThe, MonadExceptOf.throw]
    · simp only [hp, hd, hcs, hcnt, h201, Bool.false_eq_true, ↓reduceIte, Bool.true_and, decide_false, pure_bind]
      exact main (st.opcnt + 1)
  · simp only [hp, hd, hcs, hcnt, Bool.false_eq_true, ↓reduceIte, Bool.false_and, pure_bind]
    exact main st.opcnt

end GocoinV.Proofs.C01
