/-
  Proofs.C01CondOps — OP_IF / OP_NOTIF / OP_ELSE / OP_ENDIF (with MINIMALIF for witness v0 and tapscript), in
  executed and non-executed branches, and the opcodes that no branch of the interpreter knows (OP_VERIF,
  OP_VERNOTIF, OP_RESERVED…, everything above OP_CHECKSIGADD, and the disabled ones): model vs spec.
-/
import GocoinV.Proofs.C01Ops
namespace GocoinV.Proofs.C01
open GocoinV GocoinV.Script

theorem flag_minimalif (f : Nat) : has f VER_MINIMALIF = (ScriptSpec.Flags.ofMask f).minimalif := by
  unfold VER_MINIMALIF; rw [has_testBit]; rfl

theorem nonMinimalIf_eq (v : Bytes) :
    (decide (v.length > 1) || (v.length == 1 && at' v 0 != 1)) = (decide (v.length > 1) || (v.length == 1 && v != [1])) := by
  match v with
  | [] => simp
  | [b] =>
    have e : (b != 1) = ([b] != [1]) := by
      simp only [bne, List.cons_beq_cons]
      have : (([] : List UInt8) == []) = true := rfl
      rw [this, Bool.and_true]
    simp [at', e]
  | a :: b :: r => simp

def isCondOp (op : Nat) : Bool := op == 0x63 || op == 0x64 || op == 0x67 || op == 0x68

theorem cond_agree (T : TotalOracles) (c : Ctx) (leaf : Bytes) (annex : Option Bytes) (st : St) (s : ScriptSpec.State)
    (i : ScriptSpec.Instr) (idx pos : Nat) (hR : Rel c leaf annex st s) (hs : isCondOp i.op = true) :
    Agree c leaf annex (execOp c st i.op idx pos (st.exe.all id))
      (ScriptSpec.execOpcode (envOf T c leaf annex) s i (st.exe.all id) pos) := by
  obtain ⟨h1, h2, h3, h5, h6, h7, h8, h9, h10, h11⟩ := hR
  obtain ⟨sstack, salt, scond, sop, scode, scsp, sw⟩ := s
  obtain ⟨stack, alt, exe, pbegin, opcnt, ed⟩ := st
  simp only at h1 h2 h3 h5 h6 h7 h8 h9 h10 h11
  subst h1 h2 h3 h5
  obtain ⟨iop, idata, iafter⟩ := i
  simp only [isCondOp, Bool.or_eq_true, beq_iff_eq] at hs
  rcases hs with ((h|h)|h)|h <;> subst h
  · -- OP_IF
    simp only [execOp, ScriptSpec.execOpcode, ScriptSpec.opIf, envOf_sv, envOf_f, ← flag_minimalif, ← bts2bool_eq]
    cases hin : exe.all id
    · simp [agree_ok, pure, Except.pure, bind, Except.bind]
      exact ⟨rfl, rfl, rfl, rfl, h6, h7, h8, h9, h10, h11⟩
    · cases stack with
      | nil => simp [agree_fail, throw, throwThe, MonadExceptOf.throw, bind, Except.bind]
      | cons v r =>
        have hnm := nonMinimalIf_eq v
        simp only [gt_iff_lt] at hnm
        simp only [beq_self_eq_true, Bool.not_true, Bool.false_eq_true, ↓reduceIte, Bool.true_or, bind, Except.bind, pure, Except.pure,
          Bool.not_false, gt_iff_lt, hnm]
        by_cases ht : (c.sv == SigVersion.tapscript && (decide (1 < v.length) || v.length == 1 && v != [1])) = true
        · simp [ht, agree_fail, throw, throwThe, MonadExceptOf.throw]
        · by_cases hw : (c.sv == SigVersion.witnessV0 && has c.flags VER_MINIMALIF && (decide (1 < v.length) || v.length == 1 && v != [1])) = true
          · simp [ht, hw, agree_fail, throw, throwThe, MonadExceptOf.throw]
          · simp [ht, hw, agree_ok]
            exact ⟨rfl, rfl, rfl, rfl, h6, h7, h8, h9, h10, h11⟩
  · -- OP_NOTIF
    simp only [execOp, ScriptSpec.execOpcode, ScriptSpec.opIf, envOf_sv, envOf_f, ← flag_minimalif, ← bts2bool_eq]
    cases hin : exe.all id
    · simp [agree_ok, pure, Except.pure, bind, Except.bind]
      exact ⟨rfl, rfl, rfl, rfl, h6, h7, h8, h9, h10, h11⟩
    · cases stack with
      | nil => simp [agree_fail, throw, throwThe, MonadExceptOf.throw, bind, Except.bind]
      | cons v r =>
        have hnm := nonMinimalIf_eq v
        simp only [gt_iff_lt] at hnm
        simp only [beq_self_eq_true, Bool.not_true, Bool.false_eq_true, ↓reduceIte, Bool.true_or, bind, Except.bind, pure, Except.pure,
          Bool.not_false, gt_iff_lt, hnm, Bool.or_true]
        by_cases ht : (c.sv == SigVersion.tapscript && (decide (1 < v.length) || v.length == 1 && v != [1])) = true
        · simp [ht, agree_fail, throw, throwThe, MonadExceptOf.throw]
        · by_cases hw : (c.sv == SigVersion.witnessV0 && has c.flags VER_MINIMALIF && (decide (1 < v.length) || v.length == 1 && v != [1])) = true
          · simp [ht, hw, agree_fail, throw, throwThe, MonadExceptOf.throw]
          · simp [ht, hw, agree_ok]
            exact ⟨rfl, rfl, rfl, rfl, h6, h7, h8, h9, h10, h11⟩
  · -- OP_ELSE
    simp only [execOp, ScriptSpec.execOpcode, ScriptSpec.opElse, condOf_empty]
    cases exe with
    | nil => simp [agree_panic, throw, throwThe, MonadExceptOf.throw]
    | cons b r =>
      simp [agree_ok, pure, Except.pure, condOf_toggle]
      exact ⟨rfl, rfl, rfl, rfl, h6, h7, h8, h9, h10, h11⟩
  · -- OP_ENDIF
    simp only [execOp, ScriptSpec.execOpcode, ScriptSpec.opEndif, condOf_empty]
    cases exe with
    | nil => simp [agree_panic, throw, throwThe, MonadExceptOf.throw]
    | cons b r =>
      simp [agree_ok, pure, Except.pure, condOf_pop]
      exact ⟨rfl, rfl, rfl, rfl, h6, h7, h8, h9, h10, h11⟩

/-- opcodes that no branch of either interpreter knows (plus the disabled ones, which the frame rejects first) -/
def isBadOp (op : Nat) : Bool :=
  op == 0x50 || op == 0x62 || op == 0x65 || op == 0x66 || op == 0x89 || op == 0x8a || decide (op ≥ 0xbb) || isDisabled op

theorem bad_model (c : Ctx) (st : St) (op idx pos : Nat) (inexec : Bool) (hs : isBadOp op = true) :
    execOp c st op idx pos inexec = .fail := by
  by_cases hbig : op ≥ 0xbb
  · have e : ∀ k, k < 0xbb → (op == k) = false := by intro k hk; simp; omega
    have l : ∀ k, k < 0xbb → decide (op ≤ k) = false := by intro k hk; simp; omega
    simp [execOp, isBinArith, e, l]
  · simp only [isBadOp, isDisabled, Bool.or_eq_true, beq_iff_eq, decide_eq_true_eq, or_assoc] at hs
    rcases hs with h|h|h|h|h|h|h|h|h|h|h|h|h|h|h|h|h|h|h|h|h|h <;> first | omega | (subst h; simp [execOp, isBinArith])

theorem bad_spec (e : ScriptSpec.Env) (s : ScriptSpec.State) (i : ScriptSpec.Instr) (pos : Nat) (inexec : Bool) (hs : isBadOp i.op = true) :
    ScriptSpec.execOpcode e s i inexec pos = .error ScriptSpec.ScriptError.BAD_OPCODE := by
  obtain ⟨op, idata, iafter⟩ := i
  simp only at hs
  by_cases hbig : op ≥ 0xbb
  · have e : ∀ k, k < 0xbb → (op == k) = false := by intro k hk; simp; omega
    have l : ∀ k, k < 0xbb → decide (op ≤ k) = false := by intro k hk; simp; omega
    simp [ScriptSpec.execOpcode, ScriptSpec.isShuffle, ScriptSpec.isUnaryNum, ScriptSpec.isBinaryNum, e, l, throw, throwThe, MonadExceptOf.throw]
  · simp only [isBadOp, isDisabled, Bool.or_eq_true, beq_iff_eq, decide_eq_true_eq, or_assoc] at hs
    rcases hs with h|h|h|h|h|h|h|h|h|h|h|h|h|h|h|h|h|h|h|h|h|h <;> first | omega | (subst h; simp [ScriptSpec.execOpcode, ScriptSpec.isShuffle, ScriptSpec.isUnaryNum, ScriptSpec.isBinaryNum, throw, throwThe, MonadExceptOf.throw])

theorem bad_agree (T : TotalOracles) (c : Ctx) (leaf : Bytes) (annex : Option Bytes) (st : St) (s : ScriptSpec.State)
    (i : ScriptSpec.Instr) (idx pos : Nat) (inexec : Bool) (hs : isBadOp i.op = true) :
    Agree c leaf annex (execOp c st i.op idx pos inexec) (ScriptSpec.execOpcode (envOf T c leaf annex) s i inexec pos) := by
  rw [bad_model c st i.op idx pos inexec hs, bad_spec _ s i pos inexec hs]
  exact Agree.fail

end GocoinV.Proofs.C01
