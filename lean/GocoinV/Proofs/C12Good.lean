/-
  Proofs.C12Good — the full pool invariant (spendable inputs with MemInputs flags, nothing pooled confirmed, exact
  fee/volume, exact weight total): definitions and the primitives through which the pool changes
  (helper lemmas for Props/C12 `pool_inv`).  Core Lean only.
-/
import GocoinV.Proofs.C12Env
import GocoinV.Spec.MempoolTemplate
namespace GocoinV.Mempool

abbrev UT := AList (TxId × Nat) Coin
abbrev UndoStack := List (List Tx × List ((TxId × Nat) × Coin))

/-- txids in play: the ids of the transactions of the history and the ids their inputs name -/
def Play (W : Tx → Prop) (id : TxId) : Prop :=
  (∃ t, W t ∧ t.id = id) ∨ (∃ t, W t ∧ ∃ i ∈ t.ins, i.prev = id)

/-- output indexes in play: the `vout` an input of a transaction of the history names, or an index into the outputs of
    a transaction of the history. (The code's UIdx reads only the low 32 bits of an index — `realKeys.uidx` has
    `vout % 2^32` — so no injectivity statement over ALL naturals can hold for it: the hypothesis below is about the
    indexes that occur.) -/
def VPlay (W : Tx → Prop) (v : Nat) : Prop :=
  (∃ t, W t ∧ ∃ i ∈ t.ins, i.vout = v) ∨ (∃ t, W t ∧ v < t.outs.length)

/-- hypotheses on the universe `W` of a history, the initial confirmed set `u0` and the value oracle `ν`:
    `Univ` plus: BIDX does not collide on the txids in play and UIdx does not collide on the (txid, output index) pairs
    in play, no transaction of the history has an output in the initial confirmed set, and `ν` gives the value of every
    output of a transaction of the history and of every initial coin. Satisfiable for the code's own keys `realKeys`
    (`univ2_realKeys` in Proofs/C12Real.lean; until the second audit `uidx_play` ranged over all naturals `v w`, which no
    universe satisfies for `realKeys` since `uidx a 0 = uidx a 2^32`). -/
structure Univ2 (K : Keys) (W : Tx → Prop) (rank : TxId → Nat) (u0 : UT) (ν : OutPoint → Nat) : Prop where
  base : Univ K W rank
  bidx_play : ∀ a b, Play W a → Play W b → K.bidx a = K.bidx b → a = b
  uidx_play : ∀ a b v w, Play W a → Play W b → VPlay W v → VPlay W w → K.uidx a v = K.uidx b w → a = b ∧ v = w
  genesis : ∀ t, W t → ∀ v, u0.get? (t.id, v) = none
  val_tx : ∀ t, W t → ∀ v, ν (t.id, v) = t.outs.getD v 0
  val_u0 : ∀ o c, u0.get? o = some c → ν o = c.value

theorem Play.self {W : Tx → Prop} {t : Tx} (h : W t) : Play W t.id := Or.inl ⟨t, h, rfl⟩
theorem Play.prev {W : Tx → Prop} {t : Tx} (h : W t) {i : TxIn} (hi : i ∈ t.ins) : Play W i.prev :=
  Or.inr ⟨t, h, i, hi, rfl⟩
theorem VPlay.vin {W : Tx → Prop} {t : Tx} (h : W t) {i : TxIn} (hi : i ∈ t.ins) : VPlay W i.vout :=
  Or.inl ⟨t, h, i, hi, rfl⟩
theorem VPlay.out {W : Tx → Prop} {t : Tx} (h : W t) {v : Nat} (hv : v < t.outs.length) : VPlay W v :=
  Or.inr ⟨t, h, hv⟩

/-- `id` is the id of an initial coin or of a transaction of a connected block -/
def Conf (u0 : UT) (st : UndoStack) (id : TxId) : Prop :=
  (∃ v c, u0.get? (id, v) = some c) ∨ ∃ e ∈ st, ∃ X ∈ e.1, X.id = id

/-- MemInputs[k] (nil = all false) -/
def flag (t : T2S) (k : Nat) : Bool := t.mem.getD k false

/-- Σ of the input values in uint64, as processTx accumulates it -/
def sumν (ν : OutPoint → Nat) (ins : List TxIn) (a : Nat) : Nat :=
  ins.foldl (fun x i => (x + ν (i.prev, i.vout)) % U64) a

/-- the part of the record invariant that does not depend on the state -/
structure RecL (ν : OutPoint → Nat) (t : T2S) : Prop where
  memLen : t.mem = [] ∨ t.mem.length = t.tx.ins.length
  memCnt : t.memCnt = (t.mem.filter id).length
  nodupIn : t.tx.inOps.Nodup
  vol : t.volume = sumν ν t.tx.ins 0
  fee : t.fee + sumU64 t.tx.outs = t.volume

def poolWeight (m : AList Nat T2S) : Nat := (m.map fun p => p.2.tx.weight).sum

/-- everything but "flagged parents are pooled" -/
structure PoolW (K : Keys) (W : Tx → Prop) (ν : OutPoint → Nat) (A : OutPoint → Prop) (Cf : TxId → Prop)
    (s : State) : Prop where
  base : InvR K W s
  loc : ∀ b t, s.pool.get? b = some t → RecL ν t
  unf : ∀ b t, s.pool.get? b = some t → ∀ k i, t.tx.ins[k]? = some i → flag t k = false → A (i.prev, i.vout)
  ncf : ∀ b t, s.pool.get? b = some t → ¬ Cf t.tx.id
  wt : s.weightTotal = poolWeight s.pool

/-- every flagged input names an existing output of a pooled transaction -/
def ParOK (K : Keys) (s : State) : Prop :=
  ∀ b t, s.pool.get? b = some t → ∀ k i, t.tx.ins[k]? = some i → flag t k = true →
    ∃ p, s.pool.get? (K.bidx i.prev) = some p ∧ p.tx.id = i.prev ∧ i.vout < p.tx.outs.length

structure PoolOK (K : Keys) (W : Tx → Prop) (ν : OutPoint → Nat) (A : OutPoint → Prop) (Cf : TxId → Prop)
    (s : State) : Prop where
  w : PoolW K W ν A Cf s
  par : ParOK K s

theorem PoolW.mono {K : Keys} {W : Tx → Prop} {ν : OutPoint → Nat} {A A' : OutPoint → Prop} {Cf Cf' : TxId → Prop}
    {s : State} (h : PoolW K W ν A Cf s)
    (hA : ∀ b t, s.pool.get? b = some t → ∀ k i, t.tx.ins[k]? = some i → flag t k = false → A (i.prev, i.vout) →
      A' (i.prev, i.vout))
    (hC : ∀ b t, s.pool.get? b = some t → Cf' t.tx.id → Cf t.tx.id) : PoolW K W ν A' Cf' s :=
  ⟨h.base, h.loc, fun b t hb k i hk hf => hA b t hb k i hk hf (h.unf b t hb k i hk hf),
   fun b t hb hc => h.ncf b t hb (hC b t hb hc), h.wt⟩

theorem PoolW.frame {K : Keys} {W : Tx → Prop} {ν : OutPoint → Nat} {A : OutPoint → Prop} {Cf : TxId → Prop}
    {s s' : State} (h : PoolW K W ν A Cf s) (f : Frame W s s') : PoolW K W ν A Cf s' :=
  ⟨InvR_of_frame h.base f, by rw [f.core.1]; exact h.loc, by rw [f.core.1]; exact h.unf,
   by rw [f.core.1]; exact h.ncf, by rw [f.core.1, f.core.2.2.2]; exact h.wt⟩

theorem ParOK.frame {K : Keys} {W : Tx → Prop} {s s' : State} (h : ParOK K s) (f : Frame W s s') : ParOK K s' := by
  unfold ParOK; rw [f.core.1]; exact h

theorem PoolOK.frame {K : Keys} {W : Tx → Prop} {ν : OutPoint → Nat} {A : OutPoint → Prop} {Cf : TxId → Prop}
    {s s' : State} (h : PoolOK K W ν A Cf s) (f : Frame W s s') : PoolOK K W ν A Cf s' :=
  ⟨h.w.frame f, h.par.frame f⟩

/-! ### weights -/

theorem AList.del_of_none {κ ν : Type} [DecidableEq κ] : ∀ (m : AList κ ν) (k : κ), m.get? k = none → m.del k = m := by
  intro m
  induction m with
  | nil => intro k _; rfl
  | cons p r ih =>
    intro k h
    obtain ⟨a, v⟩ := p
    simp only [AList.get?] at h
    by_cases e : a = k
    · simp [e] at h
    · simp only [e, if_false] at h
      rw [AList.del_cons]
      simp only [e, if_false]
      rw [ih k h]

theorem poolWeight_del : ∀ (m : AList Nat T2S) (k : Nat) (t : T2S), (m.map Prod.fst).Nodup → m.get? k = some t →
    poolWeight m = poolWeight (m.del k) + t.tx.weight := by
  intro m
  induction m with
  | nil => intro k t _ h; simp [AList.get?] at h
  | cons p r ih =>
    intro k t hn h
    obtain ⟨a, v⟩ := p
    simp only [List.map_cons, List.nodup_cons] at hn
    simp only [AList.get?] at h
    rw [AList.del_cons]
    by_cases e : a = k
    · simp only [e, if_true, Option.some.injEq] at h
      subst h
      have hk : AList.get? r k = none := by
        cases hr : AList.get? r k with
        | none => rfl
        | some x =>
          exfalso
          exact hn.1 (List.mem_map.mpr ⟨(k, x), AList.mem_of_get? _ _ _ hr, e.symm⟩)
      simp only [e, if_true]
      rw [AList.del_of_none r k hk]
      simp [poolWeight, Nat.add_comm]
    · simp only [e, if_false] at h ⊢
      have := ih k t hn.2 h
      simp only [poolWeight, List.map_cons, List.sum_cons] at this ⊢
      omega

theorem poolWeight_set_fresh (m : AList Nat T2S) (k : Nat) (t : T2S) (h : m.get? k = none) :
    poolWeight (m.set k t) = poolWeight m + t.tx.weight := by
  unfold AList.set
  rw [AList.del_of_none m k h]
  simp [poolWeight, Nat.add_comm]

theorem poolWeight_set_same (m : AList Nat T2S) (k : Nat) (t t' : T2S) (hn : (m.map Prod.fst).Nodup)
    (h : m.get? k = some t) (hw : t'.tx.weight = t.tx.weight) : poolWeight (m.set k t') = poolWeight m := by
  rw [poolWeight_del m k t hn h]
  unfold AList.set
  simp [poolWeight, Nat.add_comm, hw]

/-! ### flags -/

theorem flag_nil (t : T2S) (h : t.mem = []) (k : Nat) : flag t k = false := by simp [flag, h]

theorem count_zero_getD : ∀ (l : List Bool) (k : Nat), (l.filter id).length = 0 → l.getD k false = false := by
  intro l
  induction l with
  | nil => intro k _; simp
  | cons a r ih =>
    intro k h
    cases a with
    | true => simp at h
    | false =>
      simp only [List.filter_cons, id, Bool.false_eq_true, if_false] at h
      cases k with
      | zero => simp
      | succ n => simpa using ih n h

/-- `p` is a flagged parent key of `t` iff some flagged input names it -/
theorem mem_memParents_aux (K : Keys) (p : Nat) : ∀ (ins : List TxIn) (mem : List Bool),
    p ∈ ((ins.zip mem).filterMap fun (x : TxIn × Bool) => if x.2 then some (K.bidx x.1.prev) else none) ↔
    ∃ k i, ins[k]? = some i ∧ mem.getD k false = true ∧ K.bidx i.prev = p := by
  intro ins
  induction ins with
  | nil => intro mem; simp
  | cons a r ih =>
    intro mem
    cases mem with
    | nil => simp
    | cons m ms =>
      simp only [List.zip_cons_cons, List.filterMap_cons]
      constructor
      · intro h
        cases m with
        | true =>
          simp only [if_true, List.mem_cons] at h
          rcases h with h | h
          · exact ⟨0, a, by simp, by simp, h.symm⟩
          · obtain ⟨k, i, h1, h2, h3⟩ := (ih ms).mp h
            exact ⟨k + 1, i, by simpa using h1, by simpa using h2, h3⟩
        | false =>
          simp only [Bool.false_eq_true, if_false] at h
          obtain ⟨k, i, h1, h2, h3⟩ := (ih ms).mp h
          exact ⟨k + 1, i, by simpa using h1, by simpa using h2, h3⟩
      · rintro ⟨k, i, h1, h2, h3⟩
        cases k with
        | zero =>
          simp only [List.getElem?_cons_zero, Option.some.injEq] at h1
          simp only [List.getD_cons_zero] at h2
          subst h1
          simp [h2, h3]
        | succ n =>
          have : p ∈ ((r.zip ms).filterMap fun (x : TxIn × Bool) => if x.2 then some (K.bidx x.1.prev) else none) :=
            (ih ms).mpr ⟨n, i, by simpa using h1, by simpa using h2, h3⟩
          cases m with
          | true => simp only [if_true, List.mem_cons]; exact Or.inr this
          | false => simpa using this

theorem mem_memParents (K : Keys) (t : T2S) (p : Nat) :
    p ∈ memParents K t ↔ ∃ k i, t.tx.ins[k]? = some i ∧ flag t k = true ∧ K.bidx i.prev = p := by
  unfold memParents flag
  have e : (fun (x : TxIn × Bool) => match x with
      | (i, m) => if m then some (K.bidx i.prev) else none) =
      (fun (x : TxIn × Bool) => if x.2 then some (K.bidx x.1.prev) else none) := by
    funext x; obtain ⟨i, m⟩ := x; rfl
  rw [e]
  exact mem_memParents_aux K p t.tx.ins t.mem

/-! ### the two primitives -/

theorem addT2S_weight (K : Keys) (s : State) (t : T2S) :
    (addT2S K s t).weightTotal = s.weightTotal + t.tx.weight := by
  unfold addT2S
  simp only
  generalize hs1 : ({ s with spent := t.tx.ins.foldl (fun (m : AList Nat Nat) i => m.set (K.uidx i.prev i.vout) (K.bidx t.tx.id)) s.spent,
                             pool := s.pool.set (K.bidx t.tx.id) t,
                             weightTotal := s.weightTotal + t.tx.weight } : State) = s1
  rw [(addToSort_core K s1 (K.bidx t.tx.id) t).2.2.2, ← hs1]

theorem delOne_weight (K : Keys) (s : State) (t : T2S) (reason : Nat) :
    (delOne K s t reason).weightTotal = s.weightTotal - t.tx.weight := by
  unfold delOne
  simp only
  generalize hs1 : ({ s with spent := t.tx.ins.foldl (fun (m : AList Nat Nat) i => m.del (K.uidx i.prev i.vout)) s.spent,
                             pool := s.pool.del (K.bidx t.tx.id) } : State) = s1
  have c1 := delFromSort_core s1 (K.bidx t.tx.id)
  have hw : s1.weightTotal = s.weightTotal := by rw [← hs1]
  split
  · have c2 := rejectTx_core K { delFromSort s1 (K.bidx t.tx.id) with weightTotal := (delFromSort s1 (K.bidx t.tx.id)).weightTotal - t.tx.weight } t.tx reason none
    rw [c2.2.2.2]; simp only; rw [c1.2.2.2, hw]
  · simp only; rw [c1.2.2.2, hw]

/-- adding a record under a fresh key -/
theorem addT2S_ok {K : Keys} {W : Tx → Prop} {ν : OutPoint → Nat} {A : OutPoint → Prop} {Cf : TxId → Prop}
    (s : State) (t : T2S) (h : PoolOK K W ν A Cf s) (ht : W t.tx)
    (hfresh : s.pool.get? (K.bidx t.tx.id) = none)
    (hfree : ∀ u ∈ uidxs K t.tx, s.spent.get? u = none)
    (hl : RecL ν t)
    (hp : ∀ k i, t.tx.ins[k]? = some i → flag t k = true →
      ∃ p, s.pool.get? (K.bidx i.prev) = some p ∧ p.tx.id = i.prev ∧ i.vout < p.tx.outs.length)
    (hu : ∀ k i, t.tx.ins[k]? = some i → flag t k = false → A (i.prev, i.vout))
    (hc : ¬ Cf t.tx.id) : PoolOK K W ν A Cf (addT2S K s t) := by
  obtain ⟨hpool, _⟩ := addT2S_pool_spent K s t
  have look : ∀ b x, (addT2S K s t).pool.get? b = some x →
      (b = K.bidx t.tx.id ∧ x = t) ∨ (b ≠ K.bidx t.tx.id ∧ s.pool.get? b = some x) := by
    intro b x hx
    rw [hpool] at hx
    by_cases e : b = K.bidx t.tx.id
    · rw [e, AList.get?_set_self] at hx; cases hx; exact Or.inl ⟨e, rfl⟩
    · rw [AList.get?_set_other _ _ _ _ e] at hx; exact Or.inr ⟨e, hx⟩
  have keep : ∀ b x, s.pool.get? b = some x → (addT2S K s t).pool.get? b = some x := by
    intro b x hx
    rw [hpool, AList.get?_set_other]
    · exact hx
    · intro e; rw [e, hfresh] at hx; cases hx
  refine ⟨⟨addT2S_InvR K W s t h.w.base ht hfresh hfree, ?_, ?_, ?_, ?_⟩, ?_⟩
  · intro b x hx
    rcases look b x hx with ⟨_, rfl⟩ | ⟨_, h2⟩
    · exact hl
    · exact h.w.loc b x h2
  · intro b x hx
    rcases look b x hx with ⟨_, rfl⟩ | ⟨_, h2⟩
    · exact hu
    · exact h.w.unf b x h2
  · intro b x hx
    rcases look b x hx with ⟨_, rfl⟩ | ⟨_, h2⟩
    · exact hc
    · exact h.w.ncf b x h2
  · rw [addT2S_weight, hpool, poolWeight_set_fresh _ _ _ hfresh, h.w.wt]
  · intro b x hx k i hk hf
    rcases look b x hx with ⟨_, rfl⟩ | ⟨_, h2⟩
    · obtain ⟨p, hp1, hp2⟩ := hp k i hk hf
      exact ⟨p, keep _ _ hp1, hp2⟩
    · obtain ⟨p, hp1, hp2⟩ := h.par b x h2 k i hk hf
      exact ⟨p, keep _ _ hp1, hp2⟩

/-- deleting one pooled record keeps everything but (possibly) the parents of flagged inputs -/
theorem delOne_w {K : Keys} {W : Tx → Prop} {ν : OutPoint → Nat} {A : OutPoint → Prop} {Cf : TxId → Prop}
    (s : State) (t : T2S) (reason : Nat) (h : PoolW K W ν A Cf s)
    (hin : s.pool.get? (K.bidx t.tx.id) = some t) : PoolW K W ν A Cf (delOne K s t reason) := by
  have hp := (delOne_pool_spent K s t reason).1
  have back : ∀ b x, (delOne K s t reason).pool.get? b = some x → s.pool.get? b = some x := by
    intro b x hx
    rw [hp] at hx
    by_cases e : b = K.bidx t.tx.id
    · rw [e, AList.get?_del_self] at hx; cases hx
    · rw [AList.get?_del_other _ _ _ e] at hx; exact hx
  refine ⟨delOne_InvR K W s t reason h.base hin, fun b x hx => h.loc b x (back b x hx),
    fun b x hx => h.unf b x (back b x hx), fun b x hx => h.ncf b x (back b x hx), ?_⟩
  rw [delOne_weight, hp, h.wt, poolWeight_del _ _ t h.base.nodup hin]
  omega

/-- … and the parents too when no remaining record has a flagged input naming the deleted one -/
theorem delOne_ok {K : Keys} {W : Tx → Prop} {ν : OutPoint → Nat} {A : OutPoint → Prop} {Cf : TxId → Prop}
    (s : State) (t : T2S) (reason : Nat) (h : PoolOK K W ν A Cf s)
    (hin : s.pool.get? (K.bidx t.tx.id) = some t)
    (hno : ∀ b r, s.pool.get? b = some r → b ≠ K.bidx t.tx.id → ∀ k i, r.tx.ins[k]? = some i → flag r k = true →
      K.bidx i.prev ≠ K.bidx t.tx.id) : PoolOK K W ν A Cf (delOne K s t reason) := by
  have hp := (delOne_pool_spent K s t reason).1
  refine ⟨delOne_w s t reason h.w hin, ?_⟩
  intro b x hx k i hk hf
  rw [hp] at hx
  by_cases e : b = K.bidx t.tx.id
  · rw [e, AList.get?_del_self] at hx; cases hx
  · rw [AList.get?_del_other _ _ _ e] at hx
    obtain ⟨p, hp1, hp2⟩ := h.par b x hx k i hk hf
    refine ⟨p, ?_, hp2⟩
    rw [hp, AList.get?_del_other _ _ _ (hno b x hx e k i hk hf)]
    exact hp1

/-- HasNoChildren (or: every output index free in SpentOutputs) ⇒ no flagged input names the record -/
theorem noflag_of_childless {K : Keys} {W : Tx → Prop} {ν : OutPoint → Nat} {A : OutPoint → Prop} {Cf : TxId → Prop}
    (s : State) (t : T2S) (h : PoolOK K W ν A Cf s) (hin : s.pool.get? (K.bidx t.tx.id) = some t)
    (hc : ∀ v, v < t.tx.outs.length → s.spent.get? (K.uidx t.tx.id v) = none) :
    ∀ b r, s.pool.get? b = some r → b ≠ K.bidx t.tx.id → ∀ k i, r.tx.ins[k]? = some i → flag r k = true →
      K.bidx i.prev ≠ K.bidx t.tx.id := by
  intro b r hr _ k i hk hf e
  obtain ⟨p, hp1, hp2, hp3⟩ := h.par b r hr k i hk hf
  rw [e, hin] at hp1
  cases hp1
  have hi : i ∈ r.tx.ins := List.mem_of_getElem? hk
  have hu : K.uidx i.prev i.vout ∈ uidxs K r.tx := List.mem_map.mpr ⟨i, hi, rfl⟩
  have := h.w.base.str.complete b r hr _ hu
  rw [← hp2, hc i.vout hp3] at this
  cases this

theorem hasNoChildren_spec (K : Keys) (s : State) (t : T2S) (h : hasNoChildren K s t = true) :
    ∀ v, v < t.tx.outs.length → s.spent.get? (K.uidx t.tx.id v) = none := by
  intro v hv
  unfold hasNoChildren iota at h
  have := List.all_eq_true.mp h v (List.mem_range.mpr hv)
  simpa using this

end GocoinV.Mempool
