/-
  Proofs.C13Digest — `digests_read_skeleton_only`: C02's models of `Tx.SignatureHash`, `Tx.WitnessSigHash` and
  `Tx.TaprootSigHash` (Model/SigHash.lean) do not read the scriptSigs or the witness data of the transaction — only
  version, lock time, outpoints, sequence numbers, outputs, and the script code / amount / spent outputs passed in — and
  the per-transaction cache that is coherent for one transaction is coherent for every transaction with the same
  skeleton. So the digest computed while `sign_tx` signs input i (other inputs unsigned, partly signed or signed, cache
  filled by earlier calls) IS the digest the verifier computes on the final transaction. Core only.
-/
import GocoinV.Proofs.C02Cache
import GocoinV.Spec.WalletTxDigest
import GocoinV.Model.ScriptBase
namespace GocoinV.SigHash
open GocoinV.Wire (Tx TxIn TxOut)

/-- everything `sign_tx` writes into a transaction, blanked out: the scriptSigs and the witness data -/
def stripIn (i : TxIn) : TxIn := { i with scriptSig := [] }
def stripTx (tx : Tx) : Tx := { tx with ins := tx.ins.map stripIn, witness := none }

theorem flatMap_strip (g : TxIn → Bytes) (hg : ∀ i, g (stripIn i) = g i) (ins : List TxIn) :
    (ins.map stripIn).flatMap g = ins.flatMap g := by
  induction ins with
  | nil => rfl
  | cons i t ih => simp only [List.map_cons, List.flatMap_cons, ih, hg]

theorem legacyIns_strip (sc : Bytes) (nIn ht : Nat) : ∀ (ins : List TxIn) (k : Nat),
    legacyIns sc nIn ht k (ins.map stripIn) = legacyIns sc nIn ht k ins := by
  intro ins
  induction ins with
  | nil => intro k; rfl
  | cons i t ih => intro k; simp only [List.map_cons, legacyIns, ih]; rfl

theorem strip_get (ins : List TxIn) (n : Nat) : (ins.map stripIn)[n]? = (ins[n]?).map stripIn := List.getElem?_map ..

theorem prevoutsBytes_strip (tx : Tx) : prevoutsBytes (stripTx tx) = prevoutsBytes tx :=
  flatMap_strip serOutpoint (fun _ => rfl) tx.ins
theorem sequencesBytes_strip (tx : Tx) : sequencesBytes (stripTx tx) = sequencesBytes tx :=
  flatMap_strip (fun i => le32 i.sequence) (fun _ => rfl) tx.ins
theorem outputsBytes_strip (tx : Tx) : outputsBytes (stripTx tx) = outputsBytes tx := rfl

/-- legacy: `Tx.SignatureHash` reads version, lock time, outpoints, sequence numbers, outputs — no scriptSig, no witness -/
theorem signatureHash_strip (H : Bytes → Bytes) (tx : Tx) (sc : Bytes) (nIn ht : Nat) :
    signatureHash H (stripTx tx) sc nIn ht = signatureHash H tx sc nIn ht := by
  unfold signatureHash
  have e1 : (stripTx tx).ins = tx.ins.map stripIn := rfl
  have e2 : (stripTx tx).outs = tx.outs := rfl
  have e3 : (stripTx tx).version = tx.version := rfl
  have e4 : (stripTx tx).lockTime = tx.lockTime := rfl
  simp only [e1, e2, e3, e4, strip_get, legacyIns_strip, List.length_map]
  cases tx.ins[nIn]? <;> rfl

/-- BIP143: the same for `Tx.WitnessSigHash`, result and cache update alike -/
theorem witnessSigHash_strip (H : Bytes → Bytes) (tx : Tx) (c : Cache) (sc : Bytes) (amount nIn ht : Nat) :
    witnessSigHash H (stripTx tx) c sc amount nIn ht = witnessSigHash H tx c sc amount nIn ht := by
  unfold witnessSigHash
  have e1 : (stripTx tx).ins = tx.ins.map stripIn := rfl
  have e2 : (stripTx tx).outs = tx.outs := rfl
  have e3 : (stripTx tx).version = tx.version := rfl
  have e4 : (stripTx tx).lockTime = tx.lockTime := rfl
  simp only [prevoutsBytes_strip, sequencesBytes_strip, outputsBytes_strip, e1, e2, e3, e4, strip_get]
  cases tx.ins[nIn]? <;> rfl

theorem tapSingleFill_strip (H : Bytes → Bytes) (tx : Tx) (spent : List TxOut) :
    tapSingleFill H (stripTx tx) spent = tapSingleFill H tx spent := by
  unfold tapSingleFill
  have e1 : (stripTx tx).ins.length = tx.ins.length := by simp [stripTx]
  simp only [prevoutsBytes_strip, sequencesBytes_strip, e1]

theorem taprootTail_strip (undef : Res) (H : Bytes → Bytes) (tx : Tx) (spent : List TxOut) (ed : ExecData)
    (inPos ht : Nat) (script : Bool) (m : Bytes) :
    taprootTail undef H (stripTx tx) spent ed inPos ht script m = taprootTail undef H tx spent ed inPos ht script m := by
  unfold taprootTail
  have e1 : (stripTx tx).ins = tx.ins.map stripIn := rfl
  have e2 : (stripTx tx).outs = tx.outs := rfl
  simp only [e1, e2, strip_get]
  cases tx.ins[inPos]? <;> cases spent[inPos]? <;> rfl

/-- BIP341: the same for `Tx.TaprootSigHash` -/
theorem taprootSigHash_strip (fixed : Bool) (H : Bytes → Bytes) (tx : Tx) (spent : List TxOut) (c : Cache)
    (ed : ExecData) (inPos ht : Nat) (script : Bool) :
    taprootSigHash fixed H (stripTx tx) spent c ed inPos ht script = taprootSigHash fixed H tx spent c ed inPos ht script := by
  unfold taprootSigHash tapSingleGet
  have e3 : (stripTx tx).version = tx.version := rfl
  have e4 : (stripTx tx).lockTime = tx.lockTime := rfl
  simp only [tapSingleFill_strip, taprootTail_strip, outputsBytes_strip, e3, e4]

/-- a cache that is coherent for a transaction is coherent for every transaction with the same skeleton -/
theorem cacheOK_strip (H : Bytes → Bytes) (tx : Tx) (spent : List TxOut) (c : Cache) :
    Cache.OK H (stripTx tx) spent c ↔ Cache.OK H tx spent c := by
  constructor
  · intro h
    exact ⟨by simpa only [prevoutsBytes_strip] using h.prevouts, by simpa only [sequencesBytes_strip] using h.sequence,
      h.outputs, by simpa only [tapSingleFill_strip] using h.tapSingle, h.tapOut⟩
  · intro h
    exact ⟨by simpa only [prevoutsBytes_strip] using h.prevouts, by simpa only [sequencesBytes_strip] using h.sequence,
      h.outputs, by simpa only [tapSingleFill_strip] using h.tapSingle, h.tapOut⟩

/-! ### where the three functions hand out a digest -/

theorem signatureHash_digest (H : Bytes → Bytes) (tx : Tx) (sc : Bytes) (nIn ht : Nat) (h : nIn < tx.ins.length) :
    ∃ d, (signatureHash H tx sc nIn ht).digest? = some d := by
  unfold signatureHash
  have e : tx.ins[nIn]? = some tx.ins[nIn] := by simp [h]
  simp only [e]
  split
  · rename_i hh; split at hh <;> cases hh
  · split
    · exact ⟨_, rfl⟩
    · exact ⟨_, rfl⟩

theorem witnessSigHash_digest (H : Bytes → Bytes) (tx : Tx) (c : Cache) (sc : Bytes) (amount nIn ht : Nat)
    (h : nIn < tx.ins.length) : ∃ d, (witnessSigHash H tx c sc amount nIn ht).1.digest? = some d := by
  unfold witnessSigHash
  have e : tx.ins[nIn]? = some tx.ins[nIn] := by simp [h]
  simp only [e]
  exact ⟨_, rfl⟩

theorem taprootKeyPath_digest (H : Bytes → Bytes) (tx : Tx) (spent : List TxOut) (nIn : Nat)
    (hs : tx.ins.length ≤ spent.length) :
    ∃ d, (taprootSigHash true H tx spent {} keyPathData nIn 0 false).1.digest? = some d := by
  have hf : (tapSingleFill H tx spent).1 = some (tapSingleFill H tx spent).2 := by
    unfold tapSingleFill
    have : ¬ spent.length < tx.ins.length := by omega
    simp only [this, ↓reduceIte]
  unfold taprootSigHash tapSingleGet
  simp [hf, taprootTail, lazyGet]
  exact ⟨_, rfl⟩

end GocoinV.SigHash

namespace GocoinV.WalletTx
open GocoinV.WalletSpec GocoinV.SigHash

theorem strip_toWire (t : Tx) : stripTx (toWire t) = skelWire (skeleton t) := by
  simp [stripTx, toWire, skelWire, skeleton, List.map_map, Function.comp_def, stripIn, wireIn]

theorem skelWire_ins_length (t : Tx) : (skelWire (skeleton t)).ins.length = t.ins.length := by
  simp [skelWire, skeleton]

/-- digests_read_skeleton_only, two transactions: same skeleton ⇒ same legacy digest; same BIP143 / BIP341 result for
    ANY two coherent cache states; and a cache coherent for one is coherent for the other -/
theorem digests_same_skeleton (sha : Bytes → Bytes) (t1 t2 : Tx) (hsk : skeleton t1 = skeleton t2) (spent : List TxOut)
    (hlen : t1.ins.length ≤ spent.length) (c1 c2 : Cache)
    (h1 : Cache.OK sha (toWire t1) (spent.map wireOut) c1) (h2 : Cache.OK sha (toWire t2) (spent.map wireOut) c2) :
    (∀ sc i ht, signatureHash sha (toWire t1) sc i ht = signatureHash sha (toWire t2) sc i ht) ∧
    (∀ sc amount i ht, (witnessSigHash sha (toWire t1) c1 sc amount i ht).1 = (witnessSigHash sha (toWire t2) c2 sc amount i ht).1) ∧
    (∀ ed i ht script, (taprootSigHash true sha (toWire t1) (spent.map wireOut) c1 ed i ht script).1
        = (taprootSigHash true sha (toWire t2) (spent.map wireOut) c2 ed i ht script).1) ∧
    Cache.OK sha (toWire t2) (spent.map wireOut) c1 := by
  have e : stripTx (toWire t1) = stripTx (toWire t2) := by rw [strip_toWire, strip_toWire, hsk]
  have l1 : (toWire t1).ins.length ≤ (spent.map wireOut).length := by simp [toWire]; exact hlen
  have l2 : (toWire t2).ins.length ≤ (spent.map wireOut).length := by
    have : t2.ins.length = t1.ins.length := by
      have := congrArg (fun s => s.outpoints.length) hsk
      simpa [skeleton] using this.symm
    simp [toWire]; omega
  refine ⟨?_, ?_, ?_, ?_⟩
  · intro sc i ht
    rw [← signatureHash_strip, e, signatureHash_strip]
  · intro sc amount i ht
    rw [(witnessSigHash_cache sha _ _ c1 h1 sc amount i ht).1, (witnessSigHash_cache sha _ _ c2 h2 sc amount i ht).1,
      ← witnessSigHash_strip, e, witnessSigHash_strip]
  · intro ed i ht script
    rw [(taprootSigHash_cache true sha _ _ c1 l1 h1 ed i ht script).1, (taprootSigHash_cache true sha _ _ c2 l2 h2 ed i ht script).1,
      ← taprootSigHash_strip, e, taprootSigHash_strip]
  · rw [← cacheOK_strip, ← e, cacheOK_strip]; exact h1

/-- digests_read_skeleton_only, as `signatures_verify` needs it: for every transaction `t'` with the skeleton of `t`
    (the signed one, or any partly signed stage) and every coherent cache state, C02's functions on `t'` hand out
    exactly the digests `c02Crypto` computes from the skeleton of `t` -/
theorem digests_of_skeleton (sha h160 : Bytes → Bytes) (ev sv : Bytes → Bytes → Bytes → Bool) (t t' : Tx)
    (hsk : skeleton t' = skeleton t) (spent : List TxOut) (i : Nat) (hi : i < t.ins.length) (hlen : t.ins.length ≤ spent.length)
    (cch : Cache) (hc : Cache.OK sha (toWire t') (spent.map wireOut) cch) :
    (∀ sc ht, (signatureHash sha (toWire t') sc i ht).digest? = some ((c02Crypto sha h160 ev sv).legacyDigest (skeleton t) i sc ht)) ∧
    (∀ sc amount ht, (witnessSigHash sha (toWire t') cch sc amount i ht).1.digest?
        = some ((c02Crypto sha h160 ev sv).witnessDigest (skeleton t) i sc amount ht)) ∧
    (taprootSigHash true sha (toWire t') (spent.map wireOut) cch keyPathData i 0 false).1.digest?
        = some ((c02Crypto sha h160 ev sv).taprootDigest (skeleton t) spent i 0) := by
  have hi' : i < (skelWire (skeleton t)).ins.length := by rw [skelWire_ins_length]; exact hi
  have hl' : (skelWire (skeleton t)).ins.length ≤ (spent.map wireOut).length := by
    rw [skelWire_ins_length]; simp; exact hlen
  have hl2 : (toWire t').ins.length ≤ (spent.map wireOut).length := by
    have : t'.ins.length = t.ins.length := by
      have := congrArg (fun s => s.outpoints.length) hsk
      simpa [skeleton] using this
    simp [toWire]; omega
  refine ⟨?_, ?_, ?_⟩
  · intro sc ht
    rw [← signatureHash_strip, strip_toWire, hsk]
    obtain ⟨d, hd⟩ := signatureHash_digest sha (skelWire (skeleton t)) sc i ht hi'
    simp only [c02Crypto, hd, Option.getD_some]
  · intro sc amount ht
    rw [(witnessSigHash_cache sha _ _ cch hc sc amount i ht).1, ← witnessSigHash_strip, strip_toWire, hsk]
    obtain ⟨d, hd⟩ := witnessSigHash_digest sha (skelWire (skeleton t)) {} sc amount i ht hi'
    simp only [c02Crypto, hd, Option.getD_some]
  · rw [(taprootSigHash_cache true sha _ _ cch hl2 hc keyPathData i 0 false).1, ← taprootSigHash_strip, strip_toWire, hsk]
    obtain ⟨d, hd⟩ := taprootKeyPath_digest sha (skelWire (skeleton t)) (spent.map wireOut) i hl'
    simp only [c02Crypto, hd, Option.getD_some]

/-- "the verifier's three digest requests for input `i` of transaction `tv` are answered by C02's models of
    `Tx.SignatureHash` / `Tx.WitnessSigHash` / `Tx.TaprootSigHash` on `tv`" — in whatever coherent state the
    per-transaction cache is when the request is made -/
structure DigestsAreC02 (O : GocoinV.Script.Oracles) (sha : Bytes → Bytes) (tv : Tx) (spent : List TxOut) (i amount : Nat) : Prop where
  legacy : ∀ sc ht, O.sigHashLegacy sc ht = (signatureHash sha (toWire tv) sc i ht).digest?
  witv0 : ∀ sc ht, ∃ cch, Cache.OK sha (toWire tv) (spent.map wireOut) cch ∧
    O.sigHashWitV0 sc ht = (witnessSigHash sha (toWire tv) cch sc amount i ht).1.digest?
  taproot : ∃ cch, Cache.OK sha (toWire tv) (spent.map wireOut) cch ∧
    O.sigHashTap none [] 0 0 false = (taprootSigHash true sha (toWire tv) (spent.map wireOut) cch keyPathData i 0 false).1.digest?

/-- the three "digest signed = digest verified" facts, derived: the verifier works on `t'`, the wallet computed its
    digests from the skeleton of `t`, and the two transactions have the same skeleton -/
theorem dig_of_c02 (O : GocoinV.Script.Oracles) (sha h160 : Bytes → Bytes) (ev sv : Bytes → Bytes → Bytes → Bool) (t t' : Tx)
    (hsk : skeleton t' = skeleton t) (spent : List TxOut) (i amount : Nat) (hi : i < t.ins.length)
    (hlen : t.ins.length ≤ spent.length) (hO : DigestsAreC02 O sha t' spent i amount) :
    (∀ sc ht, O.sigHashLegacy sc ht = some ((c02Crypto sha h160 ev sv).legacyDigest (skeleton t) i sc ht)) ∧
    (∀ sc ht, O.sigHashWitV0 sc ht = some ((c02Crypto sha h160 ev sv).witnessDigest (skeleton t) i sc amount ht)) ∧
    O.sigHashTap none [] 0 0 false = some ((c02Crypto sha h160 ev sv).taprootDigest (skeleton t) spent i 0) := by
  refine ⟨?_, ?_, ?_⟩
  · intro sc ht
    rw [hO.legacy]
    exact (digests_of_skeleton sha h160 ev sv t t' hsk spent i hi hlen {} (Cache.OK_empty _ _ _)).1 sc ht
  · intro sc ht
    obtain ⟨cch, hc, e⟩ := hO.witv0 sc ht
    rw [e]
    exact (digests_of_skeleton sha h160 ev sv t t' hsk spent i hi hlen cch hc).2.1 sc amount ht
  · obtain ⟨cch, hc, e⟩ := hO.taproot
    rw [e]
    exact (digests_of_skeleton sha h160 ev sv t t' hsk spent i hi hlen cch hc).2.2

end GocoinV.WalletTx
