/-
  Proofs.C15Str — the digit loop of `Decodeb58` over the CODE POINTS of the typed string (Model/Base58Str.lean)
  against the bytewise model `Base58.value?`:
    * every alphabet character is ASCII, so a byte ≥ 0x80 is refused (`chr2int_hi`, `value?_hi`, `decode_hi`);
    * the first byte of a code point of width > 1, and of an invalid sequence, is ≥ 0x80 and so is the code point
      (`decodeRune_ascii`, `decodeRune_hi`);
    * hence looking up the byte `s[i]` at the positions `range` yields (lookup 0), or the code point itself
      (lookup 2), computes `Base58.value?` (`valueR_eq`), and `decodeGo` is `Base58.decode` (`decodeGo_eq`).
-/
import GocoinV.Model.Base58Str
import GocoinV.Proofs.C15Base58b
namespace GocoinV.Base58Str
open GocoinV.Base58 Gen.Base58Consts

theorem digitChar_ascii_tab : ∀ d : Fin 58, (digitChar d.val).toNat < 128 := by decide +kernel

/-- a byte ≥ 0x80 is not in the alphabet -/
theorem chr2int_hi (c : UInt8) (h : 128 ≤ c.toNat) : chr2int c = none := by
  cases hc : chr2int c with
  | none => rfl
  | some d =>
    obtain ⟨hd, he⟩ := chr2int_inv c d hc
    have := digitChar_ascii_tab ⟨d, hd⟩
    simp only [he] at this
    omega

/-- a string with a byte ≥ 0x80 has no value -/
theorem value?_hi (s : Bytes) : ∀ acc, (∃ c ∈ s, 128 ≤ c.toNat) → value? s acc = none := by
  induction s with
  | nil => intro _ ⟨c, hc, _⟩; cases hc
  | cons x t ih =>
    intro acc ⟨c, hc, h⟩
    simp only [value?]
    cases hx : chr2int x with
    | none => rfl
    | some v =>
      simp only
      apply ih
      rcases List.mem_cons.mp hc with rfl | hm
      · rw [chr2int_hi c h] at hx; cases hx
      · exact ⟨c, hm, h⟩

theorem decode_hi (s : Bytes) (h : ∃ c ∈ s, 128 ≤ c.toNat) : decode s = none := by
  simp only [decode, value?_hi s 0 h]

theorem decodeRune_ascii (c : UInt8) (t : Bytes) (h : c.toNat < 128) : decodeRune (c :: t) = (c.toNat, 1) := by
  simp only [decodeRune]
  rw [if_pos h]

/-- the code point that starts with a byte ≥ 0x80 is ≥ 0x80 (U+FFFD for an invalid sequence) -/
theorem decodeRune_hi (c : UInt8) (t : Bytes) (h : 128 ≤ c.toNat) : 128 ≤ (decodeRune (c :: t)).1 := by
  have hlt := c.toNat_lt
  simp only [decodeRune]
  rw [if_neg (by omega)]
  repeat' split
  all_goals (simp only; omega)

theorem lookupOf_ascii (lookup : Nat) (hl : lookup = 0 ∨ lookup = 2) (c : UInt8) (h : c.toNat < 128) :
    lookupOf lookup c c.toNat = chr2int c := by
  unfold lookupOf
  rcases hl with h0 | h2
  · rw [if_pos h0]
  · rw [if_neg (by omega), if_pos h2, if_pos (by omega)]
    simp

theorem lookupOf_hi (lookup : Nat) (hl : lookup = 0 ∨ lookup = 2) (c : UInt8) (r : Nat) (h : 128 ≤ c.toNat)
    (hr : 128 ≤ r) : lookupOf lookup c r = none := by
  unfold lookupOf
  rcases hl with h0 | h2
  · rw [if_pos h0]; exact chr2int_hi c h
  · rw [if_neg (by omega), if_pos h2]
    split
    · rename_i h256
      apply chr2int_hi
      rw [UInt8.toNat_ofNat']
      omega
    · rfl

/-- looking up the byte (0) or the code point at full width (2) at the code-point positions = the bytewise loop -/
theorem valueR_eq (lookup : Nat) (hl : lookup = 0 ∨ lookup = 2) (s : Bytes) : ∀ acc, valueR lookup s 0 acc = value? s acc := by
  induction s with
  | nil => intro _; rfl
  | cons c t ih =>
    intro acc
    simp only [valueR, value?]
    by_cases h : c.toNat < 128
    · rw [decodeRune_ascii c t h]
      simp only [lookupOf_ascii lookup hl c h]
      cases chr2int c with
      | none => rfl
      | some v => exact ih _
    · have h' : 128 ≤ c.toNat := by omega
      rw [lookupOf_hi lookup hl c _ h' (decodeRune_hi c t h'), chr2int_hi c h']

theorem decodeGo_eq (ranges : Bool) (lookup : Nat) (hl : lookup = 0 ∨ lookup = 2) (s : Bytes) :
    decodeGo ranges lookup s = decode s := by
  have hv : valueGo ranges lookup s = value? s 0 := by
    unfold valueGo
    cases ranges
    · rfl
    · simp only [if_true]; exact valueR_eq lookup hl s 0
  unfold decodeGo decode
  rw [hv]
  cases value? s 0 <;> rfl

end GocoinV.Base58Str
