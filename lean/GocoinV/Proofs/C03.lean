/-
  Proofs.C03 — helper lemmas for the C03 property theorems (Props/C03.lean). Core Lean only.
-/
import GocoinV.Model.Sig
import GocoinV.Spec.Ecdsa
import GocoinV.Spec.Bip340
import GocoinV.Spec.TapTweak
import GocoinV.Spec.Rfc6979
namespace GocoinV.Proofs.C03
open GocoinV GocoinV.Secp GocoinV.Model GocoinV.Model.Sig

theorem p_pos : 0 < p := by decide
theorem n_pos : 0 < n := by decide

theorem powModAux_lt (m : Nat) (hm : 0 < m) : ∀ fuel b e acc, acc < m → powModAux m fuel b e acc < m := by
  intro fuel
  induction fuel with
  | zero => intro b e acc h; simpa [powModAux] using h
  | succ f ih =>
    intro b e acc h
    simp only [powModAux]
    split
    · exact h
    · apply ih
      split
      · exact Nat.mod_lt _ hm
      · exact h
theorem powMod_lt (b e m : Nat) (hm : 1 < m) : powMod b e m < m := by
  unfold powMod
  apply powModAux_lt m (by omega)
  exact Nat.mod_lt _ (by omega)
theorem sq_neg (r : Nat) (h : r ≤ p) : (p - r) * (p - r) % p = r * r % p := by
  have key : ∀ a b : Nat, a + b = p → a ≤ b → b * b % p = a * a % p := by
    intro a b hab hle
    have : b * b = a * a + (b - a) * p := by
      have h1 := Nat.mul_self_sub_mul_self_eq b a
      have h2 : a * a ≤ b * b := Nat.mul_le_mul hle hle
      rw [← hab, Nat.mul_comm (b - a)]
      rw [Nat.add_comm a b, ← h1]; omega
    rw [this, Nat.add_mul_mod_self_right]
  by_cases hc : p - r ≤ r
  · exact (key (p - r) r (by omega) hc).symm
  · exact key r (p - r) (by omega) (by omega)

attribute [local irreducible] Secp.powMod

/-- right-hand side of the curve equation: x³ + 7 mod p -/
def curveRhs (x : Nat) : Nat := (x * x % p * x + 7) % p

theorem sqrtCand_lt (a : Nat) : sqrtCand a < p := powMod_lt _ _ _ (by decide)

/-- the compressed-key core: model (SetXO + IsValid) against spec (sqrt? + parity choice) -/
theorem compressed_core (x : Nat) (hx : x < p) (odd : Bool) (hex : ¬ (odd = true ∧ curveRhs x = 0)) :
    (if isValid x (setXO x odd) then some (x, setXO x odd) else none)
    = (match sqrt? (curveRhs x) with
       | none => none
       | some y => some (x, if (y % 2 = 1) = (odd = true) then y else p - y)) := by
  have hxm : x % p = x := Nat.mod_eq_of_lt hx
  have hc : curveRhs x % p = curveRhs x := by unfold curveRhs; exact Nat.mod_mod _ _
  have hr := sqrtCand_lt (curveRhs x)
  skip
  skip
  have e1 : isValid x (setXO x odd) = (let y := setXO x odd; (y % p) * (y % p) % p == curveRhs x) := by
    show ((setXO x odd % p) * (setXO x odd % p) % p == (x % p * (x % p) % p * (x % p) + 7) % p) = _
    rw [hxm]; rfl
  have e2 : setXO x odd = (if (sqrtCand (curveRhs x) % 2 == 1) != odd then (p - sqrtCand (curveRhs x)) % p else sqrtCand (curveRhs x)) := by
    show (if (sqrtCand ((x % p * (x % p) % p * (x % p) + 7) % p) % 2 == 1) != odd then _ else _) = _
    rw [hxm]; rfl
  have e3 : sqrt? (curveRhs x) = (if sqrtCand (curveRhs x) * sqrtCand (curveRhs x) % p = curveRhs x % p then some (sqrtCand (curveRhs x)) else none) := rfl
  rw [e1, e3]; simp only []; rw [e2]
  change (if ((if (sqrtCand (curveRhs x) % 2 == 1) != odd then (p - sqrtCand (curveRhs x)) % p else sqrtCand (curveRhs x)) % p *
          ((if (sqrtCand (curveRhs x) % 2 == 1) != odd then (p - sqrtCand (curveRhs x)) % p else sqrtCand (curveRhs x)) % p) % p == curveRhs x) = true
        then some (x, if (sqrtCand (curveRhs x) % 2 == 1) != odd then (p - sqrtCand (curveRhs x)) % p else sqrtCand (curveRhs x)) else none)
     = (match (if sqrtCand (curveRhs x) * sqrtCand (curveRhs x) % p = curveRhs x % p then some (sqrtCand (curveRhs x)) else none) with
       | none => none
       | some y => some (x, if (y % 2 = 1) = (odd = true) then y else p - y))
  generalize sqrtCand (curveRhs x) = r at hr ⊢
  generalize hcv : curveRhs x = c at hc hex ⊢
  rw [hc]
  by_cases hpar : (r % 2 == 1) = odd
  · -- parity matches
    have h1 : ((r % 2 == 1) != odd) = false := by simp [hpar]
    simp only [h1, Bool.false_eq_true, ↓reduceIte, Nat.mod_eq_of_lt hr, beq_iff_eq]
    have h2 : ((r % 2 = 1) = (odd = true)) := by
      rw [← hpar]; simp
    by_cases hv : r * r % p = c
    · simp [hv, h2]
    · simp [hv]
  · have h1 : ((r % 2 == 1) != odd) = true := by
      cases odd <;> cases hb : (r % 2 == 1) <;> simp_all
    have h2 : ¬ ((r % 2 = 1) = (odd = true)) := by
      intro h; apply hpar
      cases odd <;> simp_all
    simp only [h1, ↓reduceIte, beq_iff_eq]
    by_cases hr0 : r = 0
    · subst hr0
      have hodd : odd = true := by cases odd <;> simp_all
      have hc0 : c ≠ 0 := fun h => hex ⟨hodd, h⟩
      have : ¬ (0 = c) := fun h => hc0 h.symm
      simp [this]
    · have hlt : p - r < p := by omega
      rw [Nat.mod_eq_of_lt hlt, Nat.mod_eq_of_lt hlt, sq_neg r (by omega)]
      by_cases hv : r * r % p = c
      · simp [hv, h2]
      · simp [hv]

/-- Key encodings on which the model and the SEC1 reference could differ ONLY IF secp256k1 had a point
    with y = 0: `03 ‖ x` with x³ + 7 ≡ 0 (mod p). No such x exists: −7 is not a cube modulo p, PROVED in
    Proofs/C03Field.lean (`curveRhs_ne_zero`, `not_exceptional`: the class is empty), so the theorems of
    this file that carry `¬ Exceptional pk` are applied unconditionally in Props/C03.lean
    (`ecdsa_accept_iff`, `parsePubkey_is_sec1`). -/
def Exceptional (pk : Bytes) : Prop :=
  ∃ t, pk = 0x03 :: t ∧ t.length = 32 ∧ curveRhs (beVal t) = 0

theorem isValid_eq_onCurve (x y : Nat) (hx : x < p) (hy : y < p) :
    isValid x y = onCurve (some (x, y)) := by
  unfold isValid onCurve
  simp [Nat.mod_eq_of_lt hx, Nat.mod_eq_of_lt hy, hx, hy]

theorem parsePubkey_eq (pk : Bytes) (hex : ¬ Exceptional pk) :
    Sig.parsePubkey true pk = Secp.parsePubkey pk := by
  cases pk with
  | nil => rfl
  | cons h t =>
    unfold Sig.parsePubkey Secp.parsePubkey
    simp only [List.length_cons, ↓reduceIte]
    by_cases hc : (h = 2 ∨ h = 3) ∧ t.length = 32
    · have hc' : t.length + 1 = 33 ∧ (h = 2 ∨ h = 3) := ⟨by omega, hc.1⟩
      rw [if_pos hc', if_pos hc]
      by_cases hx : beVal t ≥ p
      · simp [hx]
      · have hx' : beVal t < p := by omega
        simp only [hx, ↓reduceIte]
        have hex' : ¬ ((h == 3) = true ∧ curveRhs (beVal t) = 0) := by
          intro ⟨h3, h0⟩
          exact hex ⟨t, by rw [beq_iff_eq.mp h3], hc.2, h0⟩
        have := compressed_core (beVal t) hx' (h == 3) hex'
        simp only [beq_iff_eq] at this
        exact this
    · have hc' : ¬ (t.length + 1 = 33 ∧ (h = 2 ∨ h = 3)) := fun ⟨a, b⟩ => hc ⟨b, by omega⟩
      rw [if_neg hc', if_neg hc]
      by_cases hu : (h = 4 ∨ h = 6 ∨ h = 7) ∧ t.length = 64
      · have hu' : t.length + 1 = 65 ∧ (h = 4 ∨ h = 6 ∨ h = 7) := ⟨by omega, hu.1⟩
        rw [if_pos hu', if_pos hu]
        by_cases hr : beVal (List.take 32 t) ≥ p ∨ beVal (List.drop 32 t) ≥ p
        · simp [hr]
        · have hx : beVal (List.take 32 t) < p := by omega
          have hy : beVal (List.drop 32 t) < p := by omega
          simp only [hr, ↓reduceIte, isValid_eq_onCurve _ _ hx hy]
          generalize beVal (List.take 32 t) = x at *
          generalize beVal (List.drop 32 t) = y at *
          have hy2 : y % 2 = 0 ∨ y % 2 = 1 := by omega
          rcases hu.1 with h4 | h6 | h7
          · subst h4; cases hoc : onCurve (some (x, y)) <;> simp (decide := true) [hoc]
          · subst h6
            cases hoc : onCurve (some (x, y)) <;> rcases hy2 with e | e <;> simp (decide := true) [hoc, e]
          · subst h7
            cases hoc : onCurve (some (x, y)) <;> rcases hy2 with e | e <;> simp (decide := true) [hoc, e]
      · have hu' : ¬ (t.length + 1 = 65 ∧ (h = 4 ∨ h = 6 ∨ h = 7)) := fun ⟨a, b⟩ => hu ⟨b, by omega⟩
        rw [if_neg hu', if_neg hu]

theorem parseXOnly_eq (pk : Bytes) (h32 : pk.length = 32) :
    Sig.parseXOnly true pk = liftX (beVal pk) := by
  unfold Sig.parseXOnly liftX
  simp only [h32, ↓reduceIte, ne_eq, not_true_eq_false]
  by_cases hx : beVal pk ≥ p
  · have : ¬ (beVal pk < p) := by omega
    simp [hx, this]
  · have hx' : beVal pk < p := by omega
    have hcore := compressed_core (beVal pk) hx' false (by simp)
    simp only [hx, hx', true_and, ↓reduceIte]
    rw [hcore]
    have ec : (beVal pk * beVal pk % p * beVal pk + 7) % p = curveRhs (beVal pk) := rfl
    rw [ec]
    cases sqrt? (curveRhs (beVal pk)) with
    | none => rfl
    | some y =>
      have hy2 : y % 2 = 0 ∨ y % 2 = 1 := by omega
      rcases hy2 with e | e <;> simp [e]

/-- both coordinates of a finite point are below p -/
def Lt (P : Point) : Prop := ∀ x y, P = some (x, y) → x < p ∧ y < p

theorem subMod_lt (a b : Nat) : subMod a b p < p := Nat.mod_lt _ p_pos

theorem dbl_lt (P : Point) : Lt (dbl P) := by
  intro x y h
  cases P with
  | none => simp [dbl] at h
  | some q =>
    obtain ⟨x1, y1⟩ := q
    simp only [dbl] at h
    split at h
    · simp at h
    · simp only [Option.some.injEq, Prod.mk.injEq] at h
      obtain ⟨rfl, rfl⟩ := h
      exact ⟨subMod_lt _ _, subMod_lt _ _⟩

theorem add_lt (P Q : Point) (hP : Lt P) (hQ : Lt Q) : Lt (add P Q) := by
  intro x y h
  cases P with
  | none => simp only [add] at h; exact hQ x y h
  | some a =>
    cases Q with
    | none => simp only [add] at h; exact hP x y h
    | some b =>
      obtain ⟨x1, y1⟩ := a
      obtain ⟨x2, y2⟩ := b
      simp only [add] at h
      split at h
      · split at h
        · exact dbl_lt _ x y h
        · simp at h
      · simp only [Option.some.injEq, Prod.mk.injEq] at h
        obtain ⟨rfl, rfl⟩ := h
        exact ⟨subMod_lt _ _, subMod_lt _ _⟩

theorem mulAux_lt (P : Point) (hP : Lt P) : ∀ i k acc, Lt acc → Lt (mulAux P i k acc) := by
  intro i
  induction i with
  | zero => intro k acc h; simpa [mulAux] using h
  | succ i ih =>
    intro k acc h
    simp only [mulAux]
    apply ih
    split
    · exact add_lt _ _ (dbl_lt _) hP
    · exact dbl_lt _

theorem mul_lt (k : Nat) (P : Point) (hP : Lt P) : Lt (mul k P) := by
  unfold mul
  exact mulAux_lt P hP _ _ _ (by intro x y h; simp at h)

theorem G_lt : Lt G := by
  intro x y h
  simp only [G, Option.some.injEq, Prod.mk.injEq] at h
  obtain ⟨rfl, rfl⟩ := h
  exact ⟨by decide, by decide⟩

theorem some_lt (x y : Nat) (hx : x < p) (hy : y < p) : Lt (some (x, y)) := by
  intro a b h
  simp only [Option.some.injEq, Prod.mk.injEq] at h
  obtain ⟨rfl, rfl⟩ := h
  exact ⟨hx, hy⟩

theorem sqrt?_lt (a r : Nat) (h : sqrt? a = some r) : r < p := by
  unfold sqrt? at h
  by_cases hc : powMod a ((p + 1) / 4) p * powMod a ((p + 1) / 4) p % p = a % p
  · simp only [hc, ↓reduceIte, Option.some.injEq] at h
    rw [← h]; exact powMod_lt _ _ _ (by decide)
  · simp [hc] at h

/-- a point returned by lift_x has coordinates below p -/
theorem liftX_lt (x : Nat) : Lt (liftX x) := by
  intro a b h
  unfold liftX at h
  split at h
  · simp at h
  · rename_i hx
    split at h
    · simp at h
    · rename_i r hr
      simp only [Option.some.injEq, Prod.mk.injEq] at h
      obtain ⟨rfl, rfl⟩ := h
      have := sqrt?_lt _ _ hr
      refine ⟨by omega, ?_⟩
      split <;> omega

/-- ECmult with a natural-number scalar -/
theorem ecmult_nat (A : Point) (a g : Nat) :
    ecmult A (a : Int) g = add (mul (a % n) A) (mul (g % n) G) := by
  unfold ecmult
  have : ((a : Int) % (n : Int)).toNat = a % n := by
    unfold n; omega
  rw [this]

/-- the scalar n − e the Schnorr verifier passes to ECmult, reduced -/
theorem schnorr_scalar (a : Nat) : (((n : Int) - (a : Int)) % (n : Int)).toNat = (n - a % n) % n := by
  unfold n
  omega

theorem mul_one (P : Point) : mul 1 P = P := by
  unfold mul
  have : Nat.log2 1 = 0 := by decide
  rw [this]
  simp [mulAux, dbl, add]

open GocoinV.C03 in
theorem schnorr_eq (H : Hash) (pk sig msg : Bytes) :
    Sig.schnorrVerify H pk sig msg = Spec.Bip340.verify H pk sig msg := by
  unfold Sig.schnorrVerify Sig.schnorrVerify? Spec.Bip340.verify
  by_cases h64 : sig.length = 64
  · have h32' : ¬ sig.length < 32 := by omega
    simp only [h64, ne_eq, not_true_eq_false, and_false, ↓reduceIte, or_false, true_and]
    have h32'' : ¬ (64 < 32) := by omega
    simp only [h32'', ↓reduceIte]
    by_cases h32 : pk.length = 32
    · simp only [h32, not_true_eq_false, ↓reduceIte]
      rw [parseXOnly_eq pk h32]
      have hL := liftX_lt (beVal pk)
      cases hl : liftX (beVal pk) with
      | none => rfl
      | some P =>
        rw [hl] at hL
        simp only []
        by_cases hs : beVal (List.drop 32 sig) ≥ n
        · simp [hs]
        · have hs' : beVal (List.drop 32 sig) < n := by omega
          simp only [hs, ↓reduceIte, or_false]
          have hsc : ecmult (some P) ((n : Int) - (challengeRaw H (List.take 32 sig) msg pk : Int)) (beVal (List.drop 32 sig))
              = add (mul ((n - Spec.Bip340.challenge H (List.take 32 sig) pk msg) % n) (some P)) (mul (beVal (List.drop 32 sig)) G) := by
            unfold ecmult
            rw [schnorr_scalar, Nat.mod_eq_of_lt hs']
            rfl
          rw [hsc]
          have hR : Lt (add (mul ((n - Spec.Bip340.challenge H (List.take 32 sig) pk msg) % n) (some P)) (mul (beVal (List.drop 32 sig)) G)) :=
            add_lt _ _ (mul_lt _ _ hL) (mul_lt _ _ G_lt)
          generalize add (mul ((n - Spec.Bip340.challenge H (List.take 32 sig) pk msg) % n) (some P)) (mul (beVal (List.drop 32 sig)) G) = R at hR
          generalize beVal (List.take 32 sig) = r
          cases R with
          | none => by_cases hr : r ≥ p <;> simp [hr]
          | some q =>
            obtain ⟨x, y⟩ := q
            have hx := (hR x y rfl).1
            have hy2 : y % 2 = 0 ∨ y % 2 = 1 := by omega
            by_cases hr : r ≥ p
            · have hne : ¬ (r = x) := by omega
              rcases hy2 with e | e <;> simp [hr, e, hne]
            · rcases hy2 with e | e
              · simp only [hr, ↓reduceIte, e]
                simp only [Nat.zero_ne_one, ↓reduceIte, Option.getD_some, BEq.rfl, Bool.true_and]
                exact Bool.beq_comm
              · simp [hr, e]
    · have : Sig.parseXOnly true pk = none := by
        unfold Sig.parseXOnly; simp [h32]
      simp [this, h32]
  · simp [h64]

theorem ecmult_one (P : Nat × Nat) (t : Nat) (ht : t < n) :
    ecmult (some P) 1 t = add (some P) (mul t G) := by
  have h := ecmult_nat (some P) 1 t
  have h1 : 1 % n = 1 := by decide
  rw [h1, mul_one, Nat.mod_eq_of_lt ht] at h
  exact h

theorem tweak_eq (qx base hash : Bytes) (parity : Bool) :
    Sig.checkPayToContract qx base hash parity = Spec.TapTweak.check qx base hash parity := by
  unfold Sig.checkPayToContract Sig.checkPayToContract? Spec.TapTweak.check
  by_cases h32 : base.length = 32
  · simp only [h32, ne_eq, not_true_eq_false, ↓reduceIte, true_and]
    rw [parseXOnly_eq base h32]
    cases hl : liftX (beVal base) with
    | none => rfl
    | some P =>
      simp only []
      by_cases ht : beVal hash ≥ n
      · simp [ht]
      · have ht' : beVal hash < n := by omega
        simp only [ht, ↓reduceIte]
        rw [ecmult_one P _ ht']
        cases add (some P) (mul (beVal hash) G) with
        | none => rfl
        | some q => rfl
  · have : Sig.parseXOnly true base = none := by
      unfold Sig.parseXOnly; simp [h32]
    simp [this, h32]

theorem drop_shape {α} (l : List α) (k : Nat) (h : k + 2 ≤ l.length) :
    ∃ x y r, l.drop k = x :: y :: r := by
  have hl : (l.drop k).length = l.length - k := List.length_drop
  match hd : l.drop k with
  | [] => rw [hd] at hl; simp at hl; omega
  | [x] => rw [hd] at hl; simp at hl; omega
  | x :: y :: r => exact ⟨x, y, r, rfl⟩

theorem drop_facts {α} (l : List α) (k : Nat) (x y : α) (r : List α) (d : α) (h : l.drop k = x :: y :: r) :
    l.getD k d = x ∧ l.getD (k + 1) d = y ∧ l.drop (k + 2) = r ∧ r.length + k + 2 = l.length := by
  have h0 : l[k]? = some x := by
    have := List.getElem?_drop (xs := l) (i := k) (j := 0)
    rw [h] at this; simpa using this.symm
  have h1 : l[k+1]? = some y := by
    have := List.getElem?_drop (xs := l) (i := k) (j := 1)
    rw [h] at this; simpa using this.symm
  have h2 : l.drop (k + 2) = r := by
    rw [← List.drop_drop, h]; rfl
  have h3 : (l.drop k).length = l.length - k := List.length_drop
  rw [h] at h3
  simp only [List.length_cons] at h3
  have hk : k < l.length := by
    rcases Nat.lt_or_ge k l.length with hh | hh
    · exact hh
    · rw [List.getElem?_eq_none hh] at h0; simp at h0
  refine ⟨by simp [List.getD_eq_getElem?_getD, h0], by simp [List.getD_eq_getElem?_getD, h1], h2, by omega⟩

theorem parseBytes_eq (sig : Bytes) :
    (Sig.parseBytes sig).map (fun t => (t.1, t.2.1)) = Spec.Ecdsa.decodeSig sig := by
  match sig with
  | [] => rfl
  | [_] => rfl
  | [_, _] => rfl
  | [_, _, _] => rfl
  | a :: b :: c :: d :: rest =>
    unfold Sig.parseBytes Spec.Ecdsa.decodeSig
    simp only [List.length_cons, List.getD_cons_zero, List.getD_cons_succ]
    by_cases hac : a ≠ 0x30 ∨ c ≠ 0x02
    · rcases hac with h | h
      · simp [h]
      · by_cases ha : a = 0x30 <;> simp [h, ha]
    · have ha : a = 0x30 := by
        rcases Classical.em (a = 0x30) with h | h
        · exact h
        · exact absurd (Or.inl h) hac
      have hc : c = 0x02 := by
        rcases Classical.em (c = 0x02) with h | h
        · exact h
        · exact absurd (Or.inr h) hac
      subst ha; subst hc
      simp only [ne_eq, not_true_eq_false, or_false, false_or, ↓reduceIte]
      by_cases hlen : d.toNat = 0 ∨ rest.length < d.toNat + 2
      · rw [if_pos hlen]
        by_cases h5 : rest.length + 1 + 1 + 1 + 1 < 5
        · simp [h5]
        · simp only [h5, false_or, ↓reduceIte]
          have : (d.toNat = 0 ∨ 5 + d.toNat ≥ rest.length + 1 + 1 + 1 + 1 ∨ ¬ rest.getD d.toNat 0 = 2) := by
            rcases hlen with h | h
            · exact Or.inl h
            · exact Or.inr (Or.inl (by omega))
          rw [if_pos this]; rfl
      · rw [if_neg hlen]
        have hl0 : d.toNat ≠ 0 := fun h => hlen (Or.inl h)
        have hl1 : d.toNat + 2 ≤ rest.length := by
          rcases Nat.lt_or_ge rest.length (d.toNat + 2) with h | h
          · exact absurd (Or.inr h) hlen
          · exact h
        obtain ⟨t2, ls, rest2, hd⟩ := drop_shape rest d.toNat hl1
        obtain ⟨g0, g1, g2, g3⟩ := drop_facts rest d.toNat t2 ls rest2 0 hd
        rw [hd]
        simp only []
        have h5 : ¬ (rest.length + 1 + 1 + 1 + 1 < 5) := by omega
        have e5 : d.toNat + 5 = (d.toNat + 1) + 1 + 1 + 1 + 1 := by omega
        have e4 : d.toNat + 4 = d.toNat + 1 + 1 + 1 + 1 := by omega
        simp only [h5, false_or, e4, e5, List.getD_cons_succ, g0, g1]
        have e6 : List.drop (6 + d.toNat) (48 :: b :: 2 :: d :: rest) = rest2 := by
          have : 6 + d.toNat = (d.toNat + 2) + 1 + 1 + 1 + 1 := by omega
          rw [this]; simp only [List.drop_succ_cons]; exact g2
        have e4' : List.drop 4 (48 :: b :: 2 :: d :: rest) = rest := rfl
        have hiff : (d.toNat + ls.toNat + 6 > rest.length + 1 + 1 + 1 + 1) ↔ rest2.length < ls.toNat := by omega
        have h2 : ¬ (5 + d.toNat ≥ rest.length + 1 + 1 + 1 + 1) := by omega
        rw [e6, e4']
        simp only [hiff, h2, hl0, false_or, ↓reduceIte]
        by_cases ht : t2 = 2 <;> by_cases hA : ls.toNat = 0 <;> by_cases hB : rest2.length < ls.toNat <;>
          by_cases hC : b.toNat = d.toNat + ls.toNat + 4 <;> simp [ht, hA, hB, hC]


theorem ecdsa_eq (pk sig msg : Bytes) (hex : ¬ Exceptional pk) :
    Sig.ecdsaVerify true pk sig msg = Spec.Ecdsa.verify pk sig msg := by
  unfold Sig.ecdsaVerify Sig.ecdsaVerifyCode Spec.Ecdsa.verify
  rw [parsePubkey_eq pk hex]
  have hps := parseBytes_eq sig
  cases pk with
  | nil => simp [Secp.parsePubkey]
  | cons ph pt =>
    cases sig with
    | nil =>
      have : Spec.Ecdsa.decodeSig [] = none := rfl
      simp [this]
    | cons sh st =>
      have hne : ¬ ((ph :: pt).length = 0 ∨ (sh :: st).length = 0) := by simp
      rw [if_neg hne]
      cases hq : Secp.parsePubkey (ph :: pt) with
      | none => simp
      | some Q =>
        cases hp : Sig.parseBytes (sh :: st) with
        | none =>
          rw [hp] at hps
          simp only [Option.map_none] at hps
          rw [← hps]; simp
        | some t =>
          obtain ⟨r, s, k⟩ := t
          rw [hp] at hps
          simp only [Option.map_some] at hps
          rw [← hps]
          simp only []
          unfold Sig.sigVerify
          by_cases hrange : r = 0 ∨ r ≥ n ∨ s = 0 ∨ s ≥ n
          · have : ¬ (decide (1 ≤ r) && decide (r < n) && decide (1 ≤ s) && decide (s < n)) = true := by
              simp only [Bool.and_eq_true, decide_eq_true_eq]; omega
            simp only [hrange, and_self, ↓reduceIte]
            cases hb : (decide (1 ≤ r) && decide (r < n) && decide (1 ≤ s) && decide (s < n)) with
            | true => exact absurd hb this
            | false => simp
          · have hb : (decide (1 ≤ r) && decide (r < n) && decide (1 ≤ s) && decide (s < n)) = true := by
              simp only [Bool.and_eq_true, decide_eq_true_eq]; omega
            simp only [hrange, and_false, ↓reduceIte, hb, Bool.true_and]
            unfold Sig.recompute Spec.Ecdsa.verifyEq Sig.modInvN
            simp only [ecmult_nat, Nat.mod_mod, Nat.mul_comm (invMod s n) r, Nat.mul_comm (invMod s n) (beVal msg)]
            cases add (mul (r * invMod s n % n) (some Q)) (mul (beVal msg * invMod s n % n) G) with
            | none => simp
            | some q =>
              obtain ⟨x, y⟩ := q
              simp only []
              by_cases hxr : r = x % n
              · simp [hxr]
              · have : ¬ (x % n = r) := fun h => hxr h.symm
                simp [hxr, this]

theorem verify_iff (pk sig msg : Bytes) :
    Spec.Ecdsa.verify pk sig msg = true ↔ Spec.Ecdsa.Accepts pk sig msg := by
  unfold Spec.Ecdsa.verify Spec.Ecdsa.Accepts
  constructor
  · intro h
    cases hq : Secp.parsePubkey pk with
    | none => rw [hq] at h; simp at h
    | some Q =>
      cases hd : Spec.Ecdsa.decodeSig sig with
      | none => rw [hq, hd] at h; simp at h
      | some rs =>
        obtain ⟨r, s⟩ := rs
        rw [hq, hd] at h
        simp only [Bool.and_eq_true, decide_eq_true_eq] at h
        exact ⟨Q, r, s, rfl, rfl, h.1.1.1.1, h.1.1.1.2, h.1.1.2, h.1.2, h.2⟩
  · rintro ⟨Q, r, s, hq, hd, h1, h2, h3, h4, h5⟩
    rw [hq, hd]
    simp only [Bool.and_eq_true, decide_eq_true_eq]
    exact ⟨⟨⟨⟨h1, h2⟩, h3⟩, h4⟩, h5⟩

section
open GocoinV.C03

theorem hmacGo_eq (H : Hash) (key data : Bytes) (hk : key.length ≠ 64) :
    hmacGo H key data = hmac H key data := by
  unfold hmacGo hmac hmacKey
  by_cases h : key.length < 64
  · have : ¬ key.length > 64 := by omega
    simp [h, this]
  · have : key.length > 64 := by omega
    simp [h, this]

open Spec.Rfc6979 in
/-- model generator state `g` and RFC state `st` agree -/
def Rel (g : Rng) (st : St) : Prop := g.k = st.K ∧ g.v = st.V ∧ g.retry = true ∧ st.K.length = 32

open Spec.Rfc6979 in
theorem rel_step (H : Hash) (hH : ∀ b, (H b).length = 32) (g : Rng) (st : St) (h : Rel g st) :
    Rel (rngGenerate H g).1 (gen H (reseed H st)) ∧ (rngGenerate H g).2 = (gen H (reseed H st)).V := by
  obtain ⟨hk, hv, hr, hl⟩ := h
  have e1 : hmacGo H st.K (st.V ++ [0]) = hmac H st.K (st.V ++ [0]) := hmacGo_eq _ _ _ (by omega)
  have hl2 : (hmac H st.K (st.V ++ [0])).length = 32 := by unfold hmac; exact hH _
  unfold rngGenerate
  simp only [hr, ↓reduceIte, hk, hv]
  unfold Rel gen reseed
  simp only [e1, hmacGo_eq H (hmac H st.K (st.V ++ [0])) _ (by omega), hl2, and_self]

open Spec.Rfc6979 in
theorem loop_eq (H : Hash) (hH : ∀ b, (H b).length = 32) (x h1 : Bytes) :
    ∀ j i g out, Rel g (stateAt H x h1 i) → out = (stateAt H x h1 i).V →
      rngLoop H j g out = (stateAt H x h1 (i + j)).V := by
  intro j
  induction j with
  | zero => intro i g out _ ho; simpa [rngLoop] using ho
  | succ j ih =>
    intro i g out hrel _
    have := rel_step H hH g _ hrel
    simp only [rngLoop]
    have e : i + (j + 1) = (i + 1) + j := by omega
    rw [e]
    exact ih (i + 1) _ _ this.1 this.2

open Spec.Rfc6979 in
theorem rfc6979_eq (H : Hash) (hH : ∀ b, (H b).length = 32) (prv msg : Bytes)
    (hp : prv.length = 32) (hm : msg.length = 32) (c : Nat) :
    rfc6979Nonce H prv msg c = candidate H prv msg c := by
  unfold rfc6979Nonce candidate
  have hkd : padTo 32 (prv.take 32) ++ padTo 32 (msg.take 32) = prv ++ msg := by
    have a : prv.take 32 = prv := List.take_of_length_le (by omega)
    have b : msg.take 32 = msg := List.take_of_length_le (by omega)
    rw [a, b]; unfold padTo fill; simp [hp, hm]
  rw [hkd]
  -- first Generate (retry = false) reaches the RFC state after candidate 0
  have hf32 : (fill 32 (0 : UInt8)).length = 32 := by simp [fill]
  have hrel : Rel (rngGenerate H (rngInit H (prv ++ msg))).1 (stateAt H prv msg 0)
      ∧ (rngGenerate H (rngInit H (prv ++ msg))).2 = (stateAt H prv msg 0).V := by
    unfold rngGenerate rngInit stateAt gen init Rel
    simp only [Bool.false_eq_true, ↓reduceIte]
    have hl : ∀ k d, (hmac H k d).length = 32 := by intro k d; unfold hmac; exact hH _
    have hg : ∀ k d, k.length = 32 → hmacGo H k d = hmac H k d := fun k d h => hmacGo_eq H k d (by omega)
    simp [hg, hl, hf32, List.append_assoc]
  simp only [rngLoop]
  have := loop_eq H hH prv msg c 0 _ _ hrel.1 hrel.2
  simpa using this

theorem low_s_step (s0 : Nat) (h0 : s0 ≠ 0) (hlt : s0 < n) :
    let s1 := if s0 % 2 = 1 then n - s0 else s0
    let s2 := if s1 > halfOrder then n - s1 else s1
    0 < s2 ∧ s2 ≤ halfOrder := by
  unfold n at *
  unfold halfOrder
  dsimp only
  split <;> split <;> omega

theorem sign_low (sec msg k r s recid : Nat) (h : sign sec msg k = some (r, s, recid)) :
    0 < s ∧ s ≤ halfOrder ∧ r < n := by
  unfold sign at h
  split at h
  · simp at h
  · split at h
    · simp at h
    · rename_i x y hxy
      dsimp only at h
      split at h
      · simp at h
      · rename_i hs0
        have hlt : modInvN k * ((x % n * sec % n + msg) % n) % n < n := Nat.mod_lt _ n_pos
        have := low_s_step _ hs0 hlt
        dsimp only at this
        generalize modInvN k * ((x % n * sec % n + msg) % n) % n = s0 at *
        have hr : x % n < n := Nat.mod_lt _ n_pos
        by_cases a : s0 % 2 = 1 <;> by_cases b : (if s0 % 2 = 1 then n - s0 else s0) > halfOrder <;>
          simp only [a, ↓reduceIte] at h this b <;>
          simp only [b, ↓reduceIte, Option.some.injEq, Prod.mk.injEq] at h this <;>
          (obtain ⟨rfl, rfl, _⟩ := h; exact ⟨this.1, this.2, hr⟩)

end

end GocoinV.Proofs.C03
