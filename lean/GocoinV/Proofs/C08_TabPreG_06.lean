/- C08 table proof chunk (written once by Proofs/mk_c08_tab.py; static). -/
import GocoinV.Proofs.C08_TabDefs
import GocoinV.Gen.TablesPreG06
import GocoinV.Gen.TablesPreG05
namespace GocoinV.C08
open GocoinV.Gen

theorem preG_06 : chainOK (Secp.dbl Secp.G) ((pts Tables.preG05).getLastD none :: pts Tables.preG06) = true := by
  decide +kernel
theorem preG_06_ne : pts Tables.preG06 ≠ [] := by decide +kernel

end GocoinV.C08
